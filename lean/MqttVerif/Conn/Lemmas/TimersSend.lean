import MqttVerif.Conn.Lemmas.TimersSpec
/-!
# Helper lemmas for C15, part 5: every `process_send_*` path that sends ends in `send_post_process`
-/
set_option linter.unusedSimpArgs false
set_option linter.unusedVariables false
namespace MqttVerif.Conn
open MqttVerif Mon

/- `isSendEv` ("the event is a `RequestSendPacket`") is defined in `Conn/Model.lean` since fix
   999e935 (it is what `resendStored` tests) -/

@[simp] theorem isSendEv_send (p r) : isSendEv (.send p r) = true := rfl
@[simp] theorem isSendEv_reset (k ms) : isSendEv (.timerReset k ms) = false := rfl
@[simp] theorem isSendEv_cancel (k) : isSendEv (.timerCancel k) = false := rfl
@[simp] theorem isSendEv_recv (p) : isSendEv (.recv p) = false := rfl
@[simp] theorem isSendEv_released (i) : isSendEv (.released i) = false := rfl
@[simp] theorem isSendEv_error (e) : isSendEv (.error e) = false := rfl
@[simp] theorem isSendEv_close : isSendEv .close = false := rfl

/-- the `RequestSendPacket` events of an event list -/
def sends (l : List Ev) : List Ev := l.filter isSendEv

@[simp] theorem sends_nil : sends [] = [] := rfl
@[simp] theorem sends_append (l₁ l₂ : List Ev) : sends (l₁ ++ l₂) = sends l₁ ++ sends l₂ := by
  simp [sends]
@[simp] theorem sends_cons (e : Ev) (l : List Ev) :
    sends (e :: l) = if isSendEv e then e :: sends l else sends l := by
  simp [sends, List.filter_cons]

/-- timer events of the PINGREQ-send timer -/
def isSendTimerEv : Ev → Bool
  | .timerReset .pingreqSend _ => true
  | .timerCancel .pingreqSend => true
  | _ => false

def stev (l : List Ev) : List Ev := l.filter isSendTimerEv

@[simp] theorem stev_nil : stev [] = [] := rfl
@[simp] theorem stev_append (l₁ l₂ : List Ev) : stev (l₁ ++ l₂) = stev l₁ ++ stev l₂ := by
  simp [stev]
@[simp] theorem stev_cons (e : Ev) (l : List Ev) :
    stev (e :: l) = if isSendTimerEv e then e :: stev l else stev l := by
  simp [stev, List.filter_cons]

theorem stev_tev (l : List Ev) : stev (tev l) = stev l := by
  induction l with
  | nil => rfl
  | cons e l ih =>
    cases e with
    | timerReset k ms => cases k <;> simp_all [isSendTimerEv]
    | timerCancel k => cases k <;> simp_all [isSendTimerEv]
    | _ => simp_all [isSendTimerEv]

theorem stev_of_tev {l₁ l₂ : List Ev} (h : tev l₁ = tev l₂) : stev l₁ = stev l₂ := by
  rw [← stev_tev l₁, ← stev_tev l₂, h]

/-! ### `sends` frames -/

@[simp] theorem setPanic_sends (c : C) (m : String) : sends (c.setPanic m).ev = sends c.ev := rfl
@[simp] theorem releaseId_sends (c : C) (id : Nat) : sends (releaseId c id).ev = sends c.ev := by
  cases h : (Alloc.deallocate c.s.pidMan id).1 <;> simp [releaseId, h]
@[simp] theorem releaseIfUsed_sends (c : C) (id : Nat) : sends (releaseIfUsed c id).ev = sends c.ev := by
  unfold releaseIfUsed; split <;> simp
@[simp] theorem refuseSend_sends (c : C) (e : Nat) (p : Pkt) : sends (refuseSend c e p).ev = sends c.ev := by
  unfold refuseSend; split <;> simp
@[simp] theorem clearStoreRelated_sends (c : C) : sends (clearStoreRelated c).ev = sends c.ev := rfl
@[simp] theorem initConn_sends (c : C) (b : Bool) : sends (initConn c b).ev = sends c.ev := rfl
@[simp] theorem storeAdd_sends (c : C) (id : Nat) (p : Pkt) (m : String) :
    sends (storeAdd c id p m).ev = sends c.ev := by
  unfold storeAdd; split <;> simp
@[simp] theorem tasInsert_sends (c : C) (t : List Nat) (a : Nat) (m : String) :
    sends (tasInsert c t a m).ev = sends c.ev := by
  unfold tasInsert; (repeat' split) <;> simp
@[simp] theorem validateTopicAlias_sends (c : C) (ao : Option Nat) :
    sends (validateTopicAlias c ao).2.ev = sends c.ev := by
  unfold validateTopicAlias; (repeat' split) <;> simp
@[simp] theorem pubRefuseCleanup_sends (c : C) (pid : Option Nat) :
    sends (pubRefuseCleanup c pid).ev = sends c.ev := by
  unfold pubRefuseCleanup; (repeat' split) <;> simp
@[simp] theorem autoAlias_sends (c : C) (p : Pkt) : sends (autoAlias c p).1.ev = sends c.ev := by
  unfold autoAlias; (repeat' split) <;> simp
  all_goals (split <;> simp)
@[simp] theorem connectSendProp_sends (c : C) (id v : Nat) :
    sends (connectSendProp c id v).ev = sends c.ev := by
  unfold connectSendProp; (repeat' split) <;> simp
@[simp] theorem propsFold_connectSendProp_sends (c : C) (l : List (Nat × Nat)) :
    sends (propsFold connectSendProp c l).ev = sends c.ev := by
  induction l generalizing c with
  | nil => rfl
  | cons x l ih => obtain ⟨id, v⟩ := x; simp [propsFold, ih]

/-! ### the outcome of a `process_send_*` function -/

/-- nothing sent and no timer touched; or the connection ended (DISCONNECT / refusing CONNACK);
    or the function ends in `send_post_process`, having pushed no PINGREQ-timer event before -/
def SendOK (c c' : C) : Prop :=
  (sends c'.ev = sends c.ev ∧ tev c'.ev = tev c.ev) ∨
  c'.s.status = .disconnected ∨
  (∃ m, c' = sendPostProcess m ∧ stev m.ev = stev c.ev)

theorem SendOK.of_frame {c m c' : C} (h : SendOK m c') (h1 : sends m.ev = sends c.ev)
    (h2 : tev m.ev = tev c.ev) : SendOK c c' := by
  rcases h with ⟨a, b⟩ | h | ⟨x, hx, hs⟩
  · exact .inl ⟨a.trans h1, b.trans h2⟩
  · exact .inr (.inl h)
  · exact .inr (.inr ⟨x, hx, hs.trans (stev_of_tev h2)⟩)

/-- close `SendOK c (f …)` goals whose branches are frames or end in `sendPostProcess` -/
macro "sendok_cases" : tactic =>
  `(tactic| ((repeat' (first | split | simp only [])) <;> first
    | (refine .inl ⟨?_, ?_⟩ <;> (simp; done))
    | (refine .inr (.inr ⟨_, rfl, stev_of_tev ?_⟩); (simp; done))))

theorem psV3Simple_sendok (c : C) (p : Pkt) : SendOK c (psV3Simple c p) := by
  unfold psV3Simple; sendok_cases
theorem psV5Simple_sendok (c : C) (p : Pkt) : SendOK c (psV5Simple c p) := by
  unfold psV5Simple; sendok_cases
theorem psV5Puback_sendok (c : C) (p : Pkt) : SendOK c (psV5Puback c p) := by
  unfold psV5Puback; sendok_cases
theorem psV5Auth_sendok (c : C) (p : Pkt) : SendOK c (psV5Auth c p) := by
  unfold psV5Auth; sendok_cases
theorem psSubUnsub_sendok (c : C) (p : Pkt) : SendOK c (psSubUnsub c p) := by
  unfold psSubUnsub; sendok_cases
theorem psV3Connect_sendok (c : C) (p : Pkt) : SendOK c (psV3Connect c p) := by
  unfold psV3Connect; sendok_cases
theorem psV5Connect_sendok (c : C) (p : Pkt) : SendOK c (psV5Connect c p) := by
  unfold psV5Connect; sendok_cases

theorem psV5Pubrec_sendok (c : C) (p : Pkt) : SendOK c (psV5Pubrec c p) := by
  rcases hrc : p.rc with _ | rc
  · simp only [psV5Pubrec, hrc]; sendok_cases
  · by_cases hf : rc ≥ 0x80 <;> simp only [psV5Pubrec, hrc, hf, decide_true, decide_false] <;> sendok_cases

theorem psPubrel_sendok (c : C) (p : Pkt) : SendOK c (psPubrel c p) := by
  by_cases hn : c.s.needStore = true <;> simp only [psPubrel, hn] <;> sendok_cases

theorem psV3Publish_sendok (c : C) (p : Pkt) : SendOK c (psV3Publish c p) := by
  by_cases hw : willStore c.s = true <;> by_cases hq : p.qos = 2 <;>
    simp only [psV3Publish, hw, hq, if_true, if_false] <;> sendok_cases

theorem psV5PublishTail_sendok (c : C) (p : Pkt) (rel : Option Nat) :
    SendOK c (psV5PublishTail c p rel) := by
  by_cases h1 : p.qos > 0 ∧ c.s.sendMax.isSome = true <;> by_cases h2 : c.s.sendCount ≥ 4294967295 <;>
    simp only [psV5PublishTail, h1, h2, if_true, if_false] <;> sendok_cases

theorem psV5PublishAlias_sendok (c : C) (p : Pkt) (rel : Option Nat) (v : Bool) :
    SendOK c (psV5PublishAlias c p rel v) := by
  unfold psV5PublishAlias
  (repeat' (first | split | simp only []))
  all_goals first
    | (refine .inl ⟨?_, ?_⟩ <;> (simp; done))
    | (refine SendOK.of_frame (psV5PublishTail_sendok _ _ _) ?_ ?_ <;> (repeat' split) <;> (simp; done))

theorem psV5Publish_sendok (c : C) (p : Pkt) : SendOK c (psV5Publish c p) := by
  unfold psV5Publish
  (repeat' (first | split | simp only []))
  all_goals first
    | (refine .inl ⟨?_, ?_⟩ <;> (simp; done))
    | (refine SendOK.of_frame (psV5PublishAlias_sendok _ _ _ _) ?_ ?_ <;> (repeat' split) <;> (simp; done))

theorem psPingreq_sendok (c : C) (p : Pkt) : SendOK c (psPingreq c p) := by
  unfold psPingreq
  split
  · exact .inl ⟨by simp, by simp⟩
  split
  · exact .inl ⟨by simp, by simp⟩
  refine .inr (.inr ⟨_, rfl, ?_⟩)
  simp only [push_s]
  by_cases hr : c.s.respTimeoutMs = 0 <;> simp [hr, isSendTimerEv]

theorem psV3Disconnect_sendok (c : C) (p : Pkt) : SendOK c (psV3Disconnect c p) := by
  unfold psV3Disconnect; split
  · exact .inl ⟨by simp, by simp⟩
  · exact .inr (.inl (by simp))

theorem psV5Disconnect_sendok (c : C) (p : Pkt) : SendOK c (psV5Disconnect c p) := by
  unfold psV5Disconnect; (repeat' split)
  · exact .inl ⟨by simp, by simp⟩
  · exact .inl ⟨by simp, by simp⟩
  · exact .inr (.inl (by simp))

theorem psV3Connack_sendok (c : C) (p : Pkt) : SendOK c (psV3Connack c p) := by
  unfold psV3Connack; (repeat' split)
  · exact .inl ⟨by simp, by simp⟩
  · exact .inr (.inl (by simp))
  · exact .inr (.inr ⟨_, rfl, stev_of_tev (by simp)⟩)
  · exact .inr (.inr ⟨_, rfl, stev_of_tev (by simp)⟩)

@[simp] theorem connackSendProp_stev (c : C) (id v : Nat) :
    stev (connackSendProp c id v).ev = stev c.ev := by
  unfold connackSendProp; (repeat' split) <;> simp [isSendTimerEv]

@[simp] theorem propsFold_connackSendProp_stev (c : C) (l : List (Nat × Nat)) :
    stev (propsFold connackSendProp c l).ev = stev c.ev := by
  induction l generalizing c with
  | nil => rfl
  | cons x l ih => obtain ⟨id, v⟩ := x; simp [propsFold, ih]

theorem psV5Connack_sendok (c : C) (p : Pkt) : SendOK c (psV5Connack c p) := by
  unfold psV5Connack
  split
  · exact .inl ⟨by simp, by simp⟩
  split
  · exact .inl ⟨by simp, by simp⟩
  by_cases hr : p.rc = some 0
  · simp only [hr, if_true, ne_eq, not_true_eq_false, if_false]
    refine .inr (.inr ⟨_, rfl, ?_⟩)
    split
    · rw [stev_of_tev (sendStored_tv _).2.1]
      simp [isSendTimerEv]
    · rw [stev_of_tev (clearStoreRelated_tv _).2.1]
      simp [isSendTimerEv]
  · simp only [hr, if_false, ne_eq, not_false_eq_true, if_true]
    exact .inr (.inl (by simp))

theorem processSend_sendok (c : C) (p : Pkt) : SendOK c (processSend c p) := by
  unfold processSend
  (repeat' split)
  all_goals first
    | exact psV3Connect_sendok _ _
    | exact psV5Connect_sendok _ _
    | exact psV3Connack_sendok _ _
    | exact psV5Connack_sendok _ _
    | exact psV3Publish_sendok _ _
    | exact psV5Publish_sendok _ _
    | exact psPubrel_sendok _ _
    | exact psSubUnsub_sendok _ _
    | exact psPingreq_sendok _ _
    | exact psV3Disconnect_sendok _ _
    | exact psV5Disconnect_sendok _ _
    | exact psV3Simple_sendok _ _
    | exact psV5Simple_sendok _ _
    | exact psV5Puback_sendok _ _
    | exact psV5Pubrec_sendok _ _
    | exact psV5Auth_sendok _ _
    | exact .inl ⟨rfl, rfl⟩

theorem send_sendok (c : C) (p : Pkt) : SendOK c (send c p) := by
  unfold send; (repeat' split)
  · exact .inl ⟨by simp, (refuseSend_tv c _ p).2.1⟩
  · exact .inl ⟨by simp, (refuseSend_tv c _ p).2.1⟩
  · exact processSend_sendok c p

end MqttVerif.Conn
