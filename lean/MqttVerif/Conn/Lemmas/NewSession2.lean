import MqttVerif.Conn.Lemmas.NewSession
/-!
# C10 helper — new-session events, receive side and the `step` level
-/
set_option linter.unusedSimpArgs false
set_option linter.unusedVariables false
namespace MqttVerif.Conn.NSn
open MqttVerif MqttVerif.Conn

theorem ns_of_recv_connect {p : Pkt} (hk : p.kind = .connect) (hc : p.clean = false) : nsRecv p = false := by
  simp [nsRecv, hk, hc]

theorem ns_v3ConnectErr (e : Nat) : nsSend (mkV3Connack (v3ConnectErrRc e)) = false := by
  have : v3ConnectErrRc e ≠ 0 := by unfold v3ConnectErrRc; (repeat' split) <;> decide
  simp [nsSend, mkV3Connack, this]
theorem ns_v5ConnectErr (e : Nat) : nsSend (mkV5Connack (v5ConnectErrRc e)) = false := by
  have : v5ConnectErrRc e ≠ 0 := by unfold v5ConnectErrRc; (repeat' split) <;> decide
  simp [nsSend, mkV5Connack, this]

theorem prV3Connect_R (c : C) (x : Except Nat Pkt) (hx : ∀ p, x = .ok p → p.kind = .connect) :
    R c.s.pidMan c (prV3Connect c x) := by
  unfold prV3Connect
  split
  · exact R.err _ _
  · simp only []
    split
    · rename_i p
      have hk := hx p rfl
      have key : ∀ c2 : C, c2.ev = c.ev → c2.s.pidMan = c.s.pidMan →
          R c.s.pidMan c ((refreshPingreqRecv (if p.clean then clearStoreRelated c2
            else { c2 with s := { c2.s with needStore := true } })).push (.recv p)) := by
        intro c2 hev hpm
        cases hc : p.clean
        · refine R.ns ?_
          simp [ns_of_recv_connect hk hc, hev]
        · refine R.clr ?_
          simp only [if_true, push_s]
          exact Clr.of_sess (clr_clearStoreRelated' c2 (.inl hpm)) (by simp)
      exact key _ (by split <;> rfl) (by split <;> rfl)
    · exact R.err _ _

theorem prV5Connect_R (c : C) (x : Except Nat Pkt) (hx : ∀ p, x = .ok p → p.kind = .connect) :
    R c.s.pidMan c (prV5Connect c x) := by
  unfold prV5Connect
  split
  · exact R.err _ _
  · simp only []
    split
    · rename_i p
      have hk := hx p rfl
      have key : ∀ c2 : C, c2.ev = c.ev → c2.s.pidMan = c.s.pidMan →
          R c.s.pidMan c ((refreshPingreqRecv (propsFold connectRecvProp
            (if p.clean then clearStoreRelated c2 else c2) p.props)).push (.recv p)) := by
        intro c2 hev hpm
        cases hc : p.clean
        · refine R.ns ?_
          simp [ns_of_recv_connect hk hc, hev]
        · refine R.clr ?_
          simp only [if_true, push_s]
          refine Clr.of_sess (clr_clearStoreRelated' c2 (.inl hpm)) ?_
          rw [sess_refreshPingreqRecv, sess_propsFold _ sess_connectRecvProp]
      exact key _ (by split <;> rfl) (by split <;> rfl)
    · exact R.err _ _

theorem prV3Connack_R (c : C) (x : Except Nat Pkt)
    (hx : ∀ p, x = .ok p → p.kind = .connack ∧ Mon.findProp p pSEI ≠ some 0)
    (hst : ∀ x ∈ c.s.store, nsSend x.2 = false) : R c.s.pidMan c (prV3Connack c x) := by
  unfold prV3Connack
  split
  · exact R.err _ _
  · split
    · rename_i p
      obtain ⟨hk, hsei⟩ := hx p rfl
      by_cases hrc : p.rc = some 0
      · simp only [hrc, if_true]
        cases hsp : p.sp
        · refine R.clr ?_
          simp only [Bool.false_eq_true, if_false, push_s]
          exact clr_clearStoreRelated' _ (.inl rfl)
        · refine R.ns ?_
          simp only [if_true, push_ev, nsOf_append]
          have := ns_resendStored ({ c with s := { c.s with status := .connected } } : C) hst
          rw [this]
          simp [nsRecv, hk, hsp, hsei]
      · refine R.ns ?_
        simp [hrc, nsRecv, hk]
    · exact R.err _ _

theorem prV5Connack_R (c : C) (x : Except Nat Pkt) (hx : ∀ p, x = .ok p → p.kind = .connack)
    (hst : ∀ x ∈ c.s.store, nsSend x.2 = false) : R c.s.pidMan c (prV5Connack c x) := by
  unfold prV5Connack
  split
  · exact R.err _ _
  · split
    · rename_i p
      have hk := hx p rfl
      by_cases hrc : p.rc = some 0
      · simp only [hrc, if_true]
        have hf := fold_connackRecvProp_sess p.props { c with s := { c.s with status := .connected } }
        have hn : nsOf (propsFold connackRecvProp { c with s := { c.s with status := .connected } } p.props).ev
            = nsOf c.ev := by simp
        generalize propsFold connackRecvProp { c with s := { c.s with status := .connected } } p.props = c1 at hf hn
        cases hsp : p.sp
        · refine R.clr ?_
          simp only [Bool.false_eq_true, if_false, push_s]
          rcases hf with ⟨e, _⟩ | k
          · exact clr_clearStoreRelated' _ (.inl (congrArg (·.2.2.2.2.2) e))
          · exact clr_clearStoreRelated' _ (.inr k.2.2.2.2.2)
        · simp only [if_true]
          rcases hf with ⟨e, hno⟩ | k
          · refine R.ns ?_
            have hs : c1.s.store = c.s.store := congrArg (·.1) e
            simp only [push_ev, nsOf_append]
            rw [ns_resendStored _ (by rw [hs]; exact hst), hn]
            have : Mon.findProp p pSEI ≠ some 0 := fun h => hno (findProp_mem h)
            simp [nsRecv, hk, hsp, this]
          · refine R.clr ?_
            simp only [push_s]
            exact (clr_resendStored c1 k).1
      · refine R.ns ?_
        simp [hrc, nsRecv, hk]
    · first | exact R.err _ _ | (split <;> exact R.err _ _)


/-! ## the `step` level -/

/-- what the new-session monitor needs of the parser of a `recv`: a successful result has the
    packet type of the frame it was parsed from, and a v3.1.1 packet carries no Session Expiry
    Interval property (v3.1.1 packets have no properties at all) -/
def ParseNS (parse : Nat → Nat → List Nat → Except Nat Pkt) : Prop :=
  ∀ v fh d p, parse v fh d = .ok p → p.kind.nibble = fh / 16 ∧ (v = 4 → Mon.findProp p pSEI ≠ some 0)

/-- no stored packet is itself a session-starting packet (the store holds PUBLISH / PUBREL only:
    `StoreInv`; `restore_packets` of the implementation takes `GenericStorePacket`s) -/
def StoreNS (s : St) : Prop := ∀ x ∈ s.store, x.2.kind ≠ .connect ∧ x.2.kind ≠ .connack

theorem StoreNS.ns {s : St} (h : StoreNS s) : ∀ x ∈ s.store, nsSend x.2 = false :=
  fun x hx => nsSend_kind (h x hx).1 (h x hx).2

theorem send_R (c : C) (p : Pkt) (hst : ∀ x ∈ c.s.store, nsSend x.2 = false) :
    R c.s.pidMan c (send c p) := by
  unfold send
  split
  · exact R.ns (by simp)
  split
  · exact R.ns (by simp)
  · by_cases h1 : p.kind = .connect
    · unfold processSend
      split <;> simp only [h1]
      · exact psV3Connect_R c p h1
      · exact psV5Connect_R c p h1
    · by_cases h2 : p.kind = .connack
      · unfold processSend
        split <;> simp only [h2]
        · exact psV3Connack_R c p h2 hst
        · exact psV5Connack_R c p h2 hst
      · exact R.ns (ns_processSend_other c p h1 h2)

theorem kind_of_nibble {k : Kind} {t : Nat} (h : k.nibble = t) :
    (t = 1 → k = .connect) ∧ (t = 2 → k = .connack) ∧ (t ≠ 1 → k ≠ .connect) ∧ (t ≠ 2 → k ≠ .connack) := by
  cases k <;> simp [Kind.nibble] at h <;> subst h <;> simp

theorem dispatchRecv_R (c : C) (t : Nat) (x : Except Nat Pkt)
    (hx : ∀ p, x = .ok p → p.kind.nibble = t ∧ (c.s.ver = 4 → Mon.findProp p pSEI ≠ some 0))
    (hst : ∀ x ∈ c.s.store, nsSend x.2 = false) : R c.s.pidMan c (dispatchRecv c t x) := by
  have hk : ∀ p, x = .ok p → t ≠ 1 → t ≠ 2 → nsRecv p = false := fun p hp h1 h2 =>
    nsRecv_kind ((kind_of_nibble (hx p hp).1).2.2.1 h1) ((kind_of_nibble (hx p hp).1).2.2.2 h2)
  unfold dispatchRecv
  split
  · split
    · exact prV3Connect_R c x (fun p hp => (kind_of_nibble (hx p hp).1).1 rfl)
    · exact prV5Connect_R c x (fun p hp => (kind_of_nibble (hx p hp).1).1 rfl)
  · split
    · rename_i hv
      exact prV3Connack_R c x (fun p hp => ⟨(kind_of_nibble (hx p hp).1).2.1 rfl, (hx p hp).2 hv⟩) hst
    · exact prV5Connack_R c x (fun p hp => (kind_of_nibble (hx p hp).1).2.1 rfl) hst
  · split
    · exact R.ns (ns_prV3Publish' c x (fun p hp => hk p hp (by decide) (by decide)))
    · exact R.ns (ns_prV5Publish c x (fun p hp => by
        have := (hx p hp).1; cases hq : p.kind <;> simp_all [Kind.nibble]))
  · exact R.ns (ns_prPuback c x (fun p hp => hk p hp (by decide) (by decide)))
  · exact R.ns (ns_prPubrec c x (fun p hp => hk p hp (by decide) (by decide)))
  · exact R.ns (ns_prPubrel c x (fun p hp => hk p hp (by decide) (by decide)))
  · exact R.ns (ns_prPubcomp c x (fun p hp => hk p hp (by decide) (by decide)))
  · exact R.ns (ns_prPlain c x (fun p hp => hk p hp (by decide) (by decide)))
  · exact R.ns (ns_prSubUnsuback c true x (fun p hp => hk p hp (by decide) (by decide)))
  · exact R.ns (ns_prPlain c x (fun p hp => hk p hp (by decide) (by decide)))
  · exact R.ns (ns_prSubUnsuback c false x (fun p hp => hk p hp (by decide) (by decide)))
  · exact R.ns (ns_prPingreq c x (fun p hp => hk p hp (by decide) (by decide)))
  · exact R.ns (ns_prPingresp c x (fun p hp => hk p hp (by decide) (by decide)))
  · exact R.ns (ns_prDisconnect c x (fun p hp => hk p hp (by decide) (by decide)))
  · split
    · exact R.ns (ns_prPlain c x (fun p hp => hk p hp (by decide) (by decide)))
    · exact R.err _ _
  · exact R.err _ _

theorem processRecvPacket_R (c : C) (fh : Nat) (data : List Nat) (parse : Nat → Except Nat Pkt)
    (hx : ∀ v p, parse v = .ok p → p.kind.nibble = fh / 16 ∧ (v = 4 → Mon.findProp p pSEI ≠ some 0))
    (hst : ∀ x ∈ c.s.store, nsSend x.2 = false) :
    R c.s.pidMan c (processRecvPacket c fh data parse) := by
  unfold processRecvPacket
  split
  · exact R.err _ _
  · simp only []
    split
    · exact R.err _ _
    split
    · split
      · split
        · exact R.err _ _
        · split
          · rename_i h1 _ _
            exact prV3Connect_R { c with s := { c.s with ver := 4 } } (parse 4)
              (fun p hp => (kind_of_nibble (hx 4 p hp).1).1 h1)
          split
          · rename_i h1 _ _ _
            exact prV5Connect_R { c with s := { c.s with ver := 5 } } (parse 5)
              (fun p hp => (kind_of_nibble (hx 5 p hp).1).1 h1)
          · exact R.err _ _
      · exact R.err _ _
    · exact dispatchRecv_R c _ _ (fun p hp => hx _ p hp) hst

theorem recv_R (c : C) (inp : List Nat) (parse : Nat → Nat → List Nat → Except Nat Pkt) (hp : ParseNS parse)
    (hst : ∀ x ∈ c.s.store, nsSend x.2 = false) : R c.s.pidMan c (recv c inp parse).1 := by
  unfold recv
  obtain ⟨pb, out, rest⟩ := Framing.feed c.s.pb inp
  simp only []
  cases out with
  | none => exact R.ns rfl
  | some o =>
    cases o with
    | complete fh data =>
      exact processRecvPacket_R { c with s := { c.s with pb := pb } } fh data _ (fun v p h => hp v fh data p h) hst
    | error => exact R.err _ _

/-- **every call**: the events contain no new-session event, or an error event, or nothing of the
    old session is left afterwards -/
theorem step_R (cfg : Cfg) (s : St) (op : Op) (hp : ∀ inp parse, op = .recv inp parse → ParseNS parse)
    (hst : StoreNS s) : R s.pidMan { cfg := cfg, s := s } (step cfg s op) := by
  cases op with
  | send p => exact send_R { cfg := cfg, s := s } p hst.ns
  | recv inp parse => exact recv_R { cfg := cfg, s := s } inp parse (hp inp parse rfl) hst.ns
  | timer k => exact R.ns (ns_notifyTimerFired _ k)
  | closed => exact R.ns (ns_notifyClosed _)
  | setInterval d => exact R.ns (ns_setPingreqSendInterval _ d)
  | setFlag f b => exact R.ns rfl
  | setRespTimeout ms => exact R.ns rfl
  | acquire => exact R.ns rfl
  | register id => exact R.ns rfl
  | release id => exact R.ns (by show nsOf (releasePacketId _ id).ev = _; rw [releasePacketId_ev']; exact ns_releaseIfUsed _ id)
  | erase id => exact R.ns (ns_eraseStoredPublish _ id)
  | restoreHandled ids => exact R.ns rfl
  | restorePackets ps => exact R.ns (by show nsOf (restorePackets _ ps).ev = _; rw [ns_restorePackets])

end MqttVerif.Conn.NSn
