import MqttVerif.Conn.Lemmas.PairExchange4
/-!
# Helpers for `Props/C01L2c.lean`: arbitrary schedules of deliveries to either endpoint and losses

* `Act4`, `act4`, `runActs4`: a schedule is a list of `toS` (deliver the head of the client→server
  channel to the server; nothing happens if it is empty), `toC` (likewise to the client), `deliver`
  (`deliver1`: the deterministic choice, used by `drain`) and `lose` (`lose` followed at once by `resume v`).
* `phRunG`, `outRunG`, `run_obs2`: a finite transducer (phase type `Ph`, shape `sysOf`, successor `next`,
  outputs `nS nC rC rS`) whose every step is matched by the pair system (`hcl`) is matched along every
  schedule: shape of the reached phase, observations = the transducer's outputs (`Obs2`).
* `outRunG_all`, `outRunG_count`, `outRunG_count_le`, `outRunG_nil`: facts about all outputs of all schedules from
  facts about single steps (finite checks on the tables).
* `sel`: one row of a table.
-/
set_option linter.unusedSimpArgs false
set_option linter.unusedVariables false
namespace MqttVerif.Conn.Pair
open MqttVerif MqttVerif.Conn

inductive Act4 | toS | toC | deliver | lose
deriving DecidableEq, Repr

def act4 (v : Nat) (y : Sys) : Act4 → Sys
  | .toS => deliverS y
  | .toC => deliverC y
  | .deliver => deliver1 y
  | .lose => resume v (lose y)

def runActs4 (v : Nat) : Sys → List Act4 → Sys
  | y, [] => y
  | y, a :: as => runActs4 v (act4 v y a) as

theorem runActs4_append (v : Nat) (y : Sys) (a b : List Act4) :
    runActs4 v y (a ++ b) = runActs4 v (runActs4 v y a) b := by
  induction a generalizing y with
  | nil => rfl
  | cons x a ih => simp only [List.cons_append, runActs4]; exact ih _

theorem drain_eq_runActs4 (v n : Nat) (y : Sys) : drain n y = runActs4 v y (List.replicate n .deliver) := by
  induction n generalizing y with
  | zero => rfl
  | succ n ih => simp only [drain, List.replicate_succ, runActs4, act4]; exact ih _

/-- a schedule of `Side`s is a schedule -/
def ofSide : Side → Act4
  | .toS => .toS
  | .toC => .toC

theorem runSides_eq_runActs4 (v : Nat) (y : Sys) (σ : List Side) : runSides y σ = runActs4 v y (σ.map ofSide) := by
  induction σ generalizing y with
  | nil => rfl
  | cons a σ ih => cases a <;> simp only [runSides, deliverAt, List.map_cons, runActs4, act4, ofSide] <;> exact ih _

/-- a schedule of `Act`s (PairExchange2) is a schedule -/
def ofAct : Act → Act4
  | .deliver => .deliver
  | .lose => .lose

theorem runActs_eq_runActs4 (v : Nat) (y : Sys) (acts : List Act) : runActs v y acts = runActs4 v y (acts.map ofAct) := by
  induction acts generalizing y with
  | nil => rfl
  | cons a as ih => cases a <;> simp only [runActs, act, List.map_cons, runActs4, act4, ofAct] <;> exact ih _

theorem act4_prep (v : Nat) (lc ls : List Ev) (y : Sys) (a : Act4) : act4 v (prep lc ls y) a = prep lc ls (act4 v y a) := by
  cases a <;> simp only [act4, deliverS_prep, deliverC_prep, deliver1_prep, lose_prep, resume_prep]

theorem l2c_replicate_add {α : Type} (x : α) (a b : Nat) :
    List.replicate (a + b) x = List.replicate a x ++ List.replicate b x := by
  induction a with
  | zero => simp
  | succ a ih => rw [Nat.succ_add, List.replicate_succ, List.replicate_succ, ih]; rfl

/-- one row of a table -/
def sel {α : Type} (a : Act4) (x y z w : α) : α :=
  match a with
  | .toS => x
  | .toC => y
  | .deliver => z
  | .lose => w

/-! ## composition of observations -/

theorem Obs2.step {t t' y : Sys} {NS NC dnS dnC : List Pkt} {RC RS drC drS : List Nat} (f : Sys → Sys)
    (hf : ∀ lc ls z, f (prep lc ls z) = prep lc ls (f z))
    (hl : t.logC = [] ∧ t.logS = []) (hy : Obs2 t NS NC RC RS y) (ht : Obs2 t' dnS dnC drC drS (f t)) :
    Obs2 t' (NS ++ dnS) (NC ++ dnC) (RC ++ drC) (RS ++ drS) (f y) := by
  have e := eq_prep_of_core hy.c hy.s hy.c2s hy.s2c hl
  rw [e, hf]
  refine ⟨ht.c, ht.s, ht.c2s, ht.s2c, (errFree_append _ _).2 ⟨hy.errC, ht.errC⟩,
    (errFree_append _ _).2 ⟨hy.errS, ht.errS⟩, ?_, ?_, ?_, ?_⟩
  · show pubNotes (y.logS ++ (f t).logS) = _; rw [pubNotes_append, hy.notesS, ht.notesS]
  · show pubNotes (y.logC ++ (f t).logC) = _; rw [pubNotes_append, hy.notesC, ht.notesC]
  · show releasedIds (y.logC ++ (f t).logC) = _; rw [releasedIds_append, hy.relC, ht.relC]
  · show releasedIds (y.logS ++ (f t).logS) = _; rw [releasedIds_append, hy.relS, ht.relS]

/-! ## generic transducer -/

section transducerG
variable {Ph : Type} {α : Type}

def phRunG (next : Ph → Act4 → Ph) : Ph → List Act4 → Ph
  | ph, [] => ph
  | ph, a :: as => phRunG next (next ph a) as

def outRunG (next : Ph → Act4 → Ph) (out : Ph → Act4 → List α) : Ph → List Act4 → List α
  | _, [] => []
  | ph, a :: as => out ph a ++ outRunG next out (next ph a) as

theorem phRunG_append (next : Ph → Act4 → Ph) (ph : Ph) (a b : List Act4) :
    phRunG next ph (a ++ b) = phRunG next (phRunG next ph a) b := by
  induction a generalizing ph with
  | nil => rfl
  | cons x a ih => simp only [List.cons_append, phRunG]; exact ih _

/-- every output of every schedule satisfies `p` if every output of every step does -/
theorem outRunG_all (next : Ph → Act4 → Ph) (out : Ph → Act4 → List α) (p : α → Prop)
    (h : ∀ ph a, ∀ x ∈ out ph a, p x) : ∀ acts ph, ∀ x ∈ outRunG next out ph acts, p x := by
  intro acts
  induction acts with
  | nil => intro ph x hx; simp [outRunG] at hx
  | cons a as ih =>
    intro ph x hx
    simp only [outRunG, List.mem_append] at hx
    rcases hx with hx | hx
    · exact h ph a x hx
    · exact ih _ x hx

theorem outRunG_nil (next : Ph → Act4 → Ph) (out : Ph → Act4 → List α) (h : ∀ ph a, out ph a = []) :
    ∀ acts ph, outRunG next out ph acts = [] := by
  intro acts
  induction acts with
  | nil => intro ph; rfl
  | cons a as ih => intro ph; simp only [outRunG, h, ih, List.append_nil]

/-- exact counting: a counter on phases that every step advances by the measure of its output
    measures the whole output -/
theorem outRunG_count (next : Ph → Act4 → Ph) (out : Ph → Act4 → List α) (f : List α → Nat)
    (hf0 : f [] = 0) (hf : ∀ a b, f (a ++ b) = f a + f b) (cnt : Ph → Nat)
    (h : ∀ ph a, cnt (next ph a) = cnt ph + f (out ph a)) :
    ∀ acts ph, cnt (phRunG next ph acts) = cnt ph + f (outRunG next out ph acts) := by
  intro acts
  induction acts with
  | nil => intro ph; simp [phRunG, outRunG, hf0]
  | cons a as ih => intro ph; simp only [phRunG, outRunG, ih, h, hf]; omega

/-- lower bound: a counter that no step advances by more than the measure of its output -/
theorem outRunG_count_le (next : Ph → Act4 → Ph) (out : Ph → Act4 → List α) (f : List α → Nat)
    (hf : ∀ a b, f (a ++ b) = f a + f b) (cnt : Ph → Nat)
    (h : ∀ ph a, cnt (next ph a) ≤ cnt ph + f (out ph a)) :
    ∀ acts ph, cnt (phRunG next ph acts) ≤ cnt ph + f (outRunG next out ph acts) := by
  intro acts
  induction acts with
  | nil => intro ph; simp [phRunG, outRunG]
  | cons a as ih =>
    intro ph
    have := ih (next ph a)
    have := h ph a
    simp only [phRunG, outRunG, hf]; omega

/-- from `h8` (eight deterministic deliveries lead from every phase to `done`) and `hd` -/
theorem phRunG_done (next : Ph → Act4 → Ph) (done : Ph)
    (h8 : ∀ ph, phRunG next ph (List.replicate 8 .deliver) = done) (hd : next done .deliver = done)
    (n : Nat) (hn : 8 ≤ n) (ph : Ph) : phRunG next ph (List.replicate n .deliver) = done := by
  obtain ⟨m, rfl⟩ := Nat.exists_eq_add_of_le hn
  rw [l2c_replicate_add, phRunG_append, h8]
  induction m with
  | zero => rfl
  | succ m ih => simpa [List.replicate_succ, phRunG, hd] using ih

/-- the pair follows the transducer -/
theorem run_obs2 {v : Nat} (sysOf : Ph → Sys) (next : Ph → Act4 → Ph) (nS nC : Ph → Act4 → List Pkt)
    (rC rS : Ph → Act4 → List Nat) (hlog : ∀ ph, (sysOf ph).logC = [] ∧ (sysOf ph).logS = [])
    (hcl : ∀ ph a, Obs2 (sysOf (next ph a)) (nS ph a) (nC ph a) (rC ph a) (rS ph a) (act4 v (sysOf ph) a)) :
    ∀ acts ph NS NC RC RS y, Obs2 (sysOf ph) NS NC RC RS y →
      Obs2 (sysOf (phRunG next ph acts)) (NS ++ outRunG next nS ph acts) (NC ++ outRunG next nC ph acts)
        (RC ++ outRunG next rC ph acts) (RS ++ outRunG next rS ph acts) (runActs4 v y acts) := by
  intro acts
  induction acts with
  | nil => intro ph NS NC RC RS y h; simpa [phRunG, outRunG, runActs4] using h
  | cons a as ih =>
    intro ph NS NC RC RS y h
    have h1 := Obs2.step (fun z => act4 v z a) (fun lc ls z => act4_prep v lc ls z a) (hlog ph) h (hcl ph a)
    have := ih _ _ _ _ _ _ h1
    simpa [phRunG, outRunG, runActs4, List.append_assoc] using this

end transducerG

/-! ## measures -/

/-- the notifications that carry packet identifier `id` -/
def notesOf (id : Nat) (N : List Pkt) : List Pkt := N.filter (fun Q => Q.pid = some id)

theorem notesOf_append (id : Nat) (a b : List Pkt) : notesOf id (a ++ b) = notesOf id a ++ notesOf id b := by
  simp [notesOf]

/-- number of notifications carrying identifier `id` -/
def cntOf (id : Nat) (N : List Pkt) : Nat := (notesOf id N).length

theorem cntOf_append (id : Nat) (a b : List Pkt) : cntOf id (a ++ b) = cntOf id a + cntOf id b := by
  simp [cntOf, notesOf_append]

theorem count_append' (id : Nat) (a b : List Nat) : (a ++ b).count id = a.count id + b.count id := by
  simp

/-- v5.0: PUBCOMP "Packet Identifier not found" for a PUBREL retransmitted after the receiver
    completed; v3.1.1: plain PUBCOMP -/
def pcA (v id : Nat) : Pkt := if v = 5 then ackRcN id else ackN v .pubcomp id

/-- the delivery clauses of C01 for the notification list `N` of an application that is sent `P1`
    (QoS `q1`, identifier 1) and `P2` (QoS `q2`, identifier 2): only copies of the two messages (same
    packet up to the DUP flag), each at least once, a QoS 2 message exactly once -/
def DeliverySpec (q1 q2 : Nat) (P1 P2 : Pkt) (N : List Pkt) : Prop :=
  (∀ Q ∈ N, Q.pid = some 1 ∨ Q.pid = some 2) ∧
  (∀ Q ∈ notesOf 1 N, sameMsg P1 Q) ∧ (∀ Q ∈ notesOf 2 N, sameMsg P2 Q) ∧
  1 ≤ (notesOf 1 N).length ∧ 1 ≤ (notesOf 2 N).length ∧
  (q1 = 2 → (notesOf 1 N).length = 1) ∧ (q2 = 2 → (notesOf 2 N).length = 1)

/-- identifiers 1 and 2 released exactly once each, nothing else -/
def RelSpec (R : List Nat) : Prop := R = [1, 2] ∨ R = [2, 1]

theorem relSpec_of_counts (R : List Nat) (h1 : R.count 1 = 1) (h2 : R.count 2 = 1) (h : ∀ id ∈ R, id = 1 ∨ id = 2) :
    RelSpec R := by
  match R, h1, h2, h with
  | [], h1, _, _ => simp at h1
  | [a], h1, h2, h =>
    rcases h a (by simp) with rfl | rfl <;> simp at h1 h2
  | [a, b], h1, h2, h =>
    rcases h a (by simp) with rfl | rfl <;> rcases h b (by simp) with rfl | rfl <;> simp [RelSpec] at h1 h2 ⊢
  | a :: b :: c :: rest, h1, h2, h =>
    exfalso
    rcases h a (by simp) with rfl | rfl <;> rcases h b (by simp) with rfl | rfl <;> rcases h c (by simp) with rfl | rfl <;>
      simp [List.count_cons] at h1 h2 <;> omega

theorem eq_one_of_count (R : List Nat) (h1 : R.length = 1) (h : ∀ id ∈ R, id = 1) : R = [1] := by
  match R, h1, h with
  | [a], _, h => rw [h a (by simp)]

/-! ## a verified table gives the theorem for every schedule -/

section sched
variable {Ph : Type} {v : Nat}
variable (sysOf : Ph → Sys) (next : Ph → Act4 → Ph) (nS nC : Ph → Act4 → List Pkt) (rC rS : Ph → Act4 → List Nat)
  (start done : Ph) (y0 : Sys)

/-- after any schedule and a final drain the pair is in the idle established session and its
    observations are the transducer's outputs -/
theorem sched_obs (hlog : ∀ ph, (sysOf ph).logC = [] ∧ (sysOf ph).logS = [])
    (hcl : ∀ ph a, Obs2 (sysOf (next ph a)) (nS ph a) (nC ph a) (rC ph a) (rS ph a) (act4 v (sysOf ph) a))
    (hstart : Obs2 (sysOf start) [] [] [] [] y0) (hdone : sysOf done = established v)
    (h8 : ∀ ph, phRunG next ph (List.replicate 8 .deliver) = done) (hd : next done .deliver = done)
    (acts : List Act4) (n : Nat) (hn : 8 ≤ n) :
    phRunG next start (acts ++ List.replicate n .deliver) = done ∧
    Obs2 (established v) (outRunG next nS start (acts ++ List.replicate n .deliver))
      (outRunG next nC start (acts ++ List.replicate n .deliver))
      (outRunG next rC start (acts ++ List.replicate n .deliver))
      (outRunG next rS start (acts ++ List.replicate n .deliver)) (drain n (runActs4 v y0 acts)) := by
  have hph : phRunG next start (acts ++ List.replicate n .deliver) = done := by
    rw [phRunG_append]; exact phRunG_done next done h8 hd n hn _
  refine ⟨hph, ?_⟩
  have := run_obs2 (v := v) sysOf next nS nC rC rS hlog hcl (acts ++ List.replicate n .deliver) start [] [] [] [] y0 hstart
  rw [hph, hdone, runActs4_append, ← drain_eq_runActs4] at this
  simpa using this

/-- at any moment of any schedule: no `.error` event at either side -/
theorem sched_safe (hlog : ∀ ph, (sysOf ph).logC = [] ∧ (sysOf ph).logS = [])
    (hcl : ∀ ph a, Obs2 (sysOf (next ph a)) (nS ph a) (nC ph a) (rC ph a) (rS ph a) (act4 v (sysOf ph) a))
    (hstart : Obs2 (sysOf start) [] [] [] [] y0) (acts : List Act4) :
    errFree (runActs4 v y0 acts).logC ∧ errFree (runActs4 v y0 acts).logS := by
  have := run_obs2 (v := v) sysOf next nS nC rC rS hlog hcl acts start [] [] [] [] y0 hstart
  exact ⟨this.errC, this.errS⟩

end sched

theorem Obs2.quiet {v : Nat} (hv : v = 4 ∨ v = 5) {NS NC : List Pkt} {RC RS : List Nat} {y : Sys}
    (h : Obs2 (established v) NS NC RC RS y) : Quiet v y := by
  have e := established_eq v hv
  exact ⟨h.c.trans (by rw [e]), h.s.trans (by rw [e]), h.c2s.trans (by rw [e]), h.s2c.trans (by rw [e])⟩

section sched5
variable {Ph : Type} {v q1 q2 : Nat} {P1 P2 : Pkt}
variable (sysOf : Ph → Sys) (next : Ph → Act4 → Ph) (nS nC : Ph → Act4 → List Pkt) (rC rS : Ph → Act4 → List Nat)
  (start done : Ph) (y0 : Sys)

/-- two same-direction exchanges (identifiers 1, 2; `d` = the client publishes): from a verified
    table with its counters to the delivery clauses for every schedule -/
theorem sched5_main (hv : v = 4 ∨ v = 5) (d : Bool) (nR nX : Ph → Act4 → List Pkt) (rP rR : Ph → Act4 → List Nat)
    (hsw : (d = true ∧ nR = nS ∧ nX = nC ∧ rP = rC ∧ rR = rS) ∨ (d = false ∧ nR = nC ∧ nX = nS ∧ rP = rS ∧ rR = rC))
    (c1 c2 r1 r2 : Ph → Nat)
    (hlog : ∀ ph, (sysOf ph).logC = [] ∧ (sysOf ph).logS = [])
    (hcl : ∀ ph a, Obs2 (sysOf (next ph a)) (nS ph a) (nC ph a) (rC ph a) (rS ph a) (act4 v (sysOf ph) a))
    (hstart : Obs2 (sysOf start) [] [] [] [] y0) (hdone : sysOf done = established v)
    (h8 : ∀ ph, phRunG next ph (List.replicate 8 .deliver) = done) (hd : next done .deliver = done)
    (hX : ∀ ph a, nX ph a = []) (hRR : ∀ ph a, rR ph a = [])
    (hok : ∀ ph a, ∀ Q ∈ nR ph a, (Q.pid = some 1 ∧ sameMsg P1 Q) ∨ (Q.pid = some 2 ∧ sameMsg P2 Q))
    (hrel : ∀ ph a, ∀ id ∈ rP ph a, id = 1 ∨ id = 2)
    (hc1 : ∀ ph a, c1 (next ph a) ≤ c1 ph + cntOf 1 (nR ph a))
    (hc2 : ∀ ph a, c2 (next ph a) ≤ c2 ph + cntOf 2 (nR ph a))
    (hc1x : q1 = 2 → ∀ ph a, c1 (next ph a) = c1 ph + cntOf 1 (nR ph a))
    (hc2x : q2 = 2 → ∀ ph a, c2 (next ph a) = c2 ph + cntOf 2 (nR ph a))
    (hr1 : ∀ ph a, r1 (next ph a) = r1 ph + (rP ph a).count 1)
    (hr2 : ∀ ph a, r2 (next ph a) = r2 ph + (rP ph a).count 2)
    (s0 : c1 start = 0 ∧ c2 start = 0 ∧ r1 start = 0 ∧ r2 start = 0)
    (s1 : c1 done = 1 ∧ c2 done = 1 ∧ r1 done = 1 ∧ r2 done = 1)
    (acts : List Act4) (n : Nat) (hn : 8 ≤ n) :
    let y := drain n (runActs4 v y0 acts)
    Quiet v y ∧ errFree y.logC ∧ errFree y.logS ∧ pubNotes (sendLog d y) = [] ∧ releasedIds (recvLog d y) = [] ∧
    DeliverySpec q1 q2 P1 P2 (pubNotes (recvLog d y)) ∧ RelSpec (releasedIds (sendLog d y)) := by
  intro y
  obtain ⟨hph, o⟩ := sched_obs sysOf next nS nC rC rS start done y0 hlog hcl hstart hdone h8 hd acts n hn
  generalize hA : acts ++ List.replicate n Act4.deliver = A at hph o
  -- the four streams by role
  have eNR : pubNotes (recvLog d y) = outRunG next nR start A := by
    rcases hsw with ⟨rfl, rfl, _, _, _⟩ | ⟨rfl, rfl, _, _, _⟩
    · exact o.notesS
    · exact o.notesC
  have eNX : pubNotes (sendLog d y) = outRunG next nX start A := by
    rcases hsw with ⟨rfl, _, rfl, _, _⟩ | ⟨rfl, _, rfl, _, _⟩
    · exact o.notesC
    · exact o.notesS
  have eRP : releasedIds (sendLog d y) = outRunG next rP start A := by
    rcases hsw with ⟨rfl, _, _, rfl, _⟩ | ⟨rfl, _, _, rfl, _⟩
    · exact o.relC
    · exact o.relS
  have eRR : releasedIds (recvLog d y) = outRunG next rR start A := by
    rcases hsw with ⟨rfl, _, _, _, rfl⟩ | ⟨rfl, _, _, _, rfl⟩
    · exact o.relS
    · exact o.relC
  have aok := outRunG_all next nR _ hok A start
  have arel := outRunG_all next rP _ hrel A start
  have k1 := outRunG_count_le next nR (cntOf 1) (cntOf_append 1) c1 hc1 A start
  have k2 := outRunG_count_le next nR (cntOf 2) (cntOf_append 2) c2 hc2 A start
  have j1 := outRunG_count next rP (fun l => l.count 1) (by simp) (by intro a b; simp) r1 hr1 A start
  have j2 := outRunG_count next rP (fun l => l.count 2) (by simp) (by intro a b; simp) r2 hr2 A start
  rw [hph] at k1 k2 j1 j2
  obtain ⟨z1, z2, z3, z4⟩ := s0
  obtain ⟨d1, d2, d3, d4⟩ := s1
  refine ⟨o.quiet hv, o.errC, o.errS, ?_, ?_, ?_, ?_⟩
  · rw [eNX, outRunG_nil next nX hX]
  · rw [eRR, outRunG_nil next rR hRR]
  · rw [eNR]
    refine ⟨?_, ?_, ?_, ?_, ?_, ?_, ?_⟩
    · intro Q hQ
      rcases aok Q hQ with h | h
      · exact Or.inl h.1
      · exact Or.inr h.1
    · intro Q hQ
      simp only [notesOf, List.mem_filter, decide_eq_true_eq] at hQ
      rcases aok Q hQ.1 with h | h
      · exact h.2
      · rw [hQ.2] at h; simp at h
    · intro Q hQ
      simp only [notesOf, List.mem_filter, decide_eq_true_eq] at hQ
      rcases aok Q hQ.1 with h | h
      · rw [hQ.2] at h; simp at h
      · exact h.2
    · show 1 ≤ cntOf 1 _; omega
    · show 1 ≤ cntOf 2 _; omega
    · intro hq
      have := outRunG_count next nR (cntOf 1) (by simp [cntOf, notesOf]) (cntOf_append 1) c1 (hc1x hq) A start
      rw [hph] at this
      show cntOf 1 _ = 1; omega
    · intro hq
      have := outRunG_count next nR (cntOf 2) (by simp [cntOf, notesOf]) (cntOf_append 2) c2 (hc2x hq) A start
      rw [hph] at this
      show cntOf 2 _ = 1; omega
  · rw [eRP]
    exact relSpec_of_counts _ (by omega) (by omega) arel

/-- two opposite exchanges (identifier 1 on each side): from a verified table with its counters
    to the delivery clauses for every schedule -/
theorem sched6_main (hv : v = 4 ∨ v = 5) (c1 c2 r1 r2 : Ph → Nat)
    (hlog : ∀ ph, (sysOf ph).logC = [] ∧ (sysOf ph).logS = [])
    (hcl : ∀ ph a, Obs2 (sysOf (next ph a)) (nS ph a) (nC ph a) (rC ph a) (rS ph a) (act4 v (sysOf ph) a))
    (hstart : Obs2 (sysOf start) [] [] [] [] y0) (hdone : sysOf done = established v)
    (h8 : ∀ ph, phRunG next ph (List.replicate 8 .deliver) = done) (hd : next done .deliver = done)
    (hokS : ∀ ph a, ∀ Q ∈ nS ph a, sameMsg P1 Q) (hokC : ∀ ph a, ∀ Q ∈ nC ph a, sameMsg P2 Q)
    (hrelC : ∀ ph a, ∀ id ∈ rC ph a, id = 1) (hrelS : ∀ ph a, ∀ id ∈ rS ph a, id = 1)
    (hc1 : ∀ ph a, c1 (next ph a) ≤ c1 ph + (nS ph a).length)
    (hc2 : ∀ ph a, c2 (next ph a) ≤ c2 ph + (nC ph a).length)
    (hc1x : q1 = 2 → ∀ ph a, c1 (next ph a) = c1 ph + (nS ph a).length)
    (hc2x : q2 = 2 → ∀ ph a, c2 (next ph a) = c2 ph + (nC ph a).length)
    (hr1 : ∀ ph a, r1 (next ph a) = r1 ph + (rC ph a).length)
    (hr2 : ∀ ph a, r2 (next ph a) = r2 ph + (rS ph a).length)
    (s0 : c1 start = 0 ∧ c2 start = 0 ∧ r1 start = 0 ∧ r2 start = 0)
    (s1 : c1 done = 1 ∧ c2 done = 1 ∧ r1 done = 1 ∧ r2 done = 1)
    (acts : List Act4) (n : Nat) (hn : 8 ≤ n) :
    let y := drain n (runActs4 v y0 acts)
    Quiet v y ∧ errFree y.logC ∧ errFree y.logS ∧
    (∀ Q ∈ pubNotes y.logS, sameMsg P1 Q) ∧ (∀ Q ∈ pubNotes y.logC, sameMsg P2 Q) ∧
    1 ≤ (pubNotes y.logS).length ∧ 1 ≤ (pubNotes y.logC).length ∧
    (q1 = 2 → (pubNotes y.logS).length = 1) ∧ (q2 = 2 → (pubNotes y.logC).length = 1) ∧
    releasedIds y.logC = [1] ∧ releasedIds y.logS = [1] := by
  intro y
  obtain ⟨hph, o⟩ := sched_obs sysOf next nS nC rC rS start done y0 hlog hcl hstart hdone h8 hd acts n hn
  generalize hA : acts ++ List.replicate n Act4.deliver = A at hph o
  have eS : pubNotes y.logS = _ := o.notesS
  have eC : pubNotes y.logC = _ := o.notesC
  have eRC : releasedIds y.logC = _ := o.relC
  have eRS : releasedIds y.logS = _ := o.relS
  have k1 := outRunG_count_le next nS List.length (by intro a b; simp) c1 hc1 A start
  have k2 := outRunG_count_le next nC List.length (by intro a b; simp) c2 hc2 A start
  have j1 := outRunG_count next rC List.length rfl (by intro a b; simp) r1 hr1 A start
  have j2 := outRunG_count next rS List.length rfl (by intro a b; simp) r2 hr2 A start
  rw [hph] at k1 k2 j1 j2
  obtain ⟨z1, z2, z3, z4⟩ := s0
  obtain ⟨d1, d2, d3, d4⟩ := s1
  rw [eS, eC, eRC, eRS]
  refine ⟨o.quiet hv, o.errC, o.errS, outRunG_all next nS _ hokS A start, outRunG_all next nC _ hokC A start,
    by omega, by omega, ?_, ?_, ?_, ?_⟩
  · intro hq
    have := outRunG_count next nS List.length rfl (by intro a b; simp) c1 (hc1x hq) A start
    rw [hph] at this; omega
  · intro hq
    have := outRunG_count next nC List.length rfl (by intro a b; simp) c2 (hc2x hq) A start
    rw [hph] at this; omega
  · exact eq_one_of_count _ (by omega) (outRunG_all next rC _ hrelC A start)
  · exact eq_one_of_count _ (by omega) (outRunG_all next rS _ hrelS A start)

end sched5

end MqttVerif.Conn.Pair
