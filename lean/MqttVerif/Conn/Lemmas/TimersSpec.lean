import MqttVerif.Conn.Lemmas.TimersRecv
/-!
# Helper lemmas for C15, part 3: exact event lists of the timer primitives
-/
set_option linter.unusedSimpArgs false
set_option linter.unusedVariables false
namespace MqttVerif.Conn
open MqttVerif Mon

/-- the cancel requests `cancel_timers` emits for the flags `a` -/
def cancelEvs (a : Armed) : List Ev :=
  (if a.s then [.timerCancel .pingreqSend] else []) ++
  (if a.r then [.timerCancel .pingreqRecv] else []) ++
  (if a.p then [.timerCancel .pingrespRecv] else [])

theorem cancelTimers_ev (c : C) : (cancelTimers c).ev = c.ev ++ cancelEvs (flagsOf c.s) := by
  unfold cancelTimers cancelEvs flagsOf
  cases h1 : c.s.sendSet <;> cases h2 : c.s.recvSet <;> cases h3 : c.s.respSet <;> simp [h1, h2, h3]

/-- the re-arm `send_post_process` emits in state `s` -/
def rearmSend (s : St) : List Ev :=
  if s.isClient ∧ pingInterval s > 0 then [.timerReset .pingreqSend (pingInterval s)] else []

theorem sendPostProcess_ev (c : C) : (sendPostProcess c).ev = c.ev ++ rearmSend c.s := by
  rw [sendPostProcess_eq]; unfold rearmSend; split <;> simp

theorem sendPostProcess_sendSet (c : C) :
    (sendPostProcess c).s.sendSet = (c.s.sendSet || (c.s.isClient && decide (pingInterval c.s > 0))) := by
  rw [sendPostProcess_eq]; split <;> simp_all

@[simp] theorem pingInterval_spp (c : C) : pingInterval (sendPostProcess c).s = pingInterval c.s := by
  simp [pingInterval]

@[simp] theorem rearmSend_spp (c : C) : rearmSend (sendPostProcess c).s = rearmSend c.s := by
  simp [rearmSend]

/-- the re-arm `refresh_pingreq_recv` emits in state `s` -/
def rearmRecv (s : St) : List Ev :=
  if s.recvTimeoutMs ≠ 0 ∧ s.status ≠ .disconnected then [.timerReset .pingreqRecv s.recvTimeoutMs] else []

theorem refresh_ev (c : C) : (refreshPingreqRecv c).ev = c.ev ++ rearmRecv c.s := by
  unfold refreshPingreqRecv rearmRecv; split <;> simp

@[simp] theorem rearmRecv_refresh (c : C) : rearmRecv (refreshPingreqRecv c).s = rearmRecv c.s := by
  simp [rearmRecv]

/-- the response-timer arm a sent PINGREQ emits -/
def armResp (s : St) : List Ev :=
  if s.respTimeoutMs ≠ 0 then [.timerReset .pingrespRecv s.respTimeoutMs] else []

/-- `process_send_*_pingreq`, accepted -/
theorem psPingreq_accepted (c : C) (p : Pkt) (hsz : p.ver = 5 → sizeOk c p = true)
    (hs : c.s.status = .connected) :
    (psPingreq c p).ev = c.ev ++ [.send p none] ++ armResp c.s ++ rearmSend c.s ∧
    (psPingreq c p).s.respSet = (c.s.respSet || decide (c.s.respTimeoutMs ≠ 0)) ∧
    (psPingreq c p).s.status = .connected := by
  have h1 : ¬(p.ver = 5 ∧ (!sizeOk c p) = true) := by
    intro ⟨a, b⟩; simp [hsz a] at b
  unfold psPingreq armResp
  rw [if_neg h1, if_neg (by simp [hs])]
  by_cases hr : c.s.respTimeoutMs = 0
  · simp [hr, sendPostProcess_ev, rearmSend, pingInterval, hs]
  · simp [hr, sendPostProcess_ev, rearmSend, pingInterval, hs]

/-- `process_send_*_pingreq`, refused: only an error, nothing armed -/
theorem psPingreq_refused (c : C) (p : Pkt)
    (h : (p.ver = 5 ∧ sizeOk c p = false) ∨ c.s.status ≠ .connected) :
    ∃ e, psPingreq c p = c.err e := by
  unfold psPingreq
  by_cases h1 : p.ver = 5 ∧ (!sizeOk c p) = true
  · exact ⟨_, by rw [if_pos h1]⟩
  · rw [if_neg h1]
    rcases h with ⟨a, b⟩ | h
    · exact absurd ⟨a, by simp [b]⟩ h1
    · exact ⟨_, by rw [if_pos h]⟩

/-- received PINGRESP -/
theorem prPingresp_ok (c : C) (p : Pkt) :
    (prPingresp c (.ok p)).ev
      = c.ev ++ (if c.s.respSet then [.timerCancel .pingrespRecv] else []) ++ [.recv p] ∧
    (prPingresp c (.ok p)).s.respSet = false ∧
    (prPingresp c (.ok p)).s.sendSet = c.s.sendSet ∧ (prPingresp c (.ok p)).s.recvSet = c.s.recvSet := by
  simp only [prPingresp]
  cases h : c.s.respSet <;> simp [h]

/-- `v5DisconnectOrClose` on an established connection: cancel everything, DISCONNECT if it
    fits the peer's Maximum Packet Size, close -/
theorem v5DisconnectOrClose_connected (c : C) (d : Pkt) (hs : c.s.status = .connected) :
    (v5DisconnectOrClose c d).ev
      = c.ev ++ cancelEvs (flagsOf c.s) ++ (if sizeOk c d then [.send d none, .close] else [.close]) ∧
    (v5DisconnectOrClose c d).s.status = .disconnected ∧
    flagsOf (v5DisconnectOrClose c d).s = unarmed := by
  unfold v5DisconnectOrClose psV5Disconnect
  by_cases hz : sizeOk c d = true
  · simp [hz, hs, cancelTimers_ev, flagsOf, unarmed]
  · simp [hz, hs, cancelTimers_ev, flagsOf, unarmed]

theorem sizeOk_small (c : C) (p : Pkt) (h : ¬(p.ver = 5 ∧ p.kind = .publish)) :
    sizeOk c p = true ↔ p.size ≤ c.s.mpsSend := by
  simp only [sizeOk, Pkt.sz, h, if_false]
  simp

end MqttVerif.Conn
