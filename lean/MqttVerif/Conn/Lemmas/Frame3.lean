import MqttVerif.Conn.Lemmas.Frame2
/-!
# Frame lemmas (`cfg`, `mpsSend`) for the receive side and the remaining calls
-/
namespace MqttVerif.Conn
open MqttVerif

theorem connectRecvProp_cfg (c : C) (id v) : (connectRecvProp c id v).cfg = c.cfg := by
  unfold connectRecvProp; (repeat' split) <;> rfl
theorem connackRecvProp_cfg (c : C) (id v) : (connackRecvProp c id v).cfg = c.cfg := by
  unfold connackRecvProp; (repeat' split) <;> simp [apply_ite C.cfg, clearStoreRelated]

theorem propsFold_cfg {f : C → Nat → Nat → C} (hf : ∀ c id v, (f c id v).cfg = c.cfg) (c : C) (l) :
    (propsFold f c l).cfg = c.cfg := by
  induction l generalizing c with
  | nil => rfl
  | cons x rest ih => exact (ih _).trans (hf _ _ _)

@[simp] theorem propsFold_connectRecvProp_cfg (c : C) (l) : (propsFold connectRecvProp c l).cfg = c.cfg :=
  propsFold_cfg connectRecvProp_cfg c l
@[simp] theorem propsFold_connackRecvProp_cfg (c : C) (l) : (propsFold connackRecvProp c l).cfg = c.cfg :=
  propsFold_cfg connackRecvProp_cfg c l

theorem prV5PublishAlias_fr (c : C) (p : Pkt) : Fr c (prV5PublishAlias c p).1 := by
  unfold prV5PublishAlias
  (repeat' split) <;> (try simp only []) <;> (repeat' split) <;> simp [Fr]
@[simp] theorem prV5PublishAlias_cfg (c : C) (p : Pkt) : (prV5PublishAlias c p).1.cfg = c.cfg := (prV5PublishAlias_fr c p).1
@[simp] theorem prV5PublishAlias_mps (c : C) (p : Pkt) : (prV5PublishAlias c p).1.s.mpsSend = c.s.mpsSend := (prV5PublishAlias_fr c p).2

theorem prV3Connect_fr (c : C) (x : Except Nat Pkt) : Fr c (prV3Connect c x) := by
  unfold prV3Connect
  (repeat' split) <;> (try simp only []) <;> (repeat' split) <;>
    simp [Fr, apply_ite C.cfg, apply_ite C.s, apply_ite St.mpsSend]
@[simp] theorem prV3Connect_cfg (c : C) (x : Except Nat Pkt) : (prV3Connect c x).cfg = c.cfg := (prV3Connect_fr c x).1
@[simp] theorem prV3Connect_mps (c : C) (x : Except Nat Pkt) : (prV3Connect c x).s.mpsSend = c.s.mpsSend := (prV3Connect_fr c x).2

theorem prV3Connack_fr (c : C) (x : Except Nat Pkt) : Fr c (prV3Connack c x) := by
  unfold prV3Connack
  (repeat' split) <;> (try simp only []) <;> (repeat' split) <;>
    simp [Fr, apply_ite C.cfg, apply_ite C.s, apply_ite St.mpsSend]
@[simp] theorem prV3Connack_cfg (c : C) (x : Except Nat Pkt) : (prV3Connack c x).cfg = c.cfg := (prV3Connack_fr c x).1
@[simp] theorem prV3Connack_mps (c : C) (x : Except Nat Pkt) : (prV3Connack c x).s.mpsSend = c.s.mpsSend := (prV3Connack_fr c x).2

theorem prV3Publish_fr (c : C) (x : Except Nat Pkt) : Fr c (prV3Publish c x) := by
  unfold prV3Publish
  (repeat' split) <;> (try simp only []) <;> (repeat' split) <;>
    simp [Fr, apply_ite C.cfg, apply_ite C.s, apply_ite St.mpsSend]
@[simp] theorem prV3Publish_cfg (c : C) (x : Except Nat Pkt) : (prV3Publish c x).cfg = c.cfg := (prV3Publish_fr c x).1
@[simp] theorem prV3Publish_mps (c : C) (x : Except Nat Pkt) : (prV3Publish c x).s.mpsSend = c.s.mpsSend := (prV3Publish_fr c x).2

theorem prV5Publish_fr (c : C) (x : Except Nat Pkt) : Fr c (prV5Publish c x) := by
  unfold prV5Publish
  (repeat' split) <;> (try simp only []) <;> (repeat' split) <;>
    simp [Fr, apply_ite C.cfg, apply_ite C.s, apply_ite St.mpsSend]
@[simp] theorem prV5Publish_cfg (c : C) (x : Except Nat Pkt) : (prV5Publish c x).cfg = c.cfg := (prV5Publish_fr c x).1
@[simp] theorem prV5Publish_mps (c : C) (x : Except Nat Pkt) : (prV5Publish c x).s.mpsSend = c.s.mpsSend := (prV5Publish_fr c x).2

theorem prPuback_fr (c : C) (x : Except Nat Pkt) : Fr c (prPuback c x) := by
  unfold prPuback
  (repeat' split) <;> (try simp only []) <;> (repeat' split) <;>
    simp [Fr, apply_ite C.cfg, apply_ite C.s, apply_ite St.mpsSend]
@[simp] theorem prPuback_cfg (c : C) (x : Except Nat Pkt) : (prPuback c x).cfg = c.cfg := (prPuback_fr c x).1
@[simp] theorem prPuback_mps (c : C) (x : Except Nat Pkt) : (prPuback c x).s.mpsSend = c.s.mpsSend := (prPuback_fr c x).2

theorem prPubrec_fr (c : C) (x : Except Nat Pkt) : Fr c (prPubrec c x) := by
  unfold prPubrec
  (repeat' split) <;> (try simp only []) <;> (repeat' split) <;>
    simp [Fr, apply_ite C.cfg, apply_ite C.s, apply_ite St.mpsSend]
@[simp] theorem prPubrec_cfg (c : C) (x : Except Nat Pkt) : (prPubrec c x).cfg = c.cfg := (prPubrec_fr c x).1
@[simp] theorem prPubrec_mps (c : C) (x : Except Nat Pkt) : (prPubrec c x).s.mpsSend = c.s.mpsSend := (prPubrec_fr c x).2

theorem prPubrel_fr (c : C) (x : Except Nat Pkt) : Fr c (prPubrel c x) := by
  unfold prPubrel
  (repeat' split) <;> (try simp only []) <;> (repeat' split) <;>
    simp [Fr, apply_ite C.cfg, apply_ite C.s, apply_ite St.mpsSend]
@[simp] theorem prPubrel_cfg (c : C) (x : Except Nat Pkt) : (prPubrel c x).cfg = c.cfg := (prPubrel_fr c x).1
@[simp] theorem prPubrel_mps (c : C) (x : Except Nat Pkt) : (prPubrel c x).s.mpsSend = c.s.mpsSend := (prPubrel_fr c x).2

theorem prPubcomp_fr (c : C) (x : Except Nat Pkt) : Fr c (prPubcomp c x) := by
  unfold prPubcomp
  (repeat' split) <;> (try simp only []) <;> (repeat' split) <;>
    simp [Fr, apply_ite C.cfg, apply_ite C.s, apply_ite St.mpsSend]
@[simp] theorem prPubcomp_cfg (c : C) (x : Except Nat Pkt) : (prPubcomp c x).cfg = c.cfg := (prPubcomp_fr c x).1
@[simp] theorem prPubcomp_mps (c : C) (x : Except Nat Pkt) : (prPubcomp c x).s.mpsSend = c.s.mpsSend := (prPubcomp_fr c x).2

theorem prPlain_fr (c : C) (x : Except Nat Pkt) : Fr c (prPlain c x) := by
  unfold prPlain
  (repeat' split) <;> (try simp only []) <;> (repeat' split) <;>
    simp [Fr, apply_ite C.cfg, apply_ite C.s, apply_ite St.mpsSend]
@[simp] theorem prPlain_cfg (c : C) (x : Except Nat Pkt) : (prPlain c x).cfg = c.cfg := (prPlain_fr c x).1
@[simp] theorem prPlain_mps (c : C) (x : Except Nat Pkt) : (prPlain c x).s.mpsSend = c.s.mpsSend := (prPlain_fr c x).2

theorem prSubUnsuback_fr (c : C) (b : Bool) (x : Except Nat Pkt) : Fr c (prSubUnsuback c b x) := by
  unfold prSubUnsuback
  (repeat' split) <;> (try simp only []) <;> (repeat' split) <;>
    simp [Fr, apply_ite C.cfg, apply_ite C.s, apply_ite St.mpsSend]
@[simp] theorem prSubUnsuback_cfg (c : C) (b : Bool) (x : Except Nat Pkt) : (prSubUnsuback c b x).cfg = c.cfg := (prSubUnsuback_fr c b x).1
@[simp] theorem prSubUnsuback_mps (c : C) (b : Bool) (x : Except Nat Pkt) : (prSubUnsuback c b x).s.mpsSend = c.s.mpsSend := (prSubUnsuback_fr c b x).2

theorem prPingreq_fr (c : C) (x : Except Nat Pkt) : Fr c (prPingreq c x) := by
  unfold prPingreq
  (repeat' split) <;> (try simp only []) <;> (repeat' split) <;>
    simp [Fr, apply_ite C.cfg, apply_ite C.s, apply_ite St.mpsSend]
@[simp] theorem prPingreq_cfg (c : C) (x : Except Nat Pkt) : (prPingreq c x).cfg = c.cfg := (prPingreq_fr c x).1
@[simp] theorem prPingreq_mps (c : C) (x : Except Nat Pkt) : (prPingreq c x).s.mpsSend = c.s.mpsSend := (prPingreq_fr c x).2

theorem prPingresp_fr (c : C) (x : Except Nat Pkt) : Fr c (prPingresp c x) := by
  unfold prPingresp
  (repeat' split) <;> (try simp only []) <;> (repeat' split) <;>
    simp [Fr, apply_ite C.cfg, apply_ite C.s, apply_ite St.mpsSend]
@[simp] theorem prPingresp_cfg (c : C) (x : Except Nat Pkt) : (prPingresp c x).cfg = c.cfg := (prPingresp_fr c x).1
@[simp] theorem prPingresp_mps (c : C) (x : Except Nat Pkt) : (prPingresp c x).s.mpsSend = c.s.mpsSend := (prPingresp_fr c x).2

theorem prDisconnect_fr (c : C) (x : Except Nat Pkt) : Fr c (prDisconnect c x) := by
  unfold prDisconnect
  (repeat' split) <;> (try simp only []) <;> (repeat' split) <;>
    simp [Fr, apply_ite C.cfg, apply_ite C.s, apply_ite St.mpsSend]
@[simp] theorem prDisconnect_cfg (c : C) (x : Except Nat Pkt) : (prDisconnect c x).cfg = c.cfg := (prDisconnect_fr c x).1
@[simp] theorem prDisconnect_mps (c : C) (x : Except Nat Pkt) : (prDisconnect c x).s.mpsSend = c.s.mpsSend := (prDisconnect_fr c x).2

theorem setPingreqSendInterval_fr (c : C) (d : Option Nat) : Fr c (setPingreqSendInterval c d) := by
  unfold setPingreqSendInterval
  (repeat' split) <;> (try simp only []) <;> (repeat' split) <;>
    simp [Fr, apply_ite C.cfg, apply_ite C.s, apply_ite St.mpsSend]
@[simp] theorem setPingreqSendInterval_cfg (c : C) (d : Option Nat) : (setPingreqSendInterval c d).cfg = c.cfg := (setPingreqSendInterval_fr c d).1
@[simp] theorem setPingreqSendInterval_mps (c : C) (d : Option Nat) : (setPingreqSendInterval c d).s.mpsSend = c.s.mpsSend := (setPingreqSendInterval_fr c d).2

theorem eraseStoredPublish_fr (c : C) (id : Nat) : Fr c (eraseStoredPublish c id) := by
  unfold eraseStoredPublish
  (repeat' split) <;> (try simp only []) <;> (repeat' split) <;>
    simp [Fr, apply_ite C.cfg, apply_ite C.s, apply_ite St.mpsSend]
@[simp] theorem eraseStoredPublish_cfg (c : C) (id : Nat) : (eraseStoredPublish c id).cfg = c.cfg := (eraseStoredPublish_fr c id).1
@[simp] theorem eraseStoredPublish_mps (c : C) (id : Nat) : (eraseStoredPublish c id).s.mpsSend = c.s.mpsSend := (eraseStoredPublish_fr c id).2

theorem restoreOne_fr (c : C) (p : Pkt) : Fr c (restoreOne c p) := by
  unfold restoreOne
  (repeat' split) <;> (try simp only []) <;> (repeat' split) <;>
    simp [Fr, register, apply_ite C.cfg, apply_ite C.s, apply_ite St.mpsSend]
@[simp] theorem restoreOne_cfg (c : C) (p : Pkt) : (restoreOne c p).cfg = c.cfg := (restoreOne_fr c p).1
@[simp] theorem restoreOne_mps (c : C) (p : Pkt) : (restoreOne c p).s.mpsSend = c.s.mpsSend := (restoreOne_fr c p).2

end MqttVerif.Conn
