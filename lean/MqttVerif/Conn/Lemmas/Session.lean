import MqttVerif.Conn.Lemmas.Reset
/-!
# Helper lemmas: functions that neither read nor write the session bookkeeping
(`pid_man`, the three publish wait sets, the store, `qos2_publish_handled`) commute with
replacing it.
-/
set_option linter.unusedSimpArgs false
set_option linter.unusedVariables false
namespace MqttVerif.Conn
open MqttVerif

/-- the durable part of a session (without the `need_store` flag) -/
structure Sess where
  pidMan : Alloc.A
  puback : List Nat
  pubrec : List Nat
  pubcomp : List Nat
  store : List (Nat × Pkt)
  handled : List Nat

def St.sess (s : St) : Sess := ⟨s.pidMan, s.puback, s.pubrec, s.pubcomp, s.store, s.handled⟩

def setSess (a : St) (X : Sess) : St :=
  { a with pidMan := X.pidMan, puback := X.puback, pubrec := X.pubrec, pubcomp := X.pubcomp,
           store := X.store, handled := X.handled }

def C.mapS (c : C) (f : St → St) : C := { c with s := f c.s }

/-- `c` with its session bookkeeping replaced by `X` -/
def C.ws (c : C) (X : Sess) : C := { c with s := setSess c.s X }

@[simp] theorem setSess_sess (a : St) : setSess a a.sess = a := by cases a; rfl
@[simp] theorem setSess_setSess (a : St) (X Y : Sess) : setSess (setSess a X) Y = setSess a Y := rfl
@[simp] theorem sess_setSess (a : St) (X : Sess) : (setSess a X).sess = X := by cases X; rfl

/-- the PINGREQ send interval `send_post_process` arms -/
def ppMs (s : St) : Nat :=
  match s.userInterval with
  | some t => t
  | none => match s.serverKeepAliveMs with
    | some t => t
    | none => s.keepAliveMs

theorem sendPostProcess_def (c : C) : sendPostProcess c =
    if c.s.isClient then
      (if ppMs c.s > 0 then ({ c with s := { c.s with sendSet := true } }).push (.timerReset .pingreqSend (ppMs c.s)) else c)
    else c := rfl

theorem sendPostProcess_ws (c : C) (X : Sess) : sendPostProcess (c.ws X) = (sendPostProcess c).ws X := by
  simp only [sendPostProcess_def]
  have e1 : (c.ws X).s.isClient = c.s.isClient := rfl
  have e2 : ppMs (c.ws X).s = ppMs c.s := rfl
  rw [e1, e2]
  by_cases h1 : c.s.isClient = true
  · by_cases h2 : ppMs c.s > 0
    · simp only [h1, h2, if_true]; rfl
    · simp only [h1, h2, if_true, if_false]
  · simp only [h1, if_false, Bool.false_eq_true]

theorem refreshPingreqRecv_ws (c : C) (X : Sess) :
    refreshPingreqRecv (c.ws X) = (refreshPingreqRecv c).ws X := by
  unfold refreshPingreqRecv
  have e1 : (c.ws X).s.recvTimeoutMs = c.s.recvTimeoutMs := rfl
  have e2 : (c.ws X).s.status = c.s.status := rfl
  rw [e1, e2]
  by_cases h : c.s.recvTimeoutMs ≠ 0 ∧ c.s.status ≠ .disconnected
  · simp only [h, and_self, if_true, ne_eq, not_false_eq_true]; rfl
  · simp only [h, if_false]

theorem connectSendProp_ws (c : C) (X : Sess) (id v : Nat) :
    connectSendProp (c.ws X) id v = (connectSendProp c id v).ws X := by
  simp only [connectSendProp, C.ws, setSess]
  (repeat' split) <;> rfl

theorem connectRecvProp_ws (c : C) (X : Sess) (id v : Nat) :
    connectRecvProp (c.ws X) id v = (connectRecvProp c id v).ws X := by
  simp only [connectRecvProp, C.ws, setSess]
  (repeat' split) <;> rfl

theorem propsFold_ws {f : C → Nat → Nat → C} (hf : ∀ c X id v, f (C.ws c X) id v = (f c id v).ws X)
    (c : C) (X : Sess) (ps : List (Nat × Nat)) :
    propsFold f (c.ws X) ps = (propsFold f c ps).ws X := by
  induction ps generalizing c with
  | nil => rfl
  | cons e rest ih => obtain ⟨id, v⟩ := e; simp only [propsFold, hf, ih]

theorem push_ws (c : C) (X : Sess) (e : Ev) : (c.ws X).push e = (c.push e).ws X := rfl

theorem err_ws (c : C) (X : Sess) (e : Nat) : (c.ws X).err e = (c.err e).ws X := rfl

/-! ### a CONNECT without clean start carries the session bookkeeping through untouched -/

theorem psV3Connect_ws (c : C) (X : Sess) (p : Pkt) (hc : p.clean = false) :
    psV3Connect (c.ws X) p = (psV3Connect c p).ws X := by
  unfold psV3Connect
  have e : (c.ws X).s.status = c.s.status := rfl
  rw [e]
  by_cases h : c.s.status ≠ .disconnected
  · simp only [h, if_true, ne_eq, not_false_eq_true]; rfl
  · simp only [h, if_false, hc, Bool.false_eq_true]
    rw [← sendPostProcess_ws]; rfl

theorem psV5Connect_ws (c : C) (X : Sess) (p : Pkt) (hc : p.clean = false) :
    psV5Connect (c.ws X) p = (psV5Connect c p).ws X := by
  unfold psV5Connect
  have e : (c.ws X).s.status = c.s.status := rfl
  have e2 : sizeOk (c.ws X) p = sizeOk c p := rfl
  rw [e, e2]
  by_cases h0 : sizeOk c p = true
  · by_cases h : c.s.status ≠ .disconnected
    · simp only [h0, h, if_true, ne_eq, not_false_eq_true, Bool.not_true, Bool.false_eq_true, if_false]; rfl
    · simp only [h0, h, if_false, hc, Bool.false_eq_true, Bool.not_true]
      rw [← sendPostProcess_ws, ← push_ws, ← propsFold_ws connectSendProp_ws]; rfl
  · simp only [Bool.not_eq_true] at h0
    simp only [h0, Bool.not_false, if_true]; rfl

theorem prV3Connect_ws (c : C) (X : Sess) (p : Pkt) (hc : p.clean = false) :
    prV3Connect (c.ws X) (.ok p) = (prV3Connect c (.ok p)).ws X := by
  unfold prV3Connect
  have e : (c.ws X).s.status = c.s.status := rfl
  rw [e]
  by_cases h : c.s.status ≠ .disconnected
  · simp only [h, if_true, ne_eq, not_false_eq_true]; rfl
  · simp only [h, if_false, hc, Bool.false_eq_true]
    rw [← push_ws, ← refreshPingreqRecv_ws]
    by_cases hk : p.keepAlive > 0
    · simp only [hk, if_true]; rfl
    · simp only [hk, if_false]; rfl

theorem prV5Connect_ws (c : C) (X : Sess) (p : Pkt) (hc : p.clean = false)
    (hd : c.s.status = .disconnected) :
    prV5Connect (c.ws X) (.ok p) = (prV5Connect c (.ok p)).ws X := by
  unfold prV5Connect
  have e : (c.ws X).s.status = c.s.status := rfl
  rw [e]
  have h : ¬ (c.s.status ≠ .disconnected) := by simp [hd]
  · simp only [h, if_false, hc, Bool.false_eq_true]
    rw [← push_ws, ← refreshPingreqRecv_ws, ← propsFold_ws connectRecvProp_ws]
    by_cases hk : p.keepAlive > 0
    · simp only [hk, if_true]; rfl
    · simp only [hk, if_false]; rfl

/-! ### a CONNACK "session not present" overwrites the session bookkeeping before reading it -/

def clearSess (X : Sess) : Sess := ⟨Alloc.clear X.pidMan, [], [], [], [], []⟩

/-- `c` with its session bookkeeping cleared (`clear_store_related`) -/
def C.cs (c : C) : C := c.ws (clearSess c.s.sess)

theorem clearStoreRelated_cs (c : C) : clearStoreRelated c.cs = clearStoreRelated c := by
  simp [clearStoreRelated, C.cs, C.ws, setSess, clearSess, St.sess, Alloc.clear]

/-- `clear_store_related` = clearing the session bookkeeping and (fix 9ba24a9) zeroing the
    Receive-Maximum counter -/
theorem clearStoreRelated_eq_cs (c : C) :
    clearStoreRelated c = { c.cs with s := { c.cs.s with sendCount := 0 } } := by
  simp [clearStoreRelated, C.cs, C.ws, setSess, clearSess, St.sess]

theorem cs_cs (c : C) : c.cs.cs = c.cs := by
  simp [C.cs, C.ws, setSess, clearSess, St.sess, Alloc.clear]

theorem connackRecvProp_cs (c : C) (id v : Nat) :
    connackRecvProp c.cs id v = (connackRecvProp c id v).cs := by
  obtain ⟨cfg, s, ev⟩ := c
  simp only [connackRecvProp, C.cs, C.ws, setSess, clearSess, St.sess, C.setPanic, clearStoreRelated, C.push]
  (repeat' split) <;> simp_all [Alloc.clear] <;> (repeat' split) <;> simp_all

theorem propsFold_connackRecvProp_cs (c : C) (ps : List (Nat × Nat)) :
    propsFold connackRecvProp c.cs ps = (propsFold connackRecvProp c ps).cs := by
  induction ps generalizing c with
  | nil => rfl
  | cons e rest ih => obtain ⟨id, v⟩ := e; simp only [propsFold, connackRecvProp_cs, ih]

theorem prV3Connack_new (c : C) (q : Pkt) (hst : c.s.status ≠ .connected) (hrc : q.rc = some 0)
    (hsp : q.sp = false) : prV3Connack c (.ok q) = prV3Connack c.cs (.ok q) := by
  have e : c.cs.s.status = c.s.status := rfl
  simp only [prV3Connack, e, hst, if_false, hrc, if_true, hsp, Bool.false_eq_true]
  have : ({ c.cs with s := { c.cs.s with status := .connected } } : C) =
      ({ c with s := { c.s with status := .connected } } : C).cs := rfl
  rw [this, clearStoreRelated_cs]

theorem prV5Connack_new (c : C) (q : Pkt) (hst : c.s.status ≠ .connected) (hrc : q.rc = some 0)
    (hsp : q.sp = false) : prV5Connack c (.ok q) = prV5Connack c.cs (.ok q) := by
  have e : c.cs.s.status = c.s.status := rfl
  simp only [prV5Connack, e, hst, if_false, hrc, if_true, hsp, Bool.false_eq_true]
  have : ({ c.cs with s := { c.cs.s with status := .connected } } : C) =
      ({ c with s := { c.s with status := .connected } } : C).cs := rfl
  rw [this, propsFold_connackRecvProp_cs, clearStoreRelated_cs]

end MqttVerif.Conn
