import MqttVerif.Conn.Lemmas.P7Store
/-!
# C06 lemmas: how entries leave the store, per handler   (agent P7)
-/
namespace MqttVerif.Conn
open MqttVerif
set_option linter.unusedSimpArgs false

/-- the wait set an acknowledgement of packet type `t` is matched against -/
def waitSet (s : St) : Nat → List Nat
  | 4 => s.puback
  | 5 => s.pubrec
  | 7 => s.pubcomp
  | _ => []

def ackKind : Nat → Kind
  | 4 => .puback
  | 5 => .pubrec
  | _ => .pubcomp

/-- what a receive handler for packet type `t` does to the store -/
inductive StSum (t : Nat) (c c' : C) (x : Except Nat Pkt) : Prop
  | keep : (∀ e ∈ c.s.store, e ∈ c'.s.store) → StSum t c c' x
  | ack (p : Pkt) : x = .ok p → (t = 4 ∨ t = 5 ∨ t = 7) → p.pid.getD 0 ∈ waitSet c.s t →
      recvs c'.ev = recvs c.ev ++ [p] →
      (∀ e ∈ storeErase p.ver (ackKind t) (p.pid.getD 0) c.s.store, e ∈ c'.s.store) → StSum t c c' x
  | resume (p : Pkt) : x = .ok p → t = 2 → p.rc = some 0 → p.sp = true → recvs c'.ev = recvs c.ev ++ [p] →
      c'.s.store = fits c.cfg.pw c'.s.mpsSend c.s.store → StSum t c c' x
  | newSess (p : Pkt) : x = .ok p → NewSess t p → recvs c'.ev = recvs c.ev ++ [p] → c'.s.store = [] →
      StSum t c c' x

theorem StSum.congr {t : Nat} {c0 c c' : C} {x : Except Nat Pkt} (h : StSum t c0 c' x)
    (h1 : c0.s.store = c.s.store) (h2 : c0.ev = c.ev) (h3 : c0.cfg = c.cfg)
    (h4 : ∀ t, waitSet c0.s t = waitSet c.s t) : StSum t c c' x := by
  cases h with
  | keep a => exact .keep (by rw [← h1]; exact a)
  | ack p a b d e f => exact .ack p a b (by rw [← h4]; exact d) (by rw [e, h2]) (by rw [← h1]; exact f)
  | resume p a b d e f g => exact .resume p a b d e (by rw [f, h2]) (by rw [g, h1, h3])
  | newSess p a b d e => exact .newSess p a b (by rw [d, h2]) e

theorem storeAdd_mono (c : C) (id : Nat) (p : Pkt) (site : String) {e : Nat × Pkt} (h : e ∈ c.s.store) :
    e ∈ (storeAdd c id p site).s.store := by
  rcases storeAdd_store c id p site with h' | h' <;> rw [h'] <;> simp [h]

theorem psPubrel_mono (c : C) (p : Pkt) {e : Nat × Pkt} (h : e ∈ c.s.store) : e ∈ (psPubrel c p).s.store := by
  simp only [psPubrel]
  repeat' (first | (frame_simp psPubrel; exact h; done) | split)
  all_goals (simp [apply_ite C.s, apply_ite St.store]; try exact storeAdd_mono _ _ _ _ h)
  all_goals (split <;> first | exact storeAdd_mono _ _ _ _ h | exact h)

@[simp] theorem connackRecvProp_mpsSend_cfg (c : C) (l : List (Nat × Nat)) :
    (propsFold connackRecvProp c l).cfg = c.cfg := by
  induction l generalizing c with
  | nil => rfl
  | cons a t ih => obtain ⟨i, v⟩ := a; simp [propsFold, ih]

theorem connackRecvProp_store (c : C) (i v : Nat) :
    (connackRecvProp c i v).s.store = c.s.store ∨
    ((connackRecvProp c i v).s.store = [] ∧ i = pSEI ∧ v = 0) := by
  simp only [connackRecvProp]
  repeat' (first | (left; frame_simp clearStoreRelated; done) | split)
  right; simp_all [clearStoreRelated]

theorem propsFold_connackRecvProp_store (c : C) (l : List (Nat × Nat)) :
    (propsFold connackRecvProp c l).s.store = c.s.store ∨
    ((propsFold connackRecvProp c l).s.store = [] ∧ (pSEI, 0) ∈ l) := by
  induction l generalizing c with
  | nil => left; rfl
  | cons a t ih =>
    obtain ⟨i, v⟩ := a
    simp only [propsFold]
    rcases ih (connackRecvProp c i v) with h | ⟨h, hm⟩
    · rcases connackRecvProp_store c i v with h' | ⟨h', rfl, rfl⟩
      · left; rw [h, h']
      · right; exact ⟨by rw [h, h'], by simp⟩
    · right; exact ⟨h, by simp [hm]⟩

theorem propsFold_store (f : C → Nat → Nat → C) (hf : ∀ c i v, (f c i v).s.store = c.s.store)
    (c : C) (l : List (Nat × Nat)) : (propsFold f c l).s.store = c.s.store := by
  induction l generalizing c with
  | nil => rfl
  | cons a t ih => obtain ⟨i, v⟩ := a; simp [propsFold, ih, hf]

/-! ## handlers -/

theorem psV3Connack_refuse_store (c : C) (p : Pkt) (h : p.rc ≠ some 0) : (psV3Connack c p).s.store = c.s.store := by
  simp only [psV3Connack]; split <;> simp [h]
theorem psV5Connack_refuse_store (c : C) (p : Pkt) (h : p.rc ≠ some 0) : (psV5Connack c p).s.store = c.s.store := by
  simp only [psV5Connack]; split <;> (try split) <;> simp [h]
theorem v3ConnectErrRc_ne (e : Nat) : (mkV3Connack (v3ConnectErrRc e)).rc ≠ some 0 := by
  simp only [mkV3Connack, v3ConnectErrRc]; repeat' split
  all_goals simp
theorem v5ConnectErrRc_ne (e : Nat) : (mkV5Connack (v5ConnectErrRc e)).rc ≠ some 0 := by
  simp only [mkV5Connack, v5ConnectErrRc]; repeat' split
  all_goals simp

theorem prV3Connect_st (c : C) (x : Except Nat Pkt) : StSum 1 c (prV3Connect c x) x := by
  simp only [prV3Connect]
  split
  · exact .keep (by simp)
  · cases x with
    | error e =>
      refine .keep ?_
      simp [psV3Connack_refuse_store _ _ (v3ConnectErrRc_ne e)]
    | ok p =>
      cases hc : p.clean
      · refine .keep ?_
        simp [hc, initConn, apply_ite C.s, apply_ite St.store]
      · refine .newSess p rfl (.inl ⟨rfl, hc⟩) ?_ ?_ <;>
          simp [hc, initConn, clearStoreRelated, apply_ite C.s, apply_ite C.ev, apply_ite St.store]

theorem prV5Connect_st (c : C) (x : Except Nat Pkt) : StSum 1 c (prV5Connect c x) x := by
  simp only [prV5Connect]
  split
  · exact .keep (by simp)
  · cases x with
    | error e =>
      refine .keep ?_
      simp [psV5Connack_refuse_store _ _ (v5ConnectErrRc_ne e)]
    | ok p =>
      cases hc : p.clean
      · refine .keep ?_
        simp [hc, initConn, propsFold_store, apply_ite C.s, apply_ite St.store]
      · refine .newSess p rfl (.inl ⟨rfl, hc⟩) ?_ ?_ <;>
          simp [hc, initConn, propsFold_store, propsFold_recvs, clearStoreRelated, apply_ite C.s, apply_ite C.ev,
            apply_ite St.store]


theorem prV3Connack_st (c : C) (x : Except Nat Pkt) : StSum 2 c (prV3Connack c x) x := by
  simp only [prV3Connack]
  split
  · exact .keep (by simp)
  · cases x with
    | error e => exact .keep (by simp)
    | ok p =>
      by_cases hr : p.rc = some 0
      · cases hs : p.sp
        · refine .newSess p rfl (.inr ⟨rfl, hr, .inl hs⟩) ?_ ?_ <;> simp [hr, hs, clearStoreRelated]
        · refine .resume p rfl rfl hr hs ?_ ?_
          · simp [hr, hs]
          · simp [hr, hs, sendStored_store]
      · exact .keep (by simp [hr])

theorem prV5Connack_st (c : C) (x : Except Nat Pkt) : StSum 2 c (prV5Connack c x) x := by
  simp only [prV5Connack]
  split
  · exact .keep (by simp)
  · cases x with
    | error e => exact .keep (by simp [apply_ite C.s, apply_ite St.store])
    | ok p =>
      by_cases hr : p.rc = some 0
      · cases hs : p.sp
        · refine .newSess p rfl (.inr ⟨rfl, hr, .inl hs⟩) ?_ ?_ <;>
            simp [hr, hs, clearStoreRelated, propsFold_recvs]
        · rcases propsFold_connackRecvProp_store { c with s := { c.s with status := .connected } } p.props
            with h | ⟨h, hm⟩
          · refine .resume p rfl rfl hr hs ?_ ?_
            · simp [hr, hs, propsFold_recvs]
            · simp only [hr, hs, if_true, push_s]
              rw [resendStored_store, sendStored_store, h]; simp
          · refine .newSess p rfl (.inr ⟨rfl, hr, .inr hm⟩) ?_ ?_
            · simp [hr, hs, propsFold_recvs]
            · simp only [hr, hs, if_true, push_s]
              rw [resendStored_store, sendStored_store, h]; simp [fits]
      · exact .keep (by simp [hr])

theorem prPuback_st (c : C) (x : Except Nat Pkt) : StSum 4 c (prPuback c x) x := by
  cases x with
  | error e => exact .keep (by simp [prPuback])
  | ok p =>
    simp only [prPuback]
    split
    · rename_i hm
      refine .ack p rfl (.inl rfl) hm ?_ ?_ <;>
        simp [ackKind, apply_ite C.s, apply_ite C.ev, apply_ite St.store, apply_ite recvs]
    · exact .keep (by simp)

theorem prPubcomp_st (c : C) (x : Except Nat Pkt) : StSum 7 c (prPubcomp c x) x := by
  cases x with
  | error e => exact .keep (by simp [prPubcomp])
  | ok p =>
    simp only [prPubcomp]
    split
    · rename_i hm
      refine .ack p rfl (.inr (.inr rfl)) hm ?_ ?_ <;>
        simp [ackKind, apply_ite C.s, apply_ite C.ev, apply_ite St.store, apply_ite recvs]
    · exact .keep (by simp)

theorem prPubrec_st (c : C) (x : Except Nat Pkt) : StSum 5 c (prPubrec c x) x := by
  cases x with
  | error e => exact .keep (by simp [prPubrec])
  | ok p =>
    simp only [prPubrec]
    split
    · rename_i hm
      refine .ack p rfl (.inr (.inl rfl)) hm ?_ ?_
      · simp [apply_ite C.s, apply_ite C.ev, apply_ite St.store, apply_ite recvs]
      · intro e he
        simp only [push_s, refreshPingreqRecv_store]
        split
        · split
          · exact psPubrel_mono _ _ (by simpa [ackKind] using he)
          · simpa [ackKind] using he
        · simpa [ackKind] using he
    · exact .keep (by simp)

theorem prV3Publish_store (c : C) (x : Except Nat Pkt) : (prV3Publish c x).s.store = c.s.store := by
  frame_deep prV3Publish
theorem prV5Publish_store (c : C) (x : Except Nat Pkt) : (prV5Publish c x).s.store = c.s.store := by
  cases x with
  | error e => simp [prV5Publish, apply_ite C.s, apply_ite St.store]
  | ok p =>
    rw [prV5Publish_ok]
    split
    · simp
    · simp only []
      repeat' (first | (frame_simp prV5PublishMain; done) | split)
      all_goals simp [prV5PublishMain, prV5PublishAcks, apply_ite C.s, apply_ite St.store, C.setPanic]
theorem prPubrel_store (c : C) (x : Except Nat Pkt) : (prPubrel c x).s.store = c.s.store := by
  cases x <;> simp [prPubrel, apply_ite C.s, apply_ite St.store]

theorem dispatchRecv_st (c : C) (t : Nat) (x : Except Nat Pkt) : StSum t c (dispatchRecv c t x) x := by
  unfold dispatchRecv
  split
  · split; exact prV3Connect_st c x; exact prV5Connect_st c x
  · split; exact prV3Connack_st c x; exact prV5Connack_st c x
  · split
    · exact .keep (by simp [prV3Publish_store])
    · exact .keep (by simp [prV5Publish_store])
  · exact prPuback_st c x
  · exact prPubrec_st c x
  · exact .keep (by simp [prPubrel_store])
  · exact prPubcomp_st c x
  · exact .keep (by simp)
  · exact .keep (by simp)
  · exact .keep (by simp)
  · exact .keep (by simp)
  · exact .keep (by simp)
  · exact .keep (by simp)
  · exact .keep (by simp)
  · split
    · exact .keep (by simp)
    · exact .keep (by simp)
  · exact .keep (by simp)

theorem processRecvPacket_st (c : C) (fh : Nat) (data : List Nat) (parse : Nat → Except Nat Pkt) :
    ∃ v, StSum (fh / 16) c (processRecvPacket c fh data parse) (parse v) := by
  simp only [processRecvPacket]
  split
  · exact ⟨0, .keep (by simp)⟩
  · split
    · exact ⟨0, .keep (by simp)⟩
    · split
      · split
        · rename_i ht
          split
          · exact ⟨0, .keep (by simp)⟩
          · split
            · exact ⟨4, ht ▸ (prV3Connect_st _ _).congr rfl rfl rfl (fun _ => rfl)⟩
            · split
              · exact ⟨5, ht ▸ (prV5Connect_st _ _).congr rfl rfl rfl (fun _ => rfl)⟩
              · exact ⟨0, .keep (by simp)⟩
        · exact ⟨0, .keep (by simp)⟩
      · exact ⟨c.s.ver, dispatchRecv_st c _ _⟩

theorem recv_st (c : C) (inp : List Nat) (parse : Nat → Nat → List Nat → Except Nat Pkt) :
    ∃ v fh d, StSum (fh / 16) c (recv c inp parse).1 (parse v fh d) := by
  simp only [recv]
  split
  · exact ⟨0, 0, [], .keep (by simp)⟩
  · rename_i fh data _
    obtain ⟨v, h⟩ := processRecvPacket_st { c with s := { c.s with pb := (Framing.feed c.s.pb inp).1 } } fh data
      (fun v => parse v fh data)
    exact ⟨v, fh, data, h.congr rfl rfl rfl (fun _ => rfl)⟩
  · exact ⟨0, 0, [], .keep (by simp)⟩

end MqttVerif.Conn
