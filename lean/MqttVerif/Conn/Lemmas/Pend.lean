import MqttVerif.Conn.Step
import MqttVerif.Monitors
import MqttVerif.Conn.Lemmas.Resend
/-!
# C08 helper — the driver's ghost `pend` (outbound exchanges of this connection) against the model

The driver's monitor `C08 completion_not_released` keeps a ghost list `pend` of
`(id, nibble of the awaited acknowledgement)` built from the events of every call.  This file
defines the ghost update (`pendStep`, `pendReset`) exactly as the driver computes it, the relational
invariant `Inv` (ghost entries are awaited by the model: `PendAgree`; the stored packets are
awaited: `StoreOk`; while a connection is being established the ghost is empty) and the frame
relation `Fr` with its lemmas for the small model functions.
Own namespace: may be imported next to any other lemma chain.
-/
set_option linter.unusedSimpArgs false
set_option linter.unusedVariables false
namespace MqttVerif.Conn.Pend
open MqttVerif MqttVerif.Conn

/-- the ghost: (identifier, type nibble of the awaited acknowledgement) -/
abbrev Gh := List (Nat × Nat)

/-- the ghost update over the events of one call — verbatim the fold of
    `Driver/ConnDrv.lean` (`monitorCall`, `let pend := evs.foldl …`) -/
def pendStep (pend0 : Gh) (evs : List Ev) : Gh :=
  evs.foldl (fun (acc : List (Nat × Nat)) (e : Ev) => match e with
      | .send q _ =>
        let id := q.pid.getD 0
        if q.kind = Kind.publish ∧ q.qos = 1 then (id, 4) :: acc.filter (fun (x : Nat × Nat) => x.1 ≠ id)
        else if q.kind = Kind.publish ∧ q.qos = 2 then (id, 5) :: acc.filter (fun (x : Nat × Nat) => x.1 ≠ id)
        else if q.kind = Kind.pubrel then (id, 7) :: acc.filter (fun (x : Nat × Nat) => x.1 ≠ id)
        else acc
      | .recv q =>
        if q.kind = Kind.puback ∨ q.kind = Kind.pubcomp ∨ q.kind = Kind.pubrec then acc.filter (fun (x : Nat × Nat) => x.1 ≠ q.pid.getD 0)
        else acc
      | .released id => acc.filter (fun (x : Nat × Nat) => x.1 ≠ id)
      | _ => acc) pend0

/-- the ghost the monitor reads and folds from (`pend0` of the driver): emptied by `closed`, by a
    call whose events start a new session or a new connection — judged on the WHOLE event list of
    the call, before folding -/
def pendReset (op : Op) (evs : List Ev) (pend : Gh) : Gh :=
  match op with
  | .closed => []
  | _ => if Mon.startsNewSession evs ∨ (Mon.connectionStart evs).isSome then [] else pend

/-- the ghost after the call -/
def pendNext (op : Op) (evs : List Ev) (pend : Gh) : Gh := pendStep (pendReset op evs pend) evs

/-! ## the fold, event by event -/

def rm (id : Nat) (g : Gh) : Gh := g.filter (fun (x : Nat × Nat) => x.1 ≠ id)

/-- the ghost entry a sent packet creates -/
def nibOf (q : Pkt) : Option Nat :=
  if q.kind = Kind.publish ∧ q.qos = 1 then some 4
  else if q.kind = Kind.publish ∧ q.qos = 2 then some 5
  else if q.kind = Kind.pubrel then some 7
  else none

def addP (q : Pkt) (acc : Gh) : Gh :=
  match nibOf q with
  | some n => (q.pid.getD 0, n) :: rm (q.pid.getD 0) acc
  | none => acc

def isAck (q : Pkt) : Bool := q.kind = Kind.puback ∨ q.kind = Kind.pubcomp ∨ q.kind = Kind.pubrec

def pendEv (acc : Gh) : Ev → Gh
  | .send q _ => addP q acc
  | .recv q => if isAck q then rm (q.pid.getD 0) acc else acc
  | .released id => rm id acc
  | _ => acc

theorem pendStep_eq (g : Gh) (l : List Ev) : pendStep g l = l.foldl pendEv g := by
  unfold pendStep
  congr 1
  funext acc e
  cases e <;> simp only [pendEv]
  · rename_i q r
    unfold addP nibOf rm
    (repeat' split) <;> simp_all
  · rename_i q
    unfold isAck rm
    simp only [Bool.decide_or, Bool.or_eq_true, decide_eq_true_eq]
  · rfl

@[simp] theorem pendStep_nil (g : Gh) : pendStep g [] = g := rfl
@[simp] theorem pendStep_append (g : Gh) (a b : List Ev) : pendStep g (a ++ b) = pendStep (pendStep g a) b := by
  simp [pendStep_eq]
@[simp] theorem pendStep_cons (g : Gh) (e : Ev) (l : List Ev) : pendStep g (e :: l) = pendStep (pendEv g e) l := by
  simp [pendStep_eq]

@[simp] theorem pendEv_error (g : Gh) (e : Nat) : pendEv g (.error e) = g := rfl
@[simp] theorem pendEv_close (g : Gh) : pendEv g .close = g := rfl
@[simp] theorem pendEv_tr (g : Gh) (k : Timer) (ms : Nat) : pendEv g (.timerReset k ms) = g := rfl
@[simp] theorem pendEv_tc (g : Gh) (k : Timer) : pendEv g (.timerCancel k) = g := rfl
@[simp] theorem pendEv_released (g : Gh) (id : Nat) : pendEv g (.released id) = rm id g := rfl
@[simp] theorem pendEv_send (g : Gh) (q : Pkt) (r : Option Nat) : pendEv g (.send q r) = addP q g := rfl
theorem pendEv_recv (g : Gh) (q : Pkt) : pendEv g (.recv q) = if isAck q then rm (q.pid.getD 0) g else g := rfl

theorem addP_none {q : Pkt} (h : nibOf q = none) (g : Gh) : addP q g = g := by simp [addP, h]
theorem addP_some {q : Pkt} {n : Nat} (h : nibOf q = some n) (g : Gh) :
    addP q g = (q.pid.getD 0, n) :: rm (q.pid.getD 0) g := by simp [addP, h]

theorem nibOf_kind {q : Pkt} (h1 : q.kind ≠ .publish) (h2 : q.kind ≠ .pubrel) : nibOf q = none := by
  simp [nibOf, h1, h2]
theorem nibOf_qos0 {q : Pkt} (h1 : q.kind = .publish) (h2 : ¬ q.qos > 0) : nibOf q = none := by
  have : q.qos = 0 := by omega
  simp [nibOf, h1, this]

@[simp] theorem nibOf_mkAck (cfg : Cfg) (v : Nat) (k : Kind) (id : Nat) (h1 : k ≠ .publish) (h2 : k ≠ .pubrel) :
    nibOf (mkAck cfg v k id) = none := nibOf_kind h1 h2
@[simp] theorem nibOf_mkAck_pubrel (cfg : Cfg) (v : Nat) (id : Nat) : nibOf (mkAck cfg v .pubrel id) = some 7 := by
  simp [nibOf, mkAck]
@[simp] theorem nibOf_mkV5PubcompRc (cfg : Cfg) (id rc : Nat) : nibOf (mkV5PubcompRc cfg id rc) = none := by
  simp [nibOf, mkV5PubcompRc]
@[simp] theorem nibOf_mkV5Disconnect (rc : Nat) : nibOf (mkV5Disconnect rc) = none := by
  simp [nibOf, mkV5Disconnect]
@[simp] theorem nibOf_mkPingreq (v : Nat) : nibOf (mkPingreq v) = none := by simp [nibOf, mkPingreq]
@[simp] theorem nibOf_mkPingresp (v : Nat) : nibOf (mkPingresp v) = none := by simp [nibOf, mkPingresp]
@[simp] theorem nibOf_mkV3Connack (rc : Nat) : nibOf (mkV3Connack rc) = none := by simp [nibOf, mkV3Connack]
@[simp] theorem nibOf_mkV5Connack (rc : Nat) : nibOf (mkV5Connack rc) = none := by simp [nibOf, mkV5Connack]

theorem mem_rm {x : Nat × Nat} {id : Nat} {g : Gh} : x ∈ rm id g ↔ x ∈ g ∧ x.1 ≠ id := by
  simp [rm]
theorem rm_subset (id : Nat) (g : Gh) : rm id g ⊆ g := fun x h => (mem_rm.1 h).1
theorem sub_rm {id : Nat} {a b : Gh} (h : a ⊆ b) : rm id a ⊆ b := fun x hx => h (rm_subset _ _ hx)
@[simp] theorem rm_nil (id : Nat) : rm id [] = [] := rfl
theorem pendEv_recv_sub (g : Gh) (q : Pkt) : pendEv g (.recv q) ⊆ g := by
  rw [pendEv_recv]; split
  · exact rm_subset _ _
  · exact List.Subset.refl _

theorem pendStep_singleton (g : Gh) (e : Ev) : pendStep g [e] = pendEv g e := by simp

/-! ## working-context projections -/

@[simp] theorem push_ev (c : C) (e : Ev) : (c.push e).ev = c.ev ++ [e] := rfl
@[simp] theorem push_s (c : C) (e : Ev) : (c.push e).s = c.s := rfl
@[simp] theorem push_cfg (c : C) (e : Ev) : (c.push e).cfg = c.cfg := rfl
@[simp] theorem err_ev (c : C) (e : Nat) : (c.err e).ev = c.ev ++ [.error e] := rfl
@[simp] theorem err_s (c : C) (e : Nat) : (c.err e).s = c.s := rfl
@[simp] theorem err_cfg (c : C) (e : Nat) : (c.err e).cfg = c.cfg := rfl
@[simp] theorem setPanic_ev (c : C) (x : String) : (c.setPanic x).ev = c.ev := rfl
@[simp] theorem setPanic_cfg (c : C) (x : String) : (c.setPanic x).cfg = c.cfg := rfl

theorem ite_ev (p : Prop) {_ : Decidable p} (a b : C) : (if p then a else b).ev = if p then a.ev else b.ev :=
  apply_ite _ _ _ _
theorem ite_s (p : Prop) {_ : Decidable p} (a b : C) : (if p then a else b).s = if p then a.s else b.s :=
  apply_ite _ _ _ _
theorem ite_pendStep (g : Gh) (p : Prop) {_ : Decidable p} (a b : List Ev) :
    pendStep g (if p then a else b) = if p then pendStep g a else pendStep g b := apply_ite _ _ _ _

/-- the part of the state the invariant reads, apart from `status` -/
def W (c : C) : List Nat × List Nat × List Nat × List (Nat × Pkt) × Nat :=
  (c.s.puback, c.s.pubrec, c.s.pubcomp, c.s.store, c.s.ver)

/-- **frame**: the wait sets, the store and the version are unchanged; the status is unchanged or
    became `disconnected`; whatever the ghost was, folding the new events only removed entries -/
structure Fr (c c' : C) : Prop where
  w : W c' = W c
  status : c'.s.status = c.s.status ∨ c'.s.status = .disconnected
  gh : ∀ g, pendStep g c'.ev ⊆ pendStep g c.ev

theorem Fr.refl (c : C) : Fr c c := ⟨rfl, .inl rfl, fun _ => List.Subset.refl _⟩
theorem Fr.trans {a b c : C} (h1 : Fr a b) (h2 : Fr b c) : Fr a c := by
  refine ⟨h2.w.trans h1.w, ?_, fun g => List.Subset.trans (h2.gh g) (h1.gh g)⟩
  rcases h2.status with e | e
  · rw [e]; exact h1.status
  · exact .inr e

theorem Fr.puback {c c' : C} (h : Fr c c') : c'.s.puback = c.s.puback := congrArg (·.1) h.w
theorem Fr.pubrec {c c' : C} (h : Fr c c') : c'.s.pubrec = c.s.pubrec := congrArg (·.2.1) h.w
theorem Fr.pubcomp {c c' : C} (h : Fr c c') : c'.s.pubcomp = c.s.pubcomp := congrArg (·.2.2.1) h.w
theorem Fr.store {c c' : C} (h : Fr c c') : c'.s.store = c.s.store := congrArg (·.2.2.2.1) h.w
theorem Fr.ver {c c' : C} (h : Fr c c') : c'.s.ver = c.s.ver := congrArg (·.2.2.2.2) h.w

/-- closes `pendStep g X ⊆ pendStep g c.ev` after the events were pushed through -/
macro "sub_tac" : tactic =>
  `(tactic| (repeat (first | exact List.Subset.refl _ | exact pendEv_recv_sub _ _ | apply sub_rm | apply rm_subset)))

/-- `Fr c (f c)` by unfolding `f` (done by the caller), case split, `rfl` / `simp` -/
macro "fr_tac" : tactic =>
  `(tactic| (
      (repeat' (first | split | (simp only []; split))) <;>
      (refine ⟨?_, ?_, ?_⟩ <;>
        first
        | rfl
        | exact .inl rfl
        | exact .inr rfl
        | (intro g; simp_all [ite_ev, ite_pendStep, addP_none]; done)
        | (intro g; simp_all [ite_ev, ite_pendStep, addP_none]; sub_tac; done)
        | (simp_all; done))))

theorem fr_push {c : C} {e : Ev} (h : ∀ g, pendEv g e ⊆ g) : Fr c (c.push e) :=
  ⟨rfl, .inl rfl, fun g => by simp; exact h _⟩
theorem fr_err (c : C) (e : Nat) : Fr c (c.err e) := fr_push (fun g => List.Subset.refl _)
theorem fr_setPanic (c : C) (x : String) : Fr c (c.setPanic x) := ⟨rfl, .inl rfl, fun _ => List.Subset.refl _⟩
theorem fr_of_eq {c c' : C} (hs : W c' = W c) (hst : c'.s.status = c.s.status) (he : c'.ev = c.ev) : Fr c c' :=
  ⟨hs, .inl hst, fun g => by rw [he]; exact List.Subset.refl _⟩

theorem fr_cancelTimers (c : C) : Fr c (cancelTimers c) := by unfold cancelTimers; fr_tac
theorem fr_sendPostProcess (c : C) : Fr c (sendPostProcess c) := by
  refine ⟨?_, ?_, ?_⟩
  · rcases sendPostProcess_s_cases c with h | h <;> simp only [W, h]
  · rcases sendPostProcess_s_cases c with h | h <;> (rw [h]; exact .inl rfl)
  · intro g; rcases sendPostProcess_ev_cases c with h | ⟨ms, h⟩ <;> simp [h]
theorem fr_refreshPingreqRecv (c : C) : Fr c (refreshPingreqRecv c) := by unfold refreshPingreqRecv; fr_tac
theorem fr_initConn (c : C) (b : Bool) : Fr c (initConn c b) := fr_of_eq rfl rfl rfl
theorem fr_decSendCount (c : C) : Fr c (decSendCount c) := by unfold decSendCount; fr_tac
theorem fr_releaseId (c : C) (id : Nat) : Fr c (releaseId c id) := by
  unfold releaseId; simp only []; split <;> exact fr_of_eq rfl rfl rfl
theorem fr_releaseIfUsed (c : C) (id : Nat) : Fr c (releaseIfUsed c id) := by
  unfold releaseIfUsed
  split
  · exact (fr_releaseId c id).trans (fr_push (fun g => rm_subset _ _))
  · exact Fr.refl c
theorem fr_releaseAll (l : List Nat) : ∀ c, Fr c (releaseAll c l) := by
  induction l with
  | nil => intro c; exact Fr.refl c
  | cons x rest ih => intro c; rw [releaseAll]; exact (fr_releaseIfUsed c x).trans (ih _)
theorem fr_validateTopicAlias (c : C) (ao : Option Nat) : Fr c (validateTopicAlias c ao).2 := by
  unfold validateTopicAlias; (repeat' split) <;> exact fr_of_eq rfl rfl rfl
theorem fr_tasInsert (c : C) (t : List Nat) (a : Nat) (x : String) : Fr c (tasInsert c t a x) := by
  unfold tasInsert; (repeat' split) <;> exact fr_of_eq rfl rfl rfl
theorem fr_autoAlias (c : C) (p : Pkt) : Fr c (autoAlias c p).1 := by
  unfold autoAlias
  (repeat' (first | split | (simp only []; split))) <;> first | exact Fr.refl c | exact fr_tasInsert _ _ _ _
theorem autoAlias_kind (c : C) (p : Pkt) : (autoAlias c p).2.kind = p.kind := by
  unfold autoAlias; (repeat' (first | split | (simp only []; split))) <;> rfl
theorem autoAlias_qos (c : C) (p : Pkt) : (autoAlias c p).2.qos = p.qos := by
  unfold autoAlias; (repeat' (first | split | (simp only []; split))) <;> rfl
theorem autoAlias_pid (c : C) (p : Pkt) : (autoAlias c p).2.pid = p.pid := by
  unfold autoAlias; (repeat' (first | split | (simp only []; split))) <;> rfl
theorem nibOf_autoAlias (c : C) (p : Pkt) : nibOf (autoAlias c p).2 = nibOf p := by
  simp only [nibOf, autoAlias_kind, autoAlias_qos]
theorem fr_connectSendProp (c : C) (id v : Nat) : Fr c (connectSendProp c id v) := by
  unfold connectSendProp; (repeat' split) <;> exact fr_of_eq rfl rfl rfl
theorem fr_connectRecvProp (c : C) (id v : Nat) : Fr c (connectRecvProp c id v) := by
  unfold connectRecvProp; (repeat' split) <;> exact fr_of_eq rfl rfl rfl
theorem fr_connackSendProp (c : C) (id v : Nat) : Fr c (connackSendProp c id v) := by
  unfold connackSendProp; fr_tac

theorem fr_propsFold (f : C → Nat → Nat → C) (hf : ∀ c id v, Fr c (f c id v)) (c : C)
    (l : List (Nat × Nat)) : Fr c (propsFold f c l) := by
  induction l generalizing c with
  | nil => exact Fr.refl c
  | cons x rest ih => obtain ⟨i, v⟩ := x; rw [propsFold]; exact (hf c i v).trans (ih _)

/-! ## error handling and DISCONNECT -/

theorem fr_psV5Disconnect (c : C) (p : Pkt) (h : nibOf p = none) : Fr c (psV5Disconnect c p) := by
  unfold psV5Disconnect
  split
  · exact fr_err _ _
  split
  · exact fr_err _ _
  · simp only []
    refine Fr.trans (b := { c with s := { c.s with status := .disconnected } }) ⟨rfl, .inr rfl, fun _ => List.Subset.refl _⟩ ?_
    refine (fr_cancelTimers _).trans ?_
    exact (fr_push (fun g => by simp [addP_none h])).trans (fr_push (fun g => List.Subset.refl _))
theorem fr_psV3Disconnect (c : C) (p : Pkt) (h : nibOf p = none) : Fr c (psV3Disconnect c p) := by
  unfold psV3Disconnect
  split
  · exact fr_err _ _
  · simp only []
    refine Fr.trans (b := { c with s := { c.s with status := .disconnected } }) ⟨rfl, .inr rfl, fun _ => List.Subset.refl _⟩ ?_
    refine (fr_cancelTimers _).trans ?_
    exact (fr_push (fun g => by simp [addP_none h])).trans (fr_push (fun g => List.Subset.refl _))
theorem fr_handleV3Error (c : C) (e : Nat) : Fr c (handleV3Error c e) :=
  (fr_push (fun g => List.Subset.refl _)).trans (fr_err _ _)
theorem fr_v5DisconnectOrClose (c : C) (p : Pkt) (h : nibOf p = none) : Fr c (v5DisconnectOrClose c p) := by
  unfold v5DisconnectOrClose
  split
  · simp only []
    refine Fr.trans (b := { c with s := { c.s with status := .disconnected } }) ⟨rfl, .inr rfl, fun _ => List.Subset.refl _⟩ ?_
    exact (fr_cancelTimers _).trans (fr_push (fun g => List.Subset.refl _))
  · exact fr_psV5Disconnect c p h
theorem fr_handleV5Error (c : C) (e : Nat) : Fr c (handleV5Error c e) :=
  (fr_v5DisconnectOrClose c _ (by simp)).trans (fr_err _ _)
theorem fr_vErr (c : C) (e : Nat) : Fr c (vErr c e) := by
  unfold vErr; split
  · exact fr_handleV3Error c e
  · exact fr_handleV5Error c e

/-! ## the simple senders -/

theorem fr_send_tail (c : C) (p : Pkt) (r : Option Nat) (h : nibOf p = none) :
    Fr c (sendPostProcess (c.push (.send p r))) :=
  (fr_push (fun g => by simp [addP_none h])).trans (fr_sendPostProcess _)

theorem fr_psV3Simple (c : C) (p : Pkt) (h : nibOf p = none) : Fr c (psV3Simple c p) := by
  unfold psV3Simple; split
  · exact fr_err _ _
  · exact fr_send_tail c p none h
theorem fr_psV5Simple (c : C) (p : Pkt) (h : nibOf p = none) : Fr c (psV5Simple c p) := by
  unfold psV5Simple; split
  · exact fr_err _ _
  split
  · exact fr_err _ _
  · exact fr_send_tail c p none h
theorem fr_psV5Puback (c : C) (p : Pkt) (h : nibOf p = none) : Fr c (psV5Puback c p) := by
  unfold psV5Puback; split
  · exact fr_err _ _
  split
  · exact fr_err _ _
  · simp only []
    exact Fr.trans (b := { c with s := { c.s with publishRecv := del (p.pid.getD 0) c.s.publishRecv } })
      (fr_of_eq rfl rfl rfl) (fr_send_tail _ p none h)
theorem fr_psV5Pubcomp (c : C) (p : Pkt) (h : nibOf p = none) : Fr c (psV5Pubcomp c p) := fr_psV5Puback c p h
theorem fr_psV5Pubrec (c : C) (p : Pkt) (h : nibOf p = none) : Fr c (psV5Pubrec c p) := by
  unfold psV5Pubrec; split
  · exact fr_err _ _
  split
  · exact fr_err _ _
  · simp only []
    refine Fr.trans ?_ (fr_send_tail _ p none h)
    (repeat' split) <;> first | exact Fr.refl c | exact fr_of_eq rfl rfl rfl
theorem fr_psSubUnsub (c : C) (p : Pkt) (h : nibOf p = none) : Fr c (psSubUnsub c p) := by
  unfold psSubUnsub
  extract_lets id src c1
  split
  · exact (fr_err _ _).trans (fr_releaseIfUsed _ _)
  split
  · exact (fr_err _ _).trans (fr_releaseIfUsed _ _)
  split
  · exact fr_err _ _
  · refine Fr.trans ?_ (fr_send_tail _ p _ h)
    simp only [c1]
    split <;> exact fr_of_eq rfl rfl rfl
theorem fr_psPingreq (c : C) (p : Pkt) (h : nibOf p = none) : Fr c (psPingreq c p) := by
  unfold psPingreq; split
  · exact fr_err _ _
  split
  · exact fr_err _ _
  · simp only []
    refine Fr.trans ?_ (fr_sendPostProcess _)
    have h1 : Fr c (c.push (.send p none)) := fr_push (fun g => by simp [addP_none h])
    refine h1.trans ?_
    split
    · exact Fr.trans (b := { (c.push (.send p none)) with s := { (c.push (.send p none)).s with respSet := true } })
        (fr_of_eq rfl rfl rfl) (fr_push (fun g => List.Subset.refl _))
    · exact Fr.refl _
theorem fr_psV5Auth (c : C) (p : Pkt) (h : nibOf p = none) : Fr c (psV5Auth c p) := by
  unfold psV5Auth; split
  · exact fr_err _ _
  split
  · exact fr_err _ _
  · exact fr_send_tail c p none h
theorem fr_refuseSend (c : C) (e : Nat) (p : Pkt) : Fr c (refuseSend c e p) := by
  unfold refuseSend; split
  · exact (fr_err _ _).trans (fr_releaseIfUsed _ _)
  · exact fr_err _ _

end MqttVerif.Conn.Pend
