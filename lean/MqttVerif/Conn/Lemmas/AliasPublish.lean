import MqttVerif.Conn.Lemmas.Alias
/-!
# C13 helpers: `process_send_v5_0_publish` keeps the sender's alias table inside the ghost
receiver's table and emits only resolvable PUBLISH packets
-/
set_option linter.unusedSimpArgs false
set_option linter.unusedVariables false
set_option linter.unnecessarySimpa false
namespace MqttVerif.Conn
open MqttVerif

/-! ## the alias stage on the sending side -/

/-- invariant carried through `process_send_v5_0_publish`; `pm` is the table's maximum -/
structure PubInv (pm : Nat) (s : St) (peer : Mon.PeerTable) : Prop where
  tasOk : TasOkS s
  store : StoreInv s
  agree : Agree s peer
  max : ∀ t, s.tas = some t → t.max = pm

theorem slookup_range {pm : Nat} {s : St} {peer : Mon.PeerTable} (h : PubInv pm s peer) {a : Nat} {tp : List Nat}
    (hl : slookup s a = some tp) : 1 ≤ a ∧ a ≤ pm ∧ tp ≠ [] := by
  unfold slookup at hl
  split at hl
  · rename_i t ht
    have := (h.tasOk t ht).lookup_range hl
    rw [h.max t ht] at this; exact this
  · cases hl

/-- frame: a call that keeps the table's lookups, only shrinks the store (or adds quiet
    packets) keeps `PubInv` -/
theorem PubInv.frame {pm : Nat} {s s' : St} {peer : Mon.PeerTable} (h : PubInv pm s peer)
    (htas : s'.tas = s.tas) (hstore : ∀ e ∈ s'.store, e ∈ s.store ∨ PktQuiet e.2) : PubInv pm s' peer := by
  refine ⟨?_, ?_, ?_, ?_⟩
  · intro t ht; exact h.tasOk t (htas ▸ ht)
  · intro e he; rcases hstore e he with h' | h'
    · exact h.store e h'
    · exact h'
  · intro a tp hl; exact h.agree a tp (by simpa [slookup, htas] using hl)
  · intro t ht; exact h.max t (htas ▸ ht)

/-! ### `validate_topic_alias` -/

theorem validateTopicAlias_spec (c : C) (ao : Option Nat) :
    (validateTopicAlias c ao).2.ev = c.ev ∧
    (∀ k, slookup (validateTopicAlias c ao).2.s k = slookup c.s k) ∧
    (TasOkS c.s → TasOkS (validateTopicAlias c ao).2.s) ∧
    (∀ pm, (∀ t, c.s.tas = some t → t.max = pm) → ∀ t, (validateTopicAlias c ao).2.s.tas = some t → t.max = pm) ∧
    (∀ tp, (validateTopicAlias c ao).1 = some tp → ∃ a, ao = some a ∧ slookup c.s a = some tp) := by
  unfold validateTopicAlias
  cases ao with
  | none => simp
  | some a =>
    dsimp only
    split
    · simp
    · cases htas : c.s.tas with
      | none => simp [htas]
      | some t =>
        simp only [htas]
        refine ⟨trivial, ?_, ?_, ?_, ?_⟩
        · intro k; simp [slookup, htas, TAS.get_lookup]
        · intro h t' ht'
          simp at ht'; subst ht'
          exact (h t htas).get a
        · intro pm h t' ht'
          simp at ht'; subst ht'
          simp [h t rfl]
        · intro tp htp
          exact ⟨a, rfl, by simpa [slookup, htas] using (TAS.get_some htp).2.2.1⟩

/-! ### `insert_or_update` through `tasInsert` -/

theorem tasInsert_spec (c : C) (topic : List Nat) (a : Nat) (site : String) :
    (tasInsert c topic a site).ev = c.ev ∧
    (TasOkS c.s → TasOkS (tasInsert c topic a site).s) ∧
    (∀ pm, (∀ t, c.s.tas = some t → t.max = pm) → ∀ t, (tasInsert c topic a site).s.tas = some t → t.max = pm) ∧
    (∀ t, c.s.tas = some t → topic ≠ [] → 1 ≤ a → a ≤ t.max →
      ∀ k, slookup (tasInsert c topic a site).s k = if k = a then some topic else slookup c.s k) := by
  unfold tasInsert
  cases htas : c.s.tas with
  | none => simp [htas, TasOkS]
  | some t =>
    simp only
    split
    · rename_i hbad
      refine ⟨rfl, ?_, ?_, ?_⟩
      · intro h t' ht'; exact h t' (by simpa [htas] using ht')
      · intro pm h t' ht'; exact h t' (by simpa [htas] using ht')
      · intro t' ht' h1 h2 h3
        simp only [Option.some.injEq] at ht'; subst ht'
        exfalso
        rcases hbad with hb | hb | hb
        · simp at hb; exact h1 hb
        · omega
        · omega
    · rename_i hgood
      simp only [not_or, List.isEmpty_iff, Nat.not_lt] at hgood
      refine ⟨rfl, ?_, ?_, ?_⟩
      · intro h t' ht'
        simp at ht'; subst ht'
        exact (h t htas).insertOrUpdate hgood.1 ⟨hgood.2.1, by omega⟩
      · intro pm h t' ht'
        simp at ht'; subst ht'
        simp [h t rfl]
      · intro t' ht' _ _ _ k
        simp only [Option.some.injEq] at ht'; subst ht'
        simp [slookup, htas, insertOrUpdate_lookup]

/-! ### the tail: count and emit -/

theorem tail_pubs (c : C) (q : Pkt) (rel : Option Nat) :
    pubs (psV5PublishTail c q rel).ev =
      pubs c.ev ++ (if c.s.status = .connected then pubsOf (.send q rel) else []) := by
  unfold psV5PublishTail; dsimp only
  (repeat' split) <;> simp_all [C.setPanic]

theorem tail_inv {pm : Nat} {c : C} {q : Pkt} {rel : Option Nat} {peer : Mon.PeerTable}
    (hk : q.kind = .publish) (htas : TasOkS c.s) (hstore : StoreInv c.s)
    (hmax : ∀ t, c.s.tas = some t → t.max = pm)
    (hemit : c.s.status = .connected → q.ver = 5 →
      ∃ peer', Mon.peerStep pm peer q = some peer' ∧ Agree c.s peer')
    (hno : ¬ (c.s.status = .connected ∧ q.ver = 5) → Agree c.s peer) :
    ∃ l peer', pubs (psV5PublishTail c q rel).ev = pubs c.ev ++ l ∧ peerPubs pm peer l = some peer' ∧
      PubInv pm (psV5PublishTail c q rel).s peer' := by
  have hframe : ∀ peer', Agree c.s peer' → PubInv pm (psV5PublishTail c q rel).s peer' := fun peer' ha =>
    PubInv.frame (s := c.s) ⟨htas, hstore, ha, hmax⟩ (by simp) (fun e he => Or.inl (by simpa using he))
  by_cases hc : c.s.status = .connected ∧ q.ver = 5
  · obtain ⟨peer', hp, ha⟩ := hemit hc.1 hc.2
    refine ⟨[q], peer', ?_, ?_, hframe peer' ha⟩
    · rw [tail_pubs]; simp [hc.1, pubsOf_send, hc.2, hk]
    · simp [peerPubs, hp]
  · refine ⟨[], peer, ?_, rfl, hframe peer (hno hc)⟩
    rw [tail_pubs]
    by_cases h1 : c.s.status = .connected
    · have : q.ver ≠ 5 := fun h => hc ⟨h1, h⟩
      simp [h1, pubsOf_send, this]
    · simp [h1]

/-- emitting a full topic with an in-range alias that the sender has just bound to it -/
theorem emit_bind {pm : Nat} {s : St} {peer : Mon.PeerTable} {q : Pkt} {a : Nat} {s0 : St}
    (hagree : Agree s0 peer) (hq : q.alias = some a) (ht : q.topic ≠ []) (h1 : 1 ≤ a) (h2 : a ≤ pm)
    (hl : ∀ k, slookup s k = if k = a then some q.topic else slookup s0 k) :
    ∃ peer', Mon.peerStep pm peer q = some peer' ∧ Agree s peer' := by
  refine ⟨(a, q.topic) :: peer.filter (·.1 ≠ a), ?_, ?_⟩
  · have : ¬ (a = 0 ∨ a > pm) := by omega
    simp [Mon.peerStep, hq, this, ht]
  · intro k tp hk
    rw [peerLookup_cons_filter]
    rw [hl k] at hk
    split
    · rename_i h; simpa [h] using hk
    · rename_i h; simp only [h, if_false] at hk; exact hagree k tp hk

/-- emitting an empty topic with an alias the sender has bound (hence the receiver too) -/
theorem emit_use {pm : Nat} {s : St} {peer : Mon.PeerTable} {q : Pkt} {a : Nat} {tp : List Nat}
    (hinv : PubInv pm s peer) (hq : q.alias = some a) (ht : q.topic = []) (hl : slookup s a = some tp) :
    Mon.peerStep pm peer q = some peer ∧ Mon.peerLookup a peer = some tp := by
  have hr := slookup_range hinv hl
  have hp := hinv.agree a tp hl
  have : ¬ (a = 0 ∨ a > pm) := by omega
  exact ⟨by simp [Mon.peerStep, hq, this, ht, hp], hp⟩


/-! ### automatic mapping / replacement -/

theorem slookup_none_of_tas {s : St} (h : s.tas = none) (k : Nat) : slookup s k = none := by
  simp [slookup, h]

theorem Agree.of_tas_none {s : St} (h : s.tas = none) (peer : Mon.PeerTable) : Agree s peer := by
  intro a tp hl; simp [slookup, h] at hl

theorem autoAlias_kind (c : C) (p : Pkt) : (autoAlias c p).2.kind = p.kind ∧ (autoAlias c p).2.ver = p.ver := by
  unfold autoAlias; dsimp only; (repeat' (first | split | (simp; done)))

theorem autoAlias_none (c : C) (p : Pkt) (h : c.s.status ≠ .connected ∨ c.s.tas = none) : autoAlias c p = (c, p) := by
  unfold autoAlias
  rcases h with h | h
  · simp [h]
  · simp [h]

/-- what `autoAlias` hands to the tail is resolvable, and a rewrite to an empty topic uses an
    alias bound to the requested topic -/
theorem autoAlias_spec {pm : Nat} {c : C} {p : Pkt} {peer : Mon.PeerTable} (hinv : PubInv pm c.s peer)
    (ht : p.topic ≠ []) (ha : p.alias = none) :
    TasOkS (autoAlias c p).1.s ∧ (∀ t, (autoAlias c p).1.s.tas = some t → t.max = pm) ∧
    (∃ peer', Mon.peerStep pm peer (autoAlias c p).2 = some peer' ∧ Agree (autoAlias c p).1.s peer') ∧
    ((autoAlias c p).2.topic = [] →
      ∃ a, (autoAlias c p).2.alias = some a ∧ Mon.peerLookup a peer = some p.topic) := by
  have hquiet : ∃ peer', Mon.peerStep pm peer p = some peer' ∧ Agree c.s peer' :=
    ⟨peer, peerStep_quiet pm peer p ⟨ha, ht⟩, hinv.agree⟩
  have hbase : TasOkS c.s ∧ (∀ t, c.s.tas = some t → t.max = pm) ∧
      (∃ peer', Mon.peerStep pm peer p = some peer' ∧ Agree c.s peer') ∧
      (p.topic = [] → ∃ a, p.alias = some a ∧ Mon.peerLookup a peer = some p.topic) :=
    ⟨hinv.tasOk, hinv.max, hquiet, fun h => absurd h ht⟩
  have hfound : ∀ t a, c.s.tas = some t → t.findByTopic p.topic = some a →
      TasOkS c.s ∧ (∀ t, c.s.tas = some t → t.max = pm) ∧
      (∃ peer', Mon.peerStep pm peer { p with topic := [], alias := some a } = some peer' ∧ Agree c.s peer') ∧
      (({ p with topic := [], alias := some a } : Pkt).topic = [] →
        ∃ a', ({ p with topic := [], alias := some a } : Pkt).alias = some a' ∧ Mon.peerLookup a' peer = some p.topic) := by
    intro t a htas hf
    have hl : slookup c.s a = some p.topic := by
      simp only [slookup, htas]; exact (hinv.tasOk t htas).findByTopic hf
    obtain ⟨h1, h2⟩ := emit_use (q := { p with topic := [], alias := some a }) hinv rfl rfl hl
    exact ⟨hinv.tasOk, hinv.max, ⟨peer, h1, hinv.agree⟩, fun _ => ⟨a, rfl, h2⟩⟩
  unfold autoAlias
  dsimp only
  split
  · split
    · split
      · rename_i t htas
        split
        · rename_i a hf
          split
          · exact hfound t a htas hf
          · exact hbase
        · split
          · -- new alias via LRU
            obtain ⟨e1, e2, e3, e4⟩ := tasInsert_spec c p.topic t.lruAlias "topic_alias_send.rs:insert_or_update:assert"
            have hr := (hinv.tasOk t htas).lruAlias
            have hm := hinv.max t htas
            refine ⟨e2 hinv.tasOk, e3 pm hinv.max, ?_, fun h => absurd h ht⟩
            exact emit_bind (q := { p with alias := some t.lruAlias }) (s0 := c.s) hinv.agree rfl ht hr.1 (by omega)
              (e4 t htas ht hr.1 hr.2)
          · exact hbase
      · exact hbase
    · split
      · split
        · rename_i t htas
          split
          · rename_i a hf
            split
            · exact hfound t a htas hf
            · exact hbase
          · exact hbase
        · exact hbase
      · exact hbase
  · exact hbase


/-! ### the alias stage as a whole -/

theorem pubRefuseCleanup_store_sub (c : C) (pid : Option Nat) :
    ∀ e ∈ (pubRefuseCleanup c pid).s.store, e ∈ c.s.store := by
  unfold pubRefuseCleanup
  (repeat' split) <;> simp
  intro a b h; exact storeErasePublish_sub h

theorem refuse_inv {pm : Nat} {c : C} {peer : Mon.PeerTable} (hinv : PubInv pm c.s peer) (e : Nat) (pid : Option Nat) :
    ∃ l peer', pubs (pubRefuseCleanup (c.err e) pid).ev = pubs c.ev ++ l ∧ peerPubs pm peer l = some peer' ∧
      PubInv pm (pubRefuseCleanup (c.err e) pid).s peer' :=
  ⟨[], peer, by simp, rfl, PubInv.frame (s := c.s) hinv (by simp)
    (fun x hx => Or.inl (by simpa using pubRefuseCleanup_store_sub (c.err e) pid x hx))⟩

theorem validateTopicAliasRange_spec {s : St} {a : Nat} (h : validateTopicAliasRange s a = true) :
    ∃ t, s.tas = some t ∧ 1 ≤ a ∧ a ≤ t.max := by
  unfold validateTopicAliasRange at h
  split at h
  · cases h
  · rename_i t ht
    simp at h
    exact ⟨t, ht, by omega, by omega⟩

theorem psV5PublishAlias_inv {pm : Nat} {c : C} {p : Pkt} {rel : Option Nat} {v : Bool} {peer : Mon.PeerTable}
    (hk : p.kind = .publish) (hinv : PubInv pm c.s peer) (hver : p.ver = 5 ∨ c.s.tas = none)
    (hval : v = true → p.topic = [] → ∃ a tp, p.alias = some a ∧ slookup c.s a = some tp) :
    ∃ l peer', pubs (psV5PublishAlias c p rel v).ev = pubs c.ev ++ l ∧ peerPubs pm peer l = some peer' ∧
      PubInv pm (psV5PublishAlias c p rel v).s peer' := by
  rw [psV5PublishAlias_eq]
  split
  · exact refuse_inv hinv _ _
  split
  · -- empty topic
    rename_i htop
    have htop' : p.topic = [] := by simpa using htop
    cases v with
    | true =>
      simp only [Bool.not_true, Bool.false_eq_true, false_and, if_false, if_true]
      obtain ⟨a, tp, ha, hl⟩ := hval rfl htop'
      obtain ⟨h1, h2⟩ := emit_use hinv ha htop' hl
      exact tail_inv hk hinv.tasOk hinv.store hinv.max (fun _ _ => ⟨peer, h1, hinv.agree⟩) (fun _ => hinv.agree)
    | false =>
      simp only [Bool.false_eq_true, if_false, Bool.not_false, true_and]
      obtain ⟨e1, e2, e3, e4, e5⟩ := validateTopicAlias_spec c p.alias
      have hinv2 : PubInv pm (validateTopicAlias c p.alias).2.s peer :=
        ⟨e3 hinv.tasOk, by intro x hx; exact hinv.store x (by simpa using hx),
          by intro a tp hl; exact hinv.agree a tp (by rw [← e2]; exact hl), e4 pm hinv.max⟩
      split
      · have := refuse_inv hinv2 eNotAllowed p.pid
        simpa [e1] using this
      · rename_i hsome
        cases hr : (validateTopicAlias c p.alias).1 with
        | none => simp [hr] at hsome
        | some tp =>
          obtain ⟨a, ha, hl⟩ := e5 tp hr
          obtain ⟨h1, h2⟩ := emit_use hinv2 ha htop' (by rw [e2]; exact hl)
          have := tail_inv (rel := rel) hk hinv2.tasOk hinv2.store hinv2.max
            (fun _ _ => ⟨peer, h1, hinv2.agree⟩) (fun _ => hinv2.agree)
          simpa [e1] using this
  · rename_i htop
    have htop' : p.topic ≠ [] := by simpa using htop
    split
    · -- manual alias with a full topic
      rename_i a ha
      split
      · rename_i hrange
        obtain ⟨t, htas, h1, h2⟩ := validateTopicAliasRange_spec hrange
        have hv5 : p.ver = 5 := by
          rcases hver with h | h
          · exact h
          · rw [h] at htas; cases htas
        have hm := hinv.max t htas
        by_cases hc : c.s.status = .connected
        · simp only [hc, if_true]
          obtain ⟨e1, e2, e3, e4⟩ := tasInsert_spec c p.topic a "topic_alias_send.rs:insert_or_update:assert"
          have hb := emit_bind (q := p) (s0 := c.s) (pm := pm) hinv.agree ha htop' h1 (by omega) (e4 t htas htop' h1 h2)
          have := tail_inv (rel := rel) hk (e2 hinv.tasOk)
            (by intro x hx; exact hinv.store x (by simpa using hx)) (e3 pm hinv.max)
            (fun _ _ => hb) (fun hno => absurd ⟨by simpa using hc, hv5⟩ hno)
          simpa [e1] using this
        · simp only [hc, if_false]
          exact tail_inv hk hinv.tasOk hinv.store hinv.max (fun h _ => absurd h hc) (fun _ => hinv.agree)
      · exact refuse_inv hinv _ _
    · -- no alias given: automatic mapping / replacement
      rename_i ha
      obtain ⟨a1, a2, a3, a4⟩ := autoAlias_spec hinv htop' ha
      obtain ⟨k1, k2⟩ := autoAlias_kind c p
      have hst : StoreInv (autoAlias c p).1.s := by intro x hx; exact hinv.store x (by simpa using hx)
      have := tail_inv (rel := rel) (k1.trans hk) a1 hst a2 (fun _ _ => a3)
        (by
          intro hno
          have hnone : autoAlias c p = (c, p) := by
            apply autoAlias_none
            by_cases hc : c.s.status = .connected
            · right
              rcases hver with h | h
              · exfalso; apply hno; exact ⟨by simpa using hc, k2.trans h⟩
              · exact h
            · exact Or.inl hc
          rw [hnone]; exact hinv.agree)
      simpa using this


theorem validateTopicAlias_tas_none (c : C) (ao : Option Nat) (h : c.s.tas = none) :
    (validateTopicAlias c ao).2.s.tas = none := by
  unfold validateTopicAlias
  cases ao with
  | none => simpa using h
  | some a => simp [validateTopicAliasRange, h]

theorem quiet_inv {pm : Nat} {c c' : C} {peer : Mon.PeerTable} (hinv : PubInv pm c.s peer)
    (htas : c'.s.tas = c.s.tas) (hstore : ∀ e ∈ c'.s.store, e ∈ c.s.store ∨ PktQuiet e.2)
    (hpubs : pubs c'.ev = pubs c.ev) :
    ∃ l peer', pubs c'.ev = pubs c.ev ++ l ∧ peerPubs pm peer l = some peer' ∧ PubInv pm c'.s peer' :=
  ⟨[], peer, by simp [hpubs], rfl, hinv.frame htas hstore⟩

/-- `process_send_v5_0_publish` keeps the sender's table inside the ghost receiver's table, and
    everything it emits is resolvable by that receiver -/
theorem psV5Publish_inv {pm : Nat} {c : C} {p : Pkt} {peer : Mon.PeerTable}
    (hk : p.kind = .publish) (hinv : PubInv pm c.s peer) (hver : p.ver = 5 ∨ c.s.tas = none) :
    ∃ l peer', pubs (psV5Publish c p).ev = pubs c.ev ++ l ∧ peerPubs pm peer l = some peer' ∧
      PubInv pm (psV5Publish c p).s peer' := by
  rw [psV5Publish_eq]
  split
  · split <;> exact quiet_inv hinv (by simp) (fun e he => Or.inl (by simpa using he)) (by simp)
  split
  · split
    · exact quiet_inv hinv (by simp) (fun e he => Or.inl (by simpa using he)) (by simp)
    · rename_i id hid
      split
      · exact quiet_inv hinv (by simp) (fun e he => Or.inl (by simpa using he)) (by simp)
      split
      · exact quiet_inv hinv (by simp) (fun e he => Or.inl (by simpa using he)) (by simp)
      split
      · split
        · -- stored, empty topic: validated first
          rename_i htop
          have htop' : p.topic = [] := by simpa using htop
          obtain ⟨e1, e2, e3, e4, e5⟩ := validateTopicAlias_spec c p.alias
          have hinv2 : PubInv pm (validateTopicAlias c p.alias).2.s peer :=
            ⟨e3 hinv.tasOk, by intro x hx; exact hinv.store x (by simpa using hx),
              by intro a tp hl; exact hinv.agree a tp (by rw [← e2]; exact hl), e4 pm hinv.max⟩
          split
          · have := quiet_inv (c' := releaseIfUsed ((validateTopicAlias c p.alias).2.err eNotAllowed) id) hinv2
              (by simp) (fun e he => Or.inl (by simpa using he)) (by simp)
            simpa [e1] using this
          · rename_i tp hr
            obtain ⟨a, ha, hl⟩ := e5 tp hr
            have hne : tp ≠ [] := (slookup_range hinv hl).2.2
            have hinv3 : PubInv pm (addWait (storeAdd (wildcardCheck (validateTopicAlias c p.alias).2 tp) id
                { p with topic := tp, alias := none, dup := true }
                "core.rs:process_send_v5_0_publish:store.add().unwrap()") p.qos id).s peer := by
              refine hinv2.frame (by simp) ?_
              intro e he
              simp only [addWait_store] at he
              rcases storeAdd_store_sub _ _ _ _ e he with h | h
              · exact Or.inl (by simpa using h)
              · right; rw [h]; intro _ _; exact ⟨rfl, hne⟩
            have := psV5PublishAlias_inv (rel := none) (v := true) hk hinv3
              (by
                rcases hver with h | h
                · exact Or.inl h
                · right; simp [validateTopicAlias_tas_none c p.alias h])
              (by
                intro _ _
                refine ⟨a, tp, ha, ?_⟩
                have : slookup (addWait (storeAdd (wildcardCheck (validateTopicAlias c p.alias).2 tp) id
                    { p with topic := tp, alias := none, dup := true }
                    "core.rs:process_send_v5_0_publish:store.add().unwrap()") p.qos id).s a =
                    slookup (validateTopicAlias c p.alias).2.s a := by simp [slookup]
                rw [this, e2]; exact hl)
            simpa [e1] using this
        · -- stored, full topic
          rename_i htop
          have htop' : p.topic ≠ [] := by simpa using htop
          have hinv3 : PubInv pm (addWait (storeAdd c id { p with alias := none, dup := true }
              "core.rs:process_send_v5_0_publish:store.add().unwrap()") p.qos id).s peer := by
            refine hinv.frame (by simp) ?_
            intro e he
            simp only [addWait_store] at he
            rcases storeAdd_store_sub _ _ _ _ e he with h | h
            · exact Or.inl h
            · right; rw [h]; intro _ _; exact ⟨rfl, htop'⟩
          have := psV5PublishAlias_inv (rel := none) (v := false) hk hinv3
            (by simpa using hver) (by intro h; cases h)
          simpa using this
      · have hinv3 : PubInv pm (addWait c p.qos id).s peer :=
          hinv.frame (by simp) (fun e he => Or.inl (by simpa using he))
        have := psV5PublishAlias_inv (rel := some id) (v := false) hk hinv3
          (by simpa using hver) (by intro h; cases h)
        simpa using this
  split
  · exact quiet_inv hinv (by simp) (fun e he => Or.inl (by simpa using he)) (by simp)
  · exact psV5PublishAlias_inv hk hinv hver (by intro h; cases h)

end MqttVerif.Conn
