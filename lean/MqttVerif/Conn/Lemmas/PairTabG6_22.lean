import MqttVerif.Conn.Lemmas.PairSched
/-!
# Generated phase table (helper for `Props/C01L2c.lean`)

Two OPPOSITE exchanges in flight: `startBoth v P1 P2`, `P1` QoS 2 client→server, `P2` QoS 2 server→client.
`Ph`: the 68 shapes (with the notification / release counters) the pair passes through under ANY schedule of
`Act4` actions (found by a breadth-first search on concrete packets; that the table is right for arbitrary
packets and both versions is what `closure` proves, one lemma `cl_p<i>` per phase, by the step lemmas).
`sysOf`: the shape; `next`: the successor; `nS nC rC rS`: the PUBLISH notifications at the server / client application and
the identifiers released by the client / server in that step; `c1 c2 r1 r2`: has message 1 / 2 been notified, identifier
released (1 = yes; for a QoS 2 message and for the releases the counters are exact: `c?x`, `r?_step`).
-/
set_option linter.unusedSimpArgs false
set_option linter.unusedVariables false
namespace MqttVerif.Conn.Pair.G6_22
open MqttVerif MqttVerif.Conn MqttVerif.Conn.Pair

inductive Ph
  | p0
  | p1
  | p2
  | p3
  | p4
  | p5
  | p6
  | p7
  | p8
  | p9
  | p10
  | p11
  | p12
  | p13
  | p14
  | p15
  | p16
  | p17
  | p18
  | p19
  | p20
  | p21
  | p22
  | p23
  | p24
  | p25
  | p26
  | p27
  | p28
  | p29
  | p30
  | p31
  | p32
  | p33
  | p34
  | p35
  | p36
  | p37
  | p38
  | p39
  | p40
  | p41
  | p42
  | p43
  | p44
  | p45
  | p46
  | p47
  | p48
  | p49
  | p50
  | p51
  | p52
  | p53
  | p54
  | p55
  | p56
  | p57
  | p58
  | p59
  | p60
  | p61
  | p62
  | p63
  | p64
  | p65
  | p66
  | p67
deriving DecidableEq, Repr

def sysOf (v : Nat) (P1 P2 : Pkt) : Ph → Sys
  | .p0 =>
    { c := mkSt v true .connected [⟨2, 65535⟩] [(1, P1.asDup)] [] [1] [] [] [],
      s := mkSt v false .connected [⟨2, 65535⟩] [(1, P2.asDup)] [] [1] [] [] [],
      c2s := [P1], s2c := [P2] }
  | .p1 =>
    { c := mkSt v true .connected [⟨2, 65535⟩] [(1, P1.asDup)] [] [1] [] [] [],
      s := mkSt v false .connected [⟨2, 65535⟩] [(1, P2.asDup)] [] [1] [] [1] (prl v [1]),
      c2s := [], s2c := [P2, (ackN v .pubrec 1)] }
  | .p2 =>
    { c := mkSt v true .connected [⟨2, 65535⟩] [(1, P1.asDup)] [] [1] [] [1] (prl v [1]),
      s := mkSt v false .connected [⟨2, 65535⟩] [(1, P2.asDup)] [] [1] [] [] [],
      c2s := [P1, (ackN v .pubrec 1)], s2c := [] }
  | .p3 =>
    { c := mkSt v true .connected [⟨2, 65535⟩] [(1, P1.asDup)] [] [1] [] [] [],
      s := mkSt v false .connected [⟨2, 65535⟩] [(1, P2.asDup)] [] [1] [] [] [],
      c2s := [P1.asDup], s2c := [P2.asDup] }
  | .p4 =>
    { c := mkSt v true .connected [⟨2, 65535⟩] [(1, P1.asDup)] [] [1] [] [1] (prl v [1]),
      s := mkSt v false .connected [⟨2, 65535⟩] [(1, P2.asDup)] [] [1] [] [1] (prl v [1]),
      c2s := [(ackN v .pubrec 1)], s2c := [(ackN v .pubrec 1)] }
  | .p5 =>
    { c := mkSt v true .connected [⟨2, 65535⟩] [(1, P1.asDup)] [] [1] [] [] [],
      s := mkSt v false .connected [⟨2, 65535⟩] [(1, P2.asDup)] [] [1] [] [1] [],
      c2s := [P1.asDup], s2c := [P2.asDup] }
  | .p6 =>
    { c := mkSt v true .connected [⟨2, 65535⟩] [(1, P1.asDup)] [] [1] [] [1] [],
      s := mkSt v false .connected [⟨2, 65535⟩] [(1, P2.asDup)] [] [1] [] [] [],
      c2s := [P1.asDup], s2c := [P2.asDup] }
  | .p7 =>
    { c := mkSt v true .connected [⟨2, 65535⟩] [(1, P1.asDup)] [] [1] [] [] [],
      s := mkSt v false .connected [⟨2, 65535⟩] [(1, P2.asDup)] [] [1] [] [1] (prl v [1]),
      c2s := [], s2c := [P2.asDup, (ackN v .pubrec 1)] }
  | .p8 =>
    { c := mkSt v true .connected [⟨2, 65535⟩] [(1, P1.asDup)] [] [1] [] [1] (prl v [1]),
      s := mkSt v false .connected [⟨2, 65535⟩] [(1, P2.asDup)] [] [1] [] [] [],
      c2s := [P1.asDup, (ackN v .pubrec 1)], s2c := [] }
  | .p9 =>
    { c := mkSt v true .connected [⟨2, 65535⟩] [(1, P1.asDup)] [] [1] [] [1] (prl v [1]),
      s := mkSt v false .connected [⟨2, 65535⟩] [(1, (ackN v .pubrel 1))] [] [] [1] [1] (prl v [1]),
      c2s := [], s2c := [(ackN v .pubrec 1), (ackN v .pubrel 1)] }
  | .p10 =>
    { c := mkSt v true .connected [⟨2, 65535⟩] [(1, (ackN v .pubrel 1))] [] [] [1] [1] (prl v [1]),
      s := mkSt v false .connected [⟨2, 65535⟩] [(1, P2.asDup)] [] [1] [] [1] (prl v [1]),
      c2s := [(ackN v .pubrec 1), (ackN v .pubrel 1)], s2c := [] }
  | .p11 =>
    { c := mkSt v true .connected [⟨2, 65535⟩] [(1, P1.asDup)] [] [1] [] [1] [],
      s := mkSt v false .connected [⟨2, 65535⟩] [(1, P2.asDup)] [] [1] [] [1] [],
      c2s := [P1.asDup], s2c := [P2.asDup] }
  | .p12 =>
    { c := mkSt v true .connected [⟨2, 65535⟩] [(1, P1.asDup)] [] [1] [] [1] (prl v [1]),
      s := mkSt v false .connected [⟨2, 65535⟩] [(1, P2.asDup)] [] [1] [] [1] [],
      c2s := [P1.asDup, (ackN v .pubrec 1)], s2c := [] }
  | .p13 =>
    { c := mkSt v true .connected [⟨2, 65535⟩] [(1, P1.asDup)] [] [1] [] [1] [],
      s := mkSt v false .connected [⟨2, 65535⟩] [(1, P2.asDup)] [] [1] [] [1] (prl v [1]),
      c2s := [], s2c := [P2.asDup, (ackN v .pubrec 1)] }
  | .p14 =>
    { c := mkSt v true .connected [⟨2, 65535⟩] [(1, (ackN v .pubrel 1))] [] [] [1] [1] (prl v [1]),
      s := mkSt v false .connected [⟨2, 65535⟩] [(1, (ackN v .pubrel 1))] [] [] [1] [1] (prl v [1]),
      c2s := [(ackN v .pubrel 1)], s2c := [(ackN v .pubrel 1)] }
  | .p15 =>
    { c := mkSt v true .connected [⟨2, 65535⟩] [(1, P1.asDup)] [] [1] [] [1] [],
      s := mkSt v false .connected [⟨2, 65535⟩] [(1, (ackN v .pubrel 1))] [] [] [1] [1] [],
      c2s := [P1.asDup], s2c := [(ackN v .pubrel 1)] }
  | .p16 =>
    { c := mkSt v true .connected [⟨2, 65535⟩] [(1, (ackN v .pubrel 1))] [] [] [1] [1] [],
      s := mkSt v false .connected [⟨2, 65535⟩] [(1, P2.asDup)] [] [1] [] [1] [],
      c2s := [(ackN v .pubrel 1)], s2c := [P2.asDup] }
  | .p17 =>
    { c := mkSt v true .connected [⟨2, 65535⟩] [(1, (ackN v .pubrel 1))] [] [] [1] [1] (prl v [1]),
      s := mkSt v false .connected [⟨2, 65535⟩] [(1, (ackN v .pubrel 1))] [] [] [1] [] [],
      c2s := [], s2c := [(ackN v .pubrel 1), (ackN v .pubcomp 1)] }
  | .p18 =>
    { c := mkSt v true .connected [⟨2, 65535⟩] [(1, (ackN v .pubrel 1))] [] [] [1] [] [],
      s := mkSt v false .connected [⟨2, 65535⟩] [(1, (ackN v .pubrel 1))] [] [] [1] [1] (prl v [1]),
      c2s := [(ackN v .pubrel 1), (ackN v .pubcomp 1)], s2c := [] }
  | .p19 =>
    { c := mkSt v true .connected [⟨2, 65535⟩] [(1, (ackN v .pubrel 1))] [] [] [1] [1] [],
      s := mkSt v false .connected [⟨2, 65535⟩] [(1, (ackN v .pubrel 1))] [] [] [1] [1] [],
      c2s := [(ackN v .pubrel 1)], s2c := [(ackN v .pubrel 1)] }
  | .p20 =>
    { c := mkSt v true .connected [⟨2, 65535⟩] [(1, P1.asDup)] [] [1] [] [1] [],
      s := mkSt v false .connected [⟨2, 65535⟩] [(1, (ackN v .pubrel 1))] [] [] [1] [1] (prl v [1]),
      c2s := [], s2c := [(ackN v .pubrel 1), (ackN v .pubrec 1)] }
  | .p21 =>
    { c := mkSt v true .connected [⟨2, 65535⟩] [(1, P1.asDup)] [] [1] [] [] [],
      s := mkSt v false .connected [⟨2, 65535⟩] [(1, (ackN v .pubrel 1))] [] [] [1] [1] [],
      c2s := [P1.asDup, (ackN v .pubcomp 1)], s2c := [] }
  | .p22 =>
    { c := mkSt v true .connected [⟨2, 65535⟩] [(1, (ackN v .pubrel 1))] [] [] [1] [1] [],
      s := mkSt v false .connected [⟨2, 65535⟩] [(1, P2.asDup)] [] [1] [] [] [],
      c2s := [], s2c := [P2.asDup, (ackN v .pubcomp 1)] }
  | .p23 =>
    { c := mkSt v true .connected [⟨2, 65535⟩] [(1, (ackN v .pubrel 1))] [] [] [1] [1] (prl v [1]),
      s := mkSt v false .connected [⟨2, 65535⟩] [(1, P2.asDup)] [] [1] [] [1] [],
      c2s := [(ackN v .pubrel 1), (ackN v .pubrec 1)], s2c := [] }
  | .p24 =>
    { c := mkSt v true .connected [⟨2, 65535⟩] [(1, (ackN v .pubrel 1))] [] [] [1] [] [],
      s := mkSt v false .connected [⟨2, 65535⟩] [(1, (ackN v .pubrel 1))] [] [] [1] [] [],
      c2s := [(ackN v .pubcomp 1)], s2c := [(ackN v .pubcomp 1)] }
  | .p25 =>
    { c := mkSt v true .connected [⟨2, 65535⟩] [(1, (ackN v .pubrel 1))] [] [] [1] [1] [],
      s := mkSt v false .connected [⟨2, 65535⟩] [(1, (ackN v .pubrel 1))] [] [] [1] [] [],
      c2s := [(ackN v .pubrel 1)], s2c := [(ackN v .pubrel 1)] }
  | .p26 =>
    { c := mkSt v true .connected [⟨2, 65535⟩] [(1, (ackN v .pubrel 1))] [] [] [1] [] [],
      s := mkSt v false .connected [⟨2, 65535⟩] [(1, (ackN v .pubrel 1))] [] [] [1] [1] [],
      c2s := [(ackN v .pubrel 1)], s2c := [(ackN v .pubrel 1)] }
  | .p27 =>
    { c := mkSt v true .connected [⟨2, 65535⟩] [(1, (ackN v .pubrel 1))] [] [] [1] [1] [],
      s := mkSt v false .connected [⟨2, 65535⟩] [(1, (ackN v .pubrel 1))] [] [] [1] [] [],
      c2s := [], s2c := [(ackN v .pubrel 1), (ackN v .pubcomp 1)] }
  | .p28 =>
    { c := mkSt v true .connected [⟨2, 65535⟩] [(1, (ackN v .pubrel 1))] [] [] [1] [] [],
      s := mkSt v false .connected [⟨2, 65535⟩] [(1, (ackN v .pubrel 1))] [] [] [1] [1] [],
      c2s := [(ackN v .pubrel 1), (ackN v .pubcomp 1)], s2c := [] }
  | .p29 =>
    { c := mkSt v true .connected [⟨2, 65535⟩] [(1, P1.asDup)] [] [1] [] [] [],
      s := mkSt v false .connected [⟨2, 65535⟩] [(1, (ackN v .pubrel 1))] [] [] [1] [1] (prl v [1]),
      c2s := [(ackN v .pubcomp 1)], s2c := [(ackN v .pubrec 1)] }
  | .p30 =>
    { c := mkSt v true .connected [⟨2, 65535⟩] [(1, P1.asDup)] [] [1] [] [] [],
      s := mkSt v false .connected [⟨2, 65535⟩] [(1, (ackN v .pubrel 1))] [] [] [1] [1] [],
      c2s := [P1.asDup], s2c := [(ackN v .pubrel 1)] }
  | .p31 =>
    { c := mkSt v true .connected [⟨2, 65535⟩] [(1, (ackN v .pubrel 1))] [] [] [1] [1] (prl v [1]),
      s := mkSt v false .connected [⟨2, 65535⟩] [(1, P2.asDup)] [] [1] [] [] [],
      c2s := [(ackN v .pubrec 1)], s2c := [(ackN v .pubcomp 1)] }
  | .p32 =>
    { c := mkSt v true .connected [⟨2, 65535⟩] [(1, (ackN v .pubrel 1))] [] [] [1] [1] [],
      s := mkSt v false .connected [⟨2, 65535⟩] [(1, P2.asDup)] [] [1] [] [] [],
      c2s := [(ackN v .pubrel 1)], s2c := [P2.asDup] }
  | .p33 =>
    { c := mkSt v true .connected [⟨2, 65535⟩] [(1, (ackN v .pubrel 1))] [] [] [1] [] [],
      s := mkSt v false .connected [⟨1, 65535⟩] [] [] [] [] [] [],
      c2s := [], s2c := [(ackN v .pubcomp 1)] }
  | .p34 =>
    { c := mkSt v true .connected [⟨1, 65535⟩] [] [] [] [] [] [],
      s := mkSt v false .connected [⟨2, 65535⟩] [(1, (ackN v .pubrel 1))] [] [] [1] [] [],
      c2s := [(ackN v .pubcomp 1)], s2c := [] }
  | .p35 =>
    { c := mkSt v true .connected [⟨2, 65535⟩] [(1, (ackN v .pubrel 1))] [] [] [1] [] [],
      s := mkSt v false .connected [⟨2, 65535⟩] [(1, (ackN v .pubrel 1))] [] [] [1] [] [],
      c2s := [(ackN v .pubrel 1)], s2c := [(ackN v .pubrel 1)] }
  | .p36 =>
    { c := mkSt v true .connected [⟨2, 65535⟩] [(1, (ackN v .pubrel 1))] [] [] [1] [1] [],
      s := mkSt v false .connected [⟨2, 65535⟩] [(1, (ackN v .pubrel 1))] [] [] [1] [] [],
      c2s := [], s2c := [(ackN v .pubrel 1), (pcA v 1)] }
  | .p37 =>
    { c := mkSt v true .connected [⟨2, 65535⟩] [(1, (ackN v .pubrel 1))] [] [] [1] [] [],
      s := mkSt v false .connected [⟨2, 65535⟩] [(1, (ackN v .pubrel 1))] [] [] [1] [] [],
      c2s := [(ackN v .pubrel 1), (ackN v .pubcomp 1)], s2c := [] }
  | .p38 =>
    { c := mkSt v true .connected [⟨2, 65535⟩] [(1, (ackN v .pubrel 1))] [] [] [1] [] [],
      s := mkSt v false .connected [⟨2, 65535⟩] [(1, (ackN v .pubrel 1))] [] [] [1] [] [],
      c2s := [], s2c := [(ackN v .pubrel 1), (ackN v .pubcomp 1)] }
  | .p39 =>
    { c := mkSt v true .connected [⟨2, 65535⟩] [(1, (ackN v .pubrel 1))] [] [] [1] [] [],
      s := mkSt v false .connected [⟨2, 65535⟩] [(1, (ackN v .pubrel 1))] [] [] [1] [1] [],
      c2s := [(ackN v .pubrel 1), (pcA v 1)], s2c := [] }
  | .p40 =>
    { c := mkSt v true .connected [⟨2, 65535⟩] [(1, P1.asDup)] [] [1] [] [] [],
      s := mkSt v false .connected [⟨1, 65535⟩] [] [] [] [] [1] (prl v [1]),
      c2s := [], s2c := [(ackN v .pubrec 1)] }
  | .p41 =>
    { c := mkSt v true .connected [⟨2, 65535⟩] [(1, (ackN v .pubrel 1))] [] [] [1] [] [],
      s := mkSt v false .connected [⟨2, 65535⟩] [(1, (ackN v .pubrel 1))] [] [] [1] [1] (prl v [1]),
      c2s := [(ackN v .pubcomp 1), (ackN v .pubrel 1)], s2c := [] }
  | .p42 =>
    { c := mkSt v true .connected [⟨2, 65535⟩] [(1, P1.asDup)] [] [1] [] [] [],
      s := mkSt v false .connected [⟨2, 65535⟩] [(1, (ackN v .pubrel 1))] [] [] [1] [1] (prl v [1]),
      c2s := [], s2c := [(ackN v .pubrel 1), (ackN v .pubrec 1)] }
  | .p43 =>
    { c := mkSt v true .connected [⟨2, 65535⟩] [(1, P1.asDup)] [] [1] [] [] [],
      s := mkSt v false .connected [⟨2, 65535⟩] [(1, (ackN v .pubrel 1))] [] [] [1] [1] [],
      c2s := [P1.asDup, (pcA v 1)], s2c := [] }
  | .p44 =>
    { c := mkSt v true .connected [⟨2, 65535⟩] [(1, (ackN v .pubrel 1))] [] [] [1] [1] (prl v [1]),
      s := mkSt v false .connected [⟨2, 65535⟩] [(1, (ackN v .pubrel 1))] [] [] [1] [] [],
      c2s := [], s2c := [(ackN v .pubcomp 1), (ackN v .pubrel 1)] }
  | .p45 =>
    { c := mkSt v true .connected [⟨1, 65535⟩] [] [] [] [] [1] (prl v [1]),
      s := mkSt v false .connected [⟨2, 65535⟩] [(1, P2.asDup)] [] [1] [] [] [],
      c2s := [(ackN v .pubrec 1)], s2c := [] }
  | .p46 =>
    { c := mkSt v true .connected [⟨2, 65535⟩] [(1, (ackN v .pubrel 1))] [] [] [1] [1] [],
      s := mkSt v false .connected [⟨2, 65535⟩] [(1, P2.asDup)] [] [1] [] [] [],
      c2s := [], s2c := [P2.asDup, (pcA v 1)] }
  | .p47 =>
    { c := mkSt v true .connected [⟨2, 65535⟩] [(1, (ackN v .pubrel 1))] [] [] [1] [1] (prl v [1]),
      s := mkSt v false .connected [⟨2, 65535⟩] [(1, P2.asDup)] [] [1] [] [] [],
      c2s := [(ackN v .pubrel 1), (ackN v .pubrec 1)], s2c := [] }
  | .p48 =>
    { c := mkSt v true .connected [⟨1, 65535⟩] [] [] [] [] [] [],
      s := mkSt v false .connected [⟨1, 65535⟩] [] [] [] [] [] [],
      c2s := [], s2c := [] }
  | .p49 =>
    { c := mkSt v true .connected [⟨2, 65535⟩] [(1, (ackN v .pubrel 1))] [] [] [1] [] [],
      s := mkSt v false .connected [⟨1, 65535⟩] [] [] [] [] [] [],
      c2s := [(ackN v .pubrel 1)], s2c := [] }
  | .p50 =>
    { c := mkSt v true .connected [⟨1, 65535⟩] [] [] [] [] [] [],
      s := mkSt v false .connected [⟨2, 65535⟩] [(1, (ackN v .pubrel 1))] [] [] [1] [] [],
      c2s := [], s2c := [(ackN v .pubrel 1)] }
  | .p51 =>
    { c := mkSt v true .connected [⟨2, 65535⟩] [(1, (ackN v .pubrel 1))] [] [] [1] [] [],
      s := mkSt v false .connected [⟨2, 65535⟩] [(1, (ackN v .pubrel 1))] [] [] [1] [] [],
      c2s := [], s2c := [(ackN v .pubrel 1), (pcA v 1)] }
  | .p52 =>
    { c := mkSt v true .connected [⟨2, 65535⟩] [(1, (ackN v .pubrel 1))] [] [] [1] [] [],
      s := mkSt v false .connected [⟨2, 65535⟩] [(1, (ackN v .pubrel 1))] [] [] [1] [] [],
      c2s := [(ackN v .pubrel 1), (pcA v 1)], s2c := [] }
  | .p53 =>
    { c := mkSt v true .connected [⟨2, 65535⟩] [(1, (ackN v .pubrel 1))] [] [] [1] [] [],
      s := mkSt v false .connected [⟨2, 65535⟩] [(1, (ackN v .pubrel 1))] [] [] [1] [] [],
      c2s := [(ackN v .pubcomp 1)], s2c := [(pcA v 1)] }
  | .p54 =>
    { c := mkSt v true .connected [⟨2, 65535⟩] [(1, (ackN v .pubrel 1))] [] [] [1] [] [],
      s := mkSt v false .connected [⟨2, 65535⟩] [(1, (ackN v .pubrel 1))] [] [] [1] [] [],
      c2s := [(pcA v 1)], s2c := [(ackN v .pubcomp 1)] }
  | .p55 =>
    { c := mkSt v true .connected [⟨2, 65535⟩] [(1, (ackN v .pubrel 1))] [] [] [1] [] [],
      s := mkSt v false .connected [⟨1, 65535⟩] [] [] [] [] [1] (prl v [1]),
      c2s := [(ackN v .pubrel 1)], s2c := [] }
  | .p56 =>
    { c := mkSt v true .connected [⟨2, 65535⟩] [(1, P1.asDup)] [] [1] [] [] [],
      s := mkSt v false .connected [⟨1, 65535⟩] [] [] [] [] [1] [],
      c2s := [P1.asDup], s2c := [] }
  | .p57 =>
    { c := mkSt v true .connected [⟨2, 65535⟩] [(1, P1.asDup)] [] [1] [] [] [],
      s := mkSt v false .connected [⟨2, 65535⟩] [(1, (ackN v .pubrel 1))] [] [] [1] [1] (prl v [1]),
      c2s := [(pcA v 1)], s2c := [(ackN v .pubrec 1)] }
  | .p58 =>
    { c := mkSt v true .connected [⟨1, 65535⟩] [] [] [] [] [1] (prl v [1]),
      s := mkSt v false .connected [⟨2, 65535⟩] [(1, (ackN v .pubrel 1))] [] [] [1] [] [],
      c2s := [], s2c := [(ackN v .pubrel 1)] }
  | .p59 =>
    { c := mkSt v true .connected [⟨1, 65535⟩] [] [] [] [] [1] [],
      s := mkSt v false .connected [⟨2, 65535⟩] [(1, P2.asDup)] [] [1] [] [] [],
      c2s := [], s2c := [P2.asDup] }
  | .p60 =>
    { c := mkSt v true .connected [⟨2, 65535⟩] [(1, (ackN v .pubrel 1))] [] [] [1] [1] (prl v [1]),
      s := mkSt v false .connected [⟨2, 65535⟩] [(1, P2.asDup)] [] [1] [] [] [],
      c2s := [(ackN v .pubrec 1)], s2c := [(pcA v 1)] }
  | .p61 =>
    { c := mkSt v true .connected [⟨2, 65535⟩] [(1, (ackN v .pubrel 1))] [] [] [1] [] [],
      s := mkSt v false .connected [⟨1, 65535⟩] [] [] [] [] [] [],
      c2s := [], s2c := [(pcA v 1)] }
  | .p62 =>
    { c := mkSt v true .connected [⟨1, 65535⟩] [] [] [] [] [] [],
      s := mkSt v false .connected [⟨2, 65535⟩] [(1, (ackN v .pubrel 1))] [] [] [1] [] [],
      c2s := [(pcA v 1)], s2c := [] }
  | .p63 =>
    { c := mkSt v true .connected [⟨2, 65535⟩] [(1, (ackN v .pubrel 1))] [] [] [1] [] [],
      s := mkSt v false .connected [⟨2, 65535⟩] [(1, (ackN v .pubrel 1))] [] [] [1] [] [],
      c2s := [(pcA v 1)], s2c := [(pcA v 1)] }
  | .p64 =>
    { c := mkSt v true .connected [⟨2, 65535⟩] [(1, (ackN v .pubrel 1))] [] [] [1] [] [],
      s := mkSt v false .connected [⟨1, 65535⟩] [] [] [] [] [1] [],
      c2s := [(ackN v .pubrel 1)], s2c := [] }
  | .p65 =>
    { c := mkSt v true .connected [⟨2, 65535⟩] [(1, (ackN v .pubrel 1))] [] [] [1] [] [],
      s := mkSt v false .connected [⟨2, 65535⟩] [(1, (ackN v .pubrel 1))] [] [] [1] [1] (prl v [1]),
      c2s := [(pcA v 1), (ackN v .pubrel 1)], s2c := [] }
  | .p66 =>
    { c := mkSt v true .connected [⟨1, 65535⟩] [] [] [] [] [1] [],
      s := mkSt v false .connected [⟨2, 65535⟩] [(1, (ackN v .pubrel 1))] [] [] [1] [] [],
      c2s := [], s2c := [(ackN v .pubrel 1)] }
  | .p67 =>
    { c := mkSt v true .connected [⟨2, 65535⟩] [(1, (ackN v .pubrel 1))] [] [] [1] [1] (prl v [1]),
      s := mkSt v false .connected [⟨2, 65535⟩] [(1, (ackN v .pubrel 1))] [] [] [1] [] [],
      c2s := [], s2c := [(pcA v 1), (ackN v .pubrel 1)] }

def next (ph : Ph) (a : Act4) : Ph :=
  match ph with
  | .p0 => sel a .p1 .p2 .p1 .p3
  | .p1 => sel a .p1 .p4 .p4 .p5
  | .p2 => sel a .p4 .p2 .p4 .p6
  | .p3 => sel a .p7 .p8 .p7 .p3
  | .p4 => sel a .p9 .p10 .p9 .p11
  | .p5 => sel a .p7 .p12 .p7 .p5
  | .p6 => sel a .p13 .p8 .p13 .p6
  | .p7 => sel a .p7 .p4 .p4 .p5
  | .p8 => sel a .p4 .p8 .p4 .p6
  | .p9 => sel a .p9 .p14 .p14 .p15
  | .p10 => sel a .p14 .p10 .p14 .p16
  | .p11 => sel a .p13 .p12 .p13 .p11
  | .p12 => sel a .p4 .p12 .p4 .p11
  | .p13 => sel a .p13 .p4 .p4 .p11
  | .p14 => sel a .p17 .p18 .p17 .p19
  | .p15 => sel a .p20 .p21 .p20 .p15
  | .p16 => sel a .p22 .p23 .p22 .p16
  | .p17 => sel a .p17 .p24 .p24 .p25
  | .p18 => sel a .p24 .p18 .p24 .p26
  | .p19 => sel a .p27 .p28 .p27 .p19
  | .p20 => sel a .p20 .p29 .p29 .p15
  | .p21 => sel a .p29 .p21 .p29 .p30
  | .p22 => sel a .p22 .p31 .p31 .p32
  | .p23 => sel a .p31 .p23 .p31 .p16
  | .p24 => sel a .p33 .p34 .p33 .p35
  | .p25 => sel a .p36 .p37 .p36 .p25
  | .p26 => sel a .p38 .p39 .p38 .p26
  | .p27 => sel a .p27 .p24 .p24 .p25
  | .p28 => sel a .p24 .p28 .p24 .p26
  | .p29 => sel a .p40 .p41 .p40 .p30
  | .p30 => sel a .p42 .p43 .p42 .p30
  | .p31 => sel a .p44 .p45 .p44 .p32
  | .p32 => sel a .p46 .p47 .p46 .p32
  | .p33 => sel a .p33 .p48 .p48 .p49
  | .p34 => sel a .p48 .p34 .p48 .p50
  | .p35 => sel a .p51 .p52 .p51 .p35
  | .p36 => sel a .p36 .p53 .p53 .p25
  | .p37 => sel a .p53 .p37 .p53 .p35
  | .p38 => sel a .p38 .p54 .p54 .p35
  | .p39 => sel a .p54 .p39 .p54 .p26
  | .p40 => sel a .p40 .p55 .p55 .p56
  | .p41 => sel a .p55 .p41 .p55 .p26
  | .p42 => sel a .p42 .p57 .p57 .p30
  | .p43 => sel a .p57 .p43 .p57 .p30
  | .p44 => sel a .p44 .p58 .p58 .p25
  | .p45 => sel a .p58 .p45 .p58 .p59
  | .p46 => sel a .p46 .p60 .p60 .p32
  | .p47 => sel a .p60 .p47 .p60 .p32
  | .p48 => sel a .p48 .p48 .p48 .p48
  | .p49 => sel a .p61 .p49 .p61 .p49
  | .p50 => sel a .p50 .p62 .p62 .p50
  | .p51 => sel a .p51 .p63 .p63 .p35
  | .p52 => sel a .p63 .p52 .p63 .p35
  | .p53 => sel a .p61 .p34 .p61 .p35
  | .p54 => sel a .p33 .p62 .p33 .p35
  | .p55 => sel a .p33 .p55 .p33 .p64
  | .p56 => sel a .p40 .p56 .p40 .p56
  | .p57 => sel a .p40 .p65 .p40 .p30
  | .p58 => sel a .p58 .p34 .p34 .p66
  | .p59 => sel a .p59 .p45 .p45 .p59
  | .p60 => sel a .p67 .p45 .p67 .p32
  | .p61 => sel a .p61 .p48 .p48 .p49
  | .p62 => sel a .p48 .p62 .p48 .p50
  | .p63 => sel a .p61 .p62 .p61 .p35
  | .p64 => sel a .p33 .p64 .p33 .p64
  | .p65 => sel a .p55 .p65 .p55 .p26
  | .p66 => sel a .p66 .p34 .p34 .p66
  | .p67 => sel a .p67 .p58 .p58 .p25

def nS (P1 P2 : Pkt) (ph : Ph) (a : Act4) : List Pkt :=
  match ph with
  | .p0 => sel a [P1] [] [P1] []
  | .p2 => sel a [P1] [] [P1] []
  | .p3 => sel a [P1.asDup] [] [P1.asDup] []
  | .p6 => sel a [P1.asDup] [] [P1.asDup] []
  | .p8 => sel a [P1.asDup] [] [P1.asDup] []
  | _ => []

def nC (P1 P2 : Pkt) (ph : Ph) (a : Act4) : List Pkt :=
  match ph with
  | .p0 => sel a [] [P2] [] []
  | .p1 => sel a [] [P2] [P2] []
  | .p3 => sel a [] [P2.asDup] [] []
  | .p5 => sel a [] [P2.asDup] [] []
  | .p7 => sel a [] [P2.asDup] [P2.asDup] []
  | _ => []

def rC (ph : Ph) (a : Act4) : List Nat :=
  match ph with
  | .p24 => sel a [] [1] [] []
  | .p31 => sel a [] [1] [] []
  | .p33 => sel a [] [1] [1] []
  | .p44 => sel a [] [1] [1] []
  | .p53 => sel a [] [1] [] []
  | .p54 => sel a [] [1] [] []
  | .p60 => sel a [] [1] [] []
  | .p61 => sel a [] [1] [1] []
  | .p63 => sel a [] [1] [] []
  | .p67 => sel a [] [1] [1] []
  | _ => []

def rS (ph : Ph) (a : Act4) : List Nat :=
  match ph with
  | .p24 => sel a [1] [] [1] []
  | .p29 => sel a [1] [] [1] []
  | .p34 => sel a [1] [] [1] []
  | .p41 => sel a [1] [] [1] []
  | .p53 => sel a [1] [] [1] []
  | .p54 => sel a [1] [] [1] []
  | .p57 => sel a [1] [] [1] []
  | .p62 => sel a [1] [] [1] []
  | .p63 => sel a [1] [] [1] []
  | .p65 => sel a [1] [] [1] []
  | _ => []

def c1 : Ph → Nat
  | .p1 => 1
  | .p4 => 1
  | .p5 => 1
  | .p7 => 1
  | .p9 => 1
  | .p10 => 1
  | .p11 => 1
  | .p12 => 1
  | .p13 => 1
  | .p14 => 1
  | .p15 => 1
  | .p16 => 1
  | .p17 => 1
  | .p18 => 1
  | .p19 => 1
  | .p20 => 1
  | .p21 => 1
  | .p22 => 1
  | .p23 => 1
  | .p24 => 1
  | .p25 => 1
  | .p26 => 1
  | .p27 => 1
  | .p28 => 1
  | .p29 => 1
  | .p30 => 1
  | .p31 => 1
  | .p32 => 1
  | .p33 => 1
  | .p34 => 1
  | .p35 => 1
  | .p36 => 1
  | .p37 => 1
  | .p38 => 1
  | .p39 => 1
  | .p40 => 1
  | .p41 => 1
  | .p42 => 1
  | .p43 => 1
  | .p44 => 1
  | .p45 => 1
  | .p46 => 1
  | .p47 => 1
  | .p48 => 1
  | .p49 => 1
  | .p50 => 1
  | .p51 => 1
  | .p52 => 1
  | .p53 => 1
  | .p54 => 1
  | .p55 => 1
  | .p56 => 1
  | .p57 => 1
  | .p58 => 1
  | .p59 => 1
  | .p60 => 1
  | .p61 => 1
  | .p62 => 1
  | .p63 => 1
  | .p64 => 1
  | .p65 => 1
  | .p66 => 1
  | .p67 => 1
  | _ => 0

def c2 : Ph → Nat
  | .p2 => 1
  | .p4 => 1
  | .p6 => 1
  | .p8 => 1
  | .p9 => 1
  | .p10 => 1
  | .p11 => 1
  | .p12 => 1
  | .p13 => 1
  | .p14 => 1
  | .p15 => 1
  | .p16 => 1
  | .p17 => 1
  | .p18 => 1
  | .p19 => 1
  | .p20 => 1
  | .p21 => 1
  | .p22 => 1
  | .p23 => 1
  | .p24 => 1
  | .p25 => 1
  | .p26 => 1
  | .p27 => 1
  | .p28 => 1
  | .p29 => 1
  | .p30 => 1
  | .p31 => 1
  | .p32 => 1
  | .p33 => 1
  | .p34 => 1
  | .p35 => 1
  | .p36 => 1
  | .p37 => 1
  | .p38 => 1
  | .p39 => 1
  | .p40 => 1
  | .p41 => 1
  | .p42 => 1
  | .p43 => 1
  | .p44 => 1
  | .p45 => 1
  | .p46 => 1
  | .p47 => 1
  | .p48 => 1
  | .p49 => 1
  | .p50 => 1
  | .p51 => 1
  | .p52 => 1
  | .p53 => 1
  | .p54 => 1
  | .p55 => 1
  | .p56 => 1
  | .p57 => 1
  | .p58 => 1
  | .p59 => 1
  | .p60 => 1
  | .p61 => 1
  | .p62 => 1
  | .p63 => 1
  | .p64 => 1
  | .p65 => 1
  | .p66 => 1
  | .p67 => 1
  | _ => 0

def r1 : Ph → Nat
  | .p34 => 1
  | .p45 => 1
  | .p48 => 1
  | .p50 => 1
  | .p58 => 1
  | .p59 => 1
  | .p62 => 1
  | .p66 => 1
  | _ => 0

def r2 : Ph → Nat
  | .p33 => 1
  | .p40 => 1
  | .p48 => 1
  | .p49 => 1
  | .p55 => 1
  | .p56 => 1
  | .p61 => 1
  | .p64 => 1
  | _ => 0

def done : Ph := .p48

section
variable {v : Nat} {P1 P2 : Pkt} (hv : v = 4 ∨ v = 5) (hA : IsPub v 2 P1) (hB : IsPub v 2 P2)
include hv hA hB

theorem cl_p0 (a : Act4) :
    Obs2 (sysOf v P1 P2 (next .p0 a)) (nS P1 P2 .p0 a) (nC P1 P2 .p0 a) (rC .p0 a) (rS .p0 a) (act4 v (sysOf v P1 P2 .p0) a) := by
  have hv' := hv; have h1 : (2 : Nat) = 1 ∨ (2 : Nat) = 2 := Or.inr rfl; have h2 : (2 : Nat) = 1 ∨ (2 : Nat) = 2 := Or.inr rfl
  rcases hv' with rfl | rfl <;> cases a <;> run4 hv h1 hA h2 hB [sysOf, next, sel, nS, nC, rC, rS, act4, pcA, prl]

theorem cl_p1 (a : Act4) :
    Obs2 (sysOf v P1 P2 (next .p1 a)) (nS P1 P2 .p1 a) (nC P1 P2 .p1 a) (rC .p1 a) (rS .p1 a) (act4 v (sysOf v P1 P2 .p1) a) := by
  have hv' := hv; have h1 : (2 : Nat) = 1 ∨ (2 : Nat) = 2 := Or.inr rfl; have h2 : (2 : Nat) = 1 ∨ (2 : Nat) = 2 := Or.inr rfl
  rcases hv' with rfl | rfl <;> cases a <;> run4 hv h1 hA h2 hB [sysOf, next, sel, nS, nC, rC, rS, act4, pcA, prl]

theorem cl_p2 (a : Act4) :
    Obs2 (sysOf v P1 P2 (next .p2 a)) (nS P1 P2 .p2 a) (nC P1 P2 .p2 a) (rC .p2 a) (rS .p2 a) (act4 v (sysOf v P1 P2 .p2) a) := by
  have hv' := hv; have h1 : (2 : Nat) = 1 ∨ (2 : Nat) = 2 := Or.inr rfl; have h2 : (2 : Nat) = 1 ∨ (2 : Nat) = 2 := Or.inr rfl
  rcases hv' with rfl | rfl <;> cases a <;> run4 hv h1 hA h2 hB [sysOf, next, sel, nS, nC, rC, rS, act4, pcA, prl]

theorem cl_p3 (a : Act4) :
    Obs2 (sysOf v P1 P2 (next .p3 a)) (nS P1 P2 .p3 a) (nC P1 P2 .p3 a) (rC .p3 a) (rS .p3 a) (act4 v (sysOf v P1 P2 .p3) a) := by
  have hv' := hv; have h1 : (2 : Nat) = 1 ∨ (2 : Nat) = 2 := Or.inr rfl; have h2 : (2 : Nat) = 1 ∨ (2 : Nat) = 2 := Or.inr rfl
  rcases hv' with rfl | rfl <;> cases a <;> run4 hv h1 hA h2 hB [sysOf, next, sel, nS, nC, rC, rS, act4, pcA, prl]

theorem cl_p4 (a : Act4) :
    Obs2 (sysOf v P1 P2 (next .p4 a)) (nS P1 P2 .p4 a) (nC P1 P2 .p4 a) (rC .p4 a) (rS .p4 a) (act4 v (sysOf v P1 P2 .p4) a) := by
  have hv' := hv; have h1 : (2 : Nat) = 1 ∨ (2 : Nat) = 2 := Or.inr rfl; have h2 : (2 : Nat) = 1 ∨ (2 : Nat) = 2 := Or.inr rfl
  rcases hv' with rfl | rfl <;> cases a <;> run4 hv h1 hA h2 hB [sysOf, next, sel, nS, nC, rC, rS, act4, pcA, prl]

theorem cl_p5 (a : Act4) :
    Obs2 (sysOf v P1 P2 (next .p5 a)) (nS P1 P2 .p5 a) (nC P1 P2 .p5 a) (rC .p5 a) (rS .p5 a) (act4 v (sysOf v P1 P2 .p5) a) := by
  have hv' := hv; have h1 : (2 : Nat) = 1 ∨ (2 : Nat) = 2 := Or.inr rfl; have h2 : (2 : Nat) = 1 ∨ (2 : Nat) = 2 := Or.inr rfl
  rcases hv' with rfl | rfl <;> cases a <;> run4 hv h1 hA h2 hB [sysOf, next, sel, nS, nC, rC, rS, act4, pcA, prl]

theorem cl_p6 (a : Act4) :
    Obs2 (sysOf v P1 P2 (next .p6 a)) (nS P1 P2 .p6 a) (nC P1 P2 .p6 a) (rC .p6 a) (rS .p6 a) (act4 v (sysOf v P1 P2 .p6) a) := by
  have hv' := hv; have h1 : (2 : Nat) = 1 ∨ (2 : Nat) = 2 := Or.inr rfl; have h2 : (2 : Nat) = 1 ∨ (2 : Nat) = 2 := Or.inr rfl
  rcases hv' with rfl | rfl <;> cases a <;> run4 hv h1 hA h2 hB [sysOf, next, sel, nS, nC, rC, rS, act4, pcA, prl]

theorem cl_p7 (a : Act4) :
    Obs2 (sysOf v P1 P2 (next .p7 a)) (nS P1 P2 .p7 a) (nC P1 P2 .p7 a) (rC .p7 a) (rS .p7 a) (act4 v (sysOf v P1 P2 .p7) a) := by
  have hv' := hv; have h1 : (2 : Nat) = 1 ∨ (2 : Nat) = 2 := Or.inr rfl; have h2 : (2 : Nat) = 1 ∨ (2 : Nat) = 2 := Or.inr rfl
  rcases hv' with rfl | rfl <;> cases a <;> run4 hv h1 hA h2 hB [sysOf, next, sel, nS, nC, rC, rS, act4, pcA, prl]

theorem cl_p8 (a : Act4) :
    Obs2 (sysOf v P1 P2 (next .p8 a)) (nS P1 P2 .p8 a) (nC P1 P2 .p8 a) (rC .p8 a) (rS .p8 a) (act4 v (sysOf v P1 P2 .p8) a) := by
  have hv' := hv; have h1 : (2 : Nat) = 1 ∨ (2 : Nat) = 2 := Or.inr rfl; have h2 : (2 : Nat) = 1 ∨ (2 : Nat) = 2 := Or.inr rfl
  rcases hv' with rfl | rfl <;> cases a <;> run4 hv h1 hA h2 hB [sysOf, next, sel, nS, nC, rC, rS, act4, pcA, prl]

theorem cl_p9 (a : Act4) :
    Obs2 (sysOf v P1 P2 (next .p9 a)) (nS P1 P2 .p9 a) (nC P1 P2 .p9 a) (rC .p9 a) (rS .p9 a) (act4 v (sysOf v P1 P2 .p9) a) := by
  have hv' := hv; have h1 : (2 : Nat) = 1 ∨ (2 : Nat) = 2 := Or.inr rfl; have h2 : (2 : Nat) = 1 ∨ (2 : Nat) = 2 := Or.inr rfl
  rcases hv' with rfl | rfl <;> cases a <;> run4 hv h1 hA h2 hB [sysOf, next, sel, nS, nC, rC, rS, act4, pcA, prl]

theorem cl_p10 (a : Act4) :
    Obs2 (sysOf v P1 P2 (next .p10 a)) (nS P1 P2 .p10 a) (nC P1 P2 .p10 a) (rC .p10 a) (rS .p10 a) (act4 v (sysOf v P1 P2 .p10) a) := by
  have hv' := hv; have h1 : (2 : Nat) = 1 ∨ (2 : Nat) = 2 := Or.inr rfl; have h2 : (2 : Nat) = 1 ∨ (2 : Nat) = 2 := Or.inr rfl
  rcases hv' with rfl | rfl <;> cases a <;> run4 hv h1 hA h2 hB [sysOf, next, sel, nS, nC, rC, rS, act4, pcA, prl]

theorem cl_p11 (a : Act4) :
    Obs2 (sysOf v P1 P2 (next .p11 a)) (nS P1 P2 .p11 a) (nC P1 P2 .p11 a) (rC .p11 a) (rS .p11 a) (act4 v (sysOf v P1 P2 .p11) a) := by
  have hv' := hv; have h1 : (2 : Nat) = 1 ∨ (2 : Nat) = 2 := Or.inr rfl; have h2 : (2 : Nat) = 1 ∨ (2 : Nat) = 2 := Or.inr rfl
  rcases hv' with rfl | rfl <;> cases a <;> run4 hv h1 hA h2 hB [sysOf, next, sel, nS, nC, rC, rS, act4, pcA, prl]

theorem cl_p12 (a : Act4) :
    Obs2 (sysOf v P1 P2 (next .p12 a)) (nS P1 P2 .p12 a) (nC P1 P2 .p12 a) (rC .p12 a) (rS .p12 a) (act4 v (sysOf v P1 P2 .p12) a) := by
  have hv' := hv; have h1 : (2 : Nat) = 1 ∨ (2 : Nat) = 2 := Or.inr rfl; have h2 : (2 : Nat) = 1 ∨ (2 : Nat) = 2 := Or.inr rfl
  rcases hv' with rfl | rfl <;> cases a <;> run4 hv h1 hA h2 hB [sysOf, next, sel, nS, nC, rC, rS, act4, pcA, prl]

theorem cl_p13 (a : Act4) :
    Obs2 (sysOf v P1 P2 (next .p13 a)) (nS P1 P2 .p13 a) (nC P1 P2 .p13 a) (rC .p13 a) (rS .p13 a) (act4 v (sysOf v P1 P2 .p13) a) := by
  have hv' := hv; have h1 : (2 : Nat) = 1 ∨ (2 : Nat) = 2 := Or.inr rfl; have h2 : (2 : Nat) = 1 ∨ (2 : Nat) = 2 := Or.inr rfl
  rcases hv' with rfl | rfl <;> cases a <;> run4 hv h1 hA h2 hB [sysOf, next, sel, nS, nC, rC, rS, act4, pcA, prl]

theorem cl_p14 (a : Act4) :
    Obs2 (sysOf v P1 P2 (next .p14 a)) (nS P1 P2 .p14 a) (nC P1 P2 .p14 a) (rC .p14 a) (rS .p14 a) (act4 v (sysOf v P1 P2 .p14) a) := by
  have hv' := hv; have h1 : (2 : Nat) = 1 ∨ (2 : Nat) = 2 := Or.inr rfl; have h2 : (2 : Nat) = 1 ∨ (2 : Nat) = 2 := Or.inr rfl
  rcases hv' with rfl | rfl <;> cases a <;> run4 hv h1 hA h2 hB [sysOf, next, sel, nS, nC, rC, rS, act4, pcA, prl]

theorem cl_p15 (a : Act4) :
    Obs2 (sysOf v P1 P2 (next .p15 a)) (nS P1 P2 .p15 a) (nC P1 P2 .p15 a) (rC .p15 a) (rS .p15 a) (act4 v (sysOf v P1 P2 .p15) a) := by
  have hv' := hv; have h1 : (2 : Nat) = 1 ∨ (2 : Nat) = 2 := Or.inr rfl; have h2 : (2 : Nat) = 1 ∨ (2 : Nat) = 2 := Or.inr rfl
  rcases hv' with rfl | rfl <;> cases a <;> run4 hv h1 hA h2 hB [sysOf, next, sel, nS, nC, rC, rS, act4, pcA, prl]

theorem cl_p16 (a : Act4) :
    Obs2 (sysOf v P1 P2 (next .p16 a)) (nS P1 P2 .p16 a) (nC P1 P2 .p16 a) (rC .p16 a) (rS .p16 a) (act4 v (sysOf v P1 P2 .p16) a) := by
  have hv' := hv; have h1 : (2 : Nat) = 1 ∨ (2 : Nat) = 2 := Or.inr rfl; have h2 : (2 : Nat) = 1 ∨ (2 : Nat) = 2 := Or.inr rfl
  rcases hv' with rfl | rfl <;> cases a <;> run4 hv h1 hA h2 hB [sysOf, next, sel, nS, nC, rC, rS, act4, pcA, prl]

theorem cl_p17 (a : Act4) :
    Obs2 (sysOf v P1 P2 (next .p17 a)) (nS P1 P2 .p17 a) (nC P1 P2 .p17 a) (rC .p17 a) (rS .p17 a) (act4 v (sysOf v P1 P2 .p17) a) := by
  have hv' := hv; have h1 : (2 : Nat) = 1 ∨ (2 : Nat) = 2 := Or.inr rfl; have h2 : (2 : Nat) = 1 ∨ (2 : Nat) = 2 := Or.inr rfl
  rcases hv' with rfl | rfl <;> cases a <;> run4 hv h1 hA h2 hB [sysOf, next, sel, nS, nC, rC, rS, act4, pcA, prl]

theorem cl_p18 (a : Act4) :
    Obs2 (sysOf v P1 P2 (next .p18 a)) (nS P1 P2 .p18 a) (nC P1 P2 .p18 a) (rC .p18 a) (rS .p18 a) (act4 v (sysOf v P1 P2 .p18) a) := by
  have hv' := hv; have h1 : (2 : Nat) = 1 ∨ (2 : Nat) = 2 := Or.inr rfl; have h2 : (2 : Nat) = 1 ∨ (2 : Nat) = 2 := Or.inr rfl
  rcases hv' with rfl | rfl <;> cases a <;> run4 hv h1 hA h2 hB [sysOf, next, sel, nS, nC, rC, rS, act4, pcA, prl]

theorem cl_p19 (a : Act4) :
    Obs2 (sysOf v P1 P2 (next .p19 a)) (nS P1 P2 .p19 a) (nC P1 P2 .p19 a) (rC .p19 a) (rS .p19 a) (act4 v (sysOf v P1 P2 .p19) a) := by
  have hv' := hv; have h1 : (2 : Nat) = 1 ∨ (2 : Nat) = 2 := Or.inr rfl; have h2 : (2 : Nat) = 1 ∨ (2 : Nat) = 2 := Or.inr rfl
  rcases hv' with rfl | rfl <;> cases a <;> run4 hv h1 hA h2 hB [sysOf, next, sel, nS, nC, rC, rS, act4, pcA, prl]

theorem cl_p20 (a : Act4) :
    Obs2 (sysOf v P1 P2 (next .p20 a)) (nS P1 P2 .p20 a) (nC P1 P2 .p20 a) (rC .p20 a) (rS .p20 a) (act4 v (sysOf v P1 P2 .p20) a) := by
  have hv' := hv; have h1 : (2 : Nat) = 1 ∨ (2 : Nat) = 2 := Or.inr rfl; have h2 : (2 : Nat) = 1 ∨ (2 : Nat) = 2 := Or.inr rfl
  rcases hv' with rfl | rfl <;> cases a <;> run4 hv h1 hA h2 hB [sysOf, next, sel, nS, nC, rC, rS, act4, pcA, prl]

theorem cl_p21 (a : Act4) :
    Obs2 (sysOf v P1 P2 (next .p21 a)) (nS P1 P2 .p21 a) (nC P1 P2 .p21 a) (rC .p21 a) (rS .p21 a) (act4 v (sysOf v P1 P2 .p21) a) := by
  have hv' := hv; have h1 : (2 : Nat) = 1 ∨ (2 : Nat) = 2 := Or.inr rfl; have h2 : (2 : Nat) = 1 ∨ (2 : Nat) = 2 := Or.inr rfl
  rcases hv' with rfl | rfl <;> cases a <;> run4 hv h1 hA h2 hB [sysOf, next, sel, nS, nC, rC, rS, act4, pcA, prl]

theorem cl_p22 (a : Act4) :
    Obs2 (sysOf v P1 P2 (next .p22 a)) (nS P1 P2 .p22 a) (nC P1 P2 .p22 a) (rC .p22 a) (rS .p22 a) (act4 v (sysOf v P1 P2 .p22) a) := by
  have hv' := hv; have h1 : (2 : Nat) = 1 ∨ (2 : Nat) = 2 := Or.inr rfl; have h2 : (2 : Nat) = 1 ∨ (2 : Nat) = 2 := Or.inr rfl
  rcases hv' with rfl | rfl <;> cases a <;> run4 hv h1 hA h2 hB [sysOf, next, sel, nS, nC, rC, rS, act4, pcA, prl]

theorem cl_p23 (a : Act4) :
    Obs2 (sysOf v P1 P2 (next .p23 a)) (nS P1 P2 .p23 a) (nC P1 P2 .p23 a) (rC .p23 a) (rS .p23 a) (act4 v (sysOf v P1 P2 .p23) a) := by
  have hv' := hv; have h1 : (2 : Nat) = 1 ∨ (2 : Nat) = 2 := Or.inr rfl; have h2 : (2 : Nat) = 1 ∨ (2 : Nat) = 2 := Or.inr rfl
  rcases hv' with rfl | rfl <;> cases a <;> run4 hv h1 hA h2 hB [sysOf, next, sel, nS, nC, rC, rS, act4, pcA, prl]

theorem cl_p24 (a : Act4) :
    Obs2 (sysOf v P1 P2 (next .p24 a)) (nS P1 P2 .p24 a) (nC P1 P2 .p24 a) (rC .p24 a) (rS .p24 a) (act4 v (sysOf v P1 P2 .p24) a) := by
  have hv' := hv; have h1 : (2 : Nat) = 1 ∨ (2 : Nat) = 2 := Or.inr rfl; have h2 : (2 : Nat) = 1 ∨ (2 : Nat) = 2 := Or.inr rfl
  rcases hv' with rfl | rfl <;> cases a <;> run4 hv h1 hA h2 hB [sysOf, next, sel, nS, nC, rC, rS, act4, pcA, prl]

theorem cl_p25 (a : Act4) :
    Obs2 (sysOf v P1 P2 (next .p25 a)) (nS P1 P2 .p25 a) (nC P1 P2 .p25 a) (rC .p25 a) (rS .p25 a) (act4 v (sysOf v P1 P2 .p25) a) := by
  have hv' := hv; have h1 : (2 : Nat) = 1 ∨ (2 : Nat) = 2 := Or.inr rfl; have h2 : (2 : Nat) = 1 ∨ (2 : Nat) = 2 := Or.inr rfl
  rcases hv' with rfl | rfl <;> cases a <;> run4 hv h1 hA h2 hB [sysOf, next, sel, nS, nC, rC, rS, act4, pcA, prl]

theorem cl_p26 (a : Act4) :
    Obs2 (sysOf v P1 P2 (next .p26 a)) (nS P1 P2 .p26 a) (nC P1 P2 .p26 a) (rC .p26 a) (rS .p26 a) (act4 v (sysOf v P1 P2 .p26) a) := by
  have hv' := hv; have h1 : (2 : Nat) = 1 ∨ (2 : Nat) = 2 := Or.inr rfl; have h2 : (2 : Nat) = 1 ∨ (2 : Nat) = 2 := Or.inr rfl
  rcases hv' with rfl | rfl <;> cases a <;> run4 hv h1 hA h2 hB [sysOf, next, sel, nS, nC, rC, rS, act4, pcA, prl]

theorem cl_p27 (a : Act4) :
    Obs2 (sysOf v P1 P2 (next .p27 a)) (nS P1 P2 .p27 a) (nC P1 P2 .p27 a) (rC .p27 a) (rS .p27 a) (act4 v (sysOf v P1 P2 .p27) a) := by
  have hv' := hv; have h1 : (2 : Nat) = 1 ∨ (2 : Nat) = 2 := Or.inr rfl; have h2 : (2 : Nat) = 1 ∨ (2 : Nat) = 2 := Or.inr rfl
  rcases hv' with rfl | rfl <;> cases a <;> run4 hv h1 hA h2 hB [sysOf, next, sel, nS, nC, rC, rS, act4, pcA, prl]

theorem cl_p28 (a : Act4) :
    Obs2 (sysOf v P1 P2 (next .p28 a)) (nS P1 P2 .p28 a) (nC P1 P2 .p28 a) (rC .p28 a) (rS .p28 a) (act4 v (sysOf v P1 P2 .p28) a) := by
  have hv' := hv; have h1 : (2 : Nat) = 1 ∨ (2 : Nat) = 2 := Or.inr rfl; have h2 : (2 : Nat) = 1 ∨ (2 : Nat) = 2 := Or.inr rfl
  rcases hv' with rfl | rfl <;> cases a <;> run4 hv h1 hA h2 hB [sysOf, next, sel, nS, nC, rC, rS, act4, pcA, prl]

theorem cl_p29 (a : Act4) :
    Obs2 (sysOf v P1 P2 (next .p29 a)) (nS P1 P2 .p29 a) (nC P1 P2 .p29 a) (rC .p29 a) (rS .p29 a) (act4 v (sysOf v P1 P2 .p29) a) := by
  have hv' := hv; have h1 : (2 : Nat) = 1 ∨ (2 : Nat) = 2 := Or.inr rfl; have h2 : (2 : Nat) = 1 ∨ (2 : Nat) = 2 := Or.inr rfl
  rcases hv' with rfl | rfl <;> cases a <;> run4 hv h1 hA h2 hB [sysOf, next, sel, nS, nC, rC, rS, act4, pcA, prl]

theorem cl_p30 (a : Act4) :
    Obs2 (sysOf v P1 P2 (next .p30 a)) (nS P1 P2 .p30 a) (nC P1 P2 .p30 a) (rC .p30 a) (rS .p30 a) (act4 v (sysOf v P1 P2 .p30) a) := by
  have hv' := hv; have h1 : (2 : Nat) = 1 ∨ (2 : Nat) = 2 := Or.inr rfl; have h2 : (2 : Nat) = 1 ∨ (2 : Nat) = 2 := Or.inr rfl
  rcases hv' with rfl | rfl <;> cases a <;> run4 hv h1 hA h2 hB [sysOf, next, sel, nS, nC, rC, rS, act4, pcA, prl]

theorem cl_p31 (a : Act4) :
    Obs2 (sysOf v P1 P2 (next .p31 a)) (nS P1 P2 .p31 a) (nC P1 P2 .p31 a) (rC .p31 a) (rS .p31 a) (act4 v (sysOf v P1 P2 .p31) a) := by
  have hv' := hv; have h1 : (2 : Nat) = 1 ∨ (2 : Nat) = 2 := Or.inr rfl; have h2 : (2 : Nat) = 1 ∨ (2 : Nat) = 2 := Or.inr rfl
  rcases hv' with rfl | rfl <;> cases a <;> run4 hv h1 hA h2 hB [sysOf, next, sel, nS, nC, rC, rS, act4, pcA, prl]

theorem cl_p32 (a : Act4) :
    Obs2 (sysOf v P1 P2 (next .p32 a)) (nS P1 P2 .p32 a) (nC P1 P2 .p32 a) (rC .p32 a) (rS .p32 a) (act4 v (sysOf v P1 P2 .p32) a) := by
  have hv' := hv; have h1 : (2 : Nat) = 1 ∨ (2 : Nat) = 2 := Or.inr rfl; have h2 : (2 : Nat) = 1 ∨ (2 : Nat) = 2 := Or.inr rfl
  rcases hv' with rfl | rfl <;> cases a <;> run4 hv h1 hA h2 hB [sysOf, next, sel, nS, nC, rC, rS, act4, pcA, prl]

theorem cl_p33 (a : Act4) :
    Obs2 (sysOf v P1 P2 (next .p33 a)) (nS P1 P2 .p33 a) (nC P1 P2 .p33 a) (rC .p33 a) (rS .p33 a) (act4 v (sysOf v P1 P2 .p33) a) := by
  have hv' := hv; have h1 : (2 : Nat) = 1 ∨ (2 : Nat) = 2 := Or.inr rfl; have h2 : (2 : Nat) = 1 ∨ (2 : Nat) = 2 := Or.inr rfl
  rcases hv' with rfl | rfl <;> cases a <;> run4 hv h1 hA h2 hB [sysOf, next, sel, nS, nC, rC, rS, act4, pcA, prl]

theorem cl_p34 (a : Act4) :
    Obs2 (sysOf v P1 P2 (next .p34 a)) (nS P1 P2 .p34 a) (nC P1 P2 .p34 a) (rC .p34 a) (rS .p34 a) (act4 v (sysOf v P1 P2 .p34) a) := by
  have hv' := hv; have h1 : (2 : Nat) = 1 ∨ (2 : Nat) = 2 := Or.inr rfl; have h2 : (2 : Nat) = 1 ∨ (2 : Nat) = 2 := Or.inr rfl
  rcases hv' with rfl | rfl <;> cases a <;> run4 hv h1 hA h2 hB [sysOf, next, sel, nS, nC, rC, rS, act4, pcA, prl]

theorem cl_p35 (a : Act4) :
    Obs2 (sysOf v P1 P2 (next .p35 a)) (nS P1 P2 .p35 a) (nC P1 P2 .p35 a) (rC .p35 a) (rS .p35 a) (act4 v (sysOf v P1 P2 .p35) a) := by
  have hv' := hv; have h1 : (2 : Nat) = 1 ∨ (2 : Nat) = 2 := Or.inr rfl; have h2 : (2 : Nat) = 1 ∨ (2 : Nat) = 2 := Or.inr rfl
  rcases hv' with rfl | rfl <;> cases a <;> run4 hv h1 hA h2 hB [sysOf, next, sel, nS, nC, rC, rS, act4, pcA, prl]

theorem cl_p36 (a : Act4) :
    Obs2 (sysOf v P1 P2 (next .p36 a)) (nS P1 P2 .p36 a) (nC P1 P2 .p36 a) (rC .p36 a) (rS .p36 a) (act4 v (sysOf v P1 P2 .p36) a) := by
  have hv' := hv; have h1 : (2 : Nat) = 1 ∨ (2 : Nat) = 2 := Or.inr rfl; have h2 : (2 : Nat) = 1 ∨ (2 : Nat) = 2 := Or.inr rfl
  rcases hv' with rfl | rfl <;> cases a <;> run4 hv h1 hA h2 hB [sysOf, next, sel, nS, nC, rC, rS, act4, pcA, prl]

theorem cl_p37 (a : Act4) :
    Obs2 (sysOf v P1 P2 (next .p37 a)) (nS P1 P2 .p37 a) (nC P1 P2 .p37 a) (rC .p37 a) (rS .p37 a) (act4 v (sysOf v P1 P2 .p37) a) := by
  have hv' := hv; have h1 : (2 : Nat) = 1 ∨ (2 : Nat) = 2 := Or.inr rfl; have h2 : (2 : Nat) = 1 ∨ (2 : Nat) = 2 := Or.inr rfl
  rcases hv' with rfl | rfl <;> cases a <;> run4 hv h1 hA h2 hB [sysOf, next, sel, nS, nC, rC, rS, act4, pcA, prl]

theorem cl_p38 (a : Act4) :
    Obs2 (sysOf v P1 P2 (next .p38 a)) (nS P1 P2 .p38 a) (nC P1 P2 .p38 a) (rC .p38 a) (rS .p38 a) (act4 v (sysOf v P1 P2 .p38) a) := by
  have hv' := hv; have h1 : (2 : Nat) = 1 ∨ (2 : Nat) = 2 := Or.inr rfl; have h2 : (2 : Nat) = 1 ∨ (2 : Nat) = 2 := Or.inr rfl
  rcases hv' with rfl | rfl <;> cases a <;> run4 hv h1 hA h2 hB [sysOf, next, sel, nS, nC, rC, rS, act4, pcA, prl]

theorem cl_p39 (a : Act4) :
    Obs2 (sysOf v P1 P2 (next .p39 a)) (nS P1 P2 .p39 a) (nC P1 P2 .p39 a) (rC .p39 a) (rS .p39 a) (act4 v (sysOf v P1 P2 .p39) a) := by
  have hv' := hv; have h1 : (2 : Nat) = 1 ∨ (2 : Nat) = 2 := Or.inr rfl; have h2 : (2 : Nat) = 1 ∨ (2 : Nat) = 2 := Or.inr rfl
  rcases hv' with rfl | rfl <;> cases a <;> run4 hv h1 hA h2 hB [sysOf, next, sel, nS, nC, rC, rS, act4, pcA, prl]

theorem cl_p40 (a : Act4) :
    Obs2 (sysOf v P1 P2 (next .p40 a)) (nS P1 P2 .p40 a) (nC P1 P2 .p40 a) (rC .p40 a) (rS .p40 a) (act4 v (sysOf v P1 P2 .p40) a) := by
  have hv' := hv; have h1 : (2 : Nat) = 1 ∨ (2 : Nat) = 2 := Or.inr rfl; have h2 : (2 : Nat) = 1 ∨ (2 : Nat) = 2 := Or.inr rfl
  rcases hv' with rfl | rfl <;> cases a <;> run4 hv h1 hA h2 hB [sysOf, next, sel, nS, nC, rC, rS, act4, pcA, prl]

theorem cl_p41 (a : Act4) :
    Obs2 (sysOf v P1 P2 (next .p41 a)) (nS P1 P2 .p41 a) (nC P1 P2 .p41 a) (rC .p41 a) (rS .p41 a) (act4 v (sysOf v P1 P2 .p41) a) := by
  have hv' := hv; have h1 : (2 : Nat) = 1 ∨ (2 : Nat) = 2 := Or.inr rfl; have h2 : (2 : Nat) = 1 ∨ (2 : Nat) = 2 := Or.inr rfl
  rcases hv' with rfl | rfl <;> cases a <;> run4 hv h1 hA h2 hB [sysOf, next, sel, nS, nC, rC, rS, act4, pcA, prl]

theorem cl_p42 (a : Act4) :
    Obs2 (sysOf v P1 P2 (next .p42 a)) (nS P1 P2 .p42 a) (nC P1 P2 .p42 a) (rC .p42 a) (rS .p42 a) (act4 v (sysOf v P1 P2 .p42) a) := by
  have hv' := hv; have h1 : (2 : Nat) = 1 ∨ (2 : Nat) = 2 := Or.inr rfl; have h2 : (2 : Nat) = 1 ∨ (2 : Nat) = 2 := Or.inr rfl
  rcases hv' with rfl | rfl <;> cases a <;> run4 hv h1 hA h2 hB [sysOf, next, sel, nS, nC, rC, rS, act4, pcA, prl]

theorem cl_p43 (a : Act4) :
    Obs2 (sysOf v P1 P2 (next .p43 a)) (nS P1 P2 .p43 a) (nC P1 P2 .p43 a) (rC .p43 a) (rS .p43 a) (act4 v (sysOf v P1 P2 .p43) a) := by
  have hv' := hv; have h1 : (2 : Nat) = 1 ∨ (2 : Nat) = 2 := Or.inr rfl; have h2 : (2 : Nat) = 1 ∨ (2 : Nat) = 2 := Or.inr rfl
  rcases hv' with rfl | rfl <;> cases a <;> run4 hv h1 hA h2 hB [sysOf, next, sel, nS, nC, rC, rS, act4, pcA, prl]

theorem cl_p44 (a : Act4) :
    Obs2 (sysOf v P1 P2 (next .p44 a)) (nS P1 P2 .p44 a) (nC P1 P2 .p44 a) (rC .p44 a) (rS .p44 a) (act4 v (sysOf v P1 P2 .p44) a) := by
  have hv' := hv; have h1 : (2 : Nat) = 1 ∨ (2 : Nat) = 2 := Or.inr rfl; have h2 : (2 : Nat) = 1 ∨ (2 : Nat) = 2 := Or.inr rfl
  rcases hv' with rfl | rfl <;> cases a <;> run4 hv h1 hA h2 hB [sysOf, next, sel, nS, nC, rC, rS, act4, pcA, prl]

theorem cl_p45 (a : Act4) :
    Obs2 (sysOf v P1 P2 (next .p45 a)) (nS P1 P2 .p45 a) (nC P1 P2 .p45 a) (rC .p45 a) (rS .p45 a) (act4 v (sysOf v P1 P2 .p45) a) := by
  have hv' := hv; have h1 : (2 : Nat) = 1 ∨ (2 : Nat) = 2 := Or.inr rfl; have h2 : (2 : Nat) = 1 ∨ (2 : Nat) = 2 := Or.inr rfl
  rcases hv' with rfl | rfl <;> cases a <;> run4 hv h1 hA h2 hB [sysOf, next, sel, nS, nC, rC, rS, act4, pcA, prl]

theorem cl_p46 (a : Act4) :
    Obs2 (sysOf v P1 P2 (next .p46 a)) (nS P1 P2 .p46 a) (nC P1 P2 .p46 a) (rC .p46 a) (rS .p46 a) (act4 v (sysOf v P1 P2 .p46) a) := by
  have hv' := hv; have h1 : (2 : Nat) = 1 ∨ (2 : Nat) = 2 := Or.inr rfl; have h2 : (2 : Nat) = 1 ∨ (2 : Nat) = 2 := Or.inr rfl
  rcases hv' with rfl | rfl <;> cases a <;> run4 hv h1 hA h2 hB [sysOf, next, sel, nS, nC, rC, rS, act4, pcA, prl]

theorem cl_p47 (a : Act4) :
    Obs2 (sysOf v P1 P2 (next .p47 a)) (nS P1 P2 .p47 a) (nC P1 P2 .p47 a) (rC .p47 a) (rS .p47 a) (act4 v (sysOf v P1 P2 .p47) a) := by
  have hv' := hv; have h1 : (2 : Nat) = 1 ∨ (2 : Nat) = 2 := Or.inr rfl; have h2 : (2 : Nat) = 1 ∨ (2 : Nat) = 2 := Or.inr rfl
  rcases hv' with rfl | rfl <;> cases a <;> run4 hv h1 hA h2 hB [sysOf, next, sel, nS, nC, rC, rS, act4, pcA, prl]

theorem cl_p48 (a : Act4) :
    Obs2 (sysOf v P1 P2 (next .p48 a)) (nS P1 P2 .p48 a) (nC P1 P2 .p48 a) (rC .p48 a) (rS .p48 a) (act4 v (sysOf v P1 P2 .p48) a) := by
  have hv' := hv; have h1 : (2 : Nat) = 1 ∨ (2 : Nat) = 2 := Or.inr rfl; have h2 : (2 : Nat) = 1 ∨ (2 : Nat) = 2 := Or.inr rfl
  rcases hv' with rfl | rfl <;> cases a <;> run4 hv h1 hA h2 hB [sysOf, next, sel, nS, nC, rC, rS, act4, pcA, prl]

theorem cl_p49 (a : Act4) :
    Obs2 (sysOf v P1 P2 (next .p49 a)) (nS P1 P2 .p49 a) (nC P1 P2 .p49 a) (rC .p49 a) (rS .p49 a) (act4 v (sysOf v P1 P2 .p49) a) := by
  have hv' := hv; have h1 : (2 : Nat) = 1 ∨ (2 : Nat) = 2 := Or.inr rfl; have h2 : (2 : Nat) = 1 ∨ (2 : Nat) = 2 := Or.inr rfl
  rcases hv' with rfl | rfl <;> cases a <;> run4 hv h1 hA h2 hB [sysOf, next, sel, nS, nC, rC, rS, act4, pcA, prl]

theorem cl_p50 (a : Act4) :
    Obs2 (sysOf v P1 P2 (next .p50 a)) (nS P1 P2 .p50 a) (nC P1 P2 .p50 a) (rC .p50 a) (rS .p50 a) (act4 v (sysOf v P1 P2 .p50) a) := by
  have hv' := hv; have h1 : (2 : Nat) = 1 ∨ (2 : Nat) = 2 := Or.inr rfl; have h2 : (2 : Nat) = 1 ∨ (2 : Nat) = 2 := Or.inr rfl
  rcases hv' with rfl | rfl <;> cases a <;> run4 hv h1 hA h2 hB [sysOf, next, sel, nS, nC, rC, rS, act4, pcA, prl]

theorem cl_p51 (a : Act4) :
    Obs2 (sysOf v P1 P2 (next .p51 a)) (nS P1 P2 .p51 a) (nC P1 P2 .p51 a) (rC .p51 a) (rS .p51 a) (act4 v (sysOf v P1 P2 .p51) a) := by
  have hv' := hv; have h1 : (2 : Nat) = 1 ∨ (2 : Nat) = 2 := Or.inr rfl; have h2 : (2 : Nat) = 1 ∨ (2 : Nat) = 2 := Or.inr rfl
  rcases hv' with rfl | rfl <;> cases a <;> run4 hv h1 hA h2 hB [sysOf, next, sel, nS, nC, rC, rS, act4, pcA, prl]

theorem cl_p52 (a : Act4) :
    Obs2 (sysOf v P1 P2 (next .p52 a)) (nS P1 P2 .p52 a) (nC P1 P2 .p52 a) (rC .p52 a) (rS .p52 a) (act4 v (sysOf v P1 P2 .p52) a) := by
  have hv' := hv; have h1 : (2 : Nat) = 1 ∨ (2 : Nat) = 2 := Or.inr rfl; have h2 : (2 : Nat) = 1 ∨ (2 : Nat) = 2 := Or.inr rfl
  rcases hv' with rfl | rfl <;> cases a <;> run4 hv h1 hA h2 hB [sysOf, next, sel, nS, nC, rC, rS, act4, pcA, prl]

theorem cl_p53 (a : Act4) :
    Obs2 (sysOf v P1 P2 (next .p53 a)) (nS P1 P2 .p53 a) (nC P1 P2 .p53 a) (rC .p53 a) (rS .p53 a) (act4 v (sysOf v P1 P2 .p53) a) := by
  have hv' := hv; have h1 : (2 : Nat) = 1 ∨ (2 : Nat) = 2 := Or.inr rfl; have h2 : (2 : Nat) = 1 ∨ (2 : Nat) = 2 := Or.inr rfl
  rcases hv' with rfl | rfl <;> cases a <;> run4 hv h1 hA h2 hB [sysOf, next, sel, nS, nC, rC, rS, act4, pcA, prl]

theorem cl_p54 (a : Act4) :
    Obs2 (sysOf v P1 P2 (next .p54 a)) (nS P1 P2 .p54 a) (nC P1 P2 .p54 a) (rC .p54 a) (rS .p54 a) (act4 v (sysOf v P1 P2 .p54) a) := by
  have hv' := hv; have h1 : (2 : Nat) = 1 ∨ (2 : Nat) = 2 := Or.inr rfl; have h2 : (2 : Nat) = 1 ∨ (2 : Nat) = 2 := Or.inr rfl
  rcases hv' with rfl | rfl <;> cases a <;> run4 hv h1 hA h2 hB [sysOf, next, sel, nS, nC, rC, rS, act4, pcA, prl]

theorem cl_p55 (a : Act4) :
    Obs2 (sysOf v P1 P2 (next .p55 a)) (nS P1 P2 .p55 a) (nC P1 P2 .p55 a) (rC .p55 a) (rS .p55 a) (act4 v (sysOf v P1 P2 .p55) a) := by
  have hv' := hv; have h1 : (2 : Nat) = 1 ∨ (2 : Nat) = 2 := Or.inr rfl; have h2 : (2 : Nat) = 1 ∨ (2 : Nat) = 2 := Or.inr rfl
  rcases hv' with rfl | rfl <;> cases a <;> run4 hv h1 hA h2 hB [sysOf, next, sel, nS, nC, rC, rS, act4, pcA, prl]

theorem cl_p56 (a : Act4) :
    Obs2 (sysOf v P1 P2 (next .p56 a)) (nS P1 P2 .p56 a) (nC P1 P2 .p56 a) (rC .p56 a) (rS .p56 a) (act4 v (sysOf v P1 P2 .p56) a) := by
  have hv' := hv; have h1 : (2 : Nat) = 1 ∨ (2 : Nat) = 2 := Or.inr rfl; have h2 : (2 : Nat) = 1 ∨ (2 : Nat) = 2 := Or.inr rfl
  rcases hv' with rfl | rfl <;> cases a <;> run4 hv h1 hA h2 hB [sysOf, next, sel, nS, nC, rC, rS, act4, pcA, prl]

theorem cl_p57 (a : Act4) :
    Obs2 (sysOf v P1 P2 (next .p57 a)) (nS P1 P2 .p57 a) (nC P1 P2 .p57 a) (rC .p57 a) (rS .p57 a) (act4 v (sysOf v P1 P2 .p57) a) := by
  have hv' := hv; have h1 : (2 : Nat) = 1 ∨ (2 : Nat) = 2 := Or.inr rfl; have h2 : (2 : Nat) = 1 ∨ (2 : Nat) = 2 := Or.inr rfl
  rcases hv' with rfl | rfl <;> cases a <;> run4 hv h1 hA h2 hB [sysOf, next, sel, nS, nC, rC, rS, act4, pcA, prl]

theorem cl_p58 (a : Act4) :
    Obs2 (sysOf v P1 P2 (next .p58 a)) (nS P1 P2 .p58 a) (nC P1 P2 .p58 a) (rC .p58 a) (rS .p58 a) (act4 v (sysOf v P1 P2 .p58) a) := by
  have hv' := hv; have h1 : (2 : Nat) = 1 ∨ (2 : Nat) = 2 := Or.inr rfl; have h2 : (2 : Nat) = 1 ∨ (2 : Nat) = 2 := Or.inr rfl
  rcases hv' with rfl | rfl <;> cases a <;> run4 hv h1 hA h2 hB [sysOf, next, sel, nS, nC, rC, rS, act4, pcA, prl]

theorem cl_p59 (a : Act4) :
    Obs2 (sysOf v P1 P2 (next .p59 a)) (nS P1 P2 .p59 a) (nC P1 P2 .p59 a) (rC .p59 a) (rS .p59 a) (act4 v (sysOf v P1 P2 .p59) a) := by
  have hv' := hv; have h1 : (2 : Nat) = 1 ∨ (2 : Nat) = 2 := Or.inr rfl; have h2 : (2 : Nat) = 1 ∨ (2 : Nat) = 2 := Or.inr rfl
  rcases hv' with rfl | rfl <;> cases a <;> run4 hv h1 hA h2 hB [sysOf, next, sel, nS, nC, rC, rS, act4, pcA, prl]

theorem cl_p60 (a : Act4) :
    Obs2 (sysOf v P1 P2 (next .p60 a)) (nS P1 P2 .p60 a) (nC P1 P2 .p60 a) (rC .p60 a) (rS .p60 a) (act4 v (sysOf v P1 P2 .p60) a) := by
  have hv' := hv; have h1 : (2 : Nat) = 1 ∨ (2 : Nat) = 2 := Or.inr rfl; have h2 : (2 : Nat) = 1 ∨ (2 : Nat) = 2 := Or.inr rfl
  rcases hv' with rfl | rfl <;> cases a <;> run4 hv h1 hA h2 hB [sysOf, next, sel, nS, nC, rC, rS, act4, pcA, prl]

theorem cl_p61 (a : Act4) :
    Obs2 (sysOf v P1 P2 (next .p61 a)) (nS P1 P2 .p61 a) (nC P1 P2 .p61 a) (rC .p61 a) (rS .p61 a) (act4 v (sysOf v P1 P2 .p61) a) := by
  have hv' := hv; have h1 : (2 : Nat) = 1 ∨ (2 : Nat) = 2 := Or.inr rfl; have h2 : (2 : Nat) = 1 ∨ (2 : Nat) = 2 := Or.inr rfl
  rcases hv' with rfl | rfl <;> cases a <;> run4 hv h1 hA h2 hB [sysOf, next, sel, nS, nC, rC, rS, act4, pcA, prl]

theorem cl_p62 (a : Act4) :
    Obs2 (sysOf v P1 P2 (next .p62 a)) (nS P1 P2 .p62 a) (nC P1 P2 .p62 a) (rC .p62 a) (rS .p62 a) (act4 v (sysOf v P1 P2 .p62) a) := by
  have hv' := hv; have h1 : (2 : Nat) = 1 ∨ (2 : Nat) = 2 := Or.inr rfl; have h2 : (2 : Nat) = 1 ∨ (2 : Nat) = 2 := Or.inr rfl
  rcases hv' with rfl | rfl <;> cases a <;> run4 hv h1 hA h2 hB [sysOf, next, sel, nS, nC, rC, rS, act4, pcA, prl]

theorem cl_p63 (a : Act4) :
    Obs2 (sysOf v P1 P2 (next .p63 a)) (nS P1 P2 .p63 a) (nC P1 P2 .p63 a) (rC .p63 a) (rS .p63 a) (act4 v (sysOf v P1 P2 .p63) a) := by
  have hv' := hv; have h1 : (2 : Nat) = 1 ∨ (2 : Nat) = 2 := Or.inr rfl; have h2 : (2 : Nat) = 1 ∨ (2 : Nat) = 2 := Or.inr rfl
  rcases hv' with rfl | rfl <;> cases a <;> run4 hv h1 hA h2 hB [sysOf, next, sel, nS, nC, rC, rS, act4, pcA, prl]

theorem cl_p64 (a : Act4) :
    Obs2 (sysOf v P1 P2 (next .p64 a)) (nS P1 P2 .p64 a) (nC P1 P2 .p64 a) (rC .p64 a) (rS .p64 a) (act4 v (sysOf v P1 P2 .p64) a) := by
  have hv' := hv; have h1 : (2 : Nat) = 1 ∨ (2 : Nat) = 2 := Or.inr rfl; have h2 : (2 : Nat) = 1 ∨ (2 : Nat) = 2 := Or.inr rfl
  rcases hv' with rfl | rfl <;> cases a <;> run4 hv h1 hA h2 hB [sysOf, next, sel, nS, nC, rC, rS, act4, pcA, prl]

theorem cl_p65 (a : Act4) :
    Obs2 (sysOf v P1 P2 (next .p65 a)) (nS P1 P2 .p65 a) (nC P1 P2 .p65 a) (rC .p65 a) (rS .p65 a) (act4 v (sysOf v P1 P2 .p65) a) := by
  have hv' := hv; have h1 : (2 : Nat) = 1 ∨ (2 : Nat) = 2 := Or.inr rfl; have h2 : (2 : Nat) = 1 ∨ (2 : Nat) = 2 := Or.inr rfl
  rcases hv' with rfl | rfl <;> cases a <;> run4 hv h1 hA h2 hB [sysOf, next, sel, nS, nC, rC, rS, act4, pcA, prl]

theorem cl_p66 (a : Act4) :
    Obs2 (sysOf v P1 P2 (next .p66 a)) (nS P1 P2 .p66 a) (nC P1 P2 .p66 a) (rC .p66 a) (rS .p66 a) (act4 v (sysOf v P1 P2 .p66) a) := by
  have hv' := hv; have h1 : (2 : Nat) = 1 ∨ (2 : Nat) = 2 := Or.inr rfl; have h2 : (2 : Nat) = 1 ∨ (2 : Nat) = 2 := Or.inr rfl
  rcases hv' with rfl | rfl <;> cases a <;> run4 hv h1 hA h2 hB [sysOf, next, sel, nS, nC, rC, rS, act4, pcA, prl]

theorem cl_p67 (a : Act4) :
    Obs2 (sysOf v P1 P2 (next .p67 a)) (nS P1 P2 .p67 a) (nC P1 P2 .p67 a) (rC .p67 a) (rS .p67 a) (act4 v (sysOf v P1 P2 .p67) a) := by
  have hv' := hv; have h1 : (2 : Nat) = 1 ∨ (2 : Nat) = 2 := Or.inr rfl; have h2 : (2 : Nat) = 1 ∨ (2 : Nat) = 2 := Or.inr rfl
  rcases hv' with rfl | rfl <;> cases a <;> run4 hv h1 hA h2 hB [sysOf, next, sel, nS, nC, rC, rS, act4, pcA, prl]

theorem closure (ph : Ph) (a : Act4) :
    Obs2 (sysOf v P1 P2 (next ph a)) (nS P1 P2 ph a) (nC P1 P2 ph a) (rC ph a) (rS ph a) (act4 v (sysOf v P1 P2 ph) a) := by
  cases ph
  · exact cl_p0 hv hA hB a
  · exact cl_p1 hv hA hB a
  · exact cl_p2 hv hA hB a
  · exact cl_p3 hv hA hB a
  · exact cl_p4 hv hA hB a
  · exact cl_p5 hv hA hB a
  · exact cl_p6 hv hA hB a
  · exact cl_p7 hv hA hB a
  · exact cl_p8 hv hA hB a
  · exact cl_p9 hv hA hB a
  · exact cl_p10 hv hA hB a
  · exact cl_p11 hv hA hB a
  · exact cl_p12 hv hA hB a
  · exact cl_p13 hv hA hB a
  · exact cl_p14 hv hA hB a
  · exact cl_p15 hv hA hB a
  · exact cl_p16 hv hA hB a
  · exact cl_p17 hv hA hB a
  · exact cl_p18 hv hA hB a
  · exact cl_p19 hv hA hB a
  · exact cl_p20 hv hA hB a
  · exact cl_p21 hv hA hB a
  · exact cl_p22 hv hA hB a
  · exact cl_p23 hv hA hB a
  · exact cl_p24 hv hA hB a
  · exact cl_p25 hv hA hB a
  · exact cl_p26 hv hA hB a
  · exact cl_p27 hv hA hB a
  · exact cl_p28 hv hA hB a
  · exact cl_p29 hv hA hB a
  · exact cl_p30 hv hA hB a
  · exact cl_p31 hv hA hB a
  · exact cl_p32 hv hA hB a
  · exact cl_p33 hv hA hB a
  · exact cl_p34 hv hA hB a
  · exact cl_p35 hv hA hB a
  · exact cl_p36 hv hA hB a
  · exact cl_p37 hv hA hB a
  · exact cl_p38 hv hA hB a
  · exact cl_p39 hv hA hB a
  · exact cl_p40 hv hA hB a
  · exact cl_p41 hv hA hB a
  · exact cl_p42 hv hA hB a
  · exact cl_p43 hv hA hB a
  · exact cl_p44 hv hA hB a
  · exact cl_p45 hv hA hB a
  · exact cl_p46 hv hA hB a
  · exact cl_p47 hv hA hB a
  · exact cl_p48 hv hA hB a
  · exact cl_p49 hv hA hB a
  · exact cl_p50 hv hA hB a
  · exact cl_p51 hv hA hB a
  · exact cl_p52 hv hA hB a
  · exact cl_p53 hv hA hB a
  · exact cl_p54 hv hA hB a
  · exact cl_p55 hv hA hB a
  · exact cl_p56 hv hA hB a
  · exact cl_p57 hv hA hB a
  · exact cl_p58 hv hA hB a
  · exact cl_p59 hv hA hB a
  · exact cl_p60 hv hA hB a
  · exact cl_p61 hv hA hB a
  · exact cl_p62 hv hA hB a
  · exact cl_p63 hv hA hB a
  · exact cl_p64 hv hA hB a
  · exact cl_p65 hv hA hB a
  · exact cl_p66 hv hA hB a
  · exact cl_p67 hv hA hB a

theorem start_obs : Obs2 (sysOf v P1 P2 .p0) [] [] [] [] (startBoth v P1 P2) := by
  have hv' := hv; have h1 : (2 : Nat) = 1 ∨ (2 : Nat) = 2 := Or.inr rfl; have h2 : (2 : Nat) = 1 ∨ (2 : Nat) = 2 := Or.inr rfl
  rcases hv' with rfl | rfl <;> run4 hv h1 hA h2 hB [sysOf]

omit hA hB in
theorem sys_done : sysOf v P1 P2 done = established v := by
  rw [established_eq v hv]; rfl
end

theorem sysOf_logs (v : Nat) (P1 P2 : Pkt) (ph : Ph) : (sysOf v P1 P2 ph).logC = [] ∧ (sysOf v P1 P2 ph).logS = [] := by
  cases ph <;> exact ⟨rfl, rfl⟩

theorem h8 (ph : Ph) : phRunG next ph (List.replicate 8 .deliver) = done := by
  cases ph <;> rfl

section
variable {P1 P2 : Pkt}

theorem hokS : ∀ ph a, ∀ Q ∈ nS P1 P2 ph a, sameMsg P1 Q := by
  intro ph a; cases ph <;> cases a <;> simp [next, sel, nS, nC, rC, rS, c1, c2, r1, r2, cntOf, notesOf, sameMsg]

theorem hokC : ∀ ph a, ∀ Q ∈ nC P1 P2 ph a, sameMsg P2 Q := by
  intro ph a; cases ph <;> cases a <;> simp [next, sel, nS, nC, rC, rS, c1, c2, r1, r2, cntOf, notesOf, sameMsg]

theorem hrelC : ∀ ph a, ∀ id ∈ rC ph a, id = 1 := by
  intro ph a; cases ph <;> cases a <;> simp [next, sel, nS, nC, rC, rS, c1, c2, r1, r2, cntOf, notesOf, sameMsg]

theorem hrelS : ∀ ph a, ∀ id ∈ rS ph a, id = 1 := by
  intro ph a; cases ph <;> cases a <;> simp [next, sel, nS, nC, rC, rS, c1, c2, r1, r2, cntOf, notesOf, sameMsg]

theorem c1_le : ∀ ph a, c1 (next ph a) ≤ c1 ph + (nS P1 P2 ph a).length := by
  intro ph a; cases ph <;> cases a <;> simp [next, sel, nS, nC, rC, rS, c1, c2, r1, r2, cntOf, notesOf, sameMsg]

theorem c2_le : ∀ ph a, c2 (next ph a) ≤ c2 ph + (nC P1 P2 ph a).length := by
  intro ph a; cases ph <;> cases a <;> simp [next, sel, nS, nC, rC, rS, c1, c2, r1, r2, cntOf, notesOf, sameMsg]

theorem c1x : ∀ ph a, c1 (next ph a) = c1 ph + (nS P1 P2 ph a).length := by
  intro ph a; cases ph <;> cases a <;> simp [next, sel, nS, nC, rC, rS, c1, c2, r1, r2, cntOf, notesOf, sameMsg]

theorem c2x : ∀ ph a, c2 (next ph a) = c2 ph + (nC P1 P2 ph a).length := by
  intro ph a; cases ph <;> cases a <;> simp [next, sel, nS, nC, rC, rS, c1, c2, r1, r2, cntOf, notesOf, sameMsg]

theorem r1_step : ∀ ph a, r1 (next ph a) = r1 ph + (rC ph a).length := by
  intro ph a; cases ph <;> cases a <;> simp [next, sel, nS, nC, rC, rS, c1, c2, r1, r2, cntOf, notesOf, sameMsg]

theorem r2_step : ∀ ph a, r2 (next ph a) = r2 ph + (rS ph a).length := by
  intro ph a; cases ph <;> cases a <;> simp [next, sel, nS, nC, rC, rS, c1, c2, r1, r2, cntOf, notesOf, sameMsg]
end

section
variable {v : Nat} {P1 P2 : Pkt} (hv : v = 4 ∨ v = 5) (hA : IsPub v 2 P1) (hB : IsPub v 2 P2)
include hv hA hB

/-- at any moment of any schedule: no `.error` event at either side -/
theorem safe (acts : List Act4) :
    errFree (runActs4 v (startBoth v P1 P2) acts).logC ∧ errFree (runActs4 v (startBoth v P1 P2) acts).logS :=
  sched_safe (sysOf v P1 P2) next (nS P1 P2) (nC P1 P2) rC rS .p0 _ (sysOf_logs v P1 P2) (closure hv hA hB) (start_obs hv hA hB) acts

/-- every schedule, then everything delivered -/
theorem main (acts : List Act4) (n : Nat) (hn : 8 ≤ n) :
    let y := drain n (runActs4 v (startBoth v P1 P2) acts)
    Quiet v y ∧ errFree y.logC ∧ errFree y.logS ∧
    (∀ Q ∈ pubNotes y.logS, sameMsg P1 Q) ∧ (∀ Q ∈ pubNotes y.logC, sameMsg P2 Q) ∧
    1 ≤ (pubNotes y.logS).length ∧ 1 ≤ (pubNotes y.logC).length ∧
    ((2 : Nat) = 2 → (pubNotes y.logS).length = 1) ∧ ((2 : Nat) = 2 → (pubNotes y.logC).length = 1) ∧
    releasedIds y.logC = [1] ∧ releasedIds y.logS = [1] :=
  sched6_main (sysOf v P1 P2) next (nS P1 P2) (nC P1 P2) rC rS .p0 done _ hv c1 c2 r1 r2
    (sysOf_logs v P1 P2) (closure hv hA hB) (start_obs hv hA hB) (sys_done hv) h8 rfl
    hokS hokC hrelC hrelS c1_le c2_le (fun _ => c1x) (fun _ => c2x) r1_step r2_step
    ⟨rfl, rfl, rfl, rfl⟩ ⟨rfl, rfl, rfl, rfl⟩ acts n hn
end

end MqttVerif.Conn.Pair.G6_22
