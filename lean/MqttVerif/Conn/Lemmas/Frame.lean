import MqttVerif.Conn.Lemmas.Events
/-!
# Frame lemmas: `cfg` and `mpsSend` through the helper functions
-/
namespace MqttVerif.Conn
open MqttVerif

/-- the two components the size check reads are unchanged -/
def Fr (c c' : C) : Prop := c'.cfg = c.cfg ∧ c'.s.mpsSend = c.s.mpsSend

theorem Fr.rfl' (c : C) : Fr c c := ⟨rfl, rfl⟩
theorem Fr.trans {a b c : C} (h1 : Fr a b) (h2 : Fr b c) : Fr a c := ⟨h2.1.trans h1.1, h2.2.trans h1.2⟩
theorem Fr_ite {b : Prop} [Decidable b] {c x y : C} (hx : Fr c x) (hy : Fr c y) : Fr c (if b then x else y) := by
  split <;> assumption

theorem releaseId_fr (c : C) (id : Nat) : Fr c (releaseId c id) := by
  cases h : (Alloc.deallocate c.s.pidMan id).1 <;> simp [releaseId, h, Fr, C.setPanic]
@[simp] theorem releaseId_cfg (c : C) (id) : (releaseId c id).cfg = c.cfg := (releaseId_fr c id).1
@[simp] theorem releaseId_mps (c : C) (id) : (releaseId c id).s.mpsSend = c.s.mpsSend := (releaseId_fr c id).2

theorem releaseIfUsed_fr (c : C) (id : Nat) : Fr c (releaseIfUsed c id) := by
  unfold releaseIfUsed; split <;> simp [Fr]
@[simp] theorem releaseIfUsed_cfg (c : C) (id) : (releaseIfUsed c id).cfg = c.cfg := (releaseIfUsed_fr c id).1
@[simp] theorem releaseIfUsed_mps (c : C) (id) : (releaseIfUsed c id).s.mpsSend = c.s.mpsSend := (releaseIfUsed_fr c id).2

theorem cancelTimers_fr (c : C) : Fr c (cancelTimers c) := by
  cases h1 : c.s.sendSet <;> cases h2 : c.s.recvSet <;> cases h3 : c.s.respSet <;>
    simp [cancelTimers, h1, h2, h3, Fr]
@[simp] theorem cancelTimers_cfg (c : C) : (cancelTimers c).cfg = c.cfg := (cancelTimers_fr c).1
@[simp] theorem cancelTimers_mps (c : C) : (cancelTimers c).s.mpsSend = c.s.mpsSend := (cancelTimers_fr c).2

theorem sendPostProcess_fr (c : C) : Fr c (sendPostProcess c) := by
  unfold sendPostProcess
  refine Fr_ite ?_ (Fr.rfl' c)
  exact Fr_ite ⟨rfl, rfl⟩ (Fr.rfl' c)
@[simp] theorem sendPostProcess_cfg (c : C) : (sendPostProcess c).cfg = c.cfg := (sendPostProcess_fr c).1
@[simp] theorem sendPostProcess_mps (c : C) : (sendPostProcess c).s.mpsSend = c.s.mpsSend := (sendPostProcess_fr c).2

theorem refreshPingreqRecv_fr (c : C) : Fr c (refreshPingreqRecv c) := by
  unfold refreshPingreqRecv; exact Fr_ite ⟨rfl, rfl⟩ (Fr.rfl' c)
@[simp] theorem refreshPingreqRecv_cfg (c : C) : (refreshPingreqRecv c).cfg = c.cfg := (refreshPingreqRecv_fr c).1
@[simp] theorem refreshPingreqRecv_mps (c : C) : (refreshPingreqRecv c).s.mpsSend = c.s.mpsSend := (refreshPingreqRecv_fr c).2

@[simp] theorem initConn_cfg (c : C) (b) : (initConn c b).cfg = c.cfg := by cases c; rfl
@[simp] theorem initConn_mps (c : C) (b) : (initConn c b).s.mpsSend = c.s.mpsSend := by cases c; rfl
@[simp] theorem clearStoreRelated_cfg (c : C) : (clearStoreRelated c).cfg = c.cfg := by cases c; rfl
@[simp] theorem clearStoreRelated_mps (c : C) : (clearStoreRelated c).s.mpsSend = c.s.mpsSend := by cases c; rfl

theorem storeAdd_fr (c : C) (id p site) : Fr c (storeAdd c id p site) := by
  unfold storeAdd; exact Fr_ite ⟨rfl, rfl⟩ ⟨rfl, rfl⟩
@[simp] theorem storeAdd_cfg (c : C) (id p site) : (storeAdd c id p site).cfg = c.cfg := (storeAdd_fr c id p site).1
@[simp] theorem storeAdd_mps (c : C) (id p site) : (storeAdd c id p site).s.mpsSend = c.s.mpsSend := (storeAdd_fr c id p site).2

theorem tasInsert_fr (c : C) (t a site) : Fr c (tasInsert c t a site) := by
  unfold tasInsert; split
  · exact Fr.rfl' c
  · exact Fr_ite ⟨rfl, rfl⟩ ⟨rfl, rfl⟩
@[simp] theorem tasInsert_cfg (c : C) (t a site) : (tasInsert c t a site).cfg = c.cfg := (tasInsert_fr c t a site).1
@[simp] theorem tasInsert_mps (c : C) (t a site) : (tasInsert c t a site).s.mpsSend = c.s.mpsSend := (tasInsert_fr c t a site).2

theorem validateTopicAlias_fr (c : C) (ao) : Fr c (validateTopicAlias c ao).2 := by
  unfold validateTopicAlias; (repeat' split) <;> exact ⟨rfl, rfl⟩
@[simp] theorem validateTopicAlias_cfg (c : C) (ao) : (validateTopicAlias c ao).2.cfg = c.cfg := (validateTopicAlias_fr c ao).1
@[simp] theorem validateTopicAlias_mps (c : C) (ao) : (validateTopicAlias c ao).2.s.mpsSend = c.s.mpsSend := (validateTopicAlias_fr c ao).2

theorem decSendCount_fr (c : C) : Fr c (decSendCount c) := by
  unfold decSendCount; exact Fr_ite ⟨rfl, rfl⟩ ⟨rfl, rfl⟩
@[simp] theorem decSendCount_cfg (c : C) : (decSendCount c).cfg = c.cfg := (decSendCount_fr c).1
@[simp] theorem decSendCount_mps (c : C) : (decSendCount c).s.mpsSend = c.s.mpsSend := (decSendCount_fr c).2
theorem releasePacketId_fr (c : C) (id : Nat) : Fr c (releasePacketId c id) :=
  releasePacketId_ind (Q := fun c' => Fr c c') c id (releaseIfUsed_fr c id) (fun h => h)
    (fun h => h.trans (decSendCount_fr _))

theorem pubRefuseCleanup_fr (c : C) (pid) : Fr c (pubRefuseCleanup c pid) := by
  unfold pubRefuseCleanup; split
  · exact Fr.rfl' c
  · refine Fr_ite ?_ (Fr.rfl' c)
    simp [Fr]
@[simp] theorem pubRefuseCleanup_cfg (c : C) (pid) : (pubRefuseCleanup c pid).cfg = c.cfg := (pubRefuseCleanup_fr c pid).1
@[simp] theorem pubRefuseCleanup_mps (c : C) (pid) : (pubRefuseCleanup c pid).s.mpsSend = c.s.mpsSend := (pubRefuseCleanup_fr c pid).2

theorem autoAlias_fr (c : C) (p) : Fr c (autoAlias c p).1 := by
  unfold autoAlias; (repeat' split) <;> simp [Fr, apply_ite Prod.fst, apply_ite C.cfg, apply_ite C.s, apply_ite St.mpsSend]
@[simp] theorem autoAlias_cfg (c : C) (p) : (autoAlias c p).1.cfg = c.cfg := (autoAlias_fr c p).1
@[simp] theorem autoAlias_mps (c : C) (p) : (autoAlias c p).1.s.mpsSend = c.s.mpsSend := (autoAlias_fr c p).2

theorem connectSendProp_fr (c : C) (id v) : Fr c (connectSendProp c id v) := by
  unfold connectSendProp; (repeat' split) <;> exact ⟨rfl, rfl⟩
theorem connackSendProp_fr (c : C) (id v) : Fr c (connackSendProp c id v) := by
  unfold connackSendProp; (repeat' split) <;> exact ⟨rfl, rfl⟩

theorem propsFold_fr {f : C → Nat → Nat → C} (hf : ∀ c id v, Fr c (f c id v)) (c : C) (l) :
    Fr c (propsFold f c l) := by
  induction l generalizing c with
  | nil => exact Fr.rfl' c
  | cons x rest ih => exact (hf _ _ _).trans (ih _)

theorem releaseAll_fr (c : C) (l) : Fr c (releaseAll c l) := by
  induction l generalizing c with
  | nil => exact Fr.rfl' c
  | cons x rest ih => exact (releaseIfUsed_fr _ _).trans (ih _)

theorem sizeOk_congr {c c' : C} (h : Fr c c') (p : Pkt) : sizeOk c' p = sizeOk c p := by
  simp [sizeOk, h.1, h.2]


/-- the wait-set cleanup of the oversize branch of `send_stored` -/
def dropPrep (c : C) (id : Nat) : C :=
  { c with s := { c.s with puback := del id c.s.puback, pubrec := del id c.s.pubrec,
                            pubcomp := del id c.s.pubcomp } }

@[simp] theorem dropPrep_ev (c : C) (id) : (dropPrep c id).ev = c.ev := by cases c; rfl
@[simp] theorem dropPrep_cfg (c : C) (id) : (dropPrep c id).cfg = c.cfg := by cases c; rfl
@[simp] theorem dropPrep_mps (c : C) (id) : (dropPrep c id).s.mpsSend = c.s.mpsSend := by cases c; rfl
@[simp] theorem dropPrep_store (c : C) (id) : (dropPrep c id).s.store = c.s.store := by cases c; rfl
theorem dropPrep_fr (c : C) (id) : Fr c (dropPrep c id) := ⟨by simp, by simp⟩

theorem sendStoredLoop_over (c : C) (id p rest) (h : p.sz c.cfg.pw > c.s.mpsSend) :
    sendStoredLoop c ((id, p) :: rest) = sendStoredLoop (releaseIfUsed (dropPrep c id) id) rest := by
  simp [sendStoredLoop, h, dropPrep]

/-- the counter reset at the start of `send_stored` -/
def resetCount (c : C) : C :=
  if c.s.sendMax.isSome then { c with s := { c.s with sendCount := 0 } } else c

@[simp] theorem resetCount_ev (c : C) : (resetCount c).ev = c.ev := by unfold resetCount; split <;> rfl
@[simp] theorem resetCount_cfg (c : C) : (resetCount c).cfg = c.cfg := by unfold resetCount; split <;> rfl
@[simp] theorem resetCount_mps (c : C) : (resetCount c).s.mpsSend = c.s.mpsSend := by unfold resetCount; split <;> rfl
@[simp] theorem resetCount_store (c : C) : (resetCount c).s.store = c.s.store := by unfold resetCount; split <;> rfl
theorem resetCount_fr (c : C) : Fr c (resetCount c) := ⟨by simp, by simp⟩

theorem sendStored_eq (c : C) :
    sendStored c = { (sendStoredLoop (resetCount c) c.s.store).1 with
      s := { (sendStoredLoop (resetCount c) c.s.store).1.s with store := (sendStoredLoop (resetCount c) c.s.store).2 } } := by
  have h := resetCount_store c
  unfold sendStored resetCount at *
  simp only [] at h ⊢
  rw [h]

/-- the counter update of `send_stored` -/
theorem sendStoredLoop_fr (l) (c : C) : Fr c (sendStoredLoop c l).1 := by
  induction l generalizing c with
  | nil => exact Fr.rfl' c
  | cons x rest ih =>
    obtain ⟨id, p⟩ := x
    by_cases hz : p.sz c.cfg.pw > c.s.mpsSend
    · rw [sendStoredLoop_over c id p rest hz]
      exact ((dropPrep_fr c id).trans (releaseIfUsed_fr _ id)).trans (ih _)
    · unfold sendStoredLoop
      simp only [hz, if_false]
      refine Fr.trans ?_ (ih _)
      by_cases h1 : c.s.sendMax.isSome = true <;> by_cases h2 : c.s.sendCount ≥ 4294967295 <;>
        simp [h1, h2, Fr, C.setPanic]

theorem sendStored_fr (c : C) : Fr c (sendStored c) := by
  rw [sendStored_eq]
  have := (resetCount_fr c).trans (sendStoredLoop_fr c.s.store (resetCount c))
  exact ⟨this.1, this.2⟩
@[simp] theorem sendStored_cfg (c : C) : (sendStored c).cfg = c.cfg := (sendStored_fr c).1
@[simp] theorem sendStored_mps (c : C) : (sendStored c).s.mpsSend = c.s.mpsSend := (sendStored_fr c).2

theorem sendStoredLoop_all {P : Ev → Prop} (hP : Lax P) (l) (c : C) (h : EvAll P c.ev)
    (hs : ∀ x ∈ l, x.2.sz c.cfg.pw ≤ c.s.mpsSend → P (.send x.2 none)) :
    EvAll P (sendStoredLoop c l).1.ev := by
  induction l generalizing c with
  | nil => exact h
  | cons x rest ih =>
    obtain ⟨id, p⟩ := x
    by_cases hz : p.sz c.cfg.pw > c.s.mpsSend
    · rw [sendStoredLoop_over c id p rest hz]
      refine ih _ (releaseIfUsed_all hP _ id (by simpa using h)) ?_
      intro x hx
      rw [releaseIfUsed_cfg, releaseIfUsed_mps, dropPrep_cfg, dropPrep_mps]
      exact hs x (List.mem_cons_of_mem _ hx)
    · unfold sendStoredLoop
      simp only [hz, if_false]
      have hp : P (.send p none) := hs (id, p) (List.mem_cons_self) (by simpa using hz)
      refine ih _ ?_ ?_
      · by_cases h1 : c.s.sendMax.isSome = true <;> by_cases h2 : c.s.sendCount ≥ 4294967295 <;>
          simp [h1, h2, h, hp]
      · intro x hx
        have := hs x (List.mem_cons_of_mem _ hx)
        by_cases h1 : c.s.sendMax.isSome = true <;> by_cases h2 : c.s.sendCount ≥ 4294967295 <;>
          simpa [h1, h2] using this

theorem sendStored_all {P : Ev → Prop} (hP : Lax P) (c : C) (h : EvAll P c.ev)
    (hs : ∀ x ∈ c.s.store, x.2.sz c.cfg.pw ≤ c.s.mpsSend → P (.send x.2 none)) :
    EvAll P (sendStored c).ev := by
  rw [sendStored_eq]
  exact sendStoredLoop_all hP _ (resetCount c) (by simpa using h) (by simpa using hs)

/-! ### `resendStored` (fix 999e935) -/

theorem resendStored_fr (c : C) : Fr c (resendStored c) :=
  resendStored_ind (Q := fun x => Fr c x) c (sendStored_fr c) (fun h => h.trans (sendPostProcess_fr _))
@[simp] theorem resendStored_cfg (c : C) : (resendStored c).cfg = c.cfg := (resendStored_fr c).1
@[simp] theorem resendStored_mps (c : C) : (resendStored c).s.mpsSend = c.s.mpsSend := (resendStored_fr c).2

theorem resendStored_all {P : Ev → Prop} (hP : Lax P) (c : C) (h : EvAll P c.ev)
    (hs : ∀ x ∈ c.s.store, x.2.sz c.cfg.pw ≤ c.s.mpsSend → P (.send x.2 none)) :
    EvAll P (resendStored c).ev :=
  resendStored_ind (Q := fun x => EvAll P x.ev) c (sendStored_all hP c h hs) (sendPostProcess_all hP _)

end MqttVerif.Conn
