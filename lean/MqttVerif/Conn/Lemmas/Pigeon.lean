/-!
# Pigeonhole for identifier lists (core Lean only)

A duplicate-free list of naturals all lying in `[1, m]` has at most `m` elements.  Used to bound
the number of stored packets by the size of the packet-identifier type (`Cfg.idMax`), which is
what keeps the `u32` counter `publish_send_count` from overflowing in `send_stored`
(fix ab9a1ec): C05 (`Headroom`), C12 (`C12_no_wrap_ids`).
-/
namespace MqttVerif.Pigeon

/-- a duplicate-free list of naturals in `[lo, lo + n)` has at most `n` elements -/
theorem length_le_of_window (lo : Nat) :
    ∀ (n : Nat) (l : List Nat), l.Nodup → (∀ x ∈ l, lo ≤ x ∧ x < lo + n) → l.length ≤ n := by
  intro n
  induction n with
  | zero =>
    intro l _ h
    cases l with
    | nil => simp
    | cons a t => have := h a (by simp); omega
  | succ n ih =>
    intro l hn h
    by_cases hm : lo + n ∈ l
    · obtain ⟨a, b, rfl⟩ := List.append_of_mem hm
      have hn' : (a ++ b).Nodup := by
        rw [List.nodup_append] at hn ⊢
        obtain ⟨h1, h2, h3⟩ := hn
        exact ⟨h1, (List.nodup_cons.1 h2).2, fun x hx y hy => h3 x hx y (List.mem_cons_of_mem _ hy)⟩
      have hlt : ∀ x ∈ a ++ b, lo ≤ x ∧ x < lo + n := by
        intro x hx
        have h1 := h x (by
          rcases List.mem_append.1 hx with hx | hx
          · exact List.mem_append.2 (Or.inl hx)
          · exact List.mem_append.2 (Or.inr (List.mem_cons_of_mem _ hx)))
        have h2 : x ≠ lo + n := by
          rw [List.nodup_append] at hn
          obtain ⟨_, h2, h3⟩ := hn
          rcases List.mem_append.1 hx with hx | hx
          · exact h3 x hx (lo + n) (by simp)
          · intro e; subst e; exact (List.nodup_cons.1 h2).1 hx
        omega
      have := ih (a ++ b) hn' hlt
      simp only [List.length_append, List.length_cons] at this ⊢
      omega
    · have := ih l hn (fun x hx => by
        have h1 := h x hx
        have h2 : x ≠ lo + n := fun e => hm (e ▸ hx)
        omega)
      omega

/-- **pigeonhole**: duplicate-free, all elements in `[1, m]` ⇒ at most `m` elements -/
theorem length_le_of_range {m : Nat} {l : List Nat} (hn : l.Nodup) (h : ∀ x ∈ l, 1 ≤ x ∧ x ≤ m) :
    l.length ≤ m :=
  length_le_of_window 1 m l hn (fun x hx => by have := h x hx; omega)

/-- the identifier types of the library: `256 ^ pw - 1 ≤ u32::MAX` for `pw ≤ 4` -/
theorem idMax_le_u32 {pw : Nat} (h : pw ≤ 4) : 256 ^ pw - 1 ≤ 4294967295 := by
  have : 256 ^ pw ≤ 256 ^ 4 := Nat.pow_le_pow_right (by omega) h
  omega

/-- keyed version: a list of pairs with duplicate-free keys in `[1, m]` has at most `m` entries -/
theorem keys_length_le {α : Type} {m : Nat} {l : List (Nat × α)} (hn : (l.map (·.1)).Nodup)
    (h : ∀ x ∈ l, 1 ≤ x.1 ∧ x.1 ≤ m) : l.length ≤ m := by
  have := length_le_of_range (m := m) hn (by
    intro x hx
    obtain ⟨y, hy, rfl⟩ := List.mem_map.1 hx
    exact h y hy)
  simpa using this

end MqttVerif.Pigeon
