import MqttVerif.Conn.Lemmas.PairExchange2
/-!
# Helpers for `Props/C01L2c.lean`: step lemmas that are generic in the "other half" of the state

An endpoint that publishes and receives at the same time uses disjoint parts of its state for the
two roles: allocator pool, store and the three wait sets as a sender; `handled` and `publish_recv`
as a receiver.  The lemmas below compute one delivery on `mkSt v b .connected pool store pa pr pc h prv`
for ARBITRARY lists in the fields the handler does not look at, and express the touched fields by
the model's own list functions (`ins`, `del`, `storeErase`), which `simp` evaluates on the concrete
lists of a run.  `l2c_send_connack` / `l2c_recv_connack`: resumption with any number of stored packets.
-/
set_option linter.unusedSimpArgs false
set_option linter.unusedVariables false
namespace MqttVerif.Conn.Pair
open MqttVerif MqttVerif.Conn

/-- the acknowledgement of kind `k` for identifier `id` (`ack v k = ackN v k 1`, `ack2 v k = ackN v k 2`) -/
def ackN (v : Nat) (k : Kind) (id : Nat) : Pkt := { ver := v, kind := k, size := 4, pid := some id }
/-- v5.0 PUBCOMP "Packet Identifier not found" for identifier `id` (`ackRc = ackRcN 1`) -/
def ackRcN (id : Nat) : Pkt := { ver := 5, kind := .pubcomp, size := 5, pid := some id, rc := some 0x92 }

@[simp] theorem ackN_ver (v : Nat) (k : Kind) (id : Nat) : (ackN v k id).ver = v := rfl
@[simp] theorem ackN_kind (v : Nat) (k : Kind) (id : Nat) : (ackN v k id).kind = k := rfl
@[simp] theorem ackN_qos (v : Nat) (k : Kind) (id : Nat) : (ackN v k id).qos = 0 := rfl
@[simp] theorem ackN_pid (v : Nat) (k : Kind) (id : Nat) : (ackN v k id).pid = some id := rfl
@[simp] theorem ackRcN_kind (id : Nat) : (ackRcN id).kind = .pubcomp := rfl
@[simp] theorem asDup_ver (P : Pkt) : P.asDup.ver = P.ver := rfl
@[simp] theorem asDup_kind (P : Pkt) : P.asDup.kind = P.kind := rfl
@[simp] theorem asDup_qos (P : Pkt) : P.asDup.qos = P.qos := rfl
@[simp] theorem asDup_pid (P : Pkt) : P.asDup.pid = P.pid := rfl

theorem ack_eq_ackN (v : Nat) (k : Kind) : ack v k = ackN v k 1 := rfl
theorem ack2_eq_ackN (v : Nat) (k : Kind) : ack2 v k = ackN v k 2 := rfl
theorem ackRc_eq_ackRcN : ackRc = ackRcN 1 := rfl

/-- the pool after releasing `id` -/
def l2c_free (pool : List Alloc.Iv) (id : Nat) : List Alloc.Iv :=
  (Alloc.deallocate ⟨1, 65535, 65535, pool⟩ id).2.pool
/-- `id` is in use -/
def l2c_used (pool : List Alloc.Iv) (id : Nat) : Prop := Alloc.isUsed ⟨1, 65535, 65535, pool⟩ id = true
/-- `id` is in use and releasing it hits no panic site of the allocator -/
def l2c_ok (pool : List Alloc.Iv) (id : Nat) : Prop :=
  l2c_used pool id ∧ (Alloc.deallocate ⟨1, 65535, 65535, pool⟩ id).1 = none

theorem l2c_dealloc_eta (a : Alloc.A) (id : Nat) :
    (Alloc.deallocate a id).2 = { a with pool := (Alloc.deallocate a id).2.pool } := by
  unfold Alloc.deallocate
  split
  · rfl
  · split
    · rfl
    · split <;> rfl

/-- every stored packet may be sent again (no Maximum Packet Size negotiated) -/
def l2c_fits (st : List (Nat × Pkt)) : Prop := ∀ e ∈ st, e.2.sz 2 ≤ noLimit

theorem l2c_fits_nil : l2c_fits [] := by simp [l2c_fits]
theorem l2c_fits_cons (i : Nat) (X : Pkt) (l : List (Nat × Pkt)) :
    l2c_fits ((i, X) :: l) ↔ X.sz 2 ≤ noLimit ∧ l2c_fits l := by simp [l2c_fits]
theorem l2c_sz_ackN (v : Nat) (k : Kind) (id : Nat) (hk : k ≠ .publish) : (ackN v k id).sz 2 ≤ noLimit := by
  rw [sz_of_not_pub _ _ (by simpa [ackN] using hk)]; simp [ackN, noLimit]

theorem IsPub.toN {v q : Nat} {P : Pkt} (h : IsPub v q P) : IsPubN v q 1 P :=
  ⟨h.ver, h.kind, h.qos, h.pid, h.alias, h.topic, h.nowild, h.fits⟩
theorem IsPubN.asDup {v q id : Nat} {P : Pkt} (h : IsPubN v q id P) : IsPubN v q id P.asDup :=
  ⟨h.ver, h.kind, h.qos, h.pid, h.alias, h.topic, h.nowild, h.fits⟩


/-- `msimp` without the list functions of the touched fields (`ins`, `del`, `storeErase`, `storeHas`, ...), the allocator -/
syntax "gsimp" ("[" Lean.Parser.Tactic.simpLemma,* "]")? : tactic
macro_rules
  | `(tactic| gsimp [$ts,*]) => `(tactic| simp [step, send, roleMaySend, processSend,
      storeAdd, sendPostProcess, C.push, C.err, sizeOk, dispatchRecv, prV3Publish,
      prV5Publish, prV5PublishAlias, psV3Simple, psV5Puback, psV5Pubrec, psV5Pubcomp, mkAck, mkV5PubcompRc,
      refreshPingreqRecv, prPuback, prPubrec, prPubrel, prPubcomp,
      releaseIfUsed, releaseId, decSendCount, psPubrel, isUsed,
      canReceive, Kind.nibble, mkSt, sz_of_not_pub, noLimit, $ts,*])
  | `(tactic| gsimp) => `(tactic| gsimp [])

section
variable {v : Nat} (r : Role) (b : Bool) (pool : List Alloc.Iv) (store : List (Nat × Pkt)) (pa pr pc h prv : List Nat)

/-! ### receiver half -/

theorem l2c_recv_pub1 (hv : v = 4 ∨ v = 5) {id : Nat} {P : Pkt} (hP : IsPubN v 1 id P) (hid : id ≠ 0) :
    step ⟨r, 2⟩ (mkSt v b .connected pool store pa pr pc h prv) (deliverOp P) =
      { cfg := ⟨r, 2⟩, s := mkSt v b .connected pool store pa pr pc h (if v = 5 then del id (ins id prv) else prv),
        ev := [.send (ackN v .puback id) none, .recv P] } := by
  rw [deliver_mkSt r b _ hv _ _ _ _ _ _ _ _ (by simp [hP.kind, Kind.nibble])]
  obtain ⟨h1, h2, h3, h4, h5, h6, h7, h8⟩ := hP
  rcases hv with rfl | rfl <;> gsimp [h1, h2, h3, h4, h5, h6, h7, hid, ackN]

theorem l2c_recv_pub2 (hv : v = 4 ∨ v = 5) {id : Nat} {P : Pkt} (hP : IsPubN v 2 id P) (hid : id ≠ 0) :
    step ⟨r, 2⟩ (mkSt v b .connected pool store pa pr pc h prv) (deliverOp P) =
      { cfg := ⟨r, 2⟩, s := mkSt v b .connected pool store pa pr pc (ins id h) (if v = 5 then ins id prv else prv),
        ev := .send (ackN v .pubrec id) none :: (if id ∈ h then [] else [.recv P]) } := by
  rw [deliver_mkSt r b _ hv _ _ _ _ _ _ _ _ (by simp [hP.kind, Kind.nibble])]
  obtain ⟨h1, h2, h3, h4, h5, h6, h7, h8⟩ := hP
  by_cases hh : id ∈ h <;> rcases hv with rfl | rfl <;> gsimp [h1, h2, h3, h4, h5, h6, h7, hid, hh, ackN]

theorem l2c_recv_pubrel (hv : v = 4 ∨ v = 5) (id : Nat) :
    step ⟨r, 2⟩ (mkSt v b .connected pool store pa pr pc h prv) (deliverOp (ackN v .pubrel id)) =
      { cfg := ⟨r, 2⟩, s := mkSt v b .connected pool store pa pr pc (del id h) (if v = 5 then del id prv else prv),
        ev := [.send (if v = 5 ∧ id ∉ h then ackRcN id else ackN v .pubcomp id) none, .recv (ackN v .pubrel id)] } := by
  rw [deliver_mkSt r b _ hv _ _ _ _ _ _ _ _ (by simp [ackN, Kind.nibble])]
  by_cases hh : id ∈ h <;> rcases hv with rfl | rfl <;> gsimp [hh, ackN, ackRcN]

/-! ### sender half -/

theorem l2c_recv_puback (hv : v = 4 ∨ v = 5) (id : Nat) (hin : id ∈ pa) (hok : l2c_ok pool id) :
    step ⟨r, 2⟩ (mkSt v b .connected pool store pa pr pc h prv) (deliverOp (ackN v .puback id)) =
      { cfg := ⟨r, 2⟩, s := mkSt v b .connected (l2c_free pool id) (storeErase v .puback id store) (del id pa) pr pc h prv,
        ev := [.released id, .recv (ackN v .puback id)] } := by
  rw [deliver_mkSt r b _ hv _ _ _ _ _ _ _ _ (by simp [ackN, Kind.nibble])]
  obtain ⟨hu, hp⟩ := hok
  unfold l2c_used at hu
  rcases hv with rfl | rfl <;> gsimp [ackN, hin, hu, hp, l2c_free, C.setPanic] <;> exact l2c_dealloc_eta _ _

theorem l2c_recv_pubrec (hv : v = 4 ∨ v = 5) (id : Nat) (hin : id ∈ pr) (hu : l2c_used pool id)
    (hst : storeHas id (storeErase v .pubrec id store) = false) :
    step ⟨r, 2⟩ (mkSt v b .connected pool store pa pr pc h prv) (deliverOp (ackN v .pubrec id)) =
      { cfg := ⟨r, 2⟩,
        s := mkSt v b .connected pool (storeErase v .pubrec id store ++ [(id, ackN v .pubrel id)]) pa (del id pr) (ins id pc) h prv,
        ev := [.send (ackN v .pubrel id) none, .recv (ackN v .pubrec id)] } := by
  rw [deliver_mkSt r b _ hv _ _ _ _ _ _ _ _ (by simp [ackN, Kind.nibble])]
  unfold l2c_used at hu
  rcases hv with rfl | rfl <;> gsimp [ackN, hin, hu, hst]

/-- PUBCOMP, with or without reason code -/
theorem l2c_recv_pubcomp_any (hv : v = 4 ∨ v = 5) (id : Nat) (X : Pkt) (hX : X = ackN v .pubcomp id ∨ (v = 5 ∧ X = ackRcN id))
    (hin : id ∈ pc) (hok : l2c_ok pool id) :
    step ⟨r, 2⟩ (mkSt v b .connected pool store pa pr pc h prv) (deliverOp X) =
      { cfg := ⟨r, 2⟩, s := mkSt v b .connected (l2c_free pool id) (storeErase v .pubcomp id store) pa pr (del id pc) h prv,
        ev := [.released id, .recv X] } := by
  rw [deliver_mkSt r b _ hv _ _ _ _ _ _ _ _ (by rcases hX with rfl | ⟨_, rfl⟩ <;> simp [ackN, ackRcN, Kind.nibble])]
  obtain ⟨hu, hp⟩ := hok
  unfold l2c_used at hu
  rcases hX with rfl | ⟨rfl, rfl⟩
  · rcases hv with rfl | rfl <;> gsimp [ackN, hin, hu, hp, l2c_free, C.setPanic] <;> exact l2c_dealloc_eta _ _
  · gsimp [ackRcN, hin, hu, hp, l2c_free, C.setPanic] <;> exact l2c_dealloc_eta _ _

theorem l2c_recv_pubcomp (hv : v = 4 ∨ v = 5) (id : Nat) (hin : id ∈ pc) (hok : l2c_ok pool id) :
    step ⟨r, 2⟩ (mkSt v b .connected pool store pa pr pc h prv) (deliverOp (ackN v .pubcomp id)) =
      { cfg := ⟨r, 2⟩, s := mkSt v b .connected (l2c_free pool id) (storeErase v .pubcomp id store) pa pr (del id pc) h prv,
        ev := [.released id, .recv (ackN v .pubcomp id)] } :=
  l2c_recv_pubcomp_any r b pool store pa pr pc h prv hv id _ (Or.inl rfl) hin hok

theorem l2c_recv_pubcompRc (id : Nat) (hin : id ∈ pc) (hok : l2c_ok pool id) :
    step ⟨r, 2⟩ (mkSt 5 b .connected pool store pa pr pc h prv) (deliverOp (ackRcN id)) =
      { cfg := ⟨r, 2⟩, s := mkSt 5 b .connected (l2c_free pool id) (storeErase 5 .pubcomp id store) pa pr (del id pc) h prv,
        ev := [.released id, .recv (ackRcN id)] } :=
  l2c_recv_pubcomp_any r b pool store pa pr pc h prv (Or.inr rfl) id _ (Or.inr ⟨rfl, rfl⟩) hin hok

/-! ### the application's sends and the PUBLISH deliveries, uniform in the QoS -/

theorem l2c_send_pub {q : Nat} {P : Pkt} (hv : v = 4 ∨ v = 5) (hq : q = 1 ∨ q = 2) (hP : IsPub v q P) :
    step ⟨r, 2⟩ (mkSt v b .connected [⟨2, 65535⟩] [] [] [] [] [] []) (.send P) =
      { cfg := ⟨r, 2⟩,
        s := mkSt v b .connected [⟨2, 65535⟩] [(1, P.asDup)] (if q = 1 then [1] else []) (if q = 2 then [1] else []) [] [] [],
        ev := [.send P none] } := by
  rcases hq with rfl | rfl
  · exact step_send_pub1 r b hv hP
  · exact step_send_pub2 r b hv hP

theorem l2c_send2 {q : Nat} {P2 : Pkt} (hv : v = 4 ∨ v = 5) (hq : q = 1 ∨ q = 2) (hP : IsPubN v q 2 P2) (X : Pkt)
    (hpa : 2 ∉ pa) (hpr : 2 ∉ pr) :
    step ⟨r, 2⟩ (mkSt v b .connected [⟨3, 65535⟩] [(1, X)] pa pr [] [] []) (.send P2) =
      { cfg := ⟨r, 2⟩,
        s := mkSt v b .connected [⟨3, 65535⟩] [(1, X), (2, P2.asDup)] (if q = 1 then 2 :: pa else pa)
          (if q = 2 then 2 :: pr else pr) [] [] [],
        ev := [.send P2 none] } := by
  rcases hq with rfl | rfl
  · exact step_send2_q1 r b hv hP X pa pr hpa
  · exact step_send2_q2 r b hv hP X pa pr hpr

theorem l2c_recv_pub {q id : Nat} {P : Pkt} (hv : v = 4 ∨ v = 5) (hq : q = 1 ∨ q = 2) (hP : IsPubN v q id P) (hid : id ≠ 0) :
    step ⟨r, 2⟩ (mkSt v b .connected pool store pa pr pc h prv) (deliverOp P) =
      { cfg := ⟨r, 2⟩,
        s := mkSt v b .connected pool store pa pr pc (if q = 2 then ins id h else h)
          (if v = 5 then (if q = 2 then ins id prv else del id (ins id prv)) else prv),
        ev := .send (ackN v (if q = 2 then .pubrec else .puback) id) none :: (if q = 2 ∧ id ∈ h then [] else [.recv P]) } := by
  rcases hq with rfl | rfl
  · simpa using l2c_recv_pub1 r b pool store pa pr pc h prv hv hP hid
  · simpa using l2c_recv_pub2 r b pool store pa pr pc h prv hv hP hid

/-! ### resumption with any number of stored packets -/

theorem l2c_sendStoredLoop (l : List (Nat × Pkt)) : ∀ (c : C), c.s.sendMax = none → c.cfg.pw = 2 → c.s.mpsSend = 268435461 →
    l2c_fits l → sendStoredLoop c l = ({ c with ev := c.ev ++ l.map (fun e => Ev.send e.2 none) }, l) := by
  induction l with
  | nil => intro c _ _ _ _; simp [sendStoredLoop]
  | cons e l ih =>
    intro c hs hpw hm hf
    obtain ⟨id, p⟩ := e
    rw [l2c_fits_cons] at hf
    have h1 : ¬ (p.sz c.cfg.pw > c.s.mpsSend) := by rw [hpw, hm]; have := hf.1; unfold noLimit at this; omega
    have := ih (c.push (.send p none)) hs hpw hm hf.2
    rw [sendStoredLoop, if_neg h1]
    simp only [hs, Option.isSome_none, Bool.false_eq_true, if_false, this]
    simp [C.push, List.append_assoc]

theorem l2c_sendStored (c : C) (hs : c.s.sendMax = none) (hpw : c.cfg.pw = 2) (hm : c.s.mpsSend = 268435461)
    (hf : l2c_fits c.s.store) :
    sendStored c = { c with ev := c.ev ++ c.s.store.map (fun e => Ev.send e.2 none) } := by
  unfold sendStored
  simp only [hs, Option.isSome_none, Bool.false_eq_true, if_false]
  rw [l2c_sendStoredLoop _ c hs hpw hm hf]

theorem l2c_resendStored (c : C) (hs : c.s.sendMax = none) (hpw : c.cfg.pw = 2) (hm : c.s.mpsSend = 268435461)
    (hf : l2c_fits c.s.store) (h1 : c.s.userInterval = none) (h2 : c.s.serverKeepAliveMs = none) (h3 : c.s.keepAliveMs = 0) :
    resendStored c = { c with ev := c.ev ++ c.s.store.map (fun e => Ev.send e.2 none) } := by
  unfold resendStored
  rw [l2c_sendStored c hs hpw hm hf]
  simp only
  split
  · simp [sendPostProcess, h1, h2, h3]
  · rfl

theorem l2c_send_connack (hv : v = 4 ∨ v = 5) (hfit : l2c_fits store) :
    step ⟨.server, 2⟩ (mkSt v false .connecting pool store pa pr pc h prv) (.send (connackPkt v true)) =
      { cfg := ⟨.server, 2⟩, s := mkSt v false .connected pool store pa pr pc h prv,
        ev := .send (connackPkt v true) none :: store.map (fun e => Ev.send e.2 none) } := by
  rcases hv with rfl | rfl <;>
    simp [step, send, roleMaySend, processSend, psV3Connack, psV5Connack, sizeOk, connackPkt, sz_of_not_pub, mkSt, noLimit,
      C.push, C.err, l2c_sendStored, propsFold, sendPostProcess, hfit]

theorem l2c_recv_connack (hv : v = 4 ∨ v = 5) (hfit : l2c_fits store) :
    step ⟨.client, 2⟩ (mkSt v true .connecting pool store pa pr pc h prv) (deliverOp (connackPkt v true)) =
      { cfg := ⟨.client, 2⟩, s := mkSt v true .connected pool store pa pr pc h prv,
        ev := store.map (fun e => Ev.send e.2 none) ++ [.recv (connackPkt v true)] } := by
  rw [deliver_eq _ _ _ rfl (by rcases hv with rfl | rfl <;> simp [mkSt])
    (by rcases hv with rfl | rfl <;> simp [canReceive, connackPkt, Kind.nibble]) (by simp [mkSt, noLimit])]
  rcases hv with rfl | rfl <;>
    simp [dispatchRecv, prV3Connack, prV5Connack, connackPkt, Kind.nibble, mkSt, noLimit, l2c_resendStored,
      C.push, C.err, propsFold, hfit]

/-! ### the allocator on the pools that occur -/

theorem l2c_ok_2_1 : l2c_ok [⟨2, 65535⟩] 1 := by unfold l2c_ok l2c_used; decide
theorem l2c_ok_3_1 : l2c_ok [⟨3, 65535⟩] 1 := by unfold l2c_ok l2c_used; decide
theorem l2c_ok_3_2 : l2c_ok [⟨3, 65535⟩] 2 := by unfold l2c_ok l2c_used; decide
theorem l2c_ok_13_2 : l2c_ok [⟨1, 1⟩, ⟨3, 65535⟩] 2 := by unfold l2c_ok l2c_used; decide
theorem l2c_free_2_1 : l2c_free [⟨2, 65535⟩] 1 = [⟨1, 65535⟩] := by decide
theorem l2c_free_3_1 : l2c_free [⟨3, 65535⟩] 1 = [⟨1, 1⟩, ⟨3, 65535⟩] := by decide
theorem l2c_free_3_2 : l2c_free [⟨3, 65535⟩] 2 = [⟨2, 65535⟩] := by decide
theorem l2c_free_13_2 : l2c_free [⟨1, 1⟩, ⟨3, 65535⟩] 2 = [⟨1, 65535⟩] := by decide

end
end MqttVerif.Conn.Pair
