import MqttVerif.Conn.Lemmas.Pend8
/-!
# C08 helper — the ghost `pend` against the model: delivery of an awaited acknowledgement, runs
-/
set_option linter.unusedSimpArgs false
set_option linter.unusedVariables false
namespace MqttVerif.Conn.Pend
open MqttVerif MqttVerif.Conn

theorem mem_releasedIds {l : List Ev} {id : Nat} : id ∈ Mon.releasedIds l ↔ Ev.released id ∈ l := by
  induction l with
  | nil => simp [Mon.releasedIds]
  | cons e t ih => cases e <;> simp_all [Mon.releasedIds]

theorem mem_releaseIfUsed {c : C} {id : Nat} (hu : isUsed c.s id = true) : Ev.released id ∈ (releaseIfUsed c id).ev := by
  unfold releaseIfUsed
  rw [if_pos hu]
  unfold releaseId
  simp only []
  split <;> simp [C.push, C.setPanic]

theorem mem_of_fr_ev {c c' : C} {e : Ev} (h : ∃ l, c'.ev = c.ev ++ l) (hm : e ∈ c.ev) : e ∈ c'.ev := by
  obtain ⟨l, hl⟩ := h; rw [hl]; exact List.mem_append_left _ hm

theorem decSendCount_ev (c : C) : (decSendCount c).ev = c.ev := by unfold decSendCount; split <;> rfl
theorem refreshPingreqRecv_ev (c : C) : ∃ l, (refreshPingreqRecv c).ev = c.ev ++ l := by
  unfold refreshPingreqRecv; split
  · exact ⟨_, rfl⟩
  · exact ⟨[], by simp⟩

/-- PUBACK for an awaited identifier: delivered; and released if the identifier is in use -/
theorem prPuback_delivers (c : C) (p : Pkt) (hm : p.pid.getD 0 ∈ c.s.puback) :
    Ev.recv p ∈ (prPuback c (.ok p)).ev ∧
      (isUsed c.s (p.pid.getD 0) = true → Ev.released (p.pid.getD 0) ∈ (prPuback c (.ok p)).ev) := by
  unfold prPuback
  simp only [hm, if_true]
  refine ⟨mem_push_self _ _, fun hu => mem_push_of_mem (mem_of_fr_ev (refreshPingreqRecv_ev _) ?_)⟩
  have h1 := mem_releaseIfUsed (c := { c with s := { c.s with puback := del (p.pid.getD 0) c.s.puback, store := storeErase p.ver .puback (p.pid.getD 0) c.s.store } }) (id := p.pid.getD 0) hu
  split
  · rw [decSendCount_ev]; exact h1
  · exact h1

theorem prPubcomp_delivers (c : C) (p : Pkt) (hm : p.pid.getD 0 ∈ c.s.pubcomp) :
    Ev.recv p ∈ (prPubcomp c (.ok p)).ev ∧
      (isUsed c.s (p.pid.getD 0) = true → Ev.released (p.pid.getD 0) ∈ (prPubcomp c (.ok p)).ev) := by
  unfold prPubcomp
  simp only [hm, if_true]
  refine ⟨mem_push_self _ _, fun hu => mem_push_of_mem (mem_of_fr_ev (refreshPingreqRecv_ev _) ?_)⟩
  have h1 := mem_releaseIfUsed (c := { c with s := { c.s with pubcomp := del (p.pid.getD 0) c.s.pubcomp, store := storeErase p.ver .pubcomp (p.pid.getD 0) c.s.store } }) (id := p.pid.getD 0) hu
  split
  · rw [decSendCount_ev]; exact h1
  · exact h1

/-- PUBREC for an awaited identifier: delivered; released (if in use) when it is a failing v5.0
    PUBREC (any reason code other than 0; the monitor asks for it only when the code is ≥ 0x80) -/
theorem prPubrec_delivers (c : C) (p : Pkt) (hm : p.pid.getD 0 ∈ c.s.pubrec) :
    Ev.recv p ∈ (prPubrec c (.ok p)).ev ∧
      (¬ (p.ver = 4 ∨ p.rc = none ∨ p.rc = some 0) → isUsed c.s (p.pid.getD 0) = true →
        Ev.released (p.pid.getD 0) ∈ (prPubrec c (.ok p)).ev) := by
  unfold prPubrec
  simp only [hm, if_true]
  refine ⟨mem_push_self _ _, fun hf hu => mem_push_of_mem (mem_of_fr_ev (refreshPingreqRecv_ev _) ?_)⟩
  rw [if_neg hf, decSendCount_ev]
  exact mem_releaseIfUsed (c := { c with s := { c.s with pubrec := del (p.pid.getD 0) c.s.pubrec, store := storeErase p.ver .pubrec (p.pid.getD 0) c.s.store } }) (id := p.pid.getD 0) hu

theorem canReceive_ack (cfg : Cfg) (s : St) {t : Nat} (h : t = 4 ∨ t = 5 ∨ t = 7) : canReceive cfg s t = true := by
  rcases h with rfl | rfl | rfl <;> simp [canReceive]

/-- a complete frame of an acknowledgement type that passes the size gate reaches its handler -/
theorem step_recv_ack {cfg : Cfg} {s : St} {inp : List Nat} {parse : Nat → Nat → List Nat → Except Nat Pkt}
    {pb : Framing.PB} {fh : Nat} {data rest : List Nat}
    (hf : Framing.feed s.pb inp = (pb, some (.complete fh data), rest))
    (hsz : totalSize data.length ≤ s.mpsRecv) (hv0 : s.ver ≠ 0) (ht : fh / 16 = 4 ∨ fh / 16 = 5 ∨ fh / 16 = 7) :
    step cfg s (.recv inp parse) = dispatchRecv { cfg := cfg, s := { s with pb := pb } } (fh / 16) (parse s.ver fh data) := by
  have hcan : canReceive cfg { s with pb := pb } (fh / 16) = true := canReceive_ack _ _ ht
  simp only [step, recv, hf, processRecvPacket, Nat.not_lt.2 hsz, if_false, hcan, Bool.not_true,
    Bool.false_eq_true, hv0]

/-! ## runs -/

/-- the ghost along a sequence of calls -/
def pendRun (cfg : Cfg) : St → Gh → List Op → Gh
  | _, g, [] => g
  | s, g, op :: ops => pendRun cfg (step cfg s op).s (pendNext op (step cfg s op).ev g) ops

/-- every call of the sequence is within the contract, at the state and ghost it is made in -/
def LegalRun (cfg : Cfg) : St → Gh → List Op → Prop
  | _, _, [] => True
  | s, g, op :: ops => Legal s g op ∧ LegalRun cfg (step cfg s op).s (pendNext op (step cfg s op).ev g) ops

/-- `VIOL sig=C08 completion_not_released@<site>`: the invariant holds for a fresh connection object and
    the empty ghost -/
theorem PInv_init (cfg : Cfg) (ver : Nat) : PInv (St.init cfg ver) [] :=
  ⟨PendAgree.nil _, storeOk_of_nil rfl, fun _ => rfl⟩

/-- `VIOL sig=C08 completion_not_released@<site>`: the invariant along a run within the contract -/
theorem PInv_run {cfg : Cfg} : ∀ (ops : List Op) {s : St} {g : Gh}, PInv s g → LegalRun cfg s g ops →
    PInv (run cfg s ops) (pendRun cfg s g ops) := by
  intro ops
  induction ops with
  | nil => intro s g h _; exact h
  | cons op ops ih => intro s g h hl; exact ih (PInv_step h op hl.1) hl.2

theorem pendRun_append (cfg : Cfg) : ∀ (a b : List Op) (s : St) (g : Gh),
    pendRun cfg s g (a ++ b) = pendRun cfg (run cfg s a) (pendRun cfg s g a) b := by
  intro a
  induction a with
  | nil => intro b s g; rfl
  | cons op a ih => intro b s g; simp only [List.cons_append, pendRun, run, ih]

end MqttVerif.Conn.Pend
