import MqttVerif.Conn.Lemmas.Frame3
import MqttVerif.Monitors
/-!
# C14 helper lemmas: every packet handed to the application for sending fits the peer's limit

`W B L pw e`: if `e` requests sending `p` then `p.sz pw ≤ L`, or `p` is not a v5.0 packet and
`B` holds.  `B := True` gives the unconditional statement "every **v5.0** packet sent fits";
`B := False` gives the monitor's statement "every packet sent fits", under hypotheses that
make the v3.1.1 code paths unreachable.
-/
namespace MqttVerif.Conn
open MqttVerif

def W (B : Prop) (L pw : Nat) : Ev → Prop
  | .send p _ => p.sz pw ≤ L ∨ (p.ver ≠ 5 ∧ B)
  | _ => True

/-- the context in which the size check is evaluated -/
structure Cx (c : C) (L pw : Nat) : Prop where
  hL : c.s.mpsSend = L
  hpw : c.cfg.pw = pw

theorem Cx.fr {c c' : C} {L pw} (h : Cx c L pw) (hf : Fr c c') : Cx c' L pw :=
  ⟨hf.2.trans h.hL, by rw [hf.1]; exact h.hpw⟩

section
variable {B : Prop} {L pw : Nat}

theorem W_lax : Lax (W B L pw) := fun e h => by cases e <;> simp_all [Ev.passive, W]
theorem W_close : W B L pw .close := trivial

theorem W_size {c : C} (cx : Cx c L pw) {p : Pkt} (h : sizeOk c p = true) (r) : W B L pw (.send p r) := by
  have := cx.hL; have := cx.hpw
  simp only [sizeOk, Bool.not_eq_true', decide_eq_false_iff_not, Nat.not_lt] at h
  exact .inl (by subst_vars; exact h)

theorem W_le {c : C} (cx : Cx c L pw) {p : Pkt} (h : p.sz c.cfg.pw ≤ c.s.mpsSend) (r) : W B L pw (.send p r) := by
  have := cx.hL; have := cx.hpw
  exact .inl (by subst_vars; exact h)

theorem W_v3 {p : Pkt} (hv : p.ver ≠ 5) (hB : B) (r) : W B L pw (.send p r) := .inr ⟨hv, hB⟩

theorem W_cond {c : C} (cx : Cx c L pw) {p : Pkt} (hB : p.ver ≠ 5 → B) (h : p.ver = 5 → sizeOk c p = true) (r) :
    W B L pw (.send p r) := by
  by_cases hv : p.ver = 5
  · exact W_size cx (h hv) r
  · exact W_v3 hv (hB hv) r

theorem W_SOk {c : C} (cx : Cx c L pw) {p : Pkt} (hB : p.ver ≠ 5 → B) : SOk (W B L pw) c p :=
  fun q r _ hv _ hz => W_cond cx (fun h => hB (hv ▸ h)) hz r

theorem W_store {c : C} (cx : Cx c L pw) :
    ∀ x ∈ c.s.store, x.2.sz c.cfg.pw ≤ c.s.mpsSend → W B L pw (.send x.2 none) :=
  fun _ _ h => W_le cx h none

theorem processSend_W (c : C) (p : Pkt) (cx : Cx c L pw) (hB : p.ver ≠ 5 → B)
    (h : EvAll (W B L pw) c.ev) : EvAll (W B L pw) (processSend c p).ev := by
  have hP : Lax (W B L pw) := W_lax
  have hc : W B L pw .close := W_close
  have hz : ∀ r, sizeOk c p = true → W B L pw (.send p r) := fun r h => W_size cx h r
  have hcond : ∀ r, (p.ver = 5 → sizeOk c p = true) → W B L pw (.send p r) := fun r h => W_cond cx hB h r
  have hst := W_store (B := B) cx
  unfold processSend
  split
  · rename_i h4
    have h3 : ∀ r, W B L pw (.send p r) := fun r => W_v3 (by omega) (hB (by omega)) r
    cases hk : p.kind <;> simp only []
    · exact psV3Connect_all hP c p (h3 _) h
    · exact psV3Connack_all hP hc c p (h3 _) hst h
    · exact psV3Publish_all hP c p h3 h
    · exact psV3Simple_all hP c p (h3 _) h
    · exact psV3Simple_all hP c p (h3 _) h
    · exact psPubrel_all hP c p (hcond _) h
    · exact psV3Simple_all hP c p (h3 _) h
    · exact psSubUnsub_all hP c p (fun hh r => hcond r hh) h
    · exact psV3Simple_all hP c p (h3 _) h
    · exact psSubUnsub_all hP c p (fun hh r => hcond r hh) h
    · exact psV3Simple_all hP c p (h3 _) h
    · exact psPingreq_all hP c p (hcond _) h
    · exact psV3Simple_all hP c p (h3 _) h
    · exact psV3Disconnect_all hP hc c p (h3 _) h
    · exact h
  · cases hk : p.kind <;> simp only []
    · exact psV5Connect_all hP c p (hz _) h
    · exact psV5Connack_all hP hc c p (hz _) hst h
    · exact psV5Publish_all hP c p (W_SOk cx hB) h
    · exact psV5Puback_all hP c p (hz _) h
    · exact psV5Pubrec_all hP c p (hz _) h
    · exact psPubrel_all hP c p (hcond _) h
    · exact psV5Pubcomp_all hP c p (hz _) h
    · exact psSubUnsub_all hP c p (fun hh r => hcond r hh) h
    · exact psV5Simple_all hP c p (hz _) h
    · exact psSubUnsub_all hP c p (fun hh r => hcond r hh) h
    · exact psV5Simple_all hP c p (hz _) h
    · exact psPingreq_all hP c p (hcond _) h
    · exact psV5Simple_all hP c p (hz _) h
    · exact psV5Disconnect_all hP hc c p (hz _) h
    · exact psV5Auth_all hP c p (hz _) h

/-- `send`: the version check makes `p.ver = c.s.ver` on every path that reaches `processSend` -/
theorem send_W (c : C) (p : Pkt) (cx : Cx c L pw) (hB : c.s.ver ≠ 5 → B)
    (h : EvAll (W B L pw) c.ev) : EvAll (W B L pw) (send c p).ev := by
  unfold send
  split
  · exact refuseSend_all W_lax c _ p h
  · rename_i hv
    split
    · exact refuseSend_all W_lax c _ p h
    · exact processSend_W c p cx (fun hp => hB (by simp only [ne_eq, Decidable.not_not] at hv; rw [hv]; exact hp)) h

end
end MqttVerif.Conn
