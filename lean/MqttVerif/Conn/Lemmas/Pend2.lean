import MqttVerif.Conn.Lemmas.Pend
/-!
# C08 helper — the invariant `Inv` relating the driver's ghost `pend` to the model, generic
preservation lemmas
-/
set_option linter.unusedSimpArgs false
set_option linter.unusedVariables false
namespace MqttVerif.Conn.Pend
open MqttVerif MqttVerif.Conn

/-- the wait set an acknowledgement of kind `k` is looked up in -/
def waitOf (s : St) : Kind → List Nat
  | .pubcomp => s.pubcomp
  | .pubrec => s.pubrec
  | _ => s.puback

/-- the wait set of a ghost nibble -/
def waitN (s : St) : Nat → List Nat
  | 4 => s.puback
  | 5 => s.pubrec
  | 7 => s.pubcomp
  | _ => []

/-- **the relational invariant**: every ghost entry is awaited by the model -/
def PendAgree (s : St) (pend : Gh) : Prop :=
  ∀ id, ((id, 4) ∈ pend → id ∈ s.puback) ∧ ((id, 5) ∈ pend → id ∈ s.pubrec) ∧ ((id, 7) ∈ pend → id ∈ s.pubcomp)

/-- the same, bounded (decidable) -/
def PendAgreeB (s : St) (pend : Gh) : Prop :=
  ∀ x ∈ pend, (x.2 = 4 → x.1 ∈ s.puback) ∧ (x.2 = 5 → x.1 ∈ s.pubrec) ∧ (x.2 = 7 → x.1 ∈ s.pubcomp)

theorem pendAgree_iff (s : St) (pend : Gh) : PendAgree s pend ↔ PendAgreeB s pend := by
  constructor
  · intro h x hx
    obtain ⟨i, n⟩ := x
    refine ⟨fun e => ?_, fun e => ?_, fun e => ?_⟩ <;> simp only at e <;> subst e
    · exact (h i).1 hx
    · exact (h i).2.1 hx
    · exact (h i).2.2 hx
  · intro h id
    exact ⟨fun hx => (h _ hx).1 rfl, fun hx => (h _ hx).2.1 rfl, fun hx => (h _ hx).2.2 rfl⟩

instance (s : St) (pend : Gh) : Decidable (PendAgreeB s pend) := by unfold PendAgreeB; infer_instance
instance (s : St) (pend : Gh) : Decidable (PendAgree s pend) := decidable_of_iff _ (pendAgree_iff s pend).symm

/-- a stored PUBLISH / PUBREL is an incomplete exchange the model awaits the acknowledgement of:
    it carries its key as identifier, is a packet of the connection's (determined) protocol
    version, and its key is in the wait set of its response packet.  (Nothing is required of a
    stored packet of another kind — `restorePackets` accepts any — : resending it creates no ghost
    entry.) -/
def EntOk (s : St) (x : Nat × Pkt) : Prop :=
  (x.2.kind = .publish ∨ x.2.kind = .pubrel) →
    (x.2.pid.getD 0 = x.1 ∧ x.2.ver = s.ver ∧ s.ver ≠ 0 ∧ x.1 ∈ waitOf s (respOf x.2))

instance (s : St) (x : Nat × Pkt) : Decidable (EntOk s x) := by unfold EntOk; infer_instance

structure StoreOk (s : St) : Prop where
  nodup : (s.store.map (·.1)).Nodup
  ent : ∀ x ∈ s.store, EntOk s x

instance (s : St) : Decidable (StoreOk s) :=
  decidable_of_iff ((s.store.map (·.1)).Nodup ∧ ∀ x ∈ s.store, EntOk s x)
    ⟨fun h => ⟨h.1, h.2⟩, fun h => ⟨h.1, h.2⟩⟩

/-- the ghost seen through a mask: the entries of one identifier hidden (between the moment a
    handler deletes the wait-set entry and the moment it pushes the event that removes the ghost
    entry) -/
def mask : Option Nat → Gh → Gh
  | none, g => g
  | some i, g => rm i g

theorem mask_mono (m : Option Nat) {a b : Gh} (h : a ⊆ b) : mask m a ⊆ mask m b := by
  cases m with
  | none => exact h
  | some i => intro x hx; exact mem_rm.2 ⟨h (mem_rm.1 hx).1, (mem_rm.1 hx).2⟩

@[simp] theorem mask_nil (m : Option Nat) : mask m [] = [] := by cases m <;> rfl

structure InvM (m : Option Nat) (g : Gh) (c : C) : Prop where
  agree : PendAgree c.s (mask m (pendStep g c.ev))
  store : StoreOk c.s
  conn : c.s.status = .connecting → mask m (pendStep g c.ev) = []

/-- the invariant: ghost `g` at the start of the call, context `c` -/
abbrev Inv (g : Gh) (c : C) : Prop := InvM none g c

theorem PendAgree.sub {s : St} {a b : Gh} (h : PendAgree s b) (hs : a ⊆ b) : PendAgree s a :=
  fun id => ⟨fun hx => (h id).1 (hs hx), fun hx => (h id).2.1 (hs hx), fun hx => (h id).2.2 (hs hx)⟩

theorem PendAgree.nil (s : St) : PendAgree s [] := fun id => by simp

theorem waitOf_congr {s s' : St} (h1 : s'.puback = s.puback) (h2 : s'.pubrec = s.pubrec)
    (h3 : s'.pubcomp = s.pubcomp) (k : Kind) : waitOf s' k = waitOf s k := by
  cases k <;> simp [waitOf, h1, h2, h3]

theorem StoreOk.congr {c c' : C} (h : W c' = W c) (k : StoreOk c.s) : StoreOk c'.s := by
  simp only [W, Prod.mk.injEq] at h
  obtain ⟨h1, h2, h3, h4, h5⟩ := h
  refine ⟨by rw [h4]; exact k.nodup, ?_⟩
  intro x hx hk
  rw [h4] at hx
  obtain ⟨a, d, e, f⟩ := k.ent x hx hk
  exact ⟨a, by rw [h5]; exact d, by rw [h5]; exact e, by rw [waitOf_congr h1 h2 h3]; exact f⟩

theorem InvM.fr {m : Option Nat} {g : Gh} {c c' : C} (f : Fr c c') (h : InvM m g c) : InvM m g c' := by
  have hw := f.w
  simp only [W, Prod.mk.injEq] at hw
  obtain ⟨h1, h2, h3, h4, h5⟩ := hw
  have hsub := mask_mono m (f.gh g)
  refine ⟨?_, h.store.congr f.w, ?_⟩
  · have := h.agree.sub hsub
    intro id
    rw [h1, h2, h3]; exact this id
  · intro hc
    rcases f.status with e | e
    · have := h.conn (e ▸ hc)
      rw [this] at hsub
      exact List.eq_nil_of_subset_nil hsub
    · rw [e] at hc; cases hc

/-! ## membership in the set-like lists -/

theorem mem_ins {x y : Nat} {l : List Nat} : x ∈ ins y l ↔ x = y ∨ x ∈ l := by
  unfold ins; split <;> simp_all
theorem mem_del {x y : Nat} {l : List Nat} : x ∈ del y l ↔ x ∈ l ∧ x ≠ y := by simp [del]
theorem mem_ins_self (y : Nat) (l : List Nat) : y ∈ ins y l := mem_ins.2 (.inl rfl)
theorem mem_ins_of_mem {x y : Nat} {l : List Nat} (h : x ∈ l) : x ∈ ins y l := mem_ins.2 (.inr h)

/-! ## generic steps -/

/-- (A) the wait sets grow, at most one well-formed entry is appended to the store, no event -/
theorem InvM.grow {m : Option Nat} {g : Gh} {c c' : C} (h : InvM m g c) (hev : c'.ev = c.ev)
    (hst : c'.s.status = c.s.status) (hv : c'.s.ver = c.s.ver)
    (hpa : ∀ i ∈ c.s.puback, i ∈ c'.s.puback) (hpr : ∀ i ∈ c.s.pubrec, i ∈ c'.s.pubrec)
    (hpc : ∀ i ∈ c.s.pubcomp, i ∈ c'.s.pubcomp)
    (hs : c'.s.store = c.s.store ∨
      ∃ x, c'.s.store = c.s.store ++ [x] ∧ storeHas x.1 c.s.store = false ∧ EntOk c'.s x) : InvM m g c' := by
  have hw : ∀ k i, i ∈ waitOf c.s k → i ∈ waitOf c'.s k := by
    intro k i; cases k <;> simp only [waitOf] <;> first | exact hpa i | exact hpr i | exact hpc i
  have hent : ∀ x ∈ c.s.store, EntOk c'.s x := by
    intro x hx hk
    obtain ⟨a, d, e, f⟩ := h.store.ent x hx hk
    exact ⟨a, by rw [hv]; exact d, by rw [hv]; exact e, hw _ _ f⟩
  refine ⟨?_, ?_, ?_⟩
  · rw [hev]
    intro id
    exact ⟨fun hx => hpa _ ((h.agree id).1 hx), fun hx => hpr _ ((h.agree id).2.1 hx),
      fun hx => hpc _ ((h.agree id).2.2 hx)⟩
  · rcases hs with hs | ⟨x, hs, hn, hx⟩
    · refine ⟨by rw [hs]; exact h.store.nodup, ?_⟩
      rw [hs]; exact hent
    · refine ⟨?_, ?_⟩
      · rw [hs, List.map_append, List.nodup_append]
        refine ⟨h.store.nodup, by simp, ?_⟩
        intro a ha b hb
        simp only [List.map_cons, List.map_nil, List.mem_singleton] at hb
        subst hb
        intro e; subst e
        simp only [storeHas, List.any_eq_false, decide_eq_true_eq] at hn
        simp only [List.mem_map] at ha
        obtain ⟨y, hy, e⟩ := ha
        exact hn y hy e
      · rw [hs]
        intro y hy
        simp only [List.mem_append, List.mem_singleton] at hy
        rcases hy with hy | rfl
        · exact hent y hy
        · exact hx
  · rw [hev, hst]; exact h.conn

theorem mask_addP_sub (m : Option Nat) (q : Pkt) (G : Gh) :
    ∀ x ∈ mask m (addP q G), x ∈ mask m G ∨ (∃ n, nibOf q = some n ∧ x = (q.pid.getD 0, n)) := by
  intro x hx
  unfold addP at hx
  cases hn : nibOf q with
  | none => simp only [hn] at hx; exact .inl hx
  | some n =>
    simp only [hn] at hx
    cases m with
    | none =>
      simp only [mask, List.mem_cons] at hx ⊢
      rcases hx with rfl | hx
      · exact .inr ⟨n, rfl, rfl⟩
      · exact .inl (rm_subset _ _ hx)
    | some i =>
      simp only [mask] at hx ⊢
      obtain ⟨h1, h2⟩ := mem_rm.1 hx
      simp only [List.mem_cons] at h1
      rcases h1 with rfl | h1
      · exact .inr ⟨n, rfl, rfl⟩
      · exact .inl (mem_rm.2 ⟨rm_subset _ _ h1, h2⟩)

/-- (B) a packet is requested for sending while connected; if it creates a ghost entry, its
    identifier is in the corresponding wait set -/
theorem InvM.send {m : Option Nat} {g : Gh} {c : C} (h : InvM m g c) (p : Pkt) (r : Option Nat)
    (hst : c.s.status = .connected)
    (hw : ∀ n, nibOf p = some n → p.pid.getD 0 ∈ waitN c.s n) : InvM m g (c.push (.send p r)) := by
  refine ⟨?_, h.store, ?_⟩
  · simp only [push_ev, pendStep_append, pendStep_cons, pendStep_nil, pendEv_send, push_s]
    intro id
    refine ⟨fun hx => ?_, fun hx => ?_, fun hx => ?_⟩ <;>
      rcases mask_addP_sub m p _ _ hx with hx | ⟨n, hn, e⟩
    · exact (h.agree id).1 hx
    · simp only [Prod.mk.injEq] at e; obtain ⟨rfl, rfl⟩ := e; exact hw 4 hn
    · exact (h.agree id).2.1 hx
    · simp only [Prod.mk.injEq] at e; obtain ⟨rfl, rfl⟩ := e; exact hw 5 hn
    · exact (h.agree id).2.2 hx
    · simp only [Prod.mk.injEq] at e; obtain ⟨rfl, rfl⟩ := e; exact hw 7 hn
  · intro hc; rw [push_s, hst] at hc; cases hc

/-- a packet that creates no ghost entry is requested for sending -/
theorem InvM.send_none {m : Option Nat} {g : Gh} {c : C} (h : InvM m g c) (p : Pkt) (r : Option Nat)
    (hn : nibOf p = none) : InvM m g (c.push (.send p r)) :=
  h.fr (fr_push (fun g => by simp [addP_none hn]))

/-- (C) identifier `id` is deleted from (some of) the wait sets and the stored packets awaiting it
    are erased: the invariant holds with `id` masked -/
theorem InvM.del {g : Gh} {c c' : C} {id : Nat} (h : InvM none g c) (hev : c'.ev = c.ev)
    (hst : c'.s.status = c.s.status) (hv : c'.s.ver = c.s.ver)
    (hpa : ∀ i, i ≠ id → i ∈ c.s.puback → i ∈ c'.s.puback)
    (hpr : ∀ i, i ≠ id → i ∈ c.s.pubrec → i ∈ c'.s.pubrec)
    (hpc : ∀ i, i ≠ id → i ∈ c.s.pubcomp → i ∈ c'.s.pubcomp)
    (hsl : c'.s.store.Sublist c.s.store)
    (hid : ∀ x ∈ c'.s.store, x.1 = id → (x.2.kind = .publish ∨ x.2.kind = .pubrel) →
      x.1 ∈ waitOf c'.s (respOf x.2)) : InvM (some id) g c' := by
  have hw : ∀ k i, i ≠ id → i ∈ waitOf c.s k → i ∈ waitOf c'.s k := by
    intro k i; cases k <;> simp only [waitOf] <;> first | exact hpa i | exact hpr i | exact hpc i
  refine ⟨?_, ⟨?_, ?_⟩, ?_⟩
  · rw [hev]
    simp only [mask]
    intro i
    refine ⟨fun hx => ?_, fun hx => ?_, fun hx => ?_⟩ <;> obtain ⟨h1, h2⟩ := mem_rm.1 hx
    · exact hpa i h2 ((h.agree i).1 h1)
    · exact hpr i h2 ((h.agree i).2.1 h1)
    · exact hpc i h2 ((h.agree i).2.2 h1)
  · exact List.Nodup.sublist (List.Sublist.map _ hsl) h.store.nodup
  · intro x hx hk
    obtain ⟨a, d, e, f⟩ := h.store.ent x (hsl.subset hx) hk
    refine ⟨a, by rw [hv]; exact d, by rw [hv]; exact e, ?_⟩
    by_cases hx1 : x.1 = id
    · exact hid x hx hx1 hk
    · exact hw _ _ hx1 f
  · intro hc
    rw [hev, hst] at *
    have := h.conn hc
    simp only [mask] at this ⊢
    rw [this]; rfl

theorem rm_rm_self (id : Nat) (g : Gh) : rm id (rm id g) = rm id g := by
  simp [rm, List.filter_filter]

theorem InvM.unmask_recv {g : Gh} {c : C} {id : Nat} (h : InvM (some id) g c) (p : Pkt)
    (ha : isAck p = true) (hp : p.pid.getD 0 = id) : Inv g (c.push (.recv p)) := by
  have e : pendStep g (c.push (.recv p)).ev = rm id (pendStep g c.ev) := by
    simp [pendEv_recv, ha, hp]
  exact ⟨by rw [e]; exact h.agree, h.store, by rw [e]; exact h.conn⟩

theorem InvM.unmask_released {g : Gh} {c : C} {id : Nat} (h : InvM (some id) g c) :
    Inv g (c.push (.released id)) := by
  have e : pendStep g (c.push (.released id)).ev = rm id (pendStep g c.ev) := by simp
  exact ⟨by rw [e]; exact h.agree, h.store, by rw [e]; exact h.conn⟩

theorem rm_absent {id : Nat} {G : Gh} (h : ∀ n, (id, n) ∉ G) : rm id G = G := by
  unfold rm
  rw [List.filter_eq_self]
  intro x hx
  simp only [ne_eq, decide_not, Bool.not_eq_eq_eq_not, Bool.not_true, decide_eq_false_iff_not]
  intro e
  exact h x.2 (by rw [← e]; exact hx)

theorem InvM.unmask_absent {g : Gh} {c : C} {id : Nat} (h : InvM (some id) g c)
    (ha : ∀ n, (id, n) ∉ pendStep g c.ev) : Inv g c := by
  have e := rm_absent ha
  exact ⟨by have := h.agree; simp only [mask, e] at this; exact this, h.store,
    by have := h.conn; simp only [mask, e] at this; exact this⟩

/-- masking only hides entries -/
theorem InvM.to_mask {g : Gh} {c : C} (h : Inv g c) (id : Nat) : InvM (some id) g c :=
  ⟨h.agree.sub (rm_subset _ _), h.store, fun hc => by have := h.conn hc; simp only [mask] at this ⊢; rw [this]; rfl⟩

/-- the session is cleared while the ghost is empty -/
theorem inv_clear {g : Gh} {c : C} (hg : pendStep g c.ev = []) : Inv g (clearStoreRelated c) := by
  refine ⟨?_, ⟨?_, ?_⟩, ?_⟩
  · show PendAgree _ (pendStep g c.ev); rw [hg]; exact PendAgree.nil _
  · simp [clearStoreRelated]
  · simp [clearStoreRelated]
  · intro _; exact hg

/-- with an empty ghost the invariant is `StoreOk` -/
theorem inv_of_empty {g : Gh} {c : C} (hg : pendStep g c.ev = []) (k : StoreOk c.s) : Inv g c :=
  ⟨by show PendAgree _ (pendStep g c.ev); rw [hg]; exact PendAgree.nil _, k, fun _ => hg⟩

/-! ## the store -/

theorem lookup_of_mem {α : Type} {st : List (Nat × α)} (hn : (st.map (·.1)).Nodup) {x : Nat × α} (hx : x ∈ st) :
    lookup x.1 st = some x.2 := by
  induction st with
  | nil => cases hx
  | cons y rest ih =>
    obtain ⟨k, v⟩ := y
    simp only [List.map_cons, List.nodup_cons, List.mem_map, not_exists, not_and] at hn
    simp only [List.mem_cons] at hx
    rcases hx with rfl | hx
    · simp [lookup]
    · have : x.1 ≠ k := fun e => hn.1 x hx e
      simp only [lookup, this, if_false]
      exact ih hn.2 hx

theorem erase_sublist {α : Type} (k : Nat) (l : List (Nat × α)) : (erase k l).Sublist l := List.filter_sublist
theorem mem_erase {α : Type} {k : Nat} {l : List (Nat × α)} {x : Nat × α} : x ∈ erase k l ↔ x ∈ l ∧ x.1 ≠ k := by
  simp [erase]

theorem storeErase_sublist (v : Nat) (k : Kind) (id : Nat) (st : List (Nat × Pkt)) :
    (storeErase v k id st).Sublist st := by
  unfold storeErase; (repeat' split) <;> first | exact erase_sublist _ _ | exact List.Sublist.refl _

/-- an entry with key `id` that survives `Store::erase(response, id)` has another response packet
    or another version -/
theorem storeErase_keeps {v : Nat} {k : Kind} {id : Nat} {st : List (Nat × Pkt)} (hn : (st.map (·.1)).Nodup)
    {x : Nat × Pkt} (hx : x ∈ storeErase v k id st) (hid : x.1 = id) : ¬ (respOf x.2 = k ∧ x.2.ver = v) := by
  have hm : x ∈ st := (storeErase_sublist v k id st).subset hx
  have hl := lookup_of_mem hn hm
  rw [hid] at hl
  unfold storeErase at hx
  simp only [hl] at hx
  split at hx
  · exact absurd hid (mem_erase.1 hx).2
  · assumption

theorem storeErasePublish_sublist (id : Nat) (st : List (Nat × Pkt)) : (storeErasePublish id st).2.Sublist st := by
  unfold storeErasePublish; (repeat' split) <;> first | exact erase_sublist _ _ | exact List.Sublist.refl _

theorem storeErasePublish_keeps {id : Nat} {st : List (Nat × Pkt)} (hn : (st.map (·.1)).Nodup)
    {x : Nat × Pkt} (hx : x ∈ (storeErasePublish id st).2) (hid : x.1 = id) : x.2.kind ≠ .publish := by
  have hm : x ∈ st := (storeErasePublish_sublist id st).subset hx
  have hl := lookup_of_mem hn hm
  rw [hid] at hl
  unfold storeErasePublish at hx
  simp only [hl] at hx
  split at hx
  · exact absurd hid (mem_erase.1 hx).2
  · assumption

theorem storeErasePublish_hit {id : Nat} {st : List (Nat × Pkt)} (h : (storeErasePublish id st).1 = true) :
    (storeErasePublish id st).2 = erase id st := by
  unfold storeErasePublish at h ⊢
  (repeat' split) <;> simp_all

end MqttVerif.Conn.Pend
