import MqttVerif.Conn.Lemmas.Pend4
/-!
# C08 helper — the ghost `pend` against the model: `send`, and the receive side
-/
set_option linter.unusedSimpArgs false
set_option linter.unusedVariables false
namespace MqttVerif.Conn.Pend
open MqttVerif MqttVerif.Conn

theorem Good.of_fr {c c' : C} (f : Fr c c') : Good c c' := .inl (fun g h => h.fr f)
theorem Good.of_inv {c c' : C} (f : ∀ g, Inv g c → Inv g c') : Good c c' := .inl f

theorem good_processSend (c : C) (p : Pkt) (hev : c.ev = []) (hv : p.ver = c.s.ver) (hv0 : c.s.ver ≠ 0) :
    Good c (processSend c p) := by
  have hnk : p.kind ≠ .publish → p.kind ≠ .pubrel → nibOf p = none := nibOf_kind
  unfold processSend
  by_cases h4 : p.ver = 4
  · simp only [h4, if_true]
    cases hk : p.kind <;> simp only []
    case connect => exact good_psV3Connect c p hk hev
    case connack =>
      exact .of_inv (fun g h => inv_psV3Connack p (hnk (by simp [hk]) (by simp [hk])) h.agree h.store (fun hc _ => h.conn hc))
    case publish => exact .of_inv (fun g h => inv_psV3Publish h p hk hv hv0)
    case pubrel => exact .of_inv (fun g h => inv_psPubrel h p hk hv hv0)
    case subscribe => exact .of_fr (fr_psSubUnsub c p (hnk (by simp [hk]) (by simp [hk])))
    case unsubscribe => exact .of_fr (fr_psSubUnsub c p (hnk (by simp [hk]) (by simp [hk])))
    case pingreq => exact .of_fr (fr_psPingreq c p (hnk (by simp [hk]) (by simp [hk])))
    case disconnect => exact .of_fr (fr_psV3Disconnect c p (hnk (by simp [hk]) (by simp [hk])))
    case auth => exact .of_fr (Fr.refl c)
    all_goals exact .of_fr (fr_psV3Simple c p (hnk (by simp [hk]) (by simp [hk])))
  · simp only [h4, if_false]
    cases hk : p.kind <;> simp only []
    case connect => exact good_psV5Connect c p hk hev
    case connack =>
      exact .of_inv (fun g h => inv_psV5Connack p (hnk (by simp [hk]) (by simp [hk])) h.agree h.store (fun hc _ => h.conn hc))
    case publish => exact .of_inv (fun g h => inv_psV5Publish h p hk hv hv0)
    case puback => exact .of_fr (fr_psV5Puback c p (hnk (by simp [hk]) (by simp [hk])))
    case pubrec => exact .of_fr (fr_psV5Pubrec c p (hnk (by simp [hk]) (by simp [hk])))
    case pubrel => exact .of_inv (fun g h => inv_psPubrel h p hk hv hv0)
    case pubcomp => exact .of_fr (fr_psV5Pubcomp c p (hnk (by simp [hk]) (by simp [hk])))
    case subscribe => exact .of_fr (fr_psSubUnsub c p (hnk (by simp [hk]) (by simp [hk])))
    case unsubscribe => exact .of_fr (fr_psSubUnsub c p (hnk (by simp [hk]) (by simp [hk])))
    case pingreq => exact .of_fr (fr_psPingreq c p (hnk (by simp [hk]) (by simp [hk])))
    case disconnect => exact .of_fr (fr_psV5Disconnect c p (hnk (by simp [hk]) (by simp [hk])))
    case auth => exact .of_fr (fr_psV5Auth c p (hnk (by simp [hk]) (by simp [hk])))
    all_goals exact .of_fr (fr_psV5Simple c p (hnk (by simp [hk]) (by simp [hk])))

/-- `send`: the contract is `p.ver ≠ 0` (a packet is a v3.1.1 or a v5.0 packet) -/
theorem good_send (c : C) (p : Pkt) (hev : c.ev = []) (hv0 : p.ver ≠ 0) : Good c (send c p) := by
  unfold send
  split
  · exact .of_fr (fr_refuseSend _ _ _)
  split
  · exact .of_fr (fr_refuseSend _ _ _)
  · rename_i hv _
    have hv : c.s.ver = p.ver := by simpa using hv
    exact good_processSend c p hev hv.symm (by rw [hv]; exact hv0)


/-! ## the receive side: handlers that are frames -/

/-- peel a composite context `f₁ (f₂ (… c))` from the outside -/
macro "fr_peel" : tactic =>
  `(tactic| repeat (first
      | exact Fr.refl _
      | exact fr_of_eq rfl rfl rfl
      | exact fr_setPanic _ _
      | exact fr_err _ _
      | refine Fr.trans ?_ (fr_handleV3Error _ _)
      | refine Fr.trans ?_ (fr_handleV5Error _ _)
      | refine Fr.trans ?_ (fr_vErr _ _)
      | refine Fr.trans ?_ (fr_v5DisconnectOrClose _ _ (by simp))
      | refine Fr.trans ?_ (fr_push (fun g => pendEv_recv_sub g _))
      | refine Fr.trans ?_ (fr_push (fun g => List.Subset.refl _))
      | refine Fr.trans ?_ (fr_refreshPingreqRecv _)
      | refine Fr.trans ?_ (fr_cancelTimers _)
      | refine Fr.trans ?_ (fr_psV3Simple _ _ (by simp))
      | refine Fr.trans ?_ (fr_psV5Simple _ _ (by simp))
      | refine Fr.trans ?_ (fr_psV5Puback _ _ (by simp))
      | refine Fr.trans ?_ (fr_psV5Pubrec _ _ (by simp))
      | refine Fr.trans ?_ (fr_psV5Pubcomp _ _ (by simp))
      | refine Fr.trans ?_ (fr_setPanic _ _)
      | refine Fr.trans ?_ (fr_err _ _)
      | refine Fr.trans ?_ (fr_releaseIfUsed _ _)
      | refine Fr.trans ?_ (fr_decSendCount _)))

macro "fr_handler" : tactic =>
  `(tactic| ((repeat' (first | split | (simp only []; split))) <;> (try simp only []) <;> fr_peel))

theorem fr_prV3Publish (c : C) (x : Except Nat Pkt) : Fr c (prV3Publish c x) := by
  unfold prV3Publish; fr_handler

theorem fr_prV5PublishAlias (c : C) (p : Pkt) : Fr c (prV5PublishAlias c p).1 := by
  unfold prV5PublishAlias; fr_handler

theorem fr_prPubrel (c : C) (x : Except Nat Pkt) : Fr c (prPubrel c x) := by
  unfold prPubrel; fr_handler
theorem fr_prPlain (c : C) (x : Except Nat Pkt) : Fr c (prPlain c x) := by
  unfold prPlain; fr_handler
theorem fr_prSubUnsuback (c : C) (b : Bool) (x : Except Nat Pkt) : Fr c (prSubUnsuback c b x) := by
  unfold prSubUnsuback; fr_handler
theorem fr_prPingreq (c : C) (x : Except Nat Pkt) : Fr c (prPingreq c x) := by
  unfold prPingreq; fr_handler
theorem fr_prPingresp (c : C) (x : Except Nat Pkt) : Fr c (prPingresp c x) := by
  unfold prPingresp; fr_handler
theorem fr_prDisconnect (c : C) (x : Except Nat Pkt) : Fr c (prDisconnect c x) := by
  unfold prDisconnect; fr_handler

end MqttVerif.Conn.Pend
