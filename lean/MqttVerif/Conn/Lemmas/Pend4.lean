import MqttVerif.Conn.Lemmas.Pend3
/-!
# C08 helper — the ghost `pend` against the model: `send_stored`, CONNECT / CONNACK, `send`
-/
set_option linter.unusedSimpArgs false
set_option linter.unusedVariables false
namespace MqttVerif.Conn.Pend
open MqttVerif MqttVerif.Conn

/-! ## `send_stored` -/

/-- the context after an oversize stored packet was dropped -/
def dropCtx (c : C) (id : Nat) : C :=
  releaseIfUsed { c with s := { c.s with puback := del id c.s.puback, pubrec := del id c.s.pubrec, pubcomp := del id c.s.pubcomp } } id

/-- the context after a stored packet was requested again -/
def keepCtx (c : C) (p : Pkt) : C :=
  (if c.s.sendMax.isSome then
      (if c.s.sendCount ≥ 4294967295 then c.setPanic "core.rs:send_stored:publish_send_count+=1" else c)
      |> fun c => { c with s := { c.s with sendCount := (c.s.sendCount + 1) % 4294967296 } }
    else c).push (.send p none)

theorem sendStoredLoop_cons (c : C) (id : Nat) (p : Pkt) (rest : List (Nat × Pkt)) :
    sendStoredLoop c ((id, p) :: rest) =
      if p.sz c.cfg.pw > c.s.mpsSend then sendStoredLoop (dropCtx c id) rest
      else ((sendStoredLoop (keepCtx c p) rest).1, (id, p) :: (sendStoredLoop (keepCtx c p) rest).2) := by
  rw [sendStoredLoop]; rfl

theorem releaseIfUsed_st (c : C) (id : Nat) :
    (releaseIfUsed c id).s.status = c.s.status ∧ W (releaseIfUsed c id) = W c := by
  unfold releaseIfUsed releaseId
  (repeat' (first | split | (simp only []; split))) <;> exact ⟨rfl, rfl⟩

theorem dropCtx_st (c : C) (id : Nat) :
    (dropCtx c id).s.status = c.s.status ∧ (dropCtx c id).s.ver = c.s.ver ∧ (dropCtx c id).s.store = c.s.store ∧
    (dropCtx c id).s.puback = del id c.s.puback ∧ (dropCtx c id).s.pubrec = del id c.s.pubrec ∧
    (dropCtx c id).s.pubcomp = del id c.s.pubcomp := by
  obtain ⟨h1, h2⟩ := releaseIfUsed_st { c with s := { c.s with puback := del id c.s.puback, pubrec := del id c.s.pubrec, pubcomp := del id c.s.pubcomp } } id
  simp only [W, Prod.mk.injEq] at h2
  exact ⟨h1, h2.2.2.2.2, h2.2.2.2.1, h2.1, h2.2.1, h2.2.2.1⟩

theorem dropCtx_gh (c : C) (id : Nat) (g : Gh) : pendStep g (dropCtx c id).ev ⊆ pendStep g c.ev :=
  (fr_releaseIfUsed { c with s := { c.s with puback := del id c.s.puback, pubrec := del id c.s.pubrec, pubcomp := del id c.s.pubcomp } } id).gh g

theorem keepCtx_st (c : C) (p : Pkt) :
    (keepCtx c p).s.status = c.s.status ∧ W (keepCtx c p) = W c := by
  unfold keepCtx
  (repeat' (first | split | (simp only []; split))) <;> exact ⟨rfl, rfl⟩

theorem keepCtx_ev (c : C) (p : Pkt) : (keepCtx c p).ev = c.ev ++ [.send p none] := by
  unfold keepCtx
  (repeat' (first | split | (simp only []; split))) <;> rfl

theorem waitOf_W {c c' : C} (h : W c' = W c) (k : Kind) : waitOf c'.s k = waitOf c.s k := by
  simp only [W, Prod.mk.injEq] at h
  exact waitOf_congr h.1 h.2.1 h.2.2.1 k

theorem waitOf_dropCtx {c : C} {id i : Nat} {k : Kind} (hi : i ≠ id) (h : i ∈ waitOf c.s k) : i ∈ waitOf (dropCtx c id).s k := by
  obtain ⟨_, _, _, e1, e2, e3⟩ := dropCtx_st c id
  cases k <;> simp only [waitOf, e1, e2, e3] at h ⊢ <;> exact mem_del.2 ⟨h, hi⟩

/-- the loop keeps status, version and the `store` field; it keeps a sublist of the entries; only
    the keys of dropped entries leave the wait sets -/
theorem loop_frame : ∀ (l : List (Nat × Pkt)) (c : C),
    (sendStoredLoop c l).1.s.status = c.s.status ∧ (sendStoredLoop c l).1.s.ver = c.s.ver ∧
    (sendStoredLoop c l).1.s.store = c.s.store ∧ (sendStoredLoop c l).2.Sublist l ∧
    ∀ i k, i ∉ l.map (·.1) → i ∈ waitOf c.s k → i ∈ waitOf (sendStoredLoop c l).1.s k := by
  intro l
  induction l with
  | nil => intro c; exact ⟨rfl, rfl, rfl, List.Sublist.refl _, fun _ _ _ h => h⟩
  | cons x rest ih =>
    intro c
    obtain ⟨id, p⟩ := x
    rw [sendStoredLoop_cons]
    split
    · obtain ⟨a1, a2, a3, a4, a5⟩ := ih (dropCtx c id)
      obtain ⟨b1, b2, b3, _⟩ := dropCtx_st c id
      refine ⟨a1.trans b1, a2.trans b2, a3.trans b3, a4.cons _, ?_⟩
      intro i k hi hm
      simp only [List.map_cons, List.mem_cons, not_or] at hi
      exact a5 i k hi.2 (waitOf_dropCtx hi.1 hm)
    · obtain ⟨a1, a2, a3, a4, a5⟩ := ih (keepCtx c p)
      obtain ⟨b1, b2⟩ := keepCtx_st c p
      have b2' := b2
      simp only [W, Prod.mk.injEq] at b2'
      refine ⟨a1.trans b1, a2.trans b2'.2.2.2.2, a3.trans b2'.2.2.2.1, a4.cons_cons _, ?_⟩
      intro i k hi hm
      simp only [List.map_cons, List.mem_cons, not_or] at hi
      exact a5 i k hi.2 (by rw [waitOf_W b2]; exact hm)

/-- the ghost through the loop.  `habs`: no ghost entry carries the key of an entry still to be
    processed — the loop is entered with an empty ghost, and the keys are pairwise distinct — so a
    dropped entry whose identifier is not in use (no `NotifyPacketIdReleased`) leaves no ghost
    entry behind. -/
theorem loop_ghost (g : Gh) : ∀ (l : List (Nat × Pkt)) (c : C), c.s.status = .connected →
    PendAgree c.s (pendStep g c.ev) → (l.map (·.1)).Nodup →
    (∀ x ∈ l, (x.2.kind = .publish ∨ x.2.kind = .pubrel) → x.2.pid.getD 0 = x.1 ∧ x.1 ∈ waitOf c.s (respOf x.2)) →
    (∀ x ∈ l, ∀ n, (x.1, n) ∉ pendStep g c.ev) →
    PendAgree (sendStoredLoop c l).1.s (pendStep g (sendStoredLoop c l).1.ev) ∧
      ∀ x ∈ (sendStoredLoop c l).2, (x.2.kind = .publish ∨ x.2.kind = .pubrel) →
        x.1 ∈ waitOf (sendStoredLoop c l).1.s (respOf x.2) := by
  intro l
  induction l with
  | nil => intro c _ h _ _ _; exact ⟨h, by simp [sendStoredLoop]⟩
  | cons x rest ih =>
    intro c hst ha hnd hent habs
    obtain ⟨id, p⟩ := x
    simp only [List.map_cons, List.nodup_cons, List.mem_map, not_exists, not_and] at hnd
    have hne : ∀ y ∈ rest, y.1 ≠ id := fun y hy e => hnd.1 y hy e
    have habs0 : ∀ n, (id, n) ∉ pendStep g c.ev := habs (id, p) (by simp)
    rw [sendStoredLoop_cons]
    split
    · obtain ⟨b1, b2, b3, e1, e2, e3⟩ := dropCtx_st c id
      have hsub := dropCtx_gh c id g
      refine ih (dropCtx c id) (b1.trans hst) ?_ hnd.2 ?_ ?_
      · intro i
        rw [e1, e2, e3]
        refine ⟨fun hx => ?_, fun hx => ?_, fun hx => ?_⟩ <;>
          (have hx' := hsub hx
           have hi : i ≠ id := fun e => habs0 _ (e ▸ hx'))
        · exact mem_del.2 ⟨(ha i).1 hx', hi⟩
        · exact mem_del.2 ⟨(ha i).2.1 hx', hi⟩
        · exact mem_del.2 ⟨(ha i).2.2 hx', hi⟩
      · intro y hy hky
        obtain ⟨y1, y2⟩ := hent y (by simp [hy]) hky
        exact ⟨y1, waitOf_dropCtx (hne y hy) y2⟩
      · intro y hy n hm
        exact habs y (by simp [hy]) n (hsub hm)
    · obtain ⟨b1, b2⟩ := keepCtx_st c p
      have b2' := b2
      simp only [W, Prod.mk.injEq] at b2'
      have hpp := hent (id, p) (by simp)
      simp only at hpp
      have hev : pendStep g (keepCtx c p).ev = addP p (pendStep g c.ev) := by rw [keepCtx_ev]; simp
      have hmem : ∀ x ∈ addP p (pendStep g c.ev), x ∈ pendStep g c.ev ∨
          ∃ n, nibOf p = some n ∧ x = (id, n) ∧ id ∈ waitOf c.s (respOf p) := by
        intro x hx
        rcases mask_addP_sub none p _ x hx with h1 | ⟨n, hn, e⟩
        · exact .inl h1
        · obtain ⟨hp1, hp2⟩ := hpp (proper_of_nibOf hn)
          exact .inr ⟨n, hn, by rw [← hp1]; exact e, hp2⟩
      have key := ih (keepCtx c p) (b1.trans hst) ?_ hnd.2 ?_ ?_
      · refine ⟨key.1, ?_⟩
        intro y hy hky
        simp only [List.mem_cons] at hy
        rcases hy with rfl | hy
        · refine (loop_frame rest (keepCtx c p)).2.2.2.2 id _ ?_ (by rw [waitOf_W b2]; exact (hpp hky).2)
          simp only [List.mem_map, not_exists, not_and]
          exact fun y hy e => hnd.1 y hy e
        · exact key.2 y hy hky
      · rw [hev]
        intro i
        rw [b2'.1, b2'.2.1, b2'.2.2.1]
        refine ⟨fun hx => ?_, fun hx => ?_, fun hx => ?_⟩ <;> rcases hmem _ hx with hx | ⟨n, hn, e, hp2⟩
        · exact (ha i).1 hx
        · simp only [Prod.mk.injEq] at e; obtain ⟨rfl, rfl⟩ := e
          have := waitN_respOf hn c.s; simp only [waitN] at this; rw [this]; exact hp2
        · exact (ha i).2.1 hx
        · simp only [Prod.mk.injEq] at e; obtain ⟨rfl, rfl⟩ := e
          have := waitN_respOf hn c.s; simp only [waitN] at this; rw [this]; exact hp2
        · exact (ha i).2.2 hx
        · simp only [Prod.mk.injEq] at e; obtain ⟨rfl, rfl⟩ := e
          have := waitN_respOf hn c.s; simp only [waitN] at this; rw [this]; exact hp2
      · intro y hy hky
        obtain ⟨y1, y2⟩ := hent y (by simp [hy]) hky
        exact ⟨y1, by rw [waitOf_W b2]; exact y2⟩
      · intro y hy n hm
        rw [hev] at hm
        rcases hmem _ hm with hm | ⟨n', _, e, _⟩
        · exact habs y (by simp [hy]) n hm
        · simp only [Prod.mk.injEq] at e
          exact hne y hy e.1

/-- `send_stored`, entered while connected with an EMPTY ghost -/
theorem inv_sendStored {g : Gh} {c : C} (h : Inv g c) (hst : c.s.status = .connected)
    (hg : pendStep g c.ev = []) : Inv g (sendStored c) := by
  unfold sendStored
  simp only []
  have f : Fr c (if c.s.sendMax.isSome = true then ({ c with s := { c.s with sendCount := 0 } } : C) else c) := by
    split
    · exact fr_of_eq rfl rfl rfl
    · exact Fr.refl c
  have hst0 : (if c.s.sendMax.isSome = true then ({ c with s := { c.s with sendCount := 0 } } : C) else c).s.status = .connected := by
    split <;> exact hst
  have hev0 : (if c.s.sendMax.isSome = true then ({ c with s := { c.s with sendCount := 0 } } : C) else c).ev = c.ev := by
    split <;> rfl
  generalize (if c.s.sendMax.isSome = true then ({ c with s := { c.s with sendCount := 0 } } : C) else c) = c0 at f hst0 hev0
  have h0 : Inv g c0 := h.fr f
  have hg0 : pendStep g c0.ev = [] := by rw [hev0]; exact hg
  obtain ⟨a1, a2, a3, a4, a5⟩ := loop_frame c0.s.store c0
  obtain ⟨k1, k2⟩ := loop_ghost g c0.s.store c0 hst0 (by rw [hg0]; exact PendAgree.nil _) h0.store.nodup
    (fun x hx hk => ⟨(h0.store.ent x hx hk).1, (h0.store.ent x hx hk).2.2.2⟩) (fun x _ n => by rw [hg0]; simp)
  refine ⟨k1, ⟨?_, ?_⟩, ?_⟩
  · exact List.Nodup.sublist (List.Sublist.map _ a4) h0.store.nodup
  · intro x hx hk
    obtain ⟨e1, e3, e4, _⟩ := h0.store.ent x (a4.subset hx) hk
    exact ⟨e1, e3.trans a2.symm, by show (sendStoredLoop c0 c0.s.store).1.s.ver ≠ 0; rw [a2]; exact e4, k2 x hx hk⟩
  · intro hc
    have : (sendStoredLoop c0 c0.s.store).1.s.status = .connected := a1.trans hst0
    rw [show ({ (sendStoredLoop c0 c0.s.store).1 with s := { (sendStoredLoop c0 c0.s.store).1.s with store := (sendStoredLoop c0 c0.s.store).2 } } : C).s.status = (sendStoredLoop c0 c0.s.store).1.s.status from rfl, this] at hc
    cases hc

theorem sendStored_status (c : C) : (sendStored c).s.status = c.s.status := by
  unfold sendStored
  simp only []
  show (sendStoredLoop _ _).1.s.status = _
  rw [(loop_frame _ _).1]
  split <;> rfl

theorem inv_resendStored {g : Gh} {c : C} (h : Inv g c) (hst : c.s.status = .connected)
    (hg : pendStep g c.ev = []) : Inv g (resendStored c) :=
  resendStored_ind (Q := fun x => Inv g x) c (inv_sendStored h hst hg) (fun k => k.fr (fr_sendPostProcess _))


/-! ## CONNACK sent (server): resume or new session -/

/-- rebuild the invariant after the status was assigned: wait sets, store, version and ghost as in
    `c`; `hst` — the new status is not `connecting`, or the ghost is empty -/
theorem inv_of_pre {g : Gh} {c c' : C} (ha : PendAgree c.s (pendStep g c.ev)) (hs : StoreOk c.s)
    (hw : W c' = W c) (hev : pendStep g c'.ev = pendStep g c.ev)
    (hst : c'.s.status = .connecting → pendStep g c.ev = []) : Inv g c' := by
  have hw' := hw
  simp only [W, Prod.mk.injEq] at hw'
  obtain ⟨h1, h2, h3, _, _⟩ := hw'
  refine ⟨?_, hs.congr hw, ?_⟩
  · show PendAgree _ (pendStep g c'.ev)
    rw [hev]; intro id; rw [h1, h2, h3]; exact ha id
  · intro hc; show pendStep g c'.ev = []; rw [hev]; exact hst hc

/-- the tail shared by both CONNACK senders: connected, then `send_stored` or the session reset —
    entered with an empty ghost -/
theorem inv_connackTail {g : Gh} {c : C} (p : Pkt) (hs : StoreOk c.s) (hst : c.s.status = .connected)
    (hg : pendStep g c.ev = []) :
    Inv g (sendPostProcess (if p.sp then sendStored c else clearStoreRelated c)) := by
  refine InvM.fr (fr_sendPostProcess _) ?_
  split
  · exact inv_sendStored (inv_of_empty hg hs) hst hg
  · exact inv_clear hg

/-- the refusing CONNACK: sent, then disconnected and closed -/
theorem inv_connackRefuse {g : Gh} {c : C} (p : Pkt) (hn : nibOf p = none)
    (ha : PendAgree c.s (pendStep g c.ev)) (hs : StoreOk c.s) :
    Inv g ((cancelTimers { (c.push (.send p none)) with s := { (c.push (.send p none)).s with status := .disconnected } }).push .close) := by
  refine InvM.fr ((fr_cancelTimers _).trans (fr_push (fun g => List.Subset.refl _))) ?_
  exact inv_of_pre ha hs rfl (by simp [addP_none hn]) (fun h => by cases h)

theorem inv_psV3Connack {g : Gh} {c : C} (p : Pkt) (hn : nibOf p = none)
    (ha : PendAgree c.s (pendStep g c.ev)) (hs : StoreOk c.s)
    (hg : c.s.status = .connecting → p.rc = some 0 → pendStep g c.ev = []) : Inv g (psV3Connack c p) := by
  unfold psV3Connack
  split
  · rename_i hc
    exact InvM.fr (fr_err _ _) ⟨ha, hs, fun h => absurd h hc⟩
  · rename_i hc
    have hc : c.s.status = .connecting := by simpa using hc
    simp only []
    split
    · exact inv_connackRefuse p hn ha hs
    · rename_i hrc
      have hrc : p.rc = some 0 := by simpa using hrc
      exact inv_connackTail (c := { (c.push (.send p none)) with s := { (c.push (.send p none)).s with status := .connected } }) p
        (hs.congr (c := c) rfl) rfl (by simp [addP_none hn]; exact hg hc hrc)

theorem pre_fr {g : Gh} {c c' : C} (f : Fr c c') (ha : PendAgree c.s (pendStep g c.ev)) (hs : StoreOk c.s) :
    PendAgree c'.s (pendStep g c'.ev) ∧ StoreOk c'.s ∧ (pendStep g c.ev = [] → pendStep g c'.ev = []) := by
  refine ⟨?_, hs.congr f.w, ?_⟩
  · intro id
    rw [f.puback, f.pubrec, f.pubcomp]
    exact (ha.sub (f.gh g)) id
  · intro h0
    have := f.gh g
    rw [h0] at this
    exact List.eq_nil_of_subset_nil this

theorem inv_psV5Connack {g : Gh} {c : C} (p : Pkt) (hn : nibOf p = none)
    (ha : PendAgree c.s (pendStep g c.ev)) (hs : StoreOk c.s)
    (hg : c.s.status = .connecting → (p.rc = some 0 ∨ sizeOk c p = false) → pendStep g c.ev = []) :
    Inv g (psV5Connack c p) := by
  unfold psV5Connack
  split
  · rename_i hsz
    exact InvM.fr (fr_err _ _) ⟨ha, hs, fun h => hg h (.inr (by simpa using hsz))⟩
  split
  · rename_i hc
    exact InvM.fr (fr_err _ _) ⟨ha, hs, fun h => absurd h hc⟩
  · rename_i hc
    have hc : c.s.status = .connecting := by simpa using hc
    simp only []
    have f : Fr c (if p.rc = some 0 then propsFold connackSendProp c p.props else c) := by
      split
      · exact fr_propsFold _ fr_connackSendProp _ _
      · exact Fr.refl c
    obtain ⟨ha0, hs0, hg0⟩ := pre_fr (g := g) f ha hs
    generalize (if p.rc = some 0 then propsFold connackSendProp c p.props else c) = c0 at f ha0 hs0 hg0
    split
    · exact inv_connackRefuse p hn ha0 hs0
    · rename_i hrc
      have hrc : p.rc = some 0 := by simpa using hrc
      exact inv_connackTail (c := { (c0.push (.send p none)) with s := { (c0.push (.send p none)).s with status := .connected } }) p
        (hs0.congr (c := c0) rfl) rfl (by simp [addP_none hn]; exact hg0 (hg hc (.inl hrc)))

/-! ## CONNECT sent (client): a new connection — the driver empties the ghost -/

theorem mem_push_self (c : C) (e : Ev) : e ∈ (c.push e).ev := by simp

theorem connectionStart_of_mem {l : List Ev} {p : Pkt} {r : Option Nat} (hk : p.kind = .connect)
    (hm : Ev.send p r ∈ l) : (Mon.connectionStart l).isSome = true := by
  unfold Mon.connectionStart
  rw [List.findSome?_isSome_iff]
  exact ⟨_, hm, by simp [hk]⟩

theorem connectionStart_of_mem_recv {l : List Ev} {p : Pkt}
    (hk : p.kind = .connect ∨ (p.kind = .connack ∧ p.rc = some 0))
    (hm : Ev.recv p ∈ l) : (Mon.connectionStart l).isSome = true := by
  unfold Mon.connectionStart
  rw [List.findSome?_isSome_iff]
  exact ⟨_, hm, by simp [hk]⟩

theorem mem_sendPostProcess {c : C} {e : Ev} (h : e ∈ c.ev) : e ∈ (sendPostProcess c).ev := by
  rcases sendPostProcess_ev_cases c with k | ⟨ms, k⟩ <;> rw [k]
  · exact h
  · exact List.mem_append_left _ h

/-- the whole event list of the call makes the driver empty the ghost before folding -/
def Resets (evs : List Ev) : Prop := Mon.startsNewSession evs = true ∨ (Mon.connectionStart evs).isSome = true

/-- outcome of a call from context `c` (no events yet): an ordinary call keeps the invariant for
    every ghost; or the events start a connection / session — the driver folds them from the empty
    ghost — and the invariant holds for the empty ghost -/
def Good (c c' : C) : Prop :=
  (∀ g, Inv g c → Inv g c') ∨ (Resets c'.ev ∧ (StoreOk c.s → Inv [] c'))

theorem good_psV3Connect (c : C) (p : Pkt) (hk : p.kind = .connect) (hev : c.ev = []) : Good c (psV3Connect c p) := by
  unfold psV3Connect
  split
  · exact .inl (fun g h => h.fr (fr_err _ _))
  · right
    simp only []
    refine ⟨.inr (connectionStart_of_mem (r := none) hk (mem_sendPostProcess (mem_push_self _ _))), ?_⟩
    intro hs
    refine InvM.fr (fr_sendPostProcess _) (InvM.send_none ?_ p none (nibOf_kind (by simp [hk]) (by simp [hk])))
    split
    · refine InvM.fr (c := clearStoreRelated { (initConn c true) with s := { (initConn c true).s with status := .connecting, keepAliveMs := p.keepAlive * 1000 } })
        (fr_of_eq rfl rfl rfl) (inv_clear ?_)
      show pendStep [] c.ev = []; rw [hev]; rfl
    · exact inv_of_empty (by show pendStep [] c.ev = []; rw [hev]; rfl) (hs.congr (c := c) rfl)

theorem good_psV5Connect (c : C) (p : Pkt) (hk : p.kind = .connect) (hev : c.ev = []) : Good c (psV5Connect c p) := by
  unfold psV5Connect
  split
  · exact .inl (fun g h => h.fr (fr_err _ _))
  split
  · exact .inl (fun g h => h.fr (fr_err _ _))
  · right
    simp only []
    refine ⟨.inr (connectionStart_of_mem (r := none) hk (mem_sendPostProcess (mem_push_self _ _))), ?_⟩
    intro hs
    refine InvM.fr (fr_sendPostProcess _) (InvM.send_none ?_ p none (nibOf_kind (by simp [hk]) (by simp [hk])))
    refine InvM.fr (fr_propsFold _ fr_connectSendProp _ _) ?_
    split
    · exact inv_clear (by show pendStep [] c.ev = []; rw [hev]; rfl)
    · exact inv_of_empty (by show pendStep [] c.ev = []; rw [hev]; rfl) (hs.congr (c := c) rfl)

end MqttVerif.Conn.Pend
