import MqttVerif.Conn.Lemmas.Qos2
import MqttVerif.Conn.Lemmas.P7Deliver
/-!
# C07 lemmas, receiving side: per-handler summary of `handled` and the `.recv` events   (agent P7)
-/
namespace MqttVerif.Conn
open MqttVerif
set_option linter.unusedSimpArgs false

/-- the received packet starts a new session (CONNECT with clean start; CONNACK accepted without
    session present, or — v5.0 — with Session Expiry Interval 0) -/
def NewSess (t : Nat) (p : Pkt) : Prop :=
  (t = 1 ∧ p.clean = true) ∨ (t = 2 ∧ p.rc = some 0 ∧ (p.sp = false ∨ (pSEI, 0) ∈ p.props))

/-- what a receive handler for packet type `t` does to `handled` and to the `.recv` events -/
inductive Q2Sum (t : Nat) (c c' : C) (x : Except Nat Pkt) : Prop
  | quiet : recvs c'.ev = recvs c.ev → c'.s.handled = c.s.handled → Q2Sum t c c' x
  | plain (p p' : Pkt) : x = .ok p → recvs c'.ev = recvs c.ev ++ [p'] → p'.kind = p.kind → p'.qos = p.qos →
      c'.s.handled = c.s.handled → (t = 3 → p.qos ≠ 2) → Q2Sum t c c' x
  | pubrel (p : Pkt) : x = .ok p → t = 6 → recvs c'.ev = recvs c.ev ++ [p] →
      c'.s.handled = del (p.pid.getD 0) c.s.handled → Q2Sum t c c' x
  | newSess (p : Pkt) : x = .ok p → NewSess t p → recvs c'.ev = recvs c.ev ++ [p] →
      c'.s.handled = [] → Q2Sum t c c' x
  | notify (p p' : Pkt) (id : Nat) : x = .ok p → t = 3 → p.qos = 2 → p.pid = some id → id ∉ c.s.handled →
      recvs c'.ev = recvs c.ev ++ [p'] → p'.kind = p.kind → p'.qos = 2 → p'.pid = some id →
      c'.s.handled = ins id c.s.handled → Q2Sum t c c' x

theorem Q2Sum.congr {t : Nat} {c0 c c' : C} {x : Except Nat Pkt} (h : Q2Sum t c0 c' x)
    (h1 : c0.s.handled = c.s.handled) (h2 : c0.ev = c.ev) : Q2Sum t c c' x := by
  cases h with
  | quiet a b => exact .quiet (by rw [a, h2]) (by rw [b, h1])
  | plain p p' a b k q d e => exact .plain p p' a (by rw [b, h2]) k q (by rw [d, h1]) e
  | pubrel p a b d e => exact .pubrel p a b (by rw [d, h2]) (by rw [e, h1])
  | newSess p a b d e => exact .newSess p a b (by rw [d, h2]) e
  | notify p p' id a b d e f g h i j k =>
    exact .notify p p' id a b d e (by rw [← h1]; exact f) (by rw [g, h2]) h i j (by rw [k, h1])

@[simp] theorem connackRecvProp_recvs (c : C) (i v : Nat) : recvs (connackRecvProp c i v).ev = recvs c.ev := by
  frame_tac connackRecvProp
@[simp] theorem connackRecvProp_cfg (c : C) (i v : Nat) : (connackRecvProp c i v).cfg = c.cfg := by
  frame_tac connackRecvProp

theorem connackRecvProp_handled (c : C) (i v : Nat) :
    (connackRecvProp c i v).s.handled = c.s.handled ∨
    ((connackRecvProp c i v).s.handled = [] ∧ i = pSEI ∧ v = 0) := by
  simp only [connackRecvProp]
  repeat' (first | (left; frame_simp clearStoreRelated; done) | split)
  right; simp_all [clearStoreRelated]

theorem propsFold_connackRecvProp_handled (c : C) (l : List (Nat × Nat)) :
    (propsFold connackRecvProp c l).s.handled = c.s.handled ∨
    ((propsFold connackRecvProp c l).s.handled = [] ∧ (pSEI, 0) ∈ l) := by
  induction l generalizing c with
  | nil => left; rfl
  | cons a t ih =>
    obtain ⟨i, v⟩ := a
    simp only [propsFold]
    rcases ih (connackRecvProp c i v) with h | ⟨h, hm⟩
    · rcases connackRecvProp_handled c i v with h' | ⟨h', rfl, rfl⟩
      · left; rw [h, h']
      · right; exact ⟨by rw [h, h'], by simp⟩
    · right; exact ⟨h, by simp [hm]⟩

/-! ## the handlers -/

theorem prV3Connect_sum (c : C) (x : Except Nat Pkt) : Q2Sum 1 c (prV3Connect c x) x := by
  simp only [prV3Connect]
  split
  · exact .quiet (by simp) (by simp)
  · cases x with
    | error e => exact .quiet (by simp) (by simp)
    | ok p =>
      cases hc : p.clean
      · refine .plain p p rfl ?_ rfl rfl ?_ (by simp) <;>
          simp [hc, initConn, apply_ite C.s, apply_ite C.ev, apply_ite St.handled]
      · refine .newSess p rfl (.inl ⟨rfl, hc⟩) ?_ ?_ <;>
          simp [hc, initConn, clearStoreRelated, apply_ite C.s, apply_ite C.ev, apply_ite St.handled]

theorem prV5Connect_sum (c : C) (x : Except Nat Pkt) : Q2Sum 1 c (prV5Connect c x) x := by
  simp only [prV5Connect]
  split
  · exact .quiet (by simp) (by simp)
  · cases x with
    | error e => exact .quiet (by simp) (by simp)
    | ok p =>
      cases hc : p.clean
      · refine .plain p p rfl ?_ rfl rfl ?_ (by simp) <;>
          simp [hc, initConn, propsFold_recvs, propsFold_handled, apply_ite C.s, apply_ite C.ev, apply_ite St.handled]
      · refine .newSess p rfl (.inl ⟨rfl, hc⟩) ?_ ?_ <;>
          simp [hc, initConn, propsFold_recvs, propsFold_handled, clearStoreRelated, apply_ite C.s, apply_ite C.ev,
            apply_ite St.handled]

theorem prV3Connack_sum (c : C) (x : Except Nat Pkt) : Q2Sum 2 c (prV3Connack c x) x := by
  simp only [prV3Connack]
  split
  · exact .quiet (by simp) (by simp)
  · cases x with
    | error e => exact .quiet (by simp) (by simp)
    | ok p =>
      by_cases hr : p.rc = some 0
      · cases hs : p.sp
        · refine .newSess p rfl (.inr ⟨rfl, hr, .inl hs⟩) ?_ ?_ <;> simp [hr, hs, clearStoreRelated]
        · refine .plain p p rfl ?_ rfl rfl ?_ (by simp) <;> simp [hr, hs]
      · refine .plain p p rfl ?_ rfl rfl ?_ (by simp) <;> simp [hr]

theorem prV5Connack_sum (c : C) (x : Except Nat Pkt) : Q2Sum 2 c (prV5Connack c x) x := by
  simp only [prV5Connack]
  split
  · exact .quiet (by simp) (by simp)
  · cases x with
    | error e => refine .quiet ?_ ?_ <;> simp [apply_ite C.s, apply_ite C.ev, apply_ite St.handled, apply_ite recvs]
    | ok p =>
      by_cases hr : p.rc = some 0
      · cases hs : p.sp
        · refine .newSess p rfl (.inr ⟨rfl, hr, .inl hs⟩) ?_ ?_ <;>
            simp [hr, hs, clearStoreRelated, propsFold_recvs]
        · rcases propsFold_connackRecvProp_handled { c with s := { c.s with status := .connected } } p.props
            with h | ⟨h, hm⟩
          · refine .plain p p rfl ?_ rfl rfl ?_ (by simp)
            · simp [hr, hs, propsFold_recvs]
            · simpa [hr, hs] using h
          · refine .newSess p rfl (.inr ⟨rfl, hr, .inr hm⟩) ?_ ?_
            · simp [hr, hs, propsFold_recvs]
            · simpa [hr, hs] using h
      · refine .plain p p rfl ?_ rfl rfl ?_ (by simp) <;> simp [hr]


theorem prV3Publish_sum (c : C) (x : Except Nat Pkt) (hq : ∀ p, x = .ok p → p.qos ≤ 2) :
    Q2Sum 3 c (prV3Publish c x) x := by
  cases x with
  | error e => exact .quiet (by simp [prV3Publish]) (by simp [prV3Publish])
  | ok p =>
    have hq := hq p rfl
    simp only [prV3Publish]
    split
    · rename_i h0
      refine .plain p p rfl ?_ rfl rfl ?_ (by omega) <;> simp
    · split
      · exact .quiet (by simp) (by simp [C.setPanic])
      · rename_i id hid
        split
        · rename_i h1
          refine .plain p p rfl ?_ rfl rfl ?_ (by omega) <;>
            simp [apply_ite C.s, apply_ite C.ev, apply_ite St.handled, apply_ite recvs, C.setPanic]
        · have h2 : p.qos = 2 := by omega
          by_cases ha : id ∈ c.s.handled
          · refine .quiet ?_ ?_ <;>
              simp [ha, ins, apply_ite C.s, apply_ite C.ev, apply_ite St.handled, apply_ite recvs, C.setPanic]
          · refine .notify p p id rfl rfl h2 hid ha ?_ rfl h2 hid ?_ <;>
              simp [ha, apply_ite C.s, apply_ite C.ev, apply_ite St.handled, apply_ite recvs, C.setPanic]

/-- the packet that leaves the alias stage of `process_recv_v5_0_publish` is the received one,
    with the topic taken from the alias table when it came with an empty topic -/
theorem prV5PublishAlias_some {c : C} {p p' : Pkt} (h : (prV5PublishAlias c p).2 = some p') :
    p' = p ∨ (p.topic = [] ∧ ∃ a t topic, p.alias = some a ∧ c.s.tar = some t ∧ t.get a = some topic ∧
      p' = { p with topic := topic, extracted := true }) := by
  simp only [prV5PublishAlias] at h
  repeat' split at h
  all_goals simp_all
  all_goals (try (subst h; simp_all))

theorem prV5PublishAlias_some_fields {c : C} {p p' : Pkt} (h : (prV5PublishAlias c p).2 = some p') :
    p'.kind = p.kind ∧ p'.qos = p.qos ∧ p'.pid = p.pid := by
  rcases prV5PublishAlias_some h with rfl | ⟨_, a, t, topic, _, _, _, rfl⟩ <;> simp


theorem psV5Pubrec_mkAck_handled (c : C) (id : Nat) :
    (psV5Pubrec c (mkAck c.cfg 5 .pubrec id)).s.handled = c.s.handled := by
  rw [psV5Pubrec_handled_eq]; simp [mkAck]

/-! ### `prV5Publish` in stages (definitionally equal to the model function) -/

/-- automatic / duplicate acknowledgements and the timer refresh -/
def prV5PublishAcks (c : C) (p : Pkt) (id : Nat) (already : Prop) [Decidable already] : C :=
  let pubackSend := p.qos = 1 ∧ c.s.autoPub ∧ c.s.status = .connected
  let pubrecSend := p.qos = 2 ∧ c.s.status = .connected ∧ (c.s.autoPub ∨ already)
  let c := if pubackSend then
      (if id = 0 then c.setPanic "core.rs:process_recv_v5_0_publish:puback.build().unwrap()" else c)
      |> fun c => psV5Puback c (mkAck c.cfg 5 .puback id)
    else c
  let c := if pubrecSend then
      (if id = 0 then c.setPanic "core.rs:process_recv_v5_0_publish:pubrec.build().unwrap()" else c)
      |> fun c => psV5Pubrec c (mkAck c.cfg 5 .pubrec id)
    else c
  refreshPingreqRecv c

/-- flow-control and duplicate bookkeeping, acknowledgements, notification -/
def prV5PublishMain (c : C) (p p' : Pkt) : C :=
  let id := p.pid.getD 0
  let already := p.qos = 2 ∧ id ∈ c.s.handled
  let c1 := if p.qos > 0 then { c with s := { c.s with publishRecv := ins id c.s.publishRecv } } else c
  let c2 := if p.qos = 2 then { c1 with s := { c1.s with handled := ins id c1.s.handled } } else c1
  let c3 := prV5PublishAcks c2 p id already
  if !already then c3.push (.recv p') else c3

def rmExceeded (c : C) : Bool := match c.s.recvMax with
  | some m => decide (c.s.publishRecv.length ≥ m)
  | none => false

theorem prV5Publish_ok (c : C) (p : Pkt) :
    prV5Publish c (.ok p) =
      match (prV5PublishAlias c p).2 with
      | none => (prV5PublishAlias c p).1
      | some p' =>
        let c := (prV5PublishAlias c p).1
        if p.qos > 0 ∧ p.pid.isNone then c.setPanic "core.rs:process_recv_v5_0_publish:packet_id().unwrap()"
        else if p.qos > 0 ∧ rmExceeded c then handleV5Error c eRMExceeded
        else prV5PublishMain c p p' := rfl

@[simp] theorem prV5PublishAcks_handled (c : C) (p : Pkt) (id : Nat) (a : Prop) [Decidable a] :
    (prV5PublishAcks c p id a).s.handled = c.s.handled := by
  simp [prV5PublishAcks, psV5Pubrec_handled_eq, mkAck, apply_ite C.s, apply_ite St.handled, C.setPanic]
@[simp] theorem prV5PublishAcks_recvs (c : C) (p : Pkt) (id : Nat) (a : Prop) [Decidable a] :
    recvs (prV5PublishAcks c p id a).ev = recvs c.ev := by
  simp [prV5PublishAcks, apply_ite C.ev, apply_ite recvs, C.setPanic]

theorem prV5Publish_sum (c : C) (x : Except Nat Pkt) : Q2Sum 3 c (prV5Publish c x) x := by
  cases x with
  | error e =>
    refine .quiet ?_ ?_ <;> simp [prV5Publish, apply_ite C.s, apply_ite C.ev, apply_ite St.handled, apply_ite recvs]
  | ok p =>
    rw [prV5Publish_ok]
    split
    · exact .quiet (by simp) (by simp)
    · rename_i p' hp'
      obtain ⟨hk, hqq, hpid⟩ := prV5PublishAlias_some_fields hp'
      simp only []
      split
      · exact .quiet (by simp [C.setPanic]) (by simp [C.setPanic])
      · rename_i h1
        split
        · exact .quiet (by simp) (by simp)
        · by_cases h2 : p.qos = 2
          · have hpos : p.qos > 0 := by omega
            cases hid : p.pid with
            | none => simp [hid, hpos] at h1
            | some id =>
              by_cases ha : id ∈ c.s.handled
              · refine .quiet ?_ ?_ <;> simp [prV5PublishMain, h2, ha, hid, ins]
              · refine .notify p p' id rfl rfl h2 hid ha ?_ hk (by omega) (by rw [hpid, hid]) ?_ <;>
                  simp [prV5PublishMain, h2, ha, hid]
          · refine .plain p p' rfl ?_ hk hqq ?_ (fun _ => h2) <;>
              simp [prV5PublishMain, h2, apply_ite C.s, apply_ite C.ev, apply_ite St.handled, apply_ite recvs]


/-! ### acknowledgements and the rest -/

theorem prPuback_sum (t : Nat) (ht : t ≠ 3) (c : C) (x : Except Nat Pkt) : Q2Sum t c (prPuback c x) x := by
  cases x with
  | error e => exact .quiet (by simp [prPuback]) (by simp [prPuback])
  | ok p =>
    simp only [prPuback]
    split
    · refine .plain p p rfl ?_ rfl rfl ?_ (by simp [ht]) <;>
        simp [apply_ite C.s, apply_ite C.ev, apply_ite St.handled, apply_ite recvs]
    · exact .quiet (by simp) (by simp)

theorem prPubcomp_sum (t : Nat) (ht : t ≠ 3) (c : C) (x : Except Nat Pkt) : Q2Sum t c (prPubcomp c x) x := by
  cases x with
  | error e => exact .quiet (by simp [prPubcomp]) (by simp [prPubcomp])
  | ok p =>
    simp only [prPubcomp]
    split
    · refine .plain p p rfl ?_ rfl rfl ?_ (by simp [ht]) <;>
        simp [apply_ite C.s, apply_ite C.ev, apply_ite St.handled, apply_ite recvs]
    · exact .quiet (by simp) (by simp)

theorem prPubrec_sum (t : Nat) (ht : t ≠ 3) (c : C) (x : Except Nat Pkt) : Q2Sum t c (prPubrec c x) x := by
  cases x with
  | error e => exact .quiet (by simp [prPubrec]) (by simp [prPubrec])
  | ok p =>
    simp only [prPubrec]
    split
    · refine .plain p p rfl ?_ rfl rfl ?_ (by simp [ht]) <;>
        simp [apply_ite C.s, apply_ite C.ev, apply_ite St.handled, apply_ite recvs]
    · exact .quiet (by simp) (by simp)

theorem prPubrel_sum (c : C) (x : Except Nat Pkt) : Q2Sum 6 c (prPubrel c x) x := by
  cases x with
  | error e => exact .quiet (by simp [prPubrel]) (by simp [prPubrel])
  | ok p =>
    simp only [prPubrel]
    refine .pubrel p rfl rfl ?_ ?_ <;>
      simp [apply_ite C.s, apply_ite C.ev, apply_ite St.handled, apply_ite recvs]

theorem prPlain_sum (t : Nat) (ht : t ≠ 3) (c : C) (x : Except Nat Pkt) : Q2Sum t c (prPlain c x) x := by
  cases x with
  | error e => exact .quiet (by simp [prPlain]) (by simp [prPlain])
  | ok p => refine .plain p p rfl ?_ rfl rfl ?_ (by simp [ht]) <;> simp [prPlain]

theorem prSubUnsuback_sum (t : Nat) (ht : t ≠ 3) (c : C) (b : Bool) (x : Except Nat Pkt) :
    Q2Sum t c (prSubUnsuback c b x) x := by
  cases x with
  | error e => exact .quiet (by simp [prSubUnsuback]) (by simp [prSubUnsuback])
  | ok p =>
    by_cases hm : p.pid.getD 0 ∈ (if b then c.s.suback else c.s.unsuback)
    · refine .plain p p rfl ?_ rfl rfl ?_ (by simp [ht]) <;>
        simp [prSubUnsuback, hm, apply_ite C.s, apply_ite C.ev, apply_ite St.handled, apply_ite recvs]
    · refine .quiet ?_ ?_ <;> simp [prSubUnsuback, hm]

theorem prPingreq_sum (t : Nat) (ht : t ≠ 3) (c : C) (x : Except Nat Pkt) : Q2Sum t c (prPingreq c x) x := by
  cases x with
  | error e => exact .quiet (by simp [prPingreq]) (by simp [prPingreq])
  | ok p =>
    refine .plain p p rfl ?_ rfl rfl ?_ (by simp [ht]) <;>
      simp [prPingreq, apply_ite C.s, apply_ite C.ev, apply_ite St.handled, apply_ite recvs]

theorem prPingresp_sum (t : Nat) (ht : t ≠ 3) (c : C) (x : Except Nat Pkt) : Q2Sum t c (prPingresp c x) x := by
  cases x with
  | error e => exact .quiet (by simp [prPingresp]) (by simp [prPingresp])
  | ok p =>
    refine .plain p p rfl ?_ rfl rfl ?_ (by simp [ht]) <;>
      simp [prPingresp, apply_ite C.s, apply_ite C.ev, apply_ite St.handled, apply_ite recvs]

theorem prDisconnect_sum (t : Nat) (ht : t ≠ 3) (c : C) (x : Except Nat Pkt) : Q2Sum t c (prDisconnect c x) x := by
  cases x with
  | error e => exact .quiet (by simp [prDisconnect]) (by simp [prDisconnect])
  | ok p => refine .plain p p rfl ?_ rfl rfl ?_ (by simp [ht]) <;> simp [prDisconnect]

theorem dispatchRecv_sum (c : C) (t : Nat) (x : Except Nat Pkt) (hq : ∀ p, x = .ok p → p.qos ≤ 2) :
    Q2Sum t c (dispatchRecv c t x) x := by
  unfold dispatchRecv
  split
  · split; exact prV3Connect_sum c x; exact prV5Connect_sum c x
  · split; exact prV3Connack_sum c x; exact prV5Connack_sum c x
  · split; exact prV3Publish_sum c x hq; exact prV5Publish_sum c x
  · exact prPuback_sum _ (by decide) c x
  · exact prPubrec_sum _ (by decide) c x
  · exact prPubrel_sum c x
  · exact prPubcomp_sum _ (by decide) c x
  · exact prPlain_sum _ (by decide) c x
  · exact prSubUnsuback_sum _ (by decide) c true x
  · exact prPlain_sum _ (by decide) c x
  · exact prSubUnsuback_sum _ (by decide) c false x
  · exact prPingreq_sum _ (by decide) c x
  · exact prPingresp_sum _ (by decide) c x
  · exact prDisconnect_sum _ (by decide) c x
  · split
    · exact prPlain_sum _ (by decide) c x
    · exact .quiet (by simp) (by simp)
  · exact .quiet (by simp) (by simp)


/-! ### `process_recv_packet`, `recv` -/

theorem processRecvPacket_sum (c : C) (fh : Nat) (data : List Nat) (parse : Nat → Except Nat Pkt)
    (hq : ∀ v p, parse v = .ok p → p.qos ≤ 2) :
    ∃ v, Q2Sum (fh / 16) c (processRecvPacket c fh data parse) (parse v) := by
  simp only [processRecvPacket]
  split
  · exact ⟨0, .quiet (by simp) (by simp)⟩
  · split
    · exact ⟨0, .quiet (by simp) (by simp)⟩
    · split
      · split
        · rename_i ht
          split
          · exact ⟨0, .quiet (by simp) (by simp)⟩
          · split
            · exact ⟨4, ht ▸ (prV3Connect_sum _ _).congr rfl rfl⟩
            · split
              · exact ⟨5, ht ▸ (prV5Connect_sum _ _).congr rfl rfl⟩
              · exact ⟨0, .quiet (by simp) (by simp)⟩
        · exact ⟨0, .quiet (by simp) (by simp)⟩
      · exact ⟨c.s.ver, dispatchRecv_sum c _ _ (hq _)⟩

theorem recv_sum (c : C) (inp : List Nat) (parse : Nat → Nat → List Nat → Except Nat Pkt)
    (hq : ∀ v fh d p, parse v fh d = .ok p → p.qos ≤ 2) :
    ∃ v fh d, Q2Sum (fh / 16) c (recv c inp parse).1 (parse v fh d) := by
  simp only [recv]
  split
  · exact ⟨0, 0, [], .quiet (by simp) (by simp)⟩
  · rename_i fh data _
    obtain ⟨v, h⟩ := processRecvPacket_sum { c with s := { c.s with pb := (Framing.feed c.s.pb inp).1 } } fh data
      (fun v => parse v fh data) (fun v p => hq v fh data p)
    exact ⟨v, fh, data, h.congr rfl rfl⟩
  · exact ⟨0, 0, [], .quiet (by simp) (by simp)⟩

/-! ### `notify_closed` -/

@[simp] theorem releaseAll_needStore (c : C) (l : List Nat) : (releaseAll c l).s.needStore = c.s.needStore := by
  induction l generalizing c with
  | nil => rfl
  | cons a t ih => simp [releaseAll, ih]

theorem notifyClosed_handled (c : C) :
    (notifyClosed c).s.handled = if c.s.needStore then c.s.handled else [] := by
  simp only [notifyClosed]
  simp [apply_ite C.s, apply_ite St.handled]
  cases c.s.needStore <;> simp

@[simp] theorem notifyClosed_recvs (c : C) : recvs (notifyClosed c).ev = recvs c.ev := by
  simp only [notifyClosed]
  simp [apply_ite C.ev, apply_ite recvs]


/-! ### exact send / error events of the automatic acknowledgements -/

theorem psV3Simple_sends (c : C) (p : Pkt) :
    sends (psV3Simple c p).ev = sends c.ev ++ (if c.s.status = .connected then [p] else []) := by
  simp only [psV3Simple]; split <;> simp_all
theorem psV3Simple_errs (c : C) (p : Pkt) :
    errs (psV3Simple c p).ev = errs c.ev ++ (if c.s.status = .connected then [] else [eNotAllowed]) := by
  simp only [psV3Simple]; split <;> simp_all
theorem psV5Pubrec_sends (c : C) (p : Pkt) :
    sends (psV5Pubrec c p).ev = sends c.ev ++ (if sizeOk c p ∧ c.s.status = .connected then [p] else []) := by
  simp only [psV5Pubrec]; split <;> (try split) <;> simp_all [apply_ite C.ev, apply_ite sends]
theorem psV5Pubrec_errs (c : C) (p : Pkt) :
    errs (psV5Pubrec c p).ev = errs c.ev ++
      (if !sizeOk c p then [eTooLarge] else if c.s.status ≠ .connected then [eNotAllowed] else []) := by
  simp only [psV5Pubrec]; split <;> (try split) <;> simp_all [apply_ite C.ev, apply_ite errs]

theorem prV5PublishAlias_some_state {c : C} {p p' : Pkt} (h : (prV5PublishAlias c p).2 = some p') :
    (prV5PublishAlias c p).1 = c ∨
    ∃ t', (prV5PublishAlias c p).1 = { c with s := { c.s with tar := some t' } } := by
  simp only [prV5PublishAlias] at h ⊢
  repeat' split at h
  all_goals simp_all
  all_goals (rw [if_neg (by omega)])
  all_goals simp

end MqttVerif.Conn
