import MqttVerif.Conn.Step
import MqttVerif.Monitors
import MqttVerif.Conn.Lemmas.Resend
/-!
# C10 helper — which calls produce a "new session" event (`Mon.startsNewSession`)

`nsOf l`: the events of `l` that make the driver's monitor consider the call the start of a new
session (CONNECT with clean start sent / delivered, CONNACK(success, no session) sent /
delivered, delivered CONNACK(success) with Session Expiry Interval 0).  Frame lemmas
`nsOf (f c).ev = nsOf c.ev` for every model function that never pushes such an event; the four
CONNECT / CONNACK handlers of each direction are analysed in `Props/C10.lean`.
Own namespace: may be imported next to any other lemma chain.
-/
set_option linter.unusedSimpArgs false
set_option linter.unusedVariables false
namespace MqttVerif.Conn.NSn
open MqttVerif MqttVerif.Conn

def nsSend (p : Pkt) : Bool :=
  (p.kind = .connect ∧ p.clean) ∨ (p.kind = .connack ∧ p.rc = some 0 ∧ !p.sp)
def nsRecv (p : Pkt) : Bool :=
  (p.kind = .connect ∧ p.clean) ∨ (p.kind = .connack ∧ p.rc = some 0 ∧ (!p.sp ∨ Mon.findProp p pSEI = some 0))
def NSev : Ev → Bool
  | .send p _ => nsSend p
  | .recv p => nsRecv p
  | _ => false

def nsOf (l : List Ev) : List Ev := l.filter NSev

theorem startsNewSession_eq (l : List Ev) : Mon.startsNewSession l = l.any NSev := by
  unfold Mon.startsNewSession
  congr 1

theorem startsNewSession_iff (l : List Ev) : Mon.startsNewSession l = true ↔ nsOf l ≠ [] := by
  rw [startsNewSession_eq, nsOf]
  simp [List.filter_eq_nil_iff]

@[simp] theorem nsOf_nil : nsOf [] = [] := rfl
@[simp] theorem nsOf_append (a b : List Ev) : nsOf (a ++ b) = nsOf a ++ nsOf b := by simp [nsOf]
@[simp] theorem nsOf_cons (e : Ev) (l : List Ev) :
    nsOf (e :: l) = (if NSev e = true then [e] else []) ++ nsOf l := by
  cases h : NSev e <;> simp [nsOf, List.filter, h]
@[simp] theorem NSev_send (p : Pkt) (r : Option Nat) : NSev (.send p r) = nsSend p := rfl
@[simp] theorem NSev_recv (p : Pkt) : NSev (.recv p) = nsRecv p := rfl
@[simp] theorem NSev_error (e : Nat) : NSev (.error e) = false := rfl
@[simp] theorem NSev_close : NSev .close = false := rfl
@[simp] theorem NSev_released (id : Nat) : NSev (.released id) = false := rfl
@[simp] theorem NSev_tr (k : Timer) (ms : Nat) : NSev (.timerReset k ms) = false := rfl
@[simp] theorem NSev_tc (k : Timer) : NSev (.timerCancel k) = false := rfl

theorem nsSend_kind {p : Pkt} (h1 : p.kind ≠ .connect) (h2 : p.kind ≠ .connack) : nsSend p = false := by
  simp [nsSend, h1, h2]
theorem nsRecv_kind {p : Pkt} (h1 : p.kind ≠ .connect) (h2 : p.kind ≠ .connack) : nsRecv p = false := by
  simp [nsRecv, h1, h2]

@[simp] theorem ns_mkAck (cfg : Cfg) (v : Nat) (k : Kind) (id : Nat) (h1 : k ≠ .connect) (h2 : k ≠ .connack) :
    nsSend (mkAck cfg v k id) = false := nsSend_kind h1 h2
@[simp] theorem ns_mkV5PubcompRc (cfg : Cfg) (id rc : Nat) : nsSend (mkV5PubcompRc cfg id rc) = false := by
  simp [nsSend, mkV5PubcompRc]
@[simp] theorem ns_mkV5Disconnect (rc : Nat) : nsSend (mkV5Disconnect rc) = false := by
  simp [nsSend, mkV5Disconnect]
@[simp] theorem ns_mkPingreq (v : Nat) : nsSend (mkPingreq v) = false := by simp [nsSend, mkPingreq]
@[simp] theorem ns_mkPingresp (v : Nat) : nsSend (mkPingresp v) = false := by simp [nsSend, mkPingresp]

@[simp] theorem push_ev (c : C) (e : Ev) : (c.push e).ev = c.ev ++ [e] := rfl
@[simp] theorem push_s (c : C) (e : Ev) : (c.push e).s = c.s := rfl
@[simp] theorem err_ev (c : C) (e : Nat) : (c.err e).ev = c.ev ++ [.error e] := rfl
@[simp] theorem err_s (c : C) (e : Nat) : (c.err e).s = c.s := rfl
@[simp] theorem setPanic_ev (c : C) (x : String) : (c.setPanic x).ev = c.ev := rfl

theorem ite_ev (p : Prop) {_ : Decidable p} (a b : C) : (if p then a else b).ev = if p then a.ev else b.ev :=
  apply_ite _ _ _ _
theorem ite_nsOf (p : Prop) {_ : Decidable p} (a b : List Ev) :
    nsOf (if p then a else b) = if p then nsOf a else nsOf b := apply_ite _ _ _ _

/-- `nsOf (f c).ev = nsOf c.ev` by unfolding, pushing through `if`s -/
macro "ns_tac" : tactic =>
  `(tactic| first
      | (simp [ite_ev, ite_nsOf, apply_ite Prod.fst, apply_ite Prod.snd]; done)
      | ((repeat' (first | split | (simp only []; split))) <;> simp_all [ite_ev, ite_nsOf]; done))

@[simp] theorem ns_cancelTimers (c : C) : nsOf (cancelTimers c).ev = nsOf c.ev := by
  unfold cancelTimers; ns_tac
@[simp] theorem ns_sendPostProcess (c : C) : nsOf (sendPostProcess c).ev = nsOf c.ev := by
  rcases sendPostProcess_ev_cases c with h | ⟨ms, h⟩ <;> simp [h]
@[simp] theorem ns_refreshPingreqRecv (c : C) : nsOf (refreshPingreqRecv c).ev = nsOf c.ev := by
  unfold refreshPingreqRecv; ns_tac
@[simp] theorem ns_initConn (c : C) (b : Bool) : (initConn c b).ev = c.ev := rfl
@[simp] theorem ns_clearStoreRelated (c : C) : (clearStoreRelated c).ev = c.ev := rfl
@[simp] theorem ns_decSendCount (c : C) : (decSendCount c).ev = c.ev := by unfold decSendCount; split <;> rfl
@[simp] theorem ns_releaseId (c : C) (id : Nat) : (releaseId c id).ev = c.ev := by
  unfold releaseId; simp only []; split <;> rfl
@[simp] theorem ns_releaseIfUsed (c : C) (id : Nat) : nsOf (releaseIfUsed c id).ev = nsOf c.ev := by
  unfold releaseIfUsed; ns_tac
@[simp] theorem ns_releaseAll (l : List Nat) : ∀ c, nsOf (releaseAll c l).ev = nsOf c.ev := by
  induction l with
  | nil => intro c; rfl
  | cons x rest ih => intro c; rw [releaseAll, ih]; simp
@[simp] theorem ns_validateTopicAlias (c : C) (ao : Option Nat) : (validateTopicAlias c ao).2.ev = c.ev := by
  unfold validateTopicAlias; (repeat' split) <;> rfl
@[simp] theorem ns_storeAdd (c : C) (id : Nat) (p : Pkt) (x : String) : (storeAdd c id p x).ev = c.ev := by
  unfold storeAdd; split <;> rfl
@[simp] theorem ns_tasInsert (c : C) (t : List Nat) (a : Nat) (x : String) : (tasInsert c t a x).ev = c.ev := by
  unfold tasInsert; (repeat' split) <;> rfl
@[simp] theorem ns_autoAlias (c : C) (p : Pkt) : (autoAlias c p).1.ev = c.ev := by
  unfold autoAlias; (repeat' (first | split | (simp only []; split))) <;> simp
theorem autoAlias_kind (c : C) (p : Pkt) : (autoAlias c p).2.kind = p.kind := by
  unfold autoAlias; (repeat' (first | split | (simp only []; split))) <;> rfl
@[simp] theorem ns_connectSendProp (c : C) (id v : Nat) : (connectSendProp c id v).ev = c.ev := by
  unfold connectSendProp; (repeat' split) <;> rfl
@[simp] theorem ns_connectRecvProp (c : C) (id v : Nat) : (connectRecvProp c id v).ev = c.ev := by
  unfold connectRecvProp; (repeat' split) <;> rfl
@[simp] theorem ns_connackSendProp (c : C) (id v : Nat) : nsOf (connackSendProp c id v).ev = nsOf c.ev := by
  unfold connackSendProp; ns_tac
@[simp] theorem ns_connackRecvProp (c : C) (id v : Nat) : nsOf (connackRecvProp c id v).ev = nsOf c.ev := by
  unfold connackRecvProp; ns_tac

theorem ns_propsFold (f : C → Nat → Nat → C) (hf : ∀ c id v, nsOf (f c id v).ev = nsOf c.ev) (c : C)
    (l : List (Nat × Nat)) : nsOf (propsFold f c l).ev = nsOf c.ev := by
  induction l generalizing c with
  | nil => rfl
  | cons x rest ih => obtain ⟨i, v⟩ := x; rw [propsFold, ih, hf]
@[simp] theorem ns_fold_connectSendProp (c : C) (l : List (Nat × Nat)) :
    nsOf (propsFold connectSendProp c l).ev = nsOf c.ev := ns_propsFold _ (fun c i v => by simp) c l
@[simp] theorem ns_fold_connectRecvProp (c : C) (l : List (Nat × Nat)) :
    nsOf (propsFold connectRecvProp c l).ev = nsOf c.ev := ns_propsFold _ (fun c i v => by simp) c l
@[simp] theorem ns_fold_connackSendProp (c : C) (l : List (Nat × Nat)) :
    nsOf (propsFold connackSendProp c l).ev = nsOf c.ev := ns_propsFold _ ns_connackSendProp c l
@[simp] theorem ns_fold_connackRecvProp (c : C) (l : List (Nat × Nat)) :
    nsOf (propsFold connackRecvProp c l).ev = nsOf c.ev := ns_propsFold _ ns_connackRecvProp c l

@[simp] theorem ns_psV5Disconnect (c : C) (p : Pkt) (h : nsSend p = false) :
    nsOf (psV5Disconnect c p).ev = nsOf c.ev := by unfold psV5Disconnect; ns_tac
@[simp] theorem ns_psV3Disconnect (c : C) (p : Pkt) (h : nsSend p = false) :
    nsOf (psV3Disconnect c p).ev = nsOf c.ev := by unfold psV3Disconnect; ns_tac
@[simp] theorem ns_handleV3Error (c : C) (e : Nat) : nsOf (handleV3Error c e).ev = nsOf c.ev := by
  unfold handleV3Error; ns_tac
@[simp] theorem ns_v5DisconnectOrClose (c : C) (p : Pkt) (h : nsSend p = false) :
    nsOf (v5DisconnectOrClose c p).ev = nsOf c.ev := by unfold v5DisconnectOrClose; ns_tac
@[simp] theorem ns_handleV5Error (c : C) (e : Nat) : nsOf (handleV5Error c e).ev = nsOf c.ev := by
  unfold handleV5Error; ns_tac
@[simp] theorem ns_vErr (c : C) (e : Nat) : nsOf (vErr c e).ev = nsOf c.ev := by unfold vErr; ns_tac


/-! ## `send_stored`: the resent packets are the stored ones -/

theorem ns_sendStoredLoop (l : List (Nat × Pkt)) (hl : ∀ x ∈ l, nsSend x.2 = false) :
    ∀ c, nsOf (sendStoredLoop c l).1.ev = nsOf c.ev := by
  induction l with
  | nil => intro c; rfl
  | cons x rest ih =>
    intro c
    obtain ⟨id, p⟩ := x
    have hp : nsSend p = false := hl (id, p) (by simp)
    have ih' := ih (fun x hx => hl x (by simp [hx]))
    rw [sendStoredLoop]
    split
    · simp only []; rw [ih']; simp
    · simp only []; rw [ih']; simp [ite_ev, hp]

theorem ns_sendStored (c : C) (hl : ∀ x ∈ c.s.store, nsSend x.2 = false) :
    nsOf (sendStored c).ev = nsOf c.ev := by
  unfold sendStored
  simp only []
  rw [ns_sendStoredLoop]
  · split <;> rfl
  · split <;> exact hl

theorem ns_resendStored (c : C) (hl : ∀ x ∈ c.s.store, nsSend x.2 = false) :
    nsOf (resendStored c).ev = nsOf c.ev :=
  resendStored_ind (Q := fun x => nsOf x.ev = nsOf c.ev) c (ns_sendStored c hl)
    (fun h => by rw [ns_sendPostProcess]; exact h)

/-! ## the send side (everything but CONNECT / CONNACK) -/

@[simp] theorem ns_psV3Publish (c : C) (p : Pkt) (h : nsSend p = false) :
    nsOf (psV3Publish c p).ev = nsOf c.ev := by unfold psV3Publish; ns_tac
@[simp] theorem ns_pubRefuseCleanup (c : C) (pid : Option Nat) :
    nsOf (pubRefuseCleanup c pid).ev = nsOf c.ev := by unfold pubRefuseCleanup; ns_tac
@[simp] theorem ns_psV5PublishTail (c : C) (p : Pkt) (r : Option Nat) (h : nsSend p = false) :
    nsOf (psV5PublishTail c p r).ev = nsOf c.ev := by unfold psV5PublishTail; ns_tac
theorem ns_psV5PublishAlias (c : C) (p : Pkt) (r : Option Nat) (v : Bool) (hk : p.kind = .publish) :
    nsOf (psV5PublishAlias c p r v).ev = nsOf c.ev := by
  have h : nsSend p = false := nsSend_kind (by simp [hk]) (by simp [hk])
  have h' : nsSend (autoAlias c p).2 = false :=
    nsSend_kind (by rw [autoAlias_kind]; simp [hk]) (by rw [autoAlias_kind]; simp [hk])
  unfold psV5PublishAlias
  (repeat' (first | split | (simp only []; split))) <;> simp_all [ite_ev, ite_nsOf]
theorem ns_psV5Publish (c : C) (p : Pkt) (hk : p.kind = .publish) :
    nsOf (psV5Publish c p).ev = nsOf c.ev := by
  unfold psV5Publish
  (repeat' (first | split | (simp only []; split))) <;>
    simp_all [ite_ev, ite_nsOf, ns_psV5PublishAlias]
@[simp] theorem ns_psV3Simple (c : C) (p : Pkt) (h : nsSend p = false) :
    nsOf (psV3Simple c p).ev = nsOf c.ev := by unfold psV3Simple; ns_tac
@[simp] theorem ns_psV5Simple (c : C) (p : Pkt) (h : nsSend p = false) :
    nsOf (psV5Simple c p).ev = nsOf c.ev := by unfold psV5Simple; ns_tac
@[simp] theorem ns_psV5Puback (c : C) (p : Pkt) (h : nsSend p = false) :
    nsOf (psV5Puback c p).ev = nsOf c.ev := by unfold psV5Puback; ns_tac
@[simp] theorem ns_psV5Pubrec (c : C) (p : Pkt) (h : nsSend p = false) :
    nsOf (psV5Pubrec c p).ev = nsOf c.ev := by unfold psV5Pubrec; ns_tac
@[simp] theorem ns_psV5Pubcomp (c : C) (p : Pkt) (h : nsSend p = false) :
    nsOf (psV5Pubcomp c p).ev = nsOf c.ev := ns_psV5Puback c p h
@[simp] theorem ns_psPubrel (c : C) (p : Pkt) (h : nsSend p = false) :
    nsOf (psPubrel c p).ev = nsOf c.ev := by unfold psPubrel; ns_tac
@[simp] theorem ns_psSubUnsub (c : C) (p : Pkt) (h : nsSend p = false) :
    nsOf (psSubUnsub c p).ev = nsOf c.ev := by unfold psSubUnsub; ns_tac
@[simp] theorem ns_psPingreq (c : C) (p : Pkt) (h : nsSend p = false) :
    nsOf (psPingreq c p).ev = nsOf c.ev := by unfold psPingreq; ns_tac
@[simp] theorem ns_psV5Auth (c : C) (p : Pkt) (h : nsSend p = false) :
    nsOf (psV5Auth c p).ev = nsOf c.ev := by unfold psV5Auth; ns_tac
@[simp] theorem ns_refuseSend (c : C) (e : Nat) (p : Pkt) : nsOf (refuseSend c e p).ev = nsOf c.ev := by
  unfold refuseSend; ns_tac

/-- `process_send_*` of a packet that is neither CONNECT nor CONNACK pushes no new-session event -/
theorem ns_processSend_other (c : C) (p : Pkt) (h1 : p.kind ≠ .connect) (h2 : p.kind ≠ .connack) :
    nsOf (processSend c p).ev = nsOf c.ev := by
  have h : nsSend p = false := nsSend_kind h1 h2
  unfold processSend
  by_cases hv : p.ver = 4 <;> cases hk : p.kind <;> simp only [hv, if_true, if_false] <;>
    first
    | exact absurd hk h1
    | exact absurd hk h2
    | rfl
    | exact ns_psV5Publish c p hk
    | (simp [h]; done)

/-! ## the receive side (everything but CONNECT / CONNACK) -/

theorem ns_prV3Publish (c : C) (p : Pkt) (h : nsRecv p = false) :
    nsOf (prV3Publish c (.ok p)).ev = nsOf c.ev := by
  unfold prV3Publish
  (repeat' (first | split | (simp only []; split))) <;> simp_all [ite_ev, ite_nsOf]
theorem ns_prV3Publish_err (c : C) (e : Nat) : nsOf (prV3Publish c (.error e)).ev = nsOf c.ev := by
  simp [prV3Publish]
@[simp] theorem ns_prV5PublishAlias (c : C) (p : Pkt) : nsOf (prV5PublishAlias c p).1.ev = nsOf c.ev := by
  unfold prV5PublishAlias
  (repeat' (first | split | (simp only []; split))) <;> simp_all [ite_ev, ite_nsOf]
theorem prV5PublishAlias_kind (c : C) (p p' : Pkt) (h : (prV5PublishAlias c p).2 = some p') :
    p'.kind = p.kind := by
  unfold prV5PublishAlias at h
  simp only [] at h
  (repeat' split at h) <;> simp_all <;> (subst h; rfl)


theorem ns_prV5Publish (c : C) (x : Except Nat Pkt) (hx : ∀ p, x = .ok p → p.kind = .publish) :
    nsOf (prV5Publish c x).ev = nsOf c.ev := by
  unfold prV5Publish
  split
  · simp [ite_ev, ite_nsOf]
  · rename_i p
    have hk := hx p rfl
    have h1 := ns_prV5PublishAlias c p
    have h2 := prV5PublishAlias_kind c p
    generalize prV5PublishAlias c p = r at h1 h2 ⊢
    obtain ⟨c1, o⟩ := r
    cases o with
    | none => exact h1
    | some p' =>
      have hp' : nsRecv p' = false := nsRecv_kind (by rw [h2 p' rfl, hk]; simp) (by rw [h2 p' rfl, hk]; simp)
      simp only [] at h1 ⊢
      rw [← h1]
      first
        | (simp [ite_ev, ite_nsOf, hp']; done)
        | ((repeat' (first | split | (simp only []; split))) <;> simp [ite_ev, ite_nsOf, hp'])

/-- the acknowledgement / plain handlers: `hx` — the parsed packet is no new-session packet -/
macro "ns_recv_tac" f:ident : tactic =>
  `(tactic| (unfold $f; (repeat' (first | split | (simp only []; split))) <;> simp_all [ite_ev, ite_nsOf]))

theorem ns_prPuback (c : C) (x : Except Nat Pkt) (hx : ∀ p, x = .ok p → nsRecv p = false) :
    nsOf (prPuback c x).ev = nsOf c.ev := by ns_recv_tac prPuback
theorem ns_prPubrec (c : C) (x : Except Nat Pkt) (hx : ∀ p, x = .ok p → nsRecv p = false) :
    nsOf (prPubrec c x).ev = nsOf c.ev := by ns_recv_tac prPubrec
theorem ns_prPubrel (c : C) (x : Except Nat Pkt) (hx : ∀ p, x = .ok p → nsRecv p = false) :
    nsOf (prPubrel c x).ev = nsOf c.ev := by ns_recv_tac prPubrel
theorem ns_prPubcomp (c : C) (x : Except Nat Pkt) (hx : ∀ p, x = .ok p → nsRecv p = false) :
    nsOf (prPubcomp c x).ev = nsOf c.ev := by ns_recv_tac prPubcomp
theorem ns_prPlain (c : C) (x : Except Nat Pkt) (hx : ∀ p, x = .ok p → nsRecv p = false) :
    nsOf (prPlain c x).ev = nsOf c.ev := by ns_recv_tac prPlain
theorem ns_prSubUnsuback (c : C) (b : Bool) (x : Except Nat Pkt) (hx : ∀ p, x = .ok p → nsRecv p = false) :
    nsOf (prSubUnsuback c b x).ev = nsOf c.ev := by ns_recv_tac prSubUnsuback
theorem ns_prPingreq (c : C) (x : Except Nat Pkt) (hx : ∀ p, x = .ok p → nsRecv p = false) :
    nsOf (prPingreq c x).ev = nsOf c.ev := by ns_recv_tac prPingreq
theorem ns_prPingresp (c : C) (x : Except Nat Pkt) (hx : ∀ p, x = .ok p → nsRecv p = false) :
    nsOf (prPingresp c x).ev = nsOf c.ev := by ns_recv_tac prPingresp
theorem ns_prDisconnect (c : C) (x : Except Nat Pkt) (hx : ∀ p, x = .ok p → nsRecv p = false) :
    nsOf (prDisconnect c x).ev = nsOf c.ev := by ns_recv_tac prDisconnect
theorem ns_prV3Publish' (c : C) (x : Except Nat Pkt) (hx : ∀ p, x = .ok p → nsRecv p = false) :
    nsOf (prV3Publish c x).ev = nsOf c.ev := by
  cases x with
  | ok p => exact ns_prV3Publish c p (hx p rfl)
  | error e => exact ns_prV3Publish_err c e

/-! ## the remaining calls -/

theorem ns_notifyTimerFired (c : C) (k : Timer) : nsOf (notifyTimerFired c k).ev = nsOf c.ev := by
  unfold notifyTimerFired
  (repeat' (first | split | (simp only []; split))) <;> simp_all [ite_ev, ite_nsOf]
theorem ns_notifyClosed (c : C) : nsOf (notifyClosed c).ev = nsOf c.ev := by
  unfold notifyClosed
  simp only [ns_cancelTimers]
  split <;> simp
theorem ns_setPingreqSendInterval (c : C) (d : Option Nat) :
    nsOf (setPingreqSendInterval c d).ev = nsOf c.ev := by
  unfold setPingreqSendInterval
  (repeat' (first | split | (simp only []; split))) <;> simp_all [ite_ev, ite_nsOf]
theorem ns_eraseStoredPublish (c : C) (id : Nat) : nsOf (eraseStoredPublish c id).ev = nsOf c.ev := by
  unfold eraseStoredPublish
  (repeat' (first | split | (simp only []; split))) <;> simp_all [ite_ev, ite_nsOf]
theorem ns_restoreOne (c : C) (p : Pkt) : (restoreOne c p).ev = c.ev := by
  unfold restoreOne register
  (repeat' (first | split | (simp only []; split))) <;> rfl
theorem ns_restorePackets (ps : List Pkt) : ∀ c, (restorePackets c ps).ev = c.ev := by
  induction ps with
  | nil => intro c; rfl
  | cons p rest ih => intro c; rw [restorePackets, ih, ns_restoreOne]


/-! ## the CONNECT / CONNACK handlers: a new-session event comes with the session reset -/

/-- nothing of a session is left: store, the three QoS wait sets and the inbound QoS 2 set are
    empty and the identifier allocator is reset (`a`: the allocator before the call) -/
def Clr (a : Alloc.A) (s : St) : Prop :=
  s.store = [] ∧ s.puback = [] ∧ s.pubrec = [] ∧ s.pubcomp = [] ∧ s.handled = [] ∧ s.pidMan = Alloc.clear a

/-- the session scope -/
def Sess (s : St) : List (Nat × Pkt) × List Nat × List Nat × List Nat × List Nat × Alloc.A :=
  (s.store, s.puback, s.pubrec, s.pubcomp, s.handled, s.pidMan)

theorem Clr.of_sess {a : Alloc.A} {s s' : St} (h : Clr a s) (e : Sess s' = Sess s) : Clr a s' := by
  simp only [Sess, Prod.mk.injEq] at e
  obtain ⟨e1, e2, e3, e4, e5, e6⟩ := e
  obtain ⟨h1, h2, h3, h4, h5, h6⟩ := h
  exact ⟨e1 ▸ h1, e2 ▸ h2, e3 ▸ h3, e4 ▸ h4, e5 ▸ h5, e6 ▸ h6⟩

theorem clr_clearStoreRelated (c : C) : Clr c.s.pidMan (clearStoreRelated c).s := ⟨rfl, rfl, rfl, rfl, rfl, rfl⟩

theorem clear_clear (a : Alloc.A) : Alloc.clear (Alloc.clear a) = Alloc.clear a := rfl

theorem clr_clearStoreRelated' {a : Alloc.A} (c : C) (h : c.s.pidMan = a ∨ c.s.pidMan = Alloc.clear a) :
    Clr a (clearStoreRelated c).s := by
  refine ⟨rfl, rfl, rfl, rfl, rfl, ?_⟩
  rcases h with h | h <;> simp [clearStoreRelated, h, clear_clear]

@[simp] theorem sess_sendPostProcess (c : C) : Sess (sendPostProcess c).s = Sess c.s := by
  rcases sendPostProcess_s_cases c with h | h <;> rw [h] <;> rfl
@[simp] theorem sess_refreshPingreqRecv (c : C) : Sess (refreshPingreqRecv c).s = Sess c.s := by
  unfold refreshPingreqRecv; split <;> rfl
@[simp] theorem sess_connectSendProp (c : C) (id v : Nat) : Sess (connectSendProp c id v).s = Sess c.s := by
  unfold connectSendProp; (repeat' split) <;> rfl
@[simp] theorem sess_connackSendProp (c : C) (id v : Nat) : Sess (connackSendProp c id v).s = Sess c.s := by
  unfold connackSendProp; (repeat' (first | split | (simp only []; split))) <;> rfl
@[simp] theorem sess_connectRecvProp (c : C) (id v : Nat) : Sess (connectRecvProp c id v).s = Sess c.s := by
  unfold connectRecvProp; (repeat' split) <;> rfl
theorem sess_propsFold (f : C → Nat → Nat → C) (hf : ∀ c id v, Sess (f c id v).s = Sess c.s) (c : C)
    (l : List (Nat × Nat)) : Sess (propsFold f c l).s = Sess c.s := by
  induction l generalizing c with
  | nil => rfl
  | cons x rest ih => obtain ⟨i, v⟩ := x; rw [propsFold, ih, hf]

/-- `connackRecvProp`: the session scope is unchanged, or it is cleared (Session Expiry Interval 0) -/
theorem connackRecvProp_sess (c : C) (id v : Nat) :
    (Sess (connackRecvProp c id v).s = Sess c.s ∧ ¬ (id = pSEI ∧ v = 0)) ∨
    (id = pSEI ∧ v = 0 ∧ Clr c.s.pidMan (connackRecvProp c id v).s) := by
  unfold connackRecvProp
  (repeat' (first | split | (simp only []; split))) <;>
    first
    | (refine .inl ⟨rfl, ?_⟩; simp_all [pTAM, pRM, pMPS, pSKA, pSEI]; done)
    | (refine .inl ⟨rfl, ?_⟩; intro h; simp_all [pTAM, pRM, pMPS, pSKA, pSEI]; done)
    | (refine .inr ⟨by assumption, by assumption, ?_⟩; exact ⟨rfl, rfl, rfl, rfl, rfl, rfl⟩)

theorem clr_connackRecvProp {a : Alloc.A} (c : C) (id v : Nat) (h : Clr a c.s) :
    Clr a (connackRecvProp c id v).s := by
  rcases connackRecvProp_sess c id v with ⟨e, _⟩ | ⟨_, _, k⟩
  · exact h.of_sess e
  · obtain ⟨k1, k2, k3, k4, k5, k6⟩ := k
    exact ⟨k1, k2, k3, k4, k5, by rw [k6, h.2.2.2.2.2, clear_clear]⟩

/-- after the property list: the session scope is as before, or cleared; cleared for sure when the
    list contains Session Expiry Interval 0 -/
theorem fold_connackRecvProp_sess (l : List (Nat × Nat)) : ∀ c : C,
    (Sess (propsFold connackRecvProp c l).s = Sess c.s ∧ (pSEI, 0) ∉ l) ∨
    Clr c.s.pidMan (propsFold connackRecvProp c l).s := by
  induction l with
  | nil => intro c; exact .inl ⟨rfl, by simp⟩
  | cons x rest ih =>
    intro c
    obtain ⟨i, v⟩ := x
    rw [propsFold]
    rcases connackRecvProp_sess c i v with ⟨e, hne⟩ | ⟨h1, h2, k⟩
    · rcases ih (connackRecvProp c i v) with ⟨e', hn⟩ | k'
      · refine .inl ⟨e'.trans e, ?_⟩
        simp only [List.mem_cons, Prod.mk.injEq, not_or]
        exact ⟨fun h => hne ⟨h.1.symm, h.2.symm⟩, hn⟩
      · right
        have : (connackRecvProp c i v).s.pidMan = c.s.pidMan := by
          have := congrArg (·.2.2.2.2.2) e; exact this
        rw [← this]; exact k'
    · right
      have key : ∀ (l : List (Nat × Nat)) (c' : C), Clr c.s.pidMan c'.s →
          Clr c.s.pidMan (propsFold connackRecvProp c' l).s := by
        intro l
        induction l with
        | nil => intro c' h; exact h
        | cons y r ih2 => intro c' h; obtain ⟨j, w⟩ := y; rw [propsFold]; exact ih2 _ (clr_connackRecvProp c' j w h)
      exact key rest _ k

theorem findProp_mem {p : Pkt} {id v : Nat} (h : Mon.findProp p id = some v) : (id, v) ∈ p.props := by
  unfold Mon.findProp at h
  cases hf : p.props.find? (·.1 = id) with
  | none => simp [hf] at h
  | some x =>
    simp only [hf, Option.map_some, Option.some.injEq] at h
    have h1 := List.mem_of_find?_eq_some hf
    have h2 := List.find?_some hf
    simp only [decide_eq_true_eq] at h2
    obtain ⟨a, b⟩ := x
    simp only at h h2
    subst h h2
    exact h1

/-- `send_stored` on an empty store -/
theorem clr_sendStored {a : Alloc.A} (c : C) (h : Clr a c.s) : Clr a (sendStored c).s ∧ (sendStored c).ev = c.ev := by
  obtain ⟨h1, h2, h3, h4, h5, h6⟩ := h
  unfold sendStored
  simp only []
  have e : (if c.s.sendMax.isSome = true then ({ c with s := { c.s with sendCount := 0 } } : C) else c).s.store = [] := by
    split <;> exact h1
  rw [e]
  simp only [sendStoredLoop]
  constructor
  · split <;> exact ⟨rfl, h2, h3, h4, h5, h6⟩
  · split <;> rfl

theorem clr_resendStored {a : Alloc.A} (c : C) (h : Clr a c.s) :
    Clr a (resendStored c).s ∧ nsOf (resendStored c).ev = nsOf c.ev := by
  have k := clr_sendStored c h
  rcases resendStored_eq c with e | e <;> rw [e]
  · exact ⟨k.1, by rw [k.2]⟩
  · exact ⟨k.1.of_sess (by simp), by rw [ns_sendPostProcess, k.2]⟩

/-- outcome of a handler: no new-session event was pushed, or an error was reported, or nothing of
    the session is left -/
def R (a : Alloc.A) (c0 c' : C) : Prop :=
  nsOf c'.ev = nsOf c0.ev ∨ Mon.hasError c'.ev = true ∨ Clr a c'.s

theorem hasError_err (l : List Ev) (e : Nat) : Mon.hasError (l ++ [.error e]) = true := by
  simp [Mon.hasError]

theorem R.ns {a : Alloc.A} {c0 c' : C} (h : nsOf c'.ev = nsOf c0.ev) : R a c0 c' := .inl h
theorem R.err {a : Alloc.A} {c0 : C} (c' : C) (e : Nat) : R a c0 (c'.err e) := .inr (.inl (hasError_err _ _))
theorem R.clr {a : Alloc.A} {c0 c' : C} (h : Clr a c'.s) : R a c0 c' := .inr (.inr h)

theorem ns_of_kind_connect {p : Pkt} (hk : p.kind = .connect) (hc : p.clean = false) : nsSend p = false := by
  simp [nsSend, hk, hc]

theorem psV3Connect_R (c : C) (p : Pkt) (hk : p.kind = .connect) : R c.s.pidMan c (psV3Connect c p) := by
  unfold psV3Connect
  split
  · exact R.err _ _
  · simp only []
    cases hc : p.clean
    · refine R.ns ?_
      simp [ns_of_kind_connect hk hc]
    · refine R.clr ?_
      simp only [if_true]
      refine Clr.of_sess (s := (clearStoreRelated (initConn c true)).s) ?_ (by simp; rfl)
      exact clr_clearStoreRelated' _ (.inl rfl)

theorem psV5Connect_R (c : C) (p : Pkt) (hk : p.kind = .connect) : R c.s.pidMan c (psV5Connect c p) := by
  unfold psV5Connect
  split
  · exact R.err _ _
  split
  · exact R.err _ _
  · simp only []
    cases hc : p.clean
    · refine R.ns ?_
      simp [ns_of_kind_connect hk hc]
    · refine R.clr ?_
      simp only [if_true]
      refine Clr.of_sess (s := (clearStoreRelated (initConn c true)).s) ?_ ?_
      · exact clr_clearStoreRelated' _ (.inl rfl)
      · rw [sess_sendPostProcess, push_s, sess_propsFold _ sess_connectSendProp]; rfl

theorem connackTail_R {a : Alloc.A} (c0 c : C) (p : Pkt) (hk : p.kind = .connack) (hrc : p.rc = some 0)
    (h0 : nsOf c.ev = nsOf c0.ev ++ nsOf [.send p none]) (hpm : c.s.pidMan = a)
    (hst : ∀ x ∈ c.s.store, nsSend x.2 = false) :
    R a c0 (sendPostProcess (if p.sp then sendStored c else clearStoreRelated c)) := by
  cases hsp : p.sp
  · refine R.clr ?_
    simp only [Bool.false_eq_true, if_false]
    exact Clr.of_sess (clr_clearStoreRelated' c (.inl hpm)) (by simp)
  · refine R.ns ?_
    simp only [if_true, ns_sendPostProcess]
    rw [ns_sendStored c hst, h0]
    simp [nsSend, hk, hsp]

theorem psV3Connack_R (c : C) (p : Pkt) (hk : p.kind = .connack)
    (hst : ∀ x ∈ c.s.store, nsSend x.2 = false) : R c.s.pidMan c (psV3Connack c p) := by
  unfold psV3Connack
  split
  · exact R.err _ _
  · simp only []
    split
    · rename_i hrc
      refine R.ns ?_
      simp [nsSend, hk, hrc]
    · rename_i hrc
      have hrc' : p.rc = some 0 := by simpa using hrc
      exact connackTail_R c { (c.push (.send p none)) with s := { c.s with status := .connected } } p hk hrc'
        (by simp) rfl hst

theorem psV5Connack_R (c : C) (p : Pkt) (hk : p.kind = .connack)
    (hst : ∀ x ∈ c.s.store, nsSend x.2 = false) : R c.s.pidMan c (psV5Connack c p) := by
  unfold psV5Connack
  split
  · exact R.err _ _
  split
  · exact R.err _ _
  · simp only []
    have h1 : nsOf (if p.rc = some 0 then propsFold connackSendProp c p.props else c).ev = nsOf c.ev := by
      split <;> simp
    have h2 : Sess (if p.rc = some 0 then propsFold connackSendProp c p.props else c).s = Sess c.s := by
      split
      · exact sess_propsFold _ sess_connackSendProp _ _
      · rfl
    generalize (if p.rc = some 0 then propsFold connackSendProp c p.props else c) = c1 at h1 h2
    have hpm : c1.s.pidMan = c.s.pidMan := congrArg (·.2.2.2.2.2) h2
    have hs : c1.s.store = c.s.store := congrArg (·.1) h2
    split
    · rename_i hrc
      refine R.ns ?_
      simp [nsSend, hk, hrc, h1]
    · rename_i hrc
      have hrc' : p.rc = some 0 := by simpa using hrc
      exact connackTail_R c { (c1.push (.send p none)) with s := { c1.s with status := .connected } } p hk hrc'
        (by simp [h1]) hpm (by show ∀ x ∈ c1.s.store, _; rw [hs]; exact hst)

end MqttVerif.Conn.NSn
