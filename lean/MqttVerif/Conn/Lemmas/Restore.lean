import MqttVerif.Conn.Lemmas.Reset
/-!
# Helper lemmas: `restore_packets`, exact characterisation for EVERY packet list
-/
set_option linter.unusedSimpArgs false
set_option linter.unusedVariables false
namespace MqttVerif.Conn
open MqttVerif

/-! ## the allocator, as far as `restore_packets` uses it -/

/-- representation invariant of `pid_man` (`1 ..= MAX`, sorted / disjoint / merged pool) -/
structure PidWf (cfg : Cfg) (a : Alloc.A) : Prop where
  lo : a.lowest = 1
  hi : a.highest = cfg.idMax
  ok : Alloc.Ok 1 a.pool
  le : ∀ v, Alloc.Free a.pool v → v ≤ cfg.idMax

theorem PidWf.free_iff {cfg : Cfg} {a : Alloc.A} (h : PidWf cfg a) (v : Nat) :
    Alloc.Free a.pool v ↔ (1 ≤ v ∧ v ≤ cfg.idMax ∧ Alloc.isUsed a v = false) := by
  have h1 : Alloc.Free a.pool v → 1 ≤ v := fun hf => by
    by_cases hv : v < 1
    · exact absurd hf (Alloc.not_free_lt h.ok hv)
    · omega
  have h2 := h.le v
  simp only [Alloc.isUsed, h.lo, h.hi, Bool.and_eq_false_imp, Bool.and_eq_true, decide_eq_true_eq,
    Bool.not_eq_false', and_imp]
  constructor
  · intro hf; exact ⟨h1 hf, h2 hf, fun _ _ => hf⟩
  · intro ⟨a1, a2, a3⟩; exact a3 a1 a2

theorem PidWf.init (cfg : Cfg) (h : 1 ≤ cfg.idMax) : PidWf cfg (Alloc.new 1 cfg.idMax cfg.idMax) where
  lo := rfl
  hi := rfl
  ok := ⟨Nat.le_refl _, h, trivial⟩
  le := by intro v hv; simp [Alloc.new, Alloc.Free] at hv; omega

/-- `use_value` on a well-formed allocator: succeeds exactly for free in-range values and
    marks exactly that value used -/
theorem useValue_spec {cfg : Cfg} {a : Alloc.A} (h : PidWf cfg a) (v : Nat) :
    PidWf cfg (Alloc.useValue a v).2 ∧
    ((Alloc.useValue a v).1 = true ↔ (1 ≤ v ∧ v ≤ cfg.idMax ∧ Alloc.isUsed a v = false)) ∧
    (∀ w, Alloc.isUsed (Alloc.useValue a v).2 w = true ↔
      (Alloc.isUsed a w = true ∨ ((Alloc.useValue a v).1 = true ∧ w = v))) := by
  have hfi := h.free_iff v
  unfold Alloc.useValue
  cases hu : Alloc.useValueP v a.pool with
  | none =>
    have := Alloc.useValueP_none hu
    simp only [Bool.false_eq_true, false_and, or_false, false_iff, implies_true, and_true]
    exact ⟨h, fun hc => this (hfi.2 hc)⟩
  | some p' =>
    obtain ⟨f1, f2, f3⟩ := Alloc.useValueP_some h.ok hu
    have hv := hfi.1 f1
    refine ⟨⟨h.lo, h.hi, f3, fun w hw => h.le w ((f2 w).1 hw).1⟩, ?_, ?_⟩
    · simp only [true_iff]; exact hv
    · intro w
      simp only [Alloc.isUsed, h.lo, h.hi, f2, true_and, Bool.and_eq_true, decide_eq_true_eq,
        Bool.not_eq_true', decide_eq_false_iff_not]
      have := (h.free_iff w)
      by_cases hw : w = v
      · subst hw; simp; omega
      · simp [hw]

/-! ## `restore_packets` one packet at a time -/

/-- entries `restore_packets` ignores: QoS 0 PUBLISH -/
def restoreSkip (p : Pkt) : Bool := decide (p.kind = .publish ∧ p.qos = 0)
/-- the identifier under which an entry is restored -/
def rid (p : Pkt) : Nat := p.pid.getD 0

/-- the wait-set entry of an accepted packet -/
def waitIns (c : C) (p : Pkt) : C :=
  if p.kind = .pubrel then { c with s := { c.s with pubcomp := ins (rid p) c.s.pubcomp } }
  else if p.qos = 2 then { c with s := { c.s with pubrec := ins (rid p) c.s.pubrec } }
  else { c with s := { c.s with puback := ins (rid p) c.s.puback } }

/-- the accepted arm of `restoreOne` (the id has been registered): wait set, then the store -/
def restoreAcc (c : C) (p : Pkt) : C :=
  let c := waitIns c p
  if storeHas (rid p) c.s.store then c
  else { c with s := { c.s with store := c.s.store ++ [(rid p, p)] } }

theorem restoreOne_eq (c : C) (p : Pkt) :
    restoreOne c p = if restoreSkip p then c
      else if (register c (rid p)).1 then restoreAcc (register c (rid p)).2 p
      else (register c (rid p)).2 := by
  unfold restoreOne restoreSkip restoreAcc waitIns rid
  by_cases h : p.kind = .publish ∧ p.qos = 0
  · simp [h]
  · simp only [h, if_false, decide_false, Bool.false_eq_true]

/-- a failed `register_packet_id` changes nothing -/
theorem register_fail (c : C) (id : Nat) (h : (register c id).1 = false) : (register c id).2 = c := by
  unfold register Alloc.useValue at *
  split at h
  · rename_i hu; simp only [hu]
  · simp at h

/-- **an entry whose id cannot be registered leaves the object completely unchanged** (any
    object, no invariant needed); so does a QoS 0 PUBLISH -/
theorem restoreOne_rejected (c : C) (p : Pkt)
    (h : restoreSkip p = true ∨ (register c (rid p)).1 = false) : restoreOne c p = c := by
  rw [restoreOne_eq]
  rcases h with h | h
  · simp only [h, if_true]
  · cases hs : restoreSkip p
    · simp only [Bool.false_eq_true, if_false, h, register_fail c (rid p) h]
    · simp only [if_true]

/-- session bookkeeping invariant used by `restore_packets`: well-formed allocator, the ids
    in use are exactly the keys of the store, no key twice -/
structure RI (cfg : Cfg) (s : St) : Prop where
  wf : PidWf cfg s.pidMan
  used : ∀ x, isUsed s x = true ↔ storeHas x s.store = true
  nodup : (s.store.map (·.1)).Nodup

/-- the wait sets are exactly the ids of the stored packets, by expected response -/
structure WI (s : St) : Prop where
  pa : ∀ x, x ∈ s.puback ↔ ∃ p, (x, p) ∈ s.store ∧ respOf p = .puback
  pr : ∀ x, x ∈ s.pubrec ↔ ∃ p, (x, p) ∈ s.store ∧ respOf p = .pubrec
  pc : ∀ x, x ∈ s.pubcomp ↔ ∃ p, (x, p) ∈ s.store ∧ respOf p = .pubcomp

theorem storeHas_iff (x : Nat) (st : List (Nat × Pkt)) :
    storeHas x st = true ↔ x ∈ st.map (·.1) := by
  simp [storeHas]

theorem storeHas_append (x : Nat) (st : List (Nat × Pkt)) (y : Nat) (p : Pkt) :
    storeHas x (st ++ [(y, p)]) = true ↔ (storeHas x st = true ∨ y = x) := by
  simp [storeHas]

/-- an entry is accepted into a store `acc` (under `RI`: exactly when `register` succeeds) -/
def acceptedP (cfg : Cfg) (acc : List (Nat × Pkt)) (p : Pkt) : Prop :=
  restoreSkip p = false ∧ 1 ≤ rid p ∧ rid p ≤ cfg.idMax ∧ storeHas (rid p) acc = false

instance (cfg : Cfg) (acc : List (Nat × Pkt)) (p : Pkt) : Decidable (acceptedP cfg acc p) := by
  unfold acceptedP; infer_instance

/-- one step of the specification of the restored store -/
def specStep (cfg : Cfg) (acc : List (Nat × Pkt)) (p : Pkt) : List (Nat × Pkt) :=
  if acceptedP cfg acc p then acc ++ [(rid p, p)] else acc

/-- a state that differs from `a` at most in the session bookkeeping `restore_packets` writes -/
def RestoreFrame (a b : St) : Prop :=
  b = { a with pidMan := b.pidMan, store := b.store, puback := b.puback, pubrec := b.pubrec,
               pubcomp := b.pubcomp }

theorem RestoreFrame.refl (a : St) : RestoreFrame a a := by cases a; rfl
theorem RestoreFrame.trans {a b c : St} (h : RestoreFrame a b) (g : RestoreFrame b c) :
    RestoreFrame a c := by
  unfold RestoreFrame at *
  rw [g, h]

theorem mem_ins (x y : Nat) (l : List Nat) : x ∈ ins y l ↔ (x = y ∨ x ∈ l) := by
  unfold ins
  split
  · constructor
    · exact Or.inr
    · rintro (h | h)
      · subst h; assumption
      · exact h
  · simp

theorem waitIns_spec (c : C) (p : Pkt) :
    (waitIns c p).cfg = c.cfg ∧ (waitIns c p).ev = c.ev ∧
    (waitIns c p).s.pidMan = c.s.pidMan ∧ (waitIns c p).s.store = c.s.store ∧
    (waitIns c p).s = { c.s with puback := (waitIns c p).s.puback, pubrec := (waitIns c p).s.pubrec,
                                 pubcomp := (waitIns c p).s.pubcomp } ∧
    (∀ x, x ∈ (waitIns c p).s.puback ↔ (x ∈ c.s.puback ∨ (respOf p = .puback ∧ rid p = x))) ∧
    (∀ x, x ∈ (waitIns c p).s.pubrec ↔ (x ∈ c.s.pubrec ∨ (respOf p = .pubrec ∧ rid p = x))) ∧
    (∀ x, x ∈ (waitIns c p).s.pubcomp ↔ (x ∈ c.s.pubcomp ∨ (respOf p = .pubcomp ∧ rid p = x))) := by
  unfold waitIns respOf
  by_cases h1 : p.kind = .pubrel
  · simp only [h1, if_true, mem_ins, true_and]
    refine ⟨?_, ?_, ?_⟩ <;> (intro x; grind)
  · by_cases h2 : p.qos = 2
    · simp only [h1, h2, if_true, if_false, mem_ins, true_and]
      refine ⟨?_, ?_, ?_⟩ <;> (intro x; grind)
    · simp only [h1, h2, if_false, mem_ins, true_and]
      refine ⟨?_, ?_, ?_⟩ <;> (intro x; grind)

/-- under `RI`, `register` succeeds exactly for accepted entries -/
theorem register_iff {cfg : Cfg} {c : C} (h : RI cfg c.s) (p : Pkt) (hs : restoreSkip p = false) :
    (register c (rid p)).1 = true ↔ acceptedP cfg c.s.store p := by
  obtain ⟨_, u2, _⟩ := useValue_spec h.wf (rid p)
  have hus := h.used (rid p)
  simp only [isUsed] at hus
  show (Alloc.useValue c.s.pidMan (rid p)).1 = true ↔ _
  rw [u2]
  simp only [acceptedP, hs, true_and]
  constructor
  · rintro ⟨a1, a2, a3⟩
    refine ⟨a1, a2, ?_⟩
    cases hh : storeHas (rid p) c.s.store
    · rfl
    · rw [hus.2 hh] at a3; exact absurd a3 (by simp)
  · rintro ⟨a1, a2, a3⟩
    refine ⟨a1, a2, ?_⟩
    cases hh : Alloc.isUsed c.s.pidMan (rid p)
    · rfl
    · rw [hus.1 hh] at a3; exact absurd a3 (by simp)

theorem restoreOne_spec {cfg : Cfg} {c : C} (h : RI cfg c.s) (hw : WI c.s) (p : Pkt) :
    (restoreOne c p).cfg = c.cfg ∧ (restoreOne c p).ev = c.ev ∧ RI cfg (restoreOne c p).s ∧
    WI (restoreOne c p).s ∧
    (restoreOne c p).s.store = specStep cfg c.s.store p ∧
    RestoreFrame c.s (restoreOne c p).s ∧
    (¬ acceptedP cfg c.s.store p → restoreOne c p = c) := by
  by_cases hacc : acceptedP cfg c.s.store p
  · -- accepted: registered, entered in the wait set of its kind, appended to the store
    have hs : restoreSkip p = false := hacc.1
    have hreg := (register_iff h p hs).2 hacc
    obtain ⟨u1, u2, u3⟩ := useValue_spec h.wf (rid p)
    have hns : storeHas (rid p) c.s.store = false := hacc.2.2.2
    obtain ⟨w1, w2, w3, w4, w5, w6, w7, w8⟩ := waitIns_spec (register c (rid p)).2 p
    have hst1 : (register c (rid p)).2.s.store = c.s.store := rfl
    have hpm1 : (register c (rid p)).2.s.pidMan = (Alloc.useValue c.s.pidMan (rid p)).2 := rfl
    have heq : restoreOne c p = { waitIns (register c (rid p)).2 p with
        s := { (waitIns (register c (rid p)).2 p).s with store := c.s.store ++ [(rid p, p)] } } := by
      rw [restoreOne_eq]
      simp only [hs, Bool.false_eq_true, if_false, hreg, if_true, restoreAcc, w4, hst1, hns]
    have hreg' : (Alloc.useValue c.s.pidMan (rid p)).1 = true := hreg
    rw [heq]
    refine ⟨w1, w2, ⟨?_, ?_, ?_⟩, ⟨?_, ?_, ?_⟩, ?_, ?_, fun hn => absurd hacc hn⟩
    · show PidWf cfg (waitIns (register c (rid p)).2 p).s.pidMan
      rw [w3, hpm1]; exact u1
    · intro x
      show Alloc.isUsed (waitIns (register c (rid p)).2 p).s.pidMan x = true ↔ _
      rw [w3, hpm1, u3 x, storeHas_append]
      have := h.used x
      simp only [isUsed] at this
      rw [this]
      simp only [hreg', true_and]
      constructor
      · rintro (a | a)
        · exact Or.inl a
        · exact Or.inr a.symm
      · rintro (a | a)
        · exact Or.inl a
        · exact Or.inr a.symm
    · show ((c.s.store ++ [(rid p, p)]).map (·.1)).Nodup
      simp only [List.map_append, List.map_cons, List.map_nil]
      refine List.nodup_append.2 ⟨h.nodup, by simp, ?_⟩
      intro a ha b hb
      show a ≠ b
      simp only [List.mem_singleton] at hb
      subst hb
      intro hab; rw [hab] at ha
      have := (storeHas_iff (rid p) c.s.store).2 ha
      rw [hns] at this; exact absurd this (by simp)
    · intro x
      show x ∈ (waitIns (register c (rid p)).2 p).s.puback ↔ ∃ q, (x, q) ∈ c.s.store ++ [(rid p, p)] ∧ _
      rw [w6 x]
      have := hw.pa x
      have e : (register c (rid p)).2.s.puback = c.s.puback := rfl
      rw [e, this]
      simp only [List.mem_append, List.mem_singleton, Prod.mk.injEq]
      constructor
      · rintro (⟨q, a, b⟩ | ⟨a, b⟩)
        · exact ⟨q, Or.inl a, b⟩
        · exact ⟨p, Or.inr ⟨b.symm, rfl⟩, a⟩
      · rintro ⟨q, (a | ⟨a, b⟩), d⟩
        · exact Or.inl ⟨q, a, d⟩
        · subst b; exact Or.inr ⟨d, a.symm⟩
    · intro x
      show x ∈ (waitIns (register c (rid p)).2 p).s.pubrec ↔ ∃ q, (x, q) ∈ c.s.store ++ [(rid p, p)] ∧ _
      rw [w7 x]
      have := hw.pr x
      have e : (register c (rid p)).2.s.pubrec = c.s.pubrec := rfl
      rw [e, this]
      simp only [List.mem_append, List.mem_singleton, Prod.mk.injEq]
      constructor
      · rintro (⟨q, a, b⟩ | ⟨a, b⟩)
        · exact ⟨q, Or.inl a, b⟩
        · exact ⟨p, Or.inr ⟨b.symm, rfl⟩, a⟩
      · rintro ⟨q, (a | ⟨a, b⟩), d⟩
        · exact Or.inl ⟨q, a, d⟩
        · subst b; exact Or.inr ⟨d, a.symm⟩
    · intro x
      show x ∈ (waitIns (register c (rid p)).2 p).s.pubcomp ↔ ∃ q, (x, q) ∈ c.s.store ++ [(rid p, p)] ∧ _
      rw [w8 x]
      have := hw.pc x
      have e : (register c (rid p)).2.s.pubcomp = c.s.pubcomp := rfl
      rw [e, this]
      simp only [List.mem_append, List.mem_singleton, Prod.mk.injEq]
      constructor
      · rintro (⟨q, a, b⟩ | ⟨a, b⟩)
        · exact ⟨q, Or.inl a, b⟩
        · exact ⟨p, Or.inr ⟨b.symm, rfl⟩, a⟩
      · rintro ⟨q, (a | ⟨a, b⟩), d⟩
        · exact Or.inl ⟨q, a, d⟩
        · subst b; exact Or.inr ⟨d, a.symm⟩
    · simp only [specStep, hacc, if_true]
    · unfold RestoreFrame
      show _ = _
      rw [w5] <;> rfl
  · -- rejected: nothing changes
    have hrej : restoreOne c p = c := by
      apply restoreOne_rejected
      cases hs : restoreSkip p
      · right
        cases hr : (register c (rid p)).1
        · rfl
        · exact absurd ((register_iff h p hs).1 hr) hacc
      · left; rfl
    rw [hrej]
    refine ⟨rfl, rfl, h, hw, ?_, RestoreFrame.refl _, fun _ => rfl⟩
    simp only [specStep, hacc, if_false]

/-- **exact result of `restore_packets` for EVERY list of packets** (any ids, any kinds) -/
theorem restorePackets_spec {cfg : Cfg} (ps : List Pkt) {c : C} (h : RI cfg c.s) (hw : WI c.s) :
    (restorePackets c ps).cfg = c.cfg ∧ (restorePackets c ps).ev = c.ev ∧
    RI cfg (restorePackets c ps).s ∧ WI (restorePackets c ps).s ∧
    (restorePackets c ps).s.store = ps.foldl (specStep cfg) c.s.store ∧
    RestoreFrame c.s (restorePackets c ps).s := by
  induction ps generalizing c with
  | nil => exact ⟨rfl, rfl, h, hw, rfl, RestoreFrame.refl _⟩
  | cons p rest ih =>
    obtain ⟨o1, o2, o3, o4, o5, o6, _⟩ := restoreOne_spec h hw p
    obtain ⟨i1, i2, i3, i4, i5, i6⟩ := ih o3 o4
    simp only [restorePackets, List.foldl_cons]
    exact ⟨i1.trans o1, i2.trans o2, i3, i4, by rw [i5, o5], o6.trans i6⟩

end MqttVerif.Conn
