import MqttVerif.Conn.Lemmas.Frame
/-!
# `process_send_*`: the events pushed satisfy a lax predicate `P`

`SOk P c p`: `P` allows the sending of every packet that agrees with `p` on kind, version and
reason code and that, if it is a v5.0 packet, passed the size check in context `c`.
-/
namespace MqttVerif.Conn
open MqttVerif

def SOk (P : Ev → Prop) (c : C) (p : Pkt) : Prop :=
  ∀ q r, q.kind = p.kind → q.ver = p.ver → q.rc = p.rc → (q.ver = 5 → sizeOk c q = true) → P (.send q r)

theorem SOk.congr {P} {c c' : C} {p} (h : SOk P c p) (hf : Fr c c') : SOk P c' p := by
  intro q r h1 h2 h3 h4
  exact h q r h1 h2 h3 (fun hv => by rw [← sizeOk_congr hf]; exact h4 hv)

theorem SOk.self {P} {c : C} {p} (h : SOk P c p) (hs : p.ver = 5 → sizeOk c p = true) (r) : P (.send p r) :=
  h p r rfl rfl rfl hs

section
variable {P : Ev → Prop}

theorem psV3Connect_all (hP : Lax P) (c : C) (p : Pkt) (hs : P (.send p none)) (h : EvAll P c.ev) :
    EvAll P (psV3Connect c p).ev := by
  by_cases hc : p.clean = true <;>
    simp [psV3Connect, hc, h, hs, hP.er, sendPostProcess_all hP]

theorem psV5Connect_all (hP : Lax P) (c : C) (p : Pkt) (hs : sizeOk c p = true → P (.send p none))
    (h : EvAll P c.ev) : EvAll P (psV5Connect c p).ev := by
  have hf : ∀ c id v, EvAll P c.ev → EvAll P (connectSendProp c id v).ev := fun c id v h => by simpa using h
  by_cases hc : p.clean = true <;> by_cases hz : sizeOk c p = true <;>
    simp [psV5Connect, hc, hz, h, hs, hP.er, sendPostProcess_all hP, propsFold_all hf]

theorem psV3Publish_all (hP : Lax P) (c : C) (p : Pkt) (hs : ∀ r, P (.send p r)) (h : EvAll P c.ev) :
    EvAll P (psV3Publish c p).ev := by
  cases hpid : p.pid <;> by_cases h1 : willStore c.s = true <;> by_cases h2 : p.qos = 2 <;>
    simp [psV3Publish, hpid, h1, h2, h, hs, hP.er, sendPostProcess_all hP, releaseIfUsed_all hP]

theorem psV5PublishTail_all (hP : Lax P) (c : C) (p : Pkt) (rel) (hs : P (.send p rel)) (h : EvAll P c.ev) :
    EvAll P (psV5PublishTail c p rel).ev := by
  by_cases h1 : p.qos > 0 ∧ c.s.sendMax.isSome = true <;> by_cases h2 : c.s.sendCount ≥ 4294967295 <;>
    simp [psV5PublishTail, h1, h2, h, hs, sendPostProcess_all hP]

theorem autoAlias_kind (c : C) (p : Pkt) :
    (autoAlias c p).2.kind = p.kind ∧ (autoAlias c p).2.ver = p.ver ∧ (autoAlias c p).2.rc = p.rc := by
  unfold autoAlias
  (repeat' split) <;> simp [apply_ite Prod.snd, apply_ite Pkt.kind, apply_ite Pkt.ver, apply_ite Pkt.rc]

theorem autoAlias_sizeOk (c : C) (p : Pkt) (h : sizeOk c p = true) :
    sizeOk c (autoAlias c p).2 = true := by
  unfold autoAlias
  (repeat' split) <;> (try exact h) <;> (simp only []; split <;> simp_all)

theorem psV5PublishAlias_all (hP : Lax P) (c : C) (p : Pkt) (rel v) (hs : SOk P c p)
    (hz : sizeOk c p = true) (h : EvAll P c.ev) : EvAll P (psV5PublishAlias c p rel v).ev := by
  have hp : P (.send p rel) := hs.self (fun _ => hz) rel
  have ha : P (.send (autoAlias c p).2 rel) :=
    hs _ rel (autoAlias_kind c p).1 (autoAlias_kind c p).2.1 (autoAlias_kind c p).2.2
      (fun _ => autoAlias_sizeOk c p hz)
  unfold psV5PublishAlias
  extract_lets blocked r r2
  have hr : EvAll P r.2.ev := by cases v <;> simp [r, h]
  have hr2 : EvAll P r2.1.ev := by simp [r2, h]
  split
  · exact pubRefuseCleanup_all hP _ _ (by simp [h, hP.er])
  · split
    · split
      · exact pubRefuseCleanup_all hP _ _ (by simp [hr, hP.er])
      · exact psV5PublishTail_all hP _ _ _ hp hr
    · split
      · split
        · refine psV5PublishTail_all hP _ _ _ hp ?_
          split <;> simp [h]
        · exact pubRefuseCleanup_all hP _ _ (by simp [h, hP.er])
      · exact psV5PublishTail_all hP _ _ _ ha hr2

theorem psV5PublishAlias_all' (hP : Lax P) (c0 c : C) (p : Pkt) (rel v) (hf : Fr c0 c) (hs : SOk P c0 p)
    (hz : sizeOk c0 p = true) (h : EvAll P c.ev) : EvAll P (psV5PublishAlias c p rel v).ev :=
  psV5PublishAlias_all hP c p rel v (hs.congr hf) (by rw [sizeOk_congr hf]; exact hz) h

theorem Fr_ite' {b : Prop} [Decidable b] {c x y : C} : Fr c (if b then x else y) ↔ (b → Fr c x) ∧ (¬ b → Fr c y) := by
  split <;> simp_all

theorem psV5Publish_all (hP : Lax P) (c : C) (p : Pkt) (hs : SOk P c p) (h : EvAll P c.ev) :
    EvAll P (psV5Publish c p).ev := by
  unfold psV5Publish
  split
  · split
    · exact releaseIfUsed_all hP _ _ (by simp [h, hP.er])
    · simp [h, hP.er]
  · rename_i hz
    simp only [Bool.not_eq_true', Bool.not_eq_false] at hz
    split
    · split
      · exact h
      · split
        · exact releaseIfUsed_all hP _ _ (by simp [h, hP.er])
        · split
          · simp [h, hP.er]
          · split
            · split
              · extract_lets r c1
                have hr : EvAll P r.2.ev := by simp [r, h]
                have hfr : Fr c r.2 := validateTopicAlias_fr c _
                split
                · exact releaseIfUsed_all hP _ _ (by simp [hr, hP.er])
                · refine psV5PublishAlias_all' hP c _ p _ _ ?_ hs hz ?_
                  · simp [c1, Fr, apply_ite C.cfg, apply_ite C.s, apply_ite St.mpsSend, hfr.1, hfr.2]
                  · simp [c1, hr]
              · refine psV5PublishAlias_all' hP c _ p _ _ ?_ hs hz ?_
                · simp [Fr, apply_ite C.cfg, apply_ite C.s, apply_ite St.mpsSend]
                · simp [h]
            · refine psV5PublishAlias_all' hP c _ p _ _ ?_ hs hz ?_
              · simp [Fr, apply_ite C.cfg, apply_ite C.s, apply_ite St.mpsSend]
              · simp [h]
    · split
      · simp [h, hP.er]
      · exact psV5PublishAlias_all hP c p _ _ hs hz h


theorem psV3Simple_all (hP : Lax P) (c : C) (p : Pkt) (hs : P (.send p none)) (h : EvAll P c.ev) :
    EvAll P (psV3Simple c p).ev := by
  simp [psV3Simple, h, hs, hP.er, sendPostProcess_all hP]

theorem psV5Simple_all (hP : Lax P) (c : C) (p : Pkt) (hs : sizeOk c p = true → P (.send p none))
    (h : EvAll P c.ev) : EvAll P (psV5Simple c p).ev := by
  by_cases hz : sizeOk c p = true <;> simp [psV5Simple, hz, h, hs, hP.er, sendPostProcess_all hP]

theorem psV5Puback_all (hP : Lax P) (c : C) (p : Pkt) (hs : sizeOk c p = true → P (.send p none))
    (h : EvAll P c.ev) : EvAll P (psV5Puback c p).ev := by
  by_cases hz : sizeOk c p = true <;> simp [psV5Puback, hz, h, hs, hP.er, sendPostProcess_all hP]

theorem psV5Pubrec_all (hP : Lax P) (c : C) (p : Pkt) (hs : sizeOk c p = true → P (.send p none))
    (h : EvAll P c.ev) : EvAll P (psV5Pubrec c p).ev := by
  by_cases hz : sizeOk c p = true
  · have hp := hs hz
    cases hrc : p.rc with
    | none => simp [psV5Pubrec, hz, hrc, h, hp, hP.er, sendPostProcess_all hP]
    | some rc =>
      by_cases h128 : rc ≥ 128 <;> simp [psV5Pubrec, hz, hrc, h128, h, hp, hP.er, sendPostProcess_all hP]
  · simp [psV5Pubrec, hz, h, hP.er]

theorem psV5Pubcomp_all (hP : Lax P) (c : C) (p : Pkt) (hs : sizeOk c p = true → P (.send p none))
    (h : EvAll P c.ev) : EvAll P (psV5Pubcomp c p).ev := psV5Puback_all hP c p hs h

theorem psV5Auth_all (hP : Lax P) (c : C) (p : Pkt) (hs : sizeOk c p = true → P (.send p none))
    (h : EvAll P c.ev) : EvAll P (psV5Auth c p).ev := by
  by_cases hz : sizeOk c p = true <;> simp [psV5Auth, hz, h, hs, hP.er, sendPostProcess_all hP]

theorem psPubrel_all (hP : Lax P) (c : C) (p : Pkt) (hs : (p.ver = 5 → sizeOk c p = true) → P (.send p none))
    (h : EvAll P c.ev) : EvAll P (psPubrel c p).ev := by
  by_cases hz : p.ver = 5 ∧ sizeOk c p = false
  · simp [psPubrel, hz, h, hP.er]
  · have hp := hs (by intro hv; simpa [hv] using hz)
    by_cases hn : c.s.needStore = true <;>
      simp [psPubrel, hz, hn, h, hp, hP.er, sendPostProcess_all hP]

theorem psSubUnsub_all (hP : Lax P) (c : C) (p : Pkt) (hs : (p.ver = 5 → sizeOk c p = true) → ∀ r, P (.send p r))
    (h : EvAll P c.ev) : EvAll P (psSubUnsub c p).ev := by
  by_cases hz : p.ver = 5 ∧ sizeOk c p = false
  · simp [psSubUnsub, hz, h, hP.er, releaseIfUsed_all hP]
  · have hp := hs (by intro hv; simpa [hv] using hz)
    by_cases hk : p.kind = .subscribe <;>
      simp [psSubUnsub, hz, hk, h, hp, hP.er, sendPostProcess_all hP, releaseIfUsed_all hP]

theorem psPingreq_all (hP : Lax P) (c : C) (p : Pkt) (hs : (p.ver = 5 → sizeOk c p = true) → P (.send p none))
    (h : EvAll P c.ev) : EvAll P (psPingreq c p).ev := by
  by_cases hz : p.ver = 5 ∧ sizeOk c p = false
  · simp [psPingreq, hz, h, hP.er]
  · have hp := hs (by intro hv; simpa [hv] using hz)
    by_cases hr : c.s.respTimeoutMs = 0 <;>
      simp [psPingreq, hz, hr, h, hp, hP.er, hP.tr, sendPostProcess_all hP]

/-! ### the closing functions, for predicates that allow `.close` -/

theorem psV5Disconnect_all (hP : Lax P) (hc : P .close) (c : C) (p : Pkt)
    (hs : sizeOk c p = true → P (.send p none)) (h : EvAll P c.ev) : EvAll P (psV5Disconnect c p).ev := by
  by_cases hz : sizeOk c p = true <;>
    simp [psV5Disconnect, hz, h, hs, hc, hP.er, cancelTimers_all hP]

theorem psV3Disconnect_all (hP : Lax P) (hc : P .close) (c : C) (p : Pkt)
    (hs : P (.send p none)) (h : EvAll P c.ev) : EvAll P (psV3Disconnect c p).ev := by
  simp [psV3Disconnect, h, hs, hc, hP.er, cancelTimers_all hP]

theorem handleV3Error_all (hP : Lax P) (hc : P .close) (c : C) (e) (h : EvAll P c.ev) :
    EvAll P (handleV3Error c e).ev := by
  simp [handleV3Error, h, hc, hP.er]

theorem v5DisconnectOrClose_all (hP : Lax P) (hc : P .close) (c : C) (d : Pkt)
    (hs : sizeOk c d = true → P (.send d none)) (h : EvAll P c.ev) : EvAll P (v5DisconnectOrClose c d).ev := by
  simp [v5DisconnectOrClose, h, hc, cancelTimers_all hP, psV5Disconnect_all hP hc c d hs h]

theorem handleV5Error_all (hP : Lax P) (hc : P .close) (c : C) (e)
    (hs : ∀ d, d.ver = 5 → sizeOk c d = true → P (.send d none)) (h : EvAll P c.ev) :
    EvAll P (handleV5Error c e).ev := by
  simp [handleV5Error, hP.er, v5DisconnectOrClose_all hP hc c _ (hs (mkV5Disconnect _) rfl) h]

theorem psV3Connack_all (hP : Lax P) (hc : P .close) (c : C) (p : Pkt) (hs : P (.send p none))
    (hst : ∀ x ∈ c.s.store, x.2.sz c.cfg.pw ≤ c.s.mpsSend → P (.send x.2 none))
    (h : EvAll P c.ev) : EvAll P (psV3Connack c p).ev := by
  by_cases hr : p.rc = some 0
  · simp only [psV3Connack, hr]
    split
    · simp [h, hP.er]
    · simp only [ne_eq, not_true_eq_false, ite_false]
      refine sendPostProcess_all hP _ ?_
      split
      · exact sendStored_all hP _ (by simp [h, hs]) (by simpa using hst)
      · simp [clearStoreRelated, h, hs]
  · simp [psV3Connack, hr, h, hs, hc, hP.er, cancelTimers_all hP]

theorem connackSendProp_store (c : C) (id v) : (connackSendProp c id v).s.store = c.s.store := by
  unfold connackSendProp; (repeat' split) <;> rfl

theorem propsFold_store {f : C → Nat → Nat → C} (hf : ∀ c id v, (f c id v).s.store = c.s.store) (c : C) (l) :
    (propsFold f c l).s.store = c.s.store := by
  induction l generalizing c with
  | nil => rfl
  | cons x rest ih => exact (ih _).trans (hf _ _ _)

theorem psV5Connack_all (hP : Lax P) (hc : P .close) (c : C) (p : Pkt) (hs : sizeOk c p = true → P (.send p none))
    (hst : ∀ x ∈ c.s.store, x.2.sz c.cfg.pw ≤ c.s.mpsSend → P (.send x.2 none))
    (h : EvAll P c.ev) : EvAll P (psV5Connack c p).ev := by
  by_cases hz : sizeOk c p = true
  · have hp := hs hz
    by_cases hr : p.rc = some 0
    · simp only [psV5Connack, hr, hz]
      split
      · simp [h, hP.er]
      · split
        · simp [h, hP.er]
        · simp only [ne_eq, not_true_eq_false, ite_false, ite_true]
          have hfr := propsFold_fr connackSendProp_fr c p.props
          refine sendPostProcess_all hP _ ?_
          split
          · refine sendStored_all hP _ ?_ ?_
            · simp [hp, propsFold_all (connackSendProp_all hP) c p.props h]
            · have hst' := propsFold_store connackSendProp_store c p.props
              simpa [hfr.1, hfr.2, hst'] using hst
          · simp [clearStoreRelated, hp, propsFold_all (connackSendProp_all hP) c p.props h]
    · simp [psV5Connack, hr, hz, h, hp, hc, hP.er, cancelTimers_all hP]
  · simp [psV5Connack, hz, h, hP.er]

end
end MqttVerif.Conn
