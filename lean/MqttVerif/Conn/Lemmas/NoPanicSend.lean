import MqttVerif.Conn.Lemmas.NoPanic
/-!
# C05 helpers — the `process_send_*` tree keeps `GoodV` (invariant + no panic)
-/
set_option linter.unusedSimpArgs false
set_option linter.unusedVariables false
namespace MqttVerif.Conn
open MqttVerif

@[simp] theorem handleV3Error_s (c : C) (e : Nat) : (handleV3Error c e).s = c.s := rfl

theorem psV5Disconnect_goodV {c : C} (h : GoodV c.s) (p : Pkt) : GoodV (psV5Disconnect c p).s := by
  unfold psV5Disconnect
  split
  · exact h
  · split
    · exact h
    · simp only [push_s, cancelTimers_s]; exact h

theorem psV5Disconnect_s_of_not_connected {c : C} (hs : c.s.status ≠ .connected) (p : Pkt) :
    (psV5Disconnect c p).s = c.s := by
  unfold psV5Disconnect
  split
  · rfl
  · simp [hs]

theorem psV3Disconnect_goodV {c : C} (h : GoodV c.s) (p : Pkt) : GoodV (psV3Disconnect c p).s := by
  unfold psV3Disconnect
  split
  · exact h
  · simp only [push_s, cancelTimers_s]; exact h

theorem v5DisconnectOrClose_goodV {c : C} (h : GoodV c.s) (d : Pkt) :
    GoodV (v5DisconnectOrClose c d).s := by
  unfold v5DisconnectOrClose
  split
  · simp only [push_s, cancelTimers_s]; exact h
  · exact psV5Disconnect_goodV h d

theorem v5DisconnectOrClose_s_of_not_connected {c : C} (hs : c.s.status ≠ .connected) (d : Pkt) :
    (v5DisconnectOrClose c d).s = c.s := by
  unfold v5DisconnectOrClose
  split
  · rename_i h'; exact absurd h'.1 hs
  · exact psV5Disconnect_s_of_not_connected hs d

theorem handleV5Error_goodV {c : C} (h : GoodV c.s) (e : Nat) : GoodV (handleV5Error c e).s :=
  v5DisconnectOrClose_goodV h _

theorem vErr_goodV {c : C} (h : GoodV c.s) (e : Nat) : GoodV (vErr c e).s := by
  unfold vErr
  split
  · exact h
  · exact handleV5Error_goodV h e

/-- folding a property handler that keeps `GoodV` for the property values satisfying `P` -/
theorem propsFold_goodV {f : C → Nat → Nat → C} {P : Nat → Nat → Prop}
    (hf : ∀ c id v, P id v → GoodV c.s → GoodV (f c id v).s) {c : C} (h : GoodV c.s)
    (l : List (Nat × Nat)) (hl : ∀ x, x ∈ l → P x.1 x.2) : GoodV (propsFold f c l).s := by
  induction l generalizing c with
  | nil => exact h
  | cons x rest ih =>
    obtain ⟨id, v⟩ := x
    simp only [propsFold]
    exact ih (hf c id v (hl (id, v) (by simp)) h) (fun y hy => hl y (by simp [hy]))

theorem propsFold_frame {α : Type} (g : St → α) {f : C → Nat → Nat → C}
    (hf : ∀ c id v, g (f c id v).s = g c.s) (c : C) (l : List (Nat × Nat)) :
    g (propsFold f c l).s = g c.s := by
  induction l generalizing c with
  | nil => rfl
  | cons x rest ih =>
    obtain ⟨id, v⟩ := x
    simp only [propsFold]
    rw [ih, hf]

theorem connectSendProp_goodV {c : C} (h : GoodV c.s) (id v : Nat) : GoodV (connectSendProp c id v).s := by
  unfold connectSendProp
  split
  · split <;> exact h
  · split
    · exact h
    · split
      · exact h
      · split
        · split <;> exact h
        · exact h

theorem psV3Connect_goodV {c : C} (h : GoodV c.s) (p : Pkt) : GoodV (psV3Connect c p).s := by
  unfold psV3Connect
  split
  · exact h
  · apply sendPostProcess_goodV
    cases p.clean with
    | true => exact (clearStoreRelated_goodV (c := initConn c true) (initConn_goodV h true)).setTas TasOptInv.none
    | false => exact (initConn_goodV h true).setTas TasOptInv.none

theorem psV5Connect_goodV {c : C} (h : GoodV c.s) (p : Pkt) : GoodV (psV5Connect c p).s := by
  unfold psV5Connect
  split
  · exact h
  · split
    · exact h
    · apply sendPostProcess_goodV
      simp only [push_s]
      apply propsFold_goodV (P := fun _ _ => True) (fun c id v _ hc => connectSendProp_goodV hc id v)
      · cases p.clean with
        | true => exact clearStoreRelated_goodV (c := initConn c true) (initConn_goodV h true)
        | false => exact initConn_goodV h true
      · intros; trivial

theorem connackSendProp_goodV {c : C} (h : GoodV c.s) (id v : Nat) : GoodV (connackSendProp c id v).s := by
  unfold connackSendProp
  split
  · split <;> exact h
  · split
    · exact h
    · split
      · exact h
      · split
        · split
          · cases c.s.recvSet <;> exact h
          · exact h
        · exact h

theorem connackSendProp_store (c : C) (id v : Nat) : (connackSendProp c id v).s.store = c.s.store := by
  unfold connackSendProp
  split
  · split <;> rfl
  · split
    · rfl
    · split
      · rfl
      · split
        · split
          · cases c.s.recvSet <;> rfl
          · rfl
        · rfl

theorem psV3Connack_goodV {c : C} (h : GoodV c.s) (hb : Headroom c.s) (p : Pkt) :
    GoodV (psV3Connack c p).s := by
  unfold psV3Connack
  split
  · exact h
  · split
    · simp only [push_s, cancelTimers_s]; exact h
    · apply sendPostProcess_goodV
      split
      · exact sendStored_goodV (c := { (c.push (.send p none)) with s := { c.s with status := .connected } }) h hb
      · exact clearStoreRelated_goodV
          (c := { (c.push (.send p none)) with s := { c.s with status := .connected } }) h

theorem psV5Connack_goodV {c : C} (h : GoodV c.s) (hb : Headroom c.s) (p : Pkt) :
    GoodV (psV5Connack c p).s := by
  unfold psV5Connack
  split
  · exact h
  · split
    · exact h
    · by_cases hrc : p.rc = some 0
      · simp only [hrc, if_true, ne_eq, not_true_eq_false, if_false]
        have h1 : GoodV (propsFold connackSendProp c p.props).s :=
          propsFold_goodV (P := fun _ _ => True) (fun c id v _ hc => connackSendProp_goodV hc id v) h _
            (by intros; trivial)
        have h2 : Headroom (propsFold connackSendProp c p.props).s := by
          unfold Headroom
          rw [propsFold_frame (fun s => s.store) connackSendProp_store]; exact hb
        apply sendPostProcess_goodV
        split
        · exact sendStored_goodV
            (c := { ((propsFold connackSendProp c p.props).push (.send p none)) with
                    s := { (propsFold connackSendProp c p.props).s with status := .connected } })
            h1 h2
        · exact clearStoreRelated_goodV
            (c := { ((propsFold connackSendProp c p.props).push (.send p none)) with
                    s := { (propsFold connackSendProp c p.props).s with status := .connected } })
            h1
      · simp only [hrc, if_false, ne_eq, not_false_eq_true, if_true, push_s, cancelTimers_s]
        exact h

/-! ## PUBLISH -/

theorem sendIfConnected_goodV {c : C} (h : GoodV c.s) (e : Ev) :
    GoodV (if c.s.status = .connected then sendPostProcess (c.push e) else c).s := by
  split
  · exact sendPostProcess_goodV (c := c.push e) h
  · exact h

theorem storeErasePublish_sub (id : Nat) (st : List (Nat × Pkt)) :
    (storeErasePublish id st).2.Sublist st := by
  unfold storeErasePublish
  split
  · split
    · exact erase_sublist _ _
    · exact List.Sublist.refl _
  · exact List.Sublist.refl _

/-- refusing / erasing a PUBLISH: its entry and its `puback`/`pubrec` membership go together -/
theorem StoreInv.refuse {v : Nat} {st : List (Nat × Pkt)} {pa pr pc : List Nat}
    (h : StoreInv v st pa pr pc) (id : Nat) :
    StoreInv v (storeErasePublish id st).2 (del id pa) (del id pr) pc := by
  apply h.shrink (storeErasePublish_sub id st) (fun i hi => (mem_del.1 hi).1)
    (fun i hi => (mem_del.1 hi).1) (fun _ x => x)
  intro i q hm
  simp only [mem_del]
  by_cases hi : i = id
  · subst hi
    suffices hx : i ∉ pa ∧ i ∉ pr by grind
    unfold storeErasePublish at hm
    cases hl : lookup i st with
    | none =>
      simp only [hl] at hm
      exact absurd hm (lookup_none_mem hl q)
    | some q0 =>
      have hm0 := lookup_some_mem hl
      have a0 := h.1 i q0 hm0
      simp only [hl] at hm
      by_cases hk0 : q0.kind = .publish
      · simp only [hk0, if_true, mem_erase] at hm
        exact absurd rfl hm.2
      · have hk1 : q0.kind = .pubrel := by grind
        have hr : respOf q0 = .pubcomp := by simp [respOf, hk1]
        have := h.2.1 i; have := h.2.2.1 i; have := h.2.2.2.1 i
        grind
  · grind

theorem pubRefuseCleanup_goodV {c : C} (h : GoodV c.s) (pid : Option Nat) :
    GoodV (pubRefuseCleanup c pid).s := by
  unfold pubRefuseCleanup
  cases pid with
  | none => exact h
  | some id =>
    simp only
    split
    · rename_i hu
      simp only [push_s, releaseId_s h.pid hu]
      exact (h.setPid (h.pid.deallocate id)).setStore (h.store.refuse id)
    · exact h

/-- what `send` needs to know about a QoS>0 PUBLISH: it carries an identifier (the
    `packet_id().unwrap()` **site**) and that identifier awaits no response -/
def PubIdOk (s : St) (p : Pkt) : Prop := p.qos > 0 → ∃ id, p.pid = some id ∧ IdFresh s id

theorem psV3Publish_goodV {c : C} {p : Pkt} (h : GoodV c.s) (hk : p.kind = .publish)
    (hv : p.ver = c.s.ver) (hw : PubIdOk c.s p) : GoodV (psV3Publish c p).s := by
  unfold psV3Publish
  split
  · rename_i hq
    obtain ⟨id, hpid, f1, f2, f3⟩ := hw hq
    simp only [hpid]
    split
    · exact releaseIfUsed_goodV (c := c.err eNotAllowed) h id
    · split
      · exact h
      · have hns := h.store.fresh_not_stored f1 f2 f3
        have hne := h.ver_ne
        by_cases hst : willStore c.s = true <;> by_cases hq2 : p.qos = 2
        · simp only [hst, if_true, hq2, storeAdd_s hns]
          refine sendIfConnected_goodV
            (c := { c with s := { c.s with store := c.s.store ++ [(id, _)],
                                            pubrec := ins id c.s.pubrec } }) ?_ _
          exact h.setStore (h.store.addPubrec f1 f2 f3
              (Or.inr ⟨_, rfl, hv, hne, Or.inl hk, by simp [respOf, hk, hq2]⟩))
        · simp only [hst, if_true, hq2, if_false, storeAdd_s hns]
          refine sendIfConnected_goodV
            (c := { c with s := { c.s with store := c.s.store ++ [(id, _)],
                                            puback := ins id c.s.puback } }) ?_ _
          exact h.setStore (h.store.addPuback f1 f2 f3
              (Or.inr ⟨_, rfl, hv, hne, Or.inl hk, by simp [respOf, hk, hq2]⟩))
        · simp only [hst, if_true, hq2, Bool.false_eq_true, if_false]
          exact sendIfConnected_goodV
            (c := { c with s := { c.s with pubrec := ins id c.s.pubrec } })
            (h.setStore (h.store.addPubrec f1 f2 f3 (Or.inl rfl))) _
        · simp only [hst, hq2, Bool.false_eq_true, if_false]
          exact sendIfConnected_goodV
            (c := { c with s := { c.s with puback := ins id c.s.puback } })
            (h.setStore (h.store.addPuback f1 f2 f3 (Or.inl rfl))) _
  · split
    · exact h
    · exact sendPostProcess_goodV (c := c.push _) h

/-- **site `TopicAliasSend::insert_or_update` assert** is unreachable for a non-empty topic and an
    alias in range; only the alias table changes -/
theorem tasInsert_s {c : C} (h : TasOptInv c.s.tas) {topic : List Nat} {a : Nat} (site : String)
    (hne : topic.isEmpty = false) (hw : hasWildcard topic = false)
    (ha : ∀ t, c.s.tas = some t → 1 ≤ a ∧ a ≤ t.max) :
    ∃ o, TasOptInv o ∧ (tasInsert c topic a site).s = { c.s with tas := o } := by
  unfold tasInsert
  cases ht : c.s.tas with
  | none => exact ⟨none, TasOptInv.none, by simp only; rw [← ht]⟩
  | some t =>
    have hr := ha t ht
    have hc : ¬ (topic.isEmpty = true ∨ a < 1 ∨ a > t.max) := by simp [hne]; omega
    simp only [hc, if_false]
    refine ⟨_, ?_, rfl⟩
    intro t' e
    cases e
    exact (h t ht).insertOrUpdate hr hw

theorem validateTopicAlias_s {c : C} (h : TasOptInv c.s.tas) (ao : Option Nat) :
    ∃ o, TasOptInv o ∧ (validateTopicAlias c ao).2.s = { c.s with tas := o } ∧
      ∀ t, (validateTopicAlias c ao).1 = some t → hasWildcard t = false := by
  unfold validateTopicAlias
  cases ao with
  | none => exact ⟨c.s.tas, h, rfl, by simp⟩
  | some a =>
    simp only
    split
    · exact ⟨c.s.tas, h, rfl, by simp⟩
    · cases ht : c.s.tas with
      | none => exact ⟨none, TasOptInv.none, by simp only; rw [← ht], by simp⟩
      | some t =>
        have := (h t ht).get a
        refine ⟨_, ?_, rfl, this.2⟩
        intro t' e; cases e; exact this.1

theorem validateTopicAliasRange_spec {s : St} {a : Nat} (h : validateTopicAliasRange s a = true) :
    ∀ t, s.tas = some t → 1 ≤ a ∧ a ≤ t.max := by
  intro t ht
  simp only [validateTopicAliasRange, ht, Bool.not_eq_true', decide_eq_false_iff_not, not_or] at h
  omega

theorem autoAlias_s {c : C} {p : Pkt} (h : TasOptInv c.s.tas) (hne : p.topic.isEmpty = false)
    (hw : hasWildcard p.topic = false) :
    ∃ o, TasOptInv o ∧ (autoAlias c p).1.s = { c.s with tas := o } ∧ (autoAlias c p).2.qos = p.qos := by
  unfold autoAlias
  split
  · split
    · split
      · split
        · dsimp only; split <;> exact ⟨c.s.tas, h, rfl, rfl⟩
        · dsimp only; split
          · rename_i t heq _ _ _
            obtain ⟨o, ho, e⟩ := tasInsert_s h "topic_alias_send.rs:insert_or_update:assert" hne hw (a := t.lruAlias)
              (by intro t' ht'; rw [heq] at ht'; cases ht'; exact (h t heq).lruAlias)
            exact ⟨o, ho, e, rfl⟩
          · exact ⟨c.s.tas, h, rfl, rfl⟩
      · exact ⟨c.s.tas, h, rfl, rfl⟩
    · split
      · split
        · split
          · dsimp only; split <;> exact ⟨c.s.tas, h, rfl, rfl⟩
          · exact ⟨c.s.tas, h, rfl, rfl⟩
        · exact ⟨c.s.tas, h, rfl, rfl⟩
      · exact ⟨c.s.tas, h, rfl, rfl⟩
  · exact ⟨c.s.tas, h, rfl, rfl⟩

theorem psV5PublishTail_goodV {c : C} {p : Pkt} (h : GoodV c.s) (rel : Option Nat)
    (hc : p.qos > 0 → ∀ m, c.s.sendMax = some m → c.s.sendCount < m) :
    GoodV (psV5PublishTail c p rel).s := by
  unfold psV5PublishTail
  by_cases hq : p.qos > 0 ∧ c.s.sendMax.isSome = true
  · obtain ⟨m, hm⟩ := Option.isSome_iff_exists.1 hq.2
    have h1 := hc hq.1 m hm
    have h2 := h.credit m hm
    have hnp : ¬ (c.s.sendCount ≥ 4294967295) := by omega
    simp only [hq, and_self, if_true, hnp, if_false]
    exact sendIfConnected_goodV (c := { c with s := { c.s with sendCount := (c.s.sendCount + 1) % 4294967296 } }) h _
  · simp only [hq, if_false]
    exact sendIfConnected_goodV h _


/-- the Receive Maximum gate of `process_send_v5_0_publish` -/
def rmBlocked (s : St) (p : Pkt) : Bool :=
  decide (p.qos > 0) && (match s.sendMax with | some m => decide (s.sendCount ≥ m) | none => false)

/-- `process_send_v5_0_publish` after the Receive Maximum gate -/
def psV5PublishAliasRest (c : C) (p : Pkt) (rel : Option Nat) (validated : Bool) : C :=
  if p.topic.isEmpty then
    let r := if validated then (some [], c) else validateTopicAlias c p.alias
    if !validated ∧ r.1.isNone then pubRefuseCleanup (r.2.err eNotAllowed) p.pid
    else psV5PublishTail r.2 p rel
  else match p.alias with
    | some a =>
      if validateTopicAliasRange c.s a then
        let c := if c.s.status = .connected then tasInsert c p.topic a "topic_alias_send.rs:insert_or_update:assert" else c
        psV5PublishTail c p rel
      else pubRefuseCleanup (c.err eNotAllowed) p.pid
    | none =>
      let r := autoAlias c p
      psV5PublishTail r.1 r.2 rel

theorem psV5PublishAlias_eq (c : C) (p : Pkt) (rel : Option Nat) (validated : Bool) :
    psV5PublishAlias c p rel validated =
      if rmBlocked c.s p then pubRefuseCleanup (c.err eRMExceeded) p.pid
      else psV5PublishAliasRest c p rel validated := rfl

theorem rmBlocked_false {s : St} {p : Pkt} (h : rmBlocked s p = false) :
    p.qos > 0 → ∀ m, s.sendMax = some m → s.sendCount < m := by
  intro hq m hm
  simp only [rmBlocked, hm, hq, decide_true, Bool.true_and, decide_eq_false_iff_not] at h
  omega

theorem psV5PublishAliasRest_goodV {c : C} {p : Pkt} (h : GoodV c.s) (rel : Option Nat) (validated : Bool)
    (hw : hasWildcard p.topic = false)
    (hc : p.qos > 0 → ∀ m, c.s.sendMax = some m → c.s.sendCount < m) :
    GoodV (psV5PublishAliasRest c p rel validated).s := by
  unfold psV5PublishAliasRest
  split
  · cases validated with
    | true =>
      simp only [Bool.not_true, Bool.false_eq_true, false_and, if_false, if_true]
      exact psV5PublishTail_goodV h rel hc
    | false =>
      obtain ⟨o, ho, e, _⟩ := validateTopicAlias_s h.tas p.alias
      have hg : GoodV (validateTopicAlias c p.alias).2.s := by rw [e]; exact h.setTas ho
      simp only [Bool.false_eq_true, if_false]
      split
      · exact pubRefuseCleanup_goodV (c := C.err _ _) hg _
      · exact psV5PublishTail_goodV hg rel (by rw [e]; exact hc)
  · rename_i hne
    have hne' : p.topic.isEmpty = false := by simpa using hne
    split
    · rename_i a _
      split
      · rename_i hr
        dsimp only
        split
        · obtain ⟨o, ho, e⟩ := tasInsert_s h.tas "topic_alias_send.rs:insert_or_update:assert" hne' hw
            (validateTopicAliasRange_spec hr)
          exact psV5PublishTail_goodV (by rw [e]; exact h.setTas ho) rel (by rw [e]; exact hc)
        · exact psV5PublishTail_goodV h rel hc
      · exact pubRefuseCleanup_goodV (c := c.err _) h _
    · obtain ⟨o, ho, e, eq⟩ := autoAlias_s (p := p) h.tas hne' hw
      dsimp only
      exact psV5PublishTail_goodV (by rw [e]; exact h.setTas ho) rel (by rw [e, eq]; exact hc)

theorem psV5PublishAlias_goodV {c : C} {p : Pkt} (h : GoodV c.s) (rel : Option Nat) (validated : Bool)
    (hw : hasWildcard p.topic = false) :
    GoodV (psV5PublishAlias c p rel validated).s := by
  rw [psV5PublishAlias_eq]
  split
  · exact pubRefuseCleanup_goodV (c := c.err _) h _
  · rename_i hb
    exact psV5PublishAliasRest_goodV h rel validated hw (rmBlocked_false (by simpa using hb))

theorem GoodV.addPubrec {s : St} (h : GoodV s) {id : Nat} (f : IdFresh s id) {st' : List (Nat × Pkt)}
    (hst : st' = s.store ∨ ∃ q, st' = s.store ++ [(id, q)] ∧ q.ver = s.ver ∧ q.kind = .publish ∧ q.qos = 2) :
    GoodV { s with store := st', pubrec := ins id s.pubrec } := by
  refine h.setStore (h.store.addPubrec f.1 f.2.1 f.2.2 ?_)
  rcases hst with e | ⟨q, e, hv, hk, hq⟩
  · exact Or.inl e
  · exact Or.inr ⟨q, e, hv, h.ver_ne, Or.inl hk, by simp [respOf, hk, hq]⟩

theorem GoodV.addPuback {s : St} (h : GoodV s) {id : Nat} (f : IdFresh s id) {st' : List (Nat × Pkt)}
    (hst : st' = s.store ∨ ∃ q, st' = s.store ++ [(id, q)] ∧ q.ver = s.ver ∧ q.kind = .publish ∧ q.qos ≠ 2) :
    GoodV { s with store := st', puback := ins id s.puback } := by
  refine h.setStore (h.store.addPuback f.1 f.2.1 f.2.2 ?_)
  rcases hst with e | ⟨q, e, hv, hk, hq⟩
  · exact Or.inl e
  · exact Or.inr ⟨q, e, hv, h.ver_ne, Or.inl hk, by simp [respOf, hk, hq]⟩

theorem psV5Publish_goodV {c : C} {p : Pkt} (h : GoodV c.s) (hk : p.kind = .publish)
    (hv : p.ver = c.s.ver) (hwild : hasWildcard p.topic = false) (hw : PubIdOk c.s p) :
    GoodV (psV5Publish c p).s := by
  unfold psV5Publish
  split
  · cases p.pid with
    | some id => exact releaseIfUsed_goodV (c := c.err _) h id
    | none => exact h
  · split
    · rename_i hq
      obtain ⟨id, hpid, hf⟩ := hw hq
      simp only [hpid]
      split
      · exact releaseIfUsed_goodV (c := c.err eNotAllowed) h id
      · split
        · exact h
        · have hns := h.store.fresh_not_stored hf.1 hf.2.1 hf.2.2
          split
          · -- will be stored
            split
            · -- empty topic: resolve the alias first
              obtain ⟨o, ho, e, hwt⟩ := validateTopicAlias_s h.tas p.alias
              have hg : GoodV (validateTopicAlias c p.alias).2.s := by rw [e]; exact h.setTas ho
              split
              · exact releaseIfUsed_goodV (c := C.err _ _) hg id
              · rename_i t ht
                have hwt' := hwt t ht
                have hns' : storeHas id (validateTopicAlias c p.alias).2.s.store = false := by rw [e]; exact hns
                have hf' : IdFresh (validateTopicAlias c p.alias).2.s id := by unfold IdFresh; rw [e]; exact hf
                have hv' : p.ver = (validateTopicAlias c p.alias).2.s.ver := by rw [e]; exact hv
                simp only [hwt', Bool.false_eq_true, if_false, storeAdd_s hns']
                apply psV5PublishAlias_goodV _ none true hwild
                split
                · rename_i hq2
                  exact hg.addPubrec hf' (Or.inr ⟨_, rfl, hv', hk, hq2⟩)
                · rename_i hq2
                  exact hg.addPuback hf' (Or.inr ⟨_, rfl, hv', hk, hq2⟩)
            · simp only [storeAdd_s hns]
              apply psV5PublishAlias_goodV _ none false hwild
              split
              · rename_i hq2
                exact h.addPubrec hf (Or.inr ⟨_, rfl, hv, hk, hq2⟩)
              · rename_i hq2
                exact h.addPuback hf (Or.inr ⟨_, rfl, hv, hk, hq2⟩)
          · apply psV5PublishAlias_goodV _ (some id) false hwild
            split
            · exact h.addPubrec hf (Or.inl rfl)
            · exact h.addPuback hf (Or.inl rfl)
    · split
      · exact h
      · exact psV5PublishAlias_goodV h none false hwild


/-! ## the other packets -/

theorem psV3Simple_goodV {c : C} (h : GoodV c.s) (p : Pkt) : GoodV (psV3Simple c p).s := by
  unfold psV3Simple
  split
  · exact h
  · exact sendPostProcess_goodV (c := c.push _) h

theorem psV5Simple_goodV {c : C} (h : GoodV c.s) (p : Pkt) : GoodV (psV5Simple c p).s := by
  unfold psV5Simple
  split
  · exact h
  · split
    · exact h
    · exact sendPostProcess_goodV (c := c.push _) h

theorem psV5Puback_goodV {c : C} (h : GoodV c.s) (p : Pkt) : GoodV (psV5Puback c p).s := by
  unfold psV5Puback
  split
  · exact h
  · split
    · exact h
    · exact sendPostProcess_goodV
        (c := C.push { c with s := { c.s with publishRecv := del (p.pid.getD 0) c.s.publishRecv } } _) h

theorem psV5Pubrec_goodV {c : C} (h : GoodV c.s) (p : Pkt) : GoodV (psV5Pubrec c p).s := by
  unfold psV5Pubrec
  split
  · exact h
  · split
    · exact h
    · dsimp only
      apply sendPostProcess_goodV
      simp only [push_s]
      split <;> (try split) <;> exact h

theorem psV5Pubcomp_goodV {c : C} (h : GoodV c.s) (p : Pkt) : GoodV (psV5Pubcomp c p).s :=
  psV5Puback_goodV h p

/-- PUBREL (sent by the application, or automatically on PUBREC): the identifier awaits no
    response, so it is not stored (the `store.add().unwrap()` **site**) -/
theorem psPubrel_goodV {c : C} {p : Pkt} (h : GoodV c.s) (hk : p.kind = .pubrel)
    (hv : p.ver = c.s.ver) (hf : IdFresh c.s (p.pid.getD 0)) : GoodV (psPubrel c p).s := by
  unfold psPubrel
  split
  · exact h
  · split
    · exact h
    · dsimp only
      split
      · exact h
      · have hns := h.store.fresh_not_stored hf.1 hf.2.1 hf.2.2
        by_cases hn : c.s.needStore = true
        · simp only [if_pos hn, storeAdd_s hns]
          refine sendIfConnected_goodV
            (c := { c with s := { c.s with store := c.s.store ++ [(p.pid.getD 0, p)],
                                            pubcomp := ins (p.pid.getD 0) c.s.pubcomp } }) ?_ _
          exact h.setStore (h.store.addPubcomp hf.1 hf.2.1 hf.2.2
            (Or.inr ⟨p, rfl, hv, h.ver_ne, Or.inr hk, by simp [respOf, hk]⟩))
        · simp only [if_neg hn]
          refine sendIfConnected_goodV
            (c := { c with s := { c.s with pubcomp := ins (p.pid.getD 0) c.s.pubcomp } }) ?_ _
          exact h.setStore (h.store.addPubcomp hf.1 hf.2.1 hf.2.2 (Or.inl rfl))

theorem psSubUnsub_goodV {c : C} (h : GoodV c.s) (p : Pkt) : GoodV (psSubUnsub c p).s := by
  unfold psSubUnsub
  dsimp only
  split
  · exact releaseIfUsed_goodV (c := c.err _) h _
  · split
    · exact releaseIfUsed_goodV (c := c.err _) h _
    · split
      · exact h
      · apply sendPostProcess_goodV
        simp only [push_s]
        split <;> exact h

theorem psPingreq_goodV {c : C} (h : GoodV c.s) (p : Pkt) : GoodV (psPingreq c p).s := by
  unfold psPingreq
  split
  · exact h
  · split
    · exact h
    · dsimp only
      apply sendPostProcess_goodV
      split <;> exact h

theorem psV5Auth_goodV {c : C} (h : GoodV c.s) (p : Pkt) : GoodV (psV5Auth c p).s := by
  unfold psV5Auth
  split
  · exact h
  · split
    · exact h
    · exact sendPostProcess_goodV (c := c.push _) h

/-! ## `send` -/

/-- state-independent well-formedness of a packet handed to `send`: it is a v3.1.1 or v5.0
    packet, and a PUBLISH topic contains no wildcard character -/
def WfSent (p : Pkt) : Prop :=
  (p.ver = 4 ∨ p.ver = 5) ∧ (p.kind = .publish → hasWildcard p.topic = false)

/-- the local contract of `send` in state `s` -/
def SendOk (s : St) (p : Pkt) : Prop :=
  WfSent p ∧ (p.kind = .publish → PubIdOk s p) ∧
  (p.kind = .pubrel → IdFresh s (p.pid.getD 0))

theorem processSend_goodV {c : C} {p : Pkt} (h : GoodV c.s) (hb : Headroom c.s) (hv : p.ver = c.s.ver)
    (hs : SendOk c.s p) : GoodV (processSend c p).s := by
  obtain ⟨⟨_, hw⟩, hpub, hrel⟩ := hs
  unfold processSend
  split
  · cases hk : p.kind <;> simp only <;>
    first
      | exact h
      | exact psV3Connect_goodV h p
      | exact psV3Connack_goodV h hb p
      | exact psV3Publish_goodV h hk hv (hpub hk)
      | exact psPubrel_goodV h hk hv (hrel hk)
      | exact psSubUnsub_goodV h p
      | exact psPingreq_goodV h p
      | exact psV3Disconnect_goodV h p
      | exact psV3Simple_goodV h p
  · cases hk : p.kind <;> simp only <;>
    first
      | exact psV5Connect_goodV h p
      | exact psV5Connack_goodV h hb p
      | exact psV5Publish_goodV h hk hv (hw hk) (hpub hk)
      | exact psV5Puback_goodV h p
      | exact psV5Pubrec_goodV h p
      | exact psPubrel_goodV h hk hv (hrel hk)
      | exact psV5Pubcomp_goodV h p
      | exact psSubUnsub_goodV h p
      | exact psPingreq_goodV h p
      | exact psV5Disconnect_goodV h p
      | exact psV5Auth_goodV h p
      | exact psV5Simple_goodV h p

theorem refuseSend_good {c : C} (h : Good c.s) (e : Nat) (p : Pkt) : Good (refuseSend c e p).s := by
  unfold refuseSend
  split
  · exact releaseIfUsed_good (c := c.err e) h _
  · exact h

theorem send_good {c : C} {p : Pkt} (h : Good c.s) (hb : Headroom c.s) (hs : SendOk c.s p) :
    Good (send c p).s := by
  unfold send
  split
  · exact refuseSend_good h _ p
  · split
    · exact refuseSend_good h _ p
    · rename_i hv _
      have hv' : p.ver = c.s.ver := by
        by_cases e : c.s.ver = p.ver
        · exact e.symm
        · exact absurd e (by simpa using hv)
      have := hs.1.1
      exact (processSend_goodV (h.goodV (by omega)) hb hv' hs).good

end MqttVerif.Conn
