import MqttVerif.Conn.Lemmas.NoPanicHeld3
/-!
# C06 / C05 helper — `Held ∧ Disj`: the receive side, the remaining calls, `step`
-/
set_option linter.unusedSimpArgs false
set_option linter.unusedVariables false
namespace MqttVerif.Conn.Hd
open MqttVerif MqttVerif.Conn

@[simp] theorem K2_prV3Publish (c : C) (x : Except Nat Pkt) : K2 (prV3Publish c x) = K2 c := by
  unfold prV3Publish; kk2
@[simp] theorem K2_prV5PublishAlias (c : C) (p : Pkt) : K2 (prV5PublishAlias c p).1 = K2 c := by
  unfold prV5PublishAlias; kk2
@[simp] theorem K2_prV5Publish (c : C) (x : Except Nat Pkt) : K2 (prV5Publish c x) = K2 c := by
  unfold prV5Publish
  split
  · kk2
  · have h := K2_prV5PublishAlias c ‹Pkt›
    generalize prV5PublishAlias c ‹Pkt› = r at h ⊢
    obtain ⟨c1, o⟩ := r
    cases o with
    | none => exact h
    | some p' =>
      refine Eq.trans ?_ h
      simp only []
      simp [ite_K2]
      k2_tac
@[simp] theorem K2_prPubrel (c : C) (x : Except Nat Pkt) : K2 (prPubrel c x) = K2 c := by
  unfold prPubrel; kk2
@[simp] theorem K2_prPlain (c : C) (x : Except Nat Pkt) : K2 (prPlain c x) = K2 c := by
  unfold prPlain; kk2
@[simp] theorem K2_prPingreq (c : C) (x : Except Nat Pkt) : K2 (prPingreq c x) = K2 c := by
  unfold prPingreq; kk2
@[simp] theorem K2_prPingresp (c : C) (x : Except Nat Pkt) : K2 (prPingresp c x) = K2 c := by
  unfold prPingresp; kk2
@[simp] theorem K2_prDisconnect (c : C) (x : Except Nat Pkt) : K2 (prDisconnect c x) = K2 c := by
  unfold prDisconnect; kk2
@[simp] theorem K2_notifyTimerFired (c : C) (k : Timer) : K2 (notifyTimerFired c k) = K2 c := by
  unfold notifyTimerFired; kk2
@[simp] theorem K2_setPingreqSendInterval (c : C) (d : Option Nat) : K2 (setPingreqSendInterval c d) = K2 c := by
  unfold setPingreqSendInterval; kk2


/-! ## CONNECT / CONNACK received -/

theorem w_prV3Connect {c : C} (h : W c) (hn : (c.s.store.map (·.1)).Nodup) (x : Except Nat Pkt) :
    W (prV3Connect c x) := by
  unfold prV3Connect
  split
  · exact h.congr (by simp)
  · simp only []
    split
    · rename_i p
      refine w_of3 h false ?_
      right
      simp only [K2_push, K2_refreshPingreqRecv]
      cases hc : p.clean
      · left; simp only [Bool.false_eq_true, if_false]; split <;> rfl
      · right; simp only [if_true]; split <;> rfl
    · rw [show ∀ (X : C) e, W (X.err e) = W X from fun X e => rfl]
      exact w_psV3Connack (c := { c with s := { c.s with status := .connecting } }) (h.congr rfl) hn _

theorem w_prV5Connect {c : C} (h : W c) (hn : (c.s.store.map (·.1)).Nodup) (x : Except Nat Pkt) :
    W (prV5Connect c x) := by
  unfold prV5Connect
  split
  · exact h.congr (by simp)
  · simp only []
    split
    · rename_i p
      refine w_of3 h false ?_
      right
      simp only [K2_push, K2_refreshPingreqRecv, K2_fold_connectRecvProp]
      cases hc : p.clean
      · left; simp only [Bool.false_eq_true, if_false]; split <;> rfl
      · right; simp only [if_true]; split <;> rfl
    · rw [show ∀ (X : C) e, W (X.err e) = W X from fun X e => rfl]
      exact w_psV5Connack (c := { c with s := { c.s with status := .connecting } }) (h.congr rfl) hn _

theorem w_prV3Connack {c : C} (h : W c) (hn : (c.s.store.map (·.1)).Nodup) (x : Except Nat Pkt) :
    W (prV3Connack c x) := by
  unfold prV3Connack
  split
  · exact h.congr (by simp)
  · split
    · rw [show ∀ (X : C) e, W (X.push e) = W X from fun X e => rfl]
      split
      · split
        · exact w_resendStored (c := { c with s := { c.s with status := .connected } }) (h.congr rfl) hn
        · exact W.clear (c := { c with s := { c.s with status := .connected } }) (h.congr rfl)
      · exact h
    · exact h.congr (by simp)

/-- well-formed, with duplicate-free store keys -/
def WN (c : C) : Prop := W c ∧ (c.s.store.map (·.1)).Nodup

theorem wn_connackRecvProp {c : C} (h : WN c) (id v : Nat) : WN (connackRecvProp c id v) := by
  unfold connackRecvProp
  (repeat' (first | split | (simp only []; split))) <;>
    first
    | exact h
    | exact ⟨h.1.congr rfl, h.2⟩
    | exact ⟨W.clear (h.1.congr rfl), by simp [clearStoreRelated]⟩
    | exact ⟨h.1.congr (by simp), by simpa using h.2⟩

theorem wn_fold_connackRecvProp (l : List (Nat × Nat)) : ∀ c : C, WN c → WN (propsFold connackRecvProp c l) := by
  induction l with
  | nil => intro c h; exact h
  | cons x rest ih => intro c h; exact ih _ (wn_connackRecvProp h x.1 x.2)

theorem w_prV5Connack {c : C} (h : W c) (hn : (c.s.store.map (·.1)).Nodup) (x : Except Nat Pkt) :
    W (prV5Connack c x) := by
  unfold prV5Connack
  split
  · exact h.congr (by simp)
  · split
    · rename_i p
      rw [show ∀ (X : C) e, W (X.push e) = W X from fun X e => rfl]
      split
      · simp only []
        have h1 := wn_fold_connackRecvProp p.props { c with s := { c.s with status := .connected } }
          ⟨h.congr rfl, hn⟩
        split
        · exact w_resendStored h1.1 h1.2
        · exact h1.1.clear
      · exact h
    · first | exact h.congr (by simp) | (split <;> exact h.congr (by simp))


/-! ## acknowledgements -/

theorem storeErase_gone' {v : Nat} {st : List (Nat × Pkt)} {pa pr pc : List Nat} {k : Kind} {id : Nat}
    (h : StoreInv v st pa pr pc)
    (hk : (k = .puback ∧ id ∈ pa) ∨ (k = .pubrec ∧ id ∈ pr) ∨ (k = .pubcomp ∧ id ∈ pc)) :
    storeHas id (storeErase v k id st) = false := by
  rw [storeHas_false]; exact storeErase_gone h hk

/-- PUBACK / PUBCOMP / failing PUBREC: the entry goes with the wait-set entry, then the identifier -/
theorem w_ackRelease {c : C} (h : W c) (hs : StoreInv c.s.ver c.s.store c.s.puback c.s.pubrec c.s.pubcomp)
    (k : Kind) (id : Nat)
    (hk : (k = .puback ∧ id ∈ c.s.puback) ∨ (k = .pubrec ∧ id ∈ c.s.pubrec) ∨ (k = .pubcomp ∧ id ∈ c.s.pubcomp))
    (c1 : C) (hp : c1.s.pidMan = c.s.pidMan) (hst : c1.s.store = storeErase c.s.ver k id c.s.store)
    (h1 : c1.s.suback = c.s.suback) (h2 : c1.s.unsuback = c.s.unsuback)
    (h3 : ∀ i ∈ c1.s.puback, i ∈ c.s.puback) (h4 : ∀ i ∈ c1.s.pubrec, i ∈ c.s.pubrec)
    (h5 : ∀ i ∈ c1.s.pubcomp, i ∈ c.s.pubcomp) : W (releaseIfUsed c1 id) := by
  have hw1 : W c1 := h.shrink hp (fun x hx => by rw [hst] at hx; exact storeErase_sub.subset hx)
    (fun i hi => h1 ▸ hi) (fun i hi => h2 ▸ hi) h3 h4 h5
  exact hw1.release (by rw [hst]; exact storeErase_gone' hs hk)

theorem w_prPuback {c : C} (h : W c) (hs : StoreInv c.s.ver c.s.store c.s.puback c.s.pubrec c.s.pubcomp)
    (x : Except Nat Pkt) (hv : ∀ p, x = .ok p → p.ver = c.s.ver) : W (prPuback c x) := by
  unfold prPuback
  split
  · exact h.congr (by simp)
  · rename_i p
    have hpv := hv p rfl
    simp only []
    split
    · rename_i hm
      have h1 := w_ackRelease h hs .puback (p.pid.getD 0) (.inl ⟨rfl, hm⟩)
        { c with s := { c.s with puback := del (p.pid.getD 0) c.s.puback, store := storeErase p.ver Kind.puback (p.pid.getD 0) c.s.store } }
        rfl (by rw [hpv]) rfl rfl (fun i hi => (mem_del.1 hi).1) (fun i hi => hi) (fun i hi => hi)
      refine h1.congr ?_
      simp only [K2_push, K2_refreshPingreqRecv]
      split <;> simp
    · exact h.congr (by simp)

theorem w_prPubcomp {c : C} (h : W c) (hs : StoreInv c.s.ver c.s.store c.s.puback c.s.pubrec c.s.pubcomp)
    (x : Except Nat Pkt) (hv : ∀ p, x = .ok p → p.ver = c.s.ver) : W (prPubcomp c x) := by
  unfold prPubcomp
  split
  · exact h.congr (by simp)
  · rename_i p
    have hpv := hv p rfl
    simp only []
    split
    · rename_i hm
      have h1 := w_ackRelease h hs .pubcomp (p.pid.getD 0) (.inr (.inr ⟨rfl, hm⟩))
        { c with s := { c.s with pubcomp := del (p.pid.getD 0) c.s.pubcomp, store := storeErase p.ver Kind.pubcomp (p.pid.getD 0) c.s.store } }
        rfl (by rw [hpv]) rfl rfl (fun i hi => hi) (fun i hi => hi) (fun i hi => (mem_del.1 hi).1)
      refine h1.congr ?_
      simp only [K2_push, K2_refreshPingreqRecv]
      split <;> simp
    · exact h.congr (by simp)

theorem w_prPubrec_tail {c1 : C} (h1 : W c1) (p : Pkt) (hrel : W (releaseIfUsed c1 (p.pid.getD 0)))
    (hns : p.pid.getD 0 ∉ c1.s.suback ∧ p.pid.getD 0 ∉ c1.s.unsuback) :
    W ((refreshPingreqRecv
      (if p.ver = 4 ∨ p.rc = none ∨ p.rc = some 0 then
        (if c1.s.autoPub = true ∧ c1.s.status = .connected then
          psPubrel c1 (mkAck c1.cfg p.ver .pubrel (p.pid.getD 0)) else c1)
       else decSendCount (releaseIfUsed c1 (p.pid.getD 0)))).push (.recv p)) := by
  rw [show ∀ (X : C) e, W (X.push e) = W X from fun X e => rfl]
  refine W.congr (c := (if p.ver = 4 ∨ p.rc = none ∨ p.rc = some 0 then
        (if c1.s.autoPub = true ∧ c1.s.status = .connected then
          psPubrel c1 (mkAck c1.cfg p.ver .pubrel (p.pid.getD 0)) else c1)
       else decSendCount (releaseIfUsed c1 (p.pid.getD 0)))) ?_ (by simp)
  split
  · split
    · exact w_psPubrel h1 _ (by simpa [mkAck] using hns)
    · exact h1
  · exact hrel.congr (by simp)

theorem w_prPubrec {c : C} (h : W c) (hs : StoreInv c.s.ver c.s.store c.s.puback c.s.pubrec c.s.pubcomp)
    (x : Except Nat Pkt) (hv : ∀ p, x = .ok p → p.ver = c.s.ver) : W (prPubrec c x) := by
  unfold prPubrec
  split
  · exact h.congr (by simp)
  · rename_i p
    have hpv := hv p rfl
    simp only []
    split
    · rename_i hm
      -- the identifier is awaited by PUBREC, hence by no SUBACK / UNSUBACK
      have hd := h.2.2
      have hns : p.pid.getD 0 ∉ c.s.suback ∧ p.pid.getD 0 ∉ c.s.unsuback := by
        constructor
        · intro k; exact (hd _ (.inl k)).2.1 hm
        · intro k; exact (hd _ (.inr k)).2.1 hm
      refine w_prPubrec_tail (c1 := { c with s := { c.s with pubrec := del (p.pid.getD 0) c.s.pubrec, store := storeErase p.ver Kind.pubrec (p.pid.getD 0) c.s.store } }) ?_ p ?_ hns
      · exact h.shrink rfl (fun x hx => storeErase_sub.subset hx) (fun i hi => hi) (fun i hi => hi) (fun i hi => hi)
          (fun i hi => (mem_del.1 hi).1) (fun i hi => hi)
      · exact w_ackRelease h hs .pubrec (p.pid.getD 0) (.inr (.inl ⟨rfl, hm⟩)) _
          rfl (by rw [hpv]) rfl rfl (fun i hi => hi) (fun i hi => (mem_del.1 hi).1) (fun i hi => hi)
    · exact h.congr (by simp)

theorem w_prSubUnsuback {c : C} (h : W c) (hs : StoreInv c.s.ver c.s.store c.s.puback c.s.pubrec c.s.pubcomp)
    (b : Bool) (x : Except Nat Pkt) : W (prSubUnsuback c b x) := by
  have hd := h.2.2
  have hfree : ∀ id, id ∈ c.s.suback ∨ id ∈ c.s.unsuback → storeHas id c.s.store = false := fun id hin =>
    hs.fresh_not_stored (hd _ hin).1 (hd _ hin).2.1 (hd _ hin).2.2
  cases x with
  | error e => exact h.congr (by simp [prSubUnsuback])
  | ok p =>
    cases b
    · simp only [prSubUnsuback, Bool.false_eq_true, if_false]
      split
      · rename_i hm
        rw [show ∀ (X : C) e, W (X.push e) = W X from fun X e => rfl]
        refine W.congr (c := releaseIfUsed ({ c with s := { c.s with unsuback := del (p.pid.getD 0) c.s.unsuback } } : C)
          (p.pid.getD 0)) ?_ (by simp)
        exact W.release (h.shrink (c' := { c with s := { c.s with unsuback := del (p.pid.getD 0) c.s.unsuback } })
            rfl (fun x hx => hx) (fun i hi => hi) (fun i hi => (mem_del.1 hi).1) (fun i hi => hi)
            (fun i hi => hi) (fun i hi => hi)) (hfree _ (.inr hm))
      · exact h.congr (by simp)
    · simp only [prSubUnsuback, if_true]
      split
      · rename_i hm
        rw [show ∀ (X : C) e, W (X.push e) = W X from fun X e => rfl]
        refine W.congr (c := releaseIfUsed ({ c with s := { c.s with suback := del (p.pid.getD 0) c.s.suback } } : C)
          (p.pid.getD 0)) ?_ (by simp)
        exact W.release (h.shrink (c' := { c with s := { c.s with suback := del (p.pid.getD 0) c.s.suback } })
            rfl (fun x hx => hx) (fun i hi => (mem_del.1 hi).1) (fun i hi => hi) (fun i hi => hi)
            (fun i hi => hi) (fun i hi => hi)) (hfree _ (.inl hm))
      · exact h.congr (by simp)

theorem w_dispatchRecv {c : C} (h : W c) (hs : StoreInv c.s.ver c.s.store c.s.puback c.s.pubrec c.s.pubcomp)
    (t : Nat) (x : Except Nat Pkt) (hv : ∀ p, x = .ok p → p.ver = c.s.ver) : W (dispatchRecv c t x) := by
  have hn := hs.2.2.2.2
  unfold dispatchRecv
  (repeat' split) <;>
    first
    | exact w_prV3Connect h hn x | exact w_prV5Connect h hn x
    | exact w_prV3Connack h hn x | exact w_prV5Connack h hn x
    | exact w_prPuback h hs x hv | exact w_prPubrec h hs x hv | exact w_prPubcomp h hs x hv
    | exact w_prSubUnsuback h hs _ x
    | exact h.congr (by simp)

end MqttVerif.Conn.Hd
