import MqttVerif.Props.C01L2
/-!
# Helpers for `Props/C01L2b.lean`: nondeterministic schedules over the two-endpoint system

* `Act`, `act`, `runActs`: a schedule is a list of `deliver` (deliver the head of a non-empty
  channel, client→server channel first = `deliver1`) and `lose` (`lose` followed at once by
  `resume v`).
* `prep`: prepend history to both logs; every operation of the pair system commutes with it
  (`*_prep`): the operations never read the logs.
* `Obs d tgt N R z`: `z` has the endpoint states and channels of `tgt`, no `.error` in either log,
  the receiver's PUBLISH notifications are `N`, the sender's released identifiers are `R`, nothing
  else notified/released (`Good` = `Obs` with target `established`).
* `Ph2`/`Ph1`, `sysOf2`/`sysOf1`, `next2`/`next1`, `note2`/`note1`, `rel2`/`rel1`: the finite set of shapes
  the pair passes through during one exchange with identifier 1 under any schedule, as an
  explicit transducer; `closure2`/`closure1`: every action maps the shape of a phase to the shape
  of the next phase and emits exactly the transducer's output - proved per phase × action ×
  direction by the `step_*` lemmas of `PairExchange.lean`, for both versions.
* `run_obs`: hence a whole schedule = the run of the transducer.
-/
set_option linter.unusedSimpArgs false
set_option linter.unusedVariables false
namespace MqttVerif.Conn.Pair
open MqttVerif MqttVerif.Conn

/-! ## schedules -/

inductive Act | deliver | lose
deriving DecidableEq, Repr

/-- one scheduled action: `deliver` = deliver the head of a non-empty channel (client→server
    first; `one_channel`: during one exchange at most one channel is non-empty anyway);
    `lose` = transport loss noticed by both endpoints, then the client reconnects with
    clean = false and the server answers session present -/
def act (v : Nat) (y : Sys) : Act → Sys
  | .deliver => deliver1 y
  | .lose => resume v (lose y)

def runActs (v : Nat) : Sys → List Act → Sys
  | y, [] => y
  | y, a :: as => runActs v (act v y a) as

theorem runActs_append (v : Nat) (y : Sys) (a b : List Act) :
    runActs v y (a ++ b) = runActs v (runActs v y a) b := by
  induction a generalizing y with
  | nil => rfl
  | cons x a ih => simp only [List.cons_append, runActs]; exact ih _

theorem drain_eq_runActs (v n : Nat) (y : Sys) : drain n y = runActs v y (List.replicate n .deliver) := by
  induction n generalizing y with
  | zero => rfl
  | succ n ih => simp only [drain, List.replicate_succ, runActs, act]; exact ih _

/-! ## the logs are write-only -/

/-- prepend history to the two logs -/
def prep (lc ls : List Ev) (y : Sys) : Sys := { y with logC := lc ++ y.logC, logS := ls ++ y.logS }

theorem appC_prep (lc ls : List Ev) (y : Sys) (op : Op) : appC (prep lc ls y) op = prep lc ls (appC y op) := by
  simp [appC, prep]
theorem appS_prep (lc ls : List Ev) (y : Sys) (op : Op) : appS (prep lc ls y) op = prep lc ls (appS y op) := by
  simp [appS, prep]
theorem deliverS_prep (lc ls : List Ev) (y : Sys) : deliverS (prep lc ls y) = prep lc ls (deliverS y) := by
  rcases y with ⟨c, s, c2s, s2c, lC, lS⟩
  cases c2s <;> simp [deliverS, prep]
theorem deliverC_prep (lc ls : List Ev) (y : Sys) : deliverC (prep lc ls y) = prep lc ls (deliverC y) := by
  rcases y with ⟨c, s, c2s, s2c, lC, lS⟩
  cases s2c <;> simp [deliverC, prep]
theorem lose_prep (lc ls : List Ev) (y : Sys) : lose (prep lc ls y) = prep lc ls (lose y) := by
  simp [lose, prep]
theorem deliver1_prep (lc ls : List Ev) (y : Sys) : deliver1 (prep lc ls y) = prep lc ls (deliver1 y) := by
  unfold deliver1
  rw [deliverS_prep, deliverC_prep]
  have : (prep lc ls y).c2s = y.c2s := rfl
  rw [this]; split <;> rfl
theorem drain_prep (lc ls : List Ev) (n : Nat) (y : Sys) : drain n (prep lc ls y) = prep lc ls (drain n y) := by
  induction n generalizing y with
  | zero => rfl
  | succ n ih => simp only [drain, deliver1_prep]; exact ih _
theorem resume_prep (v : Nat) (lc ls : List Ev) (y : Sys) : resume v (prep lc ls y) = prep lc ls (resume v y) := by
  simp only [resume, handshake, appC_prep, deliverS_prep, appS_prep, deliverC_prep]
theorem act_prep (v : Nat) (lc ls : List Ev) (y : Sys) (a : Act) : act v (prep lc ls y) a = prep lc ls (act v y a) := by
  cases a <;> simp only [act, deliver1_prep, lose_prep, resume_prep]
theorem runActs_prep (v : Nat) (lc ls : List Ev) (y : Sys) (acts : List Act) :
    runActs v (prep lc ls y) acts = prep lc ls (runActs v y acts) := by
  induction acts generalizing y with
  | nil => rfl
  | cons a as ih => simp only [runActs, act_prep]; exact ih _

/-! ## observations on logs -/

theorem errFree_append (a b : List Ev) : errFree (a ++ b) ↔ errFree a ∧ errFree b := by
  simp [errFree, List.all_append]

theorem pubNotes_append (a b : List Ev) : pubNotes (a ++ b) = pubNotes a ++ pubNotes b := by
  induction a with
  | nil => rfl
  | cons e a ih =>
    cases e <;> simp only [List.cons_append, pubNotes, ih]
    split <;> simp

theorem releasedIds_append (a b : List Ev) : releasedIds (a ++ b) = releasedIds a ++ releasedIds b := by
  induction a with
  | nil => rfl
  | cons e a ih => cases e <;> simp [releasedIds, ih]

/-- `z` has the endpoint states and channels of `tgt`; its logs show no error, the receiving
    application (`d` = the client publishes) was notified of the PUBLISH packets `N`, the
    publishing one of none, the publisher released the identifiers `R`, the receiver none -/
structure Obs (d : Bool) (tgt : Sys) (N : List Pkt) (R : List Nat) (z : Sys) : Prop where
  c : z.c = tgt.c
  s : z.s = tgt.s
  c2s : z.c2s = tgt.c2s
  s2c : z.s2c = tgt.s2c
  errC : errFree z.logC
  errS : errFree z.logS
  notes : pubNotes (if d then z.logS else z.logC) = N
  noEcho : pubNotes (if d then z.logC else z.logS) = []
  released : releasedIds (if d then z.logC else z.logS) = R
  releasedR : releasedIds (if d then z.logS else z.logC) = []

/-- a system with the core of a log-free `t` is `t` with history prepended -/
theorem eq_prep_of_core {y t : Sys} (hc : y.c = t.c) (hs : y.s = t.s) (h1 : y.c2s = t.c2s) (h2 : y.s2c = t.s2c)
    (hl : t.logC = [] ∧ t.logS = []) : y = prep y.logC y.logS t := by
  rcases y with ⟨c, s, c2s, s2c, lC, lS⟩
  rcases t with ⟨c', s', c2s', s2c', lC', lS'⟩
  simp only at hc hs h1 h2 hl
  simp [prep, hc, hs, h1, h2, hl.1, hl.2]

/-- composition: if `y` looks like the log-free `t` with observations `N`, `R` so far, and the
    log-commuting operation `f` takes `t` to something looking like `t'` with observations
    `dn`, `dr`, then `f y` looks like `t'` with `N ++ dn`, `R ++ dr` -/
theorem Obs.step {d : Bool} {t t' y : Sys} {N dn : List Pkt} {R dr : List Nat} (f : Sys → Sys)
    (hf : ∀ lc ls z, f (prep lc ls z) = prep lc ls (f z))
    (hl : t.logC = [] ∧ t.logS = []) (hy : Obs d t N R y) (ht : Obs d t' dn dr (f t)) :
    Obs d t' (N ++ dn) (R ++ dr) (f y) := by
  have e := eq_prep_of_core hy.c hy.s hy.c2s hy.s2c hl
  rw [e, hf]
  have hN := hy.notes; have hE := hy.noEcho; have hR := hy.released; have hRR := hy.releasedR
  have tN := ht.notes; have tE := ht.noEcho; have tR := ht.released; have tRR := ht.releasedR
  refine ⟨ht.c, ht.s, ht.c2s, ht.s2c, (errFree_append _ _).2 ⟨hy.errC, ht.errC⟩,
    (errFree_append _ _).2 ⟨hy.errS, ht.errS⟩, ?_, ?_, ?_, ?_⟩
  · cases d
    · show pubNotes (y.logC ++ (f t).logC) = _; rw [pubNotes_append]; exact congr (congrArg _ hN) tN
    · show pubNotes (y.logS ++ (f t).logS) = _; rw [pubNotes_append]; exact congr (congrArg _ hN) tN
  · cases d
    · show pubNotes (y.logS ++ (f t).logS) = _; rw [pubNotes_append]; exact congr (congrArg _ hE) tE
    · show pubNotes (y.logC ++ (f t).logC) = _; rw [pubNotes_append]; exact congr (congrArg _ hE) tE
  · cases d
    · show releasedIds (y.logS ++ (f t).logS) = _; rw [releasedIds_append]; exact congr (congrArg _ hR) tR
    · show releasedIds (y.logC ++ (f t).logC) = _; rw [releasedIds_append]; exact congr (congrArg _ hR) tR
  · cases d
    · show releasedIds (y.logC ++ (f t).logC) = _; rw [releasedIds_append]; exact congr (congrArg _ hRR) tRR
    · show releasedIds (y.logS ++ (f t).logS) = _; rw [releasedIds_append]; exact congr (congrArg _ hRR) tRR

theorem Good_iff_Obs {v : Nat} {d : Bool} {N : List Pkt} {y : Sys} (hv : v = 4 ∨ v = 5) :
    Good v d N y ↔ Obs d (established v) N [1] y := by
  rw [established_eq v hv]
  constructor
  · intro h; exact ⟨h.cIdle, h.sIdle, h.c2s, h.s2c, h.errC, h.errS, h.notes, h.noEcho, h.released, h.releasedR⟩
  · intro h; exact ⟨h.c2s, h.s2c, h.c, h.s, h.errC, h.errS, h.notes, h.noEcho, h.released, h.releasedR⟩

/-! ## generic transducer over schedules -/

section transducer
variable {Ph : Type} {α : Type}

def phRun (next : Ph → Act → Ph) : Ph → List Act → Ph
  | ph, [] => ph
  | ph, a :: as => phRun next (next ph a) as

def outRun (next : Ph → Act → Ph) (out : Ph → Act → List α) : Ph → List Act → List α
  | _, [] => []
  | ph, a :: as => out ph a ++ outRun next out (next ph a) as

theorem phRun_append (next : Ph → Act → Ph) (ph : Ph) (a b : List Act) :
    phRun next ph (a ++ b) = phRun next (phRun next ph a) b := by
  induction a generalizing ph with
  | nil => rfl
  | cons x a ih => simp only [List.cons_append, phRun]; exact ih _

theorem outRun_append (next : Ph → Act → Ph) (out : Ph → Act → List α) (ph : Ph) (a b : List Act) :
    outRun next out ph (a ++ b) = outRun next out ph a ++ outRun next out (phRun next ph a) b := by
  induction a generalizing ph with
  | nil => rfl
  | cons x a ih => simp only [List.cons_append, outRun, phRun, ih, List.append_assoc]

/-- an invariant relating phase and accumulated output, preserved by every step, holds along
    every schedule -/
theorem outRun_inv (next : Ph → Act → Ph) (out : Ph → Act → List α) (I : Ph → List α → Prop)
    (hstep : ∀ ph a N, I ph N → I (next ph a) (N ++ out ph a)) :
    ∀ acts ph N, I ph N → I (phRun next ph acts) (N ++ outRun next out ph acts) := by
  intro acts
  induction acts with
  | nil => intro ph N h; simpa [phRun, outRun] using h
  | cons a as ih =>
    intro ph N h
    have := ih _ _ (hstep ph a N h)
    simpa [phRun, outRun, List.append_assoc] using this

/-- the pair follows the transducer -/
theorem run_obs {v : Nat} {d : Bool} (sysOf : Ph → Sys) (next : Ph → Act → Ph) (note : Ph → Act → List Pkt)
    (rel : Ph → Act → List Nat) (hlog : ∀ ph, (sysOf ph).logC = [] ∧ (sysOf ph).logS = [])
    (hcl : ∀ ph a, Obs d (sysOf (next ph a)) (note ph a) (rel ph a) (act v (sysOf ph) a)) :
    ∀ acts ph N R y, Obs d (sysOf ph) N R y →
      Obs d (sysOf (phRun next ph acts)) (N ++ outRun next note ph acts) (R ++ outRun next rel ph acts)
        (runActs v y acts) := by
  intro acts
  induction acts with
  | nil => intro ph N R y h; simpa [phRun, outRun, runActs] using h
  | cons a as ih =>
    intro ph N R y h
    have h1 := Obs.step (fun z => act v z a) (fun lc ls z => act_prep v lc ls z a) (hlog ph) h (hcl ph a)
    have := ih _ _ _ _ h1
    simpa [phRun, outRun, runActs, List.append_assoc] using this

end transducer

/-! ## the shapes of one exchange -/

/-- `d` = the client is the publisher: sender state, receiver state, forward channel (towards
    the receiver), backward channel -/
def mkSys (d : Bool) (snd rcv : Bool → St) (fwd bwd : List Pkt) : Sys :=
  match d with
  | true => { c := snd true, s := rcv false, c2s := fwd, s2c := bwd }
  | false => { c := rcv true, s := snd false, c2s := bwd, s2c := fwd }

theorem mkSys_logs (d : Bool) (snd rcv : Bool → St) (fwd bwd : List Pkt) :
    (mkSys d snd rcv fwd bwd).logC = [] ∧ (mkSys d snd rcv fwd bwd).logS = [] := by
  cases d <;> exact ⟨rfl, rfl⟩

/-- sender awaiting PUBREC (QoS 2) / PUBACK (QoS 1): the PUBLISH is stored with DUP set -/
def sPub2 (v : Nat) (P : Pkt) (b : Bool) : St := mkSt v b .connected [⟨2, 65535⟩] [(1, P.asDup)] [] [1] [] [] []
def sPub1 (v : Nat) (P : Pkt) (b : Bool) : St := mkSt v b .connected [⟨2, 65535⟩] [(1, P.asDup)] [1] [] [] [] []
/-- sender awaiting PUBCOMP: the PUBREL is stored -/
def sRel (v : Nat) (b : Bool) : St := mkSt v b .connected [⟨2, 65535⟩] [(1, ack v .pubrel)] [] [] [1] [] []
/-- receiver that has handled identifier 1 and awaits PUBREL -/
def rHandled (v : Nat) (prv : List Nat) (b : Bool) : St := mkSt v b .connected [⟨1, 65535⟩] [] [] [] [] [1] prv

/-- the phases of a QoS 2 exchange under loss -/
inductive Ph2
  | pub (dup : Bool)        -- PUBLISH (first transmission / retransmission with DUP) in flight, receiver idle
  | recd                    -- PUBREC in flight
  | pubAgain                -- PUBLISH(DUP) in flight, receiver already handled it
  | rel (fresh : Bool)      -- PUBREL in flight (`fresh` = not a retransmission), receiver awaits it
  | comp (again : Bool)     -- PUBCOMP in flight (`again` = answer to a PUBREL for a forgotten identifier)
  | relAgain                -- PUBREL retransmitted, receiver has completed
  | done
deriving DecidableEq, Repr

def sysOf2 (v : Nat) (d : Bool) (P : Pkt) : Ph2 → Sys
  | .pub dup => mkSys d (sPub2 v P) (idle v) [if dup then P.asDup else P] []
  | .recd => mkSys d (sPub2 v P) (rHandled v (pr5 v)) [] [ack v .pubrec]
  | .pubAgain => mkSys d (sPub2 v P) (rHandled v []) [P.asDup] []
  | .rel fresh => mkSys d (sRel v) (rHandled v (if fresh then pr5 v else [])) [ack v .pubrel] []
  | .comp again => mkSys d (sRel v) (idle v) [] [if again then pubcompAgain v else ack v .pubcomp]
  | .relAgain => mkSys d (sRel v) (idle v) [ack v .pubrel] []
  | .done => mkSys d (idle v) (idle v) [] []

def next2 : Ph2 → Act → Ph2
  | .pub _, .deliver => .recd
  | .recd, .deliver => .rel true
  | .pubAgain, .deliver => .recd
  | .rel _, .deliver => .comp false
  | .comp _, .deliver => .done
  | .relAgain, .deliver => .comp true
  | .done, .deliver => .done
  | .pub _, .lose => .pub true
  | .recd, .lose => .pubAgain
  | .pubAgain, .lose => .pubAgain
  | .rel _, .lose => .rel false
  | .comp _, .lose => .relAgain
  | .relAgain, .lose => .relAgain
  | .done, .lose => .done

/-- the receiving application is notified when a PUBLISH reaches an idle receiver -/
def note2 (P : Pkt) : Ph2 → Act → List Pkt
  | .pub dup, .deliver => [if dup then P.asDup else P]
  | _, _ => []

/-- the sender releases the identifier when the PUBCOMP arrives -/
def rel2 : Ph2 → Act → List Nat
  | .comp _, .deliver => [1]
  | _, _ => []

/-- the phases of a QoS 1 exchange under loss -/
inductive Ph1
  | pub (dup : Bool)
  | ack
  | done
deriving DecidableEq, Repr

def sysOf1 (v : Nat) (d : Bool) (P : Pkt) : Ph1 → Sys
  | .pub dup => mkSys d (sPub1 v P) (idle v) [if dup then P.asDup else P] []
  | .ack => mkSys d (sPub1 v P) (idle v) [] [ack v .puback]
  | .done => mkSys d (idle v) (idle v) [] []

def next1 : Ph1 → Act → Ph1
  | .pub _, .deliver => .ack
  | .ack, .deliver => .done
  | .done, .deliver => .done
  | .pub _, .lose => .pub true
  | .ack, .lose => .pub true
  | .done, .lose => .done

def note1 (P : Pkt) : Ph1 → Act → List Pkt
  | .pub dup, .deliver => [if dup then P.asDup else P]
  | _, _ => []

def rel1 : Ph1 → Act → List Nat
  | .ack, .deliver => [1]
  | _, _ => []

theorem sysOf2_logs (v : Nat) (d : Bool) (P : Pkt) (ph : Ph2) :
    (sysOf2 v d P ph).logC = [] ∧ (sysOf2 v d P ph).logS = [] := by
  cases ph <;> exact mkSys_logs _ _ _ _ _
theorem sysOf1_logs (v : Nat) (d : Bool) (P : Pkt) (ph : Ph1) :
    (sysOf1 v d P ph).logC = [] ∧ (sysOf1 v d P ph).logS = [] := by
  cases ph <;> exact mkSys_logs _ _ _ _ _

/-! ## closure: every action maps a phase's shape to the next phase's shape -/

/-- the application starts the exchange on any quiescent system -/
def startFromC (y : Sys) (P : Pkt) : Sys := appC (appC y .acquire) (.send P)
def startFromS (y : Sys) (P : Pkt) : Sys := appS (appS y .acquire) (.send P)
def startFrom (d : Bool) (y : Sys) (P : Pkt) : Sys := if d then startFromC y P else startFromS y P
/-- `startC` / `startS` by direction -/
def start (v : Nat) (d : Bool) (P : Pkt) : Sys := startFrom d (established v) P

theorem start_true (v : Nat) (P : Pkt) : start v true P = startC v P := rfl
theorem start_false (v : Nat) (P : Pkt) : start v false P = startS v P := rfl

theorem startFrom_prep (d : Bool) (lc ls : List Ev) (y : Sys) (P : Pkt) :
    startFrom d (prep lc ls y) P = prep lc ls (startFrom d y P) := by
  cases d <;> simp only [startFrom, startFromC, startFromS, appC_prep, appS_prep] <;> rfl

syntax "clsimp2" ident ident : tactic
macro_rules
  | `(tactic| clsimp2 $hv $hP) => `(tactic|
      (simp [act, start, startFrom, startFromC, startFromS, sysOf2, sysOf1, mkSys, sPub2, sPub1, sRel, rHandled,
        resume, handshake, lose, appC, appS, deliverS, deliverC, deliver1, cfgC, cfgS, sends,
        established_eq _ $hv, step_acquire _ _ $hv, step_send_pub2 _ _ $hv $hP,
        step_recv_pub2 _ _ $hv $hP, step_recv_pub2 _ _ $hv (IsPub.asDup $hP),
        step_recv_pub2_again _ _ $hv (IsPub.asDup $hP), step_recv_pubrec _ _ $hv $hP,
        step_recv_pubrel _ _ $hv, step_recv_pubrel_again _ _ $hv, step_recv_pubcomp _ _ $hv,
        step_recv_pubcompAgain _ _ $hv, step_closed, step_send_connect _ _ _ _ _ _ _ $hv,
        step_recv_connect _ _ _ _ _ _ _ $hv, step_send_connack0 _ _ _ _ _ _ $hv, step_recv_connack0 _ _ _ _ _ _ $hv,
        step_recv_connack1 _ _ _ _ _ _ $hv _ (IsPub.fits (IsPub.asDup $hP)),
        step_recv_connack1 _ _ _ _ _ _ $hv _ (sz_ack .pubrel (by decide)),
        step_send_connack1 _ _ _ _ _ _ $hv _ (IsPub.fits (IsPub.asDup $hP)),
        step_send_connack1 _ _ _ _ _ _ $hv _ (sz_ack .pubrel (by decide))]
       constructor <;>
         simp [pubNotes, releasedIds, errFree, isErr, IsPub.kind $hP, ack, connectPkt_kind, connackPkt_kind,
           pubcompAgain_kind, Pkt.asDup, note2, note1, rel2, rel1, next2, next1]))

syntax "clsimp1" ident ident : tactic
macro_rules
  | `(tactic| clsimp1 $hv $hP) => `(tactic|
      (simp [act, start, startFrom, startFromC, startFromS, sysOf2, sysOf1, mkSys, sPub2, sPub1, sRel, rHandled,
        resume, handshake, lose, appC, appS, deliverS, deliverC, deliver1, cfgC, cfgS, sends,
        established_eq _ $hv, step_acquire _ _ $hv, step_send_pub1 _ _ $hv $hP,
        step_recv_pub1 _ _ $hv $hP, step_recv_pub1 _ _ $hv (IsPub.asDup $hP), step_recv_puback _ _ $hv $hP,
        step_recv_pubrel _ _ $hv, step_recv_pubrel_again _ _ $hv, step_recv_pubcomp _ _ $hv,
        step_recv_pubcompAgain _ _ $hv, step_closed, step_send_connect _ _ _ _ _ _ _ $hv,
        step_recv_connect _ _ _ _ _ _ _ $hv, step_send_connack0 _ _ _ _ _ _ $hv, step_recv_connack0 _ _ _ _ _ _ $hv,
        step_recv_connack1 _ _ _ _ _ _ $hv _ (IsPub.fits (IsPub.asDup $hP)),
        step_recv_connack1 _ _ _ _ _ _ $hv _ (sz_ack .pubrel (by decide)),
        step_send_connack1 _ _ _ _ _ _ $hv _ (IsPub.fits (IsPub.asDup $hP)),
        step_send_connack1 _ _ _ _ _ _ $hv _ (sz_ack .pubrel (by decide))]
       constructor <;>
         simp [pubNotes, releasedIds, errFree, isErr, IsPub.kind $hP, ack, connectPkt_kind, connackPkt_kind,
           pubcompAgain_kind, Pkt.asDup, note2, note1, rel2, rel1, next2, next1]))

section closure
variable {v : Nat} {P : Pkt} (hv : v = 4 ∨ v = 5)
include hv

theorem start2 (hP : IsPub v 2 P) (d : Bool) : Obs d (sysOf2 v d P (.pub false)) [] [] (start v d P) := by
  cases d <;> clsimp2 hv hP

theorem start1 (hP : IsPub v 1 P) (d : Bool) : Obs d (sysOf1 v d P (.pub false)) [] [] (start v d P) := by
  cases d <;> clsimp1 hv hP

theorem closure2 (hP : IsPub v 2 P) (d : Bool) (ph : Ph2) (a : Act) :
    Obs d (sysOf2 v d P (next2 ph a)) (note2 P ph a) (rel2 ph a) (act v (sysOf2 v d P ph) a) := by
  cases d <;> cases a <;> cases ph <;> (try rename_i b; cases b) <;> clsimp2 hv hP

theorem closure1 (hP : IsPub v 1 P) (d : Bool) (ph : Ph1) (a : Act) :
    Obs d (sysOf1 v d P (next1 ph a)) (note1 P ph a) (rel1 ph a) (act v (sysOf1 v d P ph) a) := by
  cases d <;> cases a <;> cases ph <;> (try rename_i b; cases b) <;> clsimp1 hv hP

end closure


/-! ## two exchanges in flight (identifiers 1 and 2): step lemmas -/

/-- an application PUBLISH with identifier `id` (`IsPub` = `IsPubN _ _ 1`) -/
structure IsPubN (v q id : Nat) (P : Pkt) : Prop where
  ver : P.ver = v
  kind : P.kind = .publish
  qos : P.qos = q
  pid : P.pid = some id
  alias : P.alias = none
  topic : P.topic ≠ []
  nowild : hasWildcard P.topic = false
  fits : P.sz 2 ≤ noLimit

/-- the acknowledgements for identifier 2 -/
def ack2 (v : Nat) (k : Kind) : Pkt := { ver := v, kind := k, size := 4, pid := some 2 }
/-- `publish_recv` of a v5.0 receiver (v3.1.1 has no such set) -/
def prl (v : Nat) (l : List Nat) : List Nat := if v = 5 then l else []

section steps2
variable {v : Nat} {P1 P2 : Pkt} (r : Role) (b : Bool)

theorem fitsN {q id : Nat} {P : Pkt} (hP : IsPubN v q id P) : ¬ (268435461 < Pkt.sz 2 P) := by
  have := hP.fits; unfold noLimit at this; omega

/-- the second `acquire` hands out identifier 2 -/
theorem acquire2_gives_2 (store : List (Nat × Pkt)) (pa pr pc h prv : List Nat) :
    (acquire { cfg := ⟨r, 2⟩, s := mkSt v b .connected [⟨2, 65535⟩] store pa pr pc h prv }).1 = some 2 := by
  simp [acquire, Alloc.allocate, Alloc.allocateP, mkSt]

theorem step_acquire2 (store : List (Nat × Pkt)) (pa pr pc h prv : List Nat) :
    step ⟨r, 2⟩ (mkSt v b .connected [⟨2, 65535⟩] store pa pr pc h prv) .acquire =
      { cfg := ⟨r, 2⟩, s := mkSt v b .connected [⟨3, 65535⟩] store pa pr pc h prv, ev := [] } := by
  msimp

theorem step_send2_q2 (hv : v = 4 ∨ v = 5) (hP : IsPubN v 2 2 P2) (X : Pkt) (pa pr : List Nat) (hpr : 2 ∉ pr) :
    step ⟨r, 2⟩ (mkSt v b .connected [⟨3, 65535⟩] [(1, X)] pa pr [] [] []) (.send P2) =
      { cfg := ⟨r, 2⟩, s := mkSt v b .connected [⟨3, 65535⟩] [(1, X), (2, P2.asDup)] pa (2 :: pr) [] [] [],
        ev := [.send P2 none] } := by
  have hf := fitsN hP
  obtain ⟨h1, h2, h3, h4, h5, h6, h7, h8⟩ := hP
  rcases hv with rfl | rfl <;> msimp [h1, h2, h3, h4, h5, h6, h7, hf, hpr]

theorem step_send2_q1 (hv : v = 4 ∨ v = 5) (hP : IsPubN v 1 2 P2) (X : Pkt) (pa pr : List Nat) (hpa : 2 ∉ pa) :
    step ⟨r, 2⟩ (mkSt v b .connected [⟨3, 65535⟩] [(1, X)] pa pr [] [] []) (.send P2) =
      { cfg := ⟨r, 2⟩, s := mkSt v b .connected [⟨3, 65535⟩] [(1, X), (2, P2.asDup)] (2 :: pa) pr [] [] [],
        ev := [.send P2 none] } := by
  have hf := fitsN hP
  obtain ⟨h1, h2, h3, h4, h5, h6, h7, h8⟩ := hP
  rcases hv with rfl | rfl <;> msimp [h1, h2, h3, h4, h5, h6, h7, hf, hpa]

/-- proof of a delivery lemma: delivery = handler (`recvrw`), then unfold the handler (`recvfin`) -/
syntax "recvrw" ident ident ident : tactic
macro_rules
  | `(tactic| recvrw $hv $hA $hB) => `(tactic|
      rw [deliver_mkSt _ _ _ $hv _ _ _ _ _ _ _ _ (by simp [ack, ack2, IsPub.kind $hA, IsPubN.kind $hB, Kind.nibble])])
syntax "recvfin" ident ident : tactic
macro_rules
  | `(tactic| recvfin $hA $hB) => `(tactic|
      (obtain ⟨a1, a2, a3, a4, a5, a6, a7, a8⟩ := $hA
       obtain ⟨b1, b2, b3, b4, b5, b6, b7, b8⟩ := $hB
       msimp [a1, a2, a3, a4, a5, a6, a7, b1, b2, b3, b4, b5, b6, b7, ack2, prl]))

/-! ### sender, QoS 2 + QoS 2 -/
theorem s22_rec1 (hv : v = 4 ∨ v = 5) (hA : IsPub v 2 P1) (hB : IsPubN v 2 2 P2) :
    step ⟨r, 2⟩ (mkSt v b .connected [⟨3, 65535⟩] [(1, P1.asDup), (2, P2.asDup)] [] [2, 1] [] [] []) (deliverOp (ack v .pubrec)) =
      { cfg := ⟨r, 2⟩, s := mkSt v b .connected [⟨3, 65535⟩] [(2, P2.asDup), (1, ack v .pubrel)] [] [2] [1] [] [],
        ev := [.send (ack v .pubrel) none, .recv (ack v .pubrec)] } := by
  recvrw hv hA hB
  rcases hv with rfl | rfl <;> recvfin hA hB

theorem s22_rec2 (hv : v = 4 ∨ v = 5) (hA : IsPub v 2 P1) (hB : IsPubN v 2 2 P2) :
    step ⟨r, 2⟩ (mkSt v b .connected [⟨3, 65535⟩] [(2, P2.asDup), (1, ack v .pubrel)] [] [2] [1] [] []) (deliverOp (ack2 v .pubrec)) =
      { cfg := ⟨r, 2⟩, s := mkSt v b .connected [⟨3, 65535⟩] [(1, ack v .pubrel), (2, ack2 v .pubrel)] [] [] [2, 1] [] [],
        ev := [.send (ack2 v .pubrel) none, .recv (ack2 v .pubrec)] } := by
  recvrw hv hA hB
  rcases hv with rfl | rfl <;> recvfin hA hB

theorem s22_comp1 (hv : v = 4 ∨ v = 5) (hA : IsPub v 2 P1) (hB : IsPubN v 2 2 P2) :
    step ⟨r, 2⟩ (mkSt v b .connected [⟨3, 65535⟩] [(1, ack v .pubrel), (2, ack2 v .pubrel)] [] [] [2, 1] [] []) (deliverOp (ack v .pubcomp)) =
      { cfg := ⟨r, 2⟩, s := mkSt v b .connected [⟨1, 1⟩, ⟨3, 65535⟩] [(2, ack2 v .pubrel)] [] [] [2] [] [],
        ev := [.released 1, .recv (ack v .pubcomp)] } := by
  recvrw hv hA hB
  rcases hv with rfl | rfl <;> recvfin hA hB

/-- the last PUBCOMP (identifier 2, identifier 1 already free): back to idle -/
theorem s_comp2 (hv : v = 4 ∨ v = 5) (hA : IsPub v q P1) (hB : IsPubN v 2 2 P2) :
    step ⟨r, 2⟩ (mkSt v b .connected [⟨1, 1⟩, ⟨3, 65535⟩] [(2, ack2 v .pubrel)] [] [] [2] [] []) (deliverOp (ack2 v .pubcomp)) =
      { cfg := ⟨r, 2⟩, s := idle v b, ev := [.released 2, .recv (ack2 v .pubcomp)] } := by
  recvrw hv hA hB
  rcases hv with rfl | rfl <;> recvfin hA hB

/-! ### sender, QoS 2 + QoS 1 -/
theorem s21_rec1 (hv : v = 4 ∨ v = 5) (hA : IsPub v 2 P1) (hB : IsPubN v 1 2 P2) :
    step ⟨r, 2⟩ (mkSt v b .connected [⟨3, 65535⟩] [(1, P1.asDup), (2, P2.asDup)] [2] [1] [] [] []) (deliverOp (ack v .pubrec)) =
      { cfg := ⟨r, 2⟩, s := mkSt v b .connected [⟨3, 65535⟩] [(2, P2.asDup), (1, ack v .pubrel)] [2] [] [1] [] [],
        ev := [.send (ack v .pubrel) none, .recv (ack v .pubrec)] } := by
  recvrw hv hA hB
  rcases hv with rfl | rfl <;> recvfin hA hB

theorem s21_ack2 (hv : v = 4 ∨ v = 5) (hA : IsPub v 2 P1) (hB : IsPubN v 1 2 P2) :
    step ⟨r, 2⟩ (mkSt v b .connected [⟨3, 65535⟩] [(2, P2.asDup), (1, ack v .pubrel)] [2] [] [1] [] []) (deliverOp (ack2 v .puback)) =
      { cfg := ⟨r, 2⟩, s := mkSt v b .connected [⟨2, 65535⟩] [(1, ack v .pubrel)] [] [] [1] [] [],
        ev := [.released 2, .recv (ack2 v .puback)] } := by
  recvrw hv hA hB
  rcases hv with rfl | rfl <;> recvfin hA hB

/-! ### sender, QoS 1 + QoS 2 -/
theorem s12_ack1 (hv : v = 4 ∨ v = 5) (hA : IsPub v 1 P1) (hB : IsPubN v 2 2 P2) :
    step ⟨r, 2⟩ (mkSt v b .connected [⟨3, 65535⟩] [(1, P1.asDup), (2, P2.asDup)] [1] [2] [] [] []) (deliverOp (ack v .puback)) =
      { cfg := ⟨r, 2⟩, s := mkSt v b .connected [⟨1, 1⟩, ⟨3, 65535⟩] [(2, P2.asDup)] [] [2] [] [] [],
        ev := [.released 1, .recv (ack v .puback)] } := by
  recvrw hv hA hB
  rcases hv with rfl | rfl <;> recvfin hA hB

theorem s12_rec2 (hv : v = 4 ∨ v = 5) (hA : IsPub v 1 P1) (hB : IsPubN v 2 2 P2) :
    step ⟨r, 2⟩ (mkSt v b .connected [⟨1, 1⟩, ⟨3, 65535⟩] [(2, P2.asDup)] [] [2] [] [] []) (deliverOp (ack2 v .pubrec)) =
      { cfg := ⟨r, 2⟩, s := mkSt v b .connected [⟨1, 1⟩, ⟨3, 65535⟩] [(2, ack2 v .pubrel)] [] [] [2] [] [],
        ev := [.send (ack2 v .pubrel) none, .recv (ack2 v .pubrec)] } := by
  recvrw hv hA hB
  rcases hv with rfl | rfl <;> recvfin hA hB

/-! ### sender, QoS 1 + QoS 1 -/
theorem s11_ack1 (hv : v = 4 ∨ v = 5) (hA : IsPub v 1 P1) (hB : IsPubN v 1 2 P2) :
    step ⟨r, 2⟩ (mkSt v b .connected [⟨3, 65535⟩] [(1, P1.asDup), (2, P2.asDup)] [2, 1] [] [] [] []) (deliverOp (ack v .puback)) =
      { cfg := ⟨r, 2⟩, s := mkSt v b .connected [⟨1, 1⟩, ⟨3, 65535⟩] [(2, P2.asDup)] [2] [] [] [] [],
        ev := [.released 1, .recv (ack v .puback)] } := by
  recvrw hv hA hB
  rcases hv with rfl | rfl <;> recvfin hA hB

theorem s11_ack2 (hv : v = 4 ∨ v = 5) (hA : IsPub v 1 P1) (hB : IsPubN v 1 2 P2) :
    step ⟨r, 2⟩ (mkSt v b .connected [⟨1, 1⟩, ⟨3, 65535⟩] [(2, P2.asDup)] [2] [] [] [] []) (deliverOp (ack2 v .puback)) =
      { cfg := ⟨r, 2⟩, s := idle v b, ev := [.released 2, .recv (ack2 v .puback)] } := by
  recvrw hv hA hB
  rcases hv with rfl | rfl <;> recvfin hA hB

/-! ### receiver -/
theorem r_pub2q2_h1 (hv : v = 4 ∨ v = 5) (hA : IsPub v q P1) (hB : IsPubN v 2 2 P2) :
    step ⟨r, 2⟩ (mkSt v b .connected [⟨1, 65535⟩] [] [] [] [] [1] (pr5 v)) (deliverOp P2) =
      { cfg := ⟨r, 2⟩, s := mkSt v b .connected [⟨1, 65535⟩] [] [] [] [] [2, 1] (prl v [2, 1]),
        ev := [.send (ack2 v .pubrec) none, .recv P2] } := by
  recvrw hv hA hB
  rcases hv with rfl | rfl <;> recvfin hA hB

theorem r_pub2q1_h1 (hv : v = 4 ∨ v = 5) (hA : IsPub v q P1) (hB : IsPubN v 1 2 P2) :
    step ⟨r, 2⟩ (mkSt v b .connected [⟨1, 65535⟩] [] [] [] [] [1] (pr5 v)) (deliverOp P2) =
      { cfg := ⟨r, 2⟩, s := mkSt v b .connected [⟨1, 65535⟩] [] [] [] [] [1] (pr5 v),
        ev := [.send (ack2 v .puback) none, .recv P2] } := by
  recvrw hv hA hB
  rcases hv with rfl | rfl <;> recvfin hA hB

theorem r_pub2q2_idle (hv : v = 4 ∨ v = 5) (hA : IsPub v q P1) (hB : IsPubN v 2 2 P2) :
    step ⟨r, 2⟩ (mkSt v b .connected [⟨1, 65535⟩] [] [] [] [] [] []) (deliverOp P2) =
      { cfg := ⟨r, 2⟩, s := mkSt v b .connected [⟨1, 65535⟩] [] [] [] [] [2] (prl v [2]),
        ev := [.send (ack2 v .pubrec) none, .recv P2] } := by
  recvrw hv hA hB
  rcases hv with rfl | rfl <;> recvfin hA hB

theorem r_pub2q1_idle (hv : v = 4 ∨ v = 5) (hA : IsPub v q P1) (hB : IsPubN v 1 2 P2) :
    step ⟨r, 2⟩ (mkSt v b .connected [⟨1, 65535⟩] [] [] [] [] [] []) (deliverOp P2) =
      { cfg := ⟨r, 2⟩, s := mkSt v b .connected [⟨1, 65535⟩] [] [] [] [] [] [],
        ev := [.send (ack2 v .puback) none, .recv P2] } := by
  recvrw hv hA hB
  rcases hv with rfl | rfl <;> recvfin hA hB

theorem r_rel1_h21 (hv : v = 4 ∨ v = 5) (hA : IsPub v q P1) (hB : IsPubN v q' 2 P2) :
    step ⟨r, 2⟩ (mkSt v b .connected [⟨1, 65535⟩] [] [] [] [] [2, 1] (prl v [2, 1])) (deliverOp (ack v .pubrel)) =
      { cfg := ⟨r, 2⟩, s := mkSt v b .connected [⟨1, 65535⟩] [] [] [] [] [2] (prl v [2]),
        ev := [.send (ack v .pubcomp) none, .recv (ack v .pubrel)] } := by
  recvrw hv hA hB
  rcases hv with rfl | rfl <;> recvfin hA hB

theorem r_rel2_h2 (hv : v = 4 ∨ v = 5) (hA : IsPub v q P1) (hB : IsPubN v q' 2 P2) :
    step ⟨r, 2⟩ (mkSt v b .connected [⟨1, 65535⟩] [] [] [] [] [2] (prl v [2])) (deliverOp (ack2 v .pubrel)) =
      { cfg := ⟨r, 2⟩, s := mkSt v b .connected [⟨1, 65535⟩] [] [] [] [] [] [],
        ev := [.send (ack2 v .pubcomp) none, .recv (ack2 v .pubrel)] } := by
  recvrw hv hA hB
  rcases hv with rfl | rfl <;> recvfin hA hB

end steps2


/-! ## deliveries commute: the pair is a deterministic process network

Each endpoint reads one FIFO channel and appends to the other, so a delivery to the server and
a delivery to the client commute whenever both are enabled.  Hence every interleaving of
deliveries ends, once everything is delivered, in the very state (logs included) the
deterministic schedule `drain` reaches. -/

inductive Side | toS | toC
deriving DecidableEq, Repr

/-- deliver the head of the chosen channel (nothing happens if it is empty) -/
def deliverAt (y : Sys) : Side → Sys
  | .toS => deliverS y
  | .toC => deliverC y

def runSides : Sys → List Side → Sys
  | y, [] => y
  | y, a :: as => runSides (deliverAt y a) as

theorem deliver_comm (y : Sys) (h1 : y.c2s ≠ []) (h2 : y.s2c ≠ []) :
    deliverS (deliverC y) = deliverC (deliverS y) := by
  rcases y with ⟨c, s, c2s, s2c, lC, lS⟩
  cases c2s with
  | nil => exact absurd rfl h1
  | cons p rest =>
    cases s2c with
    | nil => exact absurd rfl h2
    | cons p' rest' => simp [deliverS, deliverC]

theorem deliverC_c2s_ne (y : Sys) (h1 : y.c2s ≠ []) : (deliverC y).c2s ≠ [] := by
  rcases y with ⟨c, s, c2s, s2c, lC, lS⟩
  cases s2c <;> simp [deliverC] <;> intro h <;> exact absurd h h1

theorem drain_succ' (k : Nat) (z : Sys) : drain (k + 1) z = deliver1 (drain k z) := by
  rw [drain_add k 1]; rfl

theorem deliver1_quiet (z : Sys) (h1 : z.c2s = []) (h2 : z.s2c = []) : deliver1 z = z := by
  simp [deliver1, h1, deliverC, h2]

/-- one extra delivery anywhere, at any time, does not change where `drain` ends up -/
theorem drain_deliverAt (k : Nat) : ∀ (y : Sys) (a : Side),
    (drain k y).c2s = [] → (drain k y).s2c = [] → drain k (deliverAt y a) = drain k y := by
  induction k with
  | zero =>
    intro y a h1 h2
    simp only [drain] at h1 h2 ⊢
    cases a <;> simp [deliverAt, deliverS, deliverC, h1, h2]
  | succ k ih =>
    intro y a h1 h2
    -- the state after the deterministic first step is quiet after `k` more
    have q1 : (drain k (deliver1 y)).c2s = [] := h1
    have q2 : (drain k (deliver1 y)).s2c = [] := h2
    have same : ∀ z, z = deliver1 y → drain (k + 1) z = drain (k + 1) y := by
      intro z hz
      rw [hz, drain_succ', deliver1_quiet _ q1 q2]; rfl
    by_cases hc : y.c2s = []
    · by_cases hs : y.s2c = []
      · cases a <;> simp [deliverAt, deliverS, deliverC, hc, hs]
      · have d1 : deliver1 y = deliverC y := by simp [deliver1, hc]
        cases a
        · simp [deliverAt, deliverS, hc]
        · exact same _ d1.symm
    · have d1 : deliver1 y = deliverS y := by simp [deliver1, hc]
      cases a
      · exact same _ d1.symm
      · by_cases hs : y.s2c = []
        · simp [deliverAt, deliverC, hs]
        · -- both enabled: commute
          show drain (k + 1) (deliverC y) = drain (k + 1) y
          have e1 : deliver1 (deliverC y) = deliverC (deliverS y) := by
            have : (deliverC y).c2s ≠ [] := deliverC_c2s_ne y hc
            simp only [deliver1, this, ne_eq, not_false_eq_true, if_true]
            exact deliver_comm y hc hs
          show drain k (deliver1 (deliverC y)) = drain k (deliver1 y)
          rw [e1, d1]
          have := ih (deliverS y) .toC (by rw [← d1]; exact q1) (by rw [← d1]; exact q2)
          exact this

/-- **confluence**: if the deterministic schedule delivers everything within `k` steps, then
    after ANY interleaving of deliveries `k` further steps end in the same state, logs included -/
theorem drain_runSides (k : Nat) (σ : List Side) : ∀ (y : Sys),
    (drain k y).c2s = [] → (drain k y).s2c = [] → drain k (runSides y σ) = drain k y := by
  induction σ with
  | nil => intro y _ _; rfl
  | cons a as ih =>
    intro y h1 h2
    have e := drain_deliverAt k y a h1 h2
    show drain k (runSides (deliverAt y a) as) = _
    rw [ih (deliverAt y a) (by rw [e]; exact h1) (by rw [e]; exact h2), e]

end MqttVerif.Conn.Pair
