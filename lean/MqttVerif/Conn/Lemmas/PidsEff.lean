import MqttVerif.Conn.Lemmas.Pids
/-!
# Helper lemmas for C08 — part 3: the effect of every model function on the set of ids in use

`Eff b c c'`: going from `c` to `c'` only releases ids; the ids announced (`released` events
appended) are distinct, were in use, are free afterwards; nothing becomes used; and
* `b = false`: every id that was in use and is not announced is still in use
  (**released exactly when it turns free**);
* `b = true`: `clearStoreRelated` ran — afterwards no id is in use.
-/
set_option linter.unusedSimpArgs false
set_option linter.unusedVariables false
namespace MqttVerif.Conn
open MqttVerif

theorem Wf.congr {c c' : C} (h : Wf c) (h1 : c'.cfg = c.cfg) (h2 : c'.s.pidMan = c.s.pidMan) : Wf c' := by
  unfold Wf PidWf at *
  rw [h1, h2]; exact h

theorem Wf.range {c : C} (h : Wf c) {id : Nat} (hu : isUsed c.s id = true) : 1 ≤ id ∧ id ≤ c.cfg.idMax :=
  h.2.w.isUsed_range hu

structure Eff (b : Bool) (c c' : C) : Prop where
  cfg : c'.cfg = c.cfg
  wf : Wf c'
  ex : ∃ r, Mon.releasedIds c'.ev = Mon.releasedIds c.ev ++ r ∧ r.Nodup ∧
        (∀ id ∈ r, isUsed c.s id = true ∧ isUsed c'.s id = false) ∧
        (∀ id, isUsed c'.s id = true → isUsed c.s id = true) ∧
        (b = false → ∀ id, isUsed c.s id = true → id ∉ r → isUsed c'.s id = true) ∧
        (b = true → ∀ id, isUsed c'.s id = false)

theorem Eff.of_quiet {c c' : C} (h : Wf c) (q : Quiet c c') : Eff false c c' := by
  obtain ⟨q1, q2, q3⟩ := q
  refine ⟨q1, h.congr q1 q2, [], by simp [q3], List.nodup_nil, by simp, ?_, ?_, by simp⟩
  · intro x hx; rw [isUsed_congr q2] at hx; exact hx
  · intro _ id hu _; rw [isUsed_congr q2]; exact hu

theorem Eff.refl {c : C} (h : Wf c) : Eff false c c := Eff.of_quiet h (Quiet.refl c)

theorem Eff.trans {b1 b2 : Bool} {c c' c'' : C} (e1 : Eff b1 c c') (e2 : Eff b2 c' c'') :
    Eff (b1 || b2) c c'' := by
  obtain ⟨k1, w1, r1, a1, a2, a3, a4, a5, a6⟩ := e1
  obtain ⟨k2, w2, r2, b1', b2', b3, b4, b5, b6⟩ := e2
  refine ⟨k2.trans k1, w2, r1 ++ r2, by rw [b1', a1, List.append_assoc], ?_, ?_, ?_, ?_, ?_⟩
  · rw [List.nodup_append]
    refine ⟨a2, b2', ?_⟩
    intro x hx y hy e
    subst e
    have := (a3 x hx).2
    have := (b3 x hy).1
    simp_all
  · intro id hm
    rcases List.mem_append.1 hm with hm | hm
    · refine ⟨(a3 id hm).1, ?_⟩
      cases hc : isUsed c''.s id with
      | false => rfl
      | true => have := b4 id hc; have := (a3 id hm).2; simp_all
    · exact ⟨a4 id (b3 id hm).1, (b3 id hm).2⟩
  · intro id h; exact a4 id (b4 id h)
  · intro hb id hu hn
    simp only [Bool.or_eq_false_iff] at hb
    simp only [List.mem_append, not_or] at hn
    exact b5 hb.2 id (a5 hb.1 id hu hn.1) hn.2
  · intro hb id
    simp only [Bool.or_eq_true] at hb
    rcases hb with hb | hb
    · cases hc : isUsed c''.s id with
      | false => rfl
      | true => have := b4 id hc; have := a6 hb id; simp_all
    · exact b6 hb id

theorem Eff.quiet_right {b : Bool} {c c' c'' : C} (e : Eff b c c') (q : Quiet c' c'') : Eff b c c'' := by
  have := e.trans (Eff.of_quiet e.wf q)
  simpa using this

theorem Eff.quiet_left {b : Bool} {c c' c'' : C} (h : Wf c) (q : Quiet c c') (e : Eff b c' c'') : Eff b c c'' := by
  have := (Eff.of_quiet h q).trans e
  simpa using this

theorem Wf.quiet {c c' : C} (h : Wf c) (q : Quiet c c') : Wf c' := h.congr q.1 q.2.1

theorem Eff.cast {b b' : Bool} {c c' : C} (e : Eff b c c') (h : b = b') : Eff b' c c' := h ▸ e

/-! ## the release primitive -/

theorem releaseId_eq {c : C} (h : Wf c) {id : Nat} (hu : isUsed c.s id = true) :
    releaseId c id = { c with s := { c.s with pidMan := (Alloc.deallocate c.s.pidMan id).2 } } := by
  have := (h.2.w.dealloc hu).1
  unfold releaseId
  simp only [this]

theorem releaseIfUsed_unused {c : C} {id : Nat} (hu : isUsed c.s id = false) : releaseIfUsed c id = c := by
  simp [releaseIfUsed, hu]

theorem releaseIfUsed_used {c : C} (h : Wf c) {id : Nat} (hu : isUsed c.s id = true) :
    releaseIfUsed c id =
      ({ c with s := { c.s with pidMan := (Alloc.deallocate c.s.pidMan id).2 } } : C).push (.released id) := by
  simp only [releaseIfUsed, hu, if_true, releaseId_eq h hu]

@[simp] theorem releaseId_ev (c : C) (id : Nat) : (releaseId c id).ev = c.ev := by
  cases h : (Alloc.deallocate c.s.pidMan id).1 <;> simp [releaseId, h]
@[simp] theorem releaseId_cfg (c : C) (id : Nat) : (releaseId c id).cfg = c.cfg := by
  cases h : (Alloc.deallocate c.s.pidMan id).1 <;> simp [releaseId, h]

theorem releaseIfUsed_rel {c : C} (id : Nat) :
    Mon.releasedIds (releaseIfUsed c id).ev =
      Mon.releasedIds c.ev ++ (if isUsed c.s id = true then [id] else []) := by
  unfold releaseIfUsed
  split
  · simp [Mon.releasedIds]
  · simp

@[simp] theorem releaseIfUsed_cfg (c : C) (id : Nat) : (releaseIfUsed c id).cfg = c.cfg := by
  unfold releaseIfUsed; split <;> simp

theorem releaseIfUsed_eff {c : C} (h : Wf c) (id : Nat) : Eff false c (releaseIfUsed c id) := by
  cases hu : isUsed c.s id with
  | false => rw [releaseIfUsed_unused hu]; exact Eff.refl h
  | true =>
    obtain ⟨d1, d2, d3⟩ := h.2.w.dealloc hu
    have e := releaseIfUsed_used h hu
    refine ⟨by simp, ?_, [id], ?_, by simp, ?_, ?_, ?_, by simp⟩
    · rw [e]; exact ⟨h.1, d2⟩
    · rw [releaseIfUsed_rel, hu]; simp
    · intro x hx
      simp only [List.mem_singleton] at hx; subst hx
      refine ⟨hu, ?_⟩
      rw [e]
      cases hc : isUsed (_ : C).s x with
      | false => rfl
      | true => have := (d3 x).1 hc; simp_all
    · intro x hx; rw [e] at hx; exact ((d3 x).1 hx).1
    · intro _ x hx hn
      rw [e]
      simp only [List.mem_singleton] at hn
      exact (d3 x).2 ⟨hx, hn⟩

/-- everything `releaseIfUsed` does to the state: the allocator only -/
theorem releaseIfUsed_s (c : C) (h : Wf c) (id : Nat) :
    (releaseIfUsed c id).s = { c.s with pidMan := (releaseIfUsed c id).s.pidMan } := by
  cases hu : isUsed c.s id with
  | false => rw [releaseIfUsed_unused hu]
  | true => rw [releaseIfUsed_used h hu]; rfl

theorem clearStoreRelated_eff {c : C} (h : Wf c) : Eff true c (clearStoreRelated c) := by
  refine ⟨rfl, ⟨h.1, Alloc.W_clear h.1 h.2.w⟩, [], by simp [clearStoreRelated], List.nodup_nil, by simp, ?_, by simp, ?_⟩
  · intro id hu
    have : isUsed (clearStoreRelated c).s id = false := Alloc.clear_isUsed _ _
    simp_all
  · intro _ id; exact Alloc.clear_isUsed _ _

theorem Eff.via {b : Bool} {c c' c'' : C} (h : Wf c) (q : Quiet c c') (e : Wf c' → Eff b c' c'') :
    Eff b c c'' := Eff.quiet_left h q (e (h.quiet q))

theorem Eff.trans_ff {c c' c'' : C} (e1 : Eff false c c') (e2 : Wf c' → Eff false c' c'') :
    Eff false c c'' := by
  simpa using e1.trans (e2 e1.wf)

/-! ## `send_stored` -/
theorem sendStoredLoop_eff (l : List (Nat × Pkt)) : ∀ c, Wf c → Eff false c (sendStoredLoop c l).1 := by
  induction l with
  | nil => intro c h; exact Eff.refl h
  | cons x rest ih =>
    intro c h
    obtain ⟨id, p⟩ := x
    rw [sendStoredLoop]
    split
    · simp only []
      refine Eff.via (c' := { c with s := { c.s with puback := del id c.s.puback, pubrec := del id c.s.pubrec,
                                                       pubcomp := del id c.s.pubcomp } }) h ⟨rfl, rfl, rfl⟩ (fun h0 => ?_)
      exact (releaseIfUsed_eff h0 id).trans_ff (fun h' => ih _ h')
    · exact Eff.via h (by quiet_tac) (fun h' => ih _ h')

/-- the counter reset at the start of `send_stored` -/
def ssReset (c : C) : C :=
  if c.s.sendMax.isSome then { c with s := { c.s with sendCount := 0 } } else c

theorem ssReset_q (c : C) : Quiet c (ssReset c) := by unfold ssReset; quiet_tac

theorem sendStored_eq (c : C) :
    sendStored c =
      { (sendStoredLoop (ssReset c) (ssReset c).s.store).1 with
        s := { (sendStoredLoop (ssReset c) (ssReset c).s.store).1.s with
               store := (sendStoredLoop (ssReset c) (ssReset c).s.store).2 } } := rfl

theorem sendStored_eff {c : C} (h : Wf c) : Eff false c (sendStored c) := by
  rw [sendStored_eq]
  refine Eff.quiet_right (c' := (sendStoredLoop (ssReset c) (ssReset c).s.store).1) ?_ ⟨rfl, rfl, rfl⟩
  exact Eff.via h (ssReset_q c) (fun h' => sendStoredLoop_eff _ _ h')

theorem resendStored_eff {c : C} (h : Wf c) : Eff false c (resendStored c) :=
  resendStored_ind (Q := fun x => Eff false c x) c (sendStored_eff h)
    (fun e => e.quiet_right (sendPostProcess_q _))

/-! ## projection forms: an `Eff` from what happened to `(cfg, pidMan, released ids)` -/

theorem Eff.of_proj {b : Bool} {c c' : C} (h : Wf c) (h1 : c'.cfg = c.cfg)
    (h2 : Mon.releasedIds c'.ev = Mon.releasedIds c.ev)
    (h3 : c'.s.pidMan = if b = true then Alloc.clear c.s.pidMan else c.s.pidMan) : Eff b c c' := by
  cases b with
  | false => exact Eff.of_quiet h ⟨h1, by simpa using h3, h2⟩
  | true =>
    have e := clearStoreRelated_eff h
    have q : Quiet (clearStoreRelated c) c' := ⟨h1, by simpa [clearStoreRelated] using h3, by simpa [clearStoreRelated] using h2⟩
    exact e.quiet_right q

theorem releaseIfUsed_pidMan (c : C) (id : Nat) :
    (releaseIfUsed c id).s.pidMan =
      if Alloc.isUsed c.s.pidMan id = true then (Alloc.deallocate c.s.pidMan id).2 else c.s.pidMan := by
  unfold releaseIfUsed isUsed
  split
  · cases h : (Alloc.deallocate c.s.pidMan id).1 <;> simp [releaseId, h]
  · rfl

theorem releaseIfUsed_rel' (c : C) (id : Nat) :
    Mon.releasedIds (releaseIfUsed c id).ev =
      Mon.releasedIds c.ev ++ (if Alloc.isUsed c.s.pidMan id = true then [id] else []) :=
  releaseIfUsed_rel id

/-- an `Eff` from: exactly `releaseIfUsed id` happened to `(cfg, pidMan, released ids)` -/
theorem Eff.of_release {c c' : C} (h : Wf c) (id : Nat) (h1 : c'.cfg = c.cfg)
    (h2 : Mon.releasedIds c'.ev =
      Mon.releasedIds c.ev ++ (if Alloc.isUsed c.s.pidMan id = true then [id] else []))
    (h3 : c'.s.pidMan =
      if Alloc.isUsed c.s.pidMan id = true then (Alloc.deallocate c.s.pidMan id).2 else c.s.pidMan) :
    Eff false c c' :=
  (releaseIfUsed_eff h id).quiet_right
    ⟨by simp [h1], by rw [h3, releaseIfUsed_pidMan], by rw [h2, releaseIfUsed_rel']⟩

@[simp] theorem clearStoreRelated_cfg (c : C) : (clearStoreRelated c).cfg = c.cfg := by cases c; rfl
@[simp] theorem clearStoreRelated_ev (c : C) : (clearStoreRelated c).ev = c.ev := by cases c; rfl
@[simp] theorem clearStoreRelated_pidMan (c : C) : (clearStoreRelated c).s.pidMan = Alloc.clear c.s.pidMan := by
  cases c; rfl

macro "eff_tac" : tactic =>
  `(tactic| simp [Quiet, ite_cfg, ite_s, ite_ev, ite_pidMan, ite_rel, ite_fst, ite_snd, Mon.releasedIds,
      isUsed, releaseIfUsed_pidMan, releaseIfUsed_rel'])

/-! ## send side -/

/-- `clearStoreRelated` runs in `psV3Connect` -/
def psV3ConnectClears (c : C) (p : Pkt) : Bool := decide (c.s.status = .disconnected) && p.clean
def psV5ConnectClears (c : C) (p : Pkt) : Bool :=
  sizeOk c p && decide (c.s.status = .disconnected) && p.clean

theorem psV3Connect_eff {c : C} (h : Wf c) (p : Pkt) : Eff (psV3ConnectClears c p) c (psV3Connect c p) := by
  unfold psV3Connect psV3ConnectClears
  by_cases hs : c.s.status = .disconnected <;> cases hc : p.clean <;>
    simp only [hs, hc, ne_eq, not_true_eq_false, not_false_eq_true, if_true, if_false, decide_true,
      decide_false, Bool.and_self, Bool.and_false, Bool.false_and, Bool.true_and, Bool.false_eq_true] <;>
    apply Eff.of_proj h <;> eff_tac

theorem psV5Connect_eff {c : C} (h : Wf c) (p : Pkt) : Eff (psV5ConnectClears c p) c (psV5Connect c p) := by
  unfold psV5Connect psV5ConnectClears
  by_cases hs : c.s.status = .disconnected <;> cases hc : p.clean <;> cases hz : sizeOk c p <;>
    simp only [hs, hc, hz, ne_eq, not_true_eq_false, not_false_eq_true, if_true, if_false, decide_true,
      decide_false, Bool.and_self, Bool.and_false, Bool.false_and, Bool.true_and, Bool.false_eq_true,
      Bool.not_true, Bool.not_false] <;>
    apply Eff.of_proj h <;> eff_tac

/-- `clearStoreRelated` runs in `psV3Connack`: an accepted CONNACK(success) sent with session
    present = false (a new session starts) -/
def psV3ConnackClears (c : C) (p : Pkt) : Bool :=
  decide (c.s.status = .connecting) && decide (p.rc = some 0) && !p.sp
def psV5ConnackClears (c : C) (p : Pkt) : Bool :=
  sizeOk c p && decide (c.s.status = .connecting) && decide (p.rc = some 0) && !p.sp

theorem psV3ConnackClears_of_rc {c : C} {p : Pkt} (h : p.rc ≠ some 0) : psV3ConnackClears c p = false := by
  simp [psV3ConnackClears, h]
theorem psV5ConnackClears_of_rc {c : C} {p : Pkt} (h : p.rc ≠ some 0) : psV5ConnackClears c p = false := by
  simp [psV5ConnackClears, h]

/-- the CONNACK built for a refused CONNECT never clears -/
theorem psV3ConnackClears_errRc (c : C) (e : Nat) : psV3ConnackClears c (mkV3Connack (v3ConnectErrRc e)) = false := by
  apply psV3ConnackClears_of_rc
  simp only [mkV3Connack, v3ConnectErrRc]; repeat' split
  all_goals simp
theorem psV5ConnackClears_errRc (c : C) (e : Nat) : psV5ConnackClears c (mkV5Connack (v5ConnectErrRc e)) = false := by
  apply psV5ConnackClears_of_rc
  simp only [mkV5Connack, v5ConnectErrRc]; repeat' split
  all_goals simp

theorem psV3Connack_eff {c : C} (h : Wf c) (p : Pkt) : Eff (psV3ConnackClears c p) c (psV3Connack c p) := by
  unfold psV3Connack psV3ConnackClears
  by_cases hs : c.s.status = .connecting
  · simp only [hs, ne_eq, not_true_eq_false, if_false, decide_true, Bool.true_and]
    by_cases hrc : p.rc = some 0
    · simp only [hrc, not_true_eq_false, if_false, decide_true, Bool.true_and]
      refine Eff.quiet_right ?_ (sendPostProcess_q _)
      cases hsp : p.sp
      · simp only [Bool.false_eq_true, if_false, Bool.not_false]
        exact Eff.via h (by quiet_tac) (fun h' => clearStoreRelated_eff h')
      · simp only [if_true, Bool.not_true]
        exact Eff.via h (by quiet_tac) (fun h' => sendStored_eff h')
    · simp only [hrc, not_false_eq_true, if_true, decide_false, Bool.false_and]
      exact Eff.of_quiet h (by quiet_tac)
  · simp only [hs, ne_eq, not_false_eq_true, if_true, decide_false, Bool.false_and]
    exact Eff.of_quiet h (by quiet_tac)

theorem psV5Connack_eff {c : C} (h : Wf c) (p : Pkt) : Eff (psV5ConnackClears c p) c (psV5Connack c p) := by
  unfold psV5Connack psV5ConnackClears
  cases hz : sizeOk c p
  · simp only [Bool.not_false, if_true, Bool.false_and]
    exact Eff.of_quiet h (by quiet_tac)
  simp only [Bool.not_true, Bool.false_eq_true, if_false, Bool.true_and]
  by_cases hs : c.s.status = .connecting
  · simp only [hs, ne_eq, not_true_eq_false, if_false, decide_true, Bool.true_and]
    by_cases hrc : p.rc = some 0
    · simp only [hrc, if_true, not_true_eq_false, if_false, decide_true, Bool.true_and]
      refine Eff.quiet_right ?_ (sendPostProcess_q _)
      cases hsp : p.sp
      · simp only [Bool.false_eq_true, if_false, Bool.not_false]
        exact Eff.via h (Quiet.trans (propsFold_connackSendProp_q c p.props) (by quiet_tac))
          (fun h' => clearStoreRelated_eff h')
      · simp only [if_true, Bool.not_true]
        exact Eff.via h (Quiet.trans (propsFold_connackSendProp_q c p.props) (by quiet_tac))
          (fun h' => sendStored_eff h')
    · simp only [hrc, if_false, not_false_eq_true, if_true, decide_false, Bool.false_and]
      exact Eff.of_quiet h (by quiet_tac)
  · simp only [hs, ne_eq, not_false_eq_true, if_true, decide_false, Bool.false_and]
    exact Eff.of_quiet h (by quiet_tac)

theorem psV3Publish_eff {c : C} (h : Wf c) (p : Pkt) : Eff false c (psV3Publish c p) := by
  unfold psV3Publish
  split
  · split
    · exact Eff.of_quiet h (by quiet_tac)
    · rename_i id _
      split
      · apply Eff.of_release h id <;> eff_tac
      · exact Eff.of_quiet h (by quiet_tac)
  · exact Eff.of_quiet h (by quiet_tac)

theorem pubRefuseCleanup_eff {c : C} (h : Wf c) (pid : Option Nat) : Eff false c (pubRefuseCleanup c pid) := by
  unfold pubRefuseCleanup
  split
  · exact Eff.refl h
  · rename_i id
    apply Eff.of_release h id
    · split <;> simp
    · split <;> simp_all [Mon.releasedIds, isUsed]
    · split
      · rename_i hu
        have := releaseIfUsed_pidMan c id
        simp only [releaseIfUsed, hu, if_true, push_s] at this
        simpa using this
      · simp_all [isUsed]

macro "eff_branch" : tactic =>
  `(tactic| first
    | (refine Eff.of_quiet ‹Wf _› ?_; quiet_tac; done)
    | (refine Eff.via ‹Wf _› ?_ (fun h' => pubRefuseCleanup_eff h' _); quiet_tac; done)
    | (refine Eff.via ‹Wf _› ?_ (fun h' => releaseIfUsed_eff h' _); quiet_tac; done))

theorem psV5PublishAlias_eff {c : C} (h : Wf c) (p : Pkt) (rel : Option Nat) (v : Bool) :
    Eff false c (psV5PublishAlias c p rel v) := by
  unfold psV5PublishAlias
  simp only []
  (repeat' split) <;> eff_branch

macro "eff_branch2" : tactic =>
  `(tactic| first
    | eff_branch
    | exact psV5PublishAlias_eff ‹Wf _› _ _ _
    | (refine Eff.via ‹Wf _› ?_ (fun h' => psV5PublishAlias_eff h' _ _ _); quiet_tac; done))

theorem psV5Publish_eff {c : C} (h : Wf c) (p : Pkt) : Eff false c (psV5Publish c p) := by
  unfold psV5Publish
  (repeat' (first | split | (simp only []; split))) <;> eff_branch2

theorem psSubUnsub_eff {c : C} (h : Wf c) (p : Pkt) : Eff false c (psSubUnsub c p) := by
  unfold psSubUnsub
  simp only []
  (repeat' split) <;> eff_branch

/-- fix 1d0ef05: a send refused for version or role releases the identifier obtained for it -/
theorem refuseSend_eff {c : C} (h : Wf c) (e : Nat) (p : Pkt) : Eff false c (refuseSend c e p) := by
  unfold refuseSend
  split <;> eff_branch

def processSendClears (c : C) (p : Pkt) : Bool :=
  if p.kind = .connect then (if p.ver = 4 then psV3ConnectClears c p else psV5ConnectClears c p)
  else if p.kind = .connack then (if p.ver = 4 then psV3ConnackClears c p else psV5ConnackClears c p)
  else false

/-- `clearStoreRelated` runs in `send c p`: an accepted CONNECT with clean start, or an accepted
    CONNACK(success) with session present = false -/
def sendClears (c : C) (p : Pkt) : Bool :=
  decide (c.s.ver = p.ver) && roleMaySend c.cfg.role p && processSendClears c p

theorem processSend_eff {c : C} (h : Wf c) (p : Pkt) : Eff (processSendClears c p) c (processSend c p) := by
  unfold processSend processSendClears
  by_cases hv : p.ver = 4 <;> cases hk : p.kind <;>
    simp only [hv, if_true, if_false, reduceCtorEq] <;>
    first
    | exact psV3Connect_eff h p
    | exact psV5Connect_eff h p
    | exact psV3Connack_eff h p
    | exact psV5Connack_eff h p
    | exact psV3Publish_eff h p
    | exact psV5Publish_eff h p
    | exact psSubUnsub_eff h p
    | exact Eff.refl h
    | (refine Eff.of_quiet h ?_; quiet_tac; done)

theorem send_eff {c : C} (h : Wf c) (p : Pkt) : Eff (sendClears c p) c (send c p) := by
  unfold send sendClears
  split
  · rename_i hv; simp only [ne_eq] at hv
    simp only [hv, decide_false, Bool.false_and]
    exact refuseSend_eff h _ p
  rename_i hv; simp only [ne_eq, Decidable.not_not] at hv
  split
  · rename_i hr; simp only [Bool.not_eq_true'] at hr
    simp only [hr, Bool.and_false, Bool.false_and]
    exact refuseSend_eff h _ p
  · rename_i hr; simp only [Bool.not_eq_true', Bool.not_eq_false] at hr
    simp only [hv, hr, decide_true, Bool.true_and]
    exact processSend_eff h p

end MqttVerif.Conn
