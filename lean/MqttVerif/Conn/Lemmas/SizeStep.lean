import MqttVerif.Conn.Lemmas.SizeRecv
import MqttVerif.Conn.Lemmas.CloseRecv
/-!
# C14 helper lemmas: one API call, limit taken *after* the call
-/
namespace MqttVerif.Conn
open MqttVerif

/-- the events of `c'` fit the limit that is in force in `c'`, if those of `c` do -/
def WStep (B : Prop) (c c' : C) : Prop :=
  c'.cfg = c.cfg ∧
    (EvAll (W B c'.s.mpsSend c.cfg.pw) c.ev → EvAll (W B c'.s.mpsSend c.cfg.pw) c'.ev)

section
variable {B : Prop}

theorem WStep_of_fr {c c' : C} (hf : Fr c c')
    (hw : ∀ L pw, Cx c L pw → EvAll (W B L pw) c.ev → EvAll (W B L pw) c'.ev) : WStep B c c' :=
  ⟨hf.1, fun h => hw _ _ ⟨hf.2.symm, rfl⟩ h⟩

theorem WStep_err {c c' : C} (h : WStep B c c') (e : Nat) : WStep B c (c'.err e) :=
  ⟨h.1, fun h0 => by simpa [W_lax.er] using h.2 h0⟩

theorem prV5Connect_WS (c : C) (parsed) : WStep B c (prV5Connect c parsed) := by
  by_cases hn : c.s.status = .disconnected ∧ ∃ p, parsed = .ok p
  · obtain ⟨hd, p, rfl⟩ := hn
    exact ⟨by simp [prV5Connect, hd, apply_ite C.cfg], fun h => prV5Connect_ok_all W_lax c p hd h⟩
  · exact WStep_of_fr (prV5Connect_other_fr c parsed hn) (fun L pw cx h => prV5Connect_other_W c parsed cx hn h)

theorem prV5Connack_cfg (c : C) (parsed) : (prV5Connack c parsed).cfg = c.cfg := by
  unfold prV5Connack
  (repeat' split) <;> simp [apply_ite C.cfg]

theorem prV5Connack_WS (c : C) (parsed) : WStep B c (prV5Connack c parsed) := by
  by_cases hn : c.s.status ≠ .connected ∧ ∃ p, parsed = .ok p ∧ p.rc = some 0
  · obtain ⟨hd, p, rfl, hr⟩ := hn
    exact ⟨prV5Connack_cfg c _, fun h => prV5Connack_acc_W c p hd hr rfl rfl h⟩
  · exact WStep_of_fr (prV5Connack_other_fr c parsed hn) (fun L pw cx h => prV5Connack_other_W c parsed cx hn h)

theorem dispatchRecv_WS (c : C) (t parsed) (hB1 : c.s.ver = 4 → B)
    (hB2 : ∀ p, parsed = .ok p → p.ver ≠ 5 → B) : WStep B c (dispatchRecv c t parsed) := by
  unfold dispatchRecv
  split
  · split
    · rename_i h4
      exact WStep_of_fr (prV3Connect_fr c _) (fun L pw cx h => prV3Connect_W c _ cx (hB1 h4) h)
    · exact prV5Connect_WS c _
  · split
    · exact WStep_of_fr (prV3Connack_fr c _) (fun L pw cx h => prV3Connack_W c _ cx h)
    · exact prV5Connack_WS c _
  · split
    · rename_i h4
      exact WStep_of_fr (prV3Publish_fr c _) (fun L pw cx h => prV3Publish_W c _ (hB1 h4) h)
    · exact WStep_of_fr (prV5Publish_fr c _) (fun L pw cx h => prV5Publish_W c _ cx h)
  · exact WStep_of_fr (prPuback_fr c _) (fun L pw cx h => prPuback_W c _ cx h)
  · exact WStep_of_fr (prPubrec_fr c _) (fun L pw cx h => prPubrec_W c _ cx hB2 h)
  · exact WStep_of_fr (prPubrel_fr c _) (fun L pw cx h => prPubrel_W c _ cx hB2 h)
  · exact WStep_of_fr (prPubcomp_fr c _) (fun L pw cx h => prPubcomp_W c _ cx h)
  · exact WStep_of_fr (prPlain_fr c _) (fun L pw cx h => prPlain_W c _ cx h)
  · exact WStep_of_fr (prSubUnsuback_fr c _ _) (fun L pw cx h => prSubUnsuback_W c _ _ cx h)
  · exact WStep_of_fr (prPlain_fr c _) (fun L pw cx h => prPlain_W c _ cx h)
  · exact WStep_of_fr (prSubUnsuback_fr c _ _) (fun L pw cx h => prSubUnsuback_W c _ _ cx h)
  · exact WStep_of_fr (prPingreq_fr c _) (fun L pw cx h => prPingreq_W c _ cx hB2 h)
  · exact WStep_of_fr (prPingresp_fr c _) (fun L pw cx h => prPingresp_W c _ cx h)
  · exact WStep_of_fr (prDisconnect_fr c _) (fun L pw cx h => prDisconnect_W c _ cx h)
  · split
    · exact WStep_of_fr (prPlain_fr c _) (fun L pw cx h => prPlain_W c _ cx h)
    · exact WStep_err ⟨rfl, id⟩ _
  · exact WStep_err ⟨rfl, id⟩ _

theorem processRecvPacket_WS (c : C) (fh data parse) (hB1 : c.s.ver ≠ 5 → B)
    (hB2 : ∀ p, parse c.s.ver = .ok p → p.ver ≠ 5 → B) : WStep B c (processRecvPacket c fh data parse) := by
  unfold processRecvPacket
  split
  · refine WStep_err (WStep_of_fr (v5DisconnectOrClose_fr c _) (fun L pw cx h => ?_)) _
    exact v5DisconnectOrClose_all W_lax W_close c _ (fun hz => W_size cx hz _) h
  · simp only []
    split
    · exact WStep_err ⟨rfl, id⟩ _
    · split
      · rename_i h0
        split
        · split
          · exact WStep_err ⟨rfl, id⟩ _
          · split
            · have hb : B := hB1 (by omega)
              have := WStep_of_fr (B := B) (prV3Connect_fr { c with s := { c.s with ver := 4 } } (parse 4))
                (fun L pw cx h => prV3Connect_W _ _ cx hb h)
              exact this
            · split
              · have := prV5Connect_WS (B := B) { c with s := { c.s with ver := 5 } } (parse 5)
                exact this
              · exact WStep_err ⟨rfl, id⟩ _
        · exact WStep_err ⟨rfl, id⟩ _
      · exact dispatchRecv_WS c _ _ (fun h4 => hB1 (by omega)) hB2

theorem recv_WS (c : C) (inp parse) (hB1 : c.s.ver ≠ 5 → B)
    (hB2 : ∀ fh data p, parse c.s.ver fh data = .ok p → p.ver ≠ 5 → B) : WStep B c (recv c inp parse).1 := by
  unfold recv
  split
  rename_i pb out rest _
  simp only []
  split
  · exact ⟨rfl, id⟩
  · refine (?_ : WStep B { c with s := { c.s with pb := pb } } _)
    exact processRecvPacket_WS _ _ _ _ hB1 (fun p hp => hB2 _ _ p hp)
  · refine WStep_err (WStep_of_fr ?_ (fun L pw cx h => ?_)) _
    · simp [Fr]
    · simp [h, W_close, cancelTimers_all W_lax]

theorem notifyTimerFired_WS (c : C) (k) (hB1 : c.s.ver ≠ 5 → B) : WStep B c (notifyTimerFired c k) := by
  refine WStep_of_fr ?_ (fun L pw cx h => ?_)
  · cases k <;> simp only [notifyTimerFired] <;>
      (repeat' split) <;> simp [Fr]
  · have hL := cx.hL; have hpw := cx.hpw
    have hp5 : ∀ (c' : C), c'.s.mpsSend = L → c'.cfg.pw = pw → EvAll (W B L pw) c'.ev →
        EvAll (W B L pw) (psPingreq c' (mkPingreq 5)).ev :=
      fun c' a b h' => psPingreq_all W_lax c' _ (fun hz => W_cond ⟨a, b⟩ (fun hn => absurd rfl hn) hz _) h'
    have hd : ∀ (c' : C) d, c'.s.mpsSend = L → c'.cfg.pw = pw → EvAll (W B L pw) c'.ev →
        EvAll (W B L pw) (v5DisconnectOrClose c' d).ev :=
      fun c' d a b h' => v5DisconnectOrClose_all W_lax W_close c' d (fun hz => W_size ⟨a, b⟩ hz _) h'
    by_cases h4 : c.s.ver = 4
    · have hb : B := hB1 (by omega)
      have hp4 : ∀ (c' : C), EvAll (W B L pw) c'.ev → EvAll (W B L pw) (psPingreq c' (mkPingreq 4)).ev :=
        fun c' h' => psPingreq_all W_lax c' _ (fun _ => W_v3 (by simp [mkPingreq]) hb _) h'
      cases k <;> simp (maxDischargeDepth := 8) [notifyTimerFired, h4, h, hp4, W_close]
    · cases k <;> simp (maxDischargeDepth := 8) [notifyTimerFired, h4, h, hL, hpw, hp5, hd]

@[simp] theorem releaseAll_cfg (c : C) (l) : (releaseAll c l).cfg = c.cfg := (releaseAll_fr c l).1

theorem notifyClosed_cfg (c : C) : (notifyClosed c).cfg = c.cfg := by
  unfold notifyClosed
  simp [apply_ite C.cfg]

theorem restorePackets_fr (c : C) (l) : Fr c (restorePackets c l) := by
  induction l generalizing c with
  | nil => exact Fr.rfl' c
  | cons x rest ih => exact (restoreOne_fr c x).trans (ih _)

/-- one API call -/
theorem step_WS (cfg : Cfg) (s : St) (op : Op) (hB1 : s.ver ≠ 5 → B)
    (hB2 : ∀ inp parse, op = .recv inp parse → ∀ fh data p, parse s.ver fh data = .ok p → p.ver ≠ 5 → B) :
    WStep B { cfg := cfg, s := s } (step cfg s op) := by
  cases op <;> simp only [step]
  · exact WStep_of_fr (send_fr _ _) (fun L pw cx h => send_W _ _ cx hB1 h)
  · exact recv_WS _ _ _ hB1 (hB2 _ _ rfl)
  · exact notifyTimerFired_WS _ _ hB1
  · exact ⟨notifyClosed_cfg _, fun h => notifyClosed_all W_lax _ h⟩
  · exact WStep_of_fr (setPingreqSendInterval_fr _ _) (fun L pw cx h => setPingreqSendInterval_all W_lax _ _ h)
  · exact ⟨rfl, id⟩
  · exact ⟨rfl, id⟩
  · exact ⟨rfl, id⟩
  · exact ⟨rfl, id⟩
  · exact WStep_of_fr (releasePacketId_fr _ _) (fun L pw cx h => by rw [releasePacketId_ev']; exact releaseIfUsed_all W_lax _ _ h)
  · exact WStep_of_fr (eraseStoredPublish_fr _ _) (fun L pw cx h => eraseStoredPublish_all W_lax _ _ h)
  · exact ⟨rfl, id⟩
  · exact WStep_of_fr (restorePackets_fr _ _) (fun L pw cx h => by simpa using h)

end
end MqttVerif.Conn
