import MqttVerif.Conn.Lemmas.Qos2Recv
import MqttVerif.Conn.Lemmas.Q2Sends2
/-!
# C07 helper — the driver's ghost of open inbound QoS 2 exchanges (`Mon.q2Step`) against the model

* the fold `Mon.q2Step` only looks at `.recv` events and at sent error PUBRECs;
* refinement of `recv_sum` at packet type 6: a delivered PUBREL always comes with the deletion of its
  identifier from `qos2_publish_handled`.
-/
set_option linter.unusedSimpArgs false
set_option linter.unusedVariables false
namespace MqttVerif.Conn
open MqttVerif

/-! ## the fold -/

theorem q2Step_no_send (evs : List Ev) (h : EPn.nsOf evs = []) :
    ∀ o, Mon.q2Step o evs = Mon.q2Step o ((recvs evs).map Ev.recv) := by
  induction evs with
  | nil => intro o; rfl
  | cons e t ih =>
    have ht : EPn.nsOf t = [] := by
      rw [EPn.nsOf_cons] at h
      exact (List.append_eq_nil_iff.1 h).2
    intro o
    cases e with
    | recv p =>
      simp only [recvs_cons, List.singleton_append, List.map_cons, Mon.q2Step]
      split
      · rw [ih ht]
      · split <;> rw [ih ht]
    | send p r =>
      have hp : EPn.nsSend p = false := by
        rw [EPn.nsOf_cons] at h
        have := (List.append_eq_nil_iff.1 h).1
        simp only [EPn.NSev_send] at this
        cases hh : EPn.nsSend p with
        | false => rfl
        | true => simp [hh] at this
      have hc : ¬ (p.kind = .pubrec ∧ Mon.isErrorRc p.rc = true) := by
        intro ⟨h1, h2⟩; simp [EPn.nsSend, h1, h2] at hp
      simp only [recvs_cons, List.nil_append, Mon.q2Step, hc, if_false]
      exact ih ht o
    | released _ => simpa [Mon.q2Step] using ih ht o
    | timerReset _ _ => simpa [Mon.q2Step] using ih ht o
    | timerCancel _ => simpa [Mon.q2Step] using ih ht o
    | error _ => simpa [Mon.q2Step] using ih ht o
    | close => simpa [Mon.q2Step] using ih ht o

theorem q2Step_quiet (o : List Nat) (evs : List Ev) (h : EPn.nsOf evs = []) (hr : recvs evs = []) :
    Mon.q2Step o evs = (o, []) := by
  rw [q2Step_no_send evs h, hr]; rfl

/-- the set-level reading of the ghost: duplicate-free and equal, as a set, to `hd` -/
def Tracks (o hd : List Nat) : Prop := o.Nodup ∧ ∀ x, x ∈ o ↔ x ∈ hd

theorem Tracks.erase {o hd : List Nat} (h : Tracks o hd) (id : Nat) : Tracks (o.erase id) (del id hd) := by
  refine ⟨h.1.erase id, fun x => ?_⟩
  rw [h.1.mem_erase_iff, h.2 x, mem_del]
  exact ⟨fun ⟨a, b⟩ => ⟨b, a⟩, fun ⟨a, b⟩ => ⟨b, a⟩⟩

theorem Tracks.insert {o hd : List Nat} (h : Tracks o hd) {id : Nat} (hn : id ∉ hd) : Tracks (id :: o) (ins id hd) := by
  refine ⟨List.nodup_cons.2 ⟨fun hm => hn ((h.2 id).1 hm), h.1⟩, fun x => ?_⟩
  rw [List.mem_cons, h.2 x, mem_ins]

theorem Tracks.congr {o hd hd' : List Nat} (h : Tracks o hd) (e : hd' = hd) : Tracks o hd' := e ▸ h

/-! ## one delivered packet -/

theorem q2Step_recv_other (o : List Nat) (p : Pkt) (h1 : ¬ (p.kind = .publish ∧ p.qos = 2)) (h2 : p.kind ≠ .pubrel) :
    Mon.q2Step o [.recv p] = (o, []) := by
  simp [Mon.q2Step, h1, h2]

theorem q2Step_recv_pubrel (o : List Nat) (p : Pkt) (h : p.kind = .pubrel) :
    Mon.q2Step o [.recv p] = (o.erase (p.pid.getD 0), []) := by
  simp [Mon.q2Step, h]

theorem q2Step_recv_new (o : List Nat) (p : Pkt) (id : Nat) (h1 : p.kind = .publish) (h2 : p.qos = 2)
    (h3 : p.pid = some id) (hn : id ∉ o) : Mon.q2Step o [.recv p] = (id :: o, []) := by
  have : o.contains id = false := by
    cases hc : o.contains id with
    | false => rfl
    | true => exact absurd (List.contains_iff_mem.1 hc) hn
  simp [Mon.q2Step, h1, h2, h3, this, hn]

/-! ## type 6: a delivered PUBREL deletes its identifier -/

/-- outcome of a receive path for a frame of type 6 -/
def At6 (c c' : C) (x : Except Nat Pkt) : Prop :=
  (recvs c'.ev = recvs c.ev ∧ c'.s.handled = c.s.handled) ∨
  ∃ p, x = .ok p ∧ recvs c'.ev = recvs c.ev ++ [p] ∧ c'.s.handled = del (p.pid.getD 0) c.s.handled

theorem prPubrel_at6 (c : C) (x : Except Nat Pkt) : At6 c (prPubrel c x) x := by
  cases x with
  | error e => exact .inl ⟨by simp [prPubrel], by simp [prPubrel]⟩
  | ok p =>
    refine .inr ⟨p, rfl, ?_, ?_⟩ <;>
      simp [prPubrel, apply_ite C.s, apply_ite C.ev, apply_ite St.handled, apply_ite recvs]

theorem processRecvPacket_at6 (c : C) (fh : Nat) (data : List Nat) (parse : Nat → Except Nat Pkt)
    (ht : fh / 16 = 6) : ∃ v, At6 c (processRecvPacket c fh data parse) (parse v) := by
  simp only [processRecvPacket]
  split
  · exact ⟨0, .inl ⟨by simp, by simp⟩⟩
  · split
    · exact ⟨0, .inl ⟨by simp, by simp⟩⟩
    · split
      · split
        · rename_i h1; omega
        · exact ⟨0, .inl ⟨by simp, by simp⟩⟩
      · refine ⟨c.s.ver, ?_⟩
        rw [ht]
        exact prPubrel_at6 c _


/-! ## what one `recv` call does to the `.recv` events and to `handled` (refined at type 6) -/

inductive RecvCls (c c' : C) : Prop
  | quiet : recvs c'.ev = recvs c.ev → c'.s.handled = c.s.handled → RecvCls c c'
  | other (p : Pkt) : recvs c'.ev = recvs c.ev ++ [p] → p.kind ≠ .pubrel → ¬ (p.kind = .publish ∧ p.qos = 2) →
      c'.s.handled = c.s.handled → RecvCls c c'
  | pubrel (p : Pkt) : recvs c'.ev = recvs c.ev ++ [p] → p.kind = .pubrel →
      c'.s.handled = del (p.pid.getD 0) c.s.handled → RecvCls c c'
  | newSess (p : Pkt) : recvs c'.ev = recvs c.ev ++ [p] →
      ((p.kind = .connect ∧ p.clean = true) ∨
        (p.kind = .connack ∧ p.rc = some 0 ∧ (p.sp = false ∨ (pSEI, 0) ∈ p.props))) →
      c'.s.handled = [] → RecvCls c c'
  | notify (p : Pkt) (id : Nat) : recvs c'.ev = recvs c.ev ++ [p] → p.kind = .publish → p.qos = 2 →
      p.pid = some id → id ∉ c.s.handled → c'.s.handled = ins id c.s.handled → RecvCls c c'

theorem kind_of_nib {k : Kind} {t : Nat} (h : k.nibble = t) :
    (k = .pubrel ↔ t = 6) ∧ (k = .publish ↔ t = 3) ∧ (t = 1 → k = .connect) ∧ (t = 2 → k = .connack) := by
  cases k <;> simp [Kind.nibble] at h <;> subst h <;> simp

theorem recvCls_of_sum {t : Nat} {c c' : C} {x : Except Nat Pkt} (h : Q2Sum t c c' x) (h6 : t ≠ 6)
    (hk : ∀ p, x = .ok p → p.kind.nibble = t) : RecvCls c c' := by
  cases h with
  | quiet a b => exact .quiet a b
  | plain p p' hx a k q b e =>
    have hn := kind_of_nib (hk p hx)
    refine .other p' a ?_ ?_ b
    · rw [k]; intro hp; exact h6 (hn.1.1 hp)
    · rintro ⟨h1, h2⟩
      rw [k] at h1
      exact e (hn.2.1.1 h1) (by rw [← q]; exact h2)
  | pubrel p hx ht a b => exact absurd ht h6
  | newSess p hx hn a b =>
    have hkn := kind_of_nib (hk p hx)
    refine .newSess p a ?_ b
    rcases hn with ⟨ht, hc⟩ | ⟨ht, hr⟩
    · exact .inl ⟨hkn.2.2.1 ht, hc⟩
    · exact .inr ⟨hkn.2.2.2 ht, hr⟩
  | notify p p' id hx ht h2 hid ha a k q pid b =>
    have hkn := kind_of_nib (hk p hx)
    exact .notify p' id a (by rw [k]; exact hkn.2.1.2 ht) q pid ha b

theorem recvCls_of_at6 {c c' : C} {x : Except Nat Pkt} (h : At6 c c' x)
    (hk : ∀ p, x = .ok p → p.kind.nibble = 6) : RecvCls c c' := by
  rcases h with ⟨a, b⟩ | ⟨p, hx, a, b⟩
  · exact .quiet a b
  · exact .pubrel p a ((kind_of_nib (hk p hx)).1.2 rfl) b

theorem recv_cls (c : C) (inp : List Nat) (parse : Nat → Nat → List Nat → Except Nat Pkt)
    (hp : ∀ v fh d p, parse v fh d = .ok p → p.kind.nibble = fh / 16 ∧ p.qos ≤ 2) :
    RecvCls c (recv c inp parse).1 := by
  simp only [recv]
  split
  · exact .quiet (by simp) (by simp)
  · rename_i fh data _
    have cong : ∀ {c0 c' : C}, RecvCls c0 c' → c0.s.handled = c.s.handled → c0.ev = c.ev → RecvCls c c' := by
      intro c0 c' h e1 e2
      cases h with
      | quiet a b => exact .quiet (by rw [a, e2]) (by rw [b, e1])
      | other p a k n b => exact .other p (by rw [a, e2]) k n (by rw [b, e1])
      | pubrel p a k b => exact .pubrel p (by rw [a, e2]) k (by rw [b, e1])
      | newSess p a n b => exact .newSess p (by rw [a, e2]) n b
      | notify p id a k q pid ha b => exact .notify p id (by rw [a, e2]) k q pid (by rw [← e1]; exact ha) (by rw [b, e1])
    by_cases h6 : fh / 16 = 6
    · obtain ⟨v, h⟩ := processRecvPacket_at6 { c with s := { c.s with pb := (Framing.feed c.s.pb inp).1 } } fh data
        (fun v => parse v fh data) h6
      exact cong (recvCls_of_at6 h (fun p hx => by rw [← h6]; exact (hp v fh data p hx).1)) rfl rfl
    · obtain ⟨v, h⟩ := processRecvPacket_sum { c with s := { c.s with pb := (Framing.feed c.s.pb inp).1 } } fh data
        (fun v => parse v fh data) (fun v p hx => (hp v fh data p hx).2)
      exact cong (recvCls_of_sum h h6 (fun p hx => (hp v fh data p hx).1)) rfl rfl
  · exact .quiet (by simp) (by simp)


/-! ## the `send` of an error PUBREC (v5.0) -/

theorem initiatingId_pubrec {p : Pkt} (h : p.kind = .pubrec) : initiatingId p = none := by
  simp [initiatingId, h]

theorem pp_send_q2 (X : C) (p : Pkt) (o : List Nat) (hX : X.ev = []) (hk : p.kind = .pubrec)
    (he : Mon.isErrorRc p.rc = true) :
    Mon.q2Step o (sendPostProcess (X.push (.send p none))).ev = (o.erase (p.pid.getD 0), []) ∧
    (sendPostProcess (X.push (.send p none))).s.handled = X.s.handled := by
  constructor
  · rcases sendPostProcess_ev_cases (X.push (.send p none)) with h | ⟨ms, h⟩ <;>
      rw [h] <;> simp [hX, Mon.q2Step, hk, he]
  · rcases sendPostProcess_s_cases (X.push (.send p none)) with h | h <;> rw [h] <;> rfl

theorem send_errPubrec (c : C) (p : Pkt) (o : List Nat) (hev : c.ev = []) (hk : p.kind = .pubrec)
    (he : Mon.isErrorRc p.rc = true) (hv : p.ver ≠ 4) :
    (Mon.q2Step o (send c p).ev = (o, []) ∧ (send c p).s.handled = c.s.handled) ∨
    (Mon.q2Step o (send c p).ev = (o.erase (p.pid.getD 0), []) ∧
      (send c p).s.handled = del (p.pid.getD 0) c.s.handled) := by
  have hfail : (match p.rc with | some rc => decide (rc ≥ 0x80) | none => false) = true := by
    cases hr : p.rc with
    | none => simp [Mon.isErrorRc, hr] at he
    | some rc => simpa [Mon.isErrorRc, hr] using he
  unfold send
  split
  · left; simp [refuseSend, initiatingId_pubrec hk, hev, Mon.q2Step]
  split
  · left; simp [refuseSend, initiatingId_pubrec hk, hev, Mon.q2Step]
  · simp only [processSend, hv, if_false, hk]
    unfold psV5Pubrec
    split
    · left; simp [hev, Mon.q2Step]
    split
    · left; simp [hev, Mon.q2Step]
    · right
      simp only []
      split
      · rename_i rc hrc
        have ha : decide (rc ≥ 128) = true := by simpa [Mon.isErrorRc, hrc] using he
        rw [if_pos ha]
        exact pp_send_q2 _ p o hev hk he
      · rename_i hrc
        simp [Mon.isErrorRc, hrc] at he

/-! ## a `send` that is no error PUBREC: `handled` changes only with a new-session event -/

theorem startsNewSession_of_mem {l : List Ev} {p : Pkt} {r : Option Nat} (hm : Ev.send p r ∈ l)
    (h : (p.kind = .connect ∧ p.clean = true) ∨ (p.kind = .connack ∧ p.rc = some 0 ∧ p.sp = false)) :
    Mon.startsNewSession l = true := by
  simp only [Mon.startsNewSession, List.any_eq_true]
  refine ⟨_, hm, ?_⟩
  rcases h with ⟨a, b⟩ | ⟨a, b, d⟩
  · simp [a, b]
  · simp [a, b, d]

theorem mem_sendPostProcess {c : C} {e : Ev} (h : e ∈ c.ev) : e ∈ (sendPostProcess c).ev := by
  rcases sendPostProcess_ev_cases c with h' | ⟨ms, h'⟩ <;> rw [h'] <;> simp [h]

theorem psV3Connect_new (c : C) (p : Pkt) (hk : p.kind = .connect) :
    (psV3Connect c p).s.handled = c.s.handled ∨ Mon.startsNewSession (psV3Connect c p).ev = true := by
  rw [psV3Connect_handled]
  by_cases h : c.s.status = .disconnected ∧ p.clean = true
  · right
    refine startsNewSession_of_mem (p := p) (r := none) ?_ (.inl ⟨hk, h.2⟩)
    simp only [psV3Connect, h.1, ne_eq, not_true_eq_false, if_false]
    exact mem_sendPostProcess (by simp)
  · left; simp [h]

theorem psV5Connect_new (c : C) (p : Pkt) (hk : p.kind = .connect) :
    (psV5Connect c p).s.handled = c.s.handled ∨ Mon.startsNewSession (psV5Connect c p).ev = true := by
  rw [psV5Connect_handled]
  by_cases h : sizeOk c p = true ∧ c.s.status = .disconnected ∧ p.clean = true
  · right
    refine startsNewSession_of_mem (p := p) (r := none) ?_ (.inl ⟨hk, h.2.2⟩)
    simp only [psV5Connect, h.1, h.2.1, Bool.not_true, Bool.false_eq_true, ne_eq, not_true_eq_false, if_false]
    exact mem_sendPostProcess (by simp)
  · left; simp [h]

theorem mem_sendStoredLoop (l : List (Nat × Pkt)) : ∀ (c : C) (e : Ev), e ∈ c.ev → e ∈ (sendStoredLoop c l).1.ev := by
  induction l with
  | nil => intro c e h; exact h
  | cons x rest ih =>
    intro c e h
    obtain ⟨id, q⟩ := x
    rw [sendStoredLoop]
    split
    · refine ih _ e ?_
      unfold releaseIfUsed; split <;> simp [h]
    · refine ih _ e ?_
      simp only [push_ev, List.mem_append]
      left
      split
      · split <;> simpa using h
      · exact h

theorem mem_sendStored {c : C} {e : Ev} (h : e ∈ c.ev) : e ∈ (sendStored c).ev := by
  unfold sendStored
  simp only []
  refine mem_sendStoredLoop _ _ e ?_
  split <;> exact h

theorem psV3Connack_new (c : C) (p : Pkt) (hk : p.kind = .connack) :
    (psV3Connack c p).s.handled = c.s.handled ∨ Mon.startsNewSession (psV3Connack c p).ev = true := by
  rw [psV3Connack_handled]
  by_cases h : c.s.status = .connecting ∧ p.rc = some 0 ∧ p.sp = false
  · right
    refine startsNewSession_of_mem (p := p) (r := none) ?_ (.inr ⟨hk, h.2.1, h.2.2⟩)
    simp only [psV3Connack, h.1, h.2.1, h.2.2, ne_eq, not_true_eq_false, if_false, Bool.false_eq_true]
    exact mem_sendPostProcess (by simp [clearStoreRelated])
  · left; simp [h]

theorem psV5Connack_new (c : C) (p : Pkt) (hk : p.kind = .connack) :
    (psV5Connack c p).s.handled = c.s.handled ∨ Mon.startsNewSession (psV5Connack c p).ev = true := by
  rw [psV5Connack_handled]
  by_cases h : sizeOk c p = true ∧ c.s.status = .connecting ∧ p.rc = some 0 ∧ p.sp = false
  · right
    refine startsNewSession_of_mem (p := p) (r := none) ?_ (.inr ⟨hk, h.2.2.1, h.2.2.2⟩)
    simp only [psV5Connack, h.1, h.2.1, h.2.2.1, h.2.2.2, Bool.not_true, ne_eq, not_true_eq_false, if_false,
      Bool.false_eq_true, if_true]
    exact mem_sendPostProcess (by simp [clearStoreRelated])
  · left; simp [h]

/-- a `send` either leaves `handled` alone, or its events contain a new-session event, or it is the
    accepted error PUBREC -/
theorem send_handled_ns (c : C) (p : Pkt) :
    (send c p).s.handled = c.s.handled ∨ Mon.startsNewSession (send c p).ev = true ∨
    (p.kind = .pubrec ∧ p.ver ≠ 4 ∧ ∃ rc, p.rc = some rc ∧ rc ≥ 0x80) := by
  rcases send_handled c p with h | ⟨h, hk, hc⟩ | ⟨h, hk, hv, hrc, hs⟩ | ⟨h, hk, hrc, hsp⟩
  · exact .inl h
  · -- CONNECT clean
    unfold send at h ⊢
    split
    · left; simp
    split
    · left; simp
    · simp only [processSend, hk] at h ⊢
      split
      · rcases psV3Connect_new c p hk with h' | h'
        · exact .inl h'
        · exact .inr (.inl h')
      · rcases psV5Connect_new c p hk with h' | h'
        · exact .inl h'
        · exact .inr (.inl h')
  · exact .inr (.inr ⟨hk, hv, hrc⟩)
  · unfold send at h ⊢
    split
    · left; simp
    split
    · left; simp
    · simp only [processSend, hk] at h ⊢
      split
      · rcases psV3Connack_new c p hk with h' | h'
        · exact .inl h'
        · exact .inr (.inl h')
      · rcases psV5Connack_new c p hk with h' | h'
        · exact .inl h'
        · exact .inr (.inl h')

end MqttVerif.Conn
