import MqttVerif.Conn.Lemmas.NoPanicHeld2
/-!
# C06 / C05 helper — `Held ∧ Disj`: PUBLISH / PUBREL / SUBSCRIBE sends, `send`
-/
set_option linter.unusedSimpArgs false
set_option linter.unusedVariables false
namespace MqttVerif.Conn.Hd
open MqttVerif MqttVerif.Conn

theorem mem_ins' {x y : Nat} {l : List Nat} : y ∈ ins x l → y ∈ l ∨ y = x := by
  intro h; rcases mem_ins.1 h with h | h; exact .inr h; exact .inl h

/-- the wait-set entry of an accepted QoS>0 PUBLISH -/
theorem w_addWait {c : C} (h : W c) {id : Nat} (h1 : id ∉ c.s.suback) (h2 : id ∉ c.s.unsuback) (q : Nat) :
    W (if q = 2 then { c with s := { c.s with pubrec := ins id c.s.pubrec } }
       else { c with s := { c.s with puback := ins id c.s.puback } }) := by
  split
  · exact h.addQos h1 h2 rfl rfl rfl rfl (fun i hi => .inl hi) (fun i hi => mem_ins' hi) (fun i hi => .inl hi)
  · exact h.addQos h1 h2 rfl rfl rfl rfl (fun i hi => mem_ins' hi) (fun i hi => .inl hi) (fun i hi => .inl hi)

theorem w_psV3Publish {c : C} (h : W c) (p : Pkt) (hf : ∀ id, p.pid = some id → Unowned c.s id) :
    W (psV3Publish c p) := by
  unfold psV3Publish
  split
  · split
    · exact h.congr rfl
    · rename_i id hid
      obtain ⟨f0, f1, f2, _⟩ := hf id hid
      split
      · exact W.release (c := c.err eNotAllowed) (h.congr rfl) f0
      split
      · exact h.congr rfl
      · rename_i hu
        have hu' : isUsed c.s id = true := by simpa using hu
        simp only []
        have h1 : W (if willStore c.s = true then
            storeAdd c id { p with dup := true } "core.rs:process_send_v3_1_1_publish:store.add().unwrap()" else c) := by
          split
          · exact h.stAdd _ _ hu'
          · exact h
        have e1 : (if willStore c.s = true then
            storeAdd c id { p with dup := true } "core.rs:process_send_v3_1_1_publish:store.add().unwrap()" else c).s.suback
              = c.s.suback ∧
            (if willStore c.s = true then
            storeAdd c id { p with dup := true } "core.rs:process_send_v3_1_1_publish:store.add().unwrap()" else c).s.unsuback
              = c.s.unsuback := by
          split
          · exact ⟨(storeAdd_sets _ _ _ _).2.1, (storeAdd_sets _ _ _ _).2.2.1⟩
          · exact ⟨rfl, rfl⟩
        generalize (if willStore c.s = true then
            storeAdd c id { p with dup := true } "core.rs:process_send_v3_1_1_publish:store.add().unwrap()" else c) = c1 at h1 e1
        have h2 := w_addWait h1 (id := id) (by rw [e1.1]; exact f1) (by rw [e1.2]; exact f2) p.qos
        generalize (if p.qos = 2 then ({ c1 with s := { c1.s with pubrec := ins id c1.s.pubrec } } : C)
          else { c1 with s := { c1.s with puback := ins id c1.s.puback } }) = c2 at h2
        split
        · exact h2.congr (by simp)
        · exact h2
  · split
    · exact h.congr rfl
    · exact h.congr (by simp)

theorem storeErasePublish_gone {id : Nat} {st : List (Nat × Pkt)}
    (hst : ∀ x ∈ st, x.1 = id → x.2.kind = .publish) : storeHas id (storeErasePublish id st).2 = false := by
  unfold storeErasePublish
  cases hl : lookup id st with
  | none =>
    simp only
    rw [storeHas_false]; exact lookup_none_mem hl
  | some q =>
    have hm := lookup_some_mem hl
    have hk : q.kind = .publish := hst (id, q) hm rfl
    simp only [hk, if_true]
    rw [storeHas_false]
    intro q' hq'
    exact (mem_erase.1 hq').2 rfl

theorem w_pubRefuseCleanup {c : C} (h : W c) (pid : Option Nat)
    (hst : ∀ id, pid = some id → ∀ x ∈ c.s.store, x.1 = id → x.2.kind = .publish) :
    W (pubRefuseCleanup c pid) := by
  unfold pubRefuseCleanup
  split
  · exact h
  · rename_i id
    split
    · rename_i hu
      obtain ⟨w, hh, hd⟩ := h
      have e := releaseId_s w hu
      have hgone := storeErasePublish_gone (hst id rfl)
      refine ⟨by show PidWf (releaseId c id).s.pidMan; rw [e]; exact w.deallocate id, ?_, ?_⟩
      · intro x hx
        simp only [push_s] at hx ⊢
        have hx0 : x ∈ (storeErasePublish id (releaseId c id).s.store).2 := hx
        rw [e] at hx0
        have hxs : x ∈ c.s.store := Rng.mem_storeErasePublish hx0
        have hne : x.1 ≠ id := (storeHas_false'.1 hgone) x hx0
        show Alloc.isUsed (releaseId c id).s.pidMan x.1 = true
        rw [e]
        exact (dealloc_used w hu x.1).2 ⟨hh x hxs, hne⟩
      · intro i hi
        simp only [push_s] at hi ⊢
        have hi' : i ∈ c.s.suback ∨ i ∈ c.s.unsuback := by
          have e1 : (releaseId c id).s.suback = c.s.suback := by rw [e]
          have e2 : (releaseId c id).s.unsuback = c.s.unsuback := by rw [e]
          rcases hi with k | k
          · exact .inl (e1 ▸ k)
          · exact .inr (e2 ▸ k)
        have := hd i hi'
        have e3 : (releaseId c id).s.puback = c.s.puback := by rw [e]
        have e4 : (releaseId c id).s.pubrec = c.s.pubrec := by rw [e]
        have e5 : (releaseId c id).s.pubcomp = c.s.pubcomp := by rw [e]
        refine ⟨fun k => this.1 ?_, fun k => this.2.1 ?_, fun k => this.2.2 ?_⟩
        · have k' : i ∈ del id (releaseId c id).s.puback := k
          rw [e3] at k'; exact (mem_del.1 k').1
        · have k' : i ∈ del id (releaseId c id).s.pubrec := k
          rw [e4] at k'; exact (mem_del.1 k').1
        · have k' : i ∈ (releaseId c id).s.pubcomp := k
          rw [e5] at k'; exact k'
    · exact h


theorem w_psV5PublishAlias {c : C} (h : W c) (p : Pkt) (rel : Option Nat) (v : Bool)
    (hst : ∀ id, p.pid = some id → ∀ x ∈ c.s.store, x.1 = id → x.2.kind = .publish) :
    W (psV5PublishAlias c p rel v) := by
  have key : ∀ X : C, K2 X = K2 c → ∀ e, W (pubRefuseCleanup (X.err e) p.pid) := by
    intro X eX e
    refine w_pubRefuseCleanup (h.congr (c' := X.err e) (by simpa using eX)) p.pid ?_
    intro id hid x hx
    have : (X.err e).s.store = c.s.store := congrArg (·.2.1) eX
    rw [this] at hx
    exact hst id hid x hx
  unfold psV5PublishAlias
  (repeat' (first | split | (simp only []; split))) <;>
    first
    | exact key _ rfl _
    | exact key _ (by simp) _
    | exact h.congr (by simp)

theorem w_psV5Publish {c : C} (h : W c) (p : Pkt) (hk : p.kind = .publish)
    (hf : ∀ id, p.pid = some id → Unowned c.s id) : W (psV5Publish c p) := by
  unfold psV5Publish
  split
  · split
    · rename_i id hid
      exact W.release (c := c.err eTooLarge) (h.congr rfl) (hf id hid).1
    · exact h.congr rfl
  split
  · split
    · exact h.congr rfl
    · rename_i id hid
      obtain ⟨f0, f1, f2, _⟩ := hf id hid
      have hnone : ∀ x ∈ c.s.store, x.1 ≠ id := storeHas_false'.1 f0
      split
      · exact W.release (c := c.err eNotAllowed) (h.congr rfl) f0
      split
      · exact h.congr rfl
      · rename_i hu
        have hu' : isUsed c.s id = true := by simpa using hu
        -- after `store.add` (if any) every entry with this id is the PUBLISH just added
        have after : ∀ (c1 : C) (q : Pkt), K2 c1 = K2 c → q.kind = .publish → ∀ (rel : Option Nat) (v : Bool),
            W (psV5PublishAlias
              (if p.qos = 2 then { (storeAdd c1 id q "core.rs:process_send_v5_0_publish:store.add().unwrap()") with
                    s := { (storeAdd c1 id q "core.rs:process_send_v5_0_publish:store.add().unwrap()").s with
                      pubrec := ins id (storeAdd c1 id q "core.rs:process_send_v5_0_publish:store.add().unwrap()").s.pubrec } }
               else { (storeAdd c1 id q "core.rs:process_send_v5_0_publish:store.add().unwrap()") with
                    s := { (storeAdd c1 id q "core.rs:process_send_v5_0_publish:store.add().unwrap()").s with
                      puback := ins id (storeAdd c1 id q "core.rs:process_send_v5_0_publish:store.add().unwrap()").s.puback } })
              p rel v) := by
          intro c1 q e1 hq rel v
          have h1 : W c1 := h.congr e1
          have hu1 : isUsed c1.s id = true := by
            have : c1.s.pidMan = c.s.pidMan := congrArg (·.1) e1
            simp only [isUsed] at hu' ⊢; rw [this]; exact hu'
          have es : c1.s.store = c.s.store := congrArg (·.2.1) e1
          have h2 := h1.stAdd q "core.rs:process_send_v5_0_publish:store.add().unwrap()" hu1
          have sets := storeAdd_sets c1 id q "core.rs:process_send_v5_0_publish:store.add().unwrap()"
          have hstore : ∀ x ∈ (storeAdd c1 id q "core.rs:process_send_v5_0_publish:store.add().unwrap()").s.store,
              x.1 = id → x.2.kind = .publish := by
            intro x hx hxid
            unfold storeAdd at hx
            split at hx
            · have hx' : x ∈ c1.s.store := hx
              rw [es] at hx'; exact absurd hxid (hnone x hx')
            · simp only [List.mem_append, List.mem_singleton] at hx
              rcases hx with hx | rfl
              · rw [es] at hx; exact absurd hxid (hnone x hx)
              · exact hq
          generalize storeAdd c1 id q "core.rs:process_send_v5_0_publish:store.add().unwrap()" = c2 at h2 sets hstore
          have e3 : c1.s.suback = c.s.suback := congrArg (·.2.2.1) e1
          have e4 : c1.s.unsuback = c.s.unsuback := congrArg (·.2.2.2.1) e1
          have h3 := w_addWait h2 (id := id) (by rw [sets.2.1, e3]; exact f1) (by rw [sets.2.2.1, e4]; exact f2) p.qos
          refine w_psV5PublishAlias h3 p rel v ?_
          intro id' hid' x hx
          rw [hid] at hid'; cases hid'
          have : x ∈ c2.s.store := by
            revert hx; split <;> exact fun hx => hx
          exact hstore x this
        split
        · split
          · simp only []
            split
            · rename_i hr
              refine W.release (c := (validateTopicAlias c p.alias).2.err eNotAllowed)
                (h.congr (by simp)) ?_
              have : ((validateTopicAlias c p.alias).2.err eNotAllowed).s.store = c.s.store :=
                congrArg (·.2.1) (show K2 ((validateTopicAlias c p.alias).2.err eNotAllowed) = K2 c by simp)
              rw [this]; exact f0
            · rename_i t hr
              have e0 : K2 (if hasWildcard t = true then
                  (validateTopicAlias c p.alias).2.setPanic "core.rs:process_send_v5_0_publish:remove_topic_alias_add_topic().unwrap()"
                  else (validateTopicAlias c p.alias).2) = K2 c := by split <;> simp
              exact after _ { p with topic := t, alias := none, dup := true } e0 hk none true
          · exact after c { p with alias := none, dup := true } rfl hk none false
        · have h3 := w_addWait h (id := id) f1 f2 p.qos
          refine w_psV5PublishAlias h3 p (some id) false ?_
          intro id' hid' x hx
          rw [hid] at hid'; cases hid'
          have : x ∈ c.s.store := by
            revert hx; split <;> exact fun hx => hx
          intro hxid; exact absurd hxid (hnone x this)
  · split
    · exact h.congr rfl
    · refine w_psV5PublishAlias h p none false ?_
      intro id hid x hx hxid
      exact absurd hxid (storeHas_false'.1 (hf id hid).1 x hx)

theorem w_psPubrel {c : C} (h : W c) (p : Pkt)
    (hf : p.pid.getD 0 ∉ c.s.suback ∧ p.pid.getD 0 ∉ c.s.unsuback) : W (psPubrel c p) := by
  unfold psPubrel
  split
  · exact h.congr rfl
  split
  · exact h.congr rfl
  · simp only []
    split
    · exact h.congr rfl
    · rename_i hu
      have hu' : isUsed c.s (p.pid.getD 0) = true := by simpa using hu
      have h1 : W (if c.s.needStore = true then
          storeAdd c (p.pid.getD 0) p "core.rs:process_send_pubrel:store.add().unwrap()" else c) := by
        split
        · exact h.stAdd _ _ hu'
        · exact h
      have e1 : (if c.s.needStore = true then
          storeAdd c (p.pid.getD 0) p "core.rs:process_send_pubrel:store.add().unwrap()" else c).s.suback = c.s.suback ∧
          (if c.s.needStore = true then
          storeAdd c (p.pid.getD 0) p "core.rs:process_send_pubrel:store.add().unwrap()" else c).s.unsuback = c.s.unsuback := by
        split
        · exact ⟨(storeAdd_sets _ _ _ _).2.1, (storeAdd_sets _ _ _ _).2.2.1⟩
        · exact ⟨rfl, rfl⟩
      generalize (if c.s.needStore = true then
          storeAdd c (p.pid.getD 0) p "core.rs:process_send_pubrel:store.add().unwrap()" else c) = c1 at h1 e1
      have h2 : W ({ c1 with s := { c1.s with pubcomp := ins (p.pid.getD 0) c1.s.pubcomp } } : C) :=
        h1.addQos (by rw [e1.1]; exact hf.1) (by rw [e1.2]; exact hf.2) rfl rfl rfl rfl
          (fun i hi => .inl hi) (fun i hi => .inl hi) (fun i hi => mem_ins' hi)
      split
      · exact h2.congr (by simp)
      · exact h2

theorem w_psSubUnsub {c : C} (h : W c) (p : Pkt) (hf : Unowned c.s (p.pid.getD 0)) : W (psSubUnsub c p) := by
  obtain ⟨f0, f1, f2, f3, f4, f5⟩ := hf
  unfold psSubUnsub
  simp only []
  split
  · exact W.release (c := c.err eTooLarge) (h.congr rfl) f0
  split
  · exact W.release (c := c.err eNotAllowed) (h.congr rfl) f0
  split
  · exact h.congr rfl
  · -- the identifier enters `suback` / `unsuback`: it is in no QoS wait set
    obtain ⟨w, hh, hd⟩ := h
    have key : ∀ c1 : C, c1.s.pidMan = c.s.pidMan → c1.s.store = c.s.store → c1.s.puback = c.s.puback →
        c1.s.pubrec = c.s.pubrec → c1.s.pubcomp = c.s.pubcomp →
        (∀ i, i ∈ c1.s.suback ∨ i ∈ c1.s.unsuback → i ∈ c.s.suback ∨ i ∈ c.s.unsuback ∨ i = p.pid.getD 0) → W c1 := by
      intro c1 e1 e2 e3 e4 e5 hsub
      refine ⟨by rw [e1]; exact w, ?_, ?_⟩
      · intro x hx; rw [e2] at hx; have := hh x hx; simp only [isUsed] at this ⊢; rw [e1]; exact this
      · intro i hi
        rw [e3, e4, e5]
        rcases hsub i hi with k | k | rfl
        · exact hd i (.inl k)
        · exact hd i (.inr k)
        · exact ⟨f3, f4, f5⟩
    refine W.congr (c := if p.kind = .subscribe then
        ({ c with s := { c.s with suback := ins (p.pid.getD 0) c.s.suback } } : C)
        else { c with s := { c.s with unsuback := ins (p.pid.getD 0) c.s.unsuback } }) ?_ (by simp)
    split
    · refine key _ rfl rfl rfl rfl rfl ?_
      intro i hi
      rcases hi with k | k
      · rcases mem_ins' k with k' | k'; exact .inl k'; exact .inr (.inr k')
      · exact .inr (.inl k)
    · refine key _ rfl rfl rfl rfl rfl ?_
      intro i hi
      rcases hi with k | k
      · exact .inl k
      · rcases mem_ins' k with k' | k'; exact .inr (.inl k'); exact .inr (.inr k')

theorem w_refuseSend {c : C} (h : W c) (e : Nat) (p : Pkt)
    (hf : ∀ id, initiatingId p = some id → storeHas id c.s.store = false) : W (refuseSend c e p) := by
  unfold refuseSend
  split
  · rename_i id hid
    exact W.release (c := c.err e) (h.congr rfl) (hf id hid)
  · exact h.congr rfl

/-- **the ownership rule of `send`**: the identifier of a packet that starts an exchange (QoS>0
    PUBLISH, PUBREL, SUBSCRIBE, UNSUBSCRIBE — and, for the release on refusal, any PUBLISH carrying
    an identifier) is not owned by another exchange or stored packet -/
def IdsOk (s : St) (p : Pkt) : Prop :=
  (p.kind = .publish → ∀ id, p.pid = some id → Unowned s id) ∧
  (p.kind = .pubrel → p.pid.getD 0 ∉ s.suback ∧ p.pid.getD 0 ∉ s.unsuback) ∧
  ((p.kind = .subscribe ∨ p.kind = .unsubscribe) → Unowned s (p.pid.getD 0))

theorem w_processSend {c : C} (h : W c) (hn : (c.s.store.map (·.1)).Nodup) (p : Pkt) (hi : IdsOk c.s p) :
    W (processSend c p) := by
  obtain ⟨i1, i2, i3⟩ := hi
  unfold processSend
  by_cases hv : p.ver = 4 <;> cases hk : p.kind <;> simp only [hv, if_true, if_false] <;>
    first
    | exact h
    | exact w_psV3Connect h p
    | exact w_psV5Connect h p
    | exact w_psV3Connack h hn p
    | exact w_psV5Connack h hn p
    | exact w_psV3Publish h p (i1 hk)
    | exact w_psV5Publish h p hk (i1 hk)
    | exact w_psPubrel h p (i2 hk)
    | exact w_psSubUnsub h p (i3 (.inl hk))
    | exact w_psSubUnsub h p (i3 (.inr hk))
    | exact h.congr (by simp)

theorem w_send {c : C} (h : W c) (hn : (c.s.store.map (·.1)).Nodup) (p : Pkt) (hi : IdsOk c.s p) :
    W (send c p) := by
  have hr : ∀ id, initiatingId p = some id → storeHas id c.s.store = false := by
    intro id hid
    unfold initiatingId at hid
    split at hid
    · rename_i hk
      rcases hk with hk | hk | hk
      · exact (hi.1 hk id hid).1
      · have := hi.2.2 (.inl hk); rw [hid] at this; exact this.1
      · have := hi.2.2 (.inr hk); rw [hid] at this; exact this.1
    · cases hid
  unfold send
  split
  · exact w_refuseSend h _ p hr
  split
  · exact w_refuseSend h _ p hr
  · exact w_processSend h hn p hi

end MqttVerif.Conn.Hd
