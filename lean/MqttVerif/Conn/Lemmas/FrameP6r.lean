import MqttVerif.Conn.Lemmas.FrameP6
/-!
# Frame lemmas, part 2 (agent P6): `send_stored`, the PUBLISH handlers, receive handlers
-/
set_option linter.unusedSimpArgs false
set_option linter.unusedVariables false
namespace MqttVerif.Conn
open MqttVerif

/-! ## `send_stored` -/

theorem sendStoredLoop_core (c : C) (l : List (Nat × Pkt)) :
    (sendStoredLoop c l).1.s.core =
      { c.s with sendCount := (sendStoredLoop c l).1.s.sendCount, panic := (sendStoredLoop c l).1.s.panic,
                 puback := (sendStoredLoop c l).1.s.puback, pubrec := (sendStoredLoop c l).1.s.pubrec,
                 pubcomp := (sendStoredLoop c l).1.s.pubcomp }.core := by
  induction l generalizing c with
  | nil => rfl
  | cons e rest ih =>
    obtain ⟨id, p⟩ := e
    unfold sendStoredLoop
    split
    · dsimp only; rw [ih]; simp [St.core]
    · dsimp only
      rw [ih]
      split <;> (try split) <;> simp [St.core]
core_fields sendStoredLoop (c : C) (l : List (Nat × Pkt)) : (sendStoredLoop c l).1.s ~ { c.s with sendCount := (sendStoredLoop c l).1.s.sendCount, panic := (sendStoredLoop c l).1.s.panic, puback := (sendStoredLoop c l).1.s.puback, pubrec := (sendStoredLoop c l).1.s.pubrec, pubcomp := (sendStoredLoop c l).1.s.pubcomp } skip [sendCount, cp, puback, pubrec, pubcomp] := sendStoredLoop_core c l
@[simp] theorem sendStoredLoop_cfg (c : C) (l : List (Nat × Pkt)) : (sendStoredLoop c l).1.cfg = c.cfg := by
  induction l generalizing c with
  | nil => rfl
  | cons e rest ih =>
    obtain ⟨id, p⟩ := e
    unfold sendStoredLoop
    split
    · dsimp only; rw [ih]; simp
    · dsimp only
      rw [ih]
      split <;> (try split) <;> simp [C.setPanic]

/-- fix #10b: on resume the counter is recounted from zero -/
def resetCount (c : C) : C :=
  if c.s.sendMax.isSome then { c with s := { c.s with sendCount := 0 } } else c

theorem resetCount_core (c : C) :
    (resetCount c).s.core = { c.s with sendCount := (resetCount c).s.sendCount }.core := by
  unfold resetCount; split <;> rfl
core_fields resetCount (c : C) : (resetCount c).s ~ { c.s with sendCount := (resetCount c).s.sendCount } skip [sendCount] := resetCount_core c
@[simp] theorem resetCount_cfg (c : C) : (resetCount c).cfg = c.cfg := by
  unfold resetCount; split <;> rfl
@[simp] theorem resetCount_ev (c : C) : (resetCount c).ev = c.ev := by
  unfold resetCount; split <;> rfl
@[simp] theorem resetCount_mpsSend (c : C) : (resetCount c).s.mpsSend = c.s.mpsSend := by
  unfold resetCount; split <;> rfl
theorem resetCount_sendCount (c : C) :
    (resetCount c).s.sendCount = if c.s.sendMax.isSome then 0 else c.s.sendCount := by
  unfold resetCount; split <;> rfl

theorem sendStored_eq (c : C) : sendStored c =
    { (sendStoredLoop (resetCount c) c.s.store).1 with
      s := { (sendStoredLoop (resetCount c) c.s.store).1.s with store := (sendStoredLoop (resetCount c) c.s.store).2 } } := by
  unfold sendStored resetCount; split <;> rfl

theorem sendStored_core (c : C) :
    (sendStored c).s.core =
      { c.s with store := (sendStored c).s.store, sendCount := (sendStored c).s.sendCount, panic := (sendStored c).s.panic,
                 puback := (sendStored c).s.puback, pubrec := (sendStored c).s.pubrec, pubcomp := (sendStored c).s.pubcomp }.core := by
  rw [sendStored_eq]; simp [St.core]
core_fields sendStored (c : C) : (sendStored c).s ~ { c.s with store := (sendStored c).s.store, sendCount := (sendStored c).s.sendCount, panic := (sendStored c).s.panic, puback := (sendStored c).s.puback, pubrec := (sendStored c).s.pubrec, pubcomp := (sendStored c).s.pubcomp } skip [store, sendCount, cp, puback, pubrec, pubcomp] := sendStored_core c
@[simp] theorem sendStored_cfg (c : C) : (sendStored c).cfg = c.cfg := by
  rw [sendStored_eq]; simp

/-- `resendStored` (fix 999e935) agrees with `sendStored` on every core field -/
theorem resendStored_core (c : C) : (resendStored c).s.core = (sendStored c).s.core := by
  rcases resendStored_eq c with h | h <;> rw [h]
  exact sendPostProcess_core _
core_fields resendStored (c : C) : (resendStored c).s ~ (sendStored c).s skip [] := resendStored_core c
@[simp] theorem resendStored_cfg (c : C) : (resendStored c).cfg = c.cfg := by
  rcases resendStored_eq c with h | h <;> rw [h] <;> simp
@[simp] theorem resendStored_pubs (c : C) : pubs (resendStored c).ev = pubs (sendStored c).ev := by
  rcases resendStored_eq c with h | h <;> rw [h] <;> simp

/-! ## `process_send_v5_0_publish` -/

theorem psV5PublishAlias_core (c : C) (p : Pkt) (rel : Option Nat) (v : Bool) :
    (psV5PublishAlias c p rel v).s.core = { c.s with tas := (psV5PublishAlias c p rel v).s.tas, store := (psV5PublishAlias c p rel v).s.store, puback := (psV5PublishAlias c p rel v).s.puback, pubrec := (psV5PublishAlias c p rel v).s.pubrec, sendCount := (psV5PublishAlias c p rel v).s.sendCount, panic := (psV5PublishAlias c p rel v).s.panic }.core := by
  simp only [St.core, Core.mk.injEq, and_true, true_and]
  (repeat' apply And.intro) <;>
    (unfold psV5PublishAlias; try dsimp only
     all_goals ((repeat' split) <;> first | rfl | simp [OtherSite, siteStored, sitePublish]))
core_fields psV5PublishAlias (c : C) (p : Pkt) (rel : Option Nat) (v : Bool) : (psV5PublishAlias c p rel v).s ~ { c.s with tas := (psV5PublishAlias c p rel v).s.tas, store := (psV5PublishAlias c p rel v).s.store, puback := (psV5PublishAlias c p rel v).s.puback, pubrec := (psV5PublishAlias c p rel v).s.pubrec, sendCount := (psV5PublishAlias c p rel v).s.sendCount, panic := (psV5PublishAlias c p rel v).s.panic } skip [tas, store, puback, pubrec, sendCount, cp] := psV5PublishAlias_core c p rel v
@[simp] theorem psV5PublishAlias_cfg (c : C) (p : Pkt) (rel : Option Nat) (v : Bool) : (psV5PublishAlias c p rel v).cfg = c.cfg := by
  unfold psV5PublishAlias; try dsimp only
  all_goals ((repeat' split) <;> first | rfl | simp [])

theorem prPuback_core (c : C) (x : Except Nat Pkt) :
    (prPuback c x).s.core = { c.s with puback := (prPuback c x).s.puback, store := (prPuback c x).s.store, sendCount := (prPuback c x).s.sendCount, status := (prPuback c x).s.status }.core := by
  simp only [St.core, Core.mk.injEq, and_true, true_and]
  (repeat' apply And.intro) <;>
    (unfold prPuback; try dsimp only
     all_goals ((repeat' split) <;> first | rfl | simp [OtherSite, siteStored, sitePublish]))
core_fields prPuback (c : C) (x : Except Nat Pkt) : (prPuback c x).s ~ { c.s with puback := (prPuback c x).s.puback, store := (prPuback c x).s.store, sendCount := (prPuback c x).s.sendCount, status := (prPuback c x).s.status } skip [puback, store, sendCount, status] := prPuback_core c x
@[simp] theorem prPuback_cfg (c : C) (x : Except Nat Pkt) : (prPuback c x).cfg = c.cfg := by
  unfold prPuback; try dsimp only
  all_goals ((repeat' split) <;> first | rfl | simp [])
@[simp] theorem prPuback_pubs (c : C) (x : Except Nat Pkt)  : pubs (prPuback c x).ev = pubs c.ev := by
  unfold prPuback; try dsimp only
  all_goals ((repeat' split) <;> first | rfl | simp [])

theorem prPubrec_core (c : C) (x : Except Nat Pkt) :
    (prPubrec c x).s.core = { c.s with pubrec := (prPubrec c x).s.pubrec, store := (prPubrec c x).s.store, pubcomp := (prPubrec c x).s.pubcomp, sendCount := (prPubrec c x).s.sendCount, status := (prPubrec c x).s.status }.core := by
  simp only [St.core, Core.mk.injEq, and_true, true_and]
  (repeat' apply And.intro) <;>
    (unfold prPubrec; try dsimp only
     all_goals ((repeat' split) <;> first | rfl | simp [OtherSite, siteStored, sitePublish, notPub_mkAck]))
core_fields prPubrec (c : C) (x : Except Nat Pkt) : (prPubrec c x).s ~ { c.s with pubrec := (prPubrec c x).s.pubrec, store := (prPubrec c x).s.store, pubcomp := (prPubrec c x).s.pubcomp, sendCount := (prPubrec c x).s.sendCount, status := (prPubrec c x).s.status } skip [pubrec, store, pubcomp, sendCount, status] := prPubrec_core c x
@[simp] theorem prPubrec_cfg (c : C) (x : Except Nat Pkt) : (prPubrec c x).cfg = c.cfg := by
  unfold prPubrec; try dsimp only
  all_goals ((repeat' split) <;> first | rfl | simp [notPub_mkAck])
@[simp] theorem prPubrec_pubs (c : C) (x : Except Nat Pkt)  : pubs (prPubrec c x).ev = pubs c.ev := by
  unfold prPubrec; try dsimp only
  all_goals ((repeat' split) <;> first | rfl | simp [notPub_mkAck])

theorem prPubrel_core (c : C) (x : Except Nat Pkt) :
    (prPubrel c x).s.core = { c.s with publishRecv := (prPubrel c x).s.publishRecv, status := (prPubrel c x).s.status }.core := by
  simp only [St.core, Core.mk.injEq, and_true, true_and]
  (repeat' apply And.intro) <;>
    (unfold prPubrel; try dsimp only
     all_goals ((repeat' split) <;> first | rfl | simp [OtherSite, siteStored, sitePublish, notPub_mkAck]))
core_fields prPubrel (c : C) (x : Except Nat Pkt) : (prPubrel c x).s ~ { c.s with publishRecv := (prPubrel c x).s.publishRecv, status := (prPubrel c x).s.status } skip [publishRecv, status] := prPubrel_core c x
@[simp] theorem prPubrel_cfg (c : C) (x : Except Nat Pkt) : (prPubrel c x).cfg = c.cfg := by
  unfold prPubrel; try dsimp only
  all_goals ((repeat' split) <;> first | rfl | simp [notPub_mkAck])
@[simp] theorem prPubrel_pubs (c : C) (x : Except Nat Pkt)  : pubs (prPubrel c x).ev = pubs c.ev := by
  unfold prPubrel; try dsimp only
  all_goals ((repeat' split) <;> first | rfl | simp [notPub_mkAck])

theorem prPubcomp_core (c : C) (x : Except Nat Pkt) :
    (prPubcomp c x).s.core = { c.s with pubcomp := (prPubcomp c x).s.pubcomp, store := (prPubcomp c x).s.store, sendCount := (prPubcomp c x).s.sendCount, status := (prPubcomp c x).s.status }.core := by
  simp only [St.core, Core.mk.injEq, and_true, true_and]
  (repeat' apply And.intro) <;>
    (unfold prPubcomp; try dsimp only
     all_goals ((repeat' split) <;> first | rfl | simp [OtherSite, siteStored, sitePublish]))
core_fields prPubcomp (c : C) (x : Except Nat Pkt) : (prPubcomp c x).s ~ { c.s with pubcomp := (prPubcomp c x).s.pubcomp, store := (prPubcomp c x).s.store, sendCount := (prPubcomp c x).s.sendCount, status := (prPubcomp c x).s.status } skip [pubcomp, store, sendCount, status] := prPubcomp_core c x
@[simp] theorem prPubcomp_cfg (c : C) (x : Except Nat Pkt) : (prPubcomp c x).cfg = c.cfg := by
  unfold prPubcomp; try dsimp only
  all_goals ((repeat' split) <;> first | rfl | simp [])
@[simp] theorem prPubcomp_pubs (c : C) (x : Except Nat Pkt)  : pubs (prPubcomp c x).ev = pubs c.ev := by
  unfold prPubcomp; try dsimp only
  all_goals ((repeat' split) <;> first | rfl | simp [])

theorem prPlain_core (c : C) (x : Except Nat Pkt) :
    (prPlain c x).s.core = { c.s with status := (prPlain c x).s.status }.core := by
  simp only [St.core, Core.mk.injEq, and_true, true_and]
  (repeat' apply And.intro) <;>
    (unfold prPlain; try dsimp only
     all_goals ((repeat' split) <;> first | rfl | simp [OtherSite, siteStored, sitePublish]))
core_fields prPlain (c : C) (x : Except Nat Pkt) : (prPlain c x).s ~ { c.s with status := (prPlain c x).s.status } skip [status] := prPlain_core c x
@[simp] theorem prPlain_cfg (c : C) (x : Except Nat Pkt) : (prPlain c x).cfg = c.cfg := by
  unfold prPlain; try dsimp only
  all_goals ((repeat' split) <;> first | rfl | simp [])
@[simp] theorem prPlain_pubs (c : C) (x : Except Nat Pkt)  : pubs (prPlain c x).ev = pubs c.ev := by
  unfold prPlain; try dsimp only
  all_goals ((repeat' split) <;> first | rfl | simp [])

theorem prSubUnsuback_core (c : C) (b : Bool) (x : Except Nat Pkt) :
    (prSubUnsuback c b x).s.core = { c.s with status := (prSubUnsuback c b x).s.status }.core := by
  simp only [St.core, Core.mk.injEq, and_true, true_and]
  (repeat' apply And.intro) <;>
    (unfold prSubUnsuback; try dsimp only
     all_goals ((repeat' split) <;> first | rfl | simp [OtherSite, siteStored, sitePublish]))
core_fields prSubUnsuback (c : C) (b : Bool) (x : Except Nat Pkt) : (prSubUnsuback c b x).s ~ { c.s with status := (prSubUnsuback c b x).s.status } skip [status] := prSubUnsuback_core c b x
@[simp] theorem prSubUnsuback_cfg (c : C) (b : Bool) (x : Except Nat Pkt) : (prSubUnsuback c b x).cfg = c.cfg := by
  unfold prSubUnsuback; try dsimp only
  all_goals ((repeat' split) <;> first | rfl | simp [])
@[simp] theorem prSubUnsuback_pubs (c : C) (b : Bool) (x : Except Nat Pkt)  : pubs (prSubUnsuback c b x).ev = pubs c.ev := by
  unfold prSubUnsuback; try dsimp only
  all_goals ((repeat' split) <;> first | rfl | simp [])

theorem prPingreq_core (c : C) (x : Except Nat Pkt) :
    (prPingreq c x).s.core = { c.s with status := (prPingreq c x).s.status }.core := by
  simp only [St.core, Core.mk.injEq, and_true, true_and]
  (repeat' apply And.intro) <;>
    (unfold prPingreq; try dsimp only
     all_goals ((repeat' split) <;> first | rfl | simp [OtherSite, siteStored, sitePublish]))
core_fields prPingreq (c : C) (x : Except Nat Pkt) : (prPingreq c x).s ~ { c.s with status := (prPingreq c x).s.status } skip [status] := prPingreq_core c x
@[simp] theorem prPingreq_cfg (c : C) (x : Except Nat Pkt) : (prPingreq c x).cfg = c.cfg := by
  unfold prPingreq; try dsimp only
  all_goals ((repeat' split) <;> first | rfl | simp [])
@[simp] theorem prPingreq_pubs (c : C) (x : Except Nat Pkt)  : pubs (prPingreq c x).ev = pubs c.ev := by
  unfold prPingreq; try dsimp only
  all_goals ((repeat' split) <;> first | rfl | simp [])

theorem prPingresp_core (c : C) (x : Except Nat Pkt) :
    (prPingresp c x).s.core = { c.s with status := (prPingresp c x).s.status }.core := by
  simp only [St.core, Core.mk.injEq, and_true, true_and]
  (repeat' apply And.intro) <;>
    (unfold prPingresp; try dsimp only
     all_goals ((repeat' split) <;> first | rfl | simp [OtherSite, siteStored, sitePublish]))
core_fields prPingresp (c : C) (x : Except Nat Pkt) : (prPingresp c x).s ~ { c.s with status := (prPingresp c x).s.status } skip [status] := prPingresp_core c x
@[simp] theorem prPingresp_cfg (c : C) (x : Except Nat Pkt) : (prPingresp c x).cfg = c.cfg := by
  unfold prPingresp; try dsimp only
  all_goals ((repeat' split) <;> first | rfl | simp [])
@[simp] theorem prPingresp_pubs (c : C) (x : Except Nat Pkt)  : pubs (prPingresp c x).ev = pubs c.ev := by
  unfold prPingresp; try dsimp only
  all_goals ((repeat' split) <;> first | rfl | simp [])

theorem prDisconnect_core (c : C) (x : Except Nat Pkt) :
    (prDisconnect c x).s.core = { c.s with status := (prDisconnect c x).s.status }.core := by
  simp only [St.core, Core.mk.injEq, and_true, true_and]
  (repeat' apply And.intro) <;>
    (unfold prDisconnect; try dsimp only
     all_goals ((repeat' split) <;> first | rfl | simp [OtherSite, siteStored, sitePublish]))
core_fields prDisconnect (c : C) (x : Except Nat Pkt) : (prDisconnect c x).s ~ { c.s with status := (prDisconnect c x).s.status } skip [status] := prDisconnect_core c x
@[simp] theorem prDisconnect_cfg (c : C) (x : Except Nat Pkt) : (prDisconnect c x).cfg = c.cfg := by
  unfold prDisconnect; try dsimp only
  all_goals ((repeat' split) <;> first | rfl | simp [])
@[simp] theorem prDisconnect_pubs (c : C) (x : Except Nat Pkt)  : pubs (prDisconnect c x).ev = pubs c.ev := by
  unfold prDisconnect; try dsimp only
  all_goals ((repeat' split) <;> first | rfl | simp [])

theorem prV3Publish_core (c : C) (x : Except Nat Pkt) :
    (prV3Publish c x).s.core = { c.s with status := (prV3Publish c x).s.status }.core := by
  simp only [St.core, Core.mk.injEq, and_true, true_and]
  (repeat' apply And.intro) <;>
    (unfold prV3Publish; try dsimp only
     all_goals ((repeat' split) <;> first | rfl | simp [OtherSite, siteStored, sitePublish, notPub_mkAck]))
core_fields prV3Publish (c : C) (x : Except Nat Pkt) : (prV3Publish c x).s ~ { c.s with status := (prV3Publish c x).s.status } skip [status] := prV3Publish_core c x
@[simp] theorem prV3Publish_cfg (c : C) (x : Except Nat Pkt) : (prV3Publish c x).cfg = c.cfg := by
  unfold prV3Publish; try dsimp only
  all_goals ((repeat' split) <;> first | rfl | simp [notPub_mkAck])
@[simp] theorem prV3Publish_pubs (c : C) (x : Except Nat Pkt)  : pubs (prV3Publish c x).ev = pubs c.ev := by
  unfold prV3Publish; try dsimp only
  all_goals ((repeat' split) <;> first | rfl | simp [notPub_mkAck])

theorem prV5PublishAlias_core (c : C) (p : Pkt) :
    ((prV5PublishAlias c p).1).s.core = { c.s with tar := ((prV5PublishAlias c p).1).s.tar, status := ((prV5PublishAlias c p).1).s.status }.core := by
  simp only [St.core, Core.mk.injEq, and_true, true_and]
  (repeat' apply And.intro) <;>
    (unfold prV5PublishAlias; try dsimp only
     all_goals ((repeat' split) <;> first | rfl | simp [OtherSite, siteStored, sitePublish]))
core_fields prV5PublishAlias (c : C) (p : Pkt) : ((prV5PublishAlias c p).1).s ~ { c.s with tar := ((prV5PublishAlias c p).1).s.tar, status := ((prV5PublishAlias c p).1).s.status } skip [tar, status] := prV5PublishAlias_core c p
@[simp] theorem prV5PublishAlias_cfg (c : C) (p : Pkt) : ((prV5PublishAlias c p).1).cfg = c.cfg := by
  unfold prV5PublishAlias; try dsimp only
  all_goals ((repeat' split) <;> first | rfl | simp [])
@[simp] theorem prV5PublishAlias_pubs (c : C) (p : Pkt)  : pubs ((prV5PublishAlias c p).1).ev = pubs c.ev := by
  unfold prV5PublishAlias; try dsimp only
  all_goals ((repeat' split) <;> first | rfl | simp [])

theorem notifyTimerFired_core (c : C) (k : Timer) :
    (notifyTimerFired c k).s.core = { c.s with status := (notifyTimerFired c k).s.status }.core := by
  simp only [St.core, Core.mk.injEq, and_true, true_and]
  (repeat' apply And.intro) <;>
    (unfold notifyTimerFired; try dsimp only
     all_goals ((repeat' split) <;> first | rfl | simp [OtherSite, siteStored, sitePublish]))
core_fields notifyTimerFired (c : C) (k : Timer) : (notifyTimerFired c k).s ~ { c.s with status := (notifyTimerFired c k).s.status } skip [status] := notifyTimerFired_core c k
@[simp] theorem notifyTimerFired_cfg (c : C) (k : Timer) : (notifyTimerFired c k).cfg = c.cfg := by
  unfold notifyTimerFired; try dsimp only
  all_goals ((repeat' split) <;> first | rfl | simp [])
@[simp] theorem notifyTimerFired_pubs (c : C) (k : Timer)  : pubs (notifyTimerFired c k).ev = pubs c.ev := by
  unfold notifyTimerFired; try dsimp only
  all_goals ((repeat' split) <;> first | rfl | simp [])

theorem notifyClosed_core (c : C) :
    (notifyClosed c).s.core = { c.s with tas := (notifyClosed c).s.tas, tar := (notifyClosed c).s.tar, status := (notifyClosed c).s.status, puback := (notifyClosed c).s.puback, pubrec := (notifyClosed c).s.pubrec, pubcomp := (notifyClosed c).s.pubcomp, store := (notifyClosed c).s.store }.core := by
  simp only [St.core, Core.mk.injEq, and_true, true_and]
  (repeat' apply And.intro) <;>
    (unfold notifyClosed; try dsimp only
     all_goals ((repeat' split) <;> first | rfl | simp [OtherSite, siteStored, sitePublish]))
core_fields notifyClosed (c : C) : (notifyClosed c).s ~ { c.s with tas := (notifyClosed c).s.tas, tar := (notifyClosed c).s.tar, status := (notifyClosed c).s.status, puback := (notifyClosed c).s.puback, pubrec := (notifyClosed c).s.pubrec, pubcomp := (notifyClosed c).s.pubcomp, store := (notifyClosed c).s.store } skip [tas, tar, status, puback, pubrec, pubcomp, store] := notifyClosed_core c
@[simp] theorem notifyClosed_cfg (c : C) : (notifyClosed c).cfg = c.cfg := by
  unfold notifyClosed; try dsimp only
  all_goals ((repeat' split) <;> first | rfl | simp [])
@[simp] theorem notifyClosed_pubs (c : C)  : pubs (notifyClosed c).ev = pubs c.ev := by
  unfold notifyClosed; try dsimp only
  all_goals ((repeat' split) <;> first | rfl | simp [])

/-! ## staged view of the two large PUBLISH handlers -/

def addWait (c : C) (qos id : Nat) : C :=
  if qos = 2 then { c with s := { c.s with pubrec := ins id c.s.pubrec } }
  else { c with s := { c.s with puback := ins id c.s.puback } }

def wildcardCheck (c : C) (t : List Nat) : C :=
  if hasWildcard t then c.setPanic "core.rs:process_send_v5_0_publish:remove_topic_alias_add_topic().unwrap()" else c

theorem psV5Publish_eq (c : C) (p : Pkt) : psV5Publish c p =
  if !sizeOk c p then
    match p.pid with
    | some id => releaseIfUsed (c.err eTooLarge) id
    | none => c.err eTooLarge
  else if p.qos > 0 then
    match p.pid with
    | none => c.setPanic "core.rs:process_send_v5_0_publish:packet_id().unwrap()"
    | some id =>
      if pubNotAllowed c.s then releaseIfUsed (c.err eNotAllowed) id
      else if !isUsed c.s id then c.err ePidInvalid
      else if willStore c.s then
        if p.topic.isEmpty then
          match (validateTopicAlias c p.alias).1 with
          | none => releaseIfUsed ((validateTopicAlias c p.alias).2.err eNotAllowed) id
          | some t =>
            psV5PublishAlias (addWait (storeAdd (wildcardCheck (validateTopicAlias c p.alias).2 t) id
              { p with topic := t, alias := none, dup := true } "core.rs:process_send_v5_0_publish:store.add().unwrap()") p.qos id) p none true
        else
          psV5PublishAlias (addWait (storeAdd c id { p with alias := none, dup := true }
            "core.rs:process_send_v5_0_publish:store.add().unwrap()") p.qos id) p none false
      else psV5PublishAlias (addWait c p.qos id) p (some id) false
  else if c.s.status ≠ .connected then c.err eNotAllowed
  else psV5PublishAlias c p none false := by
  rfl

def prvBook (c : C) (qos id : Nat) : C :=
  let c := if qos > 0 then { c with s := { c.s with publishRecv := ins id c.s.publishRecv } } else c
  if qos = 2 then { c with s := { c.s with handled := ins id c.s.handled } } else c

def prvAck (c : C) (qos id : Nat) (already : Prop) [Decidable already] : C :=
  let pubackSend := qos = 1 ∧ c.s.autoPub ∧ c.s.status = .connected
  let pubrecSend := qos = 2 ∧ c.s.status = .connected ∧ (c.s.autoPub ∨ already)
  let c := if pubackSend then
      (if id = 0 then c.setPanic "core.rs:process_recv_v5_0_publish:puback.build().unwrap()" else c)
      |> fun c => psV5Puback c (mkAck c.cfg 5 .puback id)
    else c
  if pubrecSend then
      (if id = 0 then c.setPanic "core.rs:process_recv_v5_0_publish:pubrec.build().unwrap()" else c)
      |> fun c => psV5Pubrec c (mkAck c.cfg 5 .pubrec id)
    else c

def rmExceeded (s : St) : Bool :=
  match s.recvMax with
  | some m => decide (s.publishRecv.length ≥ m)
  | none => false

theorem prV5Publish_eq (c : C) (p : Pkt) : prV5Publish c (.ok p) =
  match (prV5PublishAlias c p).2 with
  | none => (prV5PublishAlias c p).1
  | some p' =>
    let c1 := (prV5PublishAlias c p).1
    if p.qos > 0 ∧ p.pid.isNone then c1.setPanic "core.rs:process_recv_v5_0_publish:packet_id().unwrap()"
    else if p.qos > 0 ∧ rmExceeded c1.s then handleV5Error c1 eRMExceeded
    else
      let id := p.pid.getD 0
      let already := p.qos = 2 ∧ id ∈ c1.s.handled
      let c4 := refreshPingreqRecv (prvAck (prvBook c1 p.qos id) p.qos id already)
      if !already then c4.push (.recv p') else c4 := by
  rfl

theorem addWait_core (c : C) (qos id : Nat) :
    (addWait c qos id).s.core = { c.s with puback := (addWait c qos id).s.puback, pubrec := (addWait c qos id).s.pubrec }.core := by
  unfold addWait; try dsimp only
  all_goals ((repeat' split) <;> first | (with_reducible rfl) | simp [St.core, OtherSite, siteStored, sitePublish])
core_fields addWait (c : C) (qos id : Nat) : (addWait c qos id).s ~ { c.s with puback := (addWait c qos id).s.puback, pubrec := (addWait c qos id).s.pubrec } skip [puback, pubrec] := addWait_core c qos id
@[simp] theorem addWait_cfg (c : C) (qos id : Nat) : (addWait c qos id).cfg = c.cfg := by
  unfold addWait; try dsimp only
  all_goals ((repeat' split) <;> first | (with_reducible rfl) | simp [])
@[simp] theorem addWait_pubs (c : C) (qos id : Nat)  : pubs (addWait c qos id).ev = pubs c.ev := by
  unfold addWait; try dsimp only
  all_goals ((repeat' split) <;> first | (with_reducible rfl) | simp [])

theorem wildcardCheck_core (c : C) (t : List Nat) :
    (wildcardCheck c t).s.core = c.s.core := by
  unfold wildcardCheck; try dsimp only
  all_goals ((repeat' split) <;> first | (with_reducible rfl) | simp [St.core, OtherSite, siteStored, sitePublish])
core_fields wildcardCheck (c : C) (t : List Nat) : (wildcardCheck c t).s ~ c.s skip [] := wildcardCheck_core c t
@[simp] theorem wildcardCheck_cfg (c : C) (t : List Nat) : (wildcardCheck c t).cfg = c.cfg := by
  unfold wildcardCheck; try dsimp only
  all_goals ((repeat' split) <;> first | (with_reducible rfl) | simp [])
@[simp] theorem wildcardCheck_pubs (c : C) (t : List Nat)  : pubs (wildcardCheck c t).ev = pubs c.ev := by
  unfold wildcardCheck; try dsimp only
  all_goals ((repeat' split) <;> first | (with_reducible rfl) | simp [])

theorem prvBook_core (c : C) (qos id : Nat) :
    (prvBook c qos id).s.core = { c.s with publishRecv := (prvBook c qos id).s.publishRecv }.core := by
  unfold prvBook; try dsimp only
  all_goals ((repeat' split) <;> first | (with_reducible rfl) | simp [St.core, OtherSite, siteStored, sitePublish])
core_fields prvBook (c : C) (qos id : Nat) : (prvBook c qos id).s ~ { c.s with publishRecv := (prvBook c qos id).s.publishRecv } skip [publishRecv] := prvBook_core c qos id
@[simp] theorem prvBook_cfg (c : C) (qos id : Nat) : (prvBook c qos id).cfg = c.cfg := by
  unfold prvBook; try dsimp only
  all_goals ((repeat' split) <;> first | (with_reducible rfl) | simp [])
@[simp] theorem prvBook_pubs (c : C) (qos id : Nat)  : pubs (prvBook c qos id).ev = pubs c.ev := by
  unfold prvBook; try dsimp only
  all_goals ((repeat' split) <;> first | (with_reducible rfl) | simp [])

theorem prvAck_core (c : C) (qos id : Nat) (already : Prop) [Decidable already] :
    (prvAck c qos id already).s.core = { c.s with publishRecv := (prvAck c qos id already).s.publishRecv }.core := by
  unfold prvAck; try dsimp only
  all_goals ((repeat' split) <;> first | (with_reducible rfl) | simp [St.core, OtherSite, siteStored, sitePublish, notPub_mkAck])
core_fields prvAck (c : C) (qos id : Nat) (already : Prop) [Decidable already] : (prvAck c qos id already).s ~ { c.s with publishRecv := (prvAck c qos id already).s.publishRecv } skip [publishRecv] := prvAck_core c qos id already
@[simp] theorem prvAck_cfg (c : C) (qos id : Nat) (already : Prop) [Decidable already] : (prvAck c qos id already).cfg = c.cfg := by
  unfold prvAck; try dsimp only
  all_goals ((repeat' split) <;> first | (with_reducible rfl) | simp [notPub_mkAck])
@[simp] theorem prvAck_pubs (c : C) (qos id : Nat) (already : Prop) [Decidable already]  : pubs (prvAck c qos id already).ev = pubs c.ev := by
  unfold prvAck; try dsimp only
  all_goals ((repeat' split) <;> first | (with_reducible rfl) | simp [notPub_mkAck])

theorem psV5Publish_core (c : C) (p : Pkt) :
    (psV5Publish c p).s.core = { c.s with tas := (psV5Publish c p).s.tas, store := (psV5Publish c p).s.store, puback := (psV5Publish c p).s.puback, pubrec := (psV5Publish c p).s.pubrec, sendCount := (psV5Publish c p).s.sendCount, panic := (psV5Publish c p).s.panic }.core := by
  simp only [St.core, Core.mk.injEq, and_true, true_and]
  (repeat' apply And.intro) <;>
    (rw [psV5Publish_eq]
     all_goals ((repeat' split) <;> first | (with_reducible rfl) | simp [OtherSite, siteStored, sitePublish]))
core_fields psV5Publish (c : C) (p : Pkt) : (psV5Publish c p).s ~ { c.s with tas := (psV5Publish c p).s.tas, store := (psV5Publish c p).s.store, puback := (psV5Publish c p).s.puback, pubrec := (psV5Publish c p).s.pubrec, sendCount := (psV5Publish c p).s.sendCount, panic := (psV5Publish c p).s.panic } skip [tas, store, puback, pubrec, sendCount, cp] := psV5Publish_core c p
@[simp] theorem psV5Publish_cfg (c : C) (p : Pkt) : (psV5Publish c p).cfg = c.cfg := by
  rw [psV5Publish_eq]
  all_goals ((repeat' split) <;> first | (with_reducible rfl) | simp [])

theorem prV5Publish_core (c : C) (x : Except Nat Pkt) :
    (prV5Publish c x).s.core = { c.s with tar := (prV5Publish c x).s.tar, publishRecv := (prV5Publish c x).s.publishRecv, status := (prV5Publish c x).s.status }.core := by
  simp only [St.core, Core.mk.injEq, and_true, true_and]
  (repeat' apply And.intro) <;>
    (rcases x with e | q <;> (first | rw [prV5Publish_eq] | unfold prV5Publish) <;> try dsimp only
     all_goals ((repeat' split) <;> first | (with_reducible rfl) | simp [OtherSite, siteStored, sitePublish, notPub_mkAck]))
core_fields prV5Publish (c : C) (x : Except Nat Pkt) : (prV5Publish c x).s ~ { c.s with tar := (prV5Publish c x).s.tar, publishRecv := (prV5Publish c x).s.publishRecv, status := (prV5Publish c x).s.status } skip [tar, publishRecv, status] := prV5Publish_core c x
@[simp] theorem prV5Publish_cfg (c : C) (x : Except Nat Pkt) : (prV5Publish c x).cfg = c.cfg := by
  rcases x with e | q <;> (first | rw [prV5Publish_eq] | unfold prV5Publish) <;> try dsimp only
  all_goals ((repeat' split) <;> first | (with_reducible rfl) | simp [notPub_mkAck])
@[simp] theorem prV5Publish_pubs (c : C) (x : Except Nat Pkt)  : pubs (prV5Publish c x).ev = pubs c.ev := by
  rcases x with e | q <;> (first | rw [prV5Publish_eq] | unfold prV5Publish) <;> try dsimp only
  all_goals ((repeat' split) <;> first | (with_reducible rfl) | simp [notPub_mkAck])

end MqttVerif.Conn
