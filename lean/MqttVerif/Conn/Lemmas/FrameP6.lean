import MqttVerif.Conn.Step
import MqttVerif.Monitors
import MqttVerif.Alloc.Lemmas
import MqttVerif.Conn.Lemmas.Resend
/-!
# Frame lemmas for the fields C12 / C13 talk about (agent P6)

`St.core` collects the fields the Receive-Maximum and Topic-Alias properties depend on.  For
every model function one lemma `f_core : (f c).s.core = (…).core` is proved; the command
`core_fields` turns it into one `@[simp]` lemma per field.
-/
set_option linter.unusedSimpArgs false
set_option linter.unusedVariables false
namespace MqttVerif.Conn
open MqttVerif

def siteStored : String := "core.rs:send_stored:publish_send_count+=1"
def sitePublish : String := "core.rs:process_send_v5_0_publish:publish_send_count+=1"

/-- the sticky panic was raised at one of the two `publish_send_count += 1` sites -/
def cpOf (o : Option String) : Bool := o = some siteStored ∨ o = some sitePublish

structure Core where
  ver : Nat
  tas : Option TAS
  tar : Option TAR
  store : List (Nat × Pkt)
  sendMax : Option Nat
  sendCount : Nat
  puback : List Nat
  pubrec : List Nat
  pubcomp : List Nat
  publishRecv : List Nat
  recvMax : Option Nat
  status : Status
  needStore : Bool
  cp : Bool

def St.core (s : St) : Core :=
  { ver := s.ver, tas := s.tas, tar := s.tar, store := s.store, sendMax := s.sendMax,
    sendCount := s.sendCount, puback := s.puback, pubrec := s.pubrec, pubcomp := s.pubcomp,
    publishRecv := s.publishRecv, recvMax := s.recvMax, status := s.status,
    needStore := s.needStore, cp := cpOf s.panic }

open Lean in
/-- `core_fields thm binders : lhs ~ rhs skip [f₁ …] := proof` where
    `proof : lhs.core = rhs.core`: one `@[simp]` lemma `thm_f : lhs.f = rhs.f` per core field
    not listed after `skip`. -/
macro "core_fields " thm:ident bs:bracketedBinder* " : " lhs:term " ~ " rhs:term
    " skip " "[" sk:ident,* "]" " := " prf:term : command => do
  let flds := #["ver", "tas", "tar", "store", "sendMax", "sendCount", "puback", "pubrec", "pubcomp",
    "publishRecv", "recvMax", "status", "needStore", "cp"]
  let skipped := sk.getElems.map (·.getId.toString)
  let mut cmds : Array Syntax := #[]
  for fld in flds do
    if skipped.contains fld then continue
    let nm := mkIdent (thm.getId.appendAfter ("_" ++ fld))
    let stp := mkIdent (`MqttVerif.Conn.St ++ Name.mkSimple fld)
    let cpj := mkIdent (`MqttVerif.Conn.Core ++ Name.mkSimple fld)
    let cmd ← if fld == "cp" then
        `(@[simp] theorem $nm $bs* : cpOf (St.panic $lhs) = cpOf (St.panic $rhs) := by
          have h := $prf
          exact congrArg $cpj h)
      else
        `(@[simp] theorem $nm $bs* : $stp $lhs = $stp $rhs := by
          have h := $prf
          exact congrArg $cpj h)
    cmds := cmds.push cmd
  return ⟨mkNullNode cmds⟩

/-! ## the v5.0 PUBLISH packets among the events of a call -/

def pubsOf : Ev → List Pkt
  | .send p _ => if p.ver = 5 ∧ p.kind = .publish then [p] else []
  | _ => []

def pubs : List Ev → List Pkt
  | [] => []
  | e :: rest => pubsOf e ++ pubs rest

@[simp] theorem pubsOf_recv (p : Pkt) : pubsOf (.recv p) = [] := rfl
@[simp] theorem pubsOf_released (i : Nat) : pubsOf (.released i) = [] := rfl
@[simp] theorem pubsOf_timerReset (k : Timer) (ms : Nat) : pubsOf (.timerReset k ms) = [] := rfl
@[simp] theorem pubsOf_timerCancel (k : Timer) : pubsOf (.timerCancel k) = [] := rfl
@[simp] theorem pubsOf_error (e : Nat) : pubsOf (.error e) = [] := rfl
@[simp] theorem pubsOf_close : pubsOf .close = [] := rfl
theorem pubsOf_send (p : Pkt) (r : Option Nat) :
    pubsOf (.send p r) = if p.ver = 5 ∧ p.kind = .publish then [p] else [] := rfl
@[simp] theorem pubs_nil : pubs [] = [] := rfl
@[simp] theorem pubs_append (a b : List Ev) : pubs (a ++ b) = pubs a ++ pubs b := by
  induction a with
  | nil => rfl
  | cons e r ih => simp [pubs, ih]
@[simp] theorem pubs_cons (e : Ev) (r : List Ev) : pubs (e :: r) = pubsOf e ++ pubs r := rfl
@[simp] theorem pubs_single (e : Ev) : pubs [e] = pubsOf e := by simp [pubs]

/-! ## basic context operations -/

@[simp] theorem push_s (c : C) (e : Ev) : (c.push e).s = c.s := rfl
@[simp] theorem push_cfg (c : C) (e : Ev) : (c.push e).cfg = c.cfg := rfl
@[simp] theorem push_ev (c : C) (e : Ev) : (c.push e).ev = c.ev ++ [e] := rfl
@[simp] theorem err_s (c : C) (e : Nat) : (c.err e).s = c.s := rfl
@[simp] theorem err_cfg (c : C) (e : Nat) : (c.err e).cfg = c.cfg := rfl
@[simp] theorem err_ev (c : C) (e : Nat) : (c.err e).ev = c.ev ++ [.error e] := rfl
@[simp] theorem setPanic_cfg (c : C) (x : String) : (c.setPanic x).cfg = c.cfg := rfl
@[simp] theorem setPanic_ev (c : C) (x : String) : (c.setPanic x).ev = c.ev := rfl

/-- a panic site other than the two counter sites -/
abbrev OtherSite (x : String) : Prop := x ≠ siteStored ∧ x ≠ sitePublish
instance (x : String) : Decidable (OtherSite x) := by unfold OtherSite; infer_instance

theorem cpOf_getD (o : Option String) (x : String) (h : OtherSite x) :
    cpOf (some (o.getD x)) = cpOf o := by
  cases o with
  | none => simp [cpOf, h.1, h.2]
  | some y => simp [cpOf]

theorem setPanic_core (c : C) (x : String) (h : OtherSite x) : (c.setPanic x).s.core = c.s.core := by
  simp [C.setPanic, St.core, cpOf_getD _ _ h]


/-! ## allocator panic sites are not counter sites -/

theorem deallocLR_site (tmax v : Nat) (l : Option Alloc.Iv) (r : Alloc.Iv) (rest : List Alloc.Iv) (x : String)
    (h : Alloc.deallocLR tmax v l r rest = .panic x) : OtherSite x := by
  unfold Alloc.deallocLR at h
  (repeat' split at h) <;> simp at h <;> (subst h; decide)

theorem deallocRaw_site (tmax v : Nat) (p : List Alloc.Iv) (x : String)
    (h : Alloc.deallocRaw tmax v p = .panic x) : OtherSite x := by
  induction p with
  | nil => simp [Alloc.deallocRaw] at h
  | cons a rest ih =>
    unfold Alloc.deallocRaw at h
    split at h
    · split at h
      · split at h <;> simp at h
      · split at h
        · rename_i b rest' hb
          cases hq : Alloc.deallocRaw tmax v (b :: rest') with
          | ok q => simp [hq, Alloc.DRes.map] at h
          | panic y =>
            simp [hq, Alloc.DRes.map] at h
            subst h; exact ih hq
        · exact deallocLR_site _ _ _ _ _ _ h
    · exact deallocLR_site _ _ _ _ _ _ h

theorem dealloc_site (a : Alloc.A) (v : Nat) (x : String) (h : (Alloc.deallocate a v).1 = some x) :
    OtherSite x := by
  unfold Alloc.deallocate at h
  split at h
  · simp at h; subst h; decide
  · split at h
    · simp at h
    · split at h
      · simp at h
      · rename_i s hs
        simp at h; subst h
        exact deallocRaw_site _ _ _ _ hs

/-! ## leaf functions -/

theorem releaseId_core (c : C) (id : Nat) : (releaseId c id).s.core = c.s.core := by
  unfold releaseId; dsimp only
  split
  · rfl
  · rename_i site hs
    rw [setPanic_core _ _ (dealloc_site _ _ _ hs)]; rfl
core_fields releaseId (c : C) (id : Nat) : (releaseId c id).s ~ c.s skip [] := releaseId_core c id
@[simp] theorem releaseId_ev (c : C) (id : Nat) : (releaseId c id).ev = c.ev := by
  unfold releaseId; dsimp only; split <;> rfl
@[simp] theorem releaseId_cfg (c : C) (id : Nat) : (releaseId c id).cfg = c.cfg := by
  unfold releaseId; dsimp only; split <;> rfl

theorem releaseIfUsed_core (c : C) (id : Nat) : (releaseIfUsed c id).s.core = c.s.core := by
  unfold releaseIfUsed; split <;> simp [St.core]
core_fields releaseIfUsed (c : C) (id : Nat) : (releaseIfUsed c id).s ~ c.s skip [] := releaseIfUsed_core c id
@[simp] theorem releaseIfUsed_cfg (c : C) (id : Nat) : (releaseIfUsed c id).cfg = c.cfg := by
  unfold releaseIfUsed; split <;> simp
@[simp] theorem releaseIfUsed_pubs (c : C) (id : Nat) : pubs (releaseIfUsed c id).ev = pubs c.ev := by
  unfold releaseIfUsed; split <;> simp

/-- a send refused before its handler (fix 1d0ef05): an error and possibly a release -/
theorem refuseSend_core (c : C) (e : Nat) (p : Pkt) : (refuseSend c e p).s.core = c.s.core := by
  unfold refuseSend; split <;> simp [releaseIfUsed_core]
core_fields refuseSend (c : C) (e : Nat) (p : Pkt) : (refuseSend c e p).s ~ c.s skip [] := refuseSend_core c e p
@[simp] theorem refuseSend_cfg (c : C) (e : Nat) (p : Pkt) : (refuseSend c e p).cfg = c.cfg := by
  unfold refuseSend; split <;> simp
@[simp] theorem refuseSend_pubs (c : C) (e : Nat) (p : Pkt) : pubs (refuseSend c e p).ev = pubs c.ev := by
  unfold refuseSend; split <;> simp

theorem cancelTimers_core (c : C) : (cancelTimers c).s.core = c.s.core := by
  unfold cancelTimers; dsimp only; (repeat' split) <;> rfl
core_fields cancelTimers (c : C) : (cancelTimers c).s ~ c.s skip [] := cancelTimers_core c
@[simp] theorem cancelTimers_cfg (c : C) : (cancelTimers c).cfg = c.cfg := by
  unfold cancelTimers; dsimp only; (repeat' split) <;> rfl
@[simp] theorem cancelTimers_pubs (c : C) : pubs (cancelTimers c).ev = pubs c.ev := by
  unfold cancelTimers; dsimp only; (repeat' split) <;> simp

theorem sendPostProcess_core (c : C) : (sendPostProcess c).s.core = c.s.core := by
  unfold sendPostProcess; dsimp only; (repeat' split) <;> rfl
core_fields sendPostProcess (c : C) : (sendPostProcess c).s ~ c.s skip [] := sendPostProcess_core c
@[simp] theorem sendPostProcess_cfg (c : C) : (sendPostProcess c).cfg = c.cfg := by
  unfold sendPostProcess; dsimp only; (repeat' split) <;> rfl
@[simp] theorem sendPostProcess_pubs (c : C) : pubs (sendPostProcess c).ev = pubs c.ev := by
  unfold sendPostProcess; dsimp only; (repeat' split) <;> simp

theorem refreshPingreqRecv_core (c : C) : (refreshPingreqRecv c).s.core = c.s.core := by
  unfold refreshPingreqRecv; dsimp only; (repeat' split) <;> rfl
core_fields refreshPingreqRecv (c : C) : (refreshPingreqRecv c).s ~ c.s skip [] := refreshPingreqRecv_core c
@[simp] theorem refreshPingreqRecv_cfg (c : C) : (refreshPingreqRecv c).cfg = c.cfg := by
  unfold refreshPingreqRecv; dsimp only; (repeat' split) <;> rfl
@[simp] theorem refreshPingreqRecv_pubs (c : C) : pubs (refreshPingreqRecv c).ev = pubs c.ev := by
  unfold refreshPingreqRecv; dsimp only; (repeat' split) <;> simp

theorem releaseAll_core (c : C) (l : List Nat) : (releaseAll c l).s.core = c.s.core := by
  induction l generalizing c with
  | nil => rfl
  | cons a r ih => simp [releaseAll, ih, releaseIfUsed_core]
core_fields releaseAll (c : C) (l : List Nat) : (releaseAll c l).s ~ c.s skip [] := releaseAll_core c l
@[simp] theorem releaseAll_cfg (c : C) (l : List Nat) : (releaseAll c l).cfg = c.cfg := by
  induction l generalizing c with
  | nil => rfl
  | cons a r ih => simp [releaseAll, ih]
@[simp] theorem releaseAll_pubs (c : C) (l : List Nat) : pubs (releaseAll c l).ev = pubs c.ev := by
  induction l generalizing c with
  | nil => rfl
  | cons a r ih => simp [releaseAll, ih]

/-- packets that are not a v5.0 PUBLISH -/
def NotPub (p : Pkt) : Prop := ¬ (p.ver = 5 ∧ p.kind = .publish)
instance (p : Pkt) : Decidable (NotPub p) := by unfold NotPub; infer_instance
theorem pubsOf_notPub {p : Pkt} (h : NotPub p) (r : Option Nat) : pubsOf (.send p r) = [] := by
  unfold NotPub at h; simp [pubsOf, h]

/-! ## functions that change at most `status` (towards `disconnected`) -/

theorem psV5Disconnect_core (c : C) (p : Pkt) :
    (psV5Disconnect c p).s.core = { c.s with status := (psV5Disconnect c p).s.status }.core := by
  unfold psV5Disconnect; try dsimp only
  all_goals ((repeat' split) <;> first | rfl | simp [St.core])
core_fields psV5Disconnect (c : C) (p : Pkt) : (psV5Disconnect c p).s ~ { c.s with status := (psV5Disconnect c p).s.status } skip [status] := psV5Disconnect_core c p
@[simp] theorem psV5Disconnect_cfg (c : C) (p : Pkt) : (psV5Disconnect c p).cfg = c.cfg := by
  unfold psV5Disconnect; try dsimp only
  all_goals ((repeat' split) <;> first | rfl | simp [])
@[simp] theorem psV5Disconnect_pubs (c : C) (p : Pkt) (h : NotPub p) : pubs (psV5Disconnect c p).ev = pubs c.ev := by
  unfold psV5Disconnect; try dsimp only
  all_goals ((repeat' split) <;> first | rfl | simp [h, pubsOf_notPub h])
theorem psV5Disconnect_status (c : C) (p : Pkt) :
    (psV5Disconnect c p).s.status = c.s.status ∨ (psV5Disconnect c p).s.status = .disconnected := by
  unfold psV5Disconnect; try dsimp only
  all_goals ((repeat' split) <;> first | rfl | simp [])

theorem psV3Disconnect_core (c : C) (p : Pkt) :
    (psV3Disconnect c p).s.core = { c.s with status := (psV3Disconnect c p).s.status }.core := by
  unfold psV3Disconnect; try dsimp only
  all_goals ((repeat' split) <;> first | rfl | simp [St.core])
core_fields psV3Disconnect (c : C) (p : Pkt) : (psV3Disconnect c p).s ~ { c.s with status := (psV3Disconnect c p).s.status } skip [status] := psV3Disconnect_core c p
@[simp] theorem psV3Disconnect_cfg (c : C) (p : Pkt) : (psV3Disconnect c p).cfg = c.cfg := by
  unfold psV3Disconnect; try dsimp only
  all_goals ((repeat' split) <;> first | rfl | simp [])
@[simp] theorem psV3Disconnect_pubs (c : C) (p : Pkt) (h : NotPub p) : pubs (psV3Disconnect c p).ev = pubs c.ev := by
  unfold psV3Disconnect; try dsimp only
  all_goals ((repeat' split) <;> first | rfl | simp [h, pubsOf_notPub h])
theorem psV3Disconnect_status (c : C) (p : Pkt) :
    (psV3Disconnect c p).s.status = c.s.status ∨ (psV3Disconnect c p).s.status = .disconnected := by
  unfold psV3Disconnect; try dsimp only
  all_goals ((repeat' split) <;> first | rfl | simp [])

theorem handleV3Error_core (c : C) (e : Nat) :
    (handleV3Error c e).s.core = { c.s with status := (handleV3Error c e).s.status }.core := by
  unfold handleV3Error; try dsimp only
  all_goals ((repeat' split) <;> first | rfl | simp [St.core])
core_fields handleV3Error (c : C) (e : Nat) : (handleV3Error c e).s ~ { c.s with status := (handleV3Error c e).s.status } skip [status] := handleV3Error_core c e
@[simp] theorem handleV3Error_cfg (c : C) (e : Nat) : (handleV3Error c e).cfg = c.cfg := by
  unfold handleV3Error; try dsimp only
  all_goals ((repeat' split) <;> first | rfl | simp [])
@[simp] theorem handleV3Error_pubs (c : C) (e : Nat)  : pubs (handleV3Error c e).ev = pubs c.ev := by
  unfold handleV3Error; try dsimp only
  all_goals ((repeat' split) <;> first | rfl | simp [])
theorem handleV3Error_status (c : C) (e : Nat) :
    (handleV3Error c e).s.status = c.s.status ∨ (handleV3Error c e).s.status = .disconnected := by
  unfold handleV3Error; try dsimp only
  all_goals ((repeat' split) <;> first | rfl | simp [])

@[simp] theorem notPub_mkV5Disconnect (rc : Nat) : NotPub (mkV5Disconnect rc) := by simp [NotPub, mkV5Disconnect]
@[simp] theorem notPub_mkPingreq (v : Nat) : NotPub (mkPingreq v) := by simp [NotPub, mkPingreq]
@[simp] theorem notPub_mkPingresp (v : Nat) : NotPub (mkPingresp v) := by simp [NotPub, mkPingresp]
@[simp] theorem notPub_mkV3Connack (rc : Nat) : NotPub (mkV3Connack rc) := by simp [NotPub, mkV3Connack]
@[simp] theorem notPub_mkV5Connack (rc : Nat) : NotPub (mkV5Connack rc) := by simp [NotPub, mkV5Connack]
@[simp] theorem notPub_mkV5PubcompRc (cfg : Cfg) (id rc : Nat) : NotPub (mkV5PubcompRc cfg id rc) := by
  simp [NotPub, mkV5PubcompRc]
theorem notPub_mkAck (cfg : Cfg) (v : Nat) (k : Kind) (id : Nat) (h : k ≠ .publish) : NotPub (mkAck cfg v k id) := by
  simp [NotPub, mkAck, h]
theorem notPub_of_kind {p : Pkt} (h : p.kind ≠ .publish) : NotPub p := by simp [NotPub, h]
theorem notPub_of_ver {p : Pkt} (h : p.ver ≠ 5) : NotPub p := by simp [NotPub, h]

theorem v5DisconnectOrClose_core (c : C) (d : Pkt) :
    (v5DisconnectOrClose c d).s.core = { c.s with status := (v5DisconnectOrClose c d).s.status }.core := by
  unfold v5DisconnectOrClose; try dsimp only
  all_goals ((repeat' split) <;> first | rfl | simp [St.core])
core_fields v5DisconnectOrClose (c : C) (d : Pkt) : (v5DisconnectOrClose c d).s ~ { c.s with status := (v5DisconnectOrClose c d).s.status } skip [status] := v5DisconnectOrClose_core c d
@[simp] theorem v5DisconnectOrClose_cfg (c : C) (d : Pkt) : (v5DisconnectOrClose c d).cfg = c.cfg := by
  unfold v5DisconnectOrClose; try dsimp only
  all_goals ((repeat' split) <;> first | rfl | simp [])
@[simp] theorem v5DisconnectOrClose_pubs (c : C) (d : Pkt) (h : NotPub d) : pubs (v5DisconnectOrClose c d).ev = pubs c.ev := by
  unfold v5DisconnectOrClose; try dsimp only
  all_goals ((repeat' split) <;> first | rfl | simp [h, pubsOf_notPub h])
theorem v5DisconnectOrClose_status (c : C) (d : Pkt) :
    (v5DisconnectOrClose c d).s.status = c.s.status ∨ (v5DisconnectOrClose c d).s.status = .disconnected := by
  unfold v5DisconnectOrClose; try dsimp only
  all_goals ((repeat' split) <;> (try simp []))
  <;> exact psV5Disconnect_status _ _

theorem handleV5Error_core (c : C) (e : Nat) :
    (handleV5Error c e).s.core = { c.s with status := (handleV5Error c e).s.status }.core := by
  unfold handleV5Error; try dsimp only
  all_goals ((repeat' split) <;> first | rfl | simp [St.core])
core_fields handleV5Error (c : C) (e : Nat) : (handleV5Error c e).s ~ { c.s with status := (handleV5Error c e).s.status } skip [status] := handleV5Error_core c e
@[simp] theorem handleV5Error_cfg (c : C) (e : Nat) : (handleV5Error c e).cfg = c.cfg := by
  unfold handleV5Error; try dsimp only
  all_goals ((repeat' split) <;> first | rfl | simp [])
@[simp] theorem handleV5Error_pubs (c : C) (e : Nat)  : pubs (handleV5Error c e).ev = pubs c.ev := by
  unfold handleV5Error; try dsimp only
  all_goals ((repeat' split) <;> first | rfl | simp [])
theorem handleV5Error_status (c : C) (e : Nat) :
    (handleV5Error c e).s.status = c.s.status ∨ (handleV5Error c e).s.status = .disconnected := by
  unfold handleV5Error; try dsimp only
  all_goals ((repeat' split) <;> (try simp []))
  <;> exact v5DisconnectOrClose_status _ _

theorem vErr_core (c : C) (e : Nat) :
    (vErr c e).s.core = { c.s with status := (vErr c e).s.status }.core := by
  unfold vErr; try dsimp only
  all_goals ((repeat' split) <;> first | rfl | simp [St.core])
core_fields vErr (c : C) (e : Nat) : (vErr c e).s ~ { c.s with status := (vErr c e).s.status } skip [status] := vErr_core c e
@[simp] theorem vErr_cfg (c : C) (e : Nat) : (vErr c e).cfg = c.cfg := by
  unfold vErr; try dsimp only
  all_goals ((repeat' split) <;> first | rfl | simp [])
@[simp] theorem vErr_pubs (c : C) (e : Nat)  : pubs (vErr c e).ev = pubs c.ev := by
  unfold vErr; try dsimp only
  all_goals ((repeat' split) <;> first | rfl | simp [])
theorem vErr_status (c : C) (e : Nat) :
    (vErr c e).s.status = c.s.status ∨ (vErr c e).s.status = .disconnected := by
  unfold vErr; try dsimp only
  all_goals ((repeat' split) <;> (try simp []))
  <;> first | exact handleV3Error_status _ _ | exact handleV5Error_status _ _

/-! ## functions that leave the core alone -/

theorem psV3Simple_core (c : C) (p : Pkt) : (psV3Simple c p).s.core = c.s.core := by
  unfold psV3Simple; try dsimp only
  all_goals ((repeat' split) <;> first | rfl | simp [St.core])
core_fields psV3Simple (c : C) (p : Pkt) : (psV3Simple c p).s ~ c.s skip [] := psV3Simple_core c p
@[simp] theorem psV3Simple_cfg (c : C) (p : Pkt) : (psV3Simple c p).cfg = c.cfg := by
  unfold psV3Simple; try dsimp only
  all_goals ((repeat' split) <;> first | rfl | simp [])
@[simp] theorem psV3Simple_pubs (c : C) (p : Pkt) (h : NotPub p) : pubs (psV3Simple c p).ev = pubs c.ev := by
  unfold psV3Simple; try dsimp only
  all_goals ((repeat' split) <;> first | rfl | simp [h, pubsOf_notPub h])

theorem psV5Simple_core (c : C) (p : Pkt) : (psV5Simple c p).s.core = c.s.core := by
  unfold psV5Simple; try dsimp only
  all_goals ((repeat' split) <;> first | rfl | simp [St.core])
core_fields psV5Simple (c : C) (p : Pkt) : (psV5Simple c p).s ~ c.s skip [] := psV5Simple_core c p
@[simp] theorem psV5Simple_cfg (c : C) (p : Pkt) : (psV5Simple c p).cfg = c.cfg := by
  unfold psV5Simple; try dsimp only
  all_goals ((repeat' split) <;> first | rfl | simp [])
@[simp] theorem psV5Simple_pubs (c : C) (p : Pkt) (h : NotPub p) : pubs (psV5Simple c p).ev = pubs c.ev := by
  unfold psV5Simple; try dsimp only
  all_goals ((repeat' split) <;> first | rfl | simp [h, pubsOf_notPub h])

theorem psSubUnsub_core (c : C) (p : Pkt) : (psSubUnsub c p).s.core = c.s.core := by
  unfold psSubUnsub; try dsimp only
  all_goals ((repeat' split) <;> first | rfl | simp [St.core])
core_fields psSubUnsub (c : C) (p : Pkt) : (psSubUnsub c p).s ~ c.s skip [] := psSubUnsub_core c p
@[simp] theorem psSubUnsub_cfg (c : C) (p : Pkt) : (psSubUnsub c p).cfg = c.cfg := by
  unfold psSubUnsub; try dsimp only
  all_goals ((repeat' split) <;> first | rfl | simp [])
@[simp] theorem psSubUnsub_pubs (c : C) (p : Pkt) (h : NotPub p) : pubs (psSubUnsub c p).ev = pubs c.ev := by
  unfold psSubUnsub; try dsimp only
  all_goals ((repeat' split) <;> first | rfl | simp [h, pubsOf_notPub h])

theorem psPingreq_core (c : C) (p : Pkt) : (psPingreq c p).s.core = c.s.core := by
  unfold psPingreq; try dsimp only
  all_goals ((repeat' split) <;> first | rfl | simp [St.core])
core_fields psPingreq (c : C) (p : Pkt) : (psPingreq c p).s ~ c.s skip [] := psPingreq_core c p
@[simp] theorem psPingreq_cfg (c : C) (p : Pkt) : (psPingreq c p).cfg = c.cfg := by
  unfold psPingreq; try dsimp only
  all_goals ((repeat' split) <;> first | rfl | simp [])
@[simp] theorem psPingreq_pubs (c : C) (p : Pkt) (h : NotPub p) : pubs (psPingreq c p).ev = pubs c.ev := by
  unfold psPingreq; try dsimp only
  all_goals ((repeat' split) <;> first | rfl | simp [h, pubsOf_notPub h])

theorem psV5Auth_core (c : C) (p : Pkt) : (psV5Auth c p).s.core = c.s.core := by
  unfold psV5Auth; try dsimp only
  all_goals ((repeat' split) <;> first | rfl | simp [St.core])
core_fields psV5Auth (c : C) (p : Pkt) : (psV5Auth c p).s ~ c.s skip [] := psV5Auth_core c p
@[simp] theorem psV5Auth_cfg (c : C) (p : Pkt) : (psV5Auth c p).cfg = c.cfg := by
  unfold psV5Auth; try dsimp only
  all_goals ((repeat' split) <;> first | rfl | simp [])
@[simp] theorem psV5Auth_pubs (c : C) (p : Pkt) (h : NotPub p) : pubs (psV5Auth c p).ev = pubs c.ev := by
  unfold psV5Auth; try dsimp only
  all_goals ((repeat' split) <;> first | rfl | simp [h, pubsOf_notPub h])

theorem setPingreqSendInterval_core (c : C) (d : Option Nat) : (setPingreqSendInterval c d).s.core = c.s.core := by
  unfold setPingreqSendInterval; try dsimp only
  all_goals ((repeat' split) <;> first | rfl | simp [St.core])
core_fields setPingreqSendInterval (c : C) (d : Option Nat) : (setPingreqSendInterval c d).s ~ c.s skip [] := setPingreqSendInterval_core c d
@[simp] theorem setPingreqSendInterval_cfg (c : C) (d : Option Nat) : (setPingreqSendInterval c d).cfg = c.cfg := by
  unfold setPingreqSendInterval; try dsimp only
  all_goals ((repeat' split) <;> first | rfl | simp [])
@[simp] theorem setPingreqSendInterval_pubs (c : C) (d : Option Nat)  : pubs (setPingreqSendInterval c d).ev = pubs c.ev := by
  unfold setPingreqSendInterval; try dsimp only
  all_goals ((repeat' split) <;> first | rfl | simp [])

/-! ## `setPanic` -/
theorem setPanic_core' (c : C) (x : String) :
    (c.setPanic x).s.core = { c.s with panic := (c.setPanic x).s.panic }.core := by
  simp [C.setPanic, St.core]
core_fields setPanic (c : C) (x : String) : (c.setPanic x).s ~ { c.s with panic := (c.setPanic x).s.panic } skip [cp] := setPanic_core' c x
@[simp] theorem setPanic_cp (c : C) (x : String) (h : OtherSite x) :
    cpOf (c.setPanic x).s.panic = cpOf c.s.panic := by
  simp [C.setPanic, cpOf_getD _ _ h]

/-! ## functions with a small footprint -/

theorem psV5Puback_core (c : C) (p : Pkt) :
    (psV5Puback c p).s.core = { c.s with publishRecv := (psV5Puback c p).s.publishRecv }.core := by
  unfold psV5Puback; try dsimp only
  all_goals ((repeat' split) <;> first | rfl | simp [St.core, OtherSite, siteStored, sitePublish])
core_fields psV5Puback (c : C) (p : Pkt) : (psV5Puback c p).s ~ { c.s with publishRecv := (psV5Puback c p).s.publishRecv } skip [publishRecv] := psV5Puback_core c p
@[simp] theorem psV5Puback_cfg (c : C) (p : Pkt) : (psV5Puback c p).cfg = c.cfg := by
  unfold psV5Puback; try dsimp only
  all_goals ((repeat' split) <;> first | rfl | simp [])
@[simp] theorem psV5Puback_pubs (c : C) (p : Pkt) (h : NotPub p) : pubs (psV5Puback c p).ev = pubs c.ev := by
  unfold psV5Puback; try dsimp only
  all_goals ((repeat' split) <;> first | rfl | simp [h, pubsOf_notPub h])

theorem psV5Pubrec_core (c : C) (p : Pkt) :
    (psV5Pubrec c p).s.core = { c.s with publishRecv := (psV5Pubrec c p).s.publishRecv }.core := by
  unfold psV5Pubrec; try dsimp only
  all_goals ((repeat' split) <;> first | rfl | simp [St.core, OtherSite, siteStored, sitePublish])
core_fields psV5Pubrec (c : C) (p : Pkt) : (psV5Pubrec c p).s ~ { c.s with publishRecv := (psV5Pubrec c p).s.publishRecv } skip [publishRecv] := psV5Pubrec_core c p
@[simp] theorem psV5Pubrec_cfg (c : C) (p : Pkt) : (psV5Pubrec c p).cfg = c.cfg := by
  unfold psV5Pubrec; try dsimp only
  all_goals ((repeat' split) <;> first | rfl | simp [])
@[simp] theorem psV5Pubrec_pubs (c : C) (p : Pkt) (h : NotPub p) : pubs (psV5Pubrec c p).ev = pubs c.ev := by
  unfold psV5Pubrec; try dsimp only
  all_goals ((repeat' split) <;> first | rfl | simp [h, pubsOf_notPub h])

theorem psV5Pubcomp_core (c : C) (p : Pkt) :
    (psV5Pubcomp c p).s.core = { c.s with publishRecv := (psV5Pubcomp c p).s.publishRecv }.core := by
  unfold psV5Pubcomp; try dsimp only
  all_goals ((repeat' split) <;> first | rfl | simp [St.core, OtherSite, siteStored, sitePublish])
core_fields psV5Pubcomp (c : C) (p : Pkt) : (psV5Pubcomp c p).s ~ { c.s with publishRecv := (psV5Pubcomp c p).s.publishRecv } skip [publishRecv] := psV5Pubcomp_core c p
@[simp] theorem psV5Pubcomp_cfg (c : C) (p : Pkt) : (psV5Pubcomp c p).cfg = c.cfg := by
  unfold psV5Pubcomp; try dsimp only
  all_goals ((repeat' split) <;> first | rfl | simp [])
@[simp] theorem psV5Pubcomp_pubs (c : C) (p : Pkt) (h : NotPub p) : pubs (psV5Pubcomp c p).ev = pubs c.ev := by
  unfold psV5Pubcomp; try dsimp only
  all_goals ((repeat' split) <;> first | rfl | simp [h, pubsOf_notPub h])

theorem decSendCount_core (c : C) :
    (decSendCount c).s.core = { c.s with sendCount := (decSendCount c).s.sendCount }.core := by
  unfold decSendCount; try dsimp only
  all_goals ((repeat' split) <;> first | rfl | simp [St.core, OtherSite, siteStored, sitePublish])
core_fields decSendCount (c : C) : (decSendCount c).s ~ { c.s with sendCount := (decSendCount c).s.sendCount } skip [sendCount] := decSendCount_core c
@[simp] theorem decSendCount_cfg (c : C) : (decSendCount c).cfg = c.cfg := by
  unfold decSendCount; try dsimp only
  all_goals ((repeat' split) <;> first | rfl | simp [])
@[simp] theorem decSendCount_pubs (c : C)  : pubs (decSendCount c).ev = pubs c.ev := by
  unfold decSendCount; try dsimp only
  all_goals ((repeat' split) <;> first | rfl | simp [])

theorem storeAdd_core (c : C) (id : Nat) (p : Pkt) (site : String) :
    (storeAdd c id p site).s.core = { c.s with store := (storeAdd c id p site).s.store, panic := (storeAdd c id p site).s.panic }.core := by
  unfold storeAdd; try dsimp only
  all_goals ((repeat' split) <;> first | rfl | simp [St.core, OtherSite, siteStored, sitePublish])
core_fields storeAdd (c : C) (id : Nat) (p : Pkt) (site : String) : (storeAdd c id p site).s ~ { c.s with store := (storeAdd c id p site).s.store, panic := (storeAdd c id p site).s.panic } skip [store, cp] := storeAdd_core c id p site
@[simp] theorem storeAdd_cfg (c : C) (id : Nat) (p : Pkt) (site : String) : (storeAdd c id p site).cfg = c.cfg := by
  unfold storeAdd; try dsimp only
  all_goals ((repeat' split) <;> first | rfl | simp [])
@[simp] theorem storeAdd_pubs (c : C) (id : Nat) (p : Pkt) (site : String)  : pubs (storeAdd c id p site).ev = pubs c.ev := by
  unfold storeAdd; try dsimp only
  all_goals ((repeat' split) <;> first | rfl | simp [])
@[simp] theorem storeAdd_cp (c : C) (id : Nat) (p : Pkt) (site : String) (h : OtherSite site) :
    cpOf (storeAdd c id p site).s.panic = cpOf c.s.panic := by
  unfold storeAdd; split <;> first | rfl | exact setPanic_cp _ _ h

theorem psPubrel_core (c : C) (p : Pkt) :
    (psPubrel c p).s.core = { c.s with store := (psPubrel c p).s.store, pubcomp := (psPubrel c p).s.pubcomp }.core := by
  unfold psPubrel; try dsimp only
  all_goals ((repeat' split) <;> first | rfl | simp [St.core, OtherSite, siteStored, sitePublish])
core_fields psPubrel (c : C) (p : Pkt) : (psPubrel c p).s ~ { c.s with store := (psPubrel c p).s.store, pubcomp := (psPubrel c p).s.pubcomp } skip [store, pubcomp] := psPubrel_core c p
@[simp] theorem psPubrel_cfg (c : C) (p : Pkt) : (psPubrel c p).cfg = c.cfg := by
  unfold psPubrel; try dsimp only
  all_goals ((repeat' split) <;> first | rfl | simp [])
@[simp] theorem psPubrel_pubs (c : C) (p : Pkt) (h : NotPub p) : pubs (psPubrel c p).ev = pubs c.ev := by
  unfold psPubrel; try dsimp only
  all_goals ((repeat' split) <;> first | rfl | simp [h, pubsOf_notPub h])

theorem psV3Publish_core (c : C) (p : Pkt) :
    (psV3Publish c p).s.core = { c.s with store := (psV3Publish c p).s.store, puback := (psV3Publish c p).s.puback, pubrec := (psV3Publish c p).s.pubrec }.core := by
  unfold psV3Publish; try dsimp only
  all_goals ((repeat' split) <;> first | rfl | simp [St.core, OtherSite, siteStored, sitePublish])
core_fields psV3Publish (c : C) (p : Pkt) : (psV3Publish c p).s ~ { c.s with store := (psV3Publish c p).s.store, puback := (psV3Publish c p).s.puback, pubrec := (psV3Publish c p).s.pubrec } skip [store, puback, pubrec] := psV3Publish_core c p
@[simp] theorem psV3Publish_cfg (c : C) (p : Pkt) : (psV3Publish c p).cfg = c.cfg := by
  unfold psV3Publish; try dsimp only
  all_goals ((repeat' split) <;> first | rfl | simp [])
@[simp] theorem psV3Publish_pubs (c : C) (p : Pkt) (h : NotPub p) : pubs (psV3Publish c p).ev = pubs c.ev := by
  unfold psV3Publish; try dsimp only
  all_goals ((repeat' split) <;> first | rfl | simp [h, pubsOf_notPub h])

theorem pubRefuseCleanup_core (c : C) (pid : Option Nat) :
    (pubRefuseCleanup c pid).s.core = { c.s with store := (pubRefuseCleanup c pid).s.store, puback := (pubRefuseCleanup c pid).s.puback, pubrec := (pubRefuseCleanup c pid).s.pubrec }.core := by
  unfold pubRefuseCleanup; try dsimp only
  all_goals ((repeat' split) <;> first | rfl | simp [St.core, OtherSite, siteStored, sitePublish])
core_fields pubRefuseCleanup (c : C) (pid : Option Nat) : (pubRefuseCleanup c pid).s ~ { c.s with store := (pubRefuseCleanup c pid).s.store, puback := (pubRefuseCleanup c pid).s.puback, pubrec := (pubRefuseCleanup c pid).s.pubrec } skip [store, puback, pubrec] := pubRefuseCleanup_core c pid
@[simp] theorem pubRefuseCleanup_cfg (c : C) (pid : Option Nat) : (pubRefuseCleanup c pid).cfg = c.cfg := by
  unfold pubRefuseCleanup; try dsimp only
  all_goals ((repeat' split) <;> first | rfl | simp [])
@[simp] theorem pubRefuseCleanup_pubs (c : C) (pid : Option Nat)  : pubs (pubRefuseCleanup c pid).ev = pubs c.ev := by
  unfold pubRefuseCleanup; try dsimp only
  all_goals ((repeat' split) <;> first | rfl | simp [])

theorem tasInsert_core (c : C) (topic : List Nat) (a : Nat) (site : String) :
    (tasInsert c topic a site).s.core = { c.s with tas := (tasInsert c topic a site).s.tas, panic := (tasInsert c topic a site).s.panic }.core := by
  unfold tasInsert; try dsimp only
  all_goals ((repeat' split) <;> first | rfl | simp [St.core, OtherSite, siteStored, sitePublish])
core_fields tasInsert (c : C) (topic : List Nat) (a : Nat) (site : String) : (tasInsert c topic a site).s ~ { c.s with tas := (tasInsert c topic a site).s.tas, panic := (tasInsert c topic a site).s.panic } skip [tas, cp] := tasInsert_core c topic a site
@[simp] theorem tasInsert_cfg (c : C) (topic : List Nat) (a : Nat) (site : String) : (tasInsert c topic a site).cfg = c.cfg := by
  unfold tasInsert; try dsimp only
  all_goals ((repeat' split) <;> first | rfl | simp [])
@[simp] theorem tasInsert_pubs (c : C) (topic : List Nat) (a : Nat) (site : String)  : pubs (tasInsert c topic a site).ev = pubs c.ev := by
  unfold tasInsert; try dsimp only
  all_goals ((repeat' split) <;> first | rfl | simp [])
@[simp] theorem tasInsert_cp (c : C) (topic : List Nat) (a : Nat) (site : String) (h : OtherSite site) :
    cpOf (tasInsert c topic a site).s.panic = cpOf c.s.panic := by
  unfold tasInsert; (repeat' split) <;> first | rfl | exact setPanic_cp _ _ h

theorem validateTopicAlias_core (c : C) (ao : Option Nat) :
    ((validateTopicAlias c ao).2).s.core = { c.s with tas := ((validateTopicAlias c ao).2).s.tas }.core := by
  unfold validateTopicAlias; try dsimp only
  all_goals ((repeat' split) <;> first | rfl | simp [St.core, OtherSite, siteStored, sitePublish])
core_fields validateTopicAlias (c : C) (ao : Option Nat) : ((validateTopicAlias c ao).2).s ~ { c.s with tas := ((validateTopicAlias c ao).2).s.tas } skip [tas] := validateTopicAlias_core c ao
@[simp] theorem validateTopicAlias_cfg (c : C) (ao : Option Nat) : ((validateTopicAlias c ao).2).cfg = c.cfg := by
  unfold validateTopicAlias; try dsimp only
  all_goals ((repeat' split) <;> first | rfl | simp [])
@[simp] theorem validateTopicAlias_pubs (c : C) (ao : Option Nat)  : pubs ((validateTopicAlias c ao).2).ev = pubs c.ev := by
  unfold validateTopicAlias; try dsimp only
  all_goals ((repeat' split) <;> first | rfl | simp [])

theorem autoAlias_core (c : C) (p : Pkt) :
    ((autoAlias c p).1).s.core = { c.s with tas := ((autoAlias c p).1).s.tas }.core := by
  unfold autoAlias; try dsimp only
  all_goals ((repeat' split) <;> first | rfl | simp [St.core, OtherSite, siteStored, sitePublish])
core_fields autoAlias (c : C) (p : Pkt) : ((autoAlias c p).1).s ~ { c.s with tas := ((autoAlias c p).1).s.tas } skip [tas] := autoAlias_core c p
@[simp] theorem autoAlias_cfg (c : C) (p : Pkt) : ((autoAlias c p).1).cfg = c.cfg := by
  unfold autoAlias; try dsimp only
  all_goals ((repeat' split) <;> first | rfl | simp [])
@[simp] theorem autoAlias_pubs (c : C) (p : Pkt)  : pubs ((autoAlias c p).1).ev = pubs c.ev := by
  unfold autoAlias; try dsimp only
  all_goals ((repeat' split) <;> first | rfl | simp [])

theorem psV5PublishTail_core (c : C) (p : Pkt) (rel : Option Nat) :
    (psV5PublishTail c p rel).s.core = { c.s with sendCount := (psV5PublishTail c p rel).s.sendCount, panic := (psV5PublishTail c p rel).s.panic }.core := by
  unfold psV5PublishTail; try dsimp only
  all_goals ((repeat' split) <;> first | rfl | simp [St.core, OtherSite, siteStored, sitePublish])
core_fields psV5PublishTail (c : C) (p : Pkt) (rel : Option Nat) : (psV5PublishTail c p rel).s ~ { c.s with sendCount := (psV5PublishTail c p rel).s.sendCount, panic := (psV5PublishTail c p rel).s.panic } skip [sendCount, cp] := psV5PublishTail_core c p rel
@[simp] theorem psV5PublishTail_cfg (c : C) (p : Pkt) (rel : Option Nat) : (psV5PublishTail c p rel).cfg = c.cfg := by
  unfold psV5PublishTail; try dsimp only
  all_goals ((repeat' split) <;> first | rfl | simp [])

theorem eraseStoredPublish_core (c : C) (id : Nat) :
    (eraseStoredPublish c id).s.core = { c.s with store := (eraseStoredPublish c id).s.store, puback := (eraseStoredPublish c id).s.puback, pubrec := (eraseStoredPublish c id).s.pubrec, sendCount := (eraseStoredPublish c id).s.sendCount }.core := by
  unfold eraseStoredPublish; try dsimp only
  all_goals ((repeat' split) <;> first | rfl | simp [St.core, OtherSite, siteStored, sitePublish])
core_fields eraseStoredPublish (c : C) (id : Nat) : (eraseStoredPublish c id).s ~ { c.s with store := (eraseStoredPublish c id).s.store, puback := (eraseStoredPublish c id).s.puback, pubrec := (eraseStoredPublish c id).s.pubrec, sendCount := (eraseStoredPublish c id).s.sendCount } skip [store, puback, pubrec, sendCount] := eraseStoredPublish_core c id
@[simp] theorem eraseStoredPublish_cfg (c : C) (id : Nat) : (eraseStoredPublish c id).cfg = c.cfg := by
  unfold eraseStoredPublish; try dsimp only
  all_goals ((repeat' split) <;> first | rfl | simp [])
@[simp] theorem eraseStoredPublish_pubs (c : C) (id : Nat)  : pubs (eraseStoredPublish c id).ev = pubs c.ev := by
  unfold eraseStoredPublish; try dsimp only
  all_goals ((repeat' split) <;> first | rfl | simp [])

theorem acquire_core (c : C) :
    ((acquire c).2).s.core = c.s.core := by
  unfold acquire; try dsimp only
  all_goals ((repeat' split) <;> first | rfl | simp [St.core, OtherSite, siteStored, sitePublish])
core_fields acquire (c : C) : ((acquire c).2).s ~ c.s skip [] := acquire_core c
@[simp] theorem acquire_cfg (c : C) : ((acquire c).2).cfg = c.cfg := by
  unfold acquire; try dsimp only
  all_goals ((repeat' split) <;> first | rfl | simp [])
@[simp] theorem acquire_pubs (c : C)  : pubs ((acquire c).2).ev = pubs c.ev := by
  unfold acquire; try dsimp only
  all_goals ((repeat' split) <;> first | rfl | simp [])

theorem register_core (c : C) (id : Nat) :
    ((register c id).2).s.core = c.s.core := by
  unfold register; try dsimp only
  all_goals ((repeat' split) <;> first | rfl | simp [St.core, OtherSite, siteStored, sitePublish])
core_fields register (c : C) (id : Nat) : ((register c id).2).s ~ c.s skip [] := register_core c id
@[simp] theorem register_cfg (c : C) (id : Nat) : ((register c id).2).cfg = c.cfg := by
  unfold register; try dsimp only
  all_goals ((repeat' split) <;> first | rfl | simp [])
@[simp] theorem register_pubs (c : C) (id : Nat)  : pubs ((register c id).2).ev = pubs c.ev := by
  unfold register; try dsimp only
  all_goals ((repeat' split) <;> first | rfl | simp [])

/-- `release_packet_id` (fix ba1a812): of the core fields only `puback`, `pubrec` (the identifier
    leaves them) and `sendCount` (the credit of an abandoned PUBLISH comes back) change -/
theorem releasePacketId_core (c : C) (id : Nat) :
    (releasePacketId c id).s.core = { c.s with sendCount := (releasePacketId c id).s.sendCount, puback := (releasePacketId c id).s.puback, pubrec := (releasePacketId c id).s.pubrec }.core := by
  rcases releasePacketId_eq c id with ⟨_, e⟩ | ⟨_, _, e⟩ | ⟨_, _, e⟩ <;> rw [e]
  · simp [St.core]
  · simp [St.core, dropWaits]
  · rcases decSendCount_s_cases (dropWaits (releaseIfUsed c id) id) with e' | e' <;> rw [e'] <;>
      simp [St.core, dropWaits]
core_fields releasePacketId (c : C) (id : Nat) : (releasePacketId c id).s ~ { c.s with sendCount := (releasePacketId c id).s.sendCount, puback := (releasePacketId c id).s.puback, pubrec := (releasePacketId c id).s.pubrec } skip [sendCount, puback, pubrec] := releasePacketId_core c id
@[simp] theorem releasePacketId_cfg (c : C) (id : Nat) : (releasePacketId c id).cfg = c.cfg := by
  rw [releasePacketId_cfg', releaseIfUsed_cfg]
@[simp] theorem releasePacketId_pubs (c : C) (id : Nat)  : pubs (releasePacketId c id).ev = pubs c.ev := by
  rw [releasePacketId_ev', releaseIfUsed_pubs]

/-- the three core fields `release_packet_id` changes, exactly -/
theorem releasePacketId_puback (c : C) (id : Nat) :
    (releasePacketId c id).s.puback = if isUsed c.s id = true then del id c.s.puback else c.s.puback := by
  rcases releasePacketId_eq c id with ⟨hu, e⟩ | ⟨hu, _, e⟩ | ⟨hu, _, e⟩ <;> rw [e]
  · simp [hu]
  · simp [hu, dropWaits]
  · rcases decSendCount_s_cases (dropWaits (releaseIfUsed c id) id) with e' | e' <;> rw [e'] <;> simp [hu, dropWaits]
theorem releasePacketId_pubrec (c : C) (id : Nat) :
    (releasePacketId c id).s.pubrec = if isUsed c.s id = true then del id c.s.pubrec else c.s.pubrec := by
  rcases releasePacketId_eq c id with ⟨hu, e⟩ | ⟨hu, _, e⟩ | ⟨hu, _, e⟩ <;> rw [e]
  · simp [hu]
  · simp [hu, dropWaits]
  · rcases decSendCount_s_cases (dropWaits (releaseIfUsed c id) id) with e' | e' <;> rw [e'] <;> simp [hu, dropWaits]
theorem releasePacketId_sendCount (c : C) (id : Nat) :
    (releasePacketId c id).s.sendCount =
      if isUsed c.s id = true ∧ (id ∈ c.s.puback ∨ id ∈ c.s.pubrec) ∧ c.s.sendMax.isSome = true ∧ c.s.sendCount > 0
      then c.s.sendCount - 1 else c.s.sendCount := by
  rcases releasePacketId_eq c id with ⟨hu, e⟩ | ⟨hu, hna, e⟩ | ⟨hu, ha, e⟩
  · rw [e]; simp [hu]
  · simp only [releaseIfUsed_puback, releaseIfUsed_pubrec] at hna
    rw [e]; simp [hu, dropWaits, hna]
  · rw [e]
    simp only [releaseIfUsed_puback, releaseIfUsed_pubrec] at ha
    unfold decSendCount
    simp [hu, ha, dropWaits]
    split <;> simp_all

theorem restoreOne_core (c : C) (p : Pkt) :
    (restoreOne c p).s.core = { c.s with store := (restoreOne c p).s.store, puback := (restoreOne c p).s.puback, pubrec := (restoreOne c p).s.pubrec, pubcomp := (restoreOne c p).s.pubcomp }.core := by
  unfold restoreOne; try dsimp only
  all_goals ((repeat' split) <;> first | rfl | simp [St.core, OtherSite, siteStored, sitePublish])
core_fields restoreOne (c : C) (p : Pkt) : (restoreOne c p).s ~ { c.s with store := (restoreOne c p).s.store, puback := (restoreOne c p).s.puback, pubrec := (restoreOne c p).s.pubrec, pubcomp := (restoreOne c p).s.pubcomp } skip [store, puback, pubrec, pubcomp] := restoreOne_core c p
@[simp] theorem restoreOne_cfg (c : C) (p : Pkt) : (restoreOne c p).cfg = c.cfg := by
  unfold restoreOne; try dsimp only
  all_goals ((repeat' split) <;> first | rfl | simp [])
@[simp] theorem restoreOne_pubs (c : C) (p : Pkt)  : pubs (restoreOne c p).ev = pubs c.ev := by
  unfold restoreOne; try dsimp only
  all_goals ((repeat' split) <;> first | rfl | simp [])

end MqttVerif.Conn
