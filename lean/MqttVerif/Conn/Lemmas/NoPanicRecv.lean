import MqttVerif.Conn.Lemmas.NoPanicSend
/-!
# C05 helpers — the `process_recv_*` tree keeps `GoodV` for every parser result that is
well formed (`WfParsedT`), i.e. for arbitrary peer bytes
-/
set_option linter.unusedSimpArgs false
set_option linter.unusedVariables false
namespace MqttVerif.Conn
open MqttVerif

/-- what the L1 parsers guarantee about a packet parsed for protocol version `v` from a frame
    whose packet-type nibble is `t` (hypothesis here, theorem at L1):
    * it is a packet of version `v`;
    * a QoS>0 PUBLISH carries a non-zero identifier (parsers after the fix of finding #8);
    * a CONNACK's Receive Maximum / Maximum Packet Size are non-zero (parser-validated);
    * Receive Maximum is a two-byte integer. -/
def WfParsedT (v t : Nat) (p : Pkt) : Prop :=
  p.ver = v ∧
  (t = 3 → p.qos > 0 → ∃ id, p.pid = some id ∧ id ≠ 0) ∧
  (t = 2 → ∀ k x, (k, x) ∈ p.props → (k = pRM ∨ k = pMPS) → x ≠ 0) ∧
  (∀ k x, (k, x) ∈ p.props → k = pRM → x ≤ 65535)

def WfParsed (v fh : Nat) (p : Pkt) : Prop := WfParsedT v (fh / 16) p

/-- the hypothesis on the parser carried by a `recv` op: *successful* results are well formed;
    nothing is assumed about which inputs succeed -/
def ParserOk (parse : Nat → Nat → List Nat → Except Nat Pkt) : Prop :=
  ∀ v fh data p, parse v fh data = .ok p → WfParsed v fh p

theorem propsFold_inv {Q : St → Prop} {f : C → Nat → Nat → C} {P : Nat → Nat → Prop}
    (hf : ∀ c id v, P id v → Q c.s → Q (f c id v).s) {c : C} (h : Q c.s)
    (l : List (Nat × Nat)) (hl : ∀ x, x ∈ l → P x.1 x.2) : Q (propsFold f c l).s := by
  induction l generalizing c with
  | nil => exact h
  | cons x rest ih =>
    obtain ⟨id, v⟩ := x
    simp only [propsFold]
    exact ih (hf c id v (hl (id, v) (by simp)) h) (fun y hy => hl y (by simp [hy]))

/-! ## acknowledgements -/

theorem StoreInv.ack {v : Nat} {st : List (Nat × Pkt)} {pa pr pc : List Nat} {id : Nat} {k : Kind}
    (h : StoreInv v st pa pr pc)
    (hk : (k = .puback ∧ id ∈ pa) ∨ (k = .pubrec ∧ id ∈ pr) ∨ (k = .pubcomp ∧ id ∈ pc)) :
    StoreInv v (storeErase v k id st)
      (if k = .puback then del id pa else pa) (if k = .pubrec then del id pr else pr)
      (if k = .pubcomp then del id pc else pc) := by
  have hg := storeErase_gone h hk
  apply h.shrink storeErase_sub
  · intro i hi; split at hi
    · exact (mem_del.1 hi).1
    · exact hi
  · intro i hi; split at hi
    · exact (mem_del.1 hi).1
    · exact hi
  · intro i hi; split at hi
    · exact (mem_del.1 hi).1
    · exact hi
  · intro i q hm
    have hne : i ≠ id := by intro e; subst e; exact hg q hm
    refine ⟨?_, ?_, ?_⟩ <;> intro hi <;> split <;> simp [mem_del, hi, hne]

theorem prPuback_goodV {c : C} {parsed : Except Nat Pkt} (h : GoodV c.s)
    (hp : ∀ p, parsed = .ok p → p.ver = c.s.ver) : GoodV (prPuback c parsed).s := by
  unfold prPuback
  split
  · exact vErr_goodV h _
  · rename_i p
    have hv := hp p rfl
    dsimp only
    split
    · rename_i hid
      simp only [push_s]
      apply refreshPingreqRecv_goodV
      have h1 : GoodV { c.s with puback := del (p.pid.getD 0) c.s.puback,
                                  store := storeErase p.ver .puback (p.pid.getD 0) c.s.store } := by
        rw [hv]
        exact h.setStore (h.store.ack (k := .puback) (Or.inl ⟨rfl, hid⟩))
      split
      · apply decSendCount_goodV; apply releaseIfUsed_goodV; exact h1
      · apply releaseIfUsed_goodV; exact h1
    · exact vErr_goodV h _

theorem prPubcomp_goodV {c : C} {parsed : Except Nat Pkt} (h : GoodV c.s)
    (hp : ∀ p, parsed = .ok p → p.ver = c.s.ver) : GoodV (prPubcomp c parsed).s := by
  unfold prPubcomp
  split
  · exact vErr_goodV h _
  · rename_i p
    have hv := hp p rfl
    dsimp only
    split
    · rename_i hid
      simp only [push_s]
      apply refreshPingreqRecv_goodV
      have h1 : GoodV { c.s with pubcomp := del (p.pid.getD 0) c.s.pubcomp,
                                  store := storeErase p.ver .pubcomp (p.pid.getD 0) c.s.store } := by
        rw [hv]
        exact h.setStore (h.store.ack (k := .pubcomp) (Or.inr (Or.inr ⟨rfl, hid⟩)))
      split
      · apply decSendCount_goodV; apply releaseIfUsed_goodV; exact h1
      · apply releaseIfUsed_goodV; exact h1
    · exact vErr_goodV h _

theorem prPubrec_goodV {c : C} {parsed : Except Nat Pkt} (h : GoodV c.s)
    (hp : ∀ p, parsed = .ok p → p.ver = c.s.ver) : GoodV (prPubrec c parsed).s := by
  unfold prPubrec
  split
  · exact vErr_goodV h _
  · rename_i p
    have hv := hp p rfl
    dsimp only
    split
    · rename_i hid
      simp only [push_s]
      apply refreshPingreqRecv_goodV
      have hst : StoreInv c.s.ver (storeErase p.ver .pubrec (p.pid.getD 0) c.s.store) c.s.puback
          (del (p.pid.getD 0) c.s.pubrec) c.s.pubcomp := by
        rw [hv]; exact h.store.ack (k := .pubrec) (Or.inr (Or.inl ⟨rfl, hid⟩))
      have h1 : GoodV { c.s with pubrec := del (p.pid.getD 0) c.s.pubrec,
                                  store := storeErase p.ver .pubrec (p.pid.getD 0) c.s.store } :=
        h.setStore hst
      split
      · split
        · refine psPubrel_goodV ?_ rfl ?_ ?_
          · exact h1
          · exact hv
          · refine ⟨?_, ?_, ?_⟩
            · intro hm; exact (h.store.2.1 _ hm) hid
            · simp [mkAck, mem_del]
            · exact h.store.2.2.2.1 _ hid
        · exact h1
      · apply decSendCount_goodV; apply releaseIfUsed_goodV; exact h1
    · exact vErr_goodV h _

theorem prPubrel_goodV {c : C} {parsed : Except Nat Pkt} (h : GoodV c.s) : GoodV (prPubrel c parsed).s := by
  unfold prPubrel
  split
  · exact vErr_goodV h _
  · dsimp only
    simp only [push_s]
    apply refreshPingreqRecv_goodV
    split
    · split
      · apply psV3Simple_goodV; exact h
      · split
        · apply psV5Pubcomp_goodV; exact h
        · apply psV5Pubcomp_goodV; exact h
    · exact h

theorem prPlain_goodV {c : C} {parsed : Except Nat Pkt} (h : GoodV c.s) : GoodV (prPlain c parsed).s := by
  unfold prPlain
  split
  · exact vErr_goodV h _
  · exact refreshPingreqRecv_goodV h

theorem prSubUnsuback_goodV {c : C} {parsed : Except Nat Pkt} (h : GoodV c.s) (isSub : Bool) :
    GoodV (prSubUnsuback c isSub parsed).s := by
  unfold prSubUnsuback
  split
  · exact vErr_goodV h _
  · cases isSub <;> dsimp only <;> simp only [Bool.false_eq_true, if_false, if_true] <;> split <;>
      first
        | exact vErr_goodV h _
        | (simp only [push_s]; apply refreshPingreqRecv_goodV; apply releaseIfUsed_goodV; exact h)

theorem prPingreq_goodV {c : C} {parsed : Except Nat Pkt} (h : GoodV c.s) : GoodV (prPingreq c parsed).s := by
  unfold prPingreq
  split
  · exact vErr_goodV h _
  · dsimp only
    simp only [push_s]
    apply refreshPingreqRecv_goodV
    split
    · split
      · exact psV3Simple_goodV h _
      · exact psV5Simple_goodV h _
    · exact h

theorem prPingresp_goodV {c : C} {parsed : Except Nat Pkt} (h : GoodV c.s) : GoodV (prPingresp c parsed).s := by
  unfold prPingresp
  split
  · exact vErr_goodV h _
  · dsimp only
    simp only [push_s]
    split <;> exact h

theorem prDisconnect_goodV {c : C} {parsed : Except Nat Pkt} (h : GoodV c.s) :
    GoodV (prDisconnect c parsed).s := by
  unfold prDisconnect
  split
  · exact vErr_goodV h _
  · simp only [push_s, cancelTimers_s]; exact h

/-! ## PUBLISH -/

/-- the parser's guarantee used at the `packet_id().unwrap()` / `build().unwrap()` **sites** -/
def PubParsedOk (p : Pkt) : Prop := p.qos > 0 → ∃ id, p.pid = some id ∧ id ≠ 0

theorem prV3Publish_goodV {c : C} {parsed : Except Nat Pkt} (h : GoodV c.s)
    (hp : ∀ p, parsed = .ok p → PubParsedOk p) : GoodV (prV3Publish c parsed).s := by
  unfold prV3Publish
  split
  · exact h
  · rename_i p
    have hw := hp p rfl
    split
    · exact refreshPingreqRecv_goodV h
    · rename_i hq
      obtain ⟨id, hpid, hid⟩ := hw (by omega)
      simp only [hpid]
      split
      · simp only [push_s]
        apply refreshPingreqRecv_goodV
        split
        · exact psV3Simple_goodV h _
        · exact h
      · have key : GoodV (refreshPingreqRecv
            (if c.s.status = .connected ∧ (c.s.autoPub = true ∨ id ∈ c.s.handled) then
              psV3Simple { c with s := { c.s with handled := ins id c.s.handled } } (mkAck c.cfg 4 .pubrec id)
            else { c with s := { c.s with handled := ins id c.s.handled } })).s := by
          apply refreshPingreqRecv_goodV
          split
          · apply psV3Simple_goodV; exact h
          · exact h
        split
        · exact key
        · exact key


theorem prV5PublishAlias_goodV {c : C} (h : GoodV c.s) (p : Pkt) : GoodV (prV5PublishAlias c p).1.s := by
  unfold prV5PublishAlias
  dsimp only
  (repeat' split) <;> first | exact h | exact handleV5Error_goodV h _


theorem prV5Publish_goodV {c : C} {parsed : Except Nat Pkt} (h : GoodV c.s)
    (hp : ∀ p, parsed = .ok p → PubParsedOk p) : GoodV (prV5Publish c parsed).s := by
  unfold prV5Publish
  split
  · split
    · exact handleV5Error_goodV h _
    · exact h
  · rename_i p
    have hw := hp p rfl
    have hr := prV5PublishAlias_goodV h p
    extract_lets r c0 rmEx id already src1 c1 src2 c2 pubackSend pubrecSend c3 c4 c5
    split
    · exact hr
    · rename_i p' _
      have h0 : GoodV c0.s := hr
      split
      · rename_i hc
        obtain ⟨id', hid', _⟩ := hw hc.1
        rw [hid'] at hc
        exact absurd hc.2 (by simp)
      · split
        · exact handleV5Error_goodV h0 _
        · have hidne : p.qos > 0 → id ≠ 0 := by
            intro hq
            obtain ⟨id', hid', hne⟩ := hw hq
            simp only [id, hid', Option.getD_some]
            exact hne
          have h1 : GoodV c1.s := by simp only [c1]; split <;> exact h0
          have h2 : GoodV c2.s := by simp only [c2]; split <;> exact h1
          have h3 : GoodV c3.s := by
            simp only [c3]
            split
            · rename_i hs
              have : id ≠ 0 := hidne (by have := hs.1; omega)
              simp only [this, if_false]
              exact psV5Puback_goodV h2 _
            · exact h2
          have h4 : GoodV c4.s := by
            simp only [c4]
            split
            · rename_i hs
              have : id ≠ 0 := hidne (by have := hs.1; omega)
              simp only [this, if_false]
              exact psV5Pubrec_goodV h3 _
            · exact h3
          have h5 : GoodV c5.s := refreshPingreqRecv_goodV h4
          split
          · exact h5
          · exact h5

/-! ## CONNECT / CONNACK -/

theorem prV3Connect_goodV {c : C} {parsed : Except Nat Pkt} (h : GoodV c.s) (hb : Headroom c.s) :
    GoodV (prV3Connect c parsed).s := by
  unfold prV3Connect
  split
  · exact h
  · dsimp only
    split
    · rename_i p
      simp only [push_s]
      apply refreshPingreqRecv_goodV
      have h1 : GoodV (initConn { c with s := { c.s with status := .connecting } } false).s :=
        initConn_goodV (c := { c with s := { c.s with status := .connecting } }) h false
      split <;> split <;>
        first
          | exact clearStoreRelated_goodV (c := { c with s := _ }) h1
          | exact h1
    · simp only [err_s]
      exact psV3Connack_goodV (c := { c with s := { c.s with status := .connecting } }) h hb _

theorem connectRecvProp_goodV {c : C} {id v : Nat} (hv : id = pRM → v ≤ 65535) (h : GoodV c.s) :
    GoodV (connectRecvProp c id v).s := by
  unfold connectRecvProp
  split
  · split
    · rename_i hne
      exact h.setTas (by intro t e; cases e; exact TasInv.new hne)
    · exact h
  · split
    · rename_i hid
      exact h.setSendMax (by intro m e; cases e; exact hv hid)
    · split
      · exact h
      · split
        · split <;> exact h
        · exact h

theorem prV5Connect_goodV {c : C} {parsed : Except Nat Pkt} (h : GoodV c.s) (hb : Headroom c.s)
    (hp : ∀ p, parsed = .ok p → ∀ k x, (k, x) ∈ p.props → k = pRM → x ≤ 65535) :
    GoodV (prV5Connect c parsed).s := by
  unfold prV5Connect
  split
  · exact handleV5Error_goodV h _
  · dsimp only
    split
    · rename_i p
      have hw := hp p rfl
      simp only [push_s]
      apply refreshPingreqRecv_goodV
      apply propsFold_inv (Q := GoodV) (P := fun id v => id = pRM → v ≤ 65535)
        (fun c id v hv hc => connectRecvProp_goodV hv hc)
      · have h1 : GoodV (initConn { c with s := { c.s with status := .connecting } } false).s :=
          initConn_goodV (c := { c with s := { c.s with status := .connecting } }) h false
        split <;> split <;>
          first
            | exact clearStoreRelated_goodV (c := { c with s := _ }) h1
            | exact h1
      · intro x hx; exact hw x.1 x.2 hx
    · simp only [err_s]
      exact psV5Connack_goodV (c := { c with s := { c.s with status := .connecting } }) h hb _

theorem prV3Connack_goodV {c : C} {parsed : Except Nat Pkt} (h : GoodV c.s) (hb : Headroom c.s) :
    GoodV (prV3Connack c parsed).s := by
  unfold prV3Connack
  split
  · exact h
  · split
    · simp only [push_s]
      split
      · split
        · exact resendStored_goodV (c := { c with s := { c.s with status := .connected } }) h hb
        · exact clearStoreRelated_goodV (c := { c with s := { c.s with status := .connected } }) h
      · exact h
    · exact h


theorem connackRecvProp_goodV {c : C} {id v : Nat}
    (hv : ((id = pRM ∨ id = pMPS) → v ≠ 0) ∧ (id = pRM → v ≤ 65535)) (h : GoodV c.s) :
    GoodV (connackRecvProp c id v).s := by
  unfold connackRecvProp
  split
  · split
    · rename_i hne
      exact h.setTas (by intro t e; cases e; exact TasInv.new (by omega))
    · exact h
  · split
    · rename_i hid
      have : v ≠ 0 := hv.1 (Or.inl hid)
      simp only [this, if_false]
      exact h.setSendMax (by intro m e; cases e; exact hv.2 hid)
    · split
      · rename_i hid
        have : v ≠ 0 := hv.1 (Or.inr hid)
        simp only [this, if_false]
        exact h
      · split
        · dsimp only
          split
          · split
            · split <;> exact h
            · exact h
          · exact h
        · split
          · split
            · exact clearStoreRelated_goodV (c := { c with s := { c.s with needStore := false } }) h
            · exact h
          · exact h

theorem connackRecvProp_headroom {c : C} {id v : Nat} (h : Headroom c.s) :
    Headroom (connackRecvProp c id v).s := by
  unfold connackRecvProp Headroom
  split
  · split <;> exact h
  · split
    · split <;> exact h
    · split
      · split <;> exact h
      · split
        · dsimp only
          split
          · split
            · split <;> exact h
            · exact h
          · exact h
        · split
          · split
            · simp [clearStoreRelated]
            · exact h
          · exact h

theorem prV5Connack_goodV {c : C} {parsed : Except Nat Pkt} (h : GoodV c.s) (hb : Headroom c.s)
    (hp : ∀ p, parsed = .ok p → ∀ k x, (k, x) ∈ p.props →
      ((k = pRM ∨ k = pMPS) → x ≠ 0) ∧ (k = pRM → x ≤ 65535)) :
    GoodV (prV5Connack c parsed).s := by
  unfold prV5Connack
  split
  · exact handleV5Error_goodV h _
  · split
    · rename_i p
      have hw := hp p rfl
      simp only [push_s]
      split
      · have h1 : GoodV (propsFold connackRecvProp { c with s := { c.s with status := .connected } } p.props).s :=
          propsFold_inv (Q := GoodV) (P := fun id v => ((id = pRM ∨ id = pMPS) → v ≠ 0) ∧ (id = pRM → v ≤ 65535))
            (fun c id v hv hc => connackRecvProp_goodV hv hc)
            (c := { c with s := { c.s with status := .connected } }) h _ (fun x hx => hw x.1 x.2 hx)
        have h2 : Headroom (propsFold connackRecvProp { c with s := { c.s with status := .connected } } p.props).s :=
          propsFold_inv (Q := Headroom) (P := fun _ _ => True)
            (fun c id v _ hc => connackRecvProp_headroom hc)
            (c := { c with s := { c.s with status := .connected } }) hb _ (fun _ _ => trivial)
        split
        · exact resendStored_goodV h1 h2
        · exact clearStoreRelated_goodV h1
      · exact h
    · exact h

/-! ## dispatch, `process_recv_packet`, `recv` -/

theorem dispatchRecv_goodV {c : C} {t : Nat} {parsed : Except Nat Pkt} (h : GoodV c.s)
    (hb : Headroom c.s) (hp : ∀ p, parsed = .ok p → WfParsedT c.s.ver t p) :
    GoodV (dispatchRecv c t parsed).s := by
  have hver : ∀ p, parsed = .ok p → p.ver = c.s.ver := fun p e => (hp p e).1
  unfold dispatchRecv
  split
  · split
    · exact prV3Connect_goodV h hb
    · exact prV5Connect_goodV h hb (fun p e => (hp p e).2.2.2)
  · split
    · exact prV3Connack_goodV h hb
    · exact prV5Connack_goodV h hb (fun p e k x hm => ⟨(hp p e).2.2.1 rfl k x hm, (hp p e).2.2.2 k x hm⟩)
  · split
    · exact prV3Publish_goodV h (fun p e => (hp p e).2.1 rfl)
    · exact prV5Publish_goodV h (fun p e => (hp p e).2.1 rfl)
  · exact prPuback_goodV h hver
  · exact prPubrec_goodV h hver
  · exact prPubrel_goodV h
  · exact prPubcomp_goodV h hver
  · exact prPlain_goodV h
  · exact prSubUnsuback_goodV h true
  · exact prPlain_goodV h
  · exact prSubUnsuback_goodV h false
  · exact prPingreq_goodV h
  · exact prPingresp_goodV h
  · exact prDisconnect_goodV h
  · split
    · exact prPlain_goodV h
    · exact h
  · exact h

theorem Good.setVer0 {s : St} (h : Good s) (h0 : s.ver = 0) {v : Nat} (hv : v = 4 ∨ v = 5) :
    GoodV { s with ver := v } := by
  obtain ⟨⟨h1, h2, h3⟩, _⟩ := h
  rw [h0] at h2
  exact ⟨⟨h1, h2.setVer v, h3⟩, hv⟩

theorem Good.clearFlags {s : St} (h : Good s) :
    Good { s with sendSet := false, recvSet := false, respSet := false } := by
  refine ⟨h.1, ?_⟩
  have := h.2
  unfold VerTimer at *
  rcases this with e | e | e
  · exact Or.inl e
  · exact Or.inr (Or.inl e)
  · exact Or.inr (Or.inr ⟨e.1, e.2.1, rfl, rfl, rfl⟩)

theorem v5DisconnectOrClose_good {c : C} (h : Good c.s) (d : Pkt) : Good (v5DisconnectOrClose c d).s := by
  by_cases hv : c.s.ver = 0
  · have hs : c.s.status ≠ .connected := by
      have := h.2; unfold VerTimer at this
      rcases this with e | e | e
      · omega
      · omega
      · rw [e.2.1]; simp
    rw [v5DisconnectOrClose_s_of_not_connected hs]; exact h
  · exact (v5DisconnectOrClose_goodV (h.goodV hv) d).good

theorem processRecvPacket_good {c : C} {fh : Nat} {data : List Nat} {parse : Nat → Except Nat Pkt}
    (h : Good c.s) (hb : Headroom c.s) (hp : ∀ v p, parse v = .ok p → WfParsed v fh p) :
    Good (processRecvPacket c fh data parse).s := by
  unfold processRecvPacket
  split
  · exact v5DisconnectOrClose_good h _
  · dsimp only
    split
    · exact h
    · split
      · rename_i h0
        split
        · rename_i ht
          split
          · exact h
          · split
            · exact (prV3Connect_goodV (c := { c with s := { c.s with ver := 4 } }) (h.setVer0 h0 (Or.inl rfl)) hb).good
            · split
              · exact (prV5Connect_goodV (c := { c with s := { c.s with ver := 5 } }) (h.setVer0 h0 (Or.inr rfl)) hb
                  (fun p e => (hp 5 p e).2.2.2)).good
              · exact h
        · exact h
      · rename_i h0
        exact (dispatchRecv_goodV (h.goodV h0) hb (fun p e => hp _ p e)).good


theorem recv_rest (c : C) (inp : List Nat) (parse : Nat → Nat → List Nat → Except Nat Pkt) :
    (recv c inp parse).2 = (Framing.feed c.s.pb inp).2.2 := by
  unfold recv
  rcases Framing.feed c.s.pb inp with ⟨pb, out, rest⟩
  dsimp only
  split <;> rfl

theorem recv_good {c : C} {inp : List Nat} {parse : Nat → Nat → List Nat → Except Nat Pkt}
    (h : Good c.s) (hb : Headroom c.s) (hp : ParserOk parse) : Good (recv c inp parse).1.s := by
  have hinv : Framing.Inv c.s.pb := h.1.2.2.2.2.1
  have hpb : Framing.Inv (Framing.feed c.s.pb inp).1 := by
    rw [Framing.feed_eq_spec _ _ hinv]; exact (Framing.feedSpec_props _ _ hinv).1
  unfold recv
  generalize Framing.feed c.s.pb inp = r at hpb ⊢
  obtain ⟨pb, out, rest⟩ := r
  dsimp only at hpb ⊢
  have h1 : Good { c.s with pb := pb } := h.setPb hpb
  split
  · exact h1
  · exact processRecvPacket_good (c := { c with s := { c.s with pb := pb } }) h1 hb (fun v p e => hp v _ _ p e)
  · simp only [err_s, push_s, cancelTimers_s]
    exact h1.clearFlags

end MqttVerif.Conn
