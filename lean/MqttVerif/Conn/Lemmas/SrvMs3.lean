import MqttVerif.Conn.Lemmas.SrvMs2
/-!
# C15 helper — the ghost `srvMs` against the model: the `step` level

* `Legal op`: the contract of one call (what is sent as CONNACK, what the parser answers, what is
  restored into the store);
* `Inv s g`: the relation between model state and ghost; `step_inv`: kept by every legal call with
  the ghost updated as the driver does; `run_inv`, `init_inv`: along a history;
* `recv_keeps`: a `recv` of anything but CONNECT / CONNACK on a connection that is not
  `disconnected` leaves `is_client`, the receive timeout and the ghost as they are.
-/
set_option linter.unusedSimpArgs false
set_option linter.unusedVariables false
namespace MqttVerif.Conn.SrvMs
open MqttVerif MqttVerif.Conn

/-! ## the contract -/

/-- what may be sent as a CONNACK that accepts the connection: a v3.1.1 CONNACK carries no Server
    Keep Alive property (it has no properties); in a v5.0 CONNACK the Server Keep Alive the
    connection ends up with (the last one in the property list) is the one an observer reads (the
    first one) — true when the property occurs at most once, as the protocol requires -/
def SendOk (p : Pkt) : Prop :=
  p.kind = .connack → p.rc = some 0 →
    if p.ver = 4 then Mon.findProp p pSKA = none else skaLast p.props = Mon.findProp p pSKA

instance (p : Pkt) : Decidable (SendOk p) := by unfold SendOk; infer_instance

/-- contract of one call -/
def Legal : Op → Prop
  | .send p => SendOk p
  | .recv _ parse => ParseKind parse
  | .restorePackets ps => ∀ p ∈ ps, loud p = false
  | _ => True

/-- at most one Server Keep Alive property: the protocol's rule implies `SendOk` for v5.0 -/
theorem skaLast_eq_find_of_le_one (l : List (Nat × Nat)) (h : (l.filter (·.1 = pSKA)).length ≤ 1) :
    skaLast l = (l.find? (·.1 = pSKA)).map (·.2) := by
  induction l with
  | nil => rfl
  | cons x rest ih =>
    obtain ⟨id, v⟩ := x
    by_cases hi : id = pSKA
    · subst hi
      have hr : rest.filter (·.1 = pSKA) = [] := by
        simp only [List.filter_cons, decide_true, if_true, List.length_cons] at h
        exact List.length_eq_zero_iff.1 (by omega)
      have hn : skaLast rest = none := by
        clear ih h
        induction rest with
        | nil => rfl
        | cons y r ih2 =>
          obtain ⟨j, w⟩ := y
          by_cases hj : j = pSKA
          · simp [List.filter_cons, hj] at hr
          · have hr' : r.filter (·.1 = pSKA) = [] := by simpa [List.filter_cons, hj] using hr
            simp [skaLast, ih2 hr', hj]
      simp [skaLast, hn]
    · have h' : (rest.filter (·.1 = pSKA)).length ≤ 1 := by simpa [List.filter_cons, hi] using h
      simp only [skaLast, ih h']
      cases hf : rest.find? (·.1 = pSKA) with
      | none => simp [hi, hf]
      | some y => simp [hi, hf]

theorem SendOk.of_le_one {p : Pkt} (h4 : p.ver = 4 → Mon.findProp p pSKA = none)
    (h5 : (p.props.filter (·.1 = pSKA)).length ≤ 1) : SendOk p := by
  intro _ _
  split
  · rename_i hv; exact h4 hv
  · exact skaLast_eq_find_of_le_one p.props h5

/-! ## `send` -/

theorem loud_of_sendOk_v4 {p : Pkt} (hl : SendOk p) (hv : p.ver = 4) : loud p = false := by
  by_cases hk : p.kind = .connack
  · by_cases hrc : p.rc = some 0
    · have := hl hk hrc
      rw [if_pos hv] at this
      simp [loud, this]
    · exact loud_rc hrc
  · exact loud_kind hk

theorem w_processSend {g0 : Nat} {c : C} (h : W g0 c) (p : Pkt) (hl : SendOk p) : W g0 (processSend c p) := by
  have hq : p.kind ≠ .connack → loud p = false := loud_kind
  have hq4 : p.ver = 4 → loud p = false := loud_of_sendOk_v4 hl
  have hc5 : p.kind = .connack → ¬ p.ver = 4 → p.rc = some 0 → skaLast p.props = Mon.findProp p pSKA := by
    intro hk hv hrc
    have := hl hk hrc
    rwa [if_neg hv] at this
  unfold processSend
  by_cases hv : p.ver = 4 <;> cases hk : p.kind <;> simp only [hv, if_true, if_false] <;>
    first
    | exact h
    | exact w_psV3Connect h p
    | exact w_psV5Connect h p
    | exact w_psV3Connack h p (hq4 hv)
    | exact w_psV5Connack h p hk (hc5 hk hv)
    | exact w_psV3Publish h p (hq (by simp [hk]))
    | exact w_psV5Publish h p hk
    | exact w_psPubrel h p (hq (by simp [hk]))
    | exact W.congr (K_psSubUnsub g0 c p (hq (by simp [hk]))) h
    | exact W.congr (K_psPingreq g0 c p (hq (by simp [hk]))) h
    | exact W.congr (K_psV3Disconnect g0 c p (hq (by simp [hk]))) h
    | exact W.congr (K_psV5Disconnect g0 c p (hq (by simp [hk]))) h
    | exact W.congr (K_psV3Simple g0 c p (hq (by simp [hk]))) h
    | exact W.congr (K_psV5Simple g0 c p (hq (by simp [hk]))) h
    | exact W.congr (K_psV5Puback g0 c p (hq (by simp [hk]))) h
    | exact W.congr (K_psV5Pubrec g0 c p (hq (by simp [hk]))) h
    | exact W.congr (K_psV5Pubcomp g0 c p (hq (by simp [hk]))) h
    | exact W.congr (K_psV5Auth g0 c p (hq (by simp [hk]))) h

theorem w_send {g0 : Nat} {c : C} (h : W g0 c) (p : Pkt) (hl : SendOk p) : W g0 (send c p) := by
  unfold send
  split
  · exact W.congr (K_refuseSend _ _ _ _) h
  split
  · exact W.congr (K_refuseSend _ _ _ _) h
  · exact w_processSend h p hl

/-! ## `step` -/

/-- the relation between the model state and the driver's ghost `srvMs` -/
def Inv (s : St) (g : Nat) : Prop :=
  (s.isClient = false → g = s.recvTimeoutMs ∨ g = 0) ∧ ∀ x ∈ s.store, loud x.2 = false

instance (s : St) (g : Nat) : Decidable (Inv s g) := by unfold Inv; infer_instance

theorem inv_iff_W (cfg : Cfg) (s : St) (g : Nat) : Inv s g ↔ W g { cfg := cfg, s := s } := Iff.rfl

theorem inv_of_W {g0 : Nat} {c : C} (h : W g0 c) : Inv c.s (srvStep g0 c.ev) := h

theorem step_W (cfg : Cfg) (s : St) (op : Op) (g0 : Nat) (hl : Legal op) (h : Inv s g0) :
    W g0 (step cfg s op) := by
  have h0 : W g0 { cfg := cfg, s := s } := h
  cases op with
  | send p => exact w_send h0 p hl
  | recv inp parse => exact w_recv h0 inp parse hl
  | timer k => exact W.congr (K_notifyTimerFired _ _ k) h0
  | closed => exact w_notifyClosed h0
  | setInterval d => exact W.congr (K_setPingreqSendInterval _ _ d) h0
  | setFlag f b => cases f <;> exact h0
  | setRespTimeout ms => exact h0
  | acquire => exact h0
  | register id => exact h0
  | release id => exact W.congr (K_releasePacketId _ _ id) h0
  | erase id => exact w_eraseStoredPublish h0 id
  | restoreHandled ids => exact h0
  | restorePackets ps => exact w_restorePackets ps hl h0

theorem Inv.reset {s : St} {g : Nat} (h : Inv s g) (op : Op) : Inv s (srvReset op g) := by
  cases op <;> first | exact h | exact ⟨fun _ => .inr rfl, h.2⟩

/-- **one call**: the relation is kept, with the ghost reset by `closed` and then folded over the
    call's events, exactly as the driver does -/
theorem step_inv (cfg : Cfg) (s : St) (op : Op) (g : Nat) (hl : Legal op) (h : Inv s g) :
    Inv (step cfg s op).s (srvStep (srvReset op g) (step cfg s op).ev) :=
  inv_of_W (step_W cfg s op _ hl (h.reset op))

/-- the ghost along a history -/
def srvRun (cfg : Cfg) : St → Nat → List Op → Nat
  | _, g, [] => g
  | s, g, op :: ops => srvRun cfg (step cfg s op).s (srvStep (srvReset op g) (step cfg s op).ev) ops

theorem run_inv (cfg : Cfg) : ∀ (ops : List Op) (s : St) (g : Nat), (∀ op ∈ ops, Legal op) → Inv s g →
    Inv (run cfg s ops) (srvRun cfg s g ops)
  | [], _, _, _, h => h
  | op :: ops, s, g, hl, h =>
    run_inv cfg ops _ _ (fun o ho => hl o (by simp [ho])) (step_inv cfg s op g (hl op (by simp)) h)

theorem init_inv (cfg : Cfg) (ver : Nat) : Inv (St.init cfg ver) 0 :=
  ⟨fun _ => .inl rfl, by intro x hx; simp [St.init] at hx⟩

/-! ## a received packet other than CONNECT / CONNACK changes neither side -/

/-- `K` without the store -/
def K3 (g0 : Nat) (c : C) : Bool × Nat × Nat := (c.s.isClient, c.s.recvTimeoutMs, srvStep g0 c.ev)

theorem K3.of_K {g0 : Nat} {c c' : C} (e : K g0 c' = K g0 c) : K3 g0 c' = K3 g0 c := by
  simp only [K, Prod.mk.injEq] at e
  obtain ⟨e1, e2, _, e4⟩ := e
  simp [K3, e1, e2, e4]

theorem k3_storeAdd (g0 : Nat) (c : C) (id : Nat) (q : Pkt) (site : String) :
    K3 g0 (storeAdd c id q site) = K3 g0 c := by
  unfold storeAdd; split <;> rfl

theorem k3_psPubrel (g0 : Nat) (c : C) (p : Pkt) (hp : loud p = false) : K3 g0 (psPubrel c p) = K3 g0 c := by
  unfold psPubrel
  split
  · exact K3.of_K (by kk1)
  split
  · exact K3.of_K (by kk1)
  · extract_lets id c1 src c2
    split
    · exact K3.of_K (by kk1)
    · have h1 : K3 g0 c1 = K3 g0 c := by
        simp only [c1]; split
        · exact k3_storeAdd _ _ _ _ _
        · rfl
      have h2 : K3 g0 c2 = K3 g0 c := h1
      split
      · rw [← h2]
        exact K3.of_K ((K_sendPostProcess _ _).trans (K_push_send _ _ _ _ hp))
      · exact h2

theorem k3_ackTail (g0 : Nat) (c1 : C) (p : Pkt) (hp : p.kind ≠ .connect) :
    K3 g0 ((refreshPingreqRecv c1).push (.recv p)) = K3 g0 c1 :=
  K3.of_K ((K_push_recv _ _ _ hp).trans (K_refreshPingreqRecv _ _))

theorem k3_prPuback (g0 : Nat) (c : C) (x : Except Nat Pkt) (hx : ∀ p, x = .ok p → p.kind ≠ .connect) :
    K3 g0 (prPuback c x) = K3 g0 c := by
  unfold prPuback
  split
  · exact K3.of_K (by kk1)
  · rename_i p
    extract_lets id s1 c1 c2 c3
    split
    · rw [k3_ackTail _ _ _ (hx p rfl)]
      have h2 : K3 g0 c2 = K3 g0 c :=
        (K3.of_K (K_releaseIfUsed g0 c1 id)).trans (show K3 g0 c1 = K3 g0 c from rfl)
      simp only [c3]; split
      · exact (K3.of_K (K_decSendCount _ _)).trans h2
      · exact h2
    · exact K3.of_K (by kk1)

theorem k3_prPubcomp (g0 : Nat) (c : C) (x : Except Nat Pkt) (hx : ∀ p, x = .ok p → p.kind ≠ .connect) :
    K3 g0 (prPubcomp c x) = K3 g0 c := by
  unfold prPubcomp
  split
  · exact K3.of_K (by kk1)
  · rename_i p
    extract_lets id s1 c1 c2 c3
    split
    · rw [k3_ackTail _ _ _ (hx p rfl)]
      have h2 : K3 g0 c2 = K3 g0 c :=
        (K3.of_K (K_releaseIfUsed g0 c1 id)).trans (show K3 g0 c1 = K3 g0 c from rfl)
      simp only [c3]; split
      · exact (K3.of_K (K_decSendCount _ _)).trans h2
      · exact h2
    · exact K3.of_K (by kk1)

theorem k3_prPubrec (g0 : Nat) (c : C) (x : Except Nat Pkt) (hx : ∀ p, x = .ok p → p.kind ≠ .connect) :
    K3 g0 (prPubrec c x) = K3 g0 c := by
  unfold prPubrec
  split
  · exact K3.of_K (by kk1)
  · rename_i p
    extract_lets id s1 c1 success c2
    split
    · rw [k3_ackTail _ _ _ (hx p rfl)]
      have h1 : K3 g0 c1 = K3 g0 c := rfl
      simp only [c2]; split
      · split
        · exact (k3_psPubrel _ _ _ (by simp)).trans h1
        · exact h1
      · exact (K3.of_K ((K_decSendCount _ _).trans (K_releaseIfUsed _ _ _))).trans h1
    · exact K3.of_K (by kk1)

theorem k3_dispatchRecv (g0 : Nat) (c : C) (t : Nat) (x : Except Nat Pkt)
    (hx : ∀ p, x = .ok p → (p.kind = .connect ↔ t = 1)) (h1 : t ≠ 1 ∨ c.s.status ≠ .disconnected) (h2 : t ≠ 2) :
    K3 g0 (dispatchRecv c t x) = K3 g0 c := by
  have hk : ∀ p, x = .ok p → t ≠ 1 → p.kind ≠ .connect := fun p hp h1 hc => h1 ((hx p hp).1 hc)
  unfold dispatchRecv
  split
  · have hs : c.s.status ≠ .disconnected := by rcases h1 with h | h; exact absurd rfl h; exact h
    split
    · unfold prV3Connect; rw [if_pos hs]; exact K3.of_K (K_handleV3Error _ _ _)
    · unfold prV5Connect; rw [if_pos hs]; exact K3.of_K (K_handleV5Error _ _ _)
  · exact absurd rfl h2
  · split
    · exact K3.of_K (K_prV3Publish g0 c x (fun p hp => hk p hp (by decide)))
    · exact K3.of_K (K_prV5Publish g0 c x (fun p hp => hk p hp (by decide)))
  · exact k3_prPuback g0 c x (fun p hp => hk p hp (by decide))
  · exact k3_prPubrec g0 c x (fun p hp => hk p hp (by decide))
  · exact K3.of_K (K_prPubrel g0 c x (fun p hp => hk p hp (by decide)))
  · exact k3_prPubcomp g0 c x (fun p hp => hk p hp (by decide))
  · exact K3.of_K (K_prPlain g0 c x (fun p hp => hk p hp (by decide)))
  · exact K3.of_K (K_prSubUnsuback g0 c true x (fun p hp => hk p hp (by decide)))
  · exact K3.of_K (K_prPlain g0 c x (fun p hp => hk p hp (by decide)))
  · exact K3.of_K (K_prSubUnsuback g0 c false x (fun p hp => hk p hp (by decide)))
  · exact K3.of_K (K_prPingreq g0 c x (fun p hp => hk p hp (by decide)))
  · exact K3.of_K (K_prPingresp g0 c x (fun p hp => hk p hp (by decide)))
  · exact K3.of_K (K_prDisconnect g0 c x (fun p hp => hk p hp (by decide)))
  · split
    · exact K3.of_K (K_prPlain g0 c x (fun p hp => hk p hp (by decide)))
    · exact K3.of_K (by kk1)
  · exact K3.of_K (by kk1)

theorem k3_processRecvPacket (g0 : Nat) (c : C) (fh : Nat) (data : List Nat) (parse : Nat → Except Nat Pkt)
    (hx : ∀ v p, parse v = .ok p → (p.kind = .connect ↔ fh / 16 = 1))
    (hs : c.s.status ≠ .disconnected) (h2 : fh / 16 ≠ 2) :
    K3 g0 (processRecvPacket c fh data parse) = K3 g0 c := by
  unfold processRecvPacket
  split
  · exact K3.of_K (by kk1)
  · extract_lets t lvl s1
    split
    · exact K3.of_K (by kk1)
    split
    · split
      · split
        · exact K3.of_K (by kk1)
        · split
          · unfold prV3Connect; rw [if_pos hs]; exact K3.of_K (K_handleV3Error _ _ _)
          split
          · unfold prV5Connect; rw [if_pos hs]; exact K3.of_K (K_handleV5Error _ _ _)
          · exact K3.of_K (by kk1)
      · exact K3.of_K (by kk1)
    · exact k3_dispatchRecv g0 c t _ (fun p hp => hx _ p hp) (.inr hs) h2

/-- **a `recv` that completes a frame other than a CONNACK, on a connection that is not
    `disconnected`**: `is_client`, the receive timeout and the ghost are as before the call -/
theorem recv_keeps (g0 : Nat) (c : C) (inp : List Nat) (parse : Nat → Nat → List Nat → Except Nat Pkt)
    (hp : ParseKind parse) (hs : c.s.status ≠ .disconnected)
    (h2 : ∀ pb fh data rest, Framing.feed c.s.pb inp = (pb, some (.complete fh data), rest) → fh / 16 ≠ 2) :
    K3 g0 (recv c inp parse).1 = K3 g0 c := by
  unfold recv
  have h2' := h2
  revert h2'
  obtain ⟨pb, out, rest⟩ := Framing.feed c.s.pb inp
  intro h2'
  simp only []
  cases out with
  | none => rfl
  | some o =>
    cases o with
    | complete fh data =>
      exact k3_processRecvPacket g0 { c with s := { c.s with pb := pb } } fh data _
        (fun v p hq => hp v fh data p hq) hs (h2' pb fh data rest rfl)
    | error => exact K3.of_K (by kk1)

end MqttVerif.Conn.SrvMs
