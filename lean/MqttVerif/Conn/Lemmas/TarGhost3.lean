import MqttVerif.Conn.Lemmas.TarGhost2
/-!
# C13 helper — the store never holds a v5.0 CONNECT / CONNACK (`StoreTG` is inductive) (agent R4)

`StoreTG s` (no stored packet is one the ghost `ownTam` would read when `send_stored` resends it) is
preserved by every call, provided `restore_packets` is given no such packet (`RestoreTG`).  The store is
written by `store.add` (QoS>0 PUBLISH — handlers reached only for `kind = publish` — and PUBREL) and by
`restore_packets`; everything else leaves it alone, removes entries or clears it.
-/
set_option linter.unusedSimpArgs false
set_option linter.unusedVariables false
namespace MqttVerif.Conn.TarGhost
open MqttVerif MqttVerif.Conn

/-- every stored packet afterwards was stored before, or is harmless -/
def Sub (c c' : C) : Prop := ∀ x ∈ c'.s.store, x ∈ c.s.store ∨ tgSend x.2 = false

theorem Sub.refl (c : C) : Sub c c := fun x hx => .inl hx
theorem Sub.of_eq {c c' : C} (h : c'.s.store = c.s.store) : Sub c c' := fun x hx => .inl (h ▸ hx)
theorem Sub.of_nil {c c' : C} (h : c'.s.store = []) : Sub c c' := fun x hx => by rw [h] at hx; cases hx
theorem Sub.trans {a b c : C} (h1 : Sub a b) (h2 : Sub b c) : Sub a c := fun x hx => by
  rcases h2 x hx with h | h
  · exact h1 x h
  · exact .inr h
theorem Sub.storeTG {c c' : C} (h : Sub c c') (hs : StoreTG c.s) : StoreTG c'.s := fun x hx => by
  rcases h x hx with h | h
  · exact hs x h
  · exact h

/-- `(f c).s.store = c.s.store` by unfolding and case-splitting -/
macro "s_tac" : tactic =>
  `(tactic| first
      | rfl
      | (simp; done)
      | ((repeat' (first | split | (simp only []; split))) <;> first | rfl | (simp_all; done)))

@[simp] theorem store_push (c : C) (e : Ev) : (c.push e).s.store = c.s.store := rfl
@[simp] theorem store_err (c : C) (e : Nat) : (c.err e).s.store = c.s.store := rfl
@[simp] theorem store_cancelTimers (c : C) : (cancelTimers c).s.store = c.s.store := by unfold cancelTimers; s_tac
@[simp] theorem store_sendPostProcess (c : C) : (sendPostProcess c).s.store = c.s.store := by
  rcases sendPostProcess_s_cases c with h | h <;> rw [h]
@[simp] theorem store_refreshPingreqRecv (c : C) : (refreshPingreqRecv c).s.store = c.s.store := by
  unfold refreshPingreqRecv; s_tac
@[simp] theorem store_releaseId (c : C) (id : Nat) : (releaseId c id).s.store = c.s.store := by
  unfold releaseId; simp only []; split <;> rfl
@[simp] theorem store_releaseIfUsed (c : C) (id : Nat) : (releaseIfUsed c id).s.store = c.s.store := by
  unfold releaseIfUsed; split <;> simp
@[simp] theorem store_releaseAll (l : List Nat) : ∀ c : C, (releaseAll c l).s.store = c.s.store := by
  induction l with
  | nil => intro c; rfl
  | cons x rest ih => intro c; rw [releaseAll, ih, store_releaseIfUsed]
@[simp] theorem store_decSendCount (c : C) : (decSendCount c).s.store = c.s.store := by
  unfold decSendCount; split <;> rfl
@[simp] theorem store_releasePacketId (c : C) (id : Nat) : (releasePacketId c id).s.store = c.s.store :=
  releasePacketId_ind (Q := fun c' => c'.s.store = c.s.store) c id (store_releaseIfUsed c id) (fun h => h)
    (fun h => (store_decSendCount _).trans h)
@[simp] theorem store_validateTopicAlias (c : C) (ao : Option Nat) : (validateTopicAlias c ao).2.s.store = c.s.store := by
  unfold validateTopicAlias; (repeat' split) <;> rfl
@[simp] theorem store_tasInsert (c : C) (t : List Nat) (a : Nat) (x : String) : (tasInsert c t a x).s.store = c.s.store := by
  unfold tasInsert; (repeat' split) <;> rfl
@[simp] theorem store_autoAlias (c : C) (p : Pkt) : (autoAlias c p).1.s.store = c.s.store := by
  unfold autoAlias; (repeat' (first | split | (simp only []; split))) <;> simp
@[simp] theorem store_psV5Disconnect (c : C) (p : Pkt) : (psV5Disconnect c p).s.store = c.s.store := by
  unfold psV5Disconnect; s_tac
@[simp] theorem store_psV3Disconnect (c : C) (p : Pkt) : (psV3Disconnect c p).s.store = c.s.store := by
  unfold psV3Disconnect; s_tac
@[simp] theorem store_handleV3Error (c : C) (e : Nat) : (handleV3Error c e).s.store = c.s.store := rfl
@[simp] theorem store_v5DisconnectOrClose (c : C) (p : Pkt) : (v5DisconnectOrClose c p).s.store = c.s.store := by
  unfold v5DisconnectOrClose; s_tac
@[simp] theorem store_handleV5Error (c : C) (e : Nat) : (handleV5Error c e).s.store = c.s.store := by
  unfold handleV5Error; simp
@[simp] theorem store_vErr (c : C) (e : Nat) : (vErr c e).s.store = c.s.store := by unfold vErr; s_tac
@[simp] theorem store_psV5PublishTail (c : C) (p : Pkt) (r : Option Nat) : (psV5PublishTail c p r).s.store = c.s.store := by
  unfold psV5PublishTail; s_tac
@[simp] theorem store_psV3Simple (c : C) (p : Pkt) : (psV3Simple c p).s.store = c.s.store := by unfold psV3Simple; s_tac
@[simp] theorem store_psV5Simple (c : C) (p : Pkt) : (psV5Simple c p).s.store = c.s.store := by unfold psV5Simple; s_tac
@[simp] theorem store_psV5Puback (c : C) (p : Pkt) : (psV5Puback c p).s.store = c.s.store := by unfold psV5Puback; s_tac
@[simp] theorem store_psV5Pubrec (c : C) (p : Pkt) : (psV5Pubrec c p).s.store = c.s.store := by unfold psV5Pubrec; s_tac
@[simp] theorem store_psV5Pubcomp (c : C) (p : Pkt) : (psV5Pubcomp c p).s.store = c.s.store := store_psV5Puback c p
@[simp] theorem store_psSubUnsub (c : C) (p : Pkt) : (psSubUnsub c p).s.store = c.s.store := by unfold psSubUnsub; s_tac
@[simp] theorem store_psPingreq (c : C) (p : Pkt) : (psPingreq c p).s.store = c.s.store := by unfold psPingreq; s_tac
@[simp] theorem store_psV5Auth (c : C) (p : Pkt) : (psV5Auth c p).s.store = c.s.store := by unfold psV5Auth; s_tac
@[simp] theorem store_refuseSend (c : C) (e : Nat) (p : Pkt) : (refuseSend c e p).s.store = c.s.store := by
  unfold refuseSend; s_tac
@[simp] theorem store_connectSendProp (c : C) (id v : Nat) : (connectSendProp c id v).s.store = c.s.store := by
  unfold connectSendProp; (repeat' split) <;> rfl
@[simp] theorem store_connectRecvProp (c : C) (id v : Nat) : (connectRecvProp c id v).s.store = c.s.store := by
  unfold connectRecvProp; (repeat' split) <;> rfl
theorem store_propsFold (f : C → Nat → Nat → C) (hf : ∀ c id v, (f c id v).s.store = c.s.store) (c : C)
    (l : List (Nat × Nat)) : (propsFold f c l).s.store = c.s.store := by
  induction l generalizing c with
  | nil => rfl
  | cons x rest ih => obtain ⟨i, v⟩ := x; rw [propsFold, ih, hf]
@[simp] theorem store_fold_connectSendProp (c : C) (l : List (Nat × Nat)) :
    (propsFold connectSendProp c l).s.store = c.s.store := store_propsFold _ store_connectSendProp c l
@[simp] theorem store_fold_connectRecvProp (c : C) (l : List (Nat × Nat)) :
    (propsFold connectRecvProp c l).s.store = c.s.store := store_propsFold _ store_connectRecvProp c l
@[simp] theorem store_prV5PublishAlias (c : C) (p : Pkt) : (prV5PublishAlias c p).1.s.store = c.s.store := by
  unfold prV5PublishAlias
  (repeat' (first | split | (simp only []; split))) <;> simp
@[simp] theorem store_prvTail (c : C) (p p' : Pkt) : (prvTail c p p').s.store = c.s.store := by
  unfold prvTail
  extract_lets rmExceeded id already src1 c2 src2 c3 pubackSend pubrecSend c4 c5 c6
  split
  · rfl
  split
  · simp
  have e2 : c2.s.store = c.s.store := by simp only [c2]; split <;> rfl
  have e3 : c3.s.store = c2.s.store := by simp only [c3]; split <;> rfl
  have e4 : c4.s.store = c3.s.store := by simp only [c4]; split <;> simp <;> split <;> rfl
  have e5 : c5.s.store = c4.s.store := by simp only [c5]; split <;> simp <;> split <;> rfl
  have e6 : c6.s.store = c5.s.store := store_refreshPingreqRecv _
  split <;> simp [e6, e5, e4, e3, e2]
@[simp] theorem store_prV5Publish (c : C) (x : Except Nat Pkt) : (prV5Publish c x).s.store = c.s.store := by
  cases x with
  | error e => unfold prV5Publish; s_tac
  | ok p =>
    rw [prV5Publish_ok_eq]
    have h1 := store_prV5PublishAlias c p
    generalize prV5PublishAlias c p = r at h1 ⊢
    obtain ⟨c1, o⟩ := r
    cases o <;> simp_all
@[simp] theorem store_prV3Publish (c : C) (x : Except Nat Pkt) : (prV3Publish c x).s.store = c.s.store := by
  unfold prV3Publish
  (repeat' (first | split | (simp only []; split))) <;> simp
@[simp] theorem store_prPubrel (c : C) (x : Except Nat Pkt) : (prPubrel c x).s.store = c.s.store := by
  unfold prPubrel
  (repeat' (first | split | (simp only []; split))) <;> simp
@[simp] theorem store_prPlain (c : C) (x : Except Nat Pkt) : (prPlain c x).s.store = c.s.store := by
  unfold prPlain; s_tac
@[simp] theorem store_prSubUnsuback (c : C) (b : Bool) (x : Except Nat Pkt) : (prSubUnsuback c b x).s.store = c.s.store := by
  unfold prSubUnsuback
  (repeat' (first | split | (simp only []; split))) <;> simp
@[simp] theorem store_prPingreq (c : C) (x : Except Nat Pkt) : (prPingreq c x).s.store = c.s.store := by
  unfold prPingreq
  (repeat' (first | split | (simp only []; split))) <;> simp
@[simp] theorem store_prPingresp (c : C) (x : Except Nat Pkt) : (prPingresp c x).s.store = c.s.store := by
  unfold prPingresp
  (repeat' (first | split | (simp only []; split))) <;> simp
@[simp] theorem store_prDisconnect (c : C) (x : Except Nat Pkt) : (prDisconnect c x).s.store = c.s.store := by
  unfold prDisconnect; s_tac
@[simp] theorem store_notifyTimerFired (c : C) (k : Timer) : (notifyTimerFired c k).s.store = c.s.store := by
  unfold notifyTimerFired
  (repeat' (first | split | (simp only []; split))) <;> simp
@[simp] theorem store_setPingreqSendInterval (c : C) (d : Option Nat) : (setPingreqSendInterval c d).s.store = c.s.store := by
  unfold setPingreqSendInterval
  (repeat' (first | split | (simp only []; split))) <;> simp

/-! ## the functions that write the store -/

theorem mem_erase {α : Type} {k : Nat} {l : List (Nat × α)} {x : Nat × α} (h : x ∈ erase k l) : x ∈ l :=
  (List.mem_filter.mp h).1
theorem mem_storeErase {v : Nat} {r : Kind} {id : Nat} {st : List (Nat × Pkt)} {x : Nat × Pkt}
    (h : x ∈ storeErase v r id st) : x ∈ st := by
  unfold storeErase at h
  (repeat' split at h) <;> first | exact h | exact mem_erase h
theorem mem_storeErasePublish {id : Nat} {st : List (Nat × Pkt)} {x : Nat × Pkt}
    (h : x ∈ (storeErasePublish id st).2) : x ∈ st := by
  unfold storeErasePublish at h
  (repeat' split at h) <;> first | exact h | exact mem_erase h

theorem sub_clearStoreRelated (c : C) : Sub c (clearStoreRelated c) := .of_nil rfl

theorem tgSend_upd (p q : Pkt) (h1 : q.ver = p.ver) (h2 : q.kind = p.kind) (h3 : q.rc = p.rc) :
    tgSend q = tgSend p := by simp [tgSend, h1, h2, h3]

theorem sub_storeAdd (c : C) (id : Nat) (p : Pkt) (x : String) (h : tgSend p = false) : Sub c (storeAdd c id p x) := by
  unfold storeAdd
  split
  · exact .refl c
  · intro y hy
    simp only [List.mem_append, List.mem_singleton] at hy
    rcases hy with hy | hy
    · exact .inl hy
    · subst hy; exact .inr h

theorem store_sendStoredLoop (l : List (Nat × Pkt)) : ∀ c : C,
    (sendStoredLoop c l).1.s.store = c.s.store ∧ ∀ x ∈ (sendStoredLoop c l).2, x ∈ l := by
  induction l with
  | nil => intro c; exact ⟨rfl, fun x hx => by simp [sendStoredLoop] at hx⟩
  | cons y rest ih =>
    intro c
    obtain ⟨id, p⟩ := y
    rw [sendStoredLoop]
    split
    · simp only []
      obtain ⟨h1, h2⟩ := ih (releaseIfUsed { c with s := { c.s with puback := del id c.s.puback, pubrec := del id c.s.pubrec, pubcomp := del id c.s.pubcomp } } id)
      exact ⟨by rw [h1]; simp, fun x hx => List.mem_cons_of_mem _ (h2 x hx)⟩
    · simp only []
      generalize hc2 : ((if c.s.sendMax.isSome = true then
          (fun c => ({ c with s := { c.s with sendCount := (c.s.sendCount + 1) % 4294967296 } } : C))
            (if c.s.sendCount ≥ 4294967295 then c.setPanic "core.rs:send_stored:publish_send_count+=1" else c)
        else c).push (Ev.send p none)) = c2
      have e : c2.s.store = c.s.store := by
        rw [← hc2]; simp only [store_push]
        (repeat' split) <;> rfl
      obtain ⟨h1, h2⟩ := ih c2
      refine ⟨by rw [h1, e], fun x hx => ?_⟩
      simp only [List.mem_cons] at hx ⊢
      rcases hx with hx | hx
      · exact .inl hx
      · exact .inr (h2 x hx)

theorem sub_sendStored (c : C) : Sub c (sendStored c) := by
  unfold sendStored
  simp only []
  intro x hx
  have h := (store_sendStoredLoop (if c.s.sendMax.isSome = true then ({ c with s := { c.s with sendCount := 0 } } : C) else c).s.store
    (if c.s.sendMax.isSome = true then ({ c with s := { c.s with sendCount := 0 } } : C) else c)).2 x hx
  left
  revert h
  split <;> exact fun h => h

theorem sub_resendStored (c : C) : Sub c (resendStored c) :=
  resendStored_ind (Q := fun x => Sub c x) c (sub_sendStored c)
    (fun h => h.trans (.of_eq (store_sendPostProcess _)))

theorem sub_pubRefuseCleanup (c : C) (pid : Option Nat) : Sub c (pubRefuseCleanup c pid) := by
  unfold pubRefuseCleanup
  split
  · exact .refl c
  · split
    · intro x hx
      simp only [store_push] at hx
      exact .inl (by simpa using mem_storeErasePublish hx)
    · exact .refl c

/-- leaves of the store-writing handlers: the store is unchanged, or `pubRefuseCleanup` ran on a context
    with the same store -/
macro "store_eq" : tactic =>
  `(tactic| first | rfl | (simp; done) | (split <;> simp; done) | ((repeat' split) <;> simp; done))
macro "sub_leaf" : tactic =>
  `(tactic| first
      | exact Sub.refl _
      | (refine Sub.of_eq ?_; store_eq)
      | (refine Sub.trans (b := _) ?_ (sub_pubRefuseCleanup _ _); refine Sub.of_eq ?_; store_eq))

theorem sub_psV3Publish (c : C) (p : Pkt) (h : tgSend p = false) : Sub c (psV3Publish c p) := by
  have hd : tgSend { p with dup := true } = false := by simpa [tgSend] using h
  unfold psV3Publish
  split
  · split
    · sub_leaf
    · split
      · sub_leaf
      split
      · sub_leaf
      · simp only []
        rename_i id _ _ _
        have key : Sub c (if willStore c.s = true then storeAdd c id { p with dup := true } "core.rs:process_send_v3_1_1_publish:store.add().unwrap()" else c) := by
          split
          · exact sub_storeAdd _ _ _ _ hd
          · exact .refl _
        refine key.trans (.of_eq ?_)
        (repeat' split) <;> simp
  · split <;> sub_leaf

theorem sub_psV5PublishAlias (c : C) (p : Pkt) (r : Option Nat) (v : Bool) : Sub c (psV5PublishAlias c p r v) := by
  unfold psV5PublishAlias
  extract_lets blocked r1 r2
  have e1 : r1.2.s.store = c.s.store := by simp only [r1]; split <;> simp
  have e2 : r2.1.s.store = c.s.store := by simp [r2]
  split
  · sub_leaf
  split
  · split
    · refine Sub.trans ?_ (sub_pubRefuseCleanup _ _)
      exact .of_eq (by simp [e1])
    · exact .of_eq (by simp [e1])
  · split
    · split
      · refine .of_eq ?_
        rw [store_psV5PublishTail]; split <;> simp
      · sub_leaf
    · exact .of_eq (by simp [e2])

/-- the wait-set entry made next to a stored packet -/
theorem sub_wait (c1 : C) (q id : Nat) :
    Sub c1 (if q = 2 then { c1 with s := { c1.s with pubrec := ins id c1.s.pubrec } }
            else { c1 with s := { c1.s with puback := ins id c1.s.puback } }) := .of_eq (by split <;> rfl)

theorem sub_psV5Publish (c : C) (p : Pkt) (hk : p.kind = .publish) : Sub c (psV5Publish c p) := by
  have hq : ∀ q : Pkt, q.kind = .publish → tgSend q = false := fun q h => tgSend_kind (by simp [h]) (by simp [h])
  unfold psV5Publish
  split
  · split <;> sub_leaf
  split
  · split
    · sub_leaf
    · rename_i id _
      split
      · sub_leaf
      split
      · sub_leaf
      split
      · split
        · extract_lets r1 c0
          split
          · exact .of_eq (by simp [r1])
          · rename_i t _
            extract_lets c1 c2 src c3
            have k1 : Sub c c1 := .of_eq (by simp only [c1, c0, r1]; split <;> simp)
            have k2 : Sub c1 c2 := sub_storeAdd _ _ _ _ (hq _ hk)
            have k3 : Sub c2 c3 := sub_wait c2 p.qos id
            exact ((k1.trans k2).trans k3).trans (sub_psV5PublishAlias _ _ _ _)
        · extract_lets c1 src c2
          have k2 : Sub c c1 := sub_storeAdd _ _ _ _ (hq _ hk)
          have k3 : Sub c1 c2 := sub_wait c1 p.qos id
          exact (k2.trans k3).trans (sub_psV5PublishAlias _ _ _ _)
      · extract_lets src c1
        have k3 : Sub c c1 := sub_wait c p.qos id
        exact k3.trans (sub_psV5PublishAlias _ _ _ _)
  · split
    · sub_leaf
    · exact sub_psV5PublishAlias _ _ _ _

theorem sub_psPubrel (c : C) (p : Pkt) (h : tgSend p = false) : Sub c (psPubrel c p) := by
  unfold psPubrel
  split
  · sub_leaf
  split
  · sub_leaf
  try simp only []
  split
  · sub_leaf
  · have key : Sub c (if c.s.needStore = true then storeAdd c (p.pid.getD 0) p "core.rs:process_send_pubrel:store.add().unwrap()" else c) := by
      split
      · exact sub_storeAdd _ _ _ _ h
      · exact .refl _
    refine key.trans (.of_eq ?_)
    store_eq

/-! ## CONNECT / CONNACK -/

theorem sub_ite (q : Prop) [Decidable q] {c a b : C} (ha : Sub c a) (hb : Sub c b) : Sub c (if q then a else b) := by
  split
  · exact ha
  · exact hb

theorem sub_psV3Connect (c : C) (p : Pkt) : Sub c (psV3Connect c p) := by
  unfold psV3Connect
  split
  · sub_leaf
  · intro y hy
    simp only [store_sendPostProcess, store_push] at hy
    left
    split at hy
    · simp [clearStoreRelated] at hy
    · exact hy

theorem sub_psV5Connect (c : C) (p : Pkt) : Sub c (psV5Connect c p) := by
  unfold psV5Connect
  split
  · sub_leaf
  split
  · sub_leaf
  · intro y hy
    simp only [store_sendPostProcess, store_push, store_fold_connectSendProp] at hy
    left
    split at hy
    · simp [clearStoreRelated] at hy
    · exact hy

theorem sub_connackTail (c : C) (sp : Bool) :
    Sub c (sendPostProcess (if sp = true then sendStored c else clearStoreRelated c)) := by
  refine Sub.trans ?_ (.of_eq (store_sendPostProcess _))
  split
  · exact sub_sendStored c
  · exact sub_clearStoreRelated c

theorem sub_psV3Connack (c : C) (p : Pkt) : Sub c (psV3Connack c p) := by
  unfold psV3Connack
  split
  · sub_leaf
  · simp only []
    split
    · exact .of_eq (by simp)
    · exact (Sub.of_eq (c := c) rfl).trans (sub_connackTail _ _)

@[simp] theorem store_connackSendProp (c : C) (l : List (Nat × Nat)) :
    (propsFold connackSendProp c l).s.store = c.s.store := store_fold_connackSendProp l c

theorem sub_psV5Connack (c : C) (p : Pkt) : Sub c (psV5Connack c p) := by
  unfold psV5Connack
  split
  · sub_leaf
  split
  · sub_leaf
  · simp only []
    have k2 : Sub c ((if p.rc = some 0 then propsFold connackSendProp c p.props else c).push (.send p none)) :=
      .of_eq (by simp only [store_push]; split <;> simp)
    split
    · exact k2.trans (.of_eq (by simp only [store_push, store_cancelTimers]; split <;> simp))
    · exact k2.trans ((Sub.of_eq rfl).trans (sub_connackTail _ _))

theorem sub_processSend (c : C) (p : Pkt) : Sub c (processSend c p) := by
  unfold processSend
  by_cases hv : p.ver = 4 <;> cases hk : p.kind <;> simp only [hv, if_true, if_false] <;>
    first
    | exact Sub.refl _
    | exact sub_psV3Connect c p
    | exact sub_psV5Connect c p
    | exact sub_psV3Connack c p
    | exact sub_psV5Connack c p
    | exact sub_psV5Publish c p hk
    | exact sub_psV3Publish c p (tgSend_kind (by simp [hk]) (by simp [hk]))
    | exact sub_psPubrel c p (tgSend_kind (by simp [hk]) (by simp [hk]))
    | exact Sub.of_eq (by simp)

theorem sub_send (c : C) (p : Pkt) : Sub c (send c p) := by
  unfold send
  split
  · sub_leaf
  split
  · sub_leaf
  · exact sub_processSend c p

theorem sub_connackRecvProp (c : C) (id v : Nat) : Sub c (connackRecvProp c id v) := by
  unfold connackRecvProp
  (repeat' (first | split | (simp only []; split))) <;>
    first
    | exact Sub.of_eq rfl
    | exact Sub.of_nil rfl

theorem sub_fold_connackRecvProp (l : List (Nat × Nat)) : ∀ c : C, Sub c (propsFold connackRecvProp c l) := by
  induction l with
  | nil => intro c; exact .refl c
  | cons x rest ih => intro c; obtain ⟨i, v⟩ := x; rw [propsFold]; exact (sub_connackRecvProp c i v).trans (ih _)

theorem sub_prV3Connect (c : C) (x : Except Nat Pkt) : Sub c (prV3Connect c x) := by
  unfold prV3Connect
  split
  · sub_leaf
  · simp only []
    split
    · intro y hy
      simp only [store_push, store_refreshPingreqRecv] at hy
      left
      split at hy
      · simp [clearStoreRelated] at hy
      · revert hy; simp only []; split <;> exact fun h => h
    · rename_i e
      have k := sub_psV3Connack ({ c with s := { c.s with status := .connecting } } : C) (mkV3Connack (v3ConnectErrRc e))
      exact (Sub.of_eq (c := c) rfl).trans (k.trans (.of_eq rfl))

theorem sub_prV5Connect (c : C) (x : Except Nat Pkt) : Sub c (prV5Connect c x) := by
  unfold prV5Connect
  split
  · sub_leaf
  · simp only []
    split
    · intro y hy
      simp only [store_push, store_refreshPingreqRecv, store_fold_connectRecvProp] at hy
      left
      split at hy
      · simp [clearStoreRelated] at hy
      · revert hy; split <;> exact fun h => h
    · rename_i e
      have k := sub_psV5Connack ({ c with s := { c.s with status := .connecting } } : C) (mkV5Connack (v5ConnectErrRc e))
      exact (Sub.of_eq (c := c) rfl).trans (k.trans (.of_eq rfl))

theorem sub_prV3Connack (c : C) (x : Except Nat Pkt) : Sub c (prV3Connack c x) := by
  unfold prV3Connack
  split
  · sub_leaf
  · split
    · simp only []
      refine Sub.trans ?_ (.of_eq (store_push _ _))
      split
      · split
        · exact (Sub.of_eq (c := c) rfl).trans (sub_resendStored _)
        · exact .of_nil rfl
      · exact .refl c
    · sub_leaf

theorem sub_prV5Connack (c : C) (x : Except Nat Pkt) : Sub c (prV5Connack c x) := by
  unfold prV5Connack
  split
  · sub_leaf
  · split
    · rename_i p
      simp only []
      refine Sub.trans ?_ (.of_eq (store_push _ _))
      split
      · have k := sub_fold_connackRecvProp p.props ({ c with s := { c.s with status := .connected } } : C)
        split
        · exact ((Sub.of_eq (c := c) rfl).trans k).trans (sub_resendStored _)
        · exact .of_nil rfl
      · exact .refl c
    · first | sub_leaf | (split <;> sub_leaf)

/-! ## the acknowledgement handlers, the remaining calls -/

theorem sub_prPuback (c : C) (x : Except Nat Pkt) : Sub c (prPuback c x) := by
  unfold prPuback
  split
  · sub_leaf
  · extract_lets id src c1 c2 c3
    split
    · have k1 : Sub c c1 := fun y hy => .inl (mem_storeErase hy)
      refine k1.trans (.of_eq ?_)
      simp only [store_push, store_refreshPingreqRecv, c3, c2]
      split <;> simp
    · sub_leaf

theorem sub_prPubcomp (c : C) (x : Except Nat Pkt) : Sub c (prPubcomp c x) := by
  unfold prPubcomp
  split
  · sub_leaf
  · extract_lets id src c1 c2 c3
    split
    · have k1 : Sub c c1 := fun y hy => .inl (mem_storeErase hy)
      refine k1.trans (.of_eq ?_)
      simp only [store_push, store_refreshPingreqRecv, c3, c2]
      split <;> simp
    · sub_leaf

theorem sub_prPubrec (c : C) (x : Except Nat Pkt) : Sub c (prPubrec c x) := by
  unfold prPubrec
  split
  · sub_leaf
  · rename_i p
    extract_lets id src c1 success c2
    split
    · have k1 : Sub c c1 := fun y hy => .inl (mem_storeErase hy)
      have k2 : Sub c1 c2 := by
        simp only [c2]
        split
        · split
          · exact sub_psPubrel _ _ (tg_mkAck _ _ _ _ (by decide) (by decide))
          · exact .refl _
        · exact .of_eq (by simp)
      exact (k1.trans k2).trans (.of_eq (by simp))
    · sub_leaf

theorem sub_dispatchRecv (c : C) (t : Nat) (x : Except Nat Pkt) : Sub c (dispatchRecv c t x) := by
  unfold dispatchRecv
  (repeat' split) <;>
    first
    | exact sub_prV3Connect c x
    | exact sub_prV5Connect c x
    | exact sub_prV3Connack c x
    | exact sub_prV5Connack c x
    | exact sub_prPuback c x
    | exact sub_prPubrec c x
    | exact sub_prPubcomp c x
    | exact Sub.of_eq (by simp)

theorem sub_processRecvPacket (c : C) (fh : Nat) (data : List Nat) (parse : Nat → Except Nat Pkt) :
    Sub c (processRecvPacket c fh data parse) := by
  unfold processRecvPacket
  split
  · sub_leaf
  · simp only []
    split
    · sub_leaf
    split
    · split
      · split
        · sub_leaf
        · split
          · exact (Sub.of_eq (c := c) rfl).trans (sub_prV3Connect _ _)
          split
          · exact (Sub.of_eq (c := c) rfl).trans (sub_prV5Connect _ _)
          · sub_leaf
      · sub_leaf
    · exact sub_dispatchRecv c _ _

theorem sub_recvCore (c : C) (r : Framing.PB × Option Framing.Out × List Nat)
    (parse : Nat → Nat → List Nat → Except Nat Pkt) : Sub c (recvCore c r parse) := by
  obtain ⟨pb, out, rest⟩ := r
  unfold recvCore
  cases out with
  | none => exact .of_eq rfl
  | some o =>
    cases o with
    | complete fh data => exact (Sub.of_eq (c := c) rfl).trans (sub_processRecvPacket _ _ _ _)
    | error => exact .of_eq (by simp)

theorem sub_notifyClosed (c : C) : Sub c (notifyClosed c) := by
  unfold notifyClosed
  simp only []
  refine Sub.trans ?_ (.of_eq (store_cancelTimers _))
  split
  · exact .of_nil rfl
  · exact .of_eq (by simp)

theorem sub_eraseStoredPublish (c : C) (id : Nat) : Sub c (eraseStoredPublish c id) := by
  unfold eraseStoredPublish
  extract_lets r
  split
  · intro y hy
    simp only [store_releaseIfUsed, store_decSendCount] at hy
    exact .inl (mem_storeErasePublish hy)
  · exact .refl c

theorem sub_restoreOne (c : C) (p : Pkt) (h : tgSend p = false) : Sub c (restoreOne c p) := by
  unfold restoreOne register
  (repeat' (first | split | (simp only []; split))) <;>
    first
    | exact Sub.of_eq rfl
    | (intro y hy
       simp only [List.mem_append, List.mem_singleton] at hy
       rcases hy with hy | hy
       · exact .inl hy
       · subst hy; exact .inr h)

theorem sub_restorePackets (ps : List Pkt) (h : ∀ p ∈ ps, tgSend p = false) : ∀ c, Sub c (restorePackets c ps) := by
  induction ps with
  | nil => intro c; exact .refl c
  | cons p rest ih =>
    intro c
    rw [restorePackets]
    exact (sub_restoreOne c p (h p (by simp))).trans (ih (fun q hq => h q (by simp [hq])) _)

/-- `restore_packets` is given no v5.0 CONNECT / CONNACK (real exports hold PUBLISH / PUBREL only) -/
def RestoreTG : Op → Prop
  | .restorePackets ps => ∀ p ∈ ps, tgSend p = false
  | _ => True

/-- **`StoreTG` is inductive** -/
theorem storeTG_step (cfg : Cfg) (s : St) (op : Op) (hr : RestoreTG op) (hs : StoreTG s) :
    StoreTG (step cfg s op).s := by
  have key : Sub { cfg := cfg, s := s } (step cfg s op) := by
    cases op with
    | send p => exact sub_send _ p
    | recv inp parse => simp only [step]; rw [recv_fst]; exact sub_recvCore _ _ _
    | timer k => exact .of_eq (store_notifyTimerFired _ k)
    | closed => exact sub_notifyClosed _
    | setInterval d => exact .of_eq (store_setPingreqSendInterval _ d)
    | setFlag f b => exact .of_eq (by cases f <;> rfl)
    | setRespTimeout ms => exact .of_eq rfl
    | acquire => exact .of_eq rfl
    | register id => exact .of_eq rfl
    | release id => exact .of_eq (store_releasePacketId _ id)
    | erase id => exact sub_eraseStoredPublish _ id
    | restoreHandled ids => exact .of_eq rfl
    | restorePackets ps => exact sub_restorePackets ps hr _
  exact key.storeTG hs

theorem storeTG_init (cfg : Cfg) (ver : Nat) : StoreTG (St.init cfg ver) := by
  intro x hx; simp [St.init] at hx

end MqttVerif.Conn.TarGhost
