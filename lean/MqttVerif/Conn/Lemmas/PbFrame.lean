import MqttVerif.Conn.Step
import MqttVerif.Conn.Lemmas.Resend
/-!
# C09 helper — the frame assembler `pb` is touched by `recv` (one `feed`) and `notify_closed` only

`(f c).s.pb = c.s.pb` for every other model function.  Own namespace: may be imported next to
any other lemma chain.
-/
set_option linter.unusedSimpArgs false
set_option linter.unusedVariables false
namespace MqttVerif.Conn.PbF
open MqttVerif MqttVerif.Conn

@[simp] theorem push_pb (c : C) (e : Ev) : (c.push e).s.pb = c.s.pb := rfl
@[simp] theorem err_pb (c : C) (e : Nat) : (c.err e).s.pb = c.s.pb := rfl
@[simp] theorem setPanic_pb (c : C) (x : String) : (c.setPanic x).s.pb = c.s.pb := rfl

theorem ite_pb (p : Prop) {_ : Decidable p} (a b : C) :
    (if p then a else b).s.pb = if p then a.s.pb else b.s.pb := apply_ite (fun x : C => x.s.pb) _ _ _

macro "pb_tac" : tactic =>
  `(tactic| first
      | rfl
      | (simp [ite_pb]; done)
      | ((repeat' (first | split | (simp only []; split))) <;> simp_all [ite_pb]; done))

@[simp] theorem pb_releaseId (c : C) (id : Nat) : (releaseId c id).s.pb = c.s.pb := by
  unfold releaseId; pb_tac
@[simp] theorem pb_releaseIfUsed (c : C) (id : Nat) : (releaseIfUsed c id).s.pb = c.s.pb := by
  unfold releaseIfUsed; pb_tac
@[simp] theorem pb_cancelTimers (c : C) : (cancelTimers c).s.pb = c.s.pb := by
  unfold cancelTimers; pb_tac
@[simp] theorem pb_sendPostProcess (c : C) : (sendPostProcess c).s.pb = c.s.pb := by
  rcases sendPostProcess_s_cases c with h | h <;> rw [h]
@[simp] theorem pb_refreshPingreqRecv (c : C) : (refreshPingreqRecv c).s.pb = c.s.pb := by
  unfold refreshPingreqRecv; pb_tac
@[simp] theorem pb_initConn (c : C) (b : Bool) : (initConn c b).s.pb = c.s.pb := rfl
@[simp] theorem pb_clearStoreRelated (c : C) : (clearStoreRelated c).s.pb = c.s.pb := rfl
@[simp] theorem pb_decSendCount (c : C) : (decSendCount c).s.pb = c.s.pb := by
  unfold decSendCount; pb_tac
@[simp] theorem pb_releasePacketId (c : C) (id : Nat) : (releasePacketId c id).s.pb = c.s.pb :=
  releasePacketId_ind (Q := fun c' => c'.s.pb = c.s.pb) c id (pb_releaseIfUsed c id) (fun h => h)
    (fun h => (pb_decSendCount _).trans h)
@[simp] theorem pb_releaseAll (l : List Nat) : ∀ c, (releaseAll c l).s.pb = c.s.pb := by
  induction l with
  | nil => intro c; rfl
  | cons x rest ih => intro c; rw [releaseAll, ih]; simp
@[simp] theorem pb_validateTopicAlias (c : C) (ao : Option Nat) :
    (validateTopicAlias c ao).2.s.pb = c.s.pb := by
  unfold validateTopicAlias; (repeat' split) <;> rfl
@[simp] theorem pb_storeAdd (c : C) (id : Nat) (p : Pkt) (x : String) : (storeAdd c id p x).s.pb = c.s.pb := by
  unfold storeAdd; split <;> rfl
@[simp] theorem pb_tasInsert (c : C) (t : List Nat) (a : Nat) (x : String) :
    (tasInsert c t a x).s.pb = c.s.pb := by
  unfold tasInsert; (repeat' split) <;> rfl
@[simp] theorem pb_autoAlias (c : C) (p : Pkt) : (autoAlias c p).1.s.pb = c.s.pb := by
  unfold autoAlias; (repeat' (first | split | (simp only []; split))) <;> simp
@[simp] theorem pb_connectSendProp (c : C) (id v : Nat) : (connectSendProp c id v).s.pb = c.s.pb := by
  unfold connectSendProp; (repeat' split) <;> rfl
@[simp] theorem pb_connectRecvProp (c : C) (id v : Nat) : (connectRecvProp c id v).s.pb = c.s.pb := by
  unfold connectRecvProp; (repeat' split) <;> rfl
@[simp] theorem pb_connackSendProp (c : C) (id v : Nat) : (connackSendProp c id v).s.pb = c.s.pb := by
  unfold connackSendProp; pb_tac
@[simp] theorem pb_connackRecvProp (c : C) (id v : Nat) : (connackRecvProp c id v).s.pb = c.s.pb := by
  unfold connackRecvProp; pb_tac

theorem pb_propsFold (f : C → Nat → Nat → C) (hf : ∀ c id v, (f c id v).s.pb = c.s.pb) (c : C)
    (l : List (Nat × Nat)) : (propsFold f c l).s.pb = c.s.pb := by
  induction l generalizing c with
  | nil => rfl
  | cons x rest ih => obtain ⟨i, v⟩ := x; rw [propsFold, ih, hf]
@[simp] theorem pb_fold_connectSendProp (c : C) (l : List (Nat × Nat)) :
    (propsFold connectSendProp c l).s.pb = c.s.pb := pb_propsFold _ pb_connectSendProp c l
@[simp] theorem pb_fold_connectRecvProp (c : C) (l : List (Nat × Nat)) :
    (propsFold connectRecvProp c l).s.pb = c.s.pb := pb_propsFold _ pb_connectRecvProp c l
@[simp] theorem pb_fold_connackSendProp (c : C) (l : List (Nat × Nat)) :
    (propsFold connackSendProp c l).s.pb = c.s.pb := pb_propsFold _ pb_connackSendProp c l
@[simp] theorem pb_fold_connackRecvProp (c : C) (l : List (Nat × Nat)) :
    (propsFold connackRecvProp c l).s.pb = c.s.pb := pb_propsFold _ pb_connackRecvProp c l

@[simp] theorem pb_psV5Disconnect (c : C) (p : Pkt) : (psV5Disconnect c p).s.pb = c.s.pb := by
  unfold psV5Disconnect; pb_tac
@[simp] theorem pb_psV3Disconnect (c : C) (p : Pkt) : (psV3Disconnect c p).s.pb = c.s.pb := by
  unfold psV3Disconnect; pb_tac
@[simp] theorem pb_handleV3Error (c : C) (e : Nat) : (handleV3Error c e).s.pb = c.s.pb := by
  unfold handleV3Error; pb_tac
@[simp] theorem pb_v5DisconnectOrClose (c : C) (p : Pkt) : (v5DisconnectOrClose c p).s.pb = c.s.pb := by
  unfold v5DisconnectOrClose; pb_tac
@[simp] theorem pb_handleV5Error (c : C) (e : Nat) : (handleV5Error c e).s.pb = c.s.pb := by
  unfold handleV5Error; pb_tac
@[simp] theorem pb_vErr (c : C) (e : Nat) : (vErr c e).s.pb = c.s.pb := by unfold vErr; pb_tac

@[simp] theorem pb_sendStoredLoop (l : List (Nat × Pkt)) : ∀ c, (sendStoredLoop c l).1.s.pb = c.s.pb := by
  induction l with
  | nil => intro c; rfl
  | cons x rest ih =>
    intro c
    obtain ⟨id, p⟩ := x
    rw [sendStoredLoop]
    split
    · simp only []; rw [ih]; simp
    · simp only []; rw [ih]; simp only [push_pb]; (repeat' split) <;> rfl
@[simp] theorem pb_sendStored (c : C) : (sendStored c).s.pb = c.s.pb := by
  unfold sendStored
  simp only []
  rw [pb_sendStoredLoop]
  split <;> rfl
@[simp] theorem pb_resendStored (c : C) : (resendStored c).s.pb = c.s.pb :=
  resendStored_ind (Q := fun x => x.s.pb = c.s.pb) c (pb_sendStored c)
    (fun h => by rw [pb_sendPostProcess]; exact h)

@[simp] theorem pb_psV3Connect (c : C) (p : Pkt) : (psV3Connect c p).s.pb = c.s.pb := by
  unfold psV3Connect; pb_tac
@[simp] theorem pb_psV5Connect (c : C) (p : Pkt) : (psV5Connect c p).s.pb = c.s.pb := by
  unfold psV5Connect; pb_tac
@[simp] theorem pb_psV3Connack (c : C) (p : Pkt) : (psV3Connack c p).s.pb = c.s.pb := by
  unfold psV3Connack; pb_tac
@[simp] theorem pb_psV5Connack (c : C) (p : Pkt) : (psV5Connack c p).s.pb = c.s.pb := by
  unfold psV5Connack; pb_tac
@[simp] theorem pb_psV3Publish (c : C) (p : Pkt) : (psV3Publish c p).s.pb = c.s.pb := by
  unfold psV3Publish; pb_tac
@[simp] theorem pb_pubRefuseCleanup (c : C) (pid : Option Nat) : (pubRefuseCleanup c pid).s.pb = c.s.pb := by
  unfold pubRefuseCleanup; pb_tac
@[simp] theorem pb_psV5PublishTail (c : C) (p : Pkt) (r : Option Nat) :
    (psV5PublishTail c p r).s.pb = c.s.pb := by unfold psV5PublishTail; pb_tac
@[simp] theorem pb_psV5PublishAlias (c : C) (p : Pkt) (r : Option Nat) (v : Bool) :
    (psV5PublishAlias c p r v).s.pb = c.s.pb := by unfold psV5PublishAlias; pb_tac
@[simp] theorem pb_psV5Publish (c : C) (p : Pkt) : (psV5Publish c p).s.pb = c.s.pb := by
  unfold psV5Publish; pb_tac
@[simp] theorem pb_psV3Simple (c : C) (p : Pkt) : (psV3Simple c p).s.pb = c.s.pb := by
  unfold psV3Simple; pb_tac
@[simp] theorem pb_psV5Simple (c : C) (p : Pkt) : (psV5Simple c p).s.pb = c.s.pb := by
  unfold psV5Simple; pb_tac
@[simp] theorem pb_psV5Puback (c : C) (p : Pkt) : (psV5Puback c p).s.pb = c.s.pb := by
  unfold psV5Puback; pb_tac
@[simp] theorem pb_psV5Pubrec (c : C) (p : Pkt) : (psV5Pubrec c p).s.pb = c.s.pb := by
  unfold psV5Pubrec; pb_tac
@[simp] theorem pb_psV5Pubcomp (c : C) (p : Pkt) : (psV5Pubcomp c p).s.pb = c.s.pb := pb_psV5Puback c p
@[simp] theorem pb_psPubrel (c : C) (p : Pkt) : (psPubrel c p).s.pb = c.s.pb := by
  unfold psPubrel; pb_tac
@[simp] theorem pb_psSubUnsub (c : C) (p : Pkt) : (psSubUnsub c p).s.pb = c.s.pb := by
  unfold psSubUnsub; pb_tac
@[simp] theorem pb_psPingreq (c : C) (p : Pkt) : (psPingreq c p).s.pb = c.s.pb := by
  unfold psPingreq; pb_tac
@[simp] theorem pb_psV5Auth (c : C) (p : Pkt) : (psV5Auth c p).s.pb = c.s.pb := by
  unfold psV5Auth; pb_tac
@[simp] theorem pb_processSend (c : C) (p : Pkt) : (processSend c p).s.pb = c.s.pb := by
  unfold processSend; (repeat' split) <;> simp
@[simp] theorem pb_refuseSend (c : C) (e : Nat) (p : Pkt) : (refuseSend c e p).s.pb = c.s.pb := by
  unfold refuseSend; pb_tac
@[simp] theorem pb_send (c : C) (p : Pkt) : (send c p).s.pb = c.s.pb := by
  unfold send; pb_tac

@[simp] theorem pb_prV3Connect (c : C) (x : Except Nat Pkt) : (prV3Connect c x).s.pb = c.s.pb := by
  unfold prV3Connect; pb_tac
@[simp] theorem pb_prV5Connect (c : C) (x : Except Nat Pkt) : (prV5Connect c x).s.pb = c.s.pb := by
  unfold prV5Connect; pb_tac
@[simp] theorem pb_prV3Connack (c : C) (x : Except Nat Pkt) : (prV3Connack c x).s.pb = c.s.pb := by
  unfold prV3Connack; pb_tac
@[simp] theorem pb_prV5Connack (c : C) (x : Except Nat Pkt) : (prV5Connack c x).s.pb = c.s.pb := by
  unfold prV5Connack; pb_tac
@[simp] theorem pb_prV3Publish (c : C) (x : Except Nat Pkt) : (prV3Publish c x).s.pb = c.s.pb := by
  unfold prV3Publish; pb_tac
@[simp] theorem pb_prV5PublishAlias (c : C) (p : Pkt) : (prV5PublishAlias c p).1.s.pb = c.s.pb := by
  unfold prV5PublishAlias; pb_tac
@[simp] theorem pb_prV5Publish (c : C) (x : Except Nat Pkt) : (prV5Publish c x).s.pb = c.s.pb := by
  unfold prV5Publish
  split
  · simp [ite_pb]
  · rename_i p
    have h1 := pb_prV5PublishAlias c p
    generalize prV5PublishAlias c p = r at h1 ⊢
    obtain ⟨c1, o⟩ := r
    cases o with
    | none => exact h1
    | some p' =>
      simp only [] at h1 ⊢
      rw [← h1]
      first
        | (simp [ite_pb]; done)
        | ((repeat' (first | split | (simp only []; split))) <;> simp [ite_pb])
@[simp] theorem pb_prPuback (c : C) (x : Except Nat Pkt) : (prPuback c x).s.pb = c.s.pb := by
  unfold prPuback; pb_tac
@[simp] theorem pb_prPubrec (c : C) (x : Except Nat Pkt) : (prPubrec c x).s.pb = c.s.pb := by
  unfold prPubrec; pb_tac
@[simp] theorem pb_prPubrel (c : C) (x : Except Nat Pkt) : (prPubrel c x).s.pb = c.s.pb := by
  unfold prPubrel; pb_tac
@[simp] theorem pb_prPubcomp (c : C) (x : Except Nat Pkt) : (prPubcomp c x).s.pb = c.s.pb := by
  unfold prPubcomp; pb_tac
@[simp] theorem pb_prPlain (c : C) (x : Except Nat Pkt) : (prPlain c x).s.pb = c.s.pb := by
  unfold prPlain; pb_tac
@[simp] theorem pb_prSubUnsuback (c : C) (b : Bool) (x : Except Nat Pkt) :
    (prSubUnsuback c b x).s.pb = c.s.pb := by unfold prSubUnsuback; pb_tac
@[simp] theorem pb_prPingreq (c : C) (x : Except Nat Pkt) : (prPingreq c x).s.pb = c.s.pb := by
  unfold prPingreq; pb_tac
@[simp] theorem pb_prPingresp (c : C) (x : Except Nat Pkt) : (prPingresp c x).s.pb = c.s.pb := by
  unfold prPingresp; pb_tac
@[simp] theorem pb_prDisconnect (c : C) (x : Except Nat Pkt) : (prDisconnect c x).s.pb = c.s.pb := by
  unfold prDisconnect; pb_tac
@[simp] theorem pb_dispatchRecv (c : C) (t : Nat) (x : Except Nat Pkt) :
    (dispatchRecv c t x).s.pb = c.s.pb := by
  unfold dispatchRecv; (repeat' split) <;> simp
@[simp] theorem pb_processRecvPacket (c : C) (fh : Nat) (d : List Nat) (parse : Nat → Except Nat Pkt) :
    (processRecvPacket c fh d parse).s.pb = c.s.pb := by
  unfold processRecvPacket; pb_tac

@[simp] theorem pb_notifyTimerFired (c : C) (k : Timer) : (notifyTimerFired c k).s.pb = c.s.pb := by
  unfold notifyTimerFired; pb_tac
@[simp] theorem pb_setPingreqSendInterval (c : C) (d : Option Nat) :
    (setPingreqSendInterval c d).s.pb = c.s.pb := by unfold setPingreqSendInterval; pb_tac
@[simp] theorem pb_eraseStoredPublish (c : C) (id : Nat) : (eraseStoredPublish c id).s.pb = c.s.pb := by
  unfold eraseStoredPublish; pb_tac
@[simp] theorem pb_restoreOne (c : C) (p : Pkt) : (restoreOne c p).s.pb = c.s.pb := by
  unfold restoreOne register; pb_tac
@[simp] theorem pb_restorePackets (l : List Pkt) : ∀ c, (restorePackets c l).s.pb = c.s.pb := by
  induction l with
  | nil => intro c; rfl
  | cons x rest ih => intro c; rw [restorePackets, ih]; simp

/-- `notify_closed` discards a partially received frame (fix of finding #1) -/
theorem pb_notifyClosed (c : C) : (notifyClosed c).s.pb = Framing.PB.reset := by
  unfold notifyClosed
  simp only [pb_cancelTimers]

end MqttVerif.Conn.PbF
