import MqttVerif.Conn.Lemmas.Qos2Recv
/-!
# Lemmas for C06 (outbound QoS 1/2 store): `store`, wait sets, `send_stored`   (agent P7)
-/
namespace MqttVerif.Conn
open MqttVerif
set_option linter.unusedSimpArgs false

/-! ## the store container -/

theorem mem_erase {α : Type} {k : Nat} {l : List (Nat × α)} {e : Nat × α} :
    e ∈ erase k l ↔ e ∈ l ∧ e.1 ≠ k := by
  simp [erase]

theorem lookup_some_mem {α : Type} {k : Nat} {l : List (Nat × α)} {v : α} (h : lookup k l = some v) :
    (k, v) ∈ l := by
  induction l with
  | nil => simp [lookup] at h
  | cons a t ih =>
    obtain ⟨k', v'⟩ := a
    simp only [lookup] at h
    split at h
    · cases h; subst_vars; simp
    · simp [ih h]

/-- an entry that `Store::erase(response, id)` removed had identifier `id`, and the entry found
    under that identifier matched the response kind and version -/
theorem storeErase_removed {ver : Nat} {k : Kind} {id : Nat} {st : List (Nat × Pkt)} {e : Nat × Pkt}
    (h1 : e ∈ st) (h2 : e ∉ storeErase ver k id st) :
    e.1 = id ∧ ∃ q, lookup id st = some q ∧ respOf q = k ∧ q.ver = ver := by
  unfold storeErase at h2
  split at h2
  · rename_i q hq
    split at h2
    · rename_i hm
      rw [mem_erase] at h2
      exact ⟨Classical.byContradiction fun hne => h2 ⟨h1, hne⟩, q, hq, hm.1, hm.2⟩
    · exact absurd h1 h2
  · exact absurd h1 h2

theorem storeErase_sub {ver : Nat} {k : Kind} {id : Nat} {st : List (Nat × Pkt)} {e : Nat × Pkt}
    (h : e ∈ storeErase ver k id st) : e ∈ st := by
  unfold storeErase at h
  split at h
  · split at h
    · exact (mem_erase.1 h).1
    · exact h
  · exact h

theorem storeErasePublish_removed {id : Nat} {st : List (Nat × Pkt)} {e : Nat × Pkt}
    (h1 : e ∈ st) (h2 : e ∉ (storeErasePublish id st).2) :
    e.1 = id ∧ ∃ q, lookup id st = some q ∧ q.kind = .publish := by
  unfold storeErasePublish at h2
  split at h2
  · rename_i q hq
    split at h2
    · rename_i hm
      rw [mem_erase] at h2
      exact ⟨Classical.byContradiction fun hne => h2 ⟨h1, hne⟩, q, hq, hm⟩
    · exact absurd h1 h2
  · exact absurd h1 h2

theorem storeHas_iff {id : Nat} {st : List (Nat × Pkt)} : storeHas id st = true ↔ ∃ q, (id, q) ∈ st := by
  simp [storeHas]

/-! ## `send_stored` -/

/-- the entries that fit the peer's Maximum Packet Size -/
def fits (pw mps : Nat) (l : List (Nat × Pkt)) : List (Nat × Pkt) :=
  l.filter (fun e => !decide (e.2.sz pw > mps))

@[simp] theorem sendStoredLoop_cfg (c : C) (l : List (Nat × Pkt)) : (sendStoredLoop c l).1.cfg = c.cfg := by
  induction l generalizing c with
  | nil => rfl
  | cons a t ih =>
    obtain ⟨i, p⟩ := a
    simp only [sendStoredLoop]
    split
    · simp [ih]
    · simp [ih, apply_ite C.cfg, C.setPanic]

@[simp] theorem sendStoredLoop_mpsSend (c : C) (l : List (Nat × Pkt)) :
    (sendStoredLoop c l).1.s.mpsSend = c.s.mpsSend := by
  induction l generalizing c with
  | nil => rfl
  | cons a t ih =>
    obtain ⟨i, p⟩ := a
    simp only [sendStoredLoop]
    split
    · simp [ih]
    · simp [ih, apply_ite C.s, apply_ite St.mpsSend, C.setPanic]

@[simp] theorem sendStoredLoop_store (c : C) (l : List (Nat × Pkt)) :
    (sendStoredLoop c l).1.s.store = c.s.store := by
  induction l generalizing c with
  | nil => rfl
  | cons a t ih =>
    obtain ⟨i, p⟩ := a
    simp only [sendStoredLoop]
    split
    · simp [ih]
    · simp [ih, apply_ite C.s, apply_ite St.store, C.setPanic]

/-- what stays in the store: exactly the entries that fit, in order -/
theorem sendStoredLoop_snd (c : C) (l : List (Nat × Pkt)) :
    (sendStoredLoop c l).2 = fits c.cfg.pw c.s.mpsSend l := by
  induction l generalizing c with
  | nil => rfl
  | cons a t ih =>
    obtain ⟨i, p⟩ := a
    simp only [sendStoredLoop]
    split
    · rename_i h
      simp [ih, fits, List.filter_cons, h]
    · rename_i h
      simp [ih, fits, List.filter_cons, h, apply_ite C.s, apply_ite C.cfg, apply_ite St.mpsSend, C.setPanic]

/-- what is requested for sending: exactly those entries' packets, in store order -/
theorem sendStoredLoop_sends (c : C) (l : List (Nat × Pkt)) :
    sends (sendStoredLoop c l).1.ev = sends c.ev ++ (fits c.cfg.pw c.s.mpsSend l).map (·.2) := by
  induction l generalizing c with
  | nil => simp [sendStoredLoop, fits]
  | cons a t ih =>
    obtain ⟨i, p⟩ := a
    simp only [sendStoredLoop]
    split
    · rename_i h
      simp [ih, fits, List.filter_cons, h]
    · rename_i h
      simp [ih, fits, List.filter_cons, h, apply_ite C.s, apply_ite C.ev, apply_ite C.cfg, apply_ite St.mpsSend,
        apply_ite sends, C.setPanic]

@[simp] theorem sendStoredLoop_errs (c : C) (l : List (Nat × Pkt)) :
    errs (sendStoredLoop c l).1.ev = errs c.ev := by
  induction l generalizing c with
  | nil => rfl
  | cons a t ih =>
    obtain ⟨i, p⟩ := a
    simp only [sendStoredLoop]
    split
    · simp [ih]
    · simp [ih, apply_ite C.ev, apply_ite errs, C.setPanic]

theorem sendStored_store (c : C) : (sendStored c).s.store = fits c.cfg.pw c.s.mpsSend c.s.store := by
  simp [sendStored, sendStoredLoop_snd, apply_ite C.s, apply_ite C.cfg, apply_ite St.mpsSend, apply_ite St.store]

theorem sendStored_sends (c : C) :
    sends (sendStored c).ev = sends c.ev ++ (fits c.cfg.pw c.s.mpsSend c.s.store).map (·.2) := by
  simp [sendStored, sendStoredLoop_sends, apply_ite C.s, apply_ite C.ev, apply_ite C.cfg, apply_ite St.mpsSend,
    apply_ite St.store]

@[simp] theorem sendStored_cfg (c : C) : (sendStored c).cfg = c.cfg := by
  simp [sendStored, apply_ite C.cfg]
@[simp] theorem sendStored_mpsSend (c : C) : (sendStored c).s.mpsSend = c.s.mpsSend := by
  simp [sendStored, apply_ite C.s, apply_ite St.mpsSend]
@[simp] theorem sendStored_errs (c : C) : errs (sendStored c).ev = errs c.ev := by
  simp [sendStored, apply_ite C.ev, apply_ite errs]

theorem mem_fits {pw mps : Nat} {l : List (Nat × Pkt)} {e : Nat × Pkt} :
    e ∈ fits pw mps l ↔ e ∈ l ∧ e.2.sz pw ≤ mps := by
  simp [fits]


/-! ## sending a PUBLISH -/

theorem storeAdd_has (c : C) (id : Nat) (p : Pkt) (site : String) :
    ∃ q, (id, q) ∈ (storeAdd c id p site).s.store := by
  simp only [storeAdd]
  split
  · rename_i h; simpa [C.setPanic] using storeHas_iff.1 h
  · exact ⟨p, by simp⟩

theorem storeAdd_store (c : C) (id : Nat) (p : Pkt) (site : String) :
    (storeAdd c id p site).s.store = c.s.store ∨ (storeAdd c id p site).s.store = c.s.store ++ [(id, p)] := by
  simp only [storeAdd]
  split
  · left; simp [C.setPanic]
  · right; rfl

theorem psV5PublishTail_sends (c : C) (p : Pkt) (rel : Option Nat) :
    sends (psV5PublishTail c p rel).ev = sends c.ev ++ (if c.s.status = .connected then [p] else []) := by
  simp only [psV5PublishTail]
  simp [apply_ite C.s, apply_ite C.ev, apply_ite St.status, apply_ite sends, C.setPanic]
  split <;> simp

theorem autoAlias_fields (c : C) (p : Pkt) :
    (autoAlias c p).2.pid = p.pid ∧ (autoAlias c p).2.kind = p.kind ∧ (autoAlias c p).2.qos = p.qos := by
  simp only [autoAlias]
  repeat' split
  all_goals simp

/-- a v5.0 PUBLISH that passes the Receive-Maximum and alias stages without an error event leaves
    the store alone and — while connected — is requested for sending (possibly with the topic
    replaced by an alias: same identifier, same kind) -/
theorem psV5PublishAlias_noerr (c : C) (p : Pkt) (rel : Option Nat) (v : Bool)
    (herr : errs (psV5PublishAlias c p rel v).ev = errs c.ev) :
    (psV5PublishAlias c p rel v).s.store = c.s.store ∧
    (c.s.status = .connected → ∃ q, q ∈ sends (psV5PublishAlias c p rel v).ev ∧ q.pid = p.pid ∧ q.kind = p.kind) := by
  simp only [psV5PublishAlias] at herr ⊢
  generalize (decide (p.qos > 0) && (match c.s.sendMax with
    | some m => decide (c.s.sendCount ≥ m) | none => false)) = blocked at herr ⊢
  cases blocked
  · simp only [Bool.false_eq_true, if_false] at herr ⊢
    cases ht : p.topic.isEmpty
    · simp only [ht, Bool.false_eq_true, if_false] at herr ⊢
      cases ha : p.alias with
      | none =>
        simp only [ha] at herr ⊢
        refine ⟨by simp, fun hs => ⟨(autoAlias c p).2, ?_, (autoAlias_fields c p).1, (autoAlias_fields c p).2.1⟩⟩
        simp [psV5PublishTail_sends, hs]
      | some a =>
        simp only [ha] at herr ⊢
        cases hr : validateTopicAliasRange c.s a
        · simp [hr] at herr
        · simp only [hr, if_true]
          refine ⟨by simp [apply_ite C.s, apply_ite St.store], fun hs => ⟨p, ?_, rfl, rfl⟩⟩
          simp [psV5PublishTail_sends, hs, apply_ite C.s, apply_ite St.status]
    · simp only [ht, if_true] at herr ⊢
      cases v
      · by_cases hr : (validateTopicAlias c p.alias).1.isNone
        · simp [hr] at herr
        · simp only [hr, Bool.not_false, Bool.false_eq_true, if_false, and_false]
          exact ⟨by simp, fun hs => ⟨p, by simp [psV5PublishTail_sends, hs], rfl, rfl⟩⟩
      · simp only [Bool.not_true, Bool.false_eq_true, false_and, if_false, if_true]
        exact ⟨by simp, fun hs => ⟨p, by simp [psV5PublishTail_sends, hs], rfl, rfl⟩⟩
  · simp at herr


theorem psV3Publish_not_dropped (c : C) (p : Pkt) (id : Nat) (hq : p.qos > 0) (hid : p.pid = some id)
    (herr : errs (psV3Publish c p).ev = errs c.ev) :
    p ∈ sends (psV3Publish c p).ev ∨ ∃ q, (id, q) ∈ (psV3Publish c p).s.store := by
  simp only [psV3Publish, hq, if_true] at herr ⊢
  rw [hid] at herr ⊢
  simp only at herr ⊢
  cases hna : pubNotAllowed c.s
  · simp only [hna, Bool.false_eq_true, if_false] at herr ⊢
    cases hu : isUsed c.s id
    · simp [hu] at herr
    · simp only [hu, Bool.not_true, Bool.false_eq_true, if_false] at herr ⊢
      cases hw : willStore c.s
      · left
        have hc : c.s.status = .connected := by
          simp [pubNotAllowed, willStore] at hna hw
          by_cases h : c.s.status = .connected
          · exact h
          · have := hna h; simp_all
        simp [hw, hc, apply_ite C.s, apply_ite C.ev, apply_ite St.status, apply_ite sends]
      · right
        simp only [hw, if_true]
        simp only [apply_ite C.s, apply_ite St.store, sendPostProcess_store, push_s, ite_self]
        exact storeAdd_has _ _ _ _
  · simp [hna] at herr

theorem psV5Publish_not_dropped (c : C) (p : Pkt) (id : Nat) (hq : p.qos > 0) (hid : p.pid = some id)
    (herr : errs (psV5Publish c p).ev = errs c.ev) :
    (∃ q, q ∈ sends (psV5Publish c p).ev ∧ q.pid = some id ∧ q.kind = p.kind) ∨
    ∃ q, (id, q) ∈ (psV5Publish c p).s.store := by
  simp only [psV5Publish] at herr ⊢
  cases hz : sizeOk c p
  · rw [hid] at herr; simp [hz] at herr
  · simp only [hz, Bool.not_true, Bool.false_eq_true, if_false, hq, if_true] at herr ⊢
    rw [hid] at herr ⊢
    simp only at herr ⊢
    cases hna : pubNotAllowed c.s
    · simp only [hna, Bool.false_eq_true, if_false] at herr ⊢
      cases hu : isUsed c.s id
      · simp [hu] at herr
      · simp only [hu, Bool.not_true, Bool.false_eq_true, if_false] at herr ⊢
        cases hw : willStore c.s
        · left
          have hc : c.s.status = .connected := by
            simp [pubNotAllowed, willStore] at hna hw
            by_cases h : c.s.status = .connected
            · exact h
            · have := hna h; simp_all
          simp only [hw, Bool.false_eq_true, if_false] at herr ⊢
          obtain ⟨q, h1, h2, h3⟩ := (psV5PublishAlias_noerr _ _ (some id) false
            (by rw [herr]; simp [apply_ite C.ev, apply_ite errs])).2
            (by simp [hc, apply_ite C.s, apply_ite St.status])
          exact ⟨q, h1, h2.trans hid, h3⟩
        · right
          simp only [hw, if_true] at herr ⊢
          cases ht : p.topic.isEmpty
          · simp only [ht, Bool.false_eq_true, if_false] at herr ⊢
            rw [(psV5PublishAlias_noerr _ _ none false (by rw [herr]; simp [apply_ite C.ev, apply_ite errs])).1]
            simp only [apply_ite C.s, apply_ite St.store, ite_self]
            exact storeAdd_has _ _ _ _
          · simp only [ht, if_true] at herr ⊢
            cases hr : (validateTopicAlias c p.alias).1 with
            | none => simp [hr] at herr
            | some t =>
              simp only [hr] at herr ⊢
              rw [(psV5PublishAlias_noerr _ _ none true
                (by rw [herr]; simp [apply_ite C.ev, apply_ite errs, C.setPanic])).1]
              simp only [apply_ite C.s, apply_ite St.store, ite_self]
              exact storeAdd_has _ _ _ _
    · simp [hna] at herr

end MqttVerif.Conn
