import MqttVerif.Conn.Types
/-!
# L2 — connection state machine: impl-shaped model of `core.rs`

Every Rust function is its own definition `C → … → C` (`C` = state + events pushed so far),
with the same control flow and the same event push order.  Panic sites are explicit
(`C.setPanic`).  Comments `fix:` mark behaviour introduced by a `fix:` commit in /repo (see
/verif/KNOWN_FINDINGS.txt); the model always describes the code as it is now.
-/
namespace MqttVerif.Conn
open MqttVerif


/-! ## containers -/

def TAS.new (max : Nat) : TAS := { max := max, alloc := Alloc.new 1 max 65535 }

def t2aRemove (topic : List Nat) (a : Nat) : List (List Nat × List Nat) → List (List Nat × List Nat)
  | [] => []
  | (t, v) :: rest =>
    if t = topic then
      let v' := v.filter (· ≠ a)
      if v'.isEmpty then rest else (t, v') :: rest
    else (t, v) :: t2aRemove topic a rest

def t2aPush (topic : List Nat) (a : Nat) : List (List Nat × List Nat) → List (List Nat × List Nat)
  | [] => [(topic, [a])]
  | (t, v) :: rest => if t = topic then (t, v ++ [a]) :: rest else (t, v) :: t2aPush topic a rest

def lookup {α : Type} (k : Nat) : List (Nat × α) → Option α
  | [] => none
  | (k', v) :: rest => if k = k' then some v else lookup k rest

def erase {α : Type} (k : Nat) (l : List (Nat × α)) : List (Nat × α) := l.filter (·.1 ≠ k)

/-- `TopicAliasSend::insert_or_update` (the `assert!` is a panic site handled by the caller) -/
def TAS.insertOrUpdate (t : TAS) (topic : List Nat) (a : Nat) : TAS :=
  let (isNew, alloc') := Alloc.useValue t.alloc a
  let (a2t, t2a) :=
    if !isNew then
      match lookup a t.a2t with
      | some old => (erase a t.a2t, t2aRemove old a t.t2a)
      | none => (t.a2t, t.t2a)
    else (t.a2t, t.t2a)
  -- IndexMap::insert of a key that is (still) present would keep its position; after the
  -- shift_remove above it never is
  { t with alloc := alloc', a2t := erase a a2t ++ [(a, topic)], t2a := t2aPush topic a t2a }

/-- `TopicAliasSend::get` (LRU touch: the entry moves to the back) -/
def TAS.get (t : TAS) (a : Nat) : Option (List Nat) × TAS :=
  if 1 ≤ a ∧ a ≤ t.max then
    match lookup a t.a2t with
    | some topic => (some topic, { t with a2t := erase a t.a2t ++ [(a, topic)] })
    | none => (none, t)
  else (none, t)

def TAS.peek (t : TAS) (a : Nat) : Option (List Nat) :=
  if 1 ≤ a ∧ a ≤ t.max then lookup a t.a2t else none

def TAS.findByTopic (t : TAS) (topic : List Nat) : Option Nat :=
  match t.t2a.find? (·.1 = topic) with
  | some (_, v) => v.head?
  | none => none

/-- `get_lru_alias` -/
def TAS.lruAlias (t : TAS) : Nat :=
  match Alloc.firstVacant t.alloc with
  | some a => a
  | none => match t.a2t.head? with
    | some (a, _) => a
    | none => 1

def TAR.insertOrUpdate (t : TAR) (topic : List Nat) (a : Nat) : TAR :=
  { t with m := erase a t.m ++ [(a, topic)] }

def TAR.get (t : TAR) (a : Nat) : Option (List Nat) :=
  if 1 ≤ a ∧ a ≤ t.max then lookup a t.m else none

/-! ### store -/

def storeHas (id : Nat) (st : List (Nat × Pkt)) : Bool := st.any (·.1 = id)

/-- `ResponsePacket` of a stored packet equals the given (kind) -/
def respOf (p : Pkt) : Kind :=
  if p.kind = .pubrel then .pubcomp else if p.qos = 2 then .pubrec else .puback

/-- `Store::erase(response, id)`: removes iff present and the stored packet's response packet
    (kind *and version*) matches -/
def storeErase (ver : Nat) (resp : Kind) (id : Nat) (st : List (Nat × Pkt)) : List (Nat × Pkt) :=
  match lookup id st with
  | some p => if respOf p = resp ∧ p.ver = ver then erase id st else st
  | none => st

/-- `Store::erase_publish(id)` -/
def storeErasePublish (id : Nat) (st : List (Nat × Pkt)) : Bool × List (Nat × Pkt) :=
  match lookup id st with
  | some p => if p.kind = .publish then (true, erase id st) else (false, st)
  | none => (false, st)

/-! ## helpers of `core.rs` -/

def isUsed (s : St) (id : Nat) : Bool := Alloc.isUsed s.pidMan id

/-- `pid_man.release_id` = `ValueAllocator::deallocate` (range assertion is a panic site) -/
def releaseId (c : C) (id : Nat) : C :=
  let r := Alloc.deallocate c.s.pidMan id
  let c := { c with s := { c.s with pidMan := r.2 } }
  match r.1 with
  | none => c
  | some site => c.setPanic site

/-- `if self.pid_man.is_used_id(id) { release_id(id); push(NotifyPacketIdReleased(id)) }` -/
def releaseIfUsed (c : C) (id : Nat) : C :=
  if isUsed c.s id then (releaseId c id).push (.released id) else c

def cancelTimers (c : C) : C :=
  let c := if c.s.sendSet then ({ c with s := { c.s with sendSet := false } }).push (.timerCancel .pingreqSend) else c
  let c := if c.s.recvSet then ({ c with s := { c.s with recvSet := false } }).push (.timerCancel .pingreqRecv) else c
  if c.s.respSet then ({ c with s := { c.s with respSet := false } }).push (.timerCancel .pingrespRecv) else c

def sendPostProcess (c : C) : C :=
  if c.s.isClient then
    let ms := match c.s.userInterval with
      | some t => t
      | none => match c.s.serverKeepAliveMs with
        | some t => t
        | none => c.s.keepAliveMs
    if ms > 0 then ({ c with s := { c.s with sendSet := true } }).push (.timerReset .pingreqSend ms) else c
  else c

/-- fix: no refresh while disconnected (finding #18) -/
def refreshPingreqRecv (c : C) : C :=
  if c.s.recvTimeoutMs ≠ 0 ∧ c.s.status ≠ .disconnected then
    ({ c with s := { c.s with recvSet := true } }).push (.timerReset .pingreqRecv c.s.recvTimeoutMs)
  else c

def initConn (c : C) (isClient : Bool) : C :=
  { c with s := { c.s with
      sendMax := none, recvMax := none, sendCount := 0, tas := none, tar := none,
      publishRecv := [], needStore := false, suback := [], unsuback := [],
      isClient := isClient, keepAliveMs := 0, serverKeepAliveMs := none,
      recvTimeoutMs := 0 } }                 -- fix: finding #3

def clearStoreRelated (c : C) : C :=
  { c with s := { c.s with
      pidMan := Alloc.clear c.s.pidMan, puback := [], pubrec := [], pubcomp := [], store := [],
      handled := [],                         -- fix: finding #2
      sendCount := 0 } }                     -- fix 9ba24a9: no exchange is left to count

/-- `send_stored`: oversize entries are dropped and their id released (fix: only when in
    use), the others are requested for sending; fix (finding #10): every resent
    entry is an incomplete exchange of this connection and is counted. -/
def sendStoredLoop (c : C) : List (Nat × Pkt) → C × List (Nat × Pkt)
  | [] => (c, [])
  | (id, p) :: rest =>
    if p.sz c.cfg.pw > c.s.mpsSend then
      -- fix: the abandoned exchange leaves no wait-set entry behind
      let c := { c with s := { c.s with puback := del id c.s.puback, pubrec := del id c.s.pubrec,
                                          pubcomp := del id c.s.pubcomp } }
      sendStoredLoop (releaseIfUsed c id) rest
    else
      let c := if c.s.sendMax.isSome then
          (if c.s.sendCount ≥ 4294967295 then c.setPanic "core.rs:send_stored:publish_send_count+=1" else c)
          |> fun c => { c with s := { c.s with sendCount := (c.s.sendCount + 1) % 4294967296 } }
        else c
      let c := c.push (.send p none)
      let r := sendStoredLoop c rest
      (r.1, (id, p) :: r.2)

def sendStored (c : C) : C :=
  -- fix: the incomplete exchanges of the new connection are exactly the stored packets
  let c := if c.s.sendMax.isSome then { c with s := { c.s with sendCount := 0 } } else c
  let r := sendStoredLoop c c.s.store
  { r.1 with s := { r.1.s with store := r.2 } }

def validateTopicAliasRange (s : St) (a : Nat) : Bool :=
  match s.tas with
  | none => false
  | some t => !(a = 0 ∨ a > t.max)

/-- `validate_topic_alias` (touches the LRU order on success) -/
def validateTopicAlias (c : C) (ao : Option Nat) : Option (List Nat) × C :=
  match ao with
  | none => (none, c)
  | some a =>
    if !validateTopicAliasRange c.s a then (none, c)
    else match c.s.tas with
      | none => (none, c)
      | some t =>
        let r := t.get a
        (r.1, { c with s := { c.s with tas := some r.2 } })

def decSendCount (c : C) : C :=
  -- fix (finding #10/#28): never underflows
  if c.s.sendMax.isSome ∧ c.s.sendCount > 0 then { c with s := { c.s with sendCount := c.s.sendCount - 1 } } else c

def hasWildcard (t : List Nat) : Bool := t.any (fun b => b = 35 ∨ b = 43)

/-- `MqttError → DisconnectReasonCode` -/
def errToDisconnectRc (e : Nat) : Nat :=
  if e ∈ [0x80, 0x81, 0x82, 0x83, 0x87, 0x89, 0x8B, 0x8D, 0x8E, 0x8F, 0x90, 0x93, 0x94, 0x95, 0x96,
          0x97, 0x98, 0x99, 0x9A, 0x9B, 0x9C, 0x9D, 0x9E, 0x9F, 0xA0, 0xA1, 0xA2] then e else 0x80

/-! ### packets the library builds itself -/
def mkV5Disconnect (rc : Nat) : Pkt := { ver := 5, kind := .disconnect, size := 3, rc := some rc }
def mkAck (cfg : Cfg) (ver : Nat) (k : Kind) (id : Nat) : Pkt := { ver := ver, kind := k, size := 2 + cfg.pw, pid := some id }
def mkV5PubcompRc (cfg : Cfg) (id rc : Nat) : Pkt := { ver := 5, kind := .pubcomp, size := 3 + cfg.pw, pid := some id, rc := some rc }
def mkPingreq (ver : Nat) : Pkt := { ver := ver, kind := .pingreq, size := 2 }
def mkPingresp (ver : Nat) : Pkt := { ver := ver, kind := .pingresp, size := 2 }
def mkV3Connack (rc : Nat) : Pkt := { ver := 4, kind := .connack, size := 4, rc := some rc }
def mkV5Connack (rc : Nat) : Pkt := { ver := 5, kind := .connack, size := 5, rc := some rc }

def sizeOk (c : C) (p : Pkt) : Bool := !(p.sz c.cfg.pw > c.s.mpsSend)

/-! ## process_send_* -/

def psV5Disconnect (c : C) (p : Pkt) : C :=
  if !sizeOk c p then c.err eTooLarge
  else if c.s.status ≠ .connected then c.err eNotAllowed
  else
    let c := { c with s := { c.s with status := .disconnected } }
    let c := cancelTimers c
    (c.push (.send p none)).push .close

def psV3Disconnect (c : C) (p : Pkt) : C :=
  if c.s.status ≠ .connected then c.err eNotAllowed
  else
    let c := { c with s := { c.s with status := .disconnected } }
    let c := cancelTimers c
    (c.push (.send p none)).push .close

def handleV3Error (c : C) (e : Nat) : C := (c.push .close).err e

/-- fix (finding #17): when the peer's Maximum Packet Size does not even admit the
    DISCONNECT, the connection is closed without it -/
def v5DisconnectOrClose (c : C) (d : Pkt) : C :=
  if c.s.status = .connected ∧ !sizeOk c d then
    let c := { c with s := { c.s with status := .disconnected } }
    (cancelTimers c).push .close
  else psV5Disconnect c d

def handleV5Error (c : C) (e : Nat) : C :=
  (v5DisconnectOrClose c (mkV5Disconnect (errToDisconnectRc e))).err e

def propsFold (f : C → Nat → Nat → C) (c : C) : List (Nat × Nat) → C
  | [] => c
  | (id, v) :: rest => propsFold f (f c id v) rest

def psV3Connect (c : C) (p : Pkt) : C :=
  if c.s.status ≠ .disconnected then c.err eNotAllowed
  else
    let c := initConn c true
    let c := { c with s := { c.s with status := .connecting, keepAliveMs := p.keepAlive * 1000 } }
    let c := if p.clean then clearStoreRelated c else { c with s := { c.s with needStore := true } }
    let c := { c with s := { c.s with tas := none } }
    sendPostProcess (c.push (.send p none))

def connectSendProp (c : C) (id v : Nat) : C :=
  if id = pTAM then (if v ≠ 0 then { c with s := { c.s with tar := some { max := v } } } else c)
  else if id = pRM then { c with s := { c.s with recvMax := some v } }
  else if id = pMPS then { c with s := { c.s with mpsRecv := v } }
  else if id = pSEI then (if v ≠ 0 then { c with s := { c.s with needStore := true } } else c)
  else c

def psV5Connect (c : C) (p : Pkt) : C :=
  if !sizeOk c p then c.err eTooLarge
  else if c.s.status ≠ .disconnected then c.err eNotAllowed
  else
    let c := initConn c true
    let c := { c with s := { c.s with status := .connecting, keepAliveMs := p.keepAlive * 1000 } }
    let c := if p.clean then clearStoreRelated c else c
    let c := propsFold connectSendProp c p.props
    sendPostProcess (c.push (.send p none))

def psV3Connack (c : C) (p : Pkt) : C :=
  if c.s.status ≠ .connecting then c.err eNotAllowed
  else
    let c := c.push (.send p none)
    if p.rc ≠ some 0 then
      let c := { c with s := { c.s with status := .disconnected } }
      (cancelTimers c).push .close
    else
      let c := { c with s := { c.s with status := .connected } }
      -- fix (C10): a CONNACK sent with session_present = false starts a new session
      sendPostProcess (if p.sp then sendStored c else clearStoreRelated c)

def connackSendProp (c : C) (id v : Nat) : C :=
  if id = pTAM then (if v ≠ 0 then { c with s := { c.s with tar := some { max := v } } } else c)
  else if id = pRM then { c with s := { c.s with recvMax := some v } }
  else if id = pMPS then { c with s := { c.s with mpsRecv := v } }
  else if id = pSKA then
    if v = 0 then
      let c := if c.s.recvSet then ({ c with s := { c.s with recvSet := false } }).push (.timerCancel .pingreqRecv) else c
      { c with s := { c.s with recvTimeoutMs := 0 } }
    else
      let t := v * 1000 * 3 / 2
      ({ c with s := { c.s with recvTimeoutMs := t, recvSet := true } }).push (.timerReset .pingreqRecv t)
  else c

def psV5Connack (c : C) (p : Pkt) : C :=
  if !sizeOk c p then c.err eTooLarge
  else if c.s.status ≠ .connecting then c.err eNotAllowed
  else
    let c := if p.rc = some 0 then propsFold connackSendProp c p.props else c
    let c := c.push (.send p none)
    if p.rc ≠ some 0 then
      let c := { c with s := { c.s with status := .disconnected } }
      (cancelTimers c).push .close
    else
      let c := { c with s := { c.s with status := .connected } }
      -- fix (C10): a CONNACK sent with session_present = false starts a new session
      sendPostProcess (if p.sp then sendStored c else clearStoreRelated c)

def storeAdd (c : C) (id : Nat) (p : Pkt) (site : String) : C :=
  if storeHas id c.s.store then c.setPanic site
  else { c with s := { c.s with store := c.s.store ++ [(id, p)] } }

/-- fix (finding #13): a QoS>0 PUBLISH is refused unless it is sent now or will be stored -/
def pubNotAllowed (s : St) : Bool :=
  s.status ≠ .connected ∧ !(s.needStore ∧ (s.status ≠ .disconnected ∨ s.offline))

def willStore (s : St) : Bool := s.needStore ∧ (s.status ≠ .disconnected ∨ s.offline)

def psV3Publish (c : C) (p : Pkt) : C :=
  if p.qos > 0 then
    match p.pid with
    | none => c.setPanic "core.rs:process_send_v3_1_1_publish:packet_id().unwrap()"
    | some id =>
      if pubNotAllowed c.s then releaseIfUsed (c.err eNotAllowed) id
      else if !isUsed c.s id then c.err ePidInvalid
      else
        let stored := willStore c.s
        let c := if stored then storeAdd c id { p with dup := true } "core.rs:process_send_v3_1_1_publish:store.add().unwrap()" else c
        let rel := if stored then none else some id
        let c := if p.qos = 2 then { c with s := { c.s with pubrec := ins id c.s.pubrec } }
                 else { c with s := { c.s with puback := ins id c.s.puback } }
        if c.s.status = .connected then sendPostProcess (c.push (.send p rel)) else c
  else if c.s.status ≠ .connected then c.err eNotAllowed
  else sendPostProcess (c.push (.send p none))

/-- the cleanup shared by the three refusal sites of `process_send_v5_0_publish` -/
def pubRefuseCleanup (c : C) (pid : Option Nat) : C :=
  match pid with
  | none => c
  | some id =>
    if isUsed c.s id then
      let c := releaseId c id
      let c := { c with s := { c.s with store := (storeErasePublish id c.s.store).2,
                                          puback := del id c.s.puback, pubrec := del id c.s.pubrec } }
      c.push (.released id)
    else c

def tasInsert (c : C) (topic : List Nat) (a : Nat) (site : String) : C :=
  match c.s.tas with
  | none => c
  | some t =>
    if topic.isEmpty ∨ a < 1 ∨ a > t.max then c.setPanic site
    else { c with s := { c.s with tas := some (t.insertOrUpdate topic a) } }

/-- the alias stage of `process_send_v5_0_publish` when the topic is non-empty and no alias
    was given: automatic mapping / replacement (only while connected).  fix (finding #12): a
    rewrite is applied only when the rewritten packet still fits the peer's maximum size. -/
def autoAlias (c : C) (p : Pkt) : C × Pkt :=
  if c.s.status = .connected then
    if c.s.autoMap then
      match c.s.tas with
      | some t =>
        match t.findByTopic p.topic with
        | some a =>
          let q := { p with topic := [], alias := some a }
          if sizeOk c q then (c, q) else (c, p)
        | none =>
          let a := t.lruAlias
          let q := { p with alias := some a }
          if sizeOk c q then (tasInsert c p.topic a "topic_alias_send.rs:insert_or_update:assert", q) else (c, p)
      | none => (c, p)
    else if c.s.autoReplace then
      match c.s.tas with
      | some t =>
        match t.findByTopic p.topic with
        | some a =>
          let q := { p with topic := [], alias := some a }
          if sizeOk c q then (c, q) else (c, p)
        | none => (c, p)
      | none => (c, p)
    else (c, p)
  else (c, p)

def psV5PublishTail (c : C) (p : Pkt) (rel : Option Nat) : C :=
  let c := if p.qos > 0 ∧ c.s.sendMax.isSome then
      (if c.s.sendCount ≥ 4294967295 then c.setPanic "core.rs:process_send_v5_0_publish:publish_send_count+=1" else c)
      |> fun c => { c with s := { c.s with sendCount := (c.s.sendCount + 1) % 4294967296 } }
    else c
  if c.s.status = .connected then sendPostProcess (c.push (.send p rel)) else c

/-- Receive Maximum stage (fix, findings #10/#11: `>=`, and *before* the alias table is
    touched), then the alias stage.  fix (finding #11b): an alias is registered only by a
    packet that is sent now. -/
def psV5PublishAlias (c : C) (p : Pkt) (rel : Option Nat) (validated : Bool) : C :=
  let blocked : Bool := decide (p.qos > 0) && (match c.s.sendMax with | some m => decide (c.s.sendCount ≥ m) | none => false)
  if blocked then pubRefuseCleanup (c.err eRMExceeded) p.pid
  else if p.topic.isEmpty then
    let r := if validated then (some [], c) else validateTopicAlias c p.alias
    if !validated ∧ r.1.isNone then pubRefuseCleanup (r.2.err eNotAllowed) p.pid
    else psV5PublishTail r.2 p rel
  else match p.alias with
    | some a =>
      if validateTopicAliasRange c.s a then
        let c := if c.s.status = .connected then tasInsert c p.topic a "topic_alias_send.rs:insert_or_update:assert" else c
        psV5PublishTail c p rel
      else pubRefuseCleanup (c.err eNotAllowed) p.pid
    | none =>
      let r := autoAlias c p
      psV5PublishTail r.1 r.2 rel

def psV5Publish (c : C) (p : Pkt) : C :=
  if !sizeOk c p then
    -- fix (finding #5): the identifier of a refused packet is released
    match p.pid with
    | some id => releaseIfUsed (c.err eTooLarge) id
    | none => c.err eTooLarge
  else if p.qos > 0 then
    match p.pid with
    | none => c.setPanic "core.rs:process_send_v5_0_publish:packet_id().unwrap()"
    | some id =>
      if pubNotAllowed c.s then releaseIfUsed (c.err eNotAllowed) id
      else if !isUsed c.s id then c.err ePidInvalid
      else if willStore c.s then
        if p.topic.isEmpty then
          let r := validateTopicAlias c p.alias
          match r.1 with
          | none => releaseIfUsed (r.2.err eNotAllowed) id
          | some t =>
            let c := r.2
            let c := if hasWildcard t then c.setPanic "core.rs:process_send_v5_0_publish:remove_topic_alias_add_topic().unwrap()" else c
            let c := storeAdd c id { p with topic := t, alias := none, dup := true } "core.rs:process_send_v5_0_publish:store.add().unwrap()"
            let c := if p.qos = 2 then { c with s := { c.s with pubrec := ins id c.s.pubrec } }
                     else { c with s := { c.s with puback := ins id c.s.puback } }
            psV5PublishAlias c p none true
        else
          let c := storeAdd c id { p with alias := none, dup := true } "core.rs:process_send_v5_0_publish:store.add().unwrap()"
          let c := if p.qos = 2 then { c with s := { c.s with pubrec := ins id c.s.pubrec } }
                   else { c with s := { c.s with puback := ins id c.s.puback } }
          psV5PublishAlias c p none false
      else
        let c := if p.qos = 2 then { c with s := { c.s with pubrec := ins id c.s.pubrec } }
                 else { c with s := { c.s with puback := ins id c.s.puback } }
        psV5PublishAlias c p (some id) false
  else if c.s.status ≠ .connected then c.err eNotAllowed
  else psV5PublishAlias c p none false

/-- PUBACK, PUBREC, PUBCOMP, SUBACK, UNSUBACK, PINGRESP (v3.1.1) -/
def psV3Simple (c : C) (p : Pkt) : C :=
  if c.s.status ≠ .connected then c.err eNotAllowed
  else sendPostProcess (c.push (.send p none))

/-- SUBACK, UNSUBACK, PINGRESP (v5.0) -/
def psV5Simple (c : C) (p : Pkt) : C :=
  if !sizeOk c p then c.err eTooLarge
  else if c.s.status ≠ .connected then c.err eNotAllowed
  else sendPostProcess (c.push (.send p none))

def psV5Puback (c : C) (p : Pkt) : C :=
  if !sizeOk c p then c.err eTooLarge
  else if c.s.status ≠ .connected then c.err eNotAllowed
  else
    let c := { c with s := { c.s with publishRecv := del (p.pid.getD 0) c.s.publishRecv } }
    sendPostProcess (c.push (.send p none))

def psV5Pubrec (c : C) (p : Pkt) : C :=
  if !sizeOk c p then c.err eTooLarge
  else if c.s.status ≠ .connected then c.err eNotAllowed
  else
    let id := p.pid.getD 0
    let failure : Bool := match p.rc with | some rc => decide (rc ≥ 0x80) | none => false
    let c := if failure then
        { c with s := { c.s with publishRecv := del id c.s.publishRecv, handled := del id c.s.handled } }
      else c
    sendPostProcess (c.push (.send p none))

def psV5Pubcomp (c : C) (p : Pkt) : C := psV5Puback c p

/-- fix (finding #14): PUBCOMP is always awaited once the PUBREL is accepted; the keep-alive
    timer is only touched when something is sent -/
def psPubrel (c : C) (p : Pkt) : C :=
  if p.ver = 5 ∧ !sizeOk c p then c.err eTooLarge
  else if c.s.status ≠ .connected ∧ !c.s.needStore then c.err eNotAllowed
  else
    let id := p.pid.getD 0
    if !isUsed c.s id then c.err ePidInvalid
    else
      let c := if c.s.needStore then storeAdd c id p "core.rs:process_send_pubrel:store.add().unwrap()" else c
      let c := { c with s := { c.s with pubcomp := ins id c.s.pubcomp } }
      if c.s.status = .connected then sendPostProcess (c.push (.send p none)) else c

def psSubUnsub (c : C) (p : Pkt) : C :=
  let id := p.pid.getD 0
  if p.ver = 5 ∧ !sizeOk c p then releaseIfUsed (c.err eTooLarge) id   -- fix (finding #5)
  else if c.s.status ≠ .connected then releaseIfUsed (c.err eNotAllowed) id
  else if !isUsed c.s id then c.err ePidInvalid
  else
    let c := if p.kind = .subscribe then { c with s := { c.s with suback := ins id c.s.suback } }
             else { c with s := { c.s with unsuback := ins id c.s.unsuback } }
    sendPostProcess (c.push (.send p (some id)))

def psPingreq (c : C) (p : Pkt) : C :=
  if p.ver = 5 ∧ !sizeOk c p then c.err eTooLarge
  else if c.s.status ≠ .connected then c.err eNotAllowed
  else
    let c := c.push (.send p none)
    let c := if c.s.respTimeoutMs ≠ 0 then
        ({ c with s := { c.s with respSet := true } }).push (.timerReset .pingrespRecv c.s.respTimeoutMs)
      else c
    sendPostProcess c

def psV5Auth (c : C) (p : Pkt) : C :=
  if !sizeOk c p then c.err eTooLarge
  else if c.s.status = .disconnected then c.err eNotAllowed
  else sendPostProcess (c.push (.send p none))

/-- dispatch to `process_send_<version>_<kind>` -/
def processSend (c : C) (p : Pkt) : C :=
  if p.ver = 4 then
    match p.kind with
    | .connect => psV3Connect c p
    | .connack => psV3Connack c p
    | .publish => psV3Publish c p
    | .pubrel => psPubrel c p
    | .subscribe | .unsubscribe => psSubUnsub c p
    | .pingreq => psPingreq c p
    | .disconnect => psV3Disconnect c p
    | .auth => c          -- no such packet
    | _ => psV3Simple c p
  else
    match p.kind with
    | .connect => psV5Connect c p
    | .connack => psV5Connack c p
    | .publish => psV5Publish c p
    | .puback => psV5Puback c p
    | .pubrec => psV5Pubrec c p
    | .pubrel => psPubrel c p
    | .pubcomp => psV5Pubcomp c p
    | .subscribe | .unsubscribe => psSubUnsub c p
    | .pingreq => psPingreq c p
    | .disconnect => psV5Disconnect c p
    | .auth => psV5Auth c p
    | _ => psV5Simple c p

/-- the run-time role check of `send` -/
def roleMaySend (r : Role) (p : Pkt) : Bool :=
  match p.kind with
  | .connect | .subscribe | .unsubscribe | .pingreq => r = .client ∨ r = .any
  | .connack | .suback | .unsuback | .pingresp => r = .server ∨ r = .any
  | .disconnect => if p.ver = 4 then (r = .client ∨ r = .any) else true
  | _ => true

/-- the identifier a packet that starts an exchange carries (QoS 1/2 PUBLISH, SUBSCRIBE,
    UNSUBSCRIBE): the application obtained it for this send -/
def initiatingId (p : Pkt) : Option Nat :=
  if p.kind = .publish ∨ p.kind = .subscribe ∨ p.kind = .unsubscribe then p.pid else none

/-- fix 1d0ef05: a send refused before it reaches its handler (version, role) releases the
    identifier obtained for it, like every other refusal -/
def refuseSend (c : C) (e : Nat) (p : Pkt) : C :=
  match initiatingId p with
  | some id => releaseIfUsed (c.err e) id
  | none => c.err e

/-- `send` -/
def send (c : C) (p : Pkt) : C :=
  if c.s.ver ≠ p.ver then refuseSend c eVersionMismatch p
  else if !roleMaySend c.cfg.role p then refuseSend c eNotAllowed p
  else processSend c p

/-! ## process_recv_* -/

def canReceive (cfg : Cfg) (s : St) (t : Nat) : Bool :=
  !((cfg.role = .client ∧ (t = 1 ∨ t = 8 ∨ t = 10 ∨ t = 12 ∨ (t = 14 ∧ s.ver = 4) ∨ (t = 15 ∧ s.ver = 4))) ∨
    (cfg.role = .server ∧ (t = 2 ∨ t = 9 ∨ t = 11 ∨ t = 13 ∨ (t = 15 ∧ s.ver = 4))))

def v3ConnectErrRc (e : Nat) : Nat :=
  if e = eClientId then 2 else if e = eBadUser then 4 else if e = eUnsupportedVersion then 1 else 5

def v5ConnectErrRc (e : Nat) : Nat :=
  if e = eClientId then 0x85 else if e = eBadUser then 0x86 else if e = eUnsupportedVersion then 0x84 else 0x80

def prV3Connect (c : C) (parsed : Except Nat Pkt) : C :=
  if c.s.status ≠ .disconnected then handleV3Error c eProtocol
  else
    let c := { c with s := { c.s with status := .connecting } }
    match parsed with
    | .ok p =>
      let c := initConn c false
      let c := if p.keepAlive > 0 then { c with s := { c.s with recvTimeoutMs := p.keepAlive * 1000 * 3 / 2 } } else c
      let c := if p.clean then clearStoreRelated c else { c with s := { c.s with needStore := true } }
      (refreshPingreqRecv c).push (.recv p)
    | .error e => (psV3Connack c (mkV3Connack (v3ConnectErrRc e))).err e

def connectRecvProp (c : C) (id v : Nat) : C :=
  if id = pTAM then (if v ≠ 0 then { c with s := { c.s with tas := some (TAS.new v) } } else c)  -- fix: finding #7
  else if id = pRM then { c with s := { c.s with sendMax := some v } }
  else if id = pMPS then { c with s := { c.s with mpsSend := v } }
  else if id = pSEI then (if v ≠ 0 then { c with s := { c.s with needStore := true } } else c)
  else c

def prV5Connect (c : C) (parsed : Except Nat Pkt) : C :=
  if c.s.status ≠ .disconnected then handleV5Error c eProtocol
  else
    let c := { c with s := { c.s with status := .connecting } }
    match parsed with
    | .ok p =>
      let c := initConn c false
      let c := if p.keepAlive > 0 then { c with s := { c.s with recvTimeoutMs := p.keepAlive * 1000 * 3 / 2 } } else c
      let c := if p.clean then clearStoreRelated c else c
      let c := propsFold connectRecvProp c p.props
      (refreshPingreqRecv c).push (.recv p)
    | .error e => (psV5Connack c (mkV5Connack (v5ConnectErrRc e))).err e

/-- fix (finding #4): a CONNACK on an established connection is a protocol error -/
def isSendEv : Ev → Bool
  | .send _ _ => true
  | _ => false

/-- fix 999e935: the retransmission of stored packets on a received CONNACK is a send: when at
    least one packet was requested again, the client's PINGREQ timer restarts -/
def resendStored (c : C) : C :=
  let c' := sendStored c
  if (c'.ev.drop c.ev.length).any isSendEv then sendPostProcess c' else c'

def prV3Connack (c : C) (parsed : Except Nat Pkt) : C :=
  if c.s.status = .connected then handleV3Error c eProtocol
  else match parsed with
    | .ok p =>
      let c := if p.rc = some 0 then
          let c := { c with s := { c.s with status := .connected } }
          if p.sp then resendStored c else clearStoreRelated c
        else c
      c.push (.recv p)
    | .error e => handleV3Error c e

def connackRecvProp (c : C) (id v : Nat) : C :=
  if id = pTAM then (if v > 0 then { c with s := { c.s with tas := some (TAS.new v) } } else c)
  else if id = pRM then
    (if v = 0 then c.setPanic "core.rs:process_recv_v5_0_connack:assert!(ReceiveMaximum != 0)" else c)
    |> fun c => { c with s := { c.s with sendMax := some v } }
  else if id = pMPS then
    (if v = 0 then c.setPanic "core.rs:process_recv_v5_0_connack:assert!(MaximumPacketSize != 0)" else c)
    |> fun c => { c with s := { c.s with mpsSend := v } }
  else if id = pSKA then
    let ms := v * 1000
    let c := { c with s := { c.s with serverKeepAliveMs := some ms } }
    if c.s.userInterval.isNone then
      if ms = 0 then
        if c.s.sendSet then ({ c with s := { c.s with sendSet := false } }).push (.timerCancel .pingreqSend) else c
      else ({ c with s := { c.s with sendSet := true } }).push (.timerReset .pingreqSend ms)
    else c
  else if id = pSEI then
    if v = 0 then clearStoreRelated { c with s := { c.s with needStore := false } }
    else { c with s := { c.s with needStore := true } }
  else c

def prV5Connack (c : C) (parsed : Except Nat Pkt) : C :=
  if c.s.status = .connected then handleV5Error c eProtocol
  else match parsed with
    | .ok p =>
      let c := if p.rc = some 0 then
          let c := { c with s := { c.s with status := .connected } }
          let c := propsFold connackRecvProp c p.props
          if p.sp then resendStored c else clearStoreRelated c
        else c
      c.push (.recv p)
    | .error e => if c.s.status = .connected then handleV5Error c e else c.err e

def prV3Publish (c : C) (parsed : Except Nat Pkt) : C :=
  match parsed with
  | .error e => handleV3Error c e
  | .ok p =>
    if p.qos = 0 then (refreshPingreqRecv c).push (.recv p)
    else match p.pid with
      | none => c.setPanic "core.rs:process_recv_v3_1_1_publish:packet_id().unwrap()"
      | some id =>
        if p.qos = 1 then
          let c := if c.s.status = .connected ∧ c.s.autoPub then
              (if id = 0 then c.setPanic "core.rs:process_recv_v3_1_1_publish:puback.build().unwrap()" else c)
              |> fun c => psV3Simple c (mkAck c.cfg 4 .puback id)
            else c
          (refreshPingreqRecv c).push (.recv p)
        else
          let already := id ∈ c.s.handled
          let c := { c with s := { c.s with handled := ins id c.s.handled } }
          let c := if c.s.status = .connected ∧ (c.s.autoPub ∨ already) then
              (if id = 0 then c.setPanic "core.rs:process_recv_v3_1_1_publish:pubrec.build().unwrap()" else c)
              |> fun c => psV3Simple c (mkAck c.cfg 4 .pubrec id)
            else c
          let c := refreshPingreqRecv c
          if !already then c.push (.recv p) else c

/-- the topic-alias stage of `process_recv_v5_0_publish`; `none` = error already handled -/
def prV5PublishAlias (c : C) (p : Pkt) : C × Option Pkt :=
  let rangeBad (a : Nat) : Bool := match c.s.tar with
    | none => true
    | some t => a = 0 ∨ a > t.max
  if p.topic.isEmpty then
    match p.alias with
    | none => (handleV5Error c eAliasInvalid, none)
    | some a =>
      if rangeBad a then (handleV5Error c eAliasInvalid, none)
      else match c.s.tar with
        | none => (c, some p)
        | some t =>
          match t.get a with
          | some topic =>
            -- `add_extracted_topic_name` refuses a bound topic containing a wildcard (the
            -- parser lets such topics into the table): reported as Topic Alias invalid
            if hasWildcard topic then (handleV5Error c eAliasInvalid, none)
            else (c, some { p with topic := topic, extracted := true })
          | none => (handleV5Error c eAliasInvalid, none)
  else match p.alias with
    | none => (c, some p)
    | some a =>
      if rangeBad a then (handleV5Error c eAliasInvalid, none)
      else match c.s.tar with
        | none => (c, some p)
        | some t => ({ c with s := { c.s with tar := some (t.insertOrUpdate p.topic a) } }, some p)

/-- fix (finding #19): the alias stage runs first; flow-control and duplicate bookkeeping
    only for a PUBLISH that passed it -/
def prV5Publish (c : C) (parsed : Except Nat Pkt) : C :=
  match parsed with
  | .error e => if c.s.status = .connected then handleV5Error c e else c.err e
  | .ok p =>
    let r := prV5PublishAlias c p
    match r.2 with
    | none => r.1
    | some p' =>
      let c := r.1
      let rmExceeded : Bool := match c.s.recvMax with
        | some m => decide (c.s.publishRecv.length ≥ m)
        | none => false
      if p.qos > 0 ∧ p.pid.isNone then c.setPanic "core.rs:process_recv_v5_0_publish:packet_id().unwrap()"
      else if p.qos > 0 ∧ rmExceeded then handleV5Error c eRMExceeded
      else
        let id := p.pid.getD 0
        let already := p.qos = 2 ∧ id ∈ c.s.handled
        let c := if p.qos > 0 then { c with s := { c.s with publishRecv := ins id c.s.publishRecv } } else c
        let c := if p.qos = 2 then { c with s := { c.s with handled := ins id c.s.handled } } else c
        let pubackSend := p.qos = 1 ∧ c.s.autoPub ∧ c.s.status = .connected
        let pubrecSend := p.qos = 2 ∧ c.s.status = .connected ∧ (c.s.autoPub ∨ already)
        let c := if pubackSend then
            (if id = 0 then c.setPanic "core.rs:process_recv_v5_0_publish:puback.build().unwrap()" else c)
            |> fun c => psV5Puback c (mkAck c.cfg 5 .puback id)
          else c
        let c := if pubrecSend then
            (if id = 0 then c.setPanic "core.rs:process_recv_v5_0_publish:pubrec.build().unwrap()" else c)
            |> fun c => psV5Pubrec c (mkAck c.cfg 5 .pubrec id)
          else c
        let c := refreshPingreqRecv c
        if !already then c.push (.recv p') else c

def vErr (c : C) (e : Nat) : C := if c.s.ver = 4 then handleV3Error c e else handleV5Error c e

def prPuback (c : C) (parsed : Except Nat Pkt) : C :=
  match parsed with
  | .error e => vErr c e
  | .ok p =>
    let id := p.pid.getD 0
    if id ∈ c.s.puback then
      let c := { c with s := { c.s with puback := del id c.s.puback,
                                          store := storeErase p.ver .puback id c.s.store } }
      let c := releaseIfUsed c id
      let c := if p.ver = 5 then decSendCount c else c
      (refreshPingreqRecv c).push (.recv p)
    else vErr c eProtocol

def prPubrec (c : C) (parsed : Except Nat Pkt) : C :=
  match parsed with
  | .error e => vErr c e
  | .ok p =>
    let id := p.pid.getD 0
    if id ∈ c.s.pubrec then
      let c := { c with s := { c.s with pubrec := del id c.s.pubrec,
                                          store := storeErase p.ver .pubrec id c.s.store } }
      let success := p.ver = 4 ∨ p.rc = none ∨ p.rc = some 0
      let c := if success then
          (if c.s.autoPub ∧ c.s.status = .connected then psPubrel c (mkAck c.cfg p.ver .pubrel id) else c)
        else decSendCount (releaseIfUsed c id)
      (refreshPingreqRecv c).push (.recv p)
    else vErr c eProtocol

def prPubrel (c : C) (parsed : Except Nat Pkt) : C :=
  match parsed with
  | .error e => vErr c e
  | .ok p =>
    let id := p.pid.getD 0
    let removed := id ∈ c.s.handled
    let c := { c with s := { c.s with handled := del id c.s.handled } }
    let c := if c.s.autoPub ∧ c.s.status = .connected then
        if p.ver = 4 then psV3Simple c (mkAck c.cfg 4 .pubcomp id)
        else if removed then psV5Pubcomp c (mkAck c.cfg 5 .pubcomp id)
        else psV5Pubcomp c (mkV5PubcompRc c.cfg id 0x92)
      else c
    (refreshPingreqRecv c).push (.recv p)

def prPubcomp (c : C) (parsed : Except Nat Pkt) : C :=
  match parsed with
  | .error e => vErr c e
  | .ok p =>
    let id := p.pid.getD 0
    if id ∈ c.s.pubcomp then
      let c := { c with s := { c.s with pubcomp := del id c.s.pubcomp,
                                          store := storeErase p.ver .pubcomp id c.s.store } }
      let c := releaseIfUsed c id
      let c := if p.ver = 5 then decSendCount c else c
      (refreshPingreqRecv c).push (.recv p)
    else vErr c eProtocol

/-- SUBSCRIBE, UNSUBSCRIBE, AUTH -/
def prPlain (c : C) (parsed : Except Nat Pkt) : C :=
  match parsed with
  | .error e => vErr c e
  | .ok p => (refreshPingreqRecv c).push (.recv p)

def prSubUnsuback (c : C) (isSub : Bool) (parsed : Except Nat Pkt) : C :=
  match parsed with
  | .error e => vErr c e
  | .ok p =>
    let id := p.pid.getD 0
    let set := if isSub then c.s.suback else c.s.unsuback
    if id ∈ set then
      let c := if isSub then { c with s := { c.s with suback := del id c.s.suback } }
               else { c with s := { c.s with unsuback := del id c.s.unsuback } }
      let c := releaseIfUsed c id
      (refreshPingreqRecv c).push (.recv p)
    else vErr c eProtocol

def prPingreq (c : C) (parsed : Except Nat Pkt) : C :=
  match parsed with
  | .error e => vErr c e
  | .ok p =>
    let c := if (c.cfg.role = .server ∨ c.cfg.role = .any) ∧ !c.s.isClient ∧ c.s.autoPing ∧ c.s.status = .connected then
        (if p.ver = 4 then psV3Simple c (mkPingresp 4) else psV5Simple c (mkPingresp 5))
      else c
    (refreshPingreqRecv c).push (.recv p)

def prPingresp (c : C) (parsed : Except Nat Pkt) : C :=
  match parsed with
  | .error e => vErr c e
  | .ok p =>
    let c := if c.s.respSet then ({ c with s := { c.s with respSet := false } }).push (.timerCancel .pingrespRecv) else c
    c.push (.recv p)

def prDisconnect (c : C) (parsed : Except Nat Pkt) : C :=
  match parsed with
  | .error e => vErr c e
  | .ok p => (cancelTimers c).push (.recv p)

def dispatchRecv (c : C) (t : Nat) (parsed : Except Nat Pkt) : C :=
  match t with
  | 1 => if c.s.ver = 4 then prV3Connect c parsed else prV5Connect c parsed
  | 2 => if c.s.ver = 4 then prV3Connack c parsed else prV5Connack c parsed
  | 3 => if c.s.ver = 4 then prV3Publish c parsed else prV5Publish c parsed
  | 4 => prPuback c parsed
  | 5 => prPubrec c parsed
  | 6 => prPubrel c parsed
  | 7 => prPubcomp c parsed
  | 8 => prPlain c parsed
  | 9 => prSubUnsuback c true parsed
  | 10 => prPlain c parsed
  | 11 => prSubUnsuback c false parsed
  | 12 => prPingreq c parsed
  | 13 => prPingresp c parsed
  | 14 => prDisconnect c parsed
  | 15 => if c.s.ver = 5 then prPlain c parsed else c.err eMalformed
  | _ => c.err eMalformed

/-- `process_recv_packet`.  `parse v` is the L1 parser applied to this raw frame for protocol
    version `v` (supplied by the caller: the harness's oracle, or `Codec.parse`). -/
def processRecvPacket (c : C) (fh : Nat) (data : List Nat) (parse : Nat → Except Nat Pkt) : C :=
  if totalSize data.length > c.s.mpsRecv then
    (v5DisconnectOrClose c (mkV5Disconnect eTooLarge)).err eTooLarge
  else
    let t := fh / 16
    if !canReceive c.cfg c.s t then c.err eProtocol
    else if c.s.ver = 0 then
      if t = 1 then
        if data.length < 7 then c.err eMalformed
        else
          let lvl := data.getD 6 0
          if lvl = 4 then prV3Connect { c with s := { c.s with ver := 4 } } (parse 4)
          else if lvl = 5 then prV5Connect { c with s := { c.s with ver := 5 } } (parse 5)
          else c.err eUnsupportedVersion
      else c.err eMalformed
    else dispatchRecv c t (parse c.s.ver)

/-- `recv`: one call of `PacketBuilder::feed`, then the packet handler.  Returns the unread
    rest of the buffer as well. -/
def recv (c : C) (inp : List Nat) (parse : Nat → Nat → List Nat → Except Nat Pkt) : C × List Nat :=
  let (pb, out, rest) := Framing.feed c.s.pb inp
  let c := { c with s := { c.s with pb := pb } }
  match out with
  | none => (c, rest)
  | some (.complete fh data) => (processRecvPacket c fh data (fun v => parse v fh data), rest)
  | some .error => (((cancelTimers c).push .close).err eMalformed, rest)

/-! ## the remaining public calls -/

def notifyTimerFired (c : C) (k : Timer) : C :=
  match k with
  | .pingreqSend =>
    let c := { c with s := { c.s with sendSet := false } }
    if c.s.status = .connected then
      if c.s.ver = 4 then psPingreq c (mkPingreq 4)
      else if c.s.ver = 5 then psPingreq c (mkPingreq 5)
      else c.setPanic "core.rs:notify_timer_fired:unreachable!(undetermined)"
    else c
  | .pingreqRecv | .pingrespRecv =>
    let c := if k = .pingreqRecv then { c with s := { c.s with recvSet := false } }
             else { c with s := { c.s with respSet := false } }
    if c.s.ver = 4 then c.push .close
    else if c.s.ver = 5 then
      if c.s.status = .connected then
        -- fix (finding #17): a keep-alive timeout always ends in a close request
        v5DisconnectOrClose c (mkV5Disconnect eKeepAliveTimeout)
      else c
    else c.setPanic "core.rs:notify_timer_fired:unreachable!(undetermined)"

def releaseAll (c : C) : List Nat → C
  | [] => c
  | id :: rest => releaseAll (releaseIfUsed c id) rest

/-- `notify_closed`; fix (finding #1): a partially received frame is discarded -/
def notifyClosed (c : C) : C :=
  let c := { c with s := { c.s with mpsSend := noLimit, mpsRecv := noLimit, status := .disconnected,
                                      tas := none, tar := none } }
  let sub := c.s.suback
  let c := releaseAll { c with s := { c.s with suback := [] } } sub
  let unsub := c.s.unsuback
  let c := releaseAll { c with s := { c.s with unsuback := [] } } unsub
  let c := if !c.s.needStore then
      let c := { c with s := { c.s with handled := [] } }
      let a := c.s.puback
      let c := releaseAll { c with s := { c.s with puback := [] } } a
      let b := c.s.pubrec
      let c := releaseAll { c with s := { c.s with pubrec := [] } } b
      let d := c.s.pubcomp
      let c := releaseAll { c with s := { c.s with pubcomp := [] } } d
      { c with s := { c.s with store := [] } }     -- fix: the stored packets go with the ids
    else c
  let c := { c with s := { c.s with pb := Framing.PB.reset } }
  cancelTimers c

def setPingreqSendInterval (c : C) (d : Option Nat) : C :=
  let c := { c with s := { c.s with userInterval := d } }
  match d with
  | none => c
  | some ms =>
    if ms = 0 then
      if c.s.sendSet then ({ c with s := { c.s with sendSet := false } }).push (.timerCancel .pingreqSend) else c
    else if c.s.status = .connected then
      ({ c with s := { c.s with sendSet := true } }).push (.timerReset .pingreqSend ms)
    else c

def vacancy (s : St) : Option Nat := s.sendMax.map (fun m => m - s.sendCount)

def acquire (c : C) : Option Nat × C :=
  let r := Alloc.allocate c.s.pidMan
  (r.1, { c with s := { c.s with pidMan := r.2 } })

def register (c : C) (id : Nat) : Bool × C :=
  let r := Alloc.useValue c.s.pidMan id
  (r.1, { c with s := { c.s with pidMan := r.2 } })

/-- `release_packet_id`; fix ba1a812: the exchange the identifier was obtained for is abandoned
    with it — no wait set keeps the identifier, and an abandoned PUBLISH no longer counts -/
def releasePacketId (c : C) (id : Nat) : C :=
  if isUsed c.s id then
    let c := (releaseId c id).push (.released id)
    let awaited := id ∈ c.s.puback ∨ id ∈ c.s.pubrec
    let c := { c with s := { c.s with suback := del id c.s.suback, unsuback := del id c.s.unsuback,
                                      puback := del id c.s.puback, pubrec := del id c.s.pubrec } }
    if awaited then decSendCount c else c
  else c

def eraseStoredPublish (c : C) (id : Nat) : C :=
  let r := storeErasePublish id c.s.store
  if r.1 then
    let c := { c with s := { c.s with store := r.2, puback := del id c.s.puback, pubrec := del id c.s.pubrec } }
    releaseIfUsed (decSendCount c) id
  else c

/-- `restore_packets`; fix (finding #24): the wait-set entry is made only for an entry whose
    packet id could be registered -/
def restoreOne (c : C) (p : Pkt) : C :=
  if p.kind = .publish ∧ p.qos = 0 then c
  else
    let id := p.pid.getD 0
    let r := register c id
    if r.1 then
      let c := r.2
      let c := if p.kind = .pubrel then { c with s := { c.s with pubcomp := ins id c.s.pubcomp } }
               else if p.qos = 2 then { c with s := { c.s with pubrec := ins id c.s.pubrec } }
               else { c with s := { c.s with puback := ins id c.s.puback } }
      (if storeHas id c.s.store then c else { c with s := { c.s with store := c.s.store ++ [(id, p)] } })
    else r.2

def restorePackets (c : C) : List Pkt → C
  | [] => c
  | p :: rest => restorePackets (restoreOne c p) rest

/-- `regulate_for_store` -/
def regulateForStore (s : St) (p : Pkt) : Except Nat Pkt :=
  if p.topic.isEmpty then
    match p.alias, s.tas with
    | some a, some t =>
      match t.peek a with
      | some topic => if hasWildcard topic then .error eMalformed else .ok { p with topic := topic, alias := none }
      | none => .error eNotRegulated
    | _, _ => .error eNotRegulated
  else .ok { p with alias := none }

end MqttVerif.Conn
