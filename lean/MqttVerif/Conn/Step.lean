import MqttVerif.Conn.Model
/-!
# L2 — the public API as one step function

`Op` = every public call of `GenericConnection`.  A `recv` carries the L1 parser as a
parameter (`parse version fixedHeader body`): theorems quantified over *every* `parse`
hold for whatever the real parsers return, i.e. for arbitrary peer bytes.
-/
namespace MqttVerif.Conn

inductive Flag | offline | autoPub | autoPing | autoMap | autoReplace
deriving DecidableEq, Repr

inductive Op
  | send (p : Pkt)
  | recv (inp : List Nat) (parse : Nat → Nat → List Nat → Except Nat Pkt)
  | timer (k : Timer)
  | closed
  | setInterval (d : Option Nat)
  | setFlag (f : Flag) (b : Bool)
  | setRespTimeout (ms : Nat)
  | acquire
  | register (id : Nat)
  | release (id : Nat)
  | erase (id : Nat)
  | restoreHandled (ids : List Nat)
  | restorePackets (ps : List Pkt)

def setFlag (s : St) (f : Flag) (b : Bool) : St :=
  match f with
  | .offline => { s with offline := b, needStore := if b then true else s.needStore }
  | .autoPub => { s with autoPub := b }
  | .autoPing => { s with autoPing := b }
  | .autoMap => { s with autoMap := b }
  | .autoReplace => { s with autoReplace := b }

/-- one API call: the events of the call are those pushed onto an empty list -/
def step (cfg : Cfg) (s : St) (op : Op) : C :=
  let c : C := { cfg := cfg, s := s }
  match op with
  | .send p => send c p
  | .recv inp parse => (recv c inp parse).1
  | .timer k => notifyTimerFired c k
  | .closed => notifyClosed c
  | .setInterval d => setPingreqSendInterval c d
  | .setFlag f b => { c with s := setFlag s f b }
  | .setRespTimeout ms => { c with s := { s with respTimeoutMs := ms } }
  | .acquire => (acquire c).2
  | .register id => (register c id).2
  | .release id => releasePacketId c id
  | .erase id => eraseStoredPublish c id
  | .restoreHandled ids => { c with s := { s with handled := ids.foldl (fun acc x => ins x acc) [] } }
  | .restorePackets ps => restorePackets c ps

/-- state after a sequence of calls -/
def run (cfg : Cfg) (s : St) : List Op → St
  | [] => s
  | op :: ops => run cfg (step cfg s op).s ops

/-- all event lists produced along a sequence of calls -/
def runEvents (cfg : Cfg) (s : St) : List Op → List (List Ev)
  | [] => []
  | op :: ops => (step cfg s op).ev :: runEvents cfg (step cfg s op).s ops

/-- states reachable from a fresh connection object by any sequence of calls -/
def Reachable (cfg : Cfg) (ver : Nat) (s : St) : Prop := ∃ ops, run cfg (St.init cfg ver) ops = s

end MqttVerif.Conn
