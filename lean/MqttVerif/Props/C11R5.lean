import MqttVerif.Conn.Step
/-!
# C11 (round 5) — `PacketTooLarge` is only reported against the limit in force

Driver monitor `VIOL sig=C11 refused_by_stale_limit@<site>` (= `C14 refused_within_limit`): a send
refused with `PacketTooLarge` although the peer's Maximum Packet Size in force is (well) above the
packet's size.  The guard the model uses is `sizeOk c p = !(p.sz c.cfg.pw > c.s.mpsSend)`
(`Conn.tooLarge` / `C11.tooLarge` in Props/C11: `p.ver = 5 ∧ p.sz pw > mpsSend`), where `p.sz` is
`p.size` except for a v5.0 PUBLISH, whose size is derived from its parts (`Pkt.pubSize`).

For **every** context `c` (any state, reachable or not) and **every** packet `p`:

* `C11_too_large_needs_limit` — if the events of `send c p` contain `NotifyError(PacketTooLarge)`
  and those pushed before the call do not, then `p.sz c.cfg.pw > c.s.mpsSend`, `c.s.ver = p.ver`
  and `p.ver ≠ 4` (a v3.1.1 packet is never refused for its size); the limit compared against is the
  field's value **before** the call;
* `C11_too_large_needs_limit_step` — the same for the API call `step cfg s (.send p)`;
* `C11_no_limit_no_too_large` — with `mpsSend = noLimit` (the value after `notify_closed`,
  `C14_closed_resets_send_limit` in Props/C14R5, and on a fresh object) a packet of size
  `≤ noLimit = 268435461` is never refused as too large.

Self-contained (imports the model only).
-/
set_option linter.unusedVariables false
set_option linter.unusedSimpArgs false
namespace MqttVerif.Conn
open MqttVerif

/-- `NotifyError(PacketTooLarge)` is among the events -/
def r5_tl (l : List Ev) : Bool := l.any (fun e => e == Ev.error eTooLarge)

def r5_E (c : C) : Bool := r5_tl c.ev

theorem r5_tl_iff (l : List Ev) : r5_tl l = true ↔ Ev.error eTooLarge ∈ l := by
  simp [r5_tl]

theorem r5_ite_E (p : Prop) {_ : Decidable p} (a b : C) :
    r5_E (if p then a else b) = if p then r5_E a else r5_E b := apply_ite _ _ _ _

theorem r5_E_push (c : C) (e : Ev) (h : e ≠ .error eTooLarge) : r5_E (c.push e) = r5_E c := by
  simp [r5_E, r5_tl, C.push, h]

@[simp] theorem r5_E_push_send (c : C) (p r) : r5_E (c.push (.send p r)) = r5_E c := r5_E_push c _ (by simp)
@[simp] theorem r5_E_push_recv (c : C) (p) : r5_E (c.push (.recv p)) = r5_E c := r5_E_push c _ (by simp)
@[simp] theorem r5_E_push_rel (c : C) (i) : r5_E (c.push (.released i)) = r5_E c := r5_E_push c _ (by simp)
@[simp] theorem r5_E_push_tr (c : C) (k ms) : r5_E (c.push (.timerReset k ms)) = r5_E c := r5_E_push c _ (by simp)
@[simp] theorem r5_E_push_tc (c : C) (k) : r5_E (c.push (.timerCancel k)) = r5_E c := r5_E_push c _ (by simp)
@[simp] theorem r5_E_push_close (c : C) : r5_E (c.push .close) = r5_E c := r5_E_push c _ (by simp)
@[simp] theorem r5_E_err_na (c : C) : r5_E (c.err eNotAllowed) = r5_E c := r5_E_push c _ (by decide)
@[simp] theorem r5_E_err_pi (c : C) : r5_E (c.err ePidInvalid) = r5_E c := r5_E_push c _ (by decide)
@[simp] theorem r5_E_err_rm (c : C) : r5_E (c.err eRMExceeded) = r5_E c := r5_E_push c _ (by decide)
@[simp] theorem r5_E_err_vm (c : C) : r5_E (c.err eVersionMismatch) = r5_E c := r5_E_push c _ (by decide)
@[simp] theorem r5_E_setPanic (c : C) (x : String) : r5_E (c.setPanic x) = r5_E c := rfl

theorem r5_E_eq_of {c c' : C} (h : c'.ev = c.ev) : r5_E c' = r5_E c := by simp [r5_E, h]

macro "r5e1" : tactic =>
  `(tactic| first
      | rfl
      | (simp [r5_ite_E]; done)
      | (simp [r5_ite_E, *]; done)
      | (simp_all [r5_ite_E]; done)
      | (simp [r5_E, r5_tl, C.push, C.err, C.setPanic]; done)
      | (simp_all [r5_E, r5_tl, C.push, C.err, C.setPanic]; done))

macro "r5e" : tactic =>
  `(tactic| first
      | r5e1
      | ((repeat' (first | split | (simp only []; split))) <;> r5e1))

@[simp] theorem r5_E_cancelTimers (c : C) : r5_E (cancelTimers c) = r5_E c := by
  cases h1 : c.s.sendSet <;> cases h2 : c.s.recvSet <;> cases h3 : c.s.respSet <;>
    simp [cancelTimers, h1, h2, h3, r5_E, r5_tl, C.push]
@[simp] theorem r5_E_sendPostProcess (c : C) : r5_E (sendPostProcess c) = r5_E c := by
  unfold sendPostProcess
  split
  · extract_lets ms
    split
    · exact r5_E_push_tr _ _ _
    · rfl
  · rfl
@[simp] theorem r5_E_releaseId (c : C) (id : Nat) : r5_E (releaseId c id) = r5_E c := by
  unfold releaseId; simp only []; split <;> rfl
@[simp] theorem r5_E_releaseIfUsed (c : C) (id : Nat) : r5_E (releaseIfUsed c id) = r5_E c := by
  unfold releaseIfUsed; split <;> simp
@[simp] theorem r5_E_storeAdd (c : C) (id : Nat) (q : Pkt) (x : String) : r5_E (storeAdd c id q x) = r5_E c := by
  unfold storeAdd; split <;> rfl
@[simp] theorem r5_E_tasInsert (c : C) (t : List Nat) (a : Nat) (x : String) :
    r5_E (tasInsert c t a x) = r5_E c := by
  unfold tasInsert; (repeat' split) <;> rfl
@[simp] theorem r5_E_validateTopicAlias (c : C) (ao : Option Nat) : r5_E (validateTopicAlias c ao).2 = r5_E c := by
  unfold validateTopicAlias; (repeat' split) <;> rfl
@[simp] theorem r5_E_autoAlias (c : C) (p : Pkt) : r5_E (autoAlias c p).1 = r5_E c := by
  unfold autoAlias; (repeat' (first | split | (simp only []; split))) <;> simp
@[simp] theorem r5_E_pubRefuseCleanup (c : C) (pid : Option Nat) : r5_E (pubRefuseCleanup c pid) = r5_E c := by
  unfold pubRefuseCleanup
  split
  · rfl
  · split
    · simp only []
      rw [r5_E_push_rel]
      exact (r5_E_eq_of rfl).trans (r5_E_releaseId c _)
    · rfl
@[simp] theorem r5_E_connectSendProp (c : C) (id v : Nat) : r5_E (connectSendProp c id v) = r5_E c := by
  unfold connectSendProp; (repeat' split) <;> rfl
@[simp] theorem r5_E_connackSendProp (c : C) (id v : Nat) : r5_E (connackSendProp c id v) = r5_E c := by
  unfold connackSendProp; r5e
theorem r5_E_propsFold (f : C → Nat → Nat → C) (hf : ∀ c id v, r5_E (f c id v) = r5_E c)
    (l : List (Nat × Nat)) : ∀ c, r5_E (propsFold f c l) = r5_E c := by
  induction l with
  | nil => intro c; rfl
  | cons x rest ih => intro c; obtain ⟨i, v⟩ := x; rw [propsFold, ih, hf]
@[simp] theorem r5_E_fold_connectSendProp (c : C) (l) : r5_E (propsFold connectSendProp c l) = r5_E c :=
  r5_E_propsFold _ r5_E_connectSendProp l c
@[simp] theorem r5_E_fold_connackSendProp (c : C) (l) : r5_E (propsFold connackSendProp c l) = r5_E c :=
  r5_E_propsFold _ r5_E_connackSendProp l c

theorem r5_E_sendStoredLoop (l : List (Nat × Pkt)) : ∀ c, r5_E (sendStoredLoop c l).1 = r5_E c := by
  induction l with
  | nil => intro c; rfl
  | cons x rest ih =>
    intro c
    obtain ⟨id, p⟩ := x
    unfold sendStoredLoop
    split
    · simp only []; rw [ih, r5_E_releaseIfUsed]; rfl
    · simp only []; rw [ih]
      by_cases h1 : c.s.sendMax.isSome = true <;> by_cases h2 : c.s.sendCount ≥ 4294967295 <;>
        simp [h1, h2, r5_E, r5_tl, C.push, C.setPanic]
@[simp] theorem r5_E_sendStored (c : C) : r5_E (sendStored c) = r5_E c := by
  unfold sendStored
  simp only []
  show r5_E (sendStoredLoop _ _).1 = _
  rw [r5_E_sendStoredLoop]; split <;> rfl
@[simp] theorem r5_E_clearStoreRelated (c : C) : r5_E (clearStoreRelated c) = r5_E c := rfl
@[simp] theorem r5_E_initConn (c : C) (b : Bool) : r5_E (initConn c b) = r5_E c := rfl

/-! ## the handlers: `PacketTooLarge` only from the size guard -/

/-- outcome of a send handler: it did not add `PacketTooLarge`, or the packet failed the size
    guard against the limit in `c` -/
def r5_TL (c : C) (p : Pkt) (c' : C) : Prop := r5_E c' = r5_E c ∨ sizeOk c p = false

theorem r5_TL.frame {c c' : C} {p : Pkt} (h : r5_E c' = r5_E c) : r5_TL c p c' := .inl h
theorem r5_TL.guard {c : C} {p : Pkt} (c' : C) (h : (!sizeOk c p) = true) : r5_TL c p c' :=
  .inr (by simpa using h)
/-- the handlers shared by both versions test the size only for a v5.0 packet -/
def r5_TL5 (c : C) (p : Pkt) (c' : C) : Prop := r5_E c' = r5_E c ∨ (p.ver = 5 ∧ sizeOk c p = false)
theorem r5_TL5.frame {c c' : C} {p : Pkt} (h : r5_E c' = r5_E c) : r5_TL5 c p c' := .inl h
theorem r5_TL5.guard5 {c : C} {p : Pkt} (c' : C) (h : p.ver = 5 ∧ (!sizeOk c p) = true) : r5_TL5 c p c' :=
  .inr ⟨h.1, by simpa using h.2⟩
theorem r5_TL5.tl {c c' : C} {p : Pkt} (h : r5_TL5 c p c') : r5_TL c p c' := by
  rcases h with h | h
  · exact .inl h
  · exact .inr h.2
theorem r5_TL5.v4 {c c' : C} {p : Pkt} (h : r5_TL5 c p c') (h4 : p.ver = 4) : r5_E c' = r5_E c := by
  rcases h with h | h
  · exact h
  · omega

theorem r5_psV5PublishTail (c : C) (p : Pkt) (rel) : r5_E (psV5PublishTail c p rel) = r5_E c := by
  unfold psV5PublishTail
  extract_lets c1
  have h1 : r5_E c1 = r5_E c := by
    simp only [c1]; split
    · split <;> rfl
    · rfl
  split
  · simp [h1]
  · exact h1

theorem r5_psV5PublishAlias (c : C) (p : Pkt) (rel) (v : Bool) :
    r5_E (psV5PublishAlias c p rel v) = r5_E c := by
  unfold psV5PublishAlias
  extract_lets blocked r ra
  split
  · simp
  split
  · have hr : r5_E r.2 = r5_E c := by
      simp only [r]; split
      · rfl
      · exact r5_E_validateTopicAlias c p.alias
    split
    · simp [hr]
    · rw [r5_psV5PublishTail]; exact hr
  · split
    · split
      · rw [r5_psV5PublishTail]; split
        · exact r5_E_tasInsert _ _ _ _
        · rfl
      · simp
    · rw [r5_psV5PublishTail]; exact r5_E_autoAlias c p

theorem r5_psV5Publish (c : C) (p : Pkt) : r5_TL c p (psV5Publish c p) := by
  unfold psV5Publish
  split
  · rename_i h; exact r5_TL.guard _ h
  refine r5_TL.frame ?_
  split
  · split
    · rfl
    · rename_i id hid
      split
      · simp
      split
      · simp
      split
      · split
        · extract_lets r
          have hr : r5_E r.2 = r5_E c := r5_E_validateTopicAlias c p.alias
          split
          · simp [hr]
          · rw [r5_psV5PublishAlias]
            have : ∀ (c' : C), r5_E c' = r5_E c →
                r5_E (if p.qos = 2 then ({ c' with s := { c'.s with pubrec := ins id c'.s.pubrec } } : C)
                  else { c' with s := { c'.s with puback := ins id c'.s.puback } }) = r5_E c := by
              intro c' h; split <;> exact h
            apply this
            rw [r5_E_storeAdd]
            split
            · exact hr
            · exact hr
        · rw [r5_psV5PublishAlias]
          have : ∀ (c' : C), r5_E c' = r5_E c →
              r5_E (if p.qos = 2 then ({ c' with s := { c'.s with pubrec := ins id c'.s.pubrec } } : C)
                else { c' with s := { c'.s with puback := ins id c'.s.puback } }) = r5_E c := by
            intro c' h; split <;> exact h
          apply this
          rw [r5_E_storeAdd]
      · rw [r5_psV5PublishAlias]; split <;> rfl
  split
  · simp
  · exact r5_psV5PublishAlias c p none false

theorem r5_psV3Publish (c : C) (p : Pkt) : r5_E (psV3Publish c p) = r5_E c := by
  unfold psV3Publish
  split
  · split
    · rfl
    · rename_i id hid
      split
      · simp
      split
      · simp
      · extract_lets stored c1 rel src c2
        have h1 : r5_E c1 = r5_E c := by
          simp only [c1]; split
          · exact r5_E_storeAdd _ _ _ _
          · rfl
        have h2 : r5_E c2 = r5_E c := by
          simp only [c2]; split <;> exact h1
        split
        · simp [h2]
        · exact h2
  split
  · simp
  · simp

theorem r5_psPubrel (c : C) (p : Pkt) : r5_TL5 c p (psPubrel c p) := by
  unfold psPubrel
  split
  · rename_i h; exact r5_TL5.guard5 _ h
  refine r5_TL5.frame ?_
  split
  · simp
  extract_lets id c1 src c2
  split
  · simp
  have k1 : r5_E c1 = r5_E c := by
    simp only [c1]; split
    · exact r5_E_storeAdd _ _ _ _
    · rfl
  have k2 : r5_E c2 = r5_E c := k1
  split
  · simp [k2]
  · exact k2

theorem r5_psSubUnsub (c : C) (p : Pkt) : r5_TL5 c p (psSubUnsub c p) := by
  unfold psSubUnsub
  extract_lets id src c1
  split
  · rename_i h; exact r5_TL5.guard5 _ h
  refine r5_TL5.frame ?_
  split
  · simp
  split
  · simp
  · have h1 : r5_E c1 = r5_E c := by simp only [c1]; split <;> rfl
    simp only [r5_E_sendPostProcess, r5_E_push_send]; exact h1

theorem r5_psPingreq (c : C) (p : Pkt) : r5_TL5 c p (psPingreq c p) := by
  unfold psPingreq
  split
  · rename_i h; exact r5_TL5.guard5 _ h
  refine r5_TL5.frame ?_
  split
  · simp
  · simp only [r5_E_sendPostProcess]
    split
    · simp [r5_E, r5_tl, C.push]
    · simp

theorem r5_psV5Disconnect (c : C) (p : Pkt) : r5_TL c p (psV5Disconnect c p) := by
  unfold psV5Disconnect
  split
  · rename_i h; exact r5_TL.guard _ h
  refine r5_TL.frame ?_
  split
  · simp
  · simp only [r5_E_push_close, r5_E_push_send, r5_E_cancelTimers]; rfl

theorem r5_psV3Disconnect (c : C) (p : Pkt) : r5_E (psV3Disconnect c p) = r5_E c := by
  unfold psV3Disconnect
  split
  · simp
  · simp only [r5_E_push_close, r5_E_push_send, r5_E_cancelTimers]; rfl

theorem r5_psV3Simple (c : C) (p : Pkt) : r5_E (psV3Simple c p) = r5_E c := by
  unfold psV3Simple; split <;> simp

theorem r5_psV5Simple (c : C) (p : Pkt) : r5_TL c p (psV5Simple c p) := by
  unfold psV5Simple
  split
  · rename_i h; exact r5_TL.guard _ h
  refine r5_TL.frame ?_
  split <;> simp

theorem r5_psV5Auth (c : C) (p : Pkt) : r5_TL c p (psV5Auth c p) := by
  unfold psV5Auth
  split
  · rename_i h; exact r5_TL.guard _ h
  refine r5_TL.frame ?_
  split <;> simp

theorem r5_psV5Puback (c : C) (p : Pkt) : r5_TL c p (psV5Puback c p) := by
  unfold psV5Puback
  split
  · rename_i h; exact r5_TL.guard _ h
  refine r5_TL.frame ?_
  split
  · simp
  · simp only [r5_E_sendPostProcess, r5_E_push_send]; rfl

theorem r5_psV5Pubrec (c : C) (p : Pkt) : r5_TL c p (psV5Pubrec c p) := by
  unfold psV5Pubrec
  split
  · rename_i h; exact r5_TL.guard _ h
  refine r5_TL.frame ?_
  split
  · simp
  · extract_lets id failure src c1
    have h1 : r5_E c1 = r5_E c := by simp only [c1]; split <;> rfl
    simp [h1]

theorem r5_psV3Connect (c : C) (p : Pkt) : r5_E (psV3Connect c p) = r5_E c := by
  unfold psV3Connect
  split
  · simp
  · simp only [r5_E_sendPostProcess, r5_E_push_send]
    split <;> rfl

theorem r5_psV5Connect (c : C) (p : Pkt) : r5_TL c p (psV5Connect c p) := by
  unfold psV5Connect
  split
  · rename_i h; exact r5_TL.guard _ h
  refine r5_TL.frame ?_
  split
  · simp
  · simp only [r5_E_sendPostProcess, r5_E_push_send, r5_E_fold_connectSendProp]
    split <;> rfl

theorem r5_connackTail (c : C) (sp : Bool) :
    r5_E (sendPostProcess (if sp then sendStored c else clearStoreRelated c)) = r5_E c := by
  rw [r5_E_sendPostProcess]; split <;> simp

theorem r5_psV3Connack (c : C) (p : Pkt) : r5_E (psV3Connack c p) = r5_E c := by
  unfold psV3Connack
  split
  · simp
  · simp only []
    split
    · simp only [r5_E_push_close, r5_E_cancelTimers]
      exact (r5_E_eq_of rfl).trans (r5_E_push_send c p none)
    · rw [r5_connackTail]
      exact (r5_E_eq_of rfl).trans (r5_E_push_send c p none)

theorem r5_psV5Connack (c : C) (p : Pkt) : r5_TL c p (psV5Connack c p) := by
  unfold psV5Connack
  split
  · rename_i h; exact r5_TL.guard _ h
  refine r5_TL.frame ?_
  split
  · simp
  · extract_lets c1 c2
    have h1 : r5_E c1 = r5_E c := by simp only [c1]; split <;> simp
    have h2 : r5_E c2 = r5_E c := by simp only [c2, r5_E_push_send]; exact h1
    split
    · simp only [r5_E_push_close, r5_E_cancelTimers]
      exact (r5_E_eq_of rfl).trans h2
    · rw [r5_connackTail]
      exact (r5_E_eq_of rfl).trans h2

theorem r5_processSend (c : C) (p : Pkt) :
    r5_E (processSend c p) = r5_E c ∨ (p.ver ≠ 4 ∧ sizeOk c p = false) := by
  unfold processSend
  split
  · rename_i h4
    left
    cases p.kind <;> simp only <;>
    first
      | rfl
      | exact r5_psV3Connect c p
      | exact r5_psV3Connack c p
      | exact r5_psV3Publish c p
      | exact (r5_psPubrel c p).v4 h4
      | exact (r5_psSubUnsub c p).v4 h4
      | exact (r5_psPingreq c p).v4 h4
      | exact r5_psV3Disconnect c p
      | exact r5_psV3Simple c p
  · rename_i h4
    have key : ∀ c', r5_TL c p c' → r5_E c' = r5_E c ∨ (p.ver ≠ 4 ∧ sizeOk c p = false) := by
      intro c' h; rcases h with h | h
      · exact .inl h
      · exact .inr ⟨h4, h⟩
    cases p.kind <;> simp only <;> apply key <;>
    first
      | exact r5_psV5Connect c p
      | exact r5_psV5Connack c p
      | exact r5_psV5Publish c p
      | exact r5_psV5Puback c p
      | exact r5_psV5Pubrec c p
      | exact (r5_psPubrel c p).tl
      | exact (r5_psSubUnsub c p).tl
      | exact (r5_psPingreq c p).tl
      | exact r5_psV5Disconnect c p
      | exact r5_psV5Auth c p
      | exact r5_psV5Simple c p

theorem r5_send (c : C) (p : Pkt) :
    r5_E (send c p) = r5_E c ∨ (c.s.ver = p.ver ∧ p.ver ≠ 4 ∧ sizeOk c p = false) := by
  unfold send
  split
  · left; unfold refuseSend; split <;> simp
  split
  · left; unfold refuseSend; split <;> simp
  · rename_i hv _
    rcases r5_processSend c p with h | h
    · exact .inl h
    · exact .inr ⟨by simpa using hv, h⟩

/-- **C11 refused_by_stale_limit** — `PacketTooLarge` is reported only for a packet that exceeds
    the limit held in `mpsSend` before the call (and never for a v3.1.1 packet) -/
theorem C11_too_large_needs_limit (c : C) (p : Pkt) (hold : Ev.error eTooLarge ∉ c.ev)
    (h : Ev.error eTooLarge ∈ (send c p).ev) :
    p.sz c.cfg.pw > c.s.mpsSend ∧ c.s.ver = p.ver ∧ p.ver ≠ 4 := by
  have h1 : r5_E (send c p) = true := (r5_tl_iff _).2 h
  have h0 : r5_E c = false := by
    cases hE : r5_E c with
    | false => rfl
    | true => exact absurd ((r5_tl_iff _).1 hE) hold
  rcases r5_send c p with e | ⟨hv, h4, hz⟩
  · rw [e, h0] at h1; cases h1
  · refine ⟨?_, hv, h4⟩
    simpa [sizeOk] using hz

/-- the same for one API call -/
theorem C11_too_large_needs_limit_step (cfg : Cfg) (s : St) (p : Pkt)
    (h : Ev.error eTooLarge ∈ (step cfg s (.send p)).ev) :
    p.sz cfg.pw > s.mpsSend ∧ s.ver = p.ver ∧ p.ver ≠ 4 :=
  C11_too_large_needs_limit { cfg := cfg, s := s } p (by simp) h

/-- with no limit in force nothing below the protocol's own maximum is refused as too large -/
theorem C11_no_limit_no_too_large (cfg : Cfg) (s : St) (p : Pkt) (hm : s.mpsSend = noLimit)
    (hp : p.sz cfg.pw ≤ noLimit) : Ev.error eTooLarge ∉ (step cfg s (.send p)).ev := by
  intro h
  have := (C11_too_large_needs_limit_step cfg s p h).1
  omega

/-! ## non-vacuity: states reached by running the model from `St.init` -/
namespace C11R5Ex
def cfg : Cfg := { role := .client, pw := 2 }
def connect : Pkt := { ver := 5, kind := .connect, size := 15 }
def connack : Pkt := { ver := 5, kind := .connack, size := 8, rc := some 0, props := [(pMPS, 10)] }
def pub (n : Nat) : Pkt := { ver := 5, kind := .publish, topic := [97], payloadLen := n }
/-- a client whose server announced Maximum Packet Size 10 -/
def s : St := run cfg (St.init cfg 5) [.send connect, .recv [0x20, 0] (fun _ _ _ => .ok connack)]
example : Reachable cfg 5 s := ⟨_, rfl⟩
example : s.mpsSend = 10 ∧ s.status = .connected ∧ (pub 20).sz cfg.pw = 26 ∧ (pub 2).sz cfg.pw = 8 := by decide
-- the hypothesis is satisfiable: a 26-byte PUBLISH is refused …
example : Ev.error eTooLarge ∈ (step cfg s (.send (pub 20))).ev := by decide
example : (pub 20).sz cfg.pw > s.mpsSend ∧ s.ver = (pub 20).ver ∧ (pub 20).ver ≠ 4 :=
  C11_too_large_needs_limit_step cfg s (pub 20) (by decide)
-- … an 8-byte one is sent
example : (step cfg s (.send (pub 2))).ev = [.send (pub 2) none] := by decide
-- after `closed` no limit is in force: the 26-byte PUBLISH is refused for the state, not for its size
example : (step cfg s .closed).s.mpsSend = noLimit ∧
    (step cfg (step cfg s .closed).s (.send (pub 20))).ev = [.error eNotAllowed] := by decide
end C11R5Ex

end MqttVerif.Conn
