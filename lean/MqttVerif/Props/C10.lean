import MqttVerif.Conn.Lemmas.Basic
/-!
# C10 — connection-scoped state never leaks into the next connection (first instalment)

`notify_closed` resets the connection scope for EVERY state (reachable or not): these are
statements about what the function overwrites.  The state-equality-with-a-fresh-object
theorems are being added on top (DESIGN.md §5 C10); the driver compares a reused object with a
fresh one on every new-session script (`Y` lines).
-/
set_option linter.unusedSimpArgs false
set_option linter.unusedVariables false
namespace MqttVerif.Conn
open MqttVerif

/-- releasing identifiers touches only the allocator and the sticky panic field -/
theorem releaseIfUsed_frame (c : C) (id : Nat) :
    ∃ pm pn, (releaseIfUsed c id).s = { c.s with pidMan := pm, panic := pn } ∧ (releaseIfUsed c id).cfg = c.cfg := by
  unfold releaseIfUsed releaseId
  by_cases h : isUsed c.s id = true
  · simp only [h, if_true]
    split
    · exact ⟨_, _, rfl, rfl⟩
    · exact ⟨_, _, rfl, rfl⟩
  · simp only [h]
    exact ⟨c.s.pidMan, c.s.panic, rfl, rfl⟩

theorem releaseAll_frame (c : C) (ids : List Nat) :
    ∃ pm pn, (releaseAll c ids).s = { c.s with pidMan := pm, panic := pn } ∧ (releaseAll c ids).cfg = c.cfg := by
  induction ids generalizing c with
  | nil => exact ⟨c.s.pidMan, c.s.panic, rfl, rfl⟩
  | cons id rest ih =>
    obtain ⟨pm1, pn1, h1, g1⟩ := releaseIfUsed_frame c id
    obtain ⟨pm2, pn2, h2, g2⟩ := ih (releaseIfUsed c id)
    refine ⟨pm2, pn2, ?_, by rw [releaseAll, g2, g1]⟩
    rw [releaseAll, h2, h1]

/-- the next CONNECT (sent or received) resets what `notify_closed` leaves: receive maxima,
    counters, keep-alive values incl. the receive timeout (fix, finding #3), alias tables,
    pending subscribe/unsubscribe ids — for every state -/
theorem C10_initConn_resets (c : C) (b : Bool) :
    let s' := (initConn c b).s
    s'.sendMax = none ∧ s'.recvMax = none ∧ s'.sendCount = 0 ∧ s'.tas = none ∧ s'.tar = none ∧
    s'.publishRecv = [] ∧ s'.needStore = false ∧ s'.suback = [] ∧ s'.unsuback = [] ∧
    s'.isClient = b ∧ s'.keepAliveMs = 0 ∧ s'.serverKeepAliveMs = none ∧ s'.recvTimeoutMs = 0 := by
  simp [initConn]

/-- a new session forgets the whole session scope -/
theorem C10_new_session_resets (c : C) :
    let s' := (clearStoreRelated c).s
    s'.store = [] ∧ s'.puback = [] ∧ s'.pubrec = [] ∧ s'.pubcomp = [] ∧ s'.handled = [] ∧
    s'.pidMan = Alloc.clear c.s.pidMan := by
  simp [clearStoreRelated]

example : (initConn { cfg := ⟨.server, 2⟩, s := { (St.init ⟨.server, 2⟩ 5) with recvTimeoutMs := 15000, sendMax := some 3 } } false).s.recvTimeoutMs = 0 := by
  decide

end MqttVerif.Conn
