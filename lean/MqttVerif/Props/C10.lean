import MqttVerif.Conn.Lemmas.Reset
import MqttVerif.Conn.Lemmas.Session
import MqttVerif.Conn.Lemmas.NewSession2
/-!
# C10 — connection-scoped state never leaks into the next connection or session
-/
set_option linter.unusedSimpArgs false
set_option linter.unusedVariables false
namespace MqttVerif.Conn
open MqttVerif

/-! ## scopes -/

/-- the object after `notify_closed` -/
def closed (cfg : Cfg) (s : St) : St := (notifyClosed ⟨cfg, s, []⟩).s

/-- a freshly constructed object (`new(ver0)`) carrying the configuration scope of `s`:
    the five option flags, the PINGREQ interval override and the PINGRESP timeout. -/
def fresh (cfg : Cfg) (ver0 : Nat) (s : St) : St :=
  { St.init cfg ver0 with
    offline := s.offline, autoPub := s.autoPub, autoPing := s.autoPing, autoMap := s.autoMap,
    autoReplace := s.autoReplace, userInterval := s.userInterval, respTimeoutMs := s.respTimeoutMs }

/-- `set_offline_publish(true)` also sets `need_store`; a fresh object whose setters were
    replayed has `need_store = ns` for some `ns` (true iff offline publish was ever enabled) -/
def freshNS (cfg : Cfg) (ver0 : Nat) (s : St) (ns : Bool) : St :=
  { fresh cfg ver0 s with needStore := ns }

/-- overwrite the session scope of `f` by that of `t` -/
def withSession (f t : St) : St :=
  { f with pidMan := t.pidMan, puback := t.puback, pubrec := t.pubrec, pubcomp := t.pubcomp,
           store := t.store, handled := t.handled, needStore := t.needStore }

/-- what every accepted CONNECT (sent or received) overwrites before reading; with clean
    start also the session scope -/
def scrub (clean : Bool) (s : St) : St :=
  let s := { s with suback := [], unsuback := [], needStore := false, tar := none, tas := none,
                    sendMax := none, recvMax := none, sendCount := 0, publishRecv := [],
                    keepAliveMs := 0, serverKeepAliveMs := none, recvTimeoutMs := 0,
                    isClient := false }
  if clean then
    { s with pidMan := Alloc.clear s.pidMan, puback := [], pubrec := [], pubcomp := [], store := [],
             handled := [] }
  else s

theorem psV3Connect_scrub (cfg : Cfg) (a : St) (ev : List Ev) (p : Pkt) (hd : a.status = .disconnected) :
    psV3Connect ⟨cfg, a, ev⟩ p = psV3Connect ⟨cfg, scrub p.clean a, ev⟩ p := by
  cases a
  cases hc : p.clean <;>
    simp_all [psV3Connect, initConn, clearStoreRelated, sendPostProcess, C.push, scrub, Alloc.clear]

theorem psV5Connect_scrub (cfg : Cfg) (a : St) (ev : List Ev) (p : Pkt) (hd : a.status = .disconnected)
    (hs : p.sz cfg.pw ≤ a.mpsSend) :
    psV5Connect ⟨cfg, a, ev⟩ p = psV5Connect ⟨cfg, scrub p.clean a, ev⟩ p := by
  cases a
  cases hc : p.clean <;>
    simp_all [psV5Connect, initConn, clearStoreRelated, sizeOk, C.err, C.push, scrub, Alloc.clear,
      Nat.not_lt.2 hs]

theorem prV3Connect_scrub (cfg : Cfg) (a : St) (ev : List Ev) (p : Pkt) (hd : a.status = .disconnected) :
    prV3Connect ⟨cfg, a, ev⟩ (.ok p) = prV3Connect ⟨cfg, scrub p.clean a, ev⟩ (.ok p) := by
  cases a
  cases hc : p.clean <;> by_cases hk : p.keepAlive > 0 <;>
    simp_all [prV3Connect, initConn, clearStoreRelated, refreshPingreqRecv, C.push, scrub, Alloc.clear]

theorem prV5Connect_scrub (cfg : Cfg) (a : St) (ev : List Ev) (p : Pkt) (hd : a.status = .disconnected) :
    prV5Connect ⟨cfg, a, ev⟩ (.ok p) = prV5Connect ⟨cfg, scrub p.clean a, ev⟩ (.ok p) := by
  cases a
  cases hc : p.clean <;> by_cases hk : p.keepAlive > 0 <;>
    simp_all [prV5Connect, initConn, clearStoreRelated, C.push, scrub, Alloc.clear]

theorem prV3Connect_scrub' (cfg : Cfg) (a b : St) (ev : List Ev) (p : Pkt)
    (hd : a.status = .disconnected) (hb : b.status = .disconnected)
    (h : scrub p.clean a = scrub p.clean b) :
    prV3Connect ⟨cfg, a, ev⟩ (.ok p) = prV3Connect ⟨cfg, b, ev⟩ (.ok p) := by
  rw [prV3Connect_scrub cfg a ev p hd, prV3Connect_scrub cfg b ev p hb, h]

theorem prV5Connect_scrub' (cfg : Cfg) (a b : St) (ev : List Ev) (p : Pkt)
    (hd : a.status = .disconnected) (hb : b.status = .disconnected)
    (h : scrub p.clean a = scrub p.clean b) :
    prV5Connect ⟨cfg, a, ev⟩ (.ok p) = prV5Connect ⟨cfg, b, ev⟩ (.ok p) := by
  rw [prV5Connect_scrub cfg a ev p hd, prV5Connect_scrub cfg b ev p hb, h]

@[simp] theorem scrub_ver (cl : Bool) (a : St) : (scrub cl a).ver = a.ver := by cases cl <;> rfl
@[simp] theorem scrub_status (cl : Bool) (a : St) : (scrub cl a).status = a.status := by cases cl <;> rfl
@[simp] theorem scrub_mpsSend (cl : Bool) (a : St) : (scrub cl a).mpsSend = a.mpsSend := by cases cl <;> rfl
@[simp] theorem scrub_mpsRecv (cl : Bool) (a : St) : (scrub cl a).mpsRecv = a.mpsRecv := by cases cl <;> rfl
@[simp] theorem scrub_pb (cl : Bool) (a : St) : (scrub cl a).pb = a.pb := by cases cl <;> rfl
theorem scrub_idem (cl : Bool) (a : St) : scrub cl (scrub cl a) = scrub cl a := by
  cases cl <;> simp [scrub, Alloc.clear]
theorem scrub_set_pb_ver (cl : Bool) (a : St) (x : Framing.PB) (v : Nat) :
    scrub cl { a with pb := x, ver := v } = { scrub cl a with pb := x, ver := v } := by
  cases cl <;> rfl

/-- `op` is an accepted connection start on an idle object whose version field is `ver`: a
    CONNECT `p` handed to `send`, or input bytes that complete a CONNECT frame whose parse is
    `.ok p` (`ver = 0`: an undetermined server reads the protocol level from the frame). -/
inductive ConnStart (cfg : Cfg) (ver : Nat) : Op → Pkt → Prop
  | sent (p : Pkt) (hk : p.kind = .connect) (hv : p.ver = ver) (h45 : ver = 4 ∨ ver = 5)
      (hr : cfg.role ≠ .server) (hs : ver = 5 → p.size ≤ noLimit) : ConnStart cfg ver (.send p) p
  | received (inp : List Nat) (parse : Nat → Nat → List Nat → Except Nat Pkt)
      (pb : Framing.PB) (fh : Nat) (data rest : List Nat) (p : Pkt) (v : Nat)
      (hf : Framing.feed Framing.PB.reset inp = (pb, some (.complete fh data), rest))
      (ht : fh / 16 = 1) (hsz : totalSize data.length ≤ noLimit) (hr : cfg.role ≠ .client)
      (hv : (ver = 0 ∧ 7 ≤ data.length ∧ v = data.getD 6 0) ∨ (ver ≠ 0 ∧ v = ver))
      (h45 : v = 4 ∨ v = 5) (hp : parse v fh data = .ok p) : ConnStart cfg ver (.recv inp parse) p

/-- an object between two connections, as `notify_closed` and `new` leave it -/
structure Idle (a : St) : Prop where
  status : a.status = .disconnected
  mpsSend : a.mpsSend = noLimit
  mpsRecv : a.mpsRecv = noLimit
  pb : a.pb = Framing.PB.reset

theorem Idle.scrub {a : St} (h : Idle a) (cl : Bool) : Idle (scrub cl a) :=
  ⟨by simp [h.status], by simp [h.mpsSend], by simp [h.mpsRecv], by simp [h.pb]⟩

theorem connStart_scrub_sent {cfg : Cfg} {a : St} {p : Pkt} (hi : Idle a)
    (hk : p.kind = .connect) (hv : p.ver = a.ver) (h45 : a.ver = 4 ∨ a.ver = 5)
    (hr : cfg.role ≠ .server) (hs : a.ver = 5 → p.size ≤ noLimit) :
    step cfg a (.send p) = step cfg (scrub p.clean a) (.send p) := by
  obtain ⟨hd, hms, hmr, hpb⟩ := hi
  have hrole : roleMaySend cfg.role p = true := by
    cases hc : cfg.role <;> simp_all [roleMaySend]
  simp only [step, send, scrub_ver, hv, ne_eq, not_true_eq_false, if_false, hrole, Bool.not_true,
    Bool.false_eq_true]
  rcases h45 with h4 | h5
  · have : p.ver = 4 := by omega
    simp only [processSend, this, if_true, hk]
    exact psV3Connect_scrub cfg a [] p hd
  · have : p.ver = 5 := by omega
    have h5' : ¬ (p.ver = 4) := by omega
    simp only [processSend, h5', if_false, hk]
    refine psV5Connect_scrub cfg a [] p hd ?_
    have : p.sz cfg.pw = p.size := by simp [Pkt.sz, hk]
    rw [this, hms]; exact hs h5

theorem connStart_scrub_received {cfg : Cfg} {a : St} {p : Pkt} (hi : Idle a)
    {inp : List Nat} {parse : Nat → Nat → List Nat → Except Nat Pkt}
    {pb : Framing.PB} {fh : Nat} {data rest : List Nat} {v : Nat}
    (hf : Framing.feed Framing.PB.reset inp = (pb, some (.complete fh data), rest))
    (ht : fh / 16 = 1) (hsz : totalSize data.length ≤ noLimit) (hr : cfg.role ≠ .client)
    (hv : (a.ver = 0 ∧ 7 ≤ data.length ∧ v = data.getD 6 0) ∨ (a.ver ≠ 0 ∧ v = a.ver))
    (h45 : v = 4 ∨ v = 5) (hp : parse v fh data = .ok p) :
    step cfg a (.recv inp parse) = step cfg (scrub p.clean a) (.recv inp parse) := by
  obtain ⟨hd, hms, hmr, hpb⟩ := hi
  have hcan : ∀ s : St, canReceive cfg s 1 = true := by
    intro s; cases hc : cfg.role <;> simp_all [canReceive]
  have hnl : ¬ (totalSize data.length > noLimit) := by omega
  simp only [step, recv, hpb, scrub_pb, hf, processRecvPacket, hmr, scrub_mpsRecv, hnl, if_false,
    ht, hcan, Bool.not_true, Bool.false_eq_true, scrub_ver]
  rcases hv with ⟨h0, hlen, hvd⟩ | ⟨hn0, hvv⟩
  · have hl : ¬ (data.length < 7) := by omega
    simp only [h0, if_true, hl, if_false, ← hvd]
    rcases h45 with h4 | h5
    · simp only [h4, if_true] at hp ⊢
      rw [hp]
      exact prV3Connect_scrub' cfg _ _ [] p (by simpa using hd) (by simpa using hd)
        (by generalize p.clean = cl; cases cl <;> rfl)
    · have : ¬ (v = 4) := by omega
      simp only [h5, if_true, (by decide : ¬ ((5:Nat) = 4)), if_false] at hp ⊢
      rw [hp]
      exact prV5Connect_scrub' cfg _ _ [] p (by simpa using hd) (by simpa using hd)
        (by generalize p.clean = cl; cases cl <;> rfl)
  · simp only [hn0, if_false, dispatchRecv]
    subst hvv
    rcases h45 with h4 | h5
    · simp only [h4, if_true] at hp ⊢
      rw [hp]
      exact prV3Connect_scrub' cfg _ _ [] p (by simpa using hd) (by simpa using hd)
        (by generalize p.clean = cl; cases cl <;> rfl)
    · simp only [h5, (by decide : ¬ ((5:Nat) = 4)), if_false] at hp ⊢
      rw [hp]
      exact prV5Connect_scrub' cfg _ _ [] p (by simpa using hd) (by simpa using hd)
        (by generalize p.clean = cl; cases cl <;> rfl)

/-- **no connection-scope field is read before it is overwritten**: an accepted connection
    start on an idle object gives the same result (state and events) as on the scrubbed one -/
theorem connStart_scrub {cfg : Cfg} {a : St} {op : Op} {p : Pkt} {ver : Nat} (hver : a.ver = ver)
    (h : ConnStart cfg ver op p) (hi : Idle a) : step cfg a op = step cfg (scrub p.clean a) op := by
  subst hver
  cases h with
  | sent _ hk hv h45 hr hs => exact connStart_scrub_sent hi hk hv h45 hr hs
  | received _ _ pb fh data rest _ v hf ht hsz hr hv h45 hp =>
    exact connStart_scrub_received hi hf ht hsz hr hv h45 hp

/-! ## the object after `notify_closed` -/

/-- closed form of the closed object (for EVERY `s`): `closedSt` (see `Lemmas/Reset.lean`) -/
theorem closed_eq (cfg : Cfg) (s : St) : ∃ pm, Bnd pm s.pidMan ∧
    closed cfg s = closedSt s pm (closed cfg s).panic := by
  obtain ⟨pm, pn, hb, _, h⟩ := notifyClosed_eq ⟨cfg, s, []⟩
  refine ⟨pm, hb, ?_⟩
  have : (closed cfg s).panic = pn := by rw [closed, h]; rfl
  rw [this]; exact h

/-- **C10 (3): what `notify_closed` resets**, for every state -/
theorem C10_closed_resets (cfg : Cfg) (s : St) :
    let t := closed cfg s
    t.mpsSend = noLimit ∧ t.mpsRecv = noLimit ∧ t.status = .disconnected ∧ t.tas = none ∧
    t.tar = none ∧ t.suback = [] ∧ t.unsuback = [] ∧ t.pb = Framing.PB.reset ∧
    t.sendSet = false ∧ t.recvSet = false ∧ t.respSet = false ∧
    (s.needStore = false →
      t.puback = [] ∧ t.pubrec = [] ∧ t.pubcomp = [] ∧ t.store = [] ∧ t.handled = []) := by
  obtain ⟨pm, hb, h⟩ := closed_eq cfg s
  dsimp only
  rw [h]
  simp only [closedSt, true_and]
  intro hn; simp [hn]

/-- what `notify_closed` does **not** touch: configuration scope, version, and the fields
    that only the next CONNECT resets (`initialize`) — finding #29 -/
theorem C10_closed_keeps (cfg : Cfg) (s : St) :
    let t := closed cfg s
    t.ver = s.ver ∧ t.offline = s.offline ∧ t.autoPub = s.autoPub ∧ t.autoPing = s.autoPing ∧
    t.autoMap = s.autoMap ∧ t.autoReplace = s.autoReplace ∧ t.userInterval = s.userInterval ∧
    t.respTimeoutMs = s.respTimeoutMs ∧ t.needStore = s.needStore ∧
    t.sendMax = s.sendMax ∧ t.recvMax = s.recvMax ∧ t.sendCount = s.sendCount ∧
    t.publishRecv = s.publishRecv ∧ t.keepAliveMs = s.keepAliveMs ∧
    t.serverKeepAliveMs = s.serverKeepAliveMs ∧ t.recvTimeoutMs = s.recvTimeoutMs ∧
    t.isClient = s.isClient ∧ Bnd t.pidMan s.pidMan ∧
    (s.needStore = true → t.puback = s.puback ∧ t.pubrec = s.pubrec ∧ t.pubcomp = s.pubcomp ∧
      t.store = s.store ∧ t.handled = s.handled) := by
  obtain ⟨pm, hb, h⟩ := closed_eq cfg s
  dsimp only
  rw [h]
  simp only [closedSt, true_and]
  exact ⟨hb, fun hn => by simp [hn]⟩

theorem closed_idle (cfg : Cfg) (s : St) : Idle (closed cfg s) := by
  have := C10_closed_resets cfg s
  exact ⟨this.2.2.1, this.1, this.2.1, this.2.2.2.2.2.2.2.1⟩

theorem freshNS_idle (cfg : Cfg) (ver0 : Nat) (s : St) (ns : Bool) : Idle (freshNS cfg ver0 s ns) :=
  ⟨rfl, rfl, rfl, rfl⟩

theorem withSession_idle {f : St} (h : Idle f) (t : St) : Idle (withSession f t) :=
  ⟨h.status, h.mpsSend, h.mpsRecv, h.pb⟩

/-- the allocator range is the one given at construction (`1 ..= MAX`); preserved by every
    call (only the pool changes) -/
def PidRange (cfg : Cfg) (s : St) : Prop := Bnd s.pidMan (Alloc.new 1 cfg.idMax cfg.idMax)

theorem scrub_closed_eq_fresh (cfg : Cfg) (s : St) (ver0 : Nat) (ns : Bool) (hver : s.ver = ver0)
    (hr : PidRange cfg s) (hp : (closed cfg s).panic = none) :
    scrub true (closed cfg s) = scrub true (freshNS cfg ver0 s ns) := by
  obtain ⟨pm, hb, h⟩ := closed_eq cfg s
  rw [h, hp]
  obtain ⟨h1, h2, h3⟩ := hb.trans hr
  simp only [Alloc.new] at h1 h2 h3
  simp [scrub, closedSt, freshNS, fresh, St.init, Alloc.clear, Alloc.new, h1, h2, h3, hver,
    Framing.PB.reset]

theorem scrub_closed_eq_withSession (cfg : Cfg) (s : St) (ver0 : Nat) (cl : Bool) (hver : s.ver = ver0)
    (hp : (closed cfg s).panic = none) :
    scrub cl (closed cfg s) = scrub cl (withSession (fresh cfg ver0 s) (closed cfg s)) := by
  obtain ⟨pm, hb, h⟩ := closed_eq cfg s
  rw [h, hp]
  cases cl <;> simp [scrub, closedSt, withSession, fresh, St.init, hver, Framing.PB.reset]

/-! ## C10 (1): a new session on a reused object = a new session on a fresh object -/

/-- **C10 (1a, 1b)**: for EVERY state `s` (reachable or not) of an object constructed with
    version `ver0`, every accepted clean-start CONNECT (sent by a client/any endpoint, or
    received by a server/any endpoint, v3.1.1 or v5.0, undetermined server included when it
    is still undetermined) yields on the closed object the same state and the same events as
    on a freshly constructed object with the same options — whatever `need_store` the
    replayed option setters left in the fresh object (`ns`). -/
theorem C10_new_session_eq_fresh (cfg : Cfg) (s : St) (ver0 : Nat) (ns : Bool) (op : Op) (p : Pkt)
    (hver : s.ver = ver0) (hr : PidRange cfg s) (hp : (closed cfg s).panic = none)
    (h : ConnStart cfg ver0 op p) (hc : p.clean = true) :
    (step cfg (closed cfg s) op).s = (step cfg (freshNS cfg ver0 s ns) op).s ∧
    (step cfg (closed cfg s) op).ev = (step cfg (freshNS cfg ver0 s ns) op).ev := by
  have hv1 : (closed cfg s).ver = ver0 := by rw [(C10_closed_keeps cfg s).1, hver]
  have e1 := connStart_scrub hv1 h (closed_idle cfg s)
  have e2 := connStart_scrub (a := freshNS cfg ver0 s ns) rfl h (freshNS_idle cfg ver0 s ns)
  rw [e1, e2, hc, scrub_closed_eq_fresh cfg s ver0 ns hver hr hp]
  exact ⟨rfl, rfl⟩

theorem run_congr {cfg : Cfg} {a b : St} (h : a = b) (ops : List Op) :
    runEvents cfg a ops = runEvents cfg b ops ∧ run cfg a ops = run cfg b ops := by
  subst h; exact ⟨rfl, rfl⟩

/-- **C10, consequence**: a reused object that starts a new session produces, for every
    subsequent script, the same events (and states) as a fresh object with the same options -/
theorem C10_reuse_trace_equiv (cfg : Cfg) (s : St) (ver0 : Nat) (ns : Bool) (op : Op) (p : Pkt)
    (hver : s.ver = ver0) (hr : PidRange cfg s) (hp : (closed cfg s).panic = none)
    (h : ConnStart cfg ver0 op p) (hc : p.clean = true) (ops : List Op) :
    runEvents cfg (closed cfg s) (op :: ops) = runEvents cfg (freshNS cfg ver0 s ns) (op :: ops) ∧
    run cfg (closed cfg s) (op :: ops) = run cfg (freshNS cfg ver0 s ns) (op :: ops) := by
  obtain ⟨hs, he⟩ := C10_new_session_eq_fresh cfg s ver0 ns op p hver hr hp h hc
  obtain ⟨r1, r2⟩ := run_congr (cfg := cfg) hs ops
  simp only [runEvents, run, he, r1, r2, and_self]

/-! ## C10 (2): a new connection of the same session -/

/-- **C10 (2)**: every accepted CONNECT (clean or not) on the closed object gives the same
    state and events as on a fresh object that was given the closed object's session scope:
    no connection-scope field of the old connection is read before it is overwritten. -/
theorem C10_next_connection_eq_fresh_with_session (cfg : Cfg) (s : St) (ver0 : Nat) (op : Op)
    (p : Pkt) (hver : s.ver = ver0) (hp : (closed cfg s).panic = none) (h : ConnStart cfg ver0 op p) :
    (step cfg (closed cfg s) op).s =
      (step cfg (withSession (fresh cfg ver0 s) (closed cfg s)) op).s ∧
    (step cfg (closed cfg s) op).ev =
      (step cfg (withSession (fresh cfg ver0 s) (closed cfg s)) op).ev := by
  have hv1 : (closed cfg s).ver = ver0 := by rw [(C10_closed_keeps cfg s).1, hver]
  have e1 := connStart_scrub hv1 h (closed_idle cfg s)
  have e2 := connStart_scrub (a := withSession (fresh cfg ver0 s) (closed cfg s)) rfl h
    (withSession_idle (freshNS_idle cfg ver0 s false) _)
  rw [e1, e2, scrub_closed_eq_withSession cfg s ver0 p.clean hver hp]
  exact ⟨rfl, rfl⟩

/-- `need_store` is overwritten by every accepted CONNECT before it is read (this is what
    makes the `need_store := true` side effect of `set_offline_publish(true)` harmless *for
    the next connection*; see `C10_need_store_between_connections_witness` for the gap). -/
theorem C10_needStore_overwritten_by_connect (cfg : Cfg) (a : St) (b : Bool) (op : Op) (p : Pkt)
    (h : ConnStart cfg a.ver op p) (hi : Idle a) :
    step cfg { a with needStore := b } op = step cfg a op := by
  have e1 := connStart_scrub (a := { a with needStore := b }) rfl h ⟨hi.status, hi.mpsSend, hi.mpsRecv, hi.pb⟩
  have e2 := connStart_scrub rfl h hi
  rw [e1, e2]
  congr 1

/-! ## non-vacuity (C10 (4)) -/

instance (a b : Alloc.A) : Decidable (Bnd a b) := by unfold Bnd; infer_instance
instance (cfg : Cfg) (s : St) : Decidable (PidRange cfg s) := by unfold PidRange; infer_instance

namespace C10ex
def cfg : Cfg := ⟨.any, 2⟩
def pub : Pkt :=
  { ver := 5, kind := .publish, pid := some 1, qos := 1, dup := true, topic := [116], payloadLen := 2 }
def rel : Pkt := { ver := 5, kind := .pubrel, size := 4, pid := some 2 }
/-- a v5.0 client in the middle of a connection of a persistent session: negotiated limits,
    half a frame in the packet builder, a pending SUBSCRIBE id, armed timers, stored packets,
    a handled QoS 2 id, alias tables, flow-control counters -/
def s : St :=
  { ver := 5
    pidMan := ⟨1, 65535, 65535, [⟨4, 65535⟩]⟩       -- ids 1, 2, 3 in use
    suback := [3]                                  -- a pending SUBSCRIBE
    puback := [1], pubcomp := [2]
    needStore := true
    store := [(1, pub), (2, rel)]                  -- stored packets
    offline := true, autoPub := true
    tar := some { max := 3, m := [(1, [97])] }
    tas := some { max := 10, a2t := [(1, [116])], t2a := [([116], [1])], alloc := ⟨1, 10, 65535, [⟨2, 10⟩]⟩ }
    sendMax := some 5, recvMax := some 7, sendCount := 1, publishRecv := [8]
    mpsSend := 100, mpsRecv := 200                 -- negotiated limits
    status := .connected
    userInterval := some 7000
    keepAliveMs := 10000, serverKeepAliveMs := some 20000, recvTimeoutMs := 15000
    respTimeoutMs := 3000
    handled := [9]                                 -- a handled QoS 2 id
    sendSet := true, respSet := true               -- armed timers
    pb := { st := .payload, header := [48, 5], remaining := 3, mult := 128, buf := [0, 1] }
    isClient := true }
def connect : Pkt :=
  { ver := 5, kind := .connect, size := 20, clean := true, keepAlive := 30, props := [(pRM, 10), (pSEI, 60)] }
def frame : List Nat := [16, 7, 0, 4, 77, 81, 84, 84, 5]
end C10ex

/-- the hypotheses of `C10_new_session_eq_fresh` / `C10_reuse_trace_equiv` are satisfiable by
    a state that carries every kind of connection- and session-scoped residue -/
example : C10ex.s.ver = 5 ∧ PidRange C10ex.cfg C10ex.s ∧ (closed C10ex.cfg C10ex.s).panic = none ∧
    ConnStart C10ex.cfg 5 (.send C10ex.connect) C10ex.connect ∧
    ConnStart C10ex.cfg 5 (.recv C10ex.frame (fun _ _ _ => .ok C10ex.connect)) C10ex.connect ∧
    C10ex.connect.clean = true :=
  ⟨rfl, by decide, by decide,
   .sent C10ex.connect rfl rfl (Or.inr rfl) (by decide) (fun _ => by decide),
   .received C10ex.frame _ Framing.PB.reset 16 [0, 4, 77, 81, 84, 84, 5] [] C10ex.connect 5
     (by decide) (by decide) (by decide) (by decide) (Or.inr ⟨by decide, rfl⟩) (Or.inr rfl) rfl,
   rfl⟩

/-- … and the closed object really differs from the fresh one before the CONNECT -/
example : closed C10ex.cfg C10ex.s ≠ freshNS C10ex.cfg 5 C10ex.s true := by decide

/-! ## the version of an undetermined server (finding #22) -/

/-- the statement one would like: the construction-time version may have been
    "undetermined" (`ver0 = 0`) and the object may since have adopted a version -/
def C10_full : Prop :=
  ∀ (cfg : Cfg) (s : St) (ver0 : Nat) (ns : Bool) (op : Op) (p : Pkt),
    (s.ver = ver0 ∨ (ver0 = 0 ∧ (s.ver = 4 ∨ s.ver = 5))) → PidRange cfg s →
    (closed cfg s).panic = none → ConnStart cfg ver0 op p → p.clean = true →
    (step cfg (closed cfg s) op).s = (step cfg (freshNS cfg ver0 s ns) op).s ∧
    (step cfg (closed cfg s) op).ev = (step cfg (freshNS cfg ver0 s ns) op).ev

namespace C10w22
def cfg : Cfg := ⟨.server, 2⟩
/-- a server constructed with `Version::Undetermined` that adopted v3.1.1 from its first client -/
def s : St := { St.init cfg 0 with ver := 4 }
def connect : Pkt := { ver := 5, kind := .connect, size := 9, clean := true }
/-- a parser that accepts the frame as a v5.0 CONNECT and refuses it as v3.1.1 -/
def parse : Nat → Nat → List Nat → Except Nat Pkt :=
  fun v _ _ => if v = 5 then .ok connect else .error eUnsupportedVersion
def op : Op := .recv C10ex.frame parse
end C10w22

/-- **finding #22**: after close, the reused server still has the adopted version: a v5.0
    CONNECT is parsed as v3.1.1 and refused (CONNACK rc 1, close, error 0x84), whereas a fresh
    undetermined server accepts it.  The difference is not confined to the `ver` field. -/
theorem C10_undetermined_version_sticks_witness :
    (closed C10w22.cfg C10w22.s).ver = 4 ∧ (freshNS C10w22.cfg 0 C10w22.s false).ver = 0 ∧
    (step C10w22.cfg (closed C10w22.cfg C10w22.s) C10w22.op).s.ver = 4 ∧
    (step C10w22.cfg (freshNS C10w22.cfg 0 C10w22.s false) C10w22.op).s.ver = 5 ∧
    (step C10w22.cfg (closed C10w22.cfg C10w22.s) C10w22.op).ev =
      [.send (mkV3Connack 1) none, .close, .error eUnsupportedVersion] ∧
    (step C10w22.cfg (freshNS C10w22.cfg 0 C10w22.s false) C10w22.op).ev = [.recv C10w22.connect] := by
  decide

theorem C10_full_false : ¬ C10_full := by
  intro h
  have hcs : ConnStart C10w22.cfg 0 C10w22.op C10w22.connect :=
    .received C10ex.frame _ Framing.PB.reset 16 [0, 4, 77, 81, 84, 84, 5] [] C10w22.connect 5
      (by decide) (by decide) (by decide) (by decide) (Or.inl ⟨rfl, by decide, by decide⟩) (Or.inr rfl) rfl
  have := (h C10w22.cfg C10w22.s 0 false C10w22.op C10w22.connect (Or.inr ⟨rfl, Or.inl rfl⟩)
    (by decide) (by decide) hcs rfl).1
  have hv := congrArg St.ver this
  rw [C10_undetermined_version_sticks_witness.2.2.1, C10_undetermined_version_sticks_witness.2.2.2.1] at hv
  exact absurd hv (by decide)

/-- an undetermined idle object that receives a CONNECT frame of level `v` behaves exactly
    like an object constructed with version `v` -/
theorem undetermined_adopts {cfg : Cfg} {a : St} (hi : Idle a) (h0 : a.ver = 0)
    {inp : List Nat} {parse : Nat → Nat → List Nat → Except Nat Pkt}
    {pb : Framing.PB} {fh : Nat} {data rest : List Nat} {v : Nat}
    (hf : Framing.feed Framing.PB.reset inp = (pb, some (.complete fh data), rest))
    (ht : fh / 16 = 1) (hsz : totalSize data.length ≤ noLimit) (hr : cfg.role ≠ .client)
    (hlen : 7 ≤ data.length) (hv : v = data.getD 6 0) (h45 : v = 4 ∨ v = 5) :
    step cfg a (.recv inp parse) = step cfg { a with ver := v } (.recv inp parse) := by
  obtain ⟨hd, hms, hmr, hpb⟩ := hi
  have hcan : ∀ s : St, canReceive cfg s 1 = true := by
    intro s; cases hc : cfg.role <;> simp_all [canReceive]
  have hnl : ¬ (totalSize data.length > noLimit) := by omega
  have hl : ¬ (data.length < 7) := by omega
  simp only [step, recv, hpb, hf, processRecvPacket, hmr, hnl, if_false,
    ht, hcan, Bool.not_true, Bool.false_eq_true, h0, if_true, hl, ← hv, dispatchRecv]
  rcases h45 with h4 | h5
  · subst h4; simp only [if_true, (by decide : ¬ ((4:Nat) = 0)), if_false]
  · subst h5; simp only [if_true, (by decide : ¬ ((5:Nat) = 0)), (by decide : ¬ ((5:Nat) = 4)), if_false]

/-- **finding #22, the harmless half**: a server constructed undetermined that adopted
    version `s.ver` behaves, for a clean-start CONNECT *of that same protocol level*, exactly
    like a fresh undetermined server (state and events). -/
theorem C10_new_session_eq_fresh_undetermined_same_level (cfg : Cfg) (s : St) (ns : Bool) (p : Pkt)
    {inp : List Nat} {parse : Nat → Nat → List Nat → Except Nat Pkt}
    {pb : Framing.PB} {fh : Nat} {data rest : List Nat}
    (h45 : s.ver = 4 ∨ s.ver = 5) (hr : PidRange cfg s) (hp : (closed cfg s).panic = none)
    (hf : Framing.feed Framing.PB.reset inp = (pb, some (.complete fh data), rest))
    (ht : fh / 16 = 1) (hsz : totalSize data.length ≤ noLimit) (hrole : cfg.role ≠ .client)
    (hlen : 7 ≤ data.length) (hlvl : data.getD 6 0 = s.ver)
    (hparse : parse s.ver fh data = .ok p) (hc : p.clean = true) :
    (step cfg (closed cfg s) (.recv inp parse)).s = (step cfg (freshNS cfg 0 s ns) (.recv inp parse)).s ∧
    (step cfg (closed cfg s) (.recv inp parse)).ev = (step cfg (freshNS cfg 0 s ns) (.recv inp parse)).ev := by
  have hn0 : s.ver ≠ 0 := by omega
  have hcs : ConnStart cfg s.ver (.recv inp parse) p :=
    .received inp parse pb fh data rest p s.ver hf ht hsz hrole (Or.inr ⟨hn0, rfl⟩) h45 hparse
  have e := undetermined_adopts (a := freshNS cfg 0 s ns) (parse := parse) (freshNS_idle cfg 0 s ns) rfl hf ht hsz
    hrole hlen hlvl.symm h45
  rw [e]
  exact C10_new_session_eq_fresh cfg s s.ver ns _ p rfl hr hp hcs hc

/-! ## what only the next CONNECT resets (finding #29), and `need_store` between connections -/

namespace C10w29
/-- `C10ex.s` with the peer's Receive Maximum (1) exhausted -/
def s : St := { C10ex.s with sendMax := some 1 }
def pub : Pkt := { ver := 5, kind := .publish, pid := some 4, qos := 1, topic := [116], payloadLen := 1 }
def script : List Op := [.register 4, .send pub]
end C10w29

/-- **finding #29**: `publish_send_max` / `publish_send_count` are reset by `initialize` on the
    next CONNECT, not by `notify_closed`.  Between the two connections the vacancy getter still
    reports the old connection's credit, and an offline QoS 1 PUBLISH is refused with
    `ReceiveMaximumExceeded` (and its id released) although no connection exists — a fresh
    object holding the same session stores it silently. -/
theorem C10_send_max_survives_close_witness :
    (closed C10ex.cfg C10w29.s).sendMax = some 1 ∧
    vacancy (closed C10ex.cfg C10w29.s) = some 0 ∧
    vacancy (withSession (fresh C10ex.cfg 5 C10w29.s) (closed C10ex.cfg C10w29.s)) = none ∧
    runEvents C10ex.cfg (closed C10ex.cfg C10w29.s) C10w29.script =
      [[], [.error eRMExceeded, .released 4]] ∧
    runEvents C10ex.cfg (withSession (fresh C10ex.cfg 5 C10w29.s) (closed C10ex.cfg C10w29.s))
      C10w29.script = [[], []] := by
  decide

namespace C10wNS
def cfg : Cfg := ⟨.client, 2⟩
def connect : Pkt := { ver := 4, kind := .connect, size := 14, clean := true }
/-- `new(v3.1.1)`, `set_offline_publish(true)`, one clean-session connection, closed -/
def s : St := run cfg (St.init cfg 4) [.setFlag .offline true, .send connect, .closed]
def pub : Pkt := { ver := 4, kind := .publish, size := 8, pid := some 1, qos := 1, topic := [116] }
def script : List Op := [.register 1, .send pub]
end C10wNS

/-- `need_store` **between** connections (new observation): `initialize` clears the
    `need_store` that `set_offline_publish(true)` had set; after a clean-session connection
    the reused object (option still on) refuses offline publishes, a fresh object with the
    same option replayed stores them.  Harmless for the next connection itself
    (`C10_needStore_overwritten_by_connect`), visible before it. -/
theorem C10_need_store_between_connections_witness :
    C10wNS.s.offline = true ∧ C10wNS.s.needStore = false ∧ closed C10wNS.cfg C10wNS.s = C10wNS.s ∧
    runEvents C10wNS.cfg C10wNS.s C10wNS.script = [[], [.error eNotAllowed, .released 1]] ∧
    runEvents C10wNS.cfg (freshNS C10wNS.cfg 4 C10wNS.s true) C10wNS.script = [[], []] ∧
    (run C10wNS.cfg (freshNS C10wNS.cfg 4 C10wNS.s true) C10wNS.script).store =
      [(1, { C10wNS.pub with dup := true })] := by
  decide

/-- the canonical replay of the option setters on a new object gives `freshNS … s.offline` -/
theorem fresh_is_replay (cfg : Cfg) (ver0 : Nat) (s : St) :
    run cfg (St.init cfg ver0)
      [.setFlag .offline s.offline, .setFlag .autoPub s.autoPub, .setFlag .autoPing s.autoPing,
       .setFlag .autoMap s.autoMap, .setFlag .autoReplace s.autoReplace,
       .setInterval s.userInterval, .setRespTimeout s.respTimeoutMs] =
    freshNS cfg ver0 s s.offline := by
  cases ho : s.offline <;> cases hu : s.userInterval <;>
    simp [run, step, setFlag, setPingreqSendInterval, St.init, freshNS, fresh, ho, hu]

/-! ## C10 (1c): CONNECT without clean start, answered "session not present" -/

/-- an accepted CONNECT without clean start neither reads nor writes the session
    bookkeeping: it is carried through untouched, whatever it is -/
theorem connStart_ws {cfg : Cfg} {a : St} {op : Op} {p : Pkt} {ver : Nat} (hver : a.ver = ver)
    (h : ConnStart cfg ver op p) (hi : Idle a) (hc : p.clean = false) (X : Sess) :
    step cfg (setSess a X) op = (step cfg a op).ws X := by
  subst hver
  obtain ⟨hd, hms, hmr, hpb⟩ := hi
  cases h with
  | sent _ hk hv h45 hr hs =>
    have hrole : roleMaySend cfg.role p = true := by
      cases hc : cfg.role <;> simp_all [roleMaySend]
    have e : (setSess a X).ver = a.ver := rfl
    simp only [step, send, e, hv, ne_eq, not_true_eq_false, if_false, hrole, Bool.not_true,
      Bool.false_eq_true]
    rcases h45 with h4 | h5
    · have : p.ver = 4 := by omega
      simp only [processSend, this, if_true, hk]
      exact psV3Connect_ws ⟨cfg, a, []⟩ X p hc
    · have h5' : ¬ (p.ver = 4) := by omega
      simp only [processSend, h5', if_false, hk]
      exact psV5Connect_ws ⟨cfg, a, []⟩ X p hc
  | received _ _ pb fh data rest _ v hf ht hsz hr hv h45 hp =>
    have hcan : ∀ s : St, canReceive cfg s 1 = true := by
      intro s; cases hc : cfg.role <;> simp_all [canReceive]
    have hnl : ¬ (totalSize data.length > a.mpsRecv) := by rw [hmr]; omega
    have e1 : (setSess a X).pb = a.pb := rfl
    have e2 : (setSess a X).mpsRecv = a.mpsRecv := rfl
    have e3 : (setSess a X).ver = a.ver := rfl
    simp only [step, recv, e1, e2, e3, hpb, hf, processRecvPacket, hnl, if_false,
      ht, hcan, Bool.not_true, Bool.false_eq_true]
    rcases hv with ⟨h0, hlen, hvd⟩ | ⟨hn0, hvv⟩
    · have hl : ¬ (data.length < 7) := by omega
      simp only [h0, if_true, hl, if_false, ← hvd]
      rcases h45 with h4 | h5
      · simp only [h4, if_true] at hp ⊢
        rw [hp]
        exact prV3Connect_ws ⟨cfg, { a with pb := pb, ver := 4 }, []⟩ X p hc
      · simp only [h5, if_true, (by decide : ¬ ((5:Nat) = 4)), if_false] at hp ⊢
        rw [hp]
        exact prV5Connect_ws ⟨cfg, { a with pb := pb, ver := 5 }, []⟩ X p hc hd
    · simp only [hn0, if_false, dispatchRecv]
      subst hvv
      rcases h45 with h4 | h5
      · have e4 : (a.ver = 4) = True := eq_true h4
        simp only [e4, if_true]
        rw [hp]
        exact prV3Connect_ws ⟨cfg, { a with pb := pb }, []⟩ X p hc
      · have e4 : (a.ver = 4) = False := eq_false (by omega)
        simp only [e4, if_false]
        rw [hp]
        exact prV5Connect_ws ⟨cfg, { a with pb := pb }, []⟩ X p hc hd

/-- `op` delivers, to an object in state `t` (CONNECT sent, CONNACK outstanding), input bytes
    that complete a CONNACK frame whose parse is `.ok q` -/
inductive ConnackRecv (cfg : Cfg) (t : St) : Op → Pkt → Prop
  | mk (inp : List Nat) (parse : Nat → Nat → List Nat → Except Nat Pkt)
      (pb : Framing.PB) (fh : Nat) (data rest : List Nat) (q : Pkt)
      (hf : Framing.feed t.pb inp = (pb, some (.complete fh data), rest))
      (ht : fh / 16 = 2) (hsz : totalSize data.length ≤ t.mpsRecv) (hr : cfg.role ≠ .server)
      (hv : t.ver = 4 ∨ t.ver = 5) (hst : t.status ≠ .connected)
      (hp : parse t.ver fh data = .ok q) : ConnackRecv cfg t (.recv inp parse) q

theorem ConnackRecv.setSess {cfg : Cfg} {t : St} {op : Op} {q : Pkt} (h : ConnackRecv cfg t op q)
    (X : Sess) : ConnackRecv cfg (setSess t X) op q := by
  cases h with
  | mk inp parse pb fh data rest _ hf ht hsz hr hv hst hp =>
    exact .mk inp parse pb fh data rest q hf ht hsz hr hv hst hp

/-- an accepted CONNACK with return/reason code 0 and session present = 0 overwrites the
    session bookkeeping (`clear_store_related`) without reading it -/
theorem connackNew_cs {cfg : Cfg} {t : St} {op : Op} {q : Pkt} (h : ConnackRecv cfg t op q)
    (hrc : q.rc = some 0) (hsp : q.sp = false) :
    step cfg t op = step cfg (setSess t (clearSess t.sess)) op := by
  cases h with
  | mk inp parse pb fh data rest _ hf ht hsz hr hv hst hp =>
    have hcan : ∀ s : St, canReceive cfg s 2 = true := by
      intro s; cases hc : cfg.role <;> simp_all [canReceive]
    have hnl : ¬ (totalSize data.length > t.mpsRecv) := by omega
    have hn0 : (t.ver = 0) = False := eq_false (by omega)
    have e1 : (setSess t (clearSess t.sess)).pb = t.pb := rfl
    have e2 : (setSess t (clearSess t.sess)).mpsRecv = t.mpsRecv := rfl
    have e3 : (setSess t (clearSess t.sess)).ver = t.ver := rfl
    simp only [step, recv, e1, e2, e3, hf, processRecvPacket, hnl, if_false, ht, hcan, Bool.not_true,
      Bool.false_eq_true, hn0, dispatchRecv, hp]
    rcases hv with h4 | h5
    · have e4 : (t.ver = 4) = True := eq_true h4
      simp only [e4, if_true]
      exact prV3Connack_new ⟨cfg, { t with pb := pb }, []⟩ q hst hrc hsp
    · have e4 : (t.ver = 4) = False := eq_false (by omega)
      simp only [e4, if_false]
      exact prV5Connack_new ⟨cfg, { t with pb := pb }, []⟩ q hst hrc hsp

theorem scrub_closed_eq_setSess (cfg : Cfg) (s : St) (ver0 : Nat) (ns : Bool) (hver : s.ver = ver0)
    (hp : (closed cfg s).panic = none) :
    scrub false (closed cfg s) = setSess (scrub false (freshNS cfg ver0 s ns)) (closed cfg s).sess := by
  obtain ⟨pm, hb, h⟩ := closed_eq cfg s
  rw [h, hp]
  simp [scrub, closedSt, setSess, St.sess, freshNS, fresh, St.init, hver, Framing.PB.reset]

/-- a CONNECT without clean start on the closed object = the same CONNECT on the fresh object,
    with the closed object's session bookkeeping carried along -/
theorem closed_connect_eq_ws (cfg : Cfg) (s : St) (ver0 : Nat) (ns : Bool) (op1 : Op) (p1 : Pkt)
    (hver : s.ver = ver0) (hp : (closed cfg s).panic = none) (h1 : ConnStart cfg ver0 op1 p1)
    (hc : p1.clean = false) :
    step cfg (closed cfg s) op1 = (step cfg (freshNS cfg ver0 s ns) op1).ws (closed cfg s).sess := by
  have hv1 : (closed cfg s).ver = ver0 := by rw [(C10_closed_keeps cfg s).1, hver]
  have hi2 := freshNS_idle cfg ver0 s ns
  have e1 := connStart_scrub hv1 h1 (closed_idle cfg s)
  have e2 := connStart_scrub (a := freshNS cfg ver0 s ns) rfl h1 hi2
  have e3 := connStart_ws (a := scrub false (freshNS cfg ver0 s ns)) (by simp; rfl) h1 (hi2.scrub false) hc
    (closed cfg s).sess
  rw [e1, e2, hc, scrub_closed_eq_setSess cfg s ver0 ns hver hp, e3]

/-- a CONNECT without clean start leaves the session bookkeeping as it was -/
theorem connStart_sess {cfg : Cfg} {a : St} {op : Op} {p : Pkt} {ver : Nat} (hver : a.ver = ver)
    (h : ConnStart cfg ver op p) (hi : Idle a) (hc : p.clean = false) :
    (step cfg a op).s.sess = a.sess := by
  have := connStart_ws hver h hi hc a.sess
  rw [setSess_sess] at this
  have := congrArg (fun c : C => c.s.sess) this
  simp only [C.ws, sess_setSess] at this
  exact this

/-- **C10 (1c)**: CONNECT without clean start followed directly by a CONNACK "accepted,
    session not present" (client side, v3.1.1 and v5.0): after the two calls the reused object
    and the fresh object are in the same state and have emitted the same events — hence
    (`run_congr`) they agree on every continuation. -/
theorem C10_new_session_by_connack_eq_fresh (cfg : Cfg) (s : St) (ver0 : Nat) (ns : Bool)
    (op1 op2 : Op) (p1 q : Pkt) (hver : s.ver = ver0) (hr : PidRange cfg s)
    (hp : (closed cfg s).panic = none) (h1 : ConnStart cfg ver0 op1 p1) (hc : p1.clean = false)
    (h2 : ConnackRecv cfg (step cfg (freshNS cfg ver0 s ns) op1).s op2 q)
    (hrc : q.rc = some 0) (hsp : q.sp = false) :
    runEvents cfg (closed cfg s) [op1, op2] = runEvents cfg (freshNS cfg ver0 s ns) [op1, op2] ∧
    run cfg (closed cfg s) [op1, op2] = run cfg (freshNS cfg ver0 s ns) [op1, op2] := by
  have hv1 : (closed cfg s).ver = ver0 := by rw [(C10_closed_keeps cfg s).1, hver]
  have hi2 := freshNS_idle cfg ver0 s ns
  -- first call
  have e1 := connStart_scrub hv1 h1 (closed_idle cfg s)
  have e2 := connStart_scrub (a := freshNS cfg ver0 s ns) rfl h1 hi2
  have e3 := connStart_ws (a := scrub false (freshNS cfg ver0 s ns)) (by simp; rfl) h1 (hi2.scrub false) hc
    (closed cfg s).sess
  have k1 : step cfg (closed cfg s) op1 = (step cfg (freshNS cfg ver0 s ns) op1).ws (closed cfg s).sess := by
    rw [e1, e2, hc, scrub_closed_eq_setSess cfg s ver0 ns hver hp, e3]
  have k2 : (step cfg (freshNS cfg ver0 s ns) op1).s.sess = (freshNS cfg ver0 s ns).sess := by
    have := connStart_ws (a := freshNS cfg ver0 s ns) rfl h1 hi2 hc (freshNS cfg ver0 s ns).sess
    rw [setSess_sess] at this
    have := congrArg (fun c : C => c.s.sess) this
    simp only [C.ws, sess_setSess] at this
    exact this
  -- second call
  have f1 := connackNew_cs (h2.setSess (closed cfg s).sess) hrc hsp
  have f2 := connackNew_cs h2 hrc hsp
  have hcl : clearSess (closed cfg s).sess = clearSess (step cfg (freshNS cfg ver0 s ns) op1).s.sess := by
    rw [k2]
    have hb : Bnd (closed cfg s).pidMan (Alloc.new 1 cfg.idMax cfg.idMax) :=
      (C10_closed_keeps cfg s).2.2.2.2.2.2.2.2.2.2.2.2.2.2.2.2.2.1.trans hr
    simp only [clearSess, St.sess, clear_eq_of_bnd hb]
    rfl
  have k3 : step cfg (step cfg (closed cfg s) op1).s op2 =
      step cfg (step cfg (freshNS cfg ver0 s ns) op1).s op2 := by
    rw [k1]
    show step cfg (setSess _ _) op2 = _
    rw [f1, f2, sess_setSess, setSess_setSess, hcl]
  simp only [runEvents, run, k3]
  rw [k1]
  exact ⟨by rfl, trivial⟩

namespace C10ex
def connectNC : Pkt := { ver := 5, kind := .connect, size := 20, clean := false, keepAlive := 30, props := [(pSEI, 60)] }
def connackNew : Pkt := { ver := 5, kind := .connack, size := 5, sp := false, rc := some 0, props := [(pRM, 3)] }
end C10ex

/-- non-vacuity of `C10_new_session_by_connack_eq_fresh` on the state `C10ex.s` -/
example : ConnStart C10ex.cfg 5 (.send C10ex.connectNC) C10ex.connectNC ∧ C10ex.connectNC.clean = false ∧
    ConnackRecv C10ex.cfg (step C10ex.cfg (freshNS C10ex.cfg 5 C10ex.s true) (.send C10ex.connectNC)).s
      (.recv [32, 3, 0, 0, 0] (fun _ _ _ => .ok C10ex.connackNew)) C10ex.connackNew ∧
    C10ex.connackNew.rc = some 0 ∧ C10ex.connackNew.sp = false :=
  ⟨.sent C10ex.connectNC rfl rfl (Or.inr rfl) (by decide) (fun _ => by decide), rfl,
   .mk [32, 3, 0, 0, 0] _ Framing.PB.reset 32 [0, 0, 0] [] C10ex.connackNew (by decide) (by decide)
     (by decide) (by decide) (Or.inr (by decide)) (by decide) rfl, rfl, rfl⟩

/-! ## the new-session monitor is a theorem of the model (`VIOL sig=C10 old_session_survives@…`)

The driver flags a call whose events contain a *new-session event* (`Mon.startsNewSession`:
CONNECT with clean start sent / delivered, CONNACK(success, session not present) sent / delivered,
delivered CONNACK(success) whose Session Expiry Interval is 0) and no `NotifyError`, when anything
of the old session is left afterwards.  In the model such a call always ran `clearStoreRelated`. -/

open NSn in
/-- **C10, the call that starts a new session leaves nothing of the old one** (driver monitor
    `VIOL sig=C10 old_session_survives@<site>`).  For every configuration, every state `s` whose
    store holds no CONNECT / CONNACK (`StoreNS`: the store holds PUBLISH / PUBREL only — C05's
    `StoreInv`), every operation (for a `recv`: a parser that answers with the packet type of the
    frame and finds no Session Expiry Interval in a v3.1.1 packet, `ParseNS`): if the events of the
    call contain a new-session event and no error event, then afterwards the store, the three QoS
    wait sets and the set of handled inbound QoS 2 identifiers are empty and the identifier
    allocator is completely free (it is `Alloc.clear` of the old one: a single free interval
    spanning the whole range; no identifier is in use). -/
theorem C10_new_session_leaves_nothing (cfg : Cfg) (s : St) (op : Op)
    (hp : ∀ inp parse, op = .recv inp parse → ParseNS parse) (hst : StoreNS s)
    (hns : Mon.startsNewSession (step cfg s op).ev = true)
    (hne : Mon.hasError (step cfg s op).ev = false) :
    (step cfg s op).s.store = [] ∧ (step cfg s op).s.puback = [] ∧ (step cfg s op).s.pubrec = [] ∧
    (step cfg s op).s.pubcomp = [] ∧ (step cfg s op).s.handled = [] ∧
    (step cfg s op).s.pidMan = Alloc.clear s.pidMan ∧
    (step cfg s op).s.pidMan.pool = [⟨s.pidMan.lowest, s.pidMan.highest⟩] ∧
    ∀ id, isUsed (step cfg s op).s id = false := by
  rcases step_R cfg s op hp hst with h | h | ⟨h1, h2, h3, h4, h5, h6⟩
  · exact absurd h ((startsNewSession_iff _).1 hns)
  · rw [h] at hne; cases hne
  · refine ⟨h1, h2, h3, h4, h5, h6, by rw [h6]; rfl, fun id => ?_⟩
    simp only [isUsed, h6, Alloc.isUsed, Alloc.clear, Alloc.Free]
    by_cases a : s.pidMan.lowest ≤ id <;> by_cases b : id ≤ s.pidMan.highest <;> simp [a, b]

/-- the same in the exact shape of the monitor's allocator test: on an object whose allocator
    manages `[1, idMax]` (`PidRange`: every object made by `new`, preserved by every call) the free
    pool afterwards is the single interval `[1, 256^pw − 1]` -/
theorem C10_new_session_all_ids_free (cfg : Cfg) (s : St) (op : Op) (hr : PidRange cfg s)
    (hp : ∀ inp parse, op = .recv inp parse → NSn.ParseNS parse) (hst : NSn.StoreNS s)
    (hns : Mon.startsNewSession (step cfg s op).ev = true)
    (hne : Mon.hasError (step cfg s op).ev = false) :
    (step cfg s op).s.pidMan.pool = [⟨1, 256 ^ cfg.pw - 1⟩] := by
  have h := (C10_new_session_leaves_nothing cfg s op hp hst hns hne).2.2.2.2.2.2.1
  rw [h, hr.1, hr.2.1]; rfl

namespace C10ex
/-- a CONNACK(success, session present = false) delivered to the reused client `s` (closed, then
    reconnecting without clean start) -/
def sReconn : St := (step cfg (closed cfg s) (.send connectNC)).s
def connackOp : Op := .recv [32, 3, 0, 0, 0] (fun _ _ _ => .ok connackNew)
/-- a parser that satisfies `ParseNS` on this frame and elsewhere answers "malformed" -/
def parseConnack : Nat → Nat → List Nat → Except Nat Pkt :=
  fun _ fh _ => if fh / 16 = 2 then .ok connackNew else .error eMalformed
theorem parseConnack_ok : NSn.ParseNS parseConnack := by
  intro v fh d p h
  simp only [parseConnack] at h
  split at h
  · rename_i h2; cases h; exact ⟨by simp [connackNew, Kind.nibble, h2], fun _ => by decide⟩
  · cases h
end C10ex

/-- the hypotheses of `C10_new_session_leaves_nothing` hold for a state full of session residue
    (stored PUBLISH and PUBREL, wait sets, handled id, ids in use), and the conclusion is not
    vacuous: before the call the store has two entries -/
example : NSn.StoreNS C10ex.sReconn ∧ C10ex.sReconn.store.length = 2 ∧ C10ex.sReconn.handled = [9] ∧
    Mon.startsNewSession (step C10ex.cfg C10ex.sReconn (.recv [32, 3, 0, 0, 0] C10ex.parseConnack)).ev = true ∧
    Mon.hasError (step C10ex.cfg C10ex.sReconn (.recv [32, 3, 0, 0, 0] C10ex.parseConnack)).ev = false ∧
    PidRange C10ex.cfg C10ex.sReconn := by
  refine ⟨?_, by decide, by decide, by decide, by decide, by decide⟩
  intro x hx
  have : C10ex.sReconn.store = [(1, C10ex.pub), (2, C10ex.rel)] := by decide
  rw [this] at hx
  simp only [List.mem_cons, List.not_mem_nil, or_false] at hx
  rcases hx with rfl | rfl <;> decide

/-! ### the two hypotheses are needed (`decide`-checked on the model) -/
namespace C10ex
/-- a store holding a CONNECT with clean start (only reachable through `restorePackets` of a list
    no real export contains): resuming the session "sends" it, the monitor sees a clean CONNECT
    sent, and the store is of course not empty -/
def cfgS : Cfg := ⟨.server, 2⟩
def badStored : Pkt := { ver := 4, kind := .connect, clean := true, pid := some 5, size := 14 }
def sBad : St :=
  { (step cfgS (St.init cfgS 4) (.restorePackets [badStored])).s with status := .connecting }
def connackSP : Pkt := { ver := 4, kind := .connack, rc := some 0, sp := true, size := 4 }
end C10ex

example : ¬ NSn.StoreNS C10ex.sBad ∧
    Mon.startsNewSession (step C10ex.cfgS C10ex.sBad (.send C10ex.connackSP)).ev = true ∧
    Mon.hasError (step C10ex.cfgS C10ex.sBad (.send C10ex.connackSP)).ev = false ∧
    (step C10ex.cfgS C10ex.sBad (.send C10ex.connackSP)).s.store.length = 1 := by
  refine ⟨?_, by decide, by decide, by decide⟩
  intro h
  have : (5, C10ex.badStored) ∈ C10ex.sBad.store := by decide
  exact (h _ this).1 rfl

namespace C10ex
/-- a v3.1.1 CONNACK(session present) "carrying" Session Expiry Interval 0 (no v3.1.1 packet has
    properties; an arbitrary `parse` may claim so): the monitor's rule reads it as a new session,
    the v3.1.1 handler does not look at properties and resumes -/
def cfgC : Cfg := ⟨.client, 2⟩
def pub4 : Pkt := { ver := 4, kind := .publish, qos := 1, pid := some 1, dup := true, topic := [116], size := 7 }
def sC4 : St :=
  { St.init cfgC 4 with
    status := .connecting, needStore := true, store := [(1, pub4)], puback := [1]
    pidMan := (Alloc.useValue (Alloc.new 1 65535 65535) 1).2 }
def connackV4Props : Pkt := { ver := 4, kind := .connack, rc := some 0, sp := true, size := 4, props := [(pSEI, 0)] }
end C10ex

example : Mon.startsNewSession (step C10ex.cfgC C10ex.sC4 (.recv [32, 2, 1, 0] (fun _ _ _ => .ok C10ex.connackV4Props))).ev = true ∧
    Mon.hasError (step C10ex.cfgC C10ex.sC4 (.recv [32, 2, 1, 0] (fun _ _ _ => .ok C10ex.connackV4Props))).ev = false ∧
    (step C10ex.cfgC C10ex.sC4 (.recv [32, 2, 1, 0] (fun _ _ _ => .ok C10ex.connackV4Props))).s.store.length = 1 := by
  decide

end MqttVerif.Conn
