import MqttVerif.Conn.Lemmas.Reconnect
import MqttVerif.Conn.Lemmas.NoPanicHeld5
import MqttVerif.Conn.Lemmas.DiscClean
/-!
# C05 — no peer-controlled input can panic or wedge a connection

Model: `Conn.step` (L2, `Conn/Model.lean`, `Conn/Step.lean`).  A Rust panic is the sticky field
`St.panic`, set only by `C.setPanic`.

## Inventory of the `setPanic` sites of `Conn/Model.lean` and why each is unreachable

| site (model function) | Rust site | unreachable because | lemma |
|---|---|---|---|
| `releaseId` | `value_allocator.rs` range assertion / `value+1` overflow | always called after `is_used_id` (`releaseIfUsed`, `releasePacketId`, `pubRefuseCleanup`), allocator refines a set (`PidWf`, C20) | `PidWf.dealloc_none`, `releaseId_s`, `releaseIfUsed_s` |
| `sendStoredLoop` | `publish_send_count += 1` (a `u32` since fix ab9a1ec) in `send_stored` | counter is reset on entry and grows by one per stored entry; stored ids are pairwise distinct (`StoreInv`) and lie in the allocator's range `[1, idMax]`, `idMax = 256^pw − 1 ≤ u32::MAX` for `pw ≤ 4` (`StoreRange`), so by pigeonhole at most `u32::MAX` entries are stored (`StoreRange.headroom`: `Headroom` is now a lemma, not a side condition) | `sendStoredLoop_s`, `sendStored_s`, `Rng.sr_step`, `Pigeon.keys_length_le` |
| `storeAdd` | `store.add().unwrap()` (v3/v5 PUBLISH, PUBREL) | ownership: stored ids ⊆ wait sets (`StoreInv`), a legal send uses an id in no wait set (`IdFresh`), a legal `release` (fix ba1a812 removes the id from `puback` / `pubrec`) an id no stored packet carries — `C05_release_stored_then_reuse_panics`; the automatic PUBREL follows the removal of the id from `pubrec` and of its stored PUBLISH | `StoreInv.fresh_not_stored`, `storeAdd_s`, `psV3Publish_goodV`, `psV5Publish_goodV`, `psPubrel_goodV`, `prPubrec_goodV` |
| `psV3Publish`, `psV5Publish` | `packet_id().unwrap()` | local contract `PubIdOk` | `psV3Publish_goodV`, `psV5Publish_goodV` |
| `tasInsert` | `TopicAliasSend::insert_or_update` assert | topic non-empty, alias validated / chosen by `get_lru_alias` inside `[1, max]` (`TasInv`) | `tasInsert_s`, `TasInv.lruAlias`, `autoAlias_s` |
| `psV5PublishTail` | `publish_send_count += 1` (`u32`) | gate `count < Receive Maximum ≤ 65535 < u32::MAX` (`Credit`) | `psV5PublishTail_goodV`, `rmBlocked_false` |
| `psV5Publish` | `remove_topic_alias_add_topic().unwrap()` | send alias table holds wildcard-free topics (`TasInv`; topics enter only from `send`, `WfSent`) | `validateTopicAlias_s`, `TasInv.get` |
| `connackRecvProp` ×2 | `assert!(val != 0)` | parser-validated (`WfParsedT`) | `connackRecvProp_goodV` |
| `prV3Publish`, `prV5Publish` ×3 each | `packet_id().unwrap()`, PUBACK/PUBREC `build().unwrap()` | parser rejects QoS>0 without / with zero id (`WfParsedT`) | `prV3Publish_goodV`, `prV5Publish_goodV` |
| `notifyTimerFired` ×2 | `unreachable!()` | timers armed only once the version is determined (`VerTimer`) | `Good.ver_of_flag`, `notifyTimerFired_good` |

All statements quantify over every configuration, every state satisfying the invariant, every
peer input (`recv inp parse` for every `inp` and every parser satisfying `ParserOk`) and every
sequence of calls; nothing is bounded.  The only assumption on the configuration is that packet
identifiers are at most 4 bytes wide (`cfg.pw ≤ 4`; the library instantiates `u16` and `u32`).
-/
set_option linter.unusedSimpArgs false
set_option linter.unusedVariables false
namespace MqttVerif.Conn
open MqttVerif

/-- **the global invariant** (`Good ∧ StoreRange` = `Inv` + "no panic so far").  `StoreRange`
    (new with fix ab9a1ec): stored identifiers lie in the allocator's range, a sub-range of
    `[1, u32::MAX]`. -/
def Inv (s : St) : Prop :=
  PidWf s.pidMan ∧ StoreInv s.ver s.store s.puback s.pubrec s.pubcomp ∧ TasOptInv s.tas ∧
  Credit s.sendMax ∧ Framing.Inv s.pb ∧ VerTimer s.ver s.status s.sendSet s.recvSet s.respSet ∧
  StoreRange s

theorem good_iff (s : St) : (Good s ∧ StoreRange s) ↔ Inv s ∧ s.panic = none := by
  unfold Good Base Inv
  constructor
  · rintro ⟨⟨⟨a, b, c, d, e, f⟩, g⟩, r⟩; exact ⟨⟨a, b, c, d, e, g, r⟩, f⟩
  · rintro ⟨⟨a, b, c, d, e, g, r⟩, f⟩; exact ⟨⟨⟨a, b, c, d, e, f⟩, g⟩, r⟩

/-- the invariant holds for a freshly constructed object (identifiers of at most 4 bytes) -/
theorem C05_inv_init (cfg : Cfg) (ver : Nat) (hpw : 1 ≤ cfg.pw) (h4 : cfg.pw ≤ 4)
    (hv : ver = 0 ∨ ver = 4 ∨ ver = 5) :
    Inv (St.init cfg ver) ∧ (St.init cfg ver).panic = none :=
  (good_iff _).1 ⟨init_good hpw hv, init_range hpw h4⟩

/-- **the store never overflows the counter** (the former side condition, now derived): in a
    state of the invariant class at most `u32::MAX` packets are stored — and, more precisely,
    at most as many as there are identifiers in the allocator's range. -/
theorem C05_headroom (s : St) (hi : Inv s) (hn : s.panic = none) :
    Headroom s ∧ s.store.length ≤ s.pidMan.highest := by
  have h := (good_iff s).2 ⟨hi, hn⟩
  refine ⟨h.2.headroom h.1, ?_⟩
  exact Pigeon.keys_length_le h.1.store.2.2.2.2 (fun x hx => by
    have := h.2.2.2 x hx; have := h.2.1; omega)

/-- **C05, no panic (one call).**  In every state of the invariant class that has not panicked,
    every contract-respecting local call and every `recv` of ARBITRARY bytes with an arbitrary
    parser whose successful results are well formed returns without panic, and the state
    stays in the class.  No bound on the number of stored packets is assumed (`Legal` no longer
    contains `Headroom`).  Since fix ba1a812 `Legal` restricts `release id` to identifiers that no
    stored packet carries (the use `release_packet_id` is documented for: a packet the library did
    not store); without it a panic is reachable, `C05_release_stored_then_reuse_panics`. -/
theorem C05_no_panic (cfg : Cfg) (s : St) (op : Op) (hi : Inv s) (hn : s.panic = none)
    (hl : Legal cfg s op) :
    (step cfg s op).s.panic = none ∧ Inv (step cfg s op).s := by
  have h := (good_iff s).2 ⟨hi, hn⟩
  have := (good_iff _).1 ⟨step_good (cfg := cfg) h.1 h.2 hl, step_range (cfg := cfg) h.1 h.2 op⟩
  exact ⟨this.2, this.1⟩

/-- **C05, no panic (all call sequences from a fresh object)**, for every identifier type of at
    most 4 bytes. -/
theorem C05_no_panic_run (cfg : Cfg) (ver : Nat) (hpw : 1 ≤ cfg.pw) (h4 : cfg.pw ≤ 4)
    (hv : ver = 0 ∨ ver = 4 ∨ ver = 5)
    (ops : List Op) (hl : LegalSeq cfg (St.init cfg ver) ops) :
    (run cfg (St.init cfg ver) ops).panic = none ∧ Inv (run cfg (St.init cfg ver) ops) := by
  have := (good_iff _).1 (run_good (init_good hpw hv) (init_range hpw h4) ops hl)
  exact ⟨this.2, this.1⟩

/-- the contract written out (it was "the same contract without the side condition `Headroom`"
    while `Legal` contained it; since fix ab9a1ec the two coincide: `legalNoHeadroom_iff`) -/
def LegalNoHeadroom (cfg : Cfg) (s : St) : Op → Prop
  | .send p => WfSent p ∧ (p.kind = .publish → PubIdOk s p) ∧ (p.kind = .pubrel → IdFresh s (p.pid.getD 0))
  | .recv _ parse => ParserOk parse
  | .timer k => timerFlag s k = true
  | .restorePackets ps => RestoreOk { cfg := cfg, s := s } ps
  | .release id => storeHas id s.store = false
  | _ => True

def LegalSeqNoHeadroom (cfg : Cfg) : St → List Op → Prop
  | _, [] => True
  | s, op :: ops => LegalNoHeadroom cfg s op ∧ LegalSeqNoHeadroom cfg (step cfg s op).s ops

theorem legalNoHeadroom_iff (cfg : Cfg) (s : St) (op : Op) : LegalNoHeadroom cfg s op ↔ Legal cfg s op := by
  cases op <;> exact Iff.rfl

theorem legalSeqNoHeadroom_iff (cfg : Cfg) (s : St) (ops : List Op) :
    LegalSeqNoHeadroom cfg s ops ↔ LegalSeq cfg s ops := by
  induction ops generalizing s with
  | nil => exact Iff.rfl
  | cons op ops ih =>
    simp only [LegalSeqNoHeadroom, LegalSeq]
    rw [legalNoHeadroom_iff, ih]

/-- the unconditional statement: no side condition on the number of stored packets.  It was left
    unproved while `publish_send_count` was a `u16` (with 4-byte identifiers the store can hold
    more than 65535 packets and `send_stored` then overflowed the counter, finding fixed by
    ab9a1ec).  The hypothesis `cfg.pw ≤ 4` is needed: with identifiers wider than the `u32`
    counter the same overflow would come back. -/
def C05_no_panic_full : Prop :=
  ∀ (cfg : Cfg) (ver : Nat), 1 ≤ cfg.pw → cfg.pw ≤ 4 → (ver = 0 ∨ ver = 4 ∨ ver = 5) →
    ∀ ops, LegalSeqNoHeadroom cfg (St.init cfg ver) ops → (run cfg (St.init cfg ver) ops).panic = none

/-- **C05, no panic, without `Headroom`** (justifies `VIOL sig=C05 panic@…` on every legal walk,
    however many packets are stored) -/
theorem C05_no_panic_full_holds : C05_no_panic_full := by
  intro cfg ver hpw h4 hv ops hl
  exact (C05_no_panic_run cfg ver hpw h4 hv ops ((legalSeqNoHeadroom_iff _ _ _).1 hl)).1

/-- stored packets are PUBLISH / PUBREL packets (part of `StoreInv`; used by the C07 / C10 monitor
    theorems as `StoreNoPubrec` / `StoreNS`) -/
theorem C05_store_kinds (s : St) (hi : Inv s) : ∀ x ∈ s.store, x.2.kind = .publish ∨ x.2.kind = .pubrel :=
  fun x hx => (hi.2.1.1 x.1 x.2 hx).2.2.1

/-! ## C06 `stored_id_not_held`: a stored packet keeps its identifier in use

Stated here because it lives on the invariant of this file (the lemma chains of `Props/C06.lean`
and of this file cannot be imported together).  The contract `Legal` of `C05_no_panic` does NOT
suffice: it restricts `release id` (since fix ba1a812: only identifiers no stored packet carries) but
not the identifier of a SUBSCRIBE / UNSUBSCRIBE, and an application that reuses the identifier of a
stored packet for a SUBSCRIBE makes the statement false (`C06_stored_id_held_needs_ownership`).
With the ownership rule `Hd.LegalIds` it holds in every reachable state. -/

/-- a sequence of calls each of which respects `Legal` and the ownership rule `Hd.LegalIds` -/
def LegalSeqIds (cfg : Cfg) : St → List Op → Prop
  | _, [] => True
  | s, op :: ops => Legal cfg s op ∧ Hd.LegalIds s op ∧ LegalSeqIds cfg (step cfg s op).s ops

theorem LegalSeqIds.legal {cfg : Cfg} : ∀ {s : St} {ops : List Op}, LegalSeqIds cfg s ops → LegalSeq cfg s ops
  | _, [], _ => trivial
  | _, _ :: _, h => ⟨h.1, LegalSeqIds.legal h.2.2⟩

/-- one call: `Held ∧ Disj` (every stored identifier in use; SUBACK / UNSUBACK identifiers disjoint
    from the QoS wait sets) is kept in the invariant class -/
theorem C06_stored_id_held_step (cfg : Cfg) (s : St) (op : Op) (hi : Inv s) (hn : s.panic = none)
    (hh : Hd.HD s) (hl : Legal cfg s op) (hid : Hd.LegalIds s op) : Hd.HD (step cfg s op).s :=
  Hd.step_w ((good_iff s).2 ⟨hi, hn⟩).1 hh hl hid

theorem held_run {cfg : Cfg} : ∀ (ops : List Op) {s : St}, Good s → StoreRange s → Hd.HD s →
    LegalSeqIds cfg s ops → Hd.HD (run cfg s ops)
  | [], _, _, _, h, _ => h
  | op :: ops, _, hg, hr, h, hl =>
    held_run ops (step_good hg hr hl.1) (step_range hg hr op) (Hd.step_w hg h hl.1 hl.2.1) hl.2.2

/-- **C06, `stored_id_not_held`** (driver monitor `VIOL sig=C06 stored_id_not_held@<site>`): in every
    state reachable from a new object by calls that respect `Legal` (the contract of
    `C05_no_panic_run`: arbitrary peer bytes, any parser with well-formed results) and the
    ownership rule `Hd.LegalIds`, every stored packet's identifier is in use. -/
theorem C06_stored_id_held_run (cfg : Cfg) (ver : Nat) (hpw : 1 ≤ cfg.pw) (h4 : cfg.pw ≤ 4)
    (hv : ver = 0 ∨ ver = 4 ∨ ver = 5) (ops : List Op) (hl : LegalSeqIds cfg (St.init cfg ver) ops) :
    ∀ x ∈ (run cfg (St.init cfg ver) ops).store, isUsed (run cfg (St.init cfg ver) ops) x.1 = true :=
  (held_run ops (init_good hpw hv) (init_range hpw h4)
    ⟨by intro x hx; simp [St.init] at hx, by intro i hi; simp [St.init] at hi⟩ hl).1

/-- **C05, the identifier calls are total**: `acquire`, `register id`, `release id`, `erase id`
    for EVERY `id` (0, out of range, free, in flight) never panic — only the allocator's
    representation invariant is needed. -/
theorem C05_idcalls_total (cfg : Cfg) (s : St) (hp : PidWf s.pidMan) (hn : s.panic = none) (id : Nat) :
    (step cfg s .acquire).s.panic = none ∧ (step cfg s (.register id)).s.panic = none ∧
    (step cfg s (.release id)).s.panic = none ∧ (step cfg s (.erase id)).s.panic = none := by
  refine ⟨hn, hn, ?_, ?_⟩
  · obtain ⟨a, _, e⟩ := releaseIfUsed_s (c := { cfg := cfg, s := s }) hp id
    show (releasePacketId { cfg := cfg, s := s } id).s.panic = none
    refine releasePacketId_ind (Q := fun c' => c'.s.panic = none) _ id (by rw [e]; exact hn)
      (fun h => h) (fun h => ?_)
    rcases decSendCount_s_cases (dropWaits (releaseIfUsed { cfg := cfg, s := s } id) id) with e' | e' <;>
      rw [e'] <;> exact h
  · show (eraseStoredPublish { cfg := cfg, s := s } id).s.panic = none
    unfold eraseStoredPublish
    dsimp only
    split
    · have hd : ∀ c : C, (decSendCount c).s.pidMan = c.s.pidMan ∧ (decSendCount c).s.panic = c.s.panic := by
        intro c; unfold decSendCount; split <;> exact ⟨rfl, rfl⟩
      obtain ⟨a, _, e⟩ := releaseIfUsed_s (c := decSendCount { cfg := cfg, s := { s with
          store := (storeErasePublish id s.store).2, puback := del id s.puback, pubrec := del id s.pubrec } })
          (by rw [(hd _).1]; exact hp) id
      rw [e]
      show (decSendCount _).s.panic = none
      rw [(hd _).2]; exact hn
    · exact hn

/-- **C05, no wedge.**  Every complete frame handed to `process_recv_packet` yields a
    delivery, an error event or a PUBREC (`Mon.frameAccounted`), in EVERY state and for every
    parser result (`hp`: a parsed PUBLISH has QoS ≤ 2 and, for QoS>0, a non-zero identifier) —
    except in the situation of known finding #27: a QoS 2 PUBLISH whose identifier is already
    handled arriving while the connection is not established. -/
theorem C05_no_wedge (c : C) (fh : Nat) (data : List Nat) (parse : Nat → Except Nat Pkt)
    (hp : fh / 16 = 3 → ∀ p, parse c.s.ver = .ok p → PubParsedOk p ∧ p.qos ≤ 2)
    (hx : ¬ dupNotConnected c.s fh (parse c.s.ver)) :
    Mon.frameAccounted (processRecvPacket c fh data parse).ev = true :=
  acc_processRecvPacket hp hx

/-- **C05, `recv` consumes input**: the unread rest is a suffix of the input and strictly
    shorter when the input is non-empty, so the application's receive loop terminates. -/
theorem C05_recv_consumes (c : C) (inp : List Nat) (parse : Nat → Nat → List Nat → Except Nat Pkt)
    (hinv : Framing.Inv c.s.pb) :
    (∃ pre, inp = pre ++ (recv c inp parse).2) ∧
    (inp ≠ [] → (recv c inp parse).2.length < inp.length) := by
  rw [recv_rest, Framing.feed_eq_spec _ _ hinv]
  have := Framing.feedSpec_props c.s.pb inp hinv
  exact ⟨this.2.1, this.2.2.1⟩

/-- **C05, after `notify_closed` the object accepts a new connection (client side).**  From ANY
    state (no invariant needed), after `closed` a CONNECT of the connection's version whose
    size is within the protocol limit is accepted by `send`: the events contain the request to
    send it. -/
theorem C05_closed_then_connectable_send (cfg : Cfg) (s : St) (p : Pkt)
    (hr : cfg.role = .client ∨ cfg.role = .any) (hk : p.kind = .connect) (hv : s.ver = p.ver)
    (hsz : p.sz cfg.pw ≤ noLimit) :
    Ev.send p none ∈ (step cfg (step cfg s .closed).s (.send p)).ev := by
  have h := notifyClosed_cv { cfg := cfg, s := s }
  simp only [cv, Prod.mk.injEq] at h
  exact send_connect_accepted (c := { cfg := cfg, s := (step cfg s .closed).s }) hk
    (by show (notifyClosed _).s.ver = _; rw [h.2.2.2.2]; exact hv) hr h.1 h.2.1 hsz

/-- **C05, after `notify_closed` the object accepts a new connection (server side)**, including
    after a transport loss in the middle of a frame: whatever the packet builder held before
    `closed`, a complete CONNECT frame received afterwards (`hf`: it is framed from the *reset*
    builder) that parses is delivered. -/
theorem C05_closed_then_connectable_recv (cfg : Cfg) (s : St) (inp : List Nat)
    (parse : Nat → Nat → List Nat → Except Nat Pkt)
    (pb' : Framing.PB) (fh : Nat) (data rest : List Nat) (p : Pkt)
    (hr : cfg.role = .server ∨ cfg.role = .any) (hv : s.ver = 4 ∨ s.ver = 5)
    (hf : Framing.feed Framing.PB.reset inp = (pb', some (.complete fh data), rest))
    (ht : fh / 16 = 1) (hsz : totalSize data.length ≤ noLimit)
    (hp : parse s.ver fh data = .ok p) :
    Ev.recv p ∈ (step cfg (step cfg s .closed).s (.recv inp parse)).ev := by
  have h := notifyClosed_cv { cfg := cfg, s := s }
  simp only [cv, Prod.mk.injEq] at h
  have hver : (step cfg s .closed).s.ver = s.ver := h.2.2.2.2
  exact recv_connect_delivered (c := { cfg := cfg, s := (step cfg s .closed).s })
    (by show Framing.feed (notifyClosed _).s.pb inp = _; rw [h.2.2.2.1]; exact hf) ht hsz
    (by rw [hver]; exact hv) hr h.1 h.2.2.1 (by rw [hver]; exact hp)

/-! ## the exception of `C05_no_wedge` is real (known finding #27), machine-checked -/

def wedgeCfg : Cfg := { role := .server, pw := 2 }
def wedgeS : St := { St.init wedgeCfg 4 with handled := [1] }
def wedgeP : Pkt := { ver := 4, kind := .publish, qos := 2, pid := some 1, topic := [97] }

/-- a QoS 2 duplicate on a connection that is not established: NO event at all -/
example : (processRecvPacket { cfg := wedgeCfg, s := wedgeS } 0x34 [0, 1, 97, 0, 1] (fun _ => .ok wedgeP)).ev = [] := by
  decide
example : Mon.frameAccounted
    (processRecvPacket { cfg := wedgeCfg, s := wedgeS } 0x34 [0, 1, 97, 0, 1] (fun _ => .ok wedgeP)).ev = false := by
  decide
example : dupNotConnected wedgeS 0x34 (.ok wedgeP) :=
  ⟨by decide, by decide, wedgeP, rfl, rfl, by decide⟩

/-! ## non-vacuity -/

def nvCfg : Cfg := { role := .client, pw := 2 }
def nvConnect : Pkt := { ver := 5, kind := .connect, size := 20, keepAlive := 10, props := [(17, 100)] }
def nvConnack : Pkt := { ver := 5, kind := .connack, size := 8, rc := some 0, props := [(33, 10), (34, 5)] }
def nvPub : Pkt := { ver := 5, kind := .publish, pid := some 1, qos := 2, topic := [97] }
/-- a parser that answers CONNACK for nibble 2 and a QoS 1 PUBLISH with id 7 otherwise -/
def nvParse : Nat → Nat → List Nat → Except Nat Pkt := fun v fh _ =>
  if fh / 16 = 2 then .ok { nvConnack with ver := v }
  else .ok { ver := v, kind := .publish, qos := 1, pid := some 7, topic := [98] }

theorem nvParse_ok : ParserOk nvParse := by
  intro v fh data p h
  unfold nvParse at h
  split at h
  · rename_i ht
    cases h
    refine ⟨rfl, ?_, ?_, ?_⟩
    · intro h3; omega
    · intro _ k x hm hk
      simp [nvConnack] at hm
      rcases hm with ⟨rfl, rfl⟩ | ⟨rfl, rfl⟩ <;> simp
    · intro k x hm hk
      simp [nvConnack] at hm
      rcases hm with ⟨rfl, rfl⟩ | ⟨rfl, rfl⟩ <;> simp_all [pRM]
  · cases h
    exact ⟨rfl, fun _ _ => ⟨7, rfl, by decide⟩, fun _ k x hm => by simp at hm, fun k x hm => by simp at hm⟩

def nvOps : List Op :=
  [.send nvConnect, .recv [0x20, 2, 0, 0] nvParse, .acquire, .send nvPub, .recv [0x30, 3, 0, 1, 98] nvParse,
   .timer .pingreqSend, .recv [0xFF, 0xFF, 0xFF, 0xFF, 0xFF] nvParse, .closed]

example : (run nvCfg (St.init nvCfg 5) (nvOps.take 4)).store.length = 1 := by decide
example : (run nvCfg (St.init nvCfg 5) (nvOps.take 4)).pubrec = [1] := by decide

theorem nvOps_legal : LegalSeq nvCfg (St.init nvCfg 5) nvOps := by
  have nk : ∀ {k : Kind} {P : Prop}, Kind.connect ≠ k → (nvConnect.kind = k → P) :=
    fun hne h => absurd h hne
  have nk' : ∀ {k : Kind} {P : Prop}, Kind.publish ≠ k → (nvPub.kind = k → P) :=
    fun hne h => absurd h hne
  refine ⟨?_, ?_, trivial, ?_, ?_, ?_, ?_, trivial, trivial⟩
  · exact ⟨⟨Or.inr rfl, nk (by decide)⟩, nk (by decide), nk (by decide)⟩
  · exact nvParse_ok
  · refine ⟨⟨Or.inr rfl, fun _ => by decide⟩, fun _ _ => ⟨1, rfl, ?_⟩, nk' (by decide)⟩
    unfold IdFresh; decide
  · exact nvParse_ok
  · show timerFlag _ _ = true; decide
  · exact nvParse_ok

/-- `C05_no_panic_run` applies to a sequence with a CONNECT, a CONNACK carrying Receive
    Maximum and Topic Alias Maximum, a stored QoS 2 PUBLISH, a received PUBLISH, raw garbage,
    a timer expiry and a close -/
example : (run nvCfg (St.init nvCfg 5) nvOps).panic = none :=
  (C05_no_panic_run nvCfg 5 (by decide) (by decide) (by decide) _ nvOps_legal).1

/-- a non-trivial state in the invariant class: connected, Receive Maximum 10, alias table of
    size 5, one stored QoS 2 exchange -/
def nvS : St := run nvCfg (St.init nvCfg 5) (nvOps.take 5)

theorem nvS_good' : Good nvS ∧ StoreRange nvS :=
  run_good (init_good (by decide) (by decide)) (init_range (by decide) (by decide)) _
    ⟨nvOps_legal.1, nvOps_legal.2.1, trivial, nvOps_legal.2.2.2.1, nvOps_legal.2.2.2.2.1, trivial⟩

theorem nvS_good : Good nvS := nvS_good'.1

example : nvS.status = .connected ∧ nvS.sendMax = some 10 ∧ nvS.pubrec = [1] ∧ nvS.store.length = 1 := by
  decide

/-- hypotheses of `C05_no_panic` hold for `nvS` and a `recv` of garbage -/
example : Inv nvS ∧ nvS.panic = none ∧ Legal nvCfg nvS (.recv [0xFF, 0xFF, 0xFF, 0xFF, 0xFF] nvParse) :=
  ⟨((good_iff _).1 nvS_good').1, ((good_iff _).1 nvS_good').2, nvParse_ok⟩

/-- hypotheses of `C05_idcalls_total` -/
example : PidWf nvS.pidMan ∧ nvS.panic = none := ⟨nvS_good.pid, nvS_good.np⟩

/-- hypotheses of `C05_no_wedge`: a QoS 2 duplicate on the established connection `nvS'` -/
example : (3 * 16 + 4) / 16 = 3 ∧
    (∀ p, (fun _ : Nat => Except.ok (ε := Nat) wedgeP) nvS.ver = .ok p → PubParsedOk p ∧ p.qos ≤ 2) ∧
    ¬ dupNotConnected nvS 0x34 (.ok wedgeP) := by
  refine ⟨by decide, ?_, ?_⟩
  · intro p h; cases h; exact ⟨fun _ => ⟨1, rfl, by decide⟩, by decide⟩
  · rintro ⟨_, h, _⟩; exact h (by decide)

/-- hypothesis of `C05_recv_consumes` in a state holding half a frame -/
example : Framing.Inv (step nvCfg nvS (.recv [0x30, 9, 0] nvParse)).s.pb ∧
    (step nvCfg nvS (.recv [0x30, 9, 0] nvParse)).s.pb.buf = [0] :=
  ⟨(step_good (cfg := nvCfg) (op := .recv [0x30, 9, 0] nvParse) nvS_good nvS_good'.2
      nvParse_ok).1.2.2.2.2.1, by decide⟩

/-- hypotheses of `C05_closed_then_connectable_send` (the state holds half a frame) -/
example : (nvCfg.role = .client ∨ nvCfg.role = .any) ∧ nvConnect.kind = .connect ∧
    (step nvCfg nvS (.recv [0x30, 9, 0] nvParse)).s.ver = nvConnect.ver ∧ nvConnect.sz nvCfg.pw ≤ noLimit := by
  decide

/-- hypotheses of `C05_closed_then_connectable_recv`: a 12-byte CONNECT frame -/
example : Framing.feed Framing.PB.reset [0x10, 10, 0, 4, 77, 81, 84, 84, 4, 2, 0, 0] =
    ({}, some (.complete 0x10 [0, 4, 77, 81, 84, 84, 4, 2, 0, 0]), []) ∧ 0x10 / 16 = 1 ∧
    totalSize [0, 4, 77, 81, 84, 84, 4, 2, 0, 0].length ≤ noLimit := by
  decide

/-! ### `Legal` alone does not keep stored identifiers in use

Until fix ba1a812 the witness was `release 1` of the stored PUBLISH's identifier (then unrestricted
by `Legal`).  Since the fix that call is outside `Legal` itself (see
`C05_release_stored_then_reuse_panics` below); the phenomenon remains for `send`, whose identifier
ownership `Legal` does not restrict for SUBSCRIBE / UNSUBSCRIBE. -/

def nvSub : Pkt := { ver := 5, kind := .subscribe, pid := some 1, size := 10 }

/-- the walk of `nvOps` up to the stored QoS 2 PUBLISH (id 1), then a SUBSCRIBE that takes the same
    identifier and `notify_closed` (which releases the identifiers awaited by SUBACK): every call is
    `Legal`, the invariant holds, nothing panics — and the stored packet's identifier is free.
    (`send` of a SUBSCRIBE with an identifier that a stored packet carries violates `Hd.LegalIds`.) -/
theorem C06_stored_id_held_needs_ownership :
    LegalSeq nvCfg (St.init nvCfg 5) (nvOps.take 4 ++ [.send nvSub, .closed]) ∧
    (run nvCfg (St.init nvCfg 5) (nvOps.take 4 ++ [.send nvSub, .closed])).store.map (·.1) = [1] ∧
    isUsed (run nvCfg (St.init nvCfg 5) (nvOps.take 4 ++ [.send nvSub, .closed])) 1 = false ∧
    ¬ Hd.LegalIds (run nvCfg (St.init nvCfg 5) (nvOps.take 4)) (.send nvSub) := by
  refine ⟨⟨nvOps_legal.1, nvOps_legal.2.1, trivial, nvOps_legal.2.2.2.1, ?_, trivial, trivial⟩, by decide, by decide, ?_⟩
  · exact ⟨⟨Or.inr rfl, fun hk => absurd hk (by decide)⟩, fun hk => absurd hk (by decide),
      fun hk => absurd hk (by decide)⟩
  · intro h
    have := h.2.2 (.inl rfl)
    revert this
    unfold Hd.Unowned
    decide

/-- **`release` of a stored packet's identifier is outside the contract since fix ba1a812 — and has
    to be**: the walk of `nvOps` up to the stored QoS 2 PUBLISH (id 1, awaited by PUBREC), then
    `release 1`.  The release violates only the clause `storeHas id store = false` of `Legal`.  It
    frees the identifier and (new with the fix) removes it from `pubrec` and gives the credit back,
    but the packet stays stored: the stored packet has a free identifier in no wait set.  `acquire`
    then hands out 1 again, the same PUBLISH is `Legal` to send (`IdFresh`: no wait set holds 1) and
    panics at `store.add().unwrap()`.  (Before the fix the stale `pubrec` entry made that second
    send illegal; the implementation panics on this call sequence before and after the fix.) -/
theorem C05_release_stored_then_reuse_panics :
    LegalSeq nvCfg (St.init nvCfg 5) (nvOps.take 4) ∧
    ¬ Legal nvCfg (run nvCfg (St.init nvCfg 5) (nvOps.take 4)) (.release 1) ∧
    (run nvCfg (St.init nvCfg 5) (nvOps.take 4 ++ [.release 1])).store.map (·.1) = [1] ∧
    isUsed (run nvCfg (St.init nvCfg 5) (nvOps.take 4 ++ [.release 1])) 1 = false ∧
    (run nvCfg (St.init nvCfg 5) (nvOps.take 4)).pubrec = [1] ∧
    (run nvCfg (St.init nvCfg 5) (nvOps.take 4 ++ [.release 1])).pubrec = [] ∧
    (run nvCfg (St.init nvCfg 5) (nvOps.take 4 ++ [.release 1])).panic = none ∧
    Legal nvCfg (run nvCfg (St.init nvCfg 5) (nvOps.take 4 ++ [.release 1])) .acquire ∧
    Legal nvCfg (run nvCfg (St.init nvCfg 5) (nvOps.take 4 ++ [.release 1, .acquire])) (.send nvPub) ∧
    (run nvCfg (St.init nvCfg 5) (nvOps.take 4 ++ [.release 1, .acquire, .send nvPub])).panic =
      some "core.rs:process_send_v5_0_publish:store.add().unwrap()" := by
  refine ⟨⟨nvOps_legal.1, nvOps_legal.2.1, trivial, nvOps_legal.2.2.2.1, trivial⟩, ?_, by decide, by decide,
    by decide, by decide, by decide, trivial, ?_, by decide⟩
  · show ¬ (storeHas 1 _ = false)
    decide
  · refine ⟨⟨Or.inr rfl, fun _ => by decide⟩, fun _ _ => ⟨1, rfl, ?_⟩, fun hk => absurd hk (by decide)⟩
    unfold IdFresh; decide

/-- the hypotheses of `C06_stored_id_held_run` are satisfiable by the same walk without the reuse of the identifier:
    the PUBLISH id 1 was acquired for it and is owned by nothing when it is sent -/
theorem nvOps_legalIds : LegalSeqIds nvCfg (St.init nvCfg 5) (nvOps.take 5) := by
  have h := nvOps_legal
  refine ⟨h.1, ?_, h.2.1, trivial, trivial, trivial, h.2.2.2.1, ?_, h.2.2.2.2.1, trivial, trivial⟩
  · exact ⟨fun hk => absurd hk (by decide), fun hk => absurd hk (by decide), fun hk => absurd hk (by decide)⟩
  · refine ⟨fun _ id hid => ?_, fun hk => absurd hk (by decide), fun hk => absurd hk (by decide)⟩
    have : id = 1 := by simpa [nvPub] using hid.symm
    subst this
    unfold Hd.Unowned
    decide

example : ∀ x ∈ (run nvCfg (St.init nvCfg 5) (nvOps.take 5)).store,
    isUsed (run nvCfg (St.init nvCfg 5) (nvOps.take 5)) x.1 = true :=
  C06_stored_id_held_run nvCfg 5 (by decide) (by decide) (by decide) _ nvOps_legalIds


/-! ## a disconnected object accepts a new connection — in EVERY disconnected state

Driver monitors `VIOL sig=C05 connect_refused_while_disconnected@<site>` and
`VIOL sig=C05 connect_not_accepted_while_disconnected@<site>`.  `C05_closed_then_connectable_send/_recv`
are about the state right after `closed`.  For an arbitrary disconnected state the only thing that
can stand between a CONNECT and its acceptance is a Maximum Packet Size of the *previous*
connection: `mpsSend` (peer's limit, tested by `process_send_v5_0_connect`) and `mpsRecv` (our
limit, tested by `process_recv_packet`) are reset by `notify_closed` only, whereas the status
becomes `disconnected` already when a DISCONNECT / refusing CONNACK is sent or a protocol error /
keep-alive timeout is handled.  So:
* `C05_connect_sent_when_disconnected` / `C05_connect_delivered_when_disconnected`: in ANY
  disconnected state (no invariant, panic or not) a CONNECT that respects the limit currently
  stored is accepted; v3.1.1 `send` has no size test at all;
* `C05_stale_limit_refuses_connect_*`: the limit hypothesis is needed — reachable counter-examples
  (the application reconnects after a close request without calling `notify_closed`);
* `C05_disc_clean_step/_run`: the covered reachable states — every state reached by a sequence of
  calls in which each close request (`RequestClose`) is followed by `notify_closed` before anything
  else carries no limit while disconnected (`DiscClean`), so every CONNECT within the protocol
  maximum is accepted (`C05_connectable_send` / `C05_connectable_recv`). -/

/-- **C05 connect_refused_while_disconnected.**  In ANY state with status `disconnected` (no
    invariant; whatever `panic` holds) a CONNECT of the connection's version handed to `send` by
    a role that may send it is requested for sending — provided, for v5.0, that it fits the peer
    limit currently stored (`mpsSend`; "no limit" after `closed`: `C05_disc_clean_run`). -/
theorem C05_connect_sent_when_disconnected (cfg : Cfg) (s : St) (p : Pkt)
    (hr : cfg.role ≠ .server) (hk : p.kind = .connect) (hv : s.ver = p.ver)
    (hs : s.status = .disconnected) (hsz : p.ver = 4 ∨ p.sz cfg.pw ≤ s.mpsSend) :
    Ev.send p none ∈ (step cfg s (.send p)).ev := by
  have hrole : roleMaySend cfg.role p = true := by
    simp only [roleMaySend, hk]; cases hc : cfg.role <;> simp_all
  show Ev.send p none ∈ (send { cfg := cfg, s := s } p).ev
  unfold send
  simp only [hv, ne_eq, not_true_eq_false, if_false, hrole, Bool.not_true, Bool.false_eq_true]
  unfold processSend
  split
  · simp only [hk]
    unfold psV3Connect
    simp only [hs, ne_eq, not_true_eq_false, if_false]
    apply mem_spp_of_mem
    simp [C.push]
  · rename_i h4
    have hso : sizeOk { cfg := cfg, s := s } p = true := by
      rcases hsz with e | e
      · exact absurd e h4
      · simp [sizeOk]; omega
    simp only [hk]
    unfold psV5Connect
    simp only [hso, hs, ne_eq, not_true_eq_false, if_false, Bool.not_true, Bool.false_eq_true]
    apply mem_spp_of_mem
    simp [C.push]

/-- **C05 connect_not_accepted_while_disconnected.**  In ANY state with status `disconnected`, for a
    role that may receive a CONNECT: a complete CONNECT frame (`ht`) that fits the limit currently
    stored (`mpsRecv`) and that the parser accepts is delivered — the connection's version being
    determined (`hv`: parsed for that version) or undetermined (then the frame carries protocol
    level 4 or 5 at its seventh byte and is parsed for that version). -/
theorem C05_connect_delivered_when_disconnected (cfg : Cfg) (s : St) (inp : List Nat)
    (parse : Nat → Nat → List Nat → Except Nat Pkt)
    (pb' : Framing.PB) (fh : Nat) (data rest : List Nat) (p : Pkt)
    (hr : cfg.role ≠ .client) (hs : s.status = .disconnected)
    (hf : Framing.feed s.pb inp = (pb', some (.complete fh data), rest))
    (ht : fh / 16 = 1) (hsz : totalSize data.length ≤ s.mpsRecv)
    (hv : (s.ver ≠ 0 ∧ parse s.ver fh data = .ok p) ∨
          (s.ver = 0 ∧ 7 ≤ data.length ∧ (data.getD 6 0 = 4 ∨ data.getD 6 0 = 5) ∧
            parse (data.getD 6 0) fh data = .ok p)) :
    Ev.recv p ∈ (step cfg s (.recv inp parse)).ev := by
  have hcr : canReceive cfg { s with pb := pb' } 1 = true := by
    cases hc : cfg.role <;> simp_all [canReceive]
  show Ev.recv p ∈ (recv { cfg := cfg, s := s } inp parse).1.ev
  unfold recv
  rw [hf]
  dsimp only
  unfold processRecvPacket
  have h1 : ¬ (totalSize data.length > s.mpsRecv) := by omega
  simp only [h1, if_false, ht, hcr, Bool.not_true, Bool.false_eq_true]
  rcases hv with ⟨h0, hp⟩ | ⟨h0, hl, hlv, hp⟩
  · simp only [h0, if_false]
    unfold dispatchRecv
    simp only
    split
    · unfold prV3Connect
      simp only [hs, ne_eq, not_true_eq_false, if_false, hp]
      simp [C.push]
    · unfold prV5Connect
      simp only [hs, ne_eq, not_true_eq_false, if_false, hp]
      simp [C.push]
  · have hl' : ¬ data.length < 7 := by omega
    simp only [h0, if_true, hl', if_false]
    rcases hlv with e | e
    · rw [e] at hp
      simp only [e, if_true]
      unfold prV3Connect
      simp only [hs, ne_eq, not_true_eq_false, if_false, hp]
      simp [C.push]
    · rw [e] at hp
      have : ¬ ((5 : Nat) = 4) := by decide
      simp only [e, this, if_false, if_true]
      unfold prV5Connect
      simp only [hs, ne_eq, not_true_eq_false, if_false, hp]
      simp [C.push]

/-- a disconnected connection carries no Maximum Packet Size of a dead connection -/
def DiscClean (s : St) : Prop := s.status = .disconnected → s.mpsSend = noLimit ∧ s.mpsRecv = noLimit

theorem DiscClean.goodK {cfg : Cfg} {s : St} (h : DiscClean s) : DC.GoodK (DC.K { cfg := cfg, s := s }) := by
  by_cases hs : s.status = .disconnected
  · exact .inr (.inr (h hs))
  · exact .inr (.inl hs)

theorem DiscClean.of_goodK {c : C} (h : DC.GoodK (DC.K c)) (hc : Mon.hasClose c.ev = false) : DiscClean c.s := by
  intro hs
  rcases h with h | h | h
  · simp only [DC.K] at h; rw [hc] at h; cases h
  · exact absurd hs h
  · exact h

theorem C05_disc_clean_init (cfg : Cfg) (ver : Nat) : DiscClean (St.init cfg ver) := fun _ => ⟨rfl, rfl⟩

/-- `notify_closed` establishes `DiscClean` from ANY state -/
theorem C05_disc_clean_closed (cfg : Cfg) (s : St) : DiscClean (step cfg s .closed).s :=
  fun _ => DC.good_notifyClosed { cfg := cfg, s := s }

/-- **every call keeps `DiscClean` unless it requests the transport to be closed**: the limits
    change only in calls that leave the status `connecting` / `connected`, and every site that
    sets the status to `disconnected` pushes `RequestClose` (`notify_closed` resets the limits).
    Every operation, every packet, every peer input and parser; no invariant. -/
theorem C05_disc_clean_step (cfg : Cfg) (s : St) (op : Op) (h : DiscClean s)
    (hc : Mon.hasClose (step cfg s op).ev = false) : DiscClean (step cfg s op).s := by
  have g : DC.GoodK (DC.K ({ cfg := cfg, s := s } : C)) := h.goodK
  by_cases hop : op = .closed
  · subst hop; exact C05_disc_clean_closed cfg s
  refine DiscClean.of_goodK ?_ hc
  cases op with
  | send p => exact DC.good_send g p
  | recv inp parse => exact DC.good_recv g inp parse
  | timer k => exact DC.good_notifyTimerFired g k
  | closed => exact absurd rfl hop
  | setInterval d => exact DC.good_congr (DC.K_setPingreqSendInterval _ d) g
  | setFlag f b => cases f <;> exact g
  | setRespTimeout ms => exact g
  | acquire => exact g
  | register id => exact g
  | release id => exact DC.good_congr (DC.K_releasePacketId _ id) g
  | erase id => exact DC.good_congr (DC.K_eraseStoredPublish _ id) g
  | restoreHandled ids => exact g
  | restorePackets ps => exact DC.good_congr (DC.K_restorePackets ps _) g

/-- the application obeys close requests: after a call whose events contain `RequestClose`, the
    next call (if any) is `notify_closed` -/
def ObeysClose (cfg : Cfg) : St → List Op → Prop
  | _, [] => True
  | s, op :: ops =>
    (Mon.hasClose (step cfg s op).ev = true → ops = [] ∨ ops.head? = some .closed) ∧
    ObeysClose cfg (step cfg s op).s ops

/-- the last call of the sequence requested a close (which is still to be obeyed) -/
def closePending (cfg : Cfg) : St → List Op → Bool
  | _, [] => false
  | s, [op] => Mon.hasClose (step cfg s op).ev
  | s, op :: op' :: ops => closePending cfg (step cfg s op).s (op' :: ops)

/-- **run level: the reachable states covered.**  Along every sequence of calls that obeys close
    requests, from a `DiscClean` state (a fresh object: `C05_disc_clean_init`), the state is
    `DiscClean` unless the very last call requested a close. -/
theorem C05_disc_clean_run (cfg : Cfg) (ops : List Op) (s : St)
    (h : DiscClean s ∨ ops.head? = some .closed) (ho : ObeysClose cfg s ops) :
    DiscClean (run cfg s ops) ∨ closePending cfg s ops = true := by
  induction ops generalizing s with
  | nil =>
    rcases h with h | h
    · exact .inl h
    · cases h
  | cons op ops ih =>
    have hstep : Mon.hasClose (step cfg s op).ev = false → DiscClean (step cfg s op).s := by
      intro hc
      rcases h with h | h
      · exact C05_disc_clean_step cfg s op h hc
      · simp only [List.head?_cons, Option.some.injEq] at h
        subst h; exact C05_disc_clean_closed cfg s
    cases ops with
    | nil =>
      simp only [run, closePending]
      cases hc : Mon.hasClose (step cfg s op).ev
      · exact .inl (hstep hc)
      · exact .inr rfl
    | cons op' ops' =>
      simp only [run, closePending]
      refine ih (step cfg s op).s ?_ ho.2
      cases hc : Mon.hasClose (step cfg s op).ev
      · exact .inl (hstep hc)
      · rcases ho.1 hc with e | e
        · cases e
        · exact .inr e

/-- **C05 connect_refused_while_disconnected, covered states**: in a `DiscClean` state every
    CONNECT within the protocol's own maximum is requested for sending -/
theorem C05_connectable_send (cfg : Cfg) (s : St) (p : Pkt) (hd : DiscClean s)
    (hr : cfg.role ≠ .server) (hk : p.kind = .connect) (hv : s.ver = p.ver)
    (hs : s.status = .disconnected) (hsz : p.sz cfg.pw ≤ noLimit) :
    Ev.send p none ∈ (step cfg s (.send p)).ev :=
  C05_connect_sent_when_disconnected cfg s p hr hk hv hs (.inr (by rw [(hd hs).1]; exact hsz))

/-- **C05 connect_not_accepted_while_disconnected, covered states** -/
theorem C05_connectable_recv (cfg : Cfg) (s : St) (inp : List Nat)
    (parse : Nat → Nat → List Nat → Except Nat Pkt)
    (pb' : Framing.PB) (fh : Nat) (data rest : List Nat) (p : Pkt) (hd : DiscClean s)
    (hr : cfg.role ≠ .client) (hs : s.status = .disconnected)
    (hf : Framing.feed s.pb inp = (pb', some (.complete fh data), rest))
    (ht : fh / 16 = 1) (hsz : totalSize data.length ≤ noLimit)
    (hv : (s.ver ≠ 0 ∧ parse s.ver fh data = .ok p) ∨
          (s.ver = 0 ∧ 7 ≤ data.length ∧ (data.getD 6 0 = 4 ∨ data.getD 6 0 = 5) ∧
            parse (data.getD 6 0) fh data = .ok p)) :
    Ev.recv p ∈ (step cfg s (.recv inp parse)).ev :=
  C05_connect_delivered_when_disconnected cfg s inp parse pb' fh data rest p hr hs hf ht
    (by rw [(hd hs).2]; exact hsz) hv

/-! ### the limit hypothesis is needed: reachable counter-examples, and non-vacuity -/
namespace C05Ex
def cfgC : Cfg := { role := .client, pw := 2 }
def cfgS : Cfg := { role := .server, pw := 2 }
def connect : Pkt := { ver := 5, kind := .connect, size := 20, keepAlive := 10 }
def connackMps (n : Nat) : Pkt := { ver := 5, kind := .connack, size := 8, rc := some 0, props := [(pMPS, n)] }
def disc : Pkt := { ver := 5, kind := .disconnect, size := 2 }
def okp (p : Pkt) : Nat → Nat → List Nat → Except Nat Pkt := fun _ _ _ => .ok p
def connectBytes : List Nat := [0x10, 10, 0, 4, 77, 81, 84, 84, 5, 2, 0, 0]

/-- client: CONNECT, CONNACK announcing Maximum Packet Size 10, DISCONNECT sent (close requested)
    — and, WITHOUT `notify_closed`, a new CONNECT of 20 bytes -/
def opsC : List Op := [.send connect, .recv [0x20, 3, 0, 0, 0] (okp (connackMps 10)), .send disc]
def sC : St := run cfgC (St.init cfgC 5) opsC

/-- the monitor's guard holds (disconnected, role client, version 5) yet the CONNECT is refused
    with `PacketTooLarge`: the limit of the dead connection is still in force -/
theorem C05_stale_limit_refuses_connect_send :
    sC.status = .disconnected ∧ sC.mpsSend = 10 ∧ sC.panic = none ∧
    (step cfgC sC (.send connect)).ev = [.error eTooLarge] ∧
    ¬ DiscClean sC ∧ closePending cfgC (St.init cfgC 5) opsC = true ∧
    ¬ ObeysClose cfgC (St.init cfgC 5) (opsC ++ [.send connect]) := by
  refine ⟨by decide, by decide, by decide, by decide, ?_, by decide, ?_⟩
  · intro h; exact absurd (h (by decide)).1 (by decide)
  · intro h
    have := h.2.2.1 (by decide)
    simp at this

/-- with `notify_closed` in between the same CONNECT is requested for sending
    (`C05_disc_clean_run` + `C05_connectable_send`) -/
theorem opsC_obeys : ObeysClose cfgC (St.init cfgC 5) (opsC ++ [.closed]) :=
  ⟨fun h => absurd h (by decide), fun h => absurd h (by decide), fun _ => .inr rfl, fun _ => .inl rfl, trivial⟩
example : Ev.send connect none ∈ (step cfgC (run cfgC (St.init cfgC 5) (opsC ++ [.closed])) (.send connect)).ev := by
  have hd := C05_disc_clean_run cfgC (opsC ++ [.closed]) (St.init cfgC 5) (.inl (C05_disc_clean_init _ _))
    opsC_obeys
  have hd' : DiscClean (run cfgC (St.init cfgC 5) (opsC ++ [.closed])) := by
    rcases hd with h | h
    · exact h
    · exact absurd h (by decide)
  exact C05_connectable_send cfgC _ connect hd' (by decide) rfl (by decide) (by decide) (by decide)

/-- server: CONNECT delivered, CONNACK sent announcing Maximum Packet Size 10, DISCONNECT sent
    (close requested) — and, WITHOUT `notify_closed`, a new 12-byte CONNECT frame arrives -/
def opsS : List Op := [.recv connectBytes (okp connect), .send (connackMps 10), .send disc]
def sS : St := run cfgS (St.init cfgS 5) opsS

theorem C05_stale_limit_refuses_connect_recv :
    sS.status = .disconnected ∧ sS.mpsRecv = 10 ∧ sS.panic = none ∧ sS.pb = {} ∧
    Framing.feed sS.pb connectBytes = ({}, some (.complete 0x10 (connectBytes.drop 2)), []) ∧
    (step cfgS sS (.recv connectBytes (okp connect))).ev = [.error eNotAllowed, .error eTooLarge] ∧
    ¬ DiscClean sS := by
  refine ⟨by decide, by decide, by decide, by decide, by decide, by decide, ?_⟩
  intro h; exact absurd (h (by decide)).2 (by decide)

/-- non-vacuity of `C05_connect_delivered_when_disconnected`, undetermined version: a fresh
    server object of undetermined version adopts the frame's protocol level -/
example : Ev.recv connect ∈ (step cfgS (St.init cfgS 0) (.recv connectBytes (okp connect))).ev :=
  C05_connect_delivered_when_disconnected cfgS (St.init cfgS 0) connectBytes (okp connect) {} 0x10
    (connectBytes.drop 2) [] connect (by decide) rfl (by decide) (by decide) (by decide)
    (.inr ⟨rfl, by decide, .inr (by decide), rfl⟩)

/-- v3.1.1 has no size test: a stale limit does not matter -/
example : Ev.send { connect with ver := 4 } none ∈
    (step cfgC { sC with ver := 4 } (.send { connect with ver := 4 })).ev :=
  C05_connect_sent_when_disconnected cfgC { sC with ver := 4 } _ (by decide) rfl rfl (by decide) (.inl rfl)
end C05Ex

end MqttVerif.Conn
