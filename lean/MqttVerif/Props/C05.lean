import MqttVerif.Conn.Lemmas.Basic
import MqttVerif.Props.C09
/-!
# C05 — no peer-controlled input can panic or wedge a connection (first instalment)
-/
set_option linter.unusedSimpArgs false
set_option linter.unusedVariables false
namespace MqttVerif.Conn
open MqttVerif

/-- a framing error is reported: timers cancelled, close requested, error notified -/
theorem C05_frame_error_reported (c : C) (inp : List Nat) (parse : Nat → Nat → List Nat → Except Nat Pkt)
    (h : (Framing.feed c.s.pb inp).2.1 = some .error) :
    .error eMalformed ∈ (recv c inp parse).1.ev ∧ .close ∈ (recv c inp parse).1.ev := by
  unfold recv
  cases hf : Framing.feed c.s.pb inp with
  | mk pb r =>
    obtain ⟨out, rest⟩ := r
    rw [hf] at h
    simp only at h
    subst h
    simp

/-- the unread rest returned by `recv` is a suffix of the buffer, and at most one frame is
    taken per call (whatever the peer sent): from the framing theorem of C09 -/
theorem C05_recv_consumes_prefix (c : C) (inp : List Nat) (parse : Nat → Nat → List Nat → Except Nat Pkt)
    (hi : Framing.Inv c.s.pb) : ∃ consumed, inp = consumed ++ (recv c inp parse).2 := by
  have := (Framing.C09_feed_is_bytewise c.s.pb inp hi).2
  unfold recv
  cases hf : Framing.feed c.s.pb inp with
  | mk pb r =>
    obtain ⟨out, rest⟩ := r
    rw [hf] at this
    cases out with
    | none => simpa using this
    | some o => cases o <;> simpa using this

/-- fix (finding #7): a received CONNECT announcing Topic Alias Maximum 0 creates no alias
    table (the allocator constructor would assert `1 <= 0`) -/
theorem C05_tam_zero_no_table (c : C) : connectRecvProp c pTAM 0 = c := by
  simp [connectRecvProp]

/-- a frame whose type the role may not receive is reported as a protocol error, state unchanged,
    without ever being parsed -/
theorem C05_role_gate_reports (c : C) (fh : Nat) (data : List Nat) (parse : Nat → Except Nat Pkt)
    (hs : ¬ totalSize data.length > c.s.mpsRecv) (hg : canReceive c.cfg c.s (fh / 16) = false) :
    processRecvPacket c fh data parse = c.err eProtocol := by
  simp [processRecvPacket, hs, hg]

example : Framing.Inv (St.init ⟨.server, 2⟩ 0).pb := by intro h; simp [St.init] at h

end MqttVerif.Conn
