import MqttVerif.Conn.Lemmas.PairRuns5
import MqttVerif.Conn.Lemmas.PairRuns6
import MqttVerif.Conn.Lemmas.PairTabG5_11t
import MqttVerif.Conn.Lemmas.PairTabG5_12t
import MqttVerif.Conn.Lemmas.PairTabG5_21t
import MqttVerif.Conn.Lemmas.PairTabG5_22t
import MqttVerif.Conn.Lemmas.PairTabG5_11f
import MqttVerif.Conn.Lemmas.PairTabG5_12f
import MqttVerif.Conn.Lemmas.PairTabG5_21f
import MqttVerif.Conn.Lemmas.PairTabG5_22f
import MqttVerif.Conn.Lemmas.PairTabG6_11
import MqttVerif.Conn.Lemmas.PairTabG6_12
import MqttVerif.Conn.Lemmas.PairTabG6_21
import MqttVerif.Conn.Lemmas.PairTabG6_22
/-!
# C01 at the level of the two `Conn` models (L2): two exchanges in flight at once - opposite
# directions, transport losses, any schedule

Continues `Props/C01L2.lean` (one exchange, one loss) and `Props/C01L2b.lean` (T1 arbitrary loss schedules
for one exchange, T2 sequences of exchanges, T3 two same-direction exchanges in flight without loss).
Same system: the client model and the server model of `Conn/Model.lean`, joined by two FIFO channels of
packets (`Pair.Sys`), `established v` as starting point, `v ∈ {4, 5}`, arbitrary application PUBLISH
packets (`IsPub v q P` / `IsPubN v q 2 P`: version, QoS, the identifier the allocator handed out, no
Topic Alias, non-empty topic without wildcard, encodable size; retain, payload, properties arbitrary),
`q1, q2 ∈ {1, 2}` independently.  `Obs2 tgt NS NC RC RS y` (`Conn/Lemmas/PairExchange4.lean`): `y` has the endpoint
states and channels of `tgt`, no `.error` event in either log, the server application was notified of
exactly the PUBLISH packets `NS`, the client application of `NC`, the client released exactly the identifiers
`RC`, the server `RS`.  With `tgt = established v` this is quiescence (`Quiet`: both endpoints `idle` - stores, wait
sets, `handled`, `publish_recv` empty, every identifier free, connected -, both channels empty).

**T4 - two exchanges in OPPOSITE directions at once.**  `startBoth v P1 P2`: the client application
acquires an identifier (1) and sends `P1`, the server application acquires an identifier (1 of its own
allocator: `C01_l2c_opposite_ids`) and sends `P2`, before anything is delivered (`startBoth_comm`: the order of the
two applications' calls is irrelevant; `C01_l2c_opposite_in_flight`: both PUBLISH packets are in the channels).
* `C01_l2c_opposite`: after the deterministic schedule `drain n` (`8 ≤ n`; head of the client→server channel
  first): `Obs2 (established v) [P1] [P2] [1] [1]`: quiescent, no error, the server application notified of
  exactly `[P1]`, the client application of exactly `[P2]`, each side released identifier 1 exactly once.
* `C01_l2c_opposite_any_order` (`C01_l2c_opposite_delivery`: spelled out): the same after ANY interleaving
  `σ : List Side` of deliveries to the two endpoints (an action on an empty channel does nothing) followed by
  `drain n`: the final state, logs included, is the one of the deterministic order (confluence `drain_runSides`).

**T5 - one transport loss while two SAME-direction exchanges are in flight, exact outcome.**
`startTwo v d P1 P2` of T3 (identifiers 1 and 2, both directions `d`).  The schedule: `k` deliveries of the
loss-free schedule `drain`, then `lose` (both channels emptied, `.closed` at both endpoints) followed at once by
`resume v` (CONNECT clean = false / CONNACK session present, run atomically; the models' `sendStored` /
`resendStored` retransmit the stored packets in store order), then `drain n`, `8 ≤ n`.  `k` ranges over ALL
naturals (beyond the length of the loss-free schedule the loss hits an idle session).
* `C01_l2c_two_in_flight_one_loss`: for every `k`: `Obs d (established v) (t5notes d q1 q2 k P1 P2) (t5rel q1 q2)`:
  quiescent, no error, the publisher notified of no PUBLISH, the receiver releasing nothing, the publisher
  releasing 1 and 2 once each (`t5rel`: in the order the exchanges complete), the receiving application notified
  of exactly the list `t5notes …` (an explicit table, `PairExchange4.lean`).
* `C01_l2c_t5notes_spec`: the table satisfies `DeliverySpec q1 q2 P1 P2`: every notification is `P1` or `P2` up to
  the DUP flag; those carrying identifier 1 are copies of `P1`, at least one, exactly one if `q1 = 2`; likewise
  identifier 2 / `P2` / `q2`.  `C01_l2c_two_in_flight_one_loss_delivery` combines the two.  The duplicates are real:
  `q1 = q2 = 1`, client publishes, `k = 2` (both PUBACKs lost): `[P1, P2, P1.asDup, P2.asDup]`.

**T6 - one transport loss while two OPPOSITE exchanges are in flight, exact outcome** (T4's start, T5's schedule).
* `C01_l2c_opposite_one_loss`: for every `k`: `Obs2 (established v) (t6notesS q1 k P1) (t6notesC q2 k P2) [1] [1]`.
* `C01_l2c_t6notes_spec`, `C01_l2c_opposite_one_loss_delivery`: each application is notified only of copies of
  the message sent to it, at least once, exactly once for QoS 2.

**T7 - ANY schedule.**  A schedule is any `acts : List Act4` (`Conn/Lemmas/PairSched.lean`): `toS` / `toC` = deliver the
head of the client→server / server→client channel (nothing happens if it is empty), `deliver` = the
deterministic choice of `drain`, `lose` = `lose` followed at once by `resume v`; in any order, any number of
each - so: any interleaving of deliveries, any number of losses at any points, a loss right after a loss.
After `acts` and a final `drain n` (`8 ≤ n`):
* `C01_l2c_two_in_flight_any_schedule` (start `startTwo v d P1 P2`): quiescent, no error, the publisher notified of no
  PUBLISH, the receiver releases nothing, the receiving application's notifications satisfy
  `DeliverySpec q1 q2 P1 P2` (only copies of the two messages, each at least once, a QoS 2 message EXACTLY once),
  the publisher released identifiers 1 and 2 exactly once each (`RelSpec`);
* `C01_l2c_opposite_any_schedule` (start `startBoth v P1 P2`): quiescent, no error, each application notified only
  of copies of the message sent to it, at least once, exactly once for QoS 2, each side released identifier 1
  exactly once;
* `C01_l2c_two_in_flight_safety`, `C01_l2c_opposite_safety`: at ANY moment of any schedule (nothing drained) neither
  side has reported an error;
* corollaries in the vocabulary of the earlier files: `C01_l2c_two_in_flight_loss_after_any_interleaving`,
  `C01_l2c_opposite_loss_after_any_interleaving` (T5 / T6 with arbitrary interleavings `σ`, `τ : List Side` before and
  after the loss), `C01_l2c_two_in_flight_any_losses` (schedules `List Act` of T1).
T7 subsumes the delivery clauses of T4, T5, T6; those theorems add the exact notification lists.

**How it is proved.**  `Conn/Lemmas/PairExchange3.lean` computes every delivery on
`mkSt v b .connected pool store pa pr pc h prv` for ARBITRARY lists in the fields the handler does not read (the sender
half of an endpoint uses pool / store / wait sets, the receiver half `handled` / `publish_recv`) and the resumption for
any number of stored packets.  T4-T6: `PairRuns5.lean` / `PairRuns6.lean` evaluate the runs `k = 0 … 8` with these
lemmas.  T7: for each of the 12 cases (same direction: `d` × `q1` × `q2`; opposite: `q1` × `q2`) a file
`Conn/Lemmas/PairTabG*.lean` holds the finite transducer of the pair under `Act4` - the 13 … 68 shapes reachable
under any schedule, successor and output tables, found by a breadth-first search on concrete packets - and
proves, for arbitrary packets and both versions, one closure lemma per phase (every action maps the shape to
the successor's shape and emits the table's output: `closure`), hence `run_obs2`: every schedule follows the
transducer; the delivery clauses are finite checks on the tables (`sched5_main`, `sched6_main`).

**NOT covered.**  A loss in the middle of the CONNECT/CONNACK handshake (`lose` + `resume` is atomic, and the
applications publish nothing while disconnected); more than two exchanges in flight; two same-direction AND an
opposite exchange together; a new PUBLISH while the two are still in flight (after the final `drain` the pair is
`Quiet`, so T2's `exch_from_quiet` composition applies again, but that composition is not restated here); flow control
(Receive Maximum), Maximum Packet Size, Topic Alias; automatic responses off; the byte-level codec (replaced
by the parser parameter, as in `C01L2.lean`); liveness of the schedule itself (the theorems speak about the state
after a final `drain`, not about schedules that lose forever).

No counter-example was found: every statement attempted holds in the model as it is (the breadth-first
searches behind the tables also found no schedule with a QoS 2 message notified twice, an identifier
released twice, or an `.error` event).
-/
set_option linter.unusedSimpArgs false
set_option linter.unusedVariables false
namespace MqttVerif.Conn.Pair
open MqttVerif MqttVerif.Conn

theorem established_quiet (v : Nat) (hv : v = 4 ∨ v = 5) :
    (established v).c2s = [] ∧ (established v).s2c = [] := by
  rw [established_eq v hv]; exact ⟨rfl, rfl⟩

theorem Obs.quiet {v : Nat} (hv : v = 4 ∨ v = 5) {d : Bool} {N : List Pkt} {R : List Nat} {y : Sys}
    (h : Obs d (established v) N R y) : Quiet v y := by
  have e := established_eq v hv
  exact ⟨h.c.trans (by rw [e]), h.s.trans (by rw [e]), h.c2s.trans (by rw [e]), h.s2c.trans (by rw [e])⟩

section
variable {v q1 q2 : Nat} {P1 P2 : Pkt} (hv : v = 4 ∨ v = 5) (h1 : q1 = 1 ∨ q1 = 2) (h2 : q2 = 1 ∨ q2 = 2)
include hv h1 h2

/-! ## T4: two exchanges in opposite directions -/

omit h1 h2 in
/-- both allocators hand out identifier 1: `IsPub` (`pid = some 1`) is the right hypothesis for
    both messages, whichever application calls first -/
theorem C01_l2c_opposite_ids :
    (acquire { cfg := cfgC, s := (established v).c }).1 = some 1 ∧
    (acquire { cfg := cfgS, s := (startFromC (established v) P1).s }).1 = some 1 ∧
    (acquire { cfg := cfgS, s := (established v).s }).1 = some 1 ∧
    (acquire { cfg := cfgC, s := (startFromS (established v) P2).c }).1 = some 1 :=
  ⟨(acquire_gives_1 v hv).1, (acquire_gives_1 v hv).2, (acquire_gives_1 v hv).2, (acquire_gives_1 v hv).1⟩

/-- both exchanges really are in flight at once: each PUBLISH is in its channel, nothing has
    been notified -/
theorem C01_l2c_opposite_in_flight (hA : IsPub v q1 P1) (hB : IsPub v q2 P2) :
    (startBoth v P1 P2).c2s = [P1] ∧ (startBoth v P1 P2).s2c = [P2] ∧
    pubNotes (startBoth v P1 P2).logS = [] ∧ pubNotes (startBoth v P1 P2).logC = [] := by
  have h1' := h1; have h2' := h2
  rcases h1' with rfl | rfl <;> rcases h2' with rfl | rfl <;>
    simp [startBoth, startFromC, startFromS, appC, appS, cfgC, cfgS, sends, established_eq _ hv,
      step_acquire _ _ hv, l2c_send_pub _ _ hv h1 hA, l2c_send_pub _ _ hv h2 hB, pubNotes]

/-- **T4**: the client application publishes `P1`, the server application publishes `P2` (QoS 1 or 2
    each, identifier 1 of the respective allocator) before anything is delivered; after the
    deterministic schedule: quiescent (both endpoints `idle`, channels empty), no `.error` at either
    side, the server application notified of exactly `[P1]`, the client application of exactly `[P2]`,
    each side released its identifier exactly once -/
theorem C01_l2c_opposite (hA : IsPub v q1 P1) (hB : IsPub v q2 P2) (n : Nat) (hn : 8 ≤ n) :
    Obs2 (established v) [P1] [P2] [1] [1] (drain n (startBoth v P1 P2)) := by
  have k := l2c_t4 hv h1 h2 hA hB
  have e := established_quiet v hv
  rw [k.stable e.1 e.2 n hn]; exact k

/-- **T4, any interleaving**: the same after ANY interleaving `σ` of deliveries to the server and to
    the client, followed by delivery of whatever is still in flight: the final state - logs
    included - is the one the deterministic order reaches -/
theorem C01_l2c_opposite_any_order (hA : IsPub v q1 P1) (hB : IsPub v q2 P2) (σ : List Side) (n : Nat) (hn : 8 ≤ n) :
    drain n (runSides (startBoth v P1 P2) σ) = drain n (startBoth v P1 P2) ∧
    Obs2 (established v) [P1] [P2] [1] [1] (drain n (runSides (startBoth v P1 P2) σ)) := by
  have k := C01_l2c_opposite hv h1 h2 hA hB n hn
  have e := established_quiet v hv
  have q := drain_runSides n σ (startBoth v P1 P2) (k.c2s.trans e.1) (k.s2c.trans e.2)
  exact ⟨q, by rw [q]; exact k⟩

/-- T4 spelled out without `Obs2` -/
theorem C01_l2c_opposite_delivery (hA : IsPub v q1 P1) (hB : IsPub v q2 P2) (σ : List Side) (n : Nat) (hn : 8 ≤ n) :
    let y := drain n (runSides (startBoth v P1 P2) σ)
    Quiet v y ∧ errFree y.logC ∧ errFree y.logS ∧ pubNotes y.logS = [P1] ∧ pubNotes y.logC = [P2] ∧
    releasedIds y.logC = [1] ∧ releasedIds y.logS = [1] := by
  intro y
  have k := (C01_l2c_opposite_any_order hv h1 h2 hA hB σ n hn).2
  exact ⟨k.quiet hv, k.errC, k.errS, k.notesS, k.notesC, k.relC, k.relS⟩

/-! ## T5: one loss while two same-direction exchanges are in flight -/

omit hv h1 h2 in
theorem t5notes_late (d : Bool) (k : Nat) (hk : 5 ≤ k) : t5notes d q1 q2 k P1 P2 = [P1, P2] := by
  have a0 : k ≠ 0 := by omega
  have a1 : k ≠ 1 := by omega
  have a2 : k ≠ 2 := by omega
  have a3 : k ≠ 3 := by omega
  have a4 : ¬ k ≤ 4 := by omega
  have a5 : ¬ k ≤ 2 := by omega
  simp [t5notes, a0, a1, a2, a3, a4, a5]

/-- **T5**: `P1` (identifier 1) and `P2` (identifier 2) published back to back; `k` deliveries of the
    loss-free schedule; transport loss and resumption; everything delivered.  For EVERY `k`: quiescent,
    no `.error` at either side, the receiving application notified of exactly `t5notes d q1 q2 k P1 P2`
    (`C01_l2c_t5notes_spec`), the publisher of nothing, both identifiers released exactly once by the
    publisher, nothing released by the receiver -/
theorem C01_l2c_two_in_flight_one_loss (hA : IsPub v q1 P1) (hB : IsPubN v q2 2 P2) (d : Bool) (k n : Nat) (hn : 8 ≤ n) :
    Obs d (established v) (t5notes d q1 q2 k P1 P2) (t5rel q1 q2)
      (drain n (resume v (lose (drain k (startTwo v d P1 P2))))) := by
  have e := established_quiet v hv
  have key : Obs d (established v) (t5notes d q1 q2 k P1 P2) (t5rel q1 q2)
      (drain 8 (resume v (lose (drain k (startTwo v d P1 P2))))) := by
    have hk : k = 0 ∨ k = 1 ∨ k = 2 ∨ k = 3 ∨ k = 4 ∨ k = 5 ∨ k = 6 ∨ k = 7 ∨ 8 ≤ k := by omega
    rcases hk with rfl | rfl | rfl | rfl | rfl | rfl | rfl | rfl | hk
    · exact l2c_t5_k0 hv h1 h2 hA hB d
    · exact l2c_t5_k1 hv h1 h2 hA hB d
    · exact l2c_t5_k2 hv h1 h2 hA hB d
    · exact l2c_t5_k3 hv h1 h2 hA hB d
    · exact l2c_t5_k4 hv h1 h2 hA hB d
    · exact l2c_t5_k5 hv h1 h2 hA hB d
    · exact l2c_t5_k6 hv h1 h2 hA hB d
    · exact l2c_t5_k7 hv h1 h2 hA hB d
    · rw [(C01_l2b_two_in_flight hv h1 h2 hA hB d 8 (Nat.le_refl 8)).stable e.1 e.2 k hk,
        t5notes_late d k (by omega), ← t5notes_late (q1 := q1) (q2 := q2) d 8 (by omega)]
      exact l2c_t5_k8 hv h1 h2 hA hB d
  rw [key.stable e.1 e.2 n hn]; exact key

omit hv in
/-- what the table `t5notes` says, for every `k`: only copies of the two messages; those carrying
    identifier 1 are copies of `P1`: at least one, exactly one if `P1` is QoS 2; likewise
    identifier 2 and `P2` (`DeliverySpec`) -/
theorem C01_l2c_t5notes_spec (hA : IsPub v q1 P1) (hB : IsPubN v q2 2 P2) (d : Bool) (k : Nat) :
    DeliverySpec q1 q2 P1 P2 (t5notes d q1 q2 k P1 P2) := by
  have pA := hA.pid; have pB := hB.pid
  have pA' : P1.asDup.pid = some 1 := pA
  have pB' : P2.asDup.pid = some 2 := pB
  have hk : k = 0 ∨ k = 1 ∨ k = 2 ∨ k = 3 ∨ k = 4 ∨ 5 ≤ k := by omega
  unfold DeliverySpec
  rcases hk with rfl | rfl | rfl | rfl | rfl | hk
  all_goals first
    | (rw [t5notes_late d k hk]
       simp [notesOf, pA, pB, pA', pB', sameMsg])
    | (rcases h1 with rfl | rfl <;> rcases h2 with rfl | rfl <;> cases d <;>
         simp [t5notes, notesOf, pA, pB, pA', pB', sameMsg])

/-- **T5 in words**: whatever the point `k` of the loss: quiescent at the end, no error at either
    side, every notification is a copy of `P1` or of `P2`, a QoS 2 message is notified exactly once,
    a QoS 1 message at least once, the publisher released both identifiers (each once), the receiver none -/
theorem C01_l2c_two_in_flight_one_loss_delivery (hA : IsPub v q1 P1) (hB : IsPubN v q2 2 P2) (d : Bool)
    (k n : Nat) (hn : 8 ≤ n) :
    let y := drain n (resume v (lose (drain k (startTwo v d P1 P2))))
    Quiet v y ∧ errFree y.logC ∧ errFree y.logS ∧ pubNotes (sendLog d y) = [] ∧
    DeliverySpec q1 q2 P1 P2 (pubNotes (recvLog d y)) ∧
    (releasedIds (sendLog d y) = [1, 2] ∨ releasedIds (sendLog d y) = [2, 1]) ∧ releasedIds (recvLog d y) = [] := by
  intro y
  have o := C01_l2c_two_in_flight_one_loss hv h1 h2 hA hB d k n hn
  have hN : pubNotes (recvLog d y) = t5notes d q1 q2 k P1 P2 := o.notes
  have sp := C01_l2c_t5notes_spec h1 h2 hA hB d k
  have hR : releasedIds (sendLog d y) = t5rel q1 q2 := o.released
  refine ⟨o.quiet hv, o.errC, o.errS, o.noEcho, by rw [hN]; exact sp, ?_, o.releasedR⟩
  rw [hR]; unfold t5rel; split
  · exact Or.inr rfl
  · exact Or.inl rfl

/-! ## T6: one loss while two opposite exchanges are in flight -/

omit hv h1 h2 in
theorem t6notesS_late (k : Nat) (hk : 4 ≤ k) : t6notesS q1 k P1 = [P1] := by
  have a0 : k ≠ 0 := by omega
  have a3 : ¬ k ≤ 3 := by omega
  simp [t6notesS, a0, a3]

omit hv h1 h2 in
theorem t6notesC_late (k : Nat) (hk : 4 ≤ k) : t6notesC q2 k P2 = [P2] := by
  have a1 : ¬ k ≤ 1 := by omega
  have a2 : k ≠ 2 := by omega
  simp [t6notesC, a1, a2]

/-- **T6**: T4's start (`P1` client→server, `P2` server→client, both in flight), `k` deliveries of the
    loss-free schedule, transport loss and resumption, everything delivered.  For EVERY `k`:
    quiescent, no `.error` at either side, the server application notified of exactly `t6notesS q1 k P1`,
    the client application of exactly `t6notesC q2 k P2`, each side released its identifier exactly once -/
theorem C01_l2c_opposite_one_loss (hA : IsPub v q1 P1) (hB : IsPub v q2 P2) (k n : Nat) (hn : 8 ≤ n) :
    Obs2 (established v) (t6notesS q1 k P1) (t6notesC q2 k P2) [1] [1]
      (drain n (resume v (lose (drain k (startBoth v P1 P2))))) := by
  have e := established_quiet v hv
  have key : Obs2 (established v) (t6notesS q1 k P1) (t6notesC q2 k P2) [1] [1]
      (drain 8 (resume v (lose (drain k (startBoth v P1 P2))))) := by
    have hk : k = 0 ∨ k = 1 ∨ k = 2 ∨ k = 3 ∨ k = 4 ∨ k = 5 ∨ k = 6 ∨ k = 7 ∨ 8 ≤ k := by omega
    rcases hk with rfl | rfl | rfl | rfl | rfl | rfl | rfl | rfl | hk
    · exact l2c_t6_k0 hv h1 h2 hA hB
    · exact l2c_t6_k1 hv h1 h2 hA hB
    · exact l2c_t6_k2 hv h1 h2 hA hB
    · exact l2c_t6_k3 hv h1 h2 hA hB
    · exact l2c_t6_k4 hv h1 h2 hA hB
    · exact l2c_t6_k5 hv h1 h2 hA hB
    · exact l2c_t6_k6 hv h1 h2 hA hB
    · exact l2c_t6_k7 hv h1 h2 hA hB
    · rw [(l2c_t4 hv h1 h2 hA hB).stable e.1 e.2 k hk, t6notesS_late k (by omega), t6notesC_late k (by omega),
        ← t6notesS_late (q1 := q1) 8 (by omega), ← t6notesC_late (q2 := q2) 8 (by omega)]
      exact l2c_t6_k8 hv h1 h2 hA hB
  rw [key.stable e.1 e.2 n hn]; exact key

omit hv in
/-- what the tables `t6notesS`, `t6notesC` say, for every `k`: only copies of the message sent to
    that side, at least one, exactly one for QoS 2 -/
theorem C01_l2c_t6notes_spec (k : Nat) :
    (∀ Q ∈ t6notesS q1 k P1, sameMsg P1 Q) ∧ (∀ Q ∈ t6notesC q2 k P2, sameMsg P2 Q) ∧
    1 ≤ (t6notesS q1 k P1).length ∧ 1 ≤ (t6notesC q2 k P2).length ∧
    (q1 = 2 → (t6notesS q1 k P1).length = 1) ∧ (q2 = 2 → (t6notesC q2 k P2).length = 1) := by
  have hk : k = 0 ∨ k = 1 ∨ k = 2 ∨ k = 3 ∨ 4 ≤ k := by omega
  rcases hk with rfl | rfl | rfl | rfl | hk
  all_goals first
    | (rw [t6notesS_late k hk, t6notesC_late k hk]; simp [sameMsg])
    | (rcases h1 with rfl | rfl <;> rcases h2 with rfl | rfl <;> simp [t6notesS, t6notesC, sameMsg])

/-- **T6 in words** -/
theorem C01_l2c_opposite_one_loss_delivery (hA : IsPub v q1 P1) (hB : IsPub v q2 P2) (k n : Nat) (hn : 8 ≤ n) :
    let y := drain n (resume v (lose (drain k (startBoth v P1 P2))))
    Quiet v y ∧ errFree y.logC ∧ errFree y.logS ∧
    (∀ Q ∈ pubNotes y.logS, sameMsg P1 Q) ∧ (∀ Q ∈ pubNotes y.logC, sameMsg P2 Q) ∧
    1 ≤ (pubNotes y.logS).length ∧ 1 ≤ (pubNotes y.logC).length ∧
    (q1 = 2 → (pubNotes y.logS).length = 1) ∧ (q2 = 2 → (pubNotes y.logC).length = 1) ∧
    releasedIds y.logC = [1] ∧ releasedIds y.logS = [1] := by
  intro y
  have o := C01_l2c_opposite_one_loss hv h1 h2 hA hB k n hn
  have sp := C01_l2c_t6notes_spec (P1 := P1) (P2 := P2) h1 h2 k
  have eS : pubNotes y.logS = _ := o.notesS
  have eC : pubNotes y.logC = _ := o.notesC
  rw [eS, eC]
  exact ⟨o.quiet hv, o.errC, o.errS, sp.1, sp.2.1, sp.2.2.1, sp.2.2.2.1, sp.2.2.2.2.1, sp.2.2.2.2.2, o.relC, o.relS⟩


/-! ## T7: ANY schedule - any interleaving of deliveries, any number of losses at any points -/

/-- **T7, same direction**: `P1` (identifier 1), `P2` (identifier 2) published back to back; then ANY
    list of `Act4` actions - `toS` / `toC` (deliver the head of the client→server / server→client
    channel; nothing happens if it is empty), `deliver` (the deterministic choice of `drain`), `lose`
    (transport loss followed at once by resumption) - in any order and number; then everything
    delivered.  Quiescent, no `.error` at either side, the publisher notified of no PUBLISH, the receiver
    releases nothing, the receiving application's notifications satisfy `DeliverySpec` (only copies of
    `P1`, `P2`; each at least once; a QoS 2 message exactly once), the publisher released both
    identifiers exactly once each (`RelSpec`) -/
theorem C01_l2c_two_in_flight_any_schedule (hA : IsPub v q1 P1) (hB : IsPubN v q2 2 P2) (d : Bool)
    (acts : List Act4) (n : Nat) (hn : 8 ≤ n) :
    let y := drain n (runActs4 v (startTwo v d P1 P2) acts)
    Quiet v y ∧ errFree y.logC ∧ errFree y.logS ∧ pubNotes (sendLog d y) = [] ∧ releasedIds (recvLog d y) = [] ∧
    DeliverySpec q1 q2 P1 P2 (pubNotes (recvLog d y)) ∧ RelSpec (releasedIds (sendLog d y)) := by
  rcases h1 with rfl | rfl <;> rcases h2 with rfl | rfl <;> cases d
  · exact G5_11f.main hv hA hB acts n hn
  · exact G5_11t.main hv hA hB acts n hn
  · exact G5_12f.main hv hA hB acts n hn
  · exact G5_12t.main hv hA hB acts n hn
  · exact G5_21f.main hv hA hB acts n hn
  · exact G5_21t.main hv hA hB acts n hn
  · exact G5_22f.main hv hA hB acts n hn
  · exact G5_22t.main hv hA hB acts n hn

/-- **T7, same direction, safety**: at any moment of any schedule (nothing drained): no `.error`
    event at either side -/
theorem C01_l2c_two_in_flight_safety (hA : IsPub v q1 P1) (hB : IsPubN v q2 2 P2) (d : Bool) (acts : List Act4) :
    errFree (runActs4 v (startTwo v d P1 P2) acts).logC ∧ errFree (runActs4 v (startTwo v d P1 P2) acts).logS := by
  rcases h1 with rfl | rfl <;> rcases h2 with rfl | rfl <;> cases d
  · exact G5_11f.safe hv hA hB acts
  · exact G5_11t.safe hv hA hB acts
  · exact G5_12f.safe hv hA hB acts
  · exact G5_12t.safe hv hA hB acts
  · exact G5_21f.safe hv hA hB acts
  · exact G5_21t.safe hv hA hB acts
  · exact G5_22f.safe hv hA hB acts
  · exact G5_22t.safe hv hA hB acts

/-- **T7, opposite directions**: `P1` client→server and `P2` server→client both in flight (T4's start),
    then ANY list of `Act4` actions, then everything delivered: quiescent, no `.error` at either side,
    each application notified only of copies of the message sent to it, at least once, exactly once
    for QoS 2; each side released its identifier exactly once -/
theorem C01_l2c_opposite_any_schedule (hA : IsPub v q1 P1) (hB : IsPub v q2 P2) (acts : List Act4) (n : Nat) (hn : 8 ≤ n) :
    let y := drain n (runActs4 v (startBoth v P1 P2) acts)
    Quiet v y ∧ errFree y.logC ∧ errFree y.logS ∧
    (∀ Q ∈ pubNotes y.logS, sameMsg P1 Q) ∧ (∀ Q ∈ pubNotes y.logC, sameMsg P2 Q) ∧
    1 ≤ (pubNotes y.logS).length ∧ 1 ≤ (pubNotes y.logC).length ∧
    (q1 = 2 → (pubNotes y.logS).length = 1) ∧ (q2 = 2 → (pubNotes y.logC).length = 1) ∧
    releasedIds y.logC = [1] ∧ releasedIds y.logS = [1] := by
  rcases h1 with rfl | rfl <;> rcases h2 with rfl | rfl
  · exact G6_11.main hv hA hB acts n hn
  · exact G6_12.main hv hA hB acts n hn
  · exact G6_21.main hv hA hB acts n hn
  · exact G6_22.main hv hA hB acts n hn

/-- **T7, opposite directions, safety** -/
theorem C01_l2c_opposite_safety (hA : IsPub v q1 P1) (hB : IsPub v q2 P2) (acts : List Act4) :
    errFree (runActs4 v (startBoth v P1 P2) acts).logC ∧ errFree (runActs4 v (startBoth v P1 P2) acts).logS := by
  rcases h1 with rfl | rfl <;> rcases h2 with rfl | rfl
  · exact G6_11.safe hv hA hB acts
  · exact G6_12.safe hv hA hB acts
  · exact G6_21.safe hv hA hB acts
  · exact G6_22.safe hv hA hB acts

/-- T7 read for T5 with the deliveries BEFORE the loss in ANY interleaving `σ` (and a second
    interleaving `τ` after it) -/
theorem C01_l2c_two_in_flight_loss_after_any_interleaving (hA : IsPub v q1 P1) (hB : IsPubN v q2 2 P2) (d : Bool)
    (σ τ : List Side) (n : Nat) (hn : 8 ≤ n) :
    let y := drain n (runSides (resume v (lose (runSides (startTwo v d P1 P2) σ))) τ)
    Quiet v y ∧ errFree y.logC ∧ errFree y.logS ∧ pubNotes (sendLog d y) = [] ∧ releasedIds (recvLog d y) = [] ∧
    DeliverySpec q1 q2 P1 P2 (pubNotes (recvLog d y)) ∧ RelSpec (releasedIds (sendLog d y)) := by
  have e : runSides (resume v (lose (runSides (startTwo v d P1 P2) σ))) τ =
      runActs4 v (startTwo v d P1 P2) (σ.map ofSide ++ (Act4.lose :: τ.map ofSide)) := by
    rw [runActs4_append, ← runSides_eq_runActs4, runSides_eq_runActs4 v _ τ]; rfl
  rw [e]
  exact C01_l2c_two_in_flight_any_schedule hv h1 h2 hA hB d _ n hn

/-- T7 read for T6 with arbitrary interleavings before and after the loss -/
theorem C01_l2c_opposite_loss_after_any_interleaving (hA : IsPub v q1 P1) (hB : IsPub v q2 P2)
    (σ τ : List Side) (n : Nat) (hn : 8 ≤ n) :
    let y := drain n (runSides (resume v (lose (runSides (startBoth v P1 P2) σ))) τ)
    Quiet v y ∧ errFree y.logC ∧ errFree y.logS ∧
    (∀ Q ∈ pubNotes y.logS, sameMsg P1 Q) ∧ (∀ Q ∈ pubNotes y.logC, sameMsg P2 Q) ∧
    1 ≤ (pubNotes y.logS).length ∧ 1 ≤ (pubNotes y.logC).length ∧
    (q1 = 2 → (pubNotes y.logS).length = 1) ∧ (q2 = 2 → (pubNotes y.logC).length = 1) ∧
    releasedIds y.logC = [1] ∧ releasedIds y.logS = [1] := by
  have e : runSides (resume v (lose (runSides (startBoth v P1 P2) σ))) τ =
      runActs4 v (startBoth v P1 P2) (σ.map ofSide ++ (Act4.lose :: τ.map ofSide)) := by
    rw [runActs4_append, ← runSides_eq_runActs4, runSides_eq_runActs4 v _ τ]; rfl
  rw [e]
  exact C01_l2c_opposite_any_schedule hv h1 h2 hA hB _ n hn

/-- T7 read for the schedules of T1 (`Act = deliver | lose`, `runActs` of `PairExchange2.lean`): any
    number of losses while two same-direction exchanges are in flight -/
theorem C01_l2c_two_in_flight_any_losses (hA : IsPub v q1 P1) (hB : IsPubN v q2 2 P2) (d : Bool)
    (acts : List Act) (n : Nat) (hn : 8 ≤ n) :
    let y := drain n (runActs v (startTwo v d P1 P2) acts)
    Quiet v y ∧ errFree y.logC ∧ errFree y.logS ∧ pubNotes (sendLog d y) = [] ∧ releasedIds (recvLog d y) = [] ∧
    DeliverySpec q1 q2 P1 P2 (pubNotes (recvLog d y)) ∧ RelSpec (releasedIds (sendLog d y)) := by
  rw [runActs_eq_runActs4]
  exact C01_l2c_two_in_flight_any_schedule hv h1 h2 hA hB d _ n hn

end

end MqttVerif.Conn.Pair

/-! ## non-vacuity: the theorems instantiated on concrete packets, and the same runs recomputed by
    `decide` (independently of the step lemmas) -/
namespace MqttVerif.Conn.Pair

/-- a PUBLISH of the server application (identifier 1 of the server's allocator) -/
def exPubS (v q : Nat) : Pkt :=
  { ver := v, kind := .publish, qos := q, pid := some 1, topic := [100, 47, 101], retain := true, payloadLen := 2, tag := 79, size := 11 }

theorem exPub_isPub (v q : Nat) (hv : v = 4 ∨ v = 5) (hq : q = 1 ∨ q = 2) : IsPub v q (exPub v q) := by
  rcases hv with rfl | rfl <;> rcases hq with rfl | rfl <;> exact ⟨rfl, rfl, rfl, rfl, rfl, by decide, by decide, by decide⟩
theorem exPubS_isPub (v q : Nat) (hv : v = 4 ∨ v = 5) (hq : q = 1 ∨ q = 2) : IsPub v q (exPubS v q) := by
  rcases hv with rfl | rfl <;> rcases hq with rfl | rfl <;> exact ⟨rfl, rfl, rfl, rfl, rfl, by decide, by decide, by decide⟩
theorem exPubB_isPubN (v q : Nat) (hv : v = 4 ∨ v = 5) (hq : q = 1 ∨ q = 2) : IsPubN v q 2 (exPubB v q) := by
  rcases hv with rfl | rfl <;> rcases hq with rfl | rfl <;> exact ⟨rfl, rfl, rfl, rfl, rfl, by decide, by decide, by decide⟩

/-- the decidable content of `Obs2 (established v)` -/
def obs2B (v : Nat) (NS NC : List Pkt) (RC RS : List Nat) (y : Sys) : Bool :=
  y.c = idle v true ∧ y.s = idle v false ∧ y.c2s = [] ∧ y.s2c = [] ∧
  y.logC.all (fun e => !isErr e) ∧ y.logS.all (fun e => !isErr e) ∧
  pubNotes y.logS = NS ∧ pubNotes y.logC = NC ∧ releasedIds y.logC = RC ∧ releasedIds y.logS = RS

-- T4: C01_l2c_opposite, C01_l2c_opposite_any_order
example : Obs2 (established 5) [exPub 5 2] [exPubS 5 1] [1] [1] (drain 8 (startBoth 5 (exPub 5 2) (exPubS 5 1))) :=
  C01_l2c_opposite (Or.inr rfl) (Or.inr rfl) (Or.inl rfl) (exPub_isPub 5 2 (Or.inr rfl) (Or.inr rfl)) (exPubS_isPub 5 1 (Or.inr rfl) (Or.inl rfl)) 8 (Nat.le_refl 8)
example : Obs2 (established 4) [exPub 4 1] [exPubS 4 2] [1] [1]
    (drain 9 (runSides (startBoth 4 (exPub 4 1) (exPubS 4 2)) [.toC, .toC, .toS, .toC, .toS])) :=
  (C01_l2c_opposite_any_order (Or.inl rfl) (Or.inl rfl) (Or.inr rfl) (exPub_isPub 4 1 (Or.inl rfl) (Or.inl rfl)) (exPubS_isPub 4 2 (Or.inl rfl) (Or.inr rfl))
    [.toC, .toC, .toS, .toC, .toS] 9 (by decide)).2
example : obs2B 5 [exPub 5 2] [exPubS 5 1] [1] [1] (drain 8 (startBoth 5 (exPub 5 2) (exPubS 5 1))) = true := by decide +kernel
example : obs2B 4 [exPub 4 2] [exPubS 4 2] [1] [1] (drain 8 (startBoth 4 (exPub 4 2) (exPubS 4 2))) = true := by decide +kernel
example : obs2B 5 [exPub 5 1] [exPubS 5 1] [1] [1] (drain 4 (startBoth 5 (exPub 5 1) (exPubS 5 1))) = true := by decide +kernel
example : obs2B 4 [exPub 4 1] [exPubS 4 2] [1] [1]
    (drain 8 (runSides (startBoth 4 (exPub 4 1) (exPubS 4 2)) [.toC, .toC, .toS, .toC, .toS])) = true := by decide +kernel
-- both exchanges really are in flight at once, and 7 deliveries are not enough for QoS 2 + QoS 2
example : (startBoth 5 (exPub 5 2) (exPubS 5 2)).c2s = [exPub 5 2] ∧ (startBoth 5 (exPub 5 2) (exPubS 5 2)).s2c = [exPubS 5 2] := by
  decide +kernel
example : (drain 7 (startBoth 5 (exPub 5 2) (exPubS 5 2))).s2c ≠ [] := by decide +kernel
-- a different interleaving passes through different intermediate states
example : runSides (startBoth 5 (exPub 5 2) (exPubS 5 2)) [.toC, .toC] ≠ drain 2 (startBoth 5 (exPub 5 2) (exPubS 5 2)) := by
  decide +kernel

-- T5: C01_l2c_two_in_flight_one_loss
example : Obs true (established 5) [exPub 5 1, exPubB 5 1, (exPub 5 1).asDup, (exPubB 5 1).asDup] [1, 2]
    (drain 8 (resume 5 (lose (drain 2 (startTwo 5 true (exPub 5 1) (exPubB 5 1)))))) :=
  C01_l2c_two_in_flight_one_loss (Or.inr rfl) (Or.inl rfl) (Or.inl rfl) (exPub_isPub 5 1 (Or.inr rfl) (Or.inl rfl)) (exPubB_isPubN 5 1 (Or.inr rfl) (Or.inl rfl))
    true 2 8 (Nat.le_refl 8)
example : Obs false (established 4) [exPub 4 2, (exPubB 4 2).asDup] [1, 2]
    (drain 8 (resume 4 (lose (drain 2 (startTwo 4 false (exPub 4 2) (exPubB 4 2)))))) :=
  C01_l2c_two_in_flight_one_loss (Or.inl rfl) (Or.inr rfl) (Or.inr rfl) (exPub_isPub 4 2 (Or.inl rfl) (Or.inr rfl)) (exPubB_isPubN 4 2 (Or.inl rfl) (Or.inr rfl))
    false 2 8 (Nat.le_refl 8)
example : DeliverySpec 2 1 (exPub 5 2) (exPubB 5 1)
    (pubNotes (drain 8 (resume 5 (lose (drain 3 (startTwo 5 true (exPub 5 2) (exPubB 5 1)))))).logS) :=
  (C01_l2c_two_in_flight_one_loss_delivery (Or.inr rfl) (Or.inr rfl) (Or.inl rfl) (exPub_isPub 5 2 (Or.inr rfl) (Or.inr rfl))
    (exPubB_isPubN 5 1 (Or.inr rfl) (Or.inl rfl)) true 3 8 (Nat.le_refl 8)).2.2.2.2.1
-- the same runs by `decide`: both PUBACKs lost = both QoS 1 messages notified twice
example : obs2B 5 [exPub 5 1, exPubB 5 1, (exPub 5 1).asDup, (exPubB 5 1).asDup] [] [1, 2] []
    (drain 8 (resume 5 (lose (drain 2 (startTwo 5 true (exPub 5 1) (exPubB 5 1)))))) = true := by decide +kernel
example : obs2B 4 [] [exPub 4 2, (exPubB 4 2).asDup] [] [1, 2]
    (drain 8 (resume 4 (lose (drain 2 (startTwo 4 false (exPub 4 2) (exPubB 4 2)))))) = true := by decide +kernel
-- QoS 2 + QoS 2, loss at every point: both messages exactly once
example : ∀ k ∈ [2, 3, 4, 5, 6, 7, 8], obs2B 5 [exPub 5 2, exPubB 5 2] [] [1, 2] []
    (drain 8 (resume 5 (lose (drain k (startTwo 5 true (exPub 5 2) (exPubB 5 2)))))) = true := by decide +kernel
-- QoS 2 + QoS 1: the QoS 1 message completes first (identifier 2 released before identifier 1)
example : obs2B 5 [exPub 5 2, exPubB 5 1, (exPubB 5 1).asDup] [] [2, 1] []
    (drain 8 (resume 5 (lose (drain 3 (startTwo 5 true (exPub 5 2) (exPubB 5 1)))))) = true := by decide +kernel
-- what is retransmitted after a loss at k = 3 (QoS 2 + QoS 2, PUBREC 1 reached the sender): PUBLISH 2 (DUP), PUBREL 1
example : ((resume 5 (lose (drain 3 (startTwo 5 true (exPub 5 2) (exPubB 5 2))))).c2s.map (fun p => (p.kind, p.pid, p.dup))) =
    [(.publish, some 2, true), (.pubrel, some 1, false)] := by decide +kernel

-- T6: C01_l2c_opposite_one_loss
example : Obs2 (established 5) [exPub 5 1, (exPub 5 1).asDup] [exPubS 5 1, (exPubS 5 1).asDup] [1] [1]
    (drain 8 (resume 5 (lose (drain 2 (startBoth 5 (exPub 5 1) (exPubS 5 1)))))) :=
  C01_l2c_opposite_one_loss (Or.inr rfl) (Or.inl rfl) (Or.inl rfl) (exPub_isPub 5 1 (Or.inr rfl) (Or.inl rfl)) (exPubS_isPub 5 1 (Or.inr rfl) (Or.inl rfl))
    2 8 (Nat.le_refl 8)
example : Obs2 (established 4) [exPub 4 2] [(exPubS 4 2).asDup] [1] [1]
    (drain 8 (resume 4 (lose (drain 1 (startBoth 4 (exPub 4 2) (exPubS 4 2)))))) :=
  C01_l2c_opposite_one_loss (Or.inl rfl) (Or.inr rfl) (Or.inr rfl) (exPub_isPub 4 2 (Or.inl rfl) (Or.inr rfl)) (exPubS_isPub 4 2 (Or.inl rfl) (Or.inr rfl))
    1 8 (Nat.le_refl 8)
example : obs2B 5 [exPub 5 1, (exPub 5 1).asDup] [exPubS 5 1, (exPubS 5 1).asDup] [1] [1]
    (drain 8 (resume 5 (lose (drain 2 (startBoth 5 (exPub 5 1) (exPubS 5 1)))))) = true := by decide +kernel
example : ∀ k ∈ [2, 3, 4, 5, 6, 7, 8, 9], obs2B 4 [exPub 4 2] [exPubS 4 2] [1] [1]
    (drain 8 (resume 4 (lose (drain k (startBoth 4 (exPub 4 2) (exPubS 4 2)))))) = true := by decide +kernel
-- v5.0, loss while both PUBCOMPs are in flight: both sides answer the retransmitted PUBREL with reason code 0x92
example : Ev.send ackRc none ∈ (drain 8 (resume 5 (lose (drain 6 (startBoth 5 (exPub 5 2) (exPubS 5 2)))))).logS ∧
    Ev.send ackRc none ∈ (drain 8 (resume 5 (lose (drain 6 (startBoth 5 (exPub 5 2) (exPubS 5 2)))))).logC := by decide +kernel

-- T7: C01_l2c_two_in_flight_any_schedule, C01_l2c_opposite_any_schedule on concrete packets and schedules
example :
    let y := drain 8 (runActs4 5 (startTwo 5 true (exPub 5 2) (exPubB 5 1))
      [.toS, .lose, .toC, .toS, .lose, .lose, .toS, .toC, .deliver, .lose])
    Quiet 5 y ∧ errFree y.logC ∧ errFree y.logS ∧ pubNotes (sendLog true y) = [] ∧ releasedIds (recvLog true y) = [] ∧
    DeliverySpec 2 1 (exPub 5 2) (exPubB 5 1) (pubNotes (recvLog true y)) ∧ RelSpec (releasedIds (sendLog true y)) :=
  C01_l2c_two_in_flight_any_schedule (Or.inr rfl) (Or.inr rfl) (Or.inl rfl) (exPub_isPub 5 2 (Or.inr rfl) (Or.inr rfl))
    (exPubB_isPubN 5 1 (Or.inr rfl) (Or.inl rfl)) true _ 8 (Nat.le_refl 8)
example :
    let y := drain 8 (runActs4 4 (startBoth 4 (exPub 4 1) (exPubS 4 2)) [.toC, .toS, .lose, .toS, .lose, .toS, .toC, .lose])
    Quiet 4 y ∧ errFree y.logC ∧ errFree y.logS ∧
    (∀ Q ∈ pubNotes y.logS, sameMsg (exPub 4 1) Q) ∧ (∀ Q ∈ pubNotes y.logC, sameMsg (exPubS 4 2) Q) ∧
    1 ≤ (pubNotes y.logS).length ∧ 1 ≤ (pubNotes y.logC).length ∧
    ((1 : Nat) = 2 → (pubNotes y.logS).length = 1) ∧ ((2 : Nat) = 2 → (pubNotes y.logC).length = 1) ∧
    releasedIds y.logC = [1] ∧ releasedIds y.logS = [1] :=
  C01_l2c_opposite_any_schedule (Or.inl rfl) (Or.inl rfl) (Or.inr rfl) (exPub_isPub 4 1 (Or.inl rfl) (Or.inl rfl))
    (exPubS_isPub 4 2 (Or.inl rfl) (Or.inr rfl)) _ 8 (Nat.le_refl 8)
-- the same schedules by `decide`: three losses; the QoS 1 message 2 is notified twice, the QoS 2 message 1 once
example : obs2B 5 [exPub 5 2, (exPubB 5 1).asDup, (exPubB 5 1).asDup] [] [2, 1] []
    (drain 8 (runActs4 5 (startTwo 5 true (exPub 5 2) (exPubB 5 1))
      [.toS, .lose, .toC, .toS, .lose, .lose, .toS, .toC, .deliver, .lose])) = true := by decide +kernel
example : obs2B 4 [] [exPub 4 1, exPubB 4 2, (exPub 4 1).asDup] [] [1, 2]
    (drain 8 (runActs4 4 (startTwo 4 false (exPub 4 1) (exPubB 4 2))
      [.toC, .toC, .lose, .toC, .toS, .lose, .toC, .deliver, .lose, .toC])) = true := by decide +kernel
-- opposite directions, four losses, QoS 2 both ways: each exactly once
example : obs2B 5 [exPub 5 2] [exPubS 5 2] [1] [1]
    (drain 8 (runActs4 5 (startBoth 5 (exPub 5 2) (exPubS 5 2))
      [.toS, .toC, .lose, .toC, .toS, .toS, .lose, .toC, .toC, .toS, .toS, .lose, .lose, .toS])) = true := by decide +kernel
-- ... and that schedule alone does not finish the exchanges (the final drain matters)
example : (runActs4 5 (startBoth 5 (exPub 5 2) (exPubS 5 2))
      [.toS, .toC, .lose, .toC, .toS, .toS, .lose, .toC, .toC, .toS, .toS, .lose, .lose, .toS]).s2c ≠ [] := by decide +kernel
-- opposite directions, QoS 1 client→server lost three times: three duplicates, all marked DUP
example : obs2B 4 [exPub 4 1, (exPub 4 1).asDup, (exPub 4 1).asDup, (exPub 4 1).asDup] [exPubS 4 2] [1] [1]
    (drain 8 (runActs4 4 (startBoth 4 (exPub 4 1) (exPubS 4 2)) [.toC, .toS, .lose, .toS, .lose, .toS, .toC, .lose])) = true := by
  decide +kernel
-- a loss after an interleaving that is not a prefix of `drain`
example : obs2B 5 [exPub 5 2, exPubB 5 2] [] [1, 2] []
    (drain 8 (runSides (resume 5 (lose (runSides (startTwo 5 true (exPub 5 2) (exPubB 5 2)) [.toS, .toC, .toC, .toS])))
      [.toC, .toS, .toS])) = true := by decide +kernel
-- the tables are the model's: the system after a schedule is the shape of the transducer's phase, logs aside
example : { runActs4 5 (startBoth 5 (exPub 5 2) (exPubS 5 2)) [.toS, .toC, .lose, .toC] with logC := [], logS := [] } =
    G6_22.sysOf 5 (exPub 5 2) (exPubS 5 2) (phRunG G6_22.next .p0 [.toS, .toC, .lose, .toC]) := by decide +kernel

end MqttVerif.Conn.Pair
