import MqttVerif.Conn.Lemmas.PairExchange
/-!
# C01 at the level of the two `Conn` models (L2), one exchange, every crash point

`Props/C01.lean` proves C01 on the abstract flow system only.  Here the *real* connection
models (`Conn/Model.lean`, the impl-shaped model of `core.rs`) of a client endpoint and a server
endpoint are joined by two FIFO channels of packets (`Pair.Sys`, `Conn/Lemmas/PairExchange.lean`):

* delivering the head packet `p` of a channel is the API call
  `step cfg s (.recv (frameOf p) (fun _ _ _ => .ok p))`: a two-byte frame (type nibble of
  `p.kind`, remaining length 0) through the model's frame assembler, size check, role/version
  gates and dispatch, with a parser parameter that answers `p` (`deliver_eq`: this is exactly the
  handler of `p.kind` applied to `.ok p`);
* every packet an endpoint requests for sending (`.send q _`, in order) is appended to its
  outgoing channel; every event of every call is appended to the endpoint's log;
* `lose` = transport loss: both channels emptied, `.closed` at both endpoints;
  `resume` = client sends CONNECT(clean = false), delivered, server sends
  CONNACK(rc = 0, session present), delivered - the model's `sendStored`/`resendStored`
  retransmit the stored packets;
* `drain n` = the deterministic schedule "deliver the head of a non-empty channel" `n` times.

**Starting point** (`established v`, `v = 4` and `v = 5`): obtained by running the calls
`setFlag autoPub`, CONNECT(clean = false; v5.0: Session Expiry Interval ≠ 0), CONNACK(rc = 0,
session not present) from `St.init` through the pair system; `established_eq` computes it:
both endpoints connected, `needStore`, automatic responses on, stores and wait sets empty, all
identifiers free, no Receive Maximum / Maximum Packet Size / Topic Alias Maximum.
Identifier width 2 bytes.

**Theorems** - for BOTH versions, an ARBITRARY application PUBLISH `P` (`IsPub v q P`: version
`v`, QoS `q`, the identifier `.acquire` returned (`acquire_gives_1`), no Topic Alias, non-empty
topic without wildcard, encodable size; retain flag, payload, properties arbitrary), BOTH
directions (`startC`: client publishes, `startS`: server publishes):

* `C01_l2_qos1_no_loss`, `C01_l2_qos2_no_loss` (+ `_s2c`): after the loss-free schedule
  `Good v dir [P] y`: channels empty, both endpoints back in the idle state (stores, wait sets,
  handled set, `publish_recv` empty, every identifier free: `Good.quiescent`), no `.error` event in
  either log, the receiving application notified of exactly `[P]`, the sending one of no PUBLISH,
  `.released 1` emitted exactly once at the sender and never at the receiver;
* `C01_l2_qos2_any_crash_point`, `C01_l2_qos1_any_crash_point` (+ `_s2c`): for EVERY `k`, loss after
  `k` deliveries of the loss-free schedule, resumption, then delivery until quiescence: the same
  `Good`, with the notifications
  - QoS 2: exactly one (`[P]`, or `[P.asDup]` when the loss hit the first PUBLISH: `k = 0`);
  - QoS 1: `[P.asDup]` (`k = 0`), `[P, P.asDup]` (`k = 1`: the PUBACK was lost - the one and only
    duplicate, at-least-once), `[P]` (`k ≥ 2`: loss after the PUBACK reached the sender).
  `k` ranges over all naturals; beyond the length of the schedule (4 resp. 2 deliveries) the loss
  hits an idle session.
* the informal reading of `Good`: `C01_l2_qos2_exactly_once`, `C01_l2_qos1_at_least_once`.

**Not covered**: one exchange at a time in an idle session (the final endpoint states equal the
initial ones, so the theorems apply again to the next exchange, but concurrent exchanges,
several identifiers in flight, and a second loss during the resumption handshake or the
resumed exchange are not treated);
no flow control (Receive Maximum), Maximum Packet Size or Topic Alias negotiated; automatic
responses on; loss only between deliveries of whole packets (mid-frame loss is covered at L0 by
the framing theorems plus `notifyClosed` resetting the frame assembler, which `step_closed` shows
for these states); the byte-level codec (C02) is replaced by the parser parameter.

No counter-example was found: every statement attempted holds in the model as it is.
-/
set_option linter.unusedSimpArgs false
set_option linter.unusedVariables false
namespace MqttVerif.Conn.Pair
open MqttVerif MqttVerif.Conn

/-- the handshake run from `St.init`, computed -/
theorem established_eq (v : Nat) (hv : v = 4 ∨ v = 5) :
    established v = { c := idle v true, s := idle v false } := by
  rcases hv with rfl | rfl <;> decide

/-- resumption of the persistent session: CONNECT(clean = false) → server,
    CONNACK(rc = 0, session present) → client -/
def resume (v : Nat) (y : Sys) : Sys := handshake v false true y

/-- the client application acquires an identifier and sends `P` (`startS`: the server's does) -/
def startC (v : Nat) (P : Pkt) : Sys := appC (appC (established v) .acquire) (.send P)
def startS (v : Nat) (P : Pkt) : Sys := appS (appS (established v) .acquire) (.send P)

/-- the PUBLISH packets notified to the application, in order -/
def pubNotes : List Ev → List Pkt
  | [] => []
  | .recv p :: rest => if p.kind = .publish then p :: pubNotes rest else pubNotes rest
  | _ :: rest => pubNotes rest

def releasedIds : List Ev → List Nat
  | [] => []
  | .released id :: rest => id :: releasedIds rest
  | _ :: rest => releasedIds rest

def isErr : Ev → Bool
  | .error _ => true
  | _ => false

def errFree (l : List Ev) : Prop := l.all (fun e => !isErr e) = true

/-- `Q` is the message `P`, possibly with the DUP flag of a retransmission -/
def sameMsg (P Q : Pkt) : Prop := Q = P ∨ Q = P.asDup

theorem drain_add (a b : Nat) (y : Sys) : drain (a + b) y = drain b (drain a y) := by
  induction a generalizing y with
  | zero => simp [drain]
  | succ a ih => rw [Nat.add_right_comm]; simp only [drain]; exact ih _

theorem drain_empty (n : Nat) (y : Sys) (h1 : y.c2s = []) (h2 : y.s2c = []) : drain n y = y := by
  induction n with
  | zero => rfl
  | succ n ih =>
    simp only [drain]
    have : deliver1 y = y := by simp [deliver1, h1, deliverC, h2]
    rw [this]; exact ih

/-- the outcome clauses of C01 for one exchange with identifier 1; `toServer` = the client is
    the publisher; the logs hold every event of every call since the session was established -/
structure Good (v : Nat) (toServer : Bool) (notes : List Pkt) (y : Sys) : Prop where
  /-- nothing in flight -/
  c2s : y.c2s = []
  s2c : y.s2c = []
  /-- both endpoints are back in the idle state of the established session: connected, stores
      and wait sets and `handled` and `publish_recv` empty, all identifiers free, no panic
      (`Good.quiescent`) -/
  cIdle : y.c = idle v true
  sIdle : y.s = idle v false
  /-- neither endpoint ever reported an error -/
  errC : errFree y.logC
  errS : errFree y.logS
  /-- the PUBLISH packets the receiving application was notified of, in order -/
  notes : pubNotes (if toServer then y.logS else y.logC) = notes
  /-- the publishing application was notified of no PUBLISH -/
  noEcho : pubNotes (if toServer then y.logC else y.logS) = []
  /-- the publisher's identifier was released, once; the receiver released nothing -/
  released : releasedIds (if toServer then y.logC else y.logS) = [1]
  releasedR : releasedIds (if toServer then y.logS else y.logC) = []

syntax "ysimp" ("[" Lean.Parser.Tactic.simpLemma,* "]")? : tactic
macro_rules
  | `(tactic| ysimp [$ts,*]) => `(tactic| simp [startC, startS, resume, handshake, lose, appC, appS, deliverS, deliverC,
      deliver1, drain, cfgC, cfgS, sends, $ts,*])

/-- compute a whole run of the pair with the step lemmas, then read the observations off the
    resulting explicit system state -/
syntax "runsim2" ident ident : tactic
macro_rules
  | `(tactic| runsim2 $hv $hP) => `(tactic|
      (ysimp [established_eq _ $hv, step_acquire _ _ $hv, step_send_pub2 _ _ $hv $hP,
        step_recv_pub2 _ _ $hv $hP, step_recv_pub2 _ _ $hv (IsPub.asDup $hP),
        step_recv_pub2_again _ _ $hv (IsPub.asDup $hP), step_recv_pubrec _ _ $hv $hP,
        step_recv_pubrel _ _ $hv, step_recv_pubrel_again _ _ $hv, step_recv_pubcomp _ _ $hv,
        step_recv_pubcompAgain _ _ $hv, step_closed, step_send_connect _ _ _ _ _ _ _ $hv,
        step_recv_connect _ _ _ _ _ _ _ $hv, step_send_connack0 _ _ _ _ _ _ $hv, step_recv_connack0 _ _ _ _ _ _ $hv,
        step_recv_connack1 _ _ _ _ _ _ $hv _ (IsPub.fits (IsPub.asDup $hP)),
        step_recv_connack1 _ _ _ _ _ _ $hv _ (sz_ack .pubrel (by decide)),
        step_send_connack1 _ _ _ _ _ _ $hv _ (IsPub.fits (IsPub.asDup $hP)),
        step_send_connack1 _ _ _ _ _ _ $hv _ (sz_ack .pubrel (by decide))]
       constructor <;>
         simp [pubNotes, releasedIds, errFree, isErr, IsPub.kind $hP, ack, connectPkt_kind, connackPkt_kind,
           pubcompAgain_kind, Pkt.asDup]))

syntax "runsim1" ident ident : tactic
macro_rules
  | `(tactic| runsim1 $hv $hP) => `(tactic|
      (ysimp [established_eq _ $hv, step_acquire _ _ $hv, step_send_pub1 _ _ $hv $hP,
        step_recv_pub1 _ _ $hv $hP, step_recv_pub1 _ _ $hv (IsPub.asDup $hP), step_recv_puback _ _ $hv $hP,
        step_recv_pubrel _ _ $hv, step_recv_pubrel_again _ _ $hv, step_recv_pubcomp _ _ $hv,
        step_recv_pubcompAgain _ _ $hv, step_closed, step_send_connect _ _ _ _ _ _ _ $hv,
        step_recv_connect _ _ _ _ _ _ _ $hv, step_send_connack0 _ _ _ _ _ _ $hv, step_recv_connack0 _ _ _ _ _ _ $hv,
        step_recv_connack1 _ _ _ _ _ _ $hv _ (IsPub.fits (IsPub.asDup $hP)),
        step_recv_connack1 _ _ _ _ _ _ $hv _ (sz_ack .pubrel (by decide)),
        step_send_connack1 _ _ _ _ _ _ $hv _ (IsPub.fits (IsPub.asDup $hP)),
        step_send_connack1 _ _ _ _ _ _ $hv _ (sz_ack .pubrel (by decide))]
       constructor <;>
         simp [pubNotes, releasedIds, errFree, isErr, IsPub.kind $hP, ack, connectPkt_kind, connackPkt_kind,
           pubcompAgain_kind, Pkt.asDup]))

section
variable {v : Nat} {P : Pkt} (hv : v = 4 ∨ v = 5)
include hv

/-! ### client → server, QoS 2: loss after `k` deliveries of the loss-free schedule -/
theorem c2_k0 (hP : IsPub v 2 P) : Good v true [P.asDup] (drain 4 (resume v (lose (drain 0 (startC v P))))) := by
  runsim2 hv hP
theorem c2_k1 (hP : IsPub v 2 P) : Good v true [P] (drain 4 (resume v (lose (drain 1 (startC v P))))) := by
  runsim2 hv hP
theorem c2_k2 (hP : IsPub v 2 P) : Good v true [P] (drain 4 (resume v (lose (drain 2 (startC v P))))) := by
  runsim2 hv hP
theorem c2_k3 (hP : IsPub v 2 P) : Good v true [P] (drain 4 (resume v (lose (drain 3 (startC v P))))) := by
  runsim2 hv hP
theorem c2_k4 (hP : IsPub v 2 P) : Good v true [P] (drain 4 (resume v (lose (drain 4 (startC v P))))) := by
  runsim2 hv hP
theorem c2_nl (hP : IsPub v 2 P) : Good v true [P] (drain 4 (startC v P)) := by
  runsim2 hv hP

/-! ### client → server, QoS 1 -/
theorem c1_k0 (hP : IsPub v 1 P) : Good v true [P.asDup] (drain 4 (resume v (lose (drain 0 (startC v P))))) := by
  runsim1 hv hP
theorem c1_k1 (hP : IsPub v 1 P) : Good v true [P, P.asDup] (drain 4 (resume v (lose (drain 1 (startC v P))))) := by
  runsim1 hv hP
theorem c1_k2 (hP : IsPub v 1 P) : Good v true [P] (drain 4 (resume v (lose (drain 2 (startC v P))))) := by
  runsim1 hv hP
theorem c1_nl (hP : IsPub v 1 P) : Good v true [P] (drain 2 (startC v P)) := by
  runsim1 hv hP

/-! ### server → client -/
theorem s2_k0 (hP : IsPub v 2 P) : Good v false [P.asDup] (drain 4 (resume v (lose (drain 0 (startS v P))))) := by
  runsim2 hv hP
theorem s2_k1 (hP : IsPub v 2 P) : Good v false [P] (drain 4 (resume v (lose (drain 1 (startS v P))))) := by
  runsim2 hv hP
theorem s2_k2 (hP : IsPub v 2 P) : Good v false [P] (drain 4 (resume v (lose (drain 2 (startS v P))))) := by
  runsim2 hv hP
theorem s2_k3 (hP : IsPub v 2 P) : Good v false [P] (drain 4 (resume v (lose (drain 3 (startS v P))))) := by
  runsim2 hv hP
theorem s2_k4 (hP : IsPub v 2 P) : Good v false [P] (drain 4 (resume v (lose (drain 4 (startS v P))))) := by
  runsim2 hv hP
theorem s2_nl (hP : IsPub v 2 P) : Good v false [P] (drain 4 (startS v P)) := by
  runsim2 hv hP
theorem s1_k0 (hP : IsPub v 1 P) : Good v false [P.asDup] (drain 4 (resume v (lose (drain 0 (startS v P))))) := by
  runsim1 hv hP
theorem s1_k1 (hP : IsPub v 1 P) : Good v false [P, P.asDup] (drain 4 (resume v (lose (drain 1 (startS v P))))) := by
  runsim1 hv hP
theorem s1_k2 (hP : IsPub v 1 P) : Good v false [P] (drain 4 (resume v (lose (drain 2 (startS v P))))) := by
  runsim1 hv hP
theorem s1_nl (hP : IsPub v 1 P) : Good v false [P] (drain 2 (startS v P)) := by
  runsim1 hv hP


/-! ## stability of the result under more fuel / later loss -/
omit hv in
theorem Good.stable {d : Bool} {notes : List Pkt} {y : Sys} {a : Nat} (h : Good v d notes (drain a y))
    (n : Nat) (hn : a ≤ n) : drain n y = drain a y := by
  obtain ⟨m, rfl⟩ := Nat.exists_eq_add_of_le hn
  rw [drain_add, drain_empty _ _ h.c2s h.s2c]

omit hv in
/-- what `Good` says about the two endpoint states, spelled out -/
theorem Good.quiescent {d : Bool} {notes : List Pkt} {y : Sys} (h : Good v d notes y) :
    y.c.store = [] ∧ y.s.store = [] ∧
    y.c.puback = [] ∧ y.c.pubrec = [] ∧ y.c.pubcomp = [] ∧ y.s.puback = [] ∧ y.s.pubrec = [] ∧ y.s.pubcomp = [] ∧
    y.c.handled = [] ∧ y.s.handled = [] ∧ y.c.publishRecv = [] ∧ y.s.publishRecv = [] ∧
    (∀ id, isUsed y.c id = false) ∧ (∀ id, isUsed y.s id = false) ∧
    y.c.status = .connected ∧ y.s.status = .connected ∧ y.c.panic = none ∧ y.s.panic = none := by
  rw [h.cIdle, h.sIdle]
  refine ⟨rfl, rfl, rfl, rfl, rfl, rfl, rfl, rfl, rfl, rfl, rfl, rfl, ?_, ?_, rfl, rfl, rfl, rfl⟩ <;>
  · intro id
    simp only [isUsed, Alloc.isUsed, idle, mkSt, Alloc.Free]
    by_cases h1 : 1 ≤ id <;> by_cases h2 : id ≤ 65535 <;> simp [h1, h2]

/-! ## C01, L2, client publishes -/

/-- **QoS 2, no loss** -/
theorem C01_l2_qos2_no_loss (hP : IsPub v 2 P) (n : Nat) (hn : 4 ≤ n) :
    Good v true [P] (drain n (startC v P)) := by
  rw [(c2_nl hv hP).stable n hn]; exact c2_nl hv hP

/-- **QoS 1, no loss** -/
theorem C01_l2_qos1_no_loss (hP : IsPub v 1 P) (n : Nat) (hn : 2 ≤ n) :
    Good v true [P] (drain n (startC v P)) := by
  rw [(c1_nl hv hP).stable n hn]; exact c1_nl hv hP

/-- **QoS 2, loss after `k` deliveries, for every `k`** -/
theorem C01_l2_qos2_any_crash_point (hP : IsPub v 2 P) (k n : Nat) (hn : 4 ≤ n) :
    Good v true [if k = 0 then P.asDup else P] (drain n (resume v (lose (drain k (startC v P))))) := by
  have hk : k = 0 ∨ k = 1 ∨ k = 2 ∨ k = 3 ∨ 4 ≤ k := by omega
  have key : Good v true [if k = 0 then P.asDup else P] (drain 4 (resume v (lose (drain k (startC v P))))) := by
    rcases hk with rfl | rfl | rfl | rfl | hk
    · exact c2_k0 hv hP
    · exact c2_k1 hv hP
    · exact c2_k2 hv hP
    · exact c2_k3 hv hP
    · rw [(c2_nl hv hP).stable k hk, if_neg (by omega)]; exact c2_k4 hv hP
  rw [key.stable n hn]; exact key

/-- **QoS 1, loss after `k` deliveries, for every `k`** -/
theorem C01_l2_qos1_any_crash_point (hP : IsPub v 1 P) (k n : Nat) (hn : 4 ≤ n) :
    Good v true (if k = 0 then [P.asDup] else if k = 1 then [P, P.asDup] else [P])
      (drain n (resume v (lose (drain k (startC v P))))) := by
  have hk : k = 0 ∨ k = 1 ∨ 2 ≤ k := by omega
  have key : Good v true (if k = 0 then [P.asDup] else if k = 1 then [P, P.asDup] else [P])
      (drain 4 (resume v (lose (drain k (startC v P))))) := by
    rcases hk with rfl | rfl | hk
    · exact c1_k0 hv hP
    · exact c1_k1 hv hP
    · rw [(c1_nl hv hP).stable k hk, if_neg (by omega), if_neg (by omega)]; exact c1_k2 hv hP
  rw [key.stable n hn]; exact key

/-! ## C01, L2, server publishes -/

theorem C01_l2_qos2_no_loss_s2c (hP : IsPub v 2 P) (n : Nat) (hn : 4 ≤ n) :
    Good v false [P] (drain n (startS v P)) := by
  rw [(s2_nl hv hP).stable n hn]; exact s2_nl hv hP

theorem C01_l2_qos1_no_loss_s2c (hP : IsPub v 1 P) (n : Nat) (hn : 2 ≤ n) :
    Good v false [P] (drain n (startS v P)) := by
  rw [(s1_nl hv hP).stable n hn]; exact s1_nl hv hP

theorem C01_l2_qos2_any_crash_point_s2c (hP : IsPub v 2 P) (k n : Nat) (hn : 4 ≤ n) :
    Good v false [if k = 0 then P.asDup else P] (drain n (resume v (lose (drain k (startS v P))))) := by
  have hk : k = 0 ∨ k = 1 ∨ k = 2 ∨ k = 3 ∨ 4 ≤ k := by omega
  have key : Good v false [if k = 0 then P.asDup else P] (drain 4 (resume v (lose (drain k (startS v P))))) := by
    rcases hk with rfl | rfl | rfl | rfl | hk
    · exact s2_k0 hv hP
    · exact s2_k1 hv hP
    · exact s2_k2 hv hP
    · exact s2_k3 hv hP
    · rw [(s2_nl hv hP).stable k hk, if_neg (by omega)]; exact s2_k4 hv hP
  rw [key.stable n hn]; exact key

theorem C01_l2_qos1_any_crash_point_s2c (hP : IsPub v 1 P) (k n : Nat) (hn : 4 ≤ n) :
    Good v false (if k = 0 then [P.asDup] else if k = 1 then [P, P.asDup] else [P])
      (drain n (resume v (lose (drain k (startS v P))))) := by
  have hk : k = 0 ∨ k = 1 ∨ 2 ≤ k := by omega
  have key : Good v false (if k = 0 then [P.asDup] else if k = 1 then [P, P.asDup] else [P])
      (drain 4 (resume v (lose (drain k (startS v P))))) := by
    rcases hk with rfl | rfl | hk
    · exact s1_k0 hv hP
    · exact s1_k1 hv hP
    · rw [(s1_nl hv hP).stable k hk, if_neg (by omega), if_neg (by omega)]; exact s1_k2 hv hP
  rw [key.stable n hn]; exact key

/-! ## the informal clauses, read off `Good` -/

/-- QoS 2: whatever the crash point, the receiving application is notified exactly once, of
    the message that was sent (same packet up to the DUP flag) -/
theorem C01_l2_qos2_exactly_once (hP : IsPub v 2 P) (k n : Nat) (hn : 4 ≤ n) :
    ∃ Q, pubNotes (drain n (resume v (lose (drain k (startC v P))))).logS = [Q] ∧ sameMsg P Q := by
  have h := (C01_l2_qos2_any_crash_point hv hP k n hn).notes
  simp only [if_true] at h
  refine ⟨_, h, ?_⟩
  split
  · exact Or.inr rfl
  · exact Or.inl rfl

/-- QoS 1: whatever the crash point, the receiving application is notified at least once and
    only of the message that was sent; exactly once when the loss happened before the PUBLISH
    reached the receiver (`k = 0`) or after the PUBACK reached the sender (`k ≥ 2`) -/
theorem C01_l2_qos1_at_least_once (hP : IsPub v 1 P) (k n : Nat) (hn : 4 ≤ n) :
    let notes := pubNotes (drain n (resume v (lose (drain k (startC v P))))).logS
    1 ≤ notes.length ∧ (∀ Q ∈ notes, sameMsg P Q) ∧ (k ≠ 1 → notes.length = 1) := by
  have h := (C01_l2_qos1_any_crash_point hv hP k n hn).notes
  simp only [if_true] at h
  intro notes
  have hn' : notes = _ := h
  rw [hn']
  by_cases h0 : k = 0
  · simp [h0, sameMsg]
  · by_cases h1 : k = 1
    · simp [h1, sameMsg]
    · simp [h0, h1, sameMsg]
end


/-! ## the starting point is reachable, the identifier is the acquired one -/

theorem acquire_gives_1 (v : Nat) (hv : v = 4 ∨ v = 5) :
    (acquire { cfg := cfgC, s := (established v).c }).1 = some 1 ∧
    (acquire { cfg := cfgS, s := (established v).s }).1 = some 1 := by
  rcases hv with rfl | rfl <;> decide

theorem established_reachable (v : Nat) (hv : v = 4 ∨ v = 5) :
    Reachable cfgC v (established v).c ∧ Reachable cfgS v (established v).s := by
  refine ⟨⟨[.setFlag .autoPub true, .send (connectPkt v false), deliverOp (connackPkt v false)], ?_⟩,
          ⟨[.setFlag .autoPub true, deliverOp (connectPkt v false), .send (connackPkt v false)], ?_⟩⟩ <;>
    rcases hv with rfl | rfl <;> decide

/-! ## non-vacuity: concrete packets, every run recomputed by `decide` (independently of the
    step lemmas) -/

def exPub (v q : Nat) : Pkt :=
  { ver := v, kind := .publish, qos := q, pid := some 1, topic := [97, 47, 98], payloadLen := 5, tag := 77, size := 14 }

example : IsPub 4 2 (exPub 4 2) := ⟨rfl, rfl, rfl, rfl, rfl, by decide, by decide, by decide⟩
example : IsPub 5 2 (exPub 5 2) := ⟨rfl, rfl, rfl, rfl, rfl, by decide, by decide, by decide⟩
example : IsPub 4 1 (exPub 4 1) := ⟨rfl, rfl, rfl, rfl, rfl, by decide, by decide, by decide⟩
example : IsPub 5 1 (exPub 5 1) := ⟨rfl, rfl, rfl, rfl, rfl, by decide, by decide, by decide⟩

/-- the decidable content of `Good` -/
def goodB (v : Nat) (toServer : Bool) (notes : List Pkt) (y : Sys) : Bool :=
  y.c2s = [] ∧ y.s2c = [] ∧ y.c = idle v true ∧ y.s = idle v false ∧
  y.logC.all (fun e => !isErr e) ∧ y.logS.all (fun e => !isErr e) ∧
  pubNotes (if toServer then y.logS else y.logC) = notes ∧
  releasedIds (if toServer then y.logC else y.logS) = [1]

-- C01_l2_qos2_no_loss / C01_l2_qos1_no_loss
example : goodB 4 true [exPub 4 2] (drain 4 (startC 4 (exPub 4 2))) = true := by decide +kernel
example : goodB 5 true [exPub 5 2] (drain 4 (startC 5 (exPub 5 2))) = true := by decide +kernel
example : goodB 4 true [exPub 4 1] (drain 2 (startC 4 (exPub 4 1))) = true := by decide +kernel
example : goodB 5 true [exPub 5 1] (drain 2 (startC 5 (exPub 5 1))) = true := by decide +kernel
-- the exchange really takes 4 (resp. 2) deliveries: one less leaves a packet in flight
example : (drain 3 (startC 5 (exPub 5 2))).s2c ≠ [] := by decide +kernel
example : (drain 1 (startC 4 (exPub 4 1))).s2c ≠ [] := by decide +kernel
-- C01_l2_qos2_any_crash_point, k = 0 … 4
example : goodB 4 true [(exPub 4 2).asDup] (drain 4 (resume 4 (lose (drain 0 (startC 4 (exPub 4 2)))))) = true := by decide +kernel
example : goodB 5 true [exPub 5 2] (drain 4 (resume 5 (lose (drain 1 (startC 5 (exPub 5 2)))))) = true := by decide +kernel
example : goodB 4 true [exPub 4 2] (drain 4 (resume 4 (lose (drain 2 (startC 4 (exPub 4 2)))))) = true := by decide +kernel
example : goodB 5 true [exPub 5 2] (drain 4 (resume 5 (lose (drain 3 (startC 5 (exPub 5 2)))))) = true := by decide +kernel
example : goodB 5 true [exPub 5 2] (drain 4 (resume 5 (lose (drain 4 (startC 5 (exPub 5 2)))))) = true := by decide +kernel
-- at k = 3 the v5.0 server answers the retransmitted PUBREL with "Packet Identifier not found"
example : Ev.send ackRc none ∈ (drain 4 (resume 5 (lose (drain 3 (startC 5 (exPub 5 2)))))).logS := by decide +kernel
-- C01_l2_qos1_any_crash_point, k = 0, 1, 2: the duplicate at k = 1 is real
example : goodB 5 true [(exPub 5 1).asDup] (drain 4 (resume 5 (lose (drain 0 (startC 5 (exPub 5 1)))))) = true := by decide +kernel
example : goodB 4 true [exPub 4 1, (exPub 4 1).asDup] (drain 4 (resume 4 (lose (drain 1 (startC 4 (exPub 4 1)))))) = true := by decide +kernel
example : goodB 5 true [exPub 5 1] (drain 4 (resume 5 (lose (drain 2 (startC 5 (exPub 5 1)))))) = true := by decide +kernel
-- server publishes
example : goodB 5 false [exPub 5 2] (drain 4 (startS 5 (exPub 5 2))) = true := by decide +kernel
example : goodB 4 false [exPub 4 1] (drain 2 (startS 4 (exPub 4 1))) = true := by decide +kernel
example : goodB 4 false [exPub 4 2] (drain 4 (resume 4 (lose (drain 1 (startS 4 (exPub 4 2)))))) = true := by decide +kernel
example : goodB 5 false [exPub 5 2] (drain 4 (resume 5 (lose (drain 2 (startS 5 (exPub 5 2)))))) = true := by decide +kernel
example : goodB 5 false [exPub 5 1, (exPub 5 1).asDup] (drain 4 (resume 5 (lose (drain 1 (startS 5 (exPub 5 1)))))) = true := by decide +kernel

end MqttVerif.Conn.Pair

/-! ## axiom audit -/
#print axioms MqttVerif.Conn.Pair.deliver_eq
#print axioms MqttVerif.Conn.Pair.established_eq
#print axioms MqttVerif.Conn.Pair.established_reachable
#print axioms MqttVerif.Conn.Pair.acquire_gives_1
#print axioms MqttVerif.Conn.Pair.Good.quiescent
#print axioms MqttVerif.Conn.Pair.C01_l2_qos2_no_loss
#print axioms MqttVerif.Conn.Pair.C01_l2_qos1_no_loss
#print axioms MqttVerif.Conn.Pair.C01_l2_qos2_any_crash_point
#print axioms MqttVerif.Conn.Pair.C01_l2_qos1_any_crash_point
#print axioms MqttVerif.Conn.Pair.C01_l2_qos2_no_loss_s2c
#print axioms MqttVerif.Conn.Pair.C01_l2_qos1_no_loss_s2c
#print axioms MqttVerif.Conn.Pair.C01_l2_qos2_any_crash_point_s2c
#print axioms MqttVerif.Conn.Pair.C01_l2_qos1_any_crash_point_s2c
#print axioms MqttVerif.Conn.Pair.C01_l2_qos2_exactly_once
#print axioms MqttVerif.Conn.Pair.C01_l2_qos1_at_least_once
