import MqttVerif.Conn.Lemmas.CloseRecv
import MqttVerif.Conn.Lemmas.Store3
/-!
# C19 — close requests are ordered after the last packet to flush

For every configuration, every state and every API call (`Op` includes `recv` with arbitrary
bytes and an arbitrary parser):

* `C19_close_after_send` — in the returned event list no `RequestSendPacket` follows a
  `RequestClose` (unconditional);
* `C19_keepalive_timeout_closes` — on an established v3.1.1/v5.0 connection the expiry of
  either keep-alive timeout yields a `RequestClose`, whatever the peer's Maximum Packet Size;
* `C19_disconnect_has_close_partial` — every sent DISCONNECT / refusing CONNACK is accompanied
  by a close request, for every state whose *store* holds only PUBLISH / PUBREL packets
  (`StoreOk`; in Rust this is the type `GenericStorePacket`).  The unrestricted statement
  `C19_disconnect_has_close_full` is false in the model (a stored "DISCONNECT" would be resent
  by `send_stored` without a close): `C19_disconnect_has_close_full_false`.
-/
namespace MqttVerif.Conn
open MqttVerif

/-- the store holds only PUBLISH and PUBREL packets (`GenericStorePacket`) -/
def StoreOk (s : St) : Prop := ∀ x ∈ s.store, x.2.kind = .publish ∨ x.2.kind = .pubrel

instance (s : St) : Decidable (StoreOk s) := by unfold StoreOk; infer_instance

theorem quiet_of_storeKind {p : Pkt} (h : p.kind = .publish ∨ p.kind = .pubrel) (r) : quietEv (.send p r) :=
  CP_quietEv.sendOk (by rcases h with h | h <;> simp [h]) (by rcases h with h | h <;> simp [h]) r

/-- C19 (1): within any returned event list no send request follows a close request. -/
theorem C19_close_after_send (cfg : Cfg) (s : St) (op : Op) :
    Mon.closeAfterSend (step cfg s op).ev = true :=
  PF_cas CP_notClose (step_PF CP_notClose cfg s op (fun _ _ => by simp [notClose]))

/-- shape of the event list of one call, from a state with a well-typed store -/
theorem step_quiet_or_final (cfg : Cfg) (s : St) (op : Op) (hs : StoreOk s) :
    PF quietEv (step cfg s op).ev :=
  step_PF CP_quietEv cfg s op (fun x hx => quiet_of_storeKind (hs x hx) none)

/-- C19 (2): every DISCONNECT sent and every CONNACK sent with a failure code is accompanied
    by a close request in the same event list. -/
theorem C19_disconnect_has_close_partial (cfg : Cfg) (s : St) (op : Op) (hs : StoreOk s) :
    Mon.disconnectHasClose (step cfg s op).ev = true :=
  (step_quiet_or_final cfg s op hs).elim Q_dhc F_dhc

/-- the statement without the store typing -/
def C19_disconnect_has_close_full : Prop :=
  ∀ (cfg : Cfg) (s : St) (op : Op), Mon.disconnectHasClose (step cfg s op).ev = true

/-- C19 (3): on an established connection a keep-alive timeout always ends in a close request —
    for every Maximum Packet Size of the peer (fix of finding #17). -/
theorem C19_keepalive_timeout_closes (cfg : Cfg) (s : St) (k : Timer)
    (hk : k = .pingreqRecv ∨ k = .pingrespRecv) (hc : s.status = .connected)
    (hv : s.ver = 4 ∨ s.ver = 5) :
    Mon.hasClose (step cfg s (.timer k)).ev = true :=
  (notifyTimerFired_keepalive_F CP_notClose { cfg := cfg, s := s } k hk hc hv (EvAll_nil _)).2

/-- C19 (4a): lifted to every event list of every operation sequence. -/
theorem C19_close_after_send_run (cfg : Cfg) (s : St) (ops : List Op) :
    ∀ evs ∈ runEvents cfg s ops, Mon.closeAfterSend evs = true := by
  induction ops generalizing s with
  | nil => simp [runEvents]
  | cons op rest ih =>
    intro evs h
    simp only [runEvents, List.mem_cons] at h
    rcases h with rfl | h
    · exact C19_close_after_send cfg s op
    · exact ih _ evs h


/-- C19 (4b), partial: clause (2) along an operation sequence whose intermediate states keep a
    well-typed store.  (Superseded by `C19_disconnect_has_close_run`, which proves the invariant.) -/
theorem C19_disconnect_has_close_run_partial (cfg : Cfg) (s : St) (ops : List Op)
    (hinv : ∀ pre, pre <+: ops → StoreOk (run cfg s pre)) :
    ∀ evs ∈ runEvents cfg s ops, Mon.disconnectHasClose evs = true := by
  induction ops generalizing s with
  | nil => simp [runEvents]
  | cons op rest ih =>
    intro evs h
    simp only [runEvents, List.mem_cons] at h
    rcases h with rfl | h
    · exact C19_disconnect_has_close_partial cfg s op (hinv [] (List.nil_prefix))
    · refine ih _ (fun pre hp => ?_) evs h
      have := hinv (op :: pre) (by simpa [List.cons_prefix_cons] using hp)
      simpa [run] using this

/-- operations as the Rust API allows them: restored packets are PUBLISH / PUBREL -/
def OpOk : Op → Prop
  | .restorePackets ps => ∀ p ∈ ps, p.kind = .publish ∨ p.kind = .pubrel
  | _ => True

def C19_disconnect_has_close_run_full : Prop :=
  ∀ (cfg : Cfg) (s : St) (ops : List Op), StoreOk s → (∀ op ∈ ops, OpOk op) →
    ∀ evs ∈ runEvents cfg s ops, Mon.disconnectHasClose evs = true

def storeKind (p : Pkt) : Prop := p.kind = .publish ∨ p.kind = .pubrel

theorem StoreOk_iff (s : St) : StoreOk s ↔ SL storeKind s.store := ⟨fun h => ⟨h⟩, fun h => h.h⟩

/-- `StoreOk` is an invariant of every API call whose restored packets are PUBLISH / PUBREL. -/
theorem step_StoreOk (cfg : Cfg) (s : St) (op : Op) (hs : StoreOk s) (ho : OpOk op) :
    StoreOk (step cfg s op).s := by
  rw [StoreOk_iff] at hs ⊢
  have hK : KPub storeKind := fun _ h => h
  cases op with
  | send p => exact send_sl hK _ p hs
  | recv inp parse => exact recv_sl hK _ inp parse hs
  | timer k => simpa [step] using hs
  | closed => exact notifyClosed_sl _ hs
  | setInterval d => simpa [step] using hs
  | setFlag f b => cases f <;> exact hs
  | setRespTimeout ms => exact hs
  | acquire => exact hs
  | register id => exact hs
  | release id => simpa [step] using hs
  | erase id => exact eraseStoredPublish_sl _ id hs
  | restoreHandled ids => exact hs
  | restorePackets ps => exact restorePackets_sl _ ps ho hs

theorem run_StoreOk (cfg : Cfg) (s : St) (ops : List Op) (hs : StoreOk s) (ho : ∀ op ∈ ops, OpOk op) :
    StoreOk (run cfg s ops) := by
  induction ops generalizing s with
  | nil => exact hs
  | cons op rest ih =>
    exact ih _ (step_StoreOk cfg s op hs (ho op List.mem_cons_self))
      (fun o h => ho o (List.mem_cons_of_mem _ h))

/-- C19 (4b): clause (2) for every event list of every operation sequence from a state with a
    well-typed store, restored packets being PUBLISH / PUBREL (`GenericStorePacket`). -/
theorem C19_disconnect_has_close_run : C19_disconnect_has_close_run_full := by
  intro cfg s ops hs ho
  induction ops generalizing s with
  | nil => simp [runEvents]
  | cons op rest ih =>
    intro evs h
    simp only [runEvents, List.mem_cons] at h
    rcases h with rfl | h
    · exact C19_disconnect_has_close_partial cfg s op hs
    · exact ih _ (step_StoreOk cfg s op hs (ho op List.mem_cons_self))
        (fun o h => ho o (List.mem_cons_of_mem _ h)) evs h

/-- … in particular for every run of a fresh connection object, and both monitors together. -/
theorem C19_run_from_init (cfg : Cfg) (ver : Nat) (ops : List Op) (ho : ∀ op ∈ ops, OpOk op) :
    ∀ evs ∈ runEvents cfg (St.init cfg ver) ops,
      Mon.closeAfterSend evs = true ∧ Mon.disconnectHasClose evs = true :=
  fun evs h => ⟨C19_close_after_send_run cfg _ ops evs h,
    C19_disconnect_has_close_run cfg _ ops (by intro x hx; simp [St.init] at hx) ho evs h⟩

/-! ## counterexample to the unrestricted clause (2), and non-vacuity -/

namespace C19ex
def cfg : Cfg := { role := .server, pw := 2 }
/-- a state whose store holds a "DISCONNECT" (not constructible in Rust: `GenericStorePacket`) -/
def sBad : St := { St.init cfg 4 with status := .connecting, store := [(1, { ver := 4, kind := .disconnect })] }
/-- an accepting CONNACK with session present (only then is the store resent — fix 10ee029) -/
def opAccept : Op := .send { mkV3Connack 0 with sp := true }

example : (step cfg sBad opAccept).ev =
    [.send { mkV3Connack 0 with sp := true } none, .send { ver := 4, kind := .disconnect } none] := by decide

/-- a well-typed state: established v5.0 connection, peer limit 2 (below the 3-byte DISCONNECT),
    one stored QoS 1 PUBLISH -/
def sGood : St :=
  { St.init cfg 5 with
    status := .connected
    mpsSend := 2
    recvSet := true
    store := [(1, { ver := 5, kind := .publish, qos := 1, pid := some 1 })] }

example : StoreOk sGood := by decide
example : sGood.status = .connected ∧ (sGood.ver = 4 ∨ sGood.ver = 5) := by decide
/-- the keep-alive timeout closes although the DISCONNECT does not fit -/
example : (step cfg sGood (.timer .pingreqRecv)).ev = [.close] := by decide
/-- with room for the DISCONNECT: cancel, DISCONNECT 0x8D, close — in this order -/
example : (step cfg { sGood with mpsSend := 3 } (.timer .pingrespRecv)).ev =
    [.timerCancel .pingreqRecv, .send (mkV5Disconnect eKeepAliveTimeout) none, .close] := by decide

/-- a run satisfying the hypotheses of `C19_run_from_init` that restores a packet, connects and
    is refused: the refusing CONNACK is followed by the close request -/
def ops : List Op :=
  [.restorePackets [{ ver := 4, kind := .publish, qos := 1, pid := some 1 }],
   .recv [0x10, 0] (fun _ _ _ => .error eBadUser)]
example : ∀ op ∈ ops, OpOk op := by
  intro op h
  simp only [ops, List.mem_cons, List.not_mem_nil, or_false] at h
  rcases h with rfl | rfl <;> simp [OpOk]
example : runEvents cfg (St.init cfg 4) ops =
    [[], [.send (mkV3Connack 4) none, .close, .error eBadUser]] := by decide
end C19ex

theorem C19_disconnect_has_close_full_false : ¬ C19_disconnect_has_close_full := by
  intro h
  exact absurd (h C19ex.cfg C19ex.sBad C19ex.opAccept) (by decide)

end MqttVerif.Conn
