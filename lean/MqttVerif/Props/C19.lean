import MqttVerif.Conn.Lemmas.Basic
/-!
# C19 — close requests are ordered after the last packet to flush (first instalment)

Mechanism lemmas about the functions that emit `RequestClose`; the per-call theorems for every
`Op` are being added on top of these (see DESIGN.md §5 C19).  The monitors `Mon.closeAfterSend`
/ `Mon.disconnectHasClose` used here are the ones evaluated on every implementation trace.
-/
set_option linter.unusedSimpArgs false
set_option linter.unusedVariables false
namespace MqttVerif.Conn
open MqttVerif

/-- v3.1.1 error path: exactly `[close, error]`, in that order -/
theorem C19_v3_error_shape (c : C) (e : Nat) (h : c.ev = []) :
    Mon.closeAfterSend (handleV3Error c e).ev = true ∧ Mon.hasClose (handleV3Error c e).ev = true := by
  simp [handleV3Error_events, h, Mon.closeAfterSend, Mon.hasClose]

/-- a sent v5.0 DISCONNECT is followed by the close request, nothing is sent after it -/
theorem C19_v5_disconnect_then_close (c : C) (p : Pkt) (hs : sizeOk c p = true)
    (hc : c.s.status = .connected) :
    ∃ t, (psV5Disconnect c p).ev = c.ev ++ t ++ [.send p none, .close] ∧
      ∀ e ∈ t, ∃ k, e = .timerCancel k := by
  obtain ⟨⟨t, ht, hk⟩, _⟩ := cancelTimers_spec { c with s := { c.s with status := .disconnected } }
  refine ⟨t, ?_, hk⟩
  simp [psV5Disconnect, hs, hc, ht]

/-- fix (finding #17): on an established connection the library-generated DISCONNECT path
    always ends in a close request — for EVERY Maximum Packet Size of the peer -/
theorem C19_disconnect_or_close_closes (c : C) (d : Pkt) (h : c.s.status = .connected) :
    Mon.hasClose (v5DisconnectOrClose c d).ev = true := by
  unfold v5DisconnectOrClose psV5Disconnect
  by_cases hs : sizeOk c d = true <;> simp [hs, h, Mon.hasClose]

/-- keep-alive timeout on an established v5.0 connection requests a close -/
theorem C19_keepalive_timeout_closes_v5 (cfg : Cfg) (s : St) (k : Timer)
    (hk : k = .pingreqRecv ∨ k = .pingrespRecv) (hv : s.ver = 5) (hc : s.status = .connected) :
    Mon.hasClose (step cfg s (.timer k)).ev = true := by
  rcases hk with rfl | rfl <;>
    simp [step, notifyTimerFired, hv, hc, C19_disconnect_or_close_closes]

/-- keep-alive timeout on a v3.1.1 connection: exactly a close request -/
theorem C19_keepalive_timeout_closes_v3 (cfg : Cfg) (s : St) (k : Timer)
    (hk : k = .pingreqRecv ∨ k = .pingrespRecv) (hv : s.ver = 4) :
    (step cfg s (.timer k)).ev = [.close] := by
  rcases hk with rfl | rfl <;> simp [step, notifyTimerFired, hv]

example : ∃ c : C, c.s.status = .connected ∧ sizeOk c (mkV5Disconnect 0x8D) = false :=
  ⟨{ cfg := ⟨.client, 2⟩, s := { (St.init ⟨.client, 2⟩ 5) with status := .connected, mpsSend := 2 } },
   rfl, by decide⟩

end MqttVerif.Conn
