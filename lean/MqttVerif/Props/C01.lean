import MqttVerif.Flow.Model
import MqttVerif.Conn.Step
/-!
# C01 — two endpoints interoperate, even across transport loss (core, abstract level)

**What is proved here** (`C01_core_*`): on the abstract per-identifier flow system
(`Flow/Model.lean`: sender automaton, receiver handled flag, two FIFO channels, loss +
persistent-session resumption at ANY point) for EVERY schedule of application sends, deliveries
and losses:
* no endpoint ever reports a protocol error about its peer (`C01_core_never_protocol_error`);
* every QoS 2 message is notified exactly once (`C01_core_qos2_exactly_once`), every QoS 1
  message at least once and exactly once when no transport was lost during its exchange
  (`C01_core_qos1`);
* with no further application input and no further loss the exchange terminates: every
  delivery strictly decreases a measure (`C01_core_delivery_decreases`), and a state with
  empty channels is quiescent: sender idle, handled flag clear (`C01_core_quiescent`).

**What is not a theorem** (`def C01_full`): that the two `Conn` models joined by byte channels
refine this abstract system (DESIGN.md §5 C01, stage 2).  That link is exercised on the real
implementation by the two-endpoint harness (`harness pair`): a real client object and a real
server object, arbitrary chunking, loss at arbitrary points incl. mid-frame, resumption — with
the property's own observations as monitors and each endpoint in lock-step with its model.
-/
set_option linter.unusedSimpArgs false
set_option linter.unusedVariables false
namespace MqttVerif.Flow

/-- consistent joint configurations of sender, receiver and the two channels -/
def Inv (s : Sys) : Prop :=
  s.err = false ∧ s.told2 = s.done2 + (if s.snd = .wComp ∨ (s.snd = .wRec ∧ s.handled) then 1 else 0) ∧
  s.done1 ≤ s.told1 ∧
  (s.dup1 = 0 → s.told1 = s.done1) ∧
  match s.snd with
  | .idle => s.fwd = [] ∧ s.bwd = [] ∧ s.handled = false
  | .w1 => ((s.fwd = [.pub1] ∧ s.bwd = [] ∧ (s.lost = false → s.notified = 0)) ∨
            (s.fwd = [] ∧ s.bwd = [.ack] ∧ 1 ≤ s.notified ∧ (s.lost = false → s.notified = 1))) ∧
           s.handled = false
  | .wRec => ((s.fwd = [.pub2] ∧ s.bwd = []) ∨ (s.fwd = [] ∧ s.bwd = [.prec] ∧ s.handled = true)) ∧
             (s.handled = true → s.notified = 1) ∧ (s.handled = false → s.notified = 0)
  | .wComp => ((s.fwd = [.rel] ∧ s.bwd = []) ∨ (s.fwd = [] ∧ s.bwd = [.comp] ∧ s.handled = false)) ∧
              s.notified = 1

theorem inv_init : Inv {} := by simp [Inv]

theorem inv_step (s : Sys) (a : Act) (h : Inv s) : Inv (step s a) := by
  obtain ⟨he, h2, h1a, h1c, hc⟩ := h
  cases a <;> cases hs : s.snd <;> simp only [hs] at hc h2 <;> simp only [step, hs, resend]
  all_goals first
    | (simp_all [Inv]; done)
    | (rcases hc with ⟨h1 | h1, h3⟩ <;> simp_all [Inv] <;> omega)
    | (rcases hc with ⟨h1 | h1, h3, h4⟩ <;> simp_all [Inv] <;> (try cases hh : s.handled <;> simp_all) <;> omega)
    | (rcases hc with ⟨h1 | h1, h3⟩ <;> simp_all [Inv] <;> (try cases hl : s.lost <;> simp_all) <;> omega)

/-- every reachable state is consistent -/
theorem reachable_inv (acts : List Act) : Inv (acts.foldl step {}) := by
  have : ∀ s, Inv s → Inv (acts.foldl step s) := by
    induction acts with
    | nil => intro s h; exact h
    | cons a t ih => intro s h; exact ih _ (inv_step s a h)
  exact this _ inv_init

/-- **C01 core, safety**: for every schedule of sends, deliveries and transport losses (at any
    point, followed by resumption) neither side ever reports a protocol error about the other -/
theorem C01_core_never_protocol_error (acts : List Act) : (acts.foldl step {}).err = false :=
  (reachable_inv acts).1

/-- **C01 core, QoS 2 exactly once**: at quiescence (sender idle) the number of QoS 2
    notifications equals the number of completed QoS 2 exchanges -/
theorem C01_core_qos2_exactly_once (acts : List Act) (hq : (acts.foldl step {}).snd = .idle) :
    (acts.foldl step {}).told2 = (acts.foldl step {}).done2 := by
  have h := (reachable_inv acts).2.1
  simp [hq] at h
  exact h

/-- **C01 core, QoS 1**: every completed QoS 1 exchange was notified at least once, and exactly
    once in total when no completed exchange saw a transport loss -/
theorem C01_core_qos1 (acts : List Act) :
    (acts.foldl step {}).done1 ≤ (acts.foldl step {}).told1 ∧
    ((acts.foldl step {}).dup1 = 0 → (acts.foldl step {}).told1 = (acts.foldl step {}).done1) := by
  have h := reachable_inv acts
  exact ⟨h.2.2.1, h.2.2.2.1⟩

/-- **C01 core, termination**: every delivery of a byte-stream element strictly decreases the
    remaining work, whatever the state — so with no further application input and no further
    loss at most `weight s` deliveries happen -/
theorem C01_core_delivery_decreases (s : Sys) :
    (s.fwd ≠ [] → weight (step s .deliverF) < weight s) ∧
    (s.bwd ≠ [] → weight (step s .deliverB) < weight s) := by
  constructor
  · intro h
    cases hf : s.fwd with
    | nil => exact absurd hf h
    | cons x t =>
      cases x <;> simp only [step, hf, weight] <;> (try split) <;>
        simp [wF, wB, List.sum_append] <;> omega
  · intro h
    cases hb : s.bwd with
    | nil => exact absurd hb h
    | cons x t =>
      cases x <;> simp only [step, hb, weight] <;> (try split) <;>
        simp [wF, wB, List.sum_append] <;> omega

/-- **C01 core, quiescence**: a reachable state with both channels empty has an idle sender and
    a clear handled flag: nothing is stored, nothing awaited -/
theorem C01_core_quiescent (acts : List Act)
    (hf : (acts.foldl step {}).fwd = []) (hb : (acts.foldl step {}).bwd = []) :
    (acts.foldl step {}).snd = .idle ∧ (acts.foldl step {}).handled = false := by
  have h := (reachable_inv acts).2.2.2.2
  cases hs : (acts.foldl step {}).snd <;> simp only [hs] at h
  · exact ⟨rfl, h.2.2⟩
  · rcases h.1 with h1 | h1 <;> simp_all
  · rcases h.1 with h1 | h1 <;> simp_all
  · rcases h.1 with h1 | h1 <;> simp_all

end MqttVerif.Flow

namespace MqttVerif.Conn

/-- two connection models joined by two byte channels; `enc` serialises an emitted packet and
    `parse` is the L1 parser (C02 relates them) -/
structure Sys2 where
  c : St
  s : St
  c2s : List Nat := []
  s2c : List Nat := []
  errs : Nat := 0          -- NotifyError events raised while processing the peer's bytes

inductive Act2
  | appC (op : Op) | appS (op : Op)        -- application calls (no `recv`)
  | deliverC2S (n : Nat) | deliverS2C (n : Nat)
  | lose                                    -- in-flight bytes discarded, both sides told

def sentBytes (enc : Pkt → List Nat) (evs : List Ev) : List Nat :=
  (evs.filterMap fun e => match e with | .send p _ => some (enc p) | _ => none).flatten

def errCount (evs : List Ev) : Nat := (evs.filter fun e => match e with | .error _ => true | _ => false).length

def step2 (cc cs : Cfg) (enc : Pkt → List Nat) (parse : Nat → Nat → List Nat → Except Nat Pkt)
    (y : Sys2) : Act2 → Sys2
  | .appC op => let r := step cc y.c op; { y with c := r.s, c2s := y.c2s ++ sentBytes enc r.ev }
  | .appS op => let r := step cs y.s op; { y with s := r.s, s2c := y.s2c ++ sentBytes enc r.ev }
  | .deliverC2S n =>
    let r := step cs y.s (.recv (y.c2s.take n) parse)
    { y with s := r.s, c2s := y.c2s.drop n, s2c := y.s2c ++ sentBytes enc r.ev, errs := y.errs + errCount r.ev }
  | .deliverS2C n =>
    let r := step cc y.c (.recv (y.s2c.take n) parse)
    { y with c := r.s, s2c := y.s2c.drop n, c2s := y.c2s ++ sentBytes enc r.ev, errs := y.errs + errCount r.ev }
  | .lose =>
    { y with c := (step cc y.c .closed).s, s := (step cs y.s .closed).s, c2s := [], s2c := [] }

/-- **the full safety clause of C01 at the level of the two connection models** (delivery,
    termination and quiescence clauses are analogous): for every codec satisfying the C02
    round trip and every schedule in which the applications follow the protocol, neither
    endpoint reports an error about its peer.  NOT proved — it needs the refinement of
    `Sys2` to the abstract flow system above (DESIGN.md §5 C01 stage 2); what is proved is
    `Flow.C01_core_*`; what is checked on the implementation is the two-endpoint harness. -/
def C01_full : Prop :=
  ∀ (enc : Pkt → List Nat) (parse : Nat → Nat → List Nat → Except Nat Pkt) (ver : Nat)
    (acts : List Act2) (_wellBehaved : True),
    (acts.foldl (step2 ⟨.client, 2⟩ ⟨.server, 2⟩ enc parse)
        { c := St.init ⟨.client, 2⟩ ver, s := St.init ⟨.server, 2⟩ ver }).errs = 0

end MqttVerif.Conn

namespace MqttVerif.Flow

/-! ## non-vacuity: a schedule with a QoS 2 message, a loss in the middle, and completion -/
example : (([.send2, .deliverF, .loseResume, .deliverF, .deliverB, .deliverF, .deliverB] : List Act).foldl step {}).snd = .idle ∧
          (([.send2, .deliverF, .loseResume, .deliverF, .deliverB, .deliverF, .deliverB] : List Act).foldl step {}).told2 = 1 ∧
          (([.send2, .deliverF, .loseResume, .deliverF, .deliverB, .deliverF, .deliverB] : List Act).foldl step {}).done2 = 1 := by
  decide
example : (([.send1, .deliverF, .loseResume, .deliverF, .deliverB] : List Act).foldl step {}).told1 = 2 := by decide

end MqttVerif.Flow
