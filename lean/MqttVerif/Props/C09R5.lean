import MqttVerif.Conn.Step
import MqttVerif.Framing.Lemmas
/-!
# C09 (round 5) — a receive buffer that completes no frame produces no event

Driver monitor `VIOL sig=C09 events_without_frame@<site>`: a `recv` whose buffer completes no
frame (in particular an empty buffer, trace operation `recv_empty`) must return no event.
This file shows that the MODEL can never trigger it.

Proved, for **every** context `c` (any state, reachable or not — no assembler invariant is
needed —, any events pushed so far), **every** input `inp` and **every** parser `parse`:

* `C09_incomplete_buffer_no_event`: if the one call of `Framing.feed c.s.pb inp` that `recv`
  makes returns no output (`.2.1 = none`), then `recv`
  - pushes no event (`.1.ev = c.ev`),
  - leaves the configuration alone,
  - changes the state in the field `pb` only: the new state *is*
    `{ c.s with pb := (Framing.feed c.s.pb inp).1 }`,
  - returns as unread rest what `feed` left unread;
* `C09_incomplete_buffer_fields`: the same, read through an arbitrary observation `f` of the
  state that does not look at `pb` (every digest field of the harness except the assembler);
* `C09_empty_buffer_noop`: for `inp = []` nothing changes at all: `recv c [] parse = (c, [])`;
* `C09_incomplete_buffer_no_event_step`: the first statement for one API call
  `step cfg s (.recv inp parse)` (events `= []`);
* `C09_incomplete_buffer_no_event_spec`: the same with the byte-at-a-time specification
  `Framing.feedSpec` in the hypothesis, which is what the driver's ghost assembler runs on
  buffers up to 2000 bytes; here the assembler invariant `Framing.Inv` is assumed
  (`Framing.feed_eq_spec`; kept by every call and true initially, `C09_conn_inv_step`).

No hypothesis on the parser: it is not called.
-/
namespace MqttVerif.Conn
open MqttVerif

/-- what `recv` is when `feed` returns no output -/
theorem r5_recv_incomplete (c : C) (inp : List Nat) (parse : Nat → Nat → List Nat → Except Nat Pkt)
    (h : (Framing.feed c.s.pb inp).2.1 = none) :
    recv c inp parse =
      ({ c with s := { c.s with pb := (Framing.feed c.s.pb inp).1 } }, (Framing.feed c.s.pb inp).2.2) := by
  unfold recv
  generalize Framing.feed c.s.pb inp = r at h ⊢
  obtain ⟨pb, out, rest⟩ := r
  cases out with
  | none => rfl
  | some o => cases h

/-- **C09 events_without_frame** — a receive buffer that completes no frame: no event, only the
    assembler changes. -/
theorem C09_incomplete_buffer_no_event (c : C) (inp : List Nat)
    (parse : Nat → Nat → List Nat → Except Nat Pkt)
    (h : (Framing.feed c.s.pb inp).2.1 = none) :
    (recv c inp parse).1.ev = c.ev ∧
    (recv c inp parse).1.cfg = c.cfg ∧
    (recv c inp parse).1.s = { c.s with pb := (Framing.feed c.s.pb inp).1 } ∧
    (recv c inp parse).2 = (Framing.feed c.s.pb inp).2.2 := by
  rw [r5_recv_incomplete c inp parse h]
  exact ⟨rfl, rfl, rfl, rfl⟩

/-- every observation of the state that does not read the assembler is unchanged -/
theorem C09_incomplete_buffer_fields {α : Type} (f : St → α)
    (hf : ∀ (s : St) (pb : Framing.PB), f { s with pb := pb } = f s)
    (c : C) (inp : List Nat) (parse : Nat → Nat → List Nat → Except Nat Pkt)
    (h : (Framing.feed c.s.pb inp).2.1 = none) :
    f (recv c inp parse).1.s = f c.s := by
  rw [(C09_incomplete_buffer_no_event c inp parse h).2.2.1, hf]

/-- **C09 events_without_frame, `recv_empty`** — an empty receive buffer changes nothing. -/
theorem C09_empty_buffer_noop (c : C) (parse : Nat → Nat → List Nat → Except Nat Pkt) :
    recv c [] parse = (c, []) := by
  have h : Framing.feed c.s.pb [] = (c.s.pb, none, []) := by simp [Framing.feed]
  rw [r5_recv_incomplete c [] parse (by rw [h]), h]

/-- the same for one API call -/
theorem C09_incomplete_buffer_no_event_step (cfg : Cfg) (s : St) (inp : List Nat)
    (parse : Nat → Nat → List Nat → Except Nat Pkt)
    (h : (Framing.feed s.pb inp).2.1 = none) :
    (step cfg s (.recv inp parse)).ev = [] ∧
    (step cfg s (.recv inp parse)).s = { s with pb := (Framing.feed s.pb inp).1 } := by
  have := C09_incomplete_buffer_no_event { cfg := cfg, s := s } inp parse h
  exact ⟨this.1, this.2.2.1⟩

theorem C09_empty_buffer_noop_step (cfg : Cfg) (s : St)
    (parse : Nat → Nat → List Nat → Except Nat Pkt) :
    (step cfg s (.recv [] parse)).ev = [] ∧ (step cfg s (.recv [] parse)).s = s := by
  show (recv { cfg := cfg, s := s } [] parse).1.ev = [] ∧ (recv { cfg := cfg, s := s } [] parse).1.s = s
  rw [C09_empty_buffer_noop]
  exact ⟨rfl, rfl⟩

/-- the hypothesis as the driver's ghost assembler evaluates it (`Framing.feedSpec`) -/
theorem C09_incomplete_buffer_no_event_spec (cfg : Cfg) (s : St) (inp : List Nat)
    (parse : Nat → Nat → List Nat → Except Nat Pkt) (hinv : Framing.Inv s.pb)
    (h : (Framing.feedSpec s.pb inp).2.1 = none) :
    (step cfg s (.recv inp parse)).ev = [] ∧
    (step cfg s (.recv inp parse)).s = { s with pb := (Framing.feedSpec s.pb inp).1 } := by
  have e := Framing.feed_eq_spec s.pb inp hinv
  have := C09_incomplete_buffer_no_event_step cfg s inp parse (by rw [e]; exact h)
  rw [e] at this
  exact this

/-! ### non-vacuity: states reached by running the model from `St.init` -/
namespace C09R5Ex
def cfg : Cfg := { role := .client, pw := 2 }
def connect : Pkt := { ver := 4, kind := .connect, size := 14, keepAlive := 10, clean := true }
def connack : Pkt := { ver := 4, kind := .connack, size := 4, rc := some 0 }
def parse : Nat → Nat → List Nat → Except Nat Pkt := fun _ _ _ => .ok connack
/-- a client that has sent CONNECT and received the first three bytes of the CONNACK -/
def s1 : St := run cfg (St.init cfg 4) [.send connect, .recv [0x20, 0x02, 0x00] parse]

example : Reachable cfg 4 s1 := ⟨_, rfl⟩
example : s1.status = .connecting ∧ s1.pb = ⟨.payload, [0x20, 2], 1, 128, [0]⟩ := by decide
-- the hypothesis holds for the first three bytes (from the initial assembler) …
example : (Framing.feed (run cfg (St.init cfg 4) [.send connect]).pb [0x20, 0x02, 0x00]).2.1 = none := by decide
-- … and fails for the fourth (the frame completes, the CONNACK is delivered)
example : (Framing.feed s1.pb [0x00]).2.1 = some (.complete 0x20 [0, 0]) ∧
    (step cfg s1 (.recv [0x00] parse)).ev = [.recv connack] := by decide
-- the empty buffer on the half-received frame: nothing changes
example : (step cfg s1 (.recv [] parse)).ev = [] ∧ (step cfg s1 (.recv [] parse)).s = s1 :=
  C09_empty_buffer_noop_step cfg s1 parse
-- an observation that does not read the assembler
example : (step cfg (run cfg (St.init cfg 4) [.send connect]) (.recv [0x20, 0x02, 0x00] parse)).s.status
    = (run cfg (St.init cfg 4) [.send connect]).status :=
  C09_incomplete_buffer_fields (·.status) (fun _ _ => rfl) _ _ _ (by decide)
end C09R5Ex

end MqttVerif.Conn
