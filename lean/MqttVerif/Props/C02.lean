import MqttVerif.Codec.LemmasRTAll
/-!
# C02 — codec round trip

For a packet `p` satisfying the decidable well-formedness checks `K.checks` (`Codec/Wf.lean`:
what `build()` establishes — value ranges, permitted properties, cached lengths = sum of the
parts, `utf8Ok` for strings, which a Rust `&str` has by type):

* `K.parse (K.body p) = ok p |K.body p|`            (parse ∘ encode = id, whole body consumed)
* `K.encode p = fixedHeader :: vbi(remaining_length) ++ K.body p`
* `K.size p = |K.encode p|`                          (reported size = serialised length)
* `remaining_length = |K.body p|`                    (Remaining Length on the wire = body length)

for both packet-id widths (`pw = 2 ∨ pw = 4`) and unbounded field lengths.  Combinator lemmas
(variable-byte integer for all values, strings, properties, lists) are stated first.
-/
namespace MqttVerif.Props.C02
open MqttVerif.Codec

/-! ## combinators -/

/-- variable-byte integer: every `v ≤ 268435455` (the 127/128, 16383/16384, 2097151/2097152
    boundaries are not special cases of the statement) -/
theorem C02_vbi_roundtrip (v : Nat) (rest : List Nat) (hv : v ≤ vbiMax) :
    vbiDec (vbiEnc v ++ rest) = .ok v (vbiSize v) ∧ (vbiEnc v).length = vbiSize v :=
  ⟨vbiDec_enc v rest hv, vbiEnc_length v hv⟩

example : (16384 : Nat) ≤ vbiMax ∧ vbiEnc 16384 = [0x80, 0x80, 0x01] := by decide

theorem C02_string_roundtrip (s rest : List Nat) (hl : s.length ≤ 65535) (hu : utf8Ok s = true) :
    decStr (encStr s ++ rest) = .ok s (strSize s) ∧ (encStr s).length = strSize s :=
  ⟨decStr_enc s rest hl hu, encStr_length s⟩

example : [0xe2, 0x82, 0xac].length ≤ 65535 ∧ utf8Ok [0xe2, 0x82, 0xac] = true := by decide

theorem C02_binary_roundtrip (b rest : List Nat) (hl : b.length ≤ 65535) :
    decBin (encStr b ++ rest) = .ok b (strSize b) := decBin_enc b rest hl

example : [0xff, 0x00].length ≤ 65535 := by decide

theorem C02_subentry_roundtrip (e : SubEntry) (rest : List Nat) (h : entryOk e = true) :
    SubEntry.parse (e.encode ++ rest) = .ok e e.size ∧ e.encode.length = e.size :=
  ⟨SubEntry.parse_enc e rest h, SubEntry.encode_length e⟩

example : entryOk ⟨[0x61, 0x2f, 0x23], 0x2d⟩ = true := by decide

/-- each of the 27 properties (7 wire shapes) -/
theorem C02_property_roundtrip (p : Property) (rest : List Nat) (h : p.ok = true) :
    Property.parse (p.encode ++ rest) = .ok p p.size ∧ p.encode.length = p.size :=
  ⟨Property.parse_enc p rest h, Property.encode_length p h⟩

example : (Property.vbi 11 268435455).ok = true ∧ (Property.pair 38 [0x6b] [0x76]).ok = true
    ∧ (Property.u16 35 1).ok = true := by decide

/-- property lists of any length (induction) behind their length prefix -/
theorem C02_properties_roundtrip (ps : Props) (rest : List Nat) (h : propsOk ps = true) (hs : ps.size ≤ vbiMax) :
    Props.parse (vbiEnc ps.size ++ Props.encode ps ++ rest) = .ok ps (vbiSize ps.size + ps.size)
      ∧ (Props.encode ps).length = ps.size :=
  ⟨Props.parse_enc ps rest h hs, Props.encode_length ps h⟩

example : propsOk [.u8 1 1, .str 31 [0x6f, 0x6b], .pair 38 [0x6b] [0x76], .pair 38 [0x6b] [0x76]] = true
    ∧ Props.size [.u8 1 1, .str 31 [0x6f, 0x6b], .pair 38 [0x6b] [0x76], .pair 38 [0x6b] [0x76]] ≤ vbiMax := by decide

/-- a frame splits into fixed header, Remaining Length and body -/
theorem C02_frame (fh rl : Nat) (body : List Nat) (h : rl ≤ vbiMax) :
    frameBody (fh :: vbiEnc rl ++ body) = some (fh, rl, body) := frameBody_enc fh rl body h

/-! ## packet kinds -/

theorem C02_pingreq_pingresp_disconnect3 (fh : Nat) (p : Codec.Empty) (h : allOk p.checks = true) :
    Codec.Empty.parse [] = .ok p 0 ∧ p.encode fh = fh :: vbiEnc p.remLen ++ [] ∧ p.size = (p.encode fh).length
      ∧ p.remLen = ([] : List Nat).length := Codec.Empty.roundtrip fh p h

example : allOk (Codec.Empty.checks ⟨0⟩) = true := by decide

theorem C02_connack3 (p : Connack3) (h : allOk p.checks = true) :
    Connack3.parse p.body = .ok p p.body.length ∧ p.encode = 0x20 :: vbiEnc p.remLen ++ p.body
      ∧ p.size = p.encode.length ∧ p.remLen = p.body.length := Connack3.roundtrip p h

example : allOk (Connack3.checks ⟨2, 1, 5⟩) = true := by decide

theorem C02_ack3 (k : AckKind) (pw : Nat) (p : Ack3) (hpw : pw = 2 ∨ pw = 4) (h : allOk (p.checks k pw) = true) :
    Ack3.parse k pw (p.body pw) = .ok p (p.body pw).length ∧ p.encode k pw = k.fh :: vbiEnc p.remLen ++ p.body pw
      ∧ p.size = (p.encode k pw).length ∧ p.remLen = (p.body pw).length := Ack3.roundtrip k pw p hpw h

example : allOk (Ack3.checks .pubrel 4 ⟨5, 65536, some 0x92⟩) = true := by decide

theorem C02_unsuback3 (pw : Nat) (p : Unsuback3) (hpw : pw = 2 ∨ pw = 4) (h : allOk (p.checks pw) = true) :
    Unsuback3.parse pw (p.body pw) = .ok p (p.body pw).length ∧ p.encode pw = 0xb0 :: vbiEnc p.remLen ++ p.body pw
      ∧ p.size = (p.encode pw).length ∧ p.remLen = (p.body pw).length := Unsuback3.roundtrip pw p hpw h

example : allOk (Unsuback3.checks 4 ⟨4, 1⟩) = true := by decide

theorem C02_suback3 (pw : Nat) (p : Suback3) (hpw : pw = 2 ∨ pw = 4) (h : allOk (p.checks pw) = true) :
    Suback3.parse pw (p.body pw) = .ok p (p.body pw).length ∧ p.encode pw = 0x90 :: vbiEnc p.remLen ++ p.body pw
      ∧ p.size = (p.encode pw).length ∧ p.remLen = (p.body pw).length := Suback3.roundtrip pw p hpw h

example : allOk (Suback3.checks 2 ⟨5, 7, [0, 2, 0x80]⟩) = true := by decide

theorem C02_unsubscribe3 (pw : Nat) (p : Unsubscribe3) (hpw : pw = 2 ∨ pw = 4) (h : allOk (p.checks pw) = true) :
    Unsubscribe3.parse pw (p.body pw) = .ok p (p.body pw).length
      ∧ p.encode pw = 0xa2 :: vbiEnc p.remLen ++ p.body pw
      ∧ p.size = (p.encode pw).length ∧ p.remLen = (p.body pw).length := Unsubscribe3.roundtrip pw p hpw h

example : allOk (Unsubscribe3.checks 2 ⟨9, 7, [[0x61], [0x62, 0x2f]]⟩) = true := by decide

theorem C02_subscribe3 (pw : Nat) (p : Subscribe3) (hpw : pw = 2 ∨ pw = 4) (h : allOk (p.checks pw) = true) :
    Subscribe3.parse pw (p.body pw) = .ok p (p.body pw).length
      ∧ p.encode pw = 0x82 :: vbiEnc p.remLen ++ p.body pw
      ∧ p.size = (p.encode pw).length ∧ p.remLen = (p.body pw).length := Subscribe3.roundtrip pw p hpw h

example : allOk (Subscribe3.checks 2 ⟨11, 7, [⟨[0x61], 1⟩, ⟨[0x62, 0x2f], 2⟩]⟩) = true := by decide

theorem C02_publish3 (pw : Nat) (p : Publish3) (hpw : pw = 2 ∨ pw = 4) (h : allOk (p.checks pw) = true) :
    Publish3.parse pw (p.fh % 16) (p.body pw) = .ok p (p.body pw).length
      ∧ p.encode pw = p.fh :: vbiEnc p.remLen ++ p.body pw
      ∧ p.size = (p.encode pw).length ∧ p.remLen = (p.body pw).length := Publish3.roundtrip pw p hpw h

example : allOk (Publish3.checks 2 ⟨0x3b, 10, [0x61, 0x2f, 0x62], some 10, [1, 2, 3]⟩) = true := by decide

theorem C02_connect3 (p : Connect3) (h : allOk p.checks = true) :
    Connect3.parse p.body = .ok p p.body.length ∧ p.encode = 0x10 :: vbiEnc p.remLen ++ p.body
      ∧ p.size = p.encode.length ∧ p.remLen = p.body.length := Connect3.roundtrip p h

example : allOk (Connect3.checks ⟨27, 0xee, 60, [0x63], [0x74], [1, 2], [0x75], [0x70, 0x77]⟩) = true := by decide

/-! ### v5.0 -/

theorem C02_connack5 (p : Connack5) (h : allOk p.checks = true) :
    Connack5.parse p.body = .ok p p.body.length ∧ p.encode = 0x20 :: vbiEnc p.remLen ++ p.body
      ∧ p.size = p.encode.length ∧ p.remLen = p.body.length := Connack5.roundtrip p h

example : allOk (Connack5.checks ⟨8, 1, 0, 5, [.u16 33 10, .u8 36 1]⟩) = true := by decide

theorem C02_ack5 (k : AckKind) (pw : Nat) (p : Ack5) (hpw : pw = 2 ∨ pw = 4) (h : allOk (p.checks k pw) = true) :
    Ack5.parse k pw (p.body pw) = .ok p (p.body pw).length ∧ p.encode k pw = k.fh :: vbiEnc p.remLen ++ p.body pw
      ∧ p.size = (p.encode k pw).length ∧ p.remLen = (p.body pw).length := Ack5.roundtrip k pw p hpw h

example : allOk (Ack5.checks .puback 2 ⟨9, 1, some 0x10, 5, some [.str 31 [0x6f, 0x6b]]⟩) = true
    ∧ allOk (Ack5.checks .pubcomp 4 ⟨4, 1, none, 0, none⟩) = true := by decide

theorem C02_suback5_unsuback5 (rcOk : Nat → Bool) (fh pw : Nat) (p : Codes5) (hpw : pw = 2 ∨ pw = 4)
    (h : allOk (p.checks rcOk pw) = true) :
    Codes5.parse rcOk pw (p.body pw) = .ok p (p.body pw).length
      ∧ p.encode fh pw = fh :: vbiEnc p.remLen ++ p.body pw
      ∧ p.size = (p.encode fh pw).length ∧ p.remLen = (p.body pw).length := Codes5.roundtrip rcOk fh pw p hpw h

example : allOk (Codes5.checks subackRc5Ok 2 ⟨5, 1, 0, [], [0, 0x87]⟩) = true := by decide

theorem C02_subscribe5 (pw : Nat) (p : Subscribe5) (hpw : pw = 2 ∨ pw = 4) (h : allOk (p.checks pw) = true) :
    Subscribe5.parse pw (p.body pw) = .ok p (p.body pw).length
      ∧ p.encode pw = 0x82 :: vbiEnc p.remLen ++ p.body pw
      ∧ p.size = (p.encode pw).length ∧ p.remLen = (p.body pw).length := Subscribe5.roundtrip pw p hpw h

example : allOk (Subscribe5.checks 2 ⟨10, 1, 3, [.vbi 11 200], [⟨[0x61], 0x2d⟩]⟩) = true := by decide

theorem C02_unsubscribe5 (pw : Nat) (p : Unsubscribe5) (hpw : pw = 2 ∨ pw = 4) (h : allOk (p.checks pw) = true) :
    Unsubscribe5.parse pw (p.body pw) = .ok p (p.body pw).length
      ∧ p.encode pw = 0xa2 :: vbiEnc p.remLen ++ p.body pw
      ∧ p.size = (p.encode pw).length ∧ p.remLen = (p.body pw).length := Unsubscribe5.roundtrip pw p hpw h

example : allOk (Unsubscribe5.checks 2 ⟨6, 1, 0, [], [[0x61]]⟩) = true := by decide

theorem C02_disconnect5 (p : RcProps5) (h : allOk (Disconnect5.checks p) = true) :
    Disconnect5.parse p.body = .ok p p.body.length ∧ p.encode 0xe0 = 0xe0 :: vbiEnc p.remLen ++ p.body
      ∧ p.size = (p.encode 0xe0).length ∧ p.remLen = p.body.length := Disconnect5.roundtrip p h

example : allOk (Disconnect5.checks ⟨7, some 0x8e, some 5, some [.u32 17 0]⟩) = true
    ∧ allOk (Disconnect5.checks ⟨0, none, none, none⟩) = true := by decide

theorem C02_auth5 (p : RcProps5) (h : allOk (Auth5.checks p) = true) :
    Auth5.parse p.body = .ok p p.body.length ∧ p.encode 0xf0 = 0xf0 :: vbiEnc p.remLen ++ p.body
      ∧ p.size = (p.encode 0xf0).length ∧ p.remLen = p.body.length := Auth5.roundtrip p h

example : allOk (Auth5.checks ⟨6, some 0x18, some 4, some [.str 21 [0x6d]]⟩) = true := by decide

theorem C02_publish5 (pw : Nat) (p : Publish5) (hpw : pw = 2 ∨ pw = 4) (h : allOk (p.checks pw) = true) :
    Publish5.parse pw (p.fh % 16) (p.body pw) = .ok p (p.body pw).length
      ∧ p.encode pw = p.fh :: vbiEnc p.remLen ++ p.body pw
      ∧ p.size = (p.encode pw).length ∧ p.remLen = (p.body pw).length := Publish5.roundtrip pw p hpw h

example : allOk (Publish5.checks 4 ⟨0x32, 13, [], some 70000, 3, [.u16 35 7], [9, 9, 9]⟩) = true := by decide

theorem C02_connect5 (p : Connect5) (h : allOk p.checks = true) :
    Connect5.parse p.body = .ok p p.body.length ∧ p.encode = 0x10 :: vbiEnc p.remLen ++ p.body
      ∧ p.size = p.encode.length ∧ p.remLen = p.body.length := Connect5.roundtrip p h

example : allOk (Connect5.checks ⟨29, 0x06, 60, 3, [.u16 33 5], [0x63], 5, [.u32 24 1], [0x74], [1], [], []⟩) = true := by
  decide

/-! ## all 29 kinds at once -/

/-- **C02.** For every packet of the sum type that satisfies its builder's well-formedness
    checks (`Packet.wf`), for 16- and 32-bit packet identifiers: the serialisation is
    `fixed header :: vbi(remaining_length) ++ body`; splitting the frame gives back that header,
    that Remaining Length and that body; the parser selected by (version, header) returns an
    equal packet and consumes exactly the body; `size()` is the serialised length; the Remaining
    Length on the wire is the body length. -/
theorem C02_all (pw : Nat) (p : Packet) (hpw : pw = 2 ∨ pw = 4) (h : p.wf pw = true) :
    ∃ fh body, p.encode pw = fh :: vbiEnc p.remLen ++ body ∧
      frameBody (p.encode pw) = some (fh, p.remLen, body) ∧
      Packet.parse p.version pw fh body = some (.ok p body.length) ∧
      p.size = (p.encode pw).length ∧ p.remLen = body.length :=
  Packet.roundTrips pw p hpw h

example : (4 = 2 ∨ 4 = 4) ∧
    Packet.wf 4 (.publish5 ⟨0x3d, 21, [0x74, 0x2f, 0xe2, 0x82, 0xac], some 65537, 7,
      [.u8 1 1, .u16 35 3, .vbi 11 1], [0xde, 0xad]⟩) = true := by decide

end MqttVerif.Props.C02
