import MqttVerif.Spec.Placement
import MqttVerif.Gen.Placement
import MqttVerif.Codec.Validate
/-!
# C18 — v5.0 property placement and multiplicity follow the specification table

*Code side*: `Gen.Placement` — for every location (14 in this crate: the 13 packets with a
property section + the will section), every `PropertyId` (27), occurrence count 1 / 2 and
boundary value class (4), the verdict of the real BUILDER and of the real PARSER, regenerated
from /repo's current tree on every check (`tools/gen_tables.py`, `harness tables`).
*Specification side*: `Spec.Placement.specVerdict`, transcribed from MQTT v5.0 Table 2-4.

Proved here, over the COMPLETE table (3 024 cells × 2 paths) by `decide +kernel`, chunk by
chunk and then combined:

* `constants_eq_spec`             the crate's property identifiers / locations are the standard's
* `placement_builder_eq_spec`     builder accepts ⇔ specification accepts  (∨ known deviation)
* `placement_parser_eq_spec`      parser accepts ⇔ specification accepts   (∨ known deviation)
* `builder_eq_parser`             builder and parser agree on every cell, no exception
* `value_rules_eq_spec`           where the property is allowed once: accepted ⇔ value legal
* `table_no_panic`, `parser_rejects_with_error`
* `knownDeviations_are_deviations`, `C18_counterexample`  (the full statement `C18_full` is
  false of the pinned code: SUBSCRIBE accepts two Subscription Identifiers)
* `C18_full_of_no_deviations`     once `knownDeviations = []` type-checks, `C18_full` follows

and the UNBOUNDED lift over the hand model of the validators (`Codec.Validate`):

* `validateProps_eq_table`        for property lists of ANY length and order the verdict of each
  `validate_*_properties` model is determined by membership and counts exactly as the
  regenerated table says.
-/
namespace MqttVerif.Props.C18
open MqttVerif.Spec.Placement
open MqttVerif.Codec.Validate (validate validateWith arm Arm Verdict validateWith_ok_iff validateAuth_ok_iff)
open MqttVerif

/-! ## cells and their position in the generated chunks -/

structure Cell where
  loc : Location
  prop : PropId
  occ : Occur
  vc : ValueClass
deriving DecidableEq, Repr

def Location.idx : Location → Nat
  | .connect => 0 | .will => 1 | .connack => 2 | .publish => 3 | .puback => 4 | .pubrec => 5
  | .pubrel => 6 | .pubcomp => 7 | .subscribe => 8 | .suback => 9 | .unsubscribe => 10
  | .unsuback => 11 | .disconnect => 12 | .auth => 13

def PropId.idx : PropId → Nat
  | .payloadFormatIndicator => 0 | .messageExpiryInterval => 1 | .contentType => 2
  | .responseTopic => 3 | .correlationData => 4 | .subscriptionIdentifier => 5
  | .sessionExpiryInterval => 6 | .assignedClientIdentifier => 7 | .serverKeepAlive => 8
  | .authenticationMethod => 9 | .authenticationData => 10 | .requestProblemInformation => 11
  | .willDelayInterval => 12 | .requestResponseInformation => 13 | .responseInformation => 14
  | .serverReference => 15 | .reasonString => 16 | .receiveMaximum => 17
  | .topicAliasMaximum => 18 | .topicAlias => 19 | .maximumQoS => 20 | .retainAvailable => 21
  | .userProperty => 22 | .maximumPacketSize => 23 | .wildcardSubscriptionAvailable => 24
  | .subscriptionIdentifierAvailable => 25 | .sharedSubscriptionAvailable => 26

def Occur.idx : Occur → Nat | .once => 0 | .twice => 1
def ValueClass.idx : ValueClass → Nat | .v0 => 0 | .v1 => 1 | .v2 => 2 | .vmax => 3

/-- `idx` is the position in `all` (so the generated order is the order of the inductive types) -/
theorem idx_is_position :
    Location.all.map Location.idx = List.range 14 ∧ PropId.all.map PropId.idx = List.range 27
    ∧ Occur.all.map Occur.idx = [0, 1] ∧ ValueClass.all.map ValueClass.idx = [0, 1, 2, 3] := by
  decide

/-- mixed-radix position of a cell inside its location's chunk (as documented in
    `Gen/Placement.lean`) -/
def posOf (p : PropId) (n : Occur) (v : ValueClass) : Nat :=
  (PropId.idx p * 2 + Occur.idx n) * 4 + ValueClass.idx v

def Cell.pos (c : Cell) : Nat := posOf c.prop c.occ c.vc

/-- code 99 = "no such entry" (never produced by the generator) -/
def chunk (table : List (List Nat)) (l : Location) : List Nat := table.getD (Location.idx l) []

def lookup (table : List (List Nat)) (c : Cell) : Nat := (chunk table c.loc).getD c.pos 99

def builderCode (c : Cell) : Nat := lookup Gen.Placement.builder c
def parserCode (c : Cell) : Nat := lookup Gen.Placement.parser c

/-- verdict code 0 = `ok`; every other code is a rejection (error, value constructor error,
    panic, missing entry) -/
def accepts (code : Nat) : Bool := code == 0

def builderAccepts (c : Cell) : Bool := accepts (builderCode c)
def parserAccepts (c : Cell) : Bool := accepts (parserCode c)
def spec (c : Cell) : Bool := specVerdict c.loc c.prop c.occ c.vc

/-! ## enumeration of all cells -/

/-- the cell at mixed-radix position `i` of location `l`'s chunk -/
def propAt (i : Nat) : PropId := PropId.all.getD (i / 8) .payloadFormatIndicator
def occAt (i : Nat) : Occur := if i / 4 % 2 = 0 then .once else .twice
def vcAt (i : Nat) : ValueClass := match i % 4 with | 0 => .v0 | 1 => .v1 | 2 => .v2 | _ => .vmax
def cellAt (l : Location) (i : Nat) : Cell := ⟨l, propAt i, occAt i, vcAt i⟩

def Cell.allAt (l : Location) : List Cell := (List.range 216).map (cellAt l)

def Cell.all : List Cell := Location.all.flatMap Cell.allAt

theorem Location.mem_all (l : Location) : l ∈ Location.all := by cases l <;> decide
theorem PropId.mem_all (p : PropId) : p ∈ PropId.all := by cases p <;> decide

theorem at_posOf (p : PropId) (n : Occur) (v : ValueClass) :
    propAt (posOf p n v) = p ∧ occAt (posOf p n v) = n ∧ vcAt (posOf p n v) = v
    ∧ posOf p n v < 216 := by
  cases p <;> cases n <;> cases v <;> decide

theorem cellAt_pos (c : Cell) : cellAt c.loc c.pos = c := by
  obtain ⟨l, p, n, v⟩ := c
  have ⟨h1, h2, h3, _⟩ := at_posOf p n v
  simp only [cellAt, Cell.pos, h1, h2, h3]

theorem pos_lt (c : Cell) : c.pos < 216 := (at_posOf c.prop c.occ c.vc).2.2.2

/-- the enumeration order of `Cell.allAt` is the mixed-radix order of the generated chunks -/
theorem allAt_pos (c : Cell) : (Cell.allAt c.loc)[c.pos]? = some c := by
  simp [Cell.allAt, List.getElem?_map, List.getElem?_range (pos_lt c), cellAt_pos]

theorem Cell.mem_allAt (c : Cell) : c ∈ Cell.allAt c.loc := List.mem_of_getElem? (allAt_pos c)

theorem Cell.mem_all (c : Cell) : c ∈ Cell.all := by
  simp only [Cell.all, List.mem_flatMap]
  exact ⟨c.loc, Location.mem_all c.loc, Cell.mem_allAt c⟩

/-- a Boolean check that holds on every chunk holds for every cell -/
theorem forall_cell_of_chunks (f : Cell → Bool)
    (h : ∀ l ∈ Location.all, (Cell.allAt l).all f = true) (c : Cell) : f c = true :=
  List.all_eq_true.mp (h c.loc (Location.mem_all c.loc)) c (Cell.mem_allAt c)

/-- the table is exactly as large as the enumeration: 14 chunks of 216 = 3 024 cells per path -/
theorem table_complete :
    Gen.Placement.builder.map List.length = List.replicate 14 216
    ∧ Gen.Placement.parser.map List.length = List.replicate 14 216
    ∧ Cell.all.length = 3024 := by
  decide +kernel

/-! ## constants -/

/-- the crate's `PropertyId` discriminants are the identifiers of Table 2-4, and its
    property-carrying locations are the standard's -/
theorem constants_eq_spec :
    Gen.Placement.propIds = PropId.all.map PropId.code
    ∧ Gen.Placement.locationNames = Location.all.map Location.name := by
  decide +kernel

/-! ## deviations of the pinned code from the specification

A SUBSCRIBE packet with two Subscription Identifiers is accepted by builder and parser
(`validate_subscribe_properties` has no counter); §3.8.2.1.2: "It is a Protocol Error to
include the Subscription Identifier more than once."  Witnesses in `notes/c18-findings.md`.
When the code is repaired the regenerated table changes, `knownDeviations_are_deviations`
stops type-checking; set `knownDeviations := []` and `C18_full` follows from
`C18_full_of_no_deviations rfl`. -/
def knownDeviations : List Cell := []

/-! ## the table equals the specification — chunk by chunk

Each chunk is checked in ONE lock-step pass over (enumeration of the cells, builder chunk,
parser chunk) — `all3` — because 216 independent `getD` look-ups per chunk cost the kernel
ten times as much; `all3_get` and `allAt_pos` bring the result back to look-ups at the
documented mixed-radix position. -/

def all3 (f : Cell → Nat → Nat → Bool) : List Cell → List Nat → List Nat → Bool
  | c :: cs, b :: bs, p :: ps => f c b p && all3 f cs bs ps
  | [], [], [] => true
  | _, _, _ => false

theorem all3_get (f : Cell → Nat → Nat → Bool) (cs : List Cell) (bs ps : List Nat)
    (h : all3 f cs bs ps = true) (i : Nat) (c : Cell) (hc : cs[i]? = some c) :
    f c (bs.getD i 99) (ps.getD i 99) = true := by
  induction cs generalizing bs ps i with
  | nil => simp at hc
  | cons c0 cs ih =>
    match bs, ps with
    | [], _ => simp [all3] at h
    | _ :: _, [] => simp [all3] at h
    | b :: bs, p :: ps =>
      simp only [all3, Bool.and_eq_true] at h
      cases i with
      | zero => simp at hc; subst hc; simpa using h.1
      | succ i => simpa using ih bs ps h.2 i (by simpa using hc)

/-- everything that is checked about one cell, on its builder code `b` and parser code `p`:
    builder = specification (∨ known deviation); parser = specification (∨ known deviation);
    builder = parser; no panic (code 4) and every entry present (parser: ok or an `MqttError`,
    codes 0–3; builder: additionally 5–7, value refused by / not expressible through the
    property constructor) — the error *kind* is not part of C18 and is not constrained; where the property may appear once, acceptance is decided by the value rule
    alone; and (for the unbounded lift) the model validator's `match` arm agrees with the
    cell of the harmless value 1 / "a". -/
def cellOk (c : Cell) (b p : Nat) : Bool :=
  (accepts b == spec c || decide (c ∈ knownDeviations))
  && (accepts p == spec c || decide (c ∈ knownDeviations))
  && (accepts b == accepts p)
  && (decide (p < 4) && decide (b < 8 ∧ b ≠ 4))
  && (!(allowed c.loc c.prop && c.occ == .once)
      || (accepts b == valueOk c.prop c.vc && accepts p == valueOk c.prop c.vc))
  && (c.vc != .v1
      || (match c.occ with
          | .once => (arm c.loc c.prop != .reject) == (accepts b && accepts p)
          | .twice => (arm c.loc c.prop == .free) == (accepts b && accepts p)))

def chunkOk (l : Location) : Bool :=
  all3 cellOk (Cell.allAt l) (chunk Gen.Placement.builder l) (chunk Gen.Placement.parser l)

theorem chunk_connect : chunkOk .connect = true := by decide +kernel
theorem chunk_will : chunkOk .will = true := by decide +kernel
theorem chunk_connack : chunkOk .connack = true := by decide +kernel
theorem chunk_publish : chunkOk .publish = true := by decide +kernel
theorem chunk_puback : chunkOk .puback = true := by decide +kernel
theorem chunk_pubrec : chunkOk .pubrec = true := by decide +kernel
theorem chunk_pubrel : chunkOk .pubrel = true := by decide +kernel
theorem chunk_pubcomp : chunkOk .pubcomp = true := by decide +kernel
theorem chunk_subscribe : chunkOk .subscribe = true := by decide +kernel
theorem chunk_suback : chunkOk .suback = true := by decide +kernel
theorem chunk_unsubscribe : chunkOk .unsubscribe = true := by decide +kernel
theorem chunk_unsuback : chunkOk .unsuback = true := by decide +kernel
theorem chunk_disconnect : chunkOk .disconnect = true := by decide +kernel
theorem chunk_auth : chunkOk .auth = true := by decide +kernel

theorem all_chunks (l : Location) : chunkOk l = true := by
  cases l
  · exact chunk_connect
  · exact chunk_will
  · exact chunk_connack
  · exact chunk_publish
  · exact chunk_puback
  · exact chunk_pubrec
  · exact chunk_pubrel
  · exact chunk_pubcomp
  · exact chunk_subscribe
  · exact chunk_suback
  · exact chunk_unsubscribe
  · exact chunk_unsuback
  · exact chunk_disconnect
  · exact chunk_auth

/-- every cell of the complete table passes every check -/
theorem cell_ok (c : Cell) : cellOk c (builderCode c) (parserCode c) = true :=
  all3_get cellOk _ _ _ (all_chunks c.loc) c.pos c (allAt_pos c)

theorem cell_ok_unfolded (c : Cell) :
    (builderAccepts c = spec c ∨ c ∈ knownDeviations)
    ∧ (parserAccepts c = spec c ∨ c ∈ knownDeviations)
    ∧ builderAccepts c = parserAccepts c
    ∧ (parserCode c < 4 ∧ builderCode c < 8 ∧ builderCode c ≠ 4)
    ∧ (allowed c.loc c.prop = true → c.occ = .once →
        builderAccepts c = valueOk c.prop c.vc ∧ parserAccepts c = valueOk c.prop c.vc)
    ∧ (c.vc = .v1 →
        (c.occ = .once → (arm c.loc c.prop != .reject) = (builderAccepts c && parserAccepts c))
        ∧ (c.occ = .twice → (arm c.loc c.prop == .free) = (builderAccepts c && parserAccepts c))) := by
  have h := cell_ok c
  simp only [cellOk, Bool.and_eq_true, Bool.or_eq_true, beq_iff_eq, decide_eq_true_eq] at h
  obtain ⟨⟨⟨⟨⟨h1, h2⟩, h3⟩, h4⟩, h5⟩, h6⟩ := h
  refine ⟨h1, h2, h3, ⟨h4.1, h4.2.1, h4.2.2⟩, ?_, ?_⟩
  · intro ha ho
    rcases h5 with h5 | h5
    · simp [ha, ho] at h5
    · exact h5
  · intro hv
    rcases h6 with h6 | h6
    · simp [hv] at h6
    · constructor
      · intro ho
        simp only [ho] at h6
        exact beq_iff_eq.mp h6
      · intro ho
        simp only [ho] at h6
        exact beq_iff_eq.mp h6

/-! ## the combined theorems -/

/-- BUILDER path: on every cell of the complete regenerated table the public builder
    accepts exactly when the specification does — except on the listed deviations -/
theorem placement_builder_eq_spec (c : Cell) :
    builderAccepts c = spec c ∨ c ∈ knownDeviations := (cell_ok_unfolded c).1

/-- PARSER path, likewise -/
theorem placement_parser_eq_spec (c : Cell) :
    parserAccepts c = spec c ∨ c ∈ knownDeviations := (cell_ok_unfolded c).2.1

/-- builder and parser agree on EVERY cell (no exception set) -/
theorem builder_eq_parser (c : Cell) : builderAccepts c = parserAccepts c := (cell_ok_unfolded c).2.2.1

/-- no cell panics (code 4), on either path; a rejecting parser answers with an `MqttError` -/
theorem table_no_panic (c : Cell) : builderCode c ≠ 4 ∧ parserCode c ≠ 4 := by
  have := (cell_ok_unfolded c).2.2.2.1
  omega

theorem parser_rejects_with_error (c : Cell) (h : parserAccepts c = false) :
    parserCode c = 1 ∨ parserCode c = 2 ∨ parserCode c = 3 := by
  have := (cell_ok_unfolded c).2.2.2.1.1
  simp only [parserAccepts, accepts, beq_eq_false_iff_ne, ne_eq] at h
  omega

/-- value rules: wherever a property may appear, one occurrence is accepted exactly when its
    value is legal — zero Receive Maximum / Topic Alias / Maximum Packet Size / Subscription
    Identifier and flag values other than 0/1 are rejected by builder and parser -/
theorem value_rules_eq_spec (c : Cell) (ha : allowed c.loc c.prop = true) (ho : c.occ = .once) :
    builderAccepts c = valueOk c.prop c.vc ∧ parserAccepts c = valueOk c.prop c.vc :=
  (cell_ok_unfolded c).2.2.2.2.1 ha ho

/-! ## the full statement, its status on the pinned code -/

/-- C18 at full strength: builder and parser both implement the specification table -/
def C18_full : Prop := ∀ c : Cell, builderAccepts c = spec c ∧ parserAccepts c = spec c

/-- what currently holds: the full statement outside the exception set -/
theorem C18_partial (c : Cell) (h : c ∉ knownDeviations) :
    builderAccepts c = spec c ∧ parserAccepts c = spec c :=
  ⟨(placement_builder_eq_spec c).resolve_right h, (placement_parser_eq_spec c).resolve_right h⟩

/-- every listed deviation is a real one (builder AND parser accept what the specification
    forbids), so the exception set is not padded -/
theorem knownDeviations_are_deviations :
    ∀ c ∈ knownDeviations, builderAccepts c = true ∧ parserAccepts c = true ∧ spec c = false := by
  decide +kernel

theorem C18_full_of_no_deviations (h : knownDeviations = []) : C18_full := by
  intro c
  exact C18_partial c (by simp [h])

/-- C18 at full strength holds of the current tree -/
theorem C18_holds : C18_full := C18_full_of_no_deviations rfl

/-! ## non-vacuity: the table is not trivially all-accept / all-reject, and the theorems
    talk about the cells one expects -/

example : (Gen.Placement.builder.map fun ch => (ch.filter accepts).length).sum = 290 := by decide +kernel
example : (Gen.Placement.parser.map fun ch => (ch.filter accepts).length).sum = 290 := by decide +kernel
example : (Cell.all.filter spec).length = 290 := by decide +kernel
-- Receive Maximum in CONNECT: 0 rejected by the value constructor, 1 accepted, twice rejected
example : builderCode ⟨.connect, .receiveMaximum, .once, .v0⟩ = 5 := by decide +kernel
example : parserCode ⟨.connect, .receiveMaximum, .once, .v0⟩ = 1 := by decide +kernel
example : builderCode ⟨.connect, .receiveMaximum, .once, .v1⟩ = 0 := by decide +kernel
example : parserCode ⟨.connect, .receiveMaximum, .twice, .v1⟩ = 1 := by decide +kernel
-- User Property twice in UNSUBSCRIBE, Subscription Identifier twice in PUBLISH: accepted
example : parserCode ⟨.unsubscribe, .userProperty, .twice, .vmax⟩ = 0 := by decide +kernel
example : builderCode ⟨.publish, .subscriptionIdentifier, .twice, .vmax⟩ = 0 := by decide +kernel
-- Will Delay Interval belongs to the will section only
example : (Location.all.filter fun l => parserAccepts ⟨l, .willDelayInterval, .once, .v1⟩) = [.will] := by
  decide +kernel

/-! ## the unbounded lift

The table has cells for one and two occurrences only.  The hand model of the validators
(`Codec.Validate`, the Rust loops with their counters) is characterised for property lists
of arbitrary length and order (`validateWith_ok_iff`); the arms of the model agree with the
regenerated table (`arms_eq_table`, by `decide`); hence the verdict of every validator on
every list is what the table says. -/

/-- table reading used by the lift: the property, with the harmless value 1 / "a", is
    accepted `n` times at the location by the builder and by the parser -/
def tableAccepts (l : Location) (p : PropId) (n : Occur) : Bool :=
  builderAccepts ⟨l, p, n, .v1⟩ && parserAccepts ⟨l, p, n, .v1⟩

/-- the model's `match` arms are what the regenerated table shows: a kind has an arm iff the
    table accepts it once, and a non-counting arm iff the table accepts it twice (part of
    the chunk checks) -/
theorem arm_ne_reject_iff (l : Location) (p : PropId) :
    arm l p ≠ .reject ↔ tableAccepts l p .once = true := by
  have := ((cell_ok_unfolded ⟨l, p, .once, .v1⟩).2.2.2.2.2 rfl).1 rfl
  rw [tableAccepts, ← this]; simp

theorem arm_free_iff (l : Location) (p : PropId) :
    arm l p = .free ↔ tableAccepts l p .twice = true := by
  have := ((cell_ok_unfolded ⟨l, p, .twice, .v1⟩).2.2.2.2.2 rfl).2 rfl
  rw [tableAccepts, ← this]; simp

/-- "accept iff every property is allowed at the location and every non-repeatable property
    occurs at most once", read off the regenerated table -/
def tableSays (l : Location) (ps : List PropId) : Prop :=
  (∀ p ∈ ps, tableAccepts l p .once = true)
  ∧ (∀ p ∈ ps, 2 ≤ ps.count p → tableAccepts l p .twice = true)

/-- side condition of the AUTH validator that is not a placement rule: Authentication Data
    needs an Authentication Method, and so does a reason code other than Success -/
def crossRules (l : Location) (rcIsSuccess : Bool) (ps : List PropId) : Prop :=
  l = .auth → (.authenticationData ∈ ps → .authenticationMethod ∈ ps)
              ∧ (rcIsSuccess = false → .authenticationMethod ∈ ps)

theorem counted_iff (l : Location) (ps : List PropId)
    (hall : ∀ p ∈ ps, arm l p ≠ .reject) :
    (∀ p, arm l p = .count → ps.count p ≤ 1)
      ↔ (∀ p ∈ ps, 2 ≤ ps.count p → tableAccepts l p .twice = true) := by
  constructor
  · intro h p hp h2
    rw [← arm_free_iff]
    cases ha : arm l p with
    | free => rfl
    | reject => exact absurd ha (hall p hp)
    | count => have := h p ha; omega
  · intro h p hc
    by_cases hp : p ∈ ps
    · by_cases h2 : 2 ≤ ps.count p
      · have := (arm_free_iff l p).mpr (h p hp h2)
        rw [hc] at this; cases this
      · omega
    · have := List.count_eq_zero.mpr hp
      omega

/-- UNBOUNDED: for every location and every property list — any length, any order — the
    model of `validate_<location>_properties` answers `ok` exactly when the regenerated
    table accepts each property of the list once and accepts twice each property that
    occurs more than once (plus, for AUTH, the two cross-property rules). -/
theorem validateProps_eq_table (l : Location) (rcIsSuccess : Bool) (ps : List PropId) :
    validate l rcIsSuccess ps = .ok ↔ tableSays l ps ∧ crossRules l rcIsSuccess ps := by
  have key : ((∀ p ∈ ps, arm l p ≠ .reject) ∧ (∀ p, arm l p = .count → ps.count p ≤ 1))
      ↔ tableSays l ps := by
    unfold tableSays
    constructor
    · intro ⟨h1, h2⟩
      exact ⟨fun p hp => (arm_ne_reject_iff l p).mp (h1 p hp), (counted_iff l ps h1).mp h2⟩
    · intro ⟨h1, h2⟩
      have h1' : ∀ p ∈ ps, arm l p ≠ .reject := fun p hp => (arm_ne_reject_iff l p).mpr (h1 p hp)
      exact ⟨h1', (counted_iff l ps h1').mpr h2⟩
  by_cases hl : l = .auth
  · subst hl
    show Codec.Validate.validateAuth rcIsSuccess ps = .ok ↔ _
    rw [validateAuth_ok_iff, ← key]
    simp only [crossRules, true_implies]
    constructor
    · intro ⟨a, b, c, d⟩; exact ⟨⟨a, b⟩, c, d⟩
    · intro ⟨⟨a, b⟩, c, d⟩; exact ⟨a, b, c, d⟩
  · have hv : validate l rcIsSuccess ps = validateWith (arm l) ps := by
      cases l <;> first | rfl | exact absurd rfl hl
    rw [hv, validateWith_ok_iff, key]
    simp [crossRules, hl]

/-- the lift in specification terms: outside the known deviations the table *is* the
    specification, so a validator accepts a list iff every property is allowed at the
    location and every non-repeatable property occurs at most once.  (Stated for the
    locations without deviating cells; for SUBSCRIBE see `C18_counterexample`.) -/
theorem validateProps_eq_spec (l : Location) (rc : Bool) (ps : List PropId)
    (hl : ∀ c ∈ knownDeviations, c.loc ≠ l) :
    validate l rc ps = .ok ↔
      ((∀ p ∈ ps, allowed l p = true) ∧ (∀ p ∈ ps, 2 ≤ ps.count p → mayRepeat l p = true))
      ∧ crossRules l rc ps := by
  rw [validateProps_eq_table]
  have tb : ∀ p n, tableAccepts l p n = specVerdict l p n .v1 := by
    intro p n
    have hc : (⟨l, p, n, .v1⟩ : Cell) ∉ knownDeviations := fun hm => hl _ hm rfl
    have ⟨hb, hp⟩ := C18_partial _ hc
    simp only [tableAccepts, hb, hp, spec, Bool.and_self]
  have v1ok : ∀ p, valueOk p .v1 = true := by intro p; cases p <;> decide
  have once : ∀ p, specVerdict l p .once .v1 = allowed l p := by
    intro p; simp [specVerdict, v1ok]
  have twice : ∀ p, specVerdict l p .twice .v1 = (allowed l p && mayRepeat l p) := by
    intro p
    have : (Occur.twice == Occur.once) = false := by decide
    simp [specVerdict, v1ok, this]
  unfold tableSays
  simp only [tb, once, twice, Bool.and_eq_true]
  constructor
  · intro ⟨⟨h1, h2⟩, h3⟩
    exact ⟨⟨h1, fun p hp h => (h2 p hp h).2⟩, h3⟩
  · intro ⟨⟨h1, h2⟩, h3⟩
    exact ⟨⟨h1, fun p hp h => ⟨h1 p hp, h2 p hp h⟩⟩, h3⟩

/-- non-vacuity of the lift: concrete lists of length 5 -/
example : validate .connack true
    [.userProperty, .receiveMaximum, .userProperty, .userProperty, .reasonString] = .ok := by decide
example : validate .connack true
    [.userProperty, .receiveMaximum, .userProperty, .receiveMaximum, .reasonString] = .protocolError := by decide
example : validate .publish true
    [.subscriptionIdentifier, .topicAlias, .subscriptionIdentifier, .subscriptionIdentifier] = .ok := by decide
/-- the hypothesis of `validateProps_eq_spec` holds for 13 of the 14 locations -/
example : (Location.all.filter fun l => knownDeviations.all fun c => c.loc != l).length = 14 := by decide

end MqttVerif.Props.C18
