import MqttVerif.Alloc.Lemmas
/-!
# C20 — the value allocator behaves as a set of free integers, smallest first

Statement (properties.jsonl): for any range and any sequence of allocate, reserve, release,
clear and query operations the allocator answers exactly like a plain set of free integers;
its run-length representation stays sorted, disjoint and maximally merged; a query about a
value outside the range answers "not used".

Model: `Alloc.step` (impl-shaped, `Alloc/Model.lean`).  Specification: `Alloc.S.step` (a set
of used integers, `Alloc/Spec.lean`).  `tmax` is the integer type's maximum: the theorems
hold for **every** `lowest ≤ highest ≤ tmax` and every operation sequence; no bound.
-/
set_option linter.unusedSimpArgs false
set_option linter.unusedVariables false
namespace MqttVerif.Alloc

/-- simulation relation between the interval representation and the set specification; it
    contains the representation invariant (`Ok`: sorted, disjoint, maximally merged). -/
structure R (a : A) (s : S) : Prop where
  lo : a.lowest = s.lowest
  hi : a.highest = s.highest
  rng : a.lowest ≤ a.highest
  tm : a.highest ≤ a.tmax
  ok : Ok a.lowest a.pool
  free : ∀ v, Free a.pool v ↔ s.free v

theorem R.hi_le {a : A} {s : S} (r : R a s) : ∀ iv ∈ a.pool, iv.hi ≤ a.highest :=
  hi_le_of_free r.ok (fun w hw => by have := (r.free w).1 hw; unfold S.free at this; have := r.hi; omega)

theorem R.new (lowest highest tmax : Nat) (h : lowest ≤ highest) (ht : highest ≤ tmax) :
    R (new lowest highest tmax) (S.new lowest highest) where
  lo := rfl
  hi := rfl
  rng := h
  tm := ht
  ok := ⟨Nat.le_refl _, h, trivial⟩
  free := by intro v; simp [Alloc.new, S.new, S.free, Free]

/-- `allocate` = smallest free value of the set (or none iff the set is empty) -/
theorem smallestFree_eq {a : A} {s : S} (r : R a s) :
    s.smallestFree = (allocateP a.pool).map (·.1) := by
  unfold S.smallestFree
  cases ha : allocateP a.pool with
  | none =>
    cases hf : s.findFree s.lowest (s.highest + 1 - s.lowest) with
    | none => rfl
    | some w =>
      have := findFree_some hf
      exact absurd ((r.free w).2 this.1) (allocateP_none ha w)
  | some vp =>
    obtain ⟨v, p'⟩ := vp
    obtain ⟨f1, f2, _, _, _⟩ := allocateP_some r.ok ha
    have sf := (r.free v).1 f1
    cases hf : s.findFree s.lowest (s.highest + 1 - s.lowest) with
    | none =>
      have := findFree_none hf v sf.1 (by have := sf.2.1; have := r.lo; have := r.hi; have := r.rng; omega)
      exact absurd sf this
    | some w =>
      obtain ⟨g1, g2, g3, g4⟩ := findFree_some hf
      simp only [Option.map_some, Option.some.injEq]
      by_cases hlt : w < v
      · exact absurd ((r.free w).2 g1) (f2 w hlt)
      · by_cases hgt : v < w
        · exact absurd sf (g4 v sf.1 hgt)
        · omega

/-- one-step refinement: same answer, relation (hence representation invariant) preserved -/
theorem step_refines {a : A} {s : S} (r : R a s) (op : Op) :
    (step a op).2 = (s.step op).2 ∧ R (step a op).1 (s.step op).1 := by
  cases op with
  | allocate =>
    have hsf := smallestFree_eq r
    simp only [step, allocate, S.step]
    cases ha : allocateP a.pool with
    | none =>
      simp only [ha, Option.map_none] at hsf
      simp only [hsf]; exact ⟨trivial, r⟩
    | some vp =>
      obtain ⟨v, p'⟩ := vp
      simp only [ha, Option.map_some] at hsf
      simp only [hsf]
      obtain ⟨f1, f2, f3, f4, f5⟩ := allocateP_some r.ok ha
      refine ⟨trivial, ⟨r.lo, r.hi, r.rng, r.tm, f4, ?_⟩⟩
      intro w
      simp only [f3, r.free w, S.free, List.mem_cons]
      grind
  | firstVacant =>
    have hsf := smallestFree_eq r
    simp only [step, S.step, firstVacant, hsf]
    refine ⟨?_, r⟩
    cases h : a.pool with
    | nil => simp [allocateP]
    | cons iv rest => simp [allocateP]
  | deallocate v =>
    have hl := r.lo; have hh := r.hi
    have hs : (s.lowest ≤ v ∧ v ≤ s.highest) ↔ (a.lowest ≤ v ∧ v ≤ a.highest) := by rw [hl, hh]
    simp only [step, deallocate, S.step, hs]
    by_cases hr : a.lowest ≤ v ∧ v ≤ a.highest
    · simp only [hr, and_self, not_true_eq_false, if_false]
      by_cases hu : isUsed a v = true
      · simp only [hu, Bool.not_true, Bool.false_eq_true, if_false]
        have hnf : ¬ Free a.pool v := by
          simp only [isUsed, Bool.and_eq_true, decide_eq_true_eq, Bool.not_eq_true',
            decide_eq_false_iff_not] at hu
          exact hu.2
        obtain ⟨p', hd, hf, hok⟩ := deallocRaw_used (tmax := a.tmax) r.ok hnf hr.1
          (fun iv hm => by have := r.hi_le iv hm; have := r.tm; omega) (by have := r.tm; omega)
        simp only [hd]
        refine ⟨trivial, ⟨r.lo, r.hi, r.rng, r.tm, hok, ?_⟩⟩
        intro w
        simp only [hf, r.free w, S.free, List.mem_filter]
        grind
      · simp only [Bool.not_eq_true] at hu
        simp only [hu, Bool.not_false, if_true]
        have hf : Free a.pool v := by
          simp only [isUsed, hr.1, hr.2, decide_true, Bool.true_and, Bool.not_eq_false',
            decide_eq_true_eq] at hu
          exact hu
        refine ⟨trivial, ⟨r.lo, r.hi, r.rng, r.tm, r.ok, ?_⟩⟩
        intro w
        have hv := (r.free v).1 hf
        simp only [r.free w, S.free, List.mem_filter] at hv ⊢
        grind
    · simp only [hr, not_false_eq_true, if_true]
      exact ⟨trivial, r⟩
  | useValue v =>
    simp only [step, useValue, S.step]
    cases hu : useValueP v a.pool with
    | none =>
      have := useValueP_none hu
      rw [r.free v] at this
      simp only [this, if_false]
      exact ⟨trivial, r⟩
    | some p' =>
      obtain ⟨f1, f2, f3⟩ := useValueP_some r.ok hu
      have sf := (r.free v).1 f1
      simp only [sf, if_true]
      refine ⟨trivial, ⟨r.lo, r.hi, r.rng, r.tm, f3, ?_⟩⟩
      intro w
      simp only [f2, r.free w, S.free, List.mem_cons]
      grind
  | isUsed v =>
    simp only [step, S.step, isUsed]
    refine ⟨?_, r⟩
    have := r.free v
    have := r.lo; have := r.hi
    unfold S.free at *
    congr 1
    rw [Bool.eq_iff_iff]
    simp only [Bool.and_eq_true, decide_eq_true_eq, Bool.not_eq_true', decide_eq_false_iff_not]
    grind
  | clear =>
    simp only [step, S.step, clear]
    refine ⟨trivial, ⟨r.lo, r.hi, r.rng, r.tm, ⟨Nat.le_refl _, r.rng, trivial⟩, ?_⟩⟩
    intro w
    have := r.lo; have := r.hi
    simp [Free, S.free]; omega
  | intervalCount =>
    simp only [step, S.step, intervalCount]
    refine ⟨?_, r⟩
    congr 1
    unfold S.runCount
    have h := (runs_eq s (s.highest + 1 - s.lowest)).1 s.lowest a.pool (r.lo ▸ r.ok)
      (fun iv hm => by have := r.hi_le iv hm; have := r.lo; have := r.hi; have := r.rng; omega)
      (fun w _ => (r.free w).symm)
    exact h.symm

/-- **C20, trace form.**  For every range `lowest ≤ highest ≤ T::MAX` and **every** operation
    sequence, the allocator's answers are those of the set specification — in particular it
    never panics unless the set specification does (release of an out-of-range value, the
    documented contract violation). -/
theorem C20_trace_refines (lowest highest tmax : Nat) (h : lowest ≤ highest) (ht : highest ≤ tmax)
    (ops : List Op) :
    run (new lowest highest tmax) ops = S.run (S.new lowest highest) ops := by
  suffices ∀ a s, R a s → run a ops = S.run s ops from this _ _ (R.new _ _ _ h ht)
  induction ops with
  | nil => intro a s _; rfl
  | cons op ops ih =>
    intro a s r
    obtain ⟨h1, h2⟩ := step_refines r op
    simp only [run, S.run, h1, ih _ _ h2]

/-- state after an operation sequence -/
def exec (a : A) : List Op → A
  | [] => a
  | op :: ops => exec (step a op).1 ops

theorem step_bounds (a : A) (op : Op) :
    (step a op).1.lowest = a.lowest ∧ (step a op).1.highest = a.highest := by
  cases op <;> simp only [step, allocate, useValue, deallocate, clear] <;>
    (repeat' split) <;> simp

theorem exec_bounds (a : A) (ops : List Op) :
    (exec a ops).lowest = a.lowest ∧ (exec a ops).highest = a.highest := by
  induction ops generalizing a with
  | nil => exact ⟨rfl, rfl⟩
  | cons op ops ih =>
    have := ih (step a op).1
    have := step_bounds a op
    simp only [exec]; omega

theorem exec_R {a : A} {s : S} (r : R a s) (ops : List Op) : ∃ s', R (exec a ops) s' := by
  induction ops generalizing a s with
  | nil => exact ⟨s, r⟩
  | cons op ops ih => exact ih (step_refines r op).2

/-- **C20, representation invariant.**  After every operation sequence the pool is sorted,
    disjoint, maximally merged, and inside `[lowest, highest]`. -/
theorem C20_representation_invariant (lowest highest tmax : Nat) (h : lowest ≤ highest)
    (ht : highest ≤ tmax) (ops : List Op) :
    Ok lowest (exec (new lowest highest tmax) ops).pool ∧
      ∀ iv ∈ (exec (new lowest highest tmax) ops).pool, iv.hi ≤ highest := by
  obtain ⟨s', r⟩ := exec_R (R.new lowest highest tmax h ht) ops
  have hb := exec_bounds (new lowest highest tmax) ops
  have e1 : (new lowest highest tmax).lowest = lowest := rfl
  have e2 : (new lowest highest tmax).highest = highest := rfl
  refine ⟨?_, ?_⟩
  · have := r.ok; rw [hb.1, e1] at this; exact this
  · intro iv hm; have := r.hi_le iv hm; omega

/-- **C20, out-of-range query** (finding #6 on the pinned tree): "not used". -/
theorem C20_isUsed_out_of_range (a : A) (v : Nat) (h : v < a.lowest ∨ a.highest < v) :
    isUsed a v = false := by
  simp only [isUsed, Bool.and_eq_false_imp, Bool.and_eq_true, decide_eq_true_eq]
  intro h'; omega

/-- **C20, no panic for in-range releases** (finding #21 on the pinned tree was a panic for
    `deallocate(T::MAX)` of a free value). -/
theorem C20_release_total {a : A} {s : S} (r : R a s) (v : Nat) (hv : a.lowest ≤ v ∧ v ≤ a.highest) :
    (deallocate a v).1 = none := by
  have := (step_refines r (.deallocate v)).1
  simp only [step, S.step, ← r.lo, ← r.hi, hv, and_self, not_true_eq_false, if_false] at this
  cases h : deallocate a v with
  | mk o a' =>
    cases o with
    | none => rfl
    | some x => simp [h] at this

/-- **C20, the monitor `answer_vs_pool` is the specification**: whenever a pool represents a
    set of free integers (`R`, which a validated interval list over the known range does), the
    answer the driver reads off that pool (`poolAnswer`) is the answer of the set specification.
    So a disagreement between the implementation's answer and `poolAnswer` of its own pool is a
    disagreement with the set of free integers the property speaks of — on ranges of any size. -/
theorem C20_pool_answer_is_spec {a : A} {s : S} (r : R a s) (op : Op) (x : Ans)
    (h : poolAnswer a op = some x) : (s.step op).2 = x := by
  cases op with
  | useValue v =>
    simp only [poolAnswer, Option.some.injEq] at h
    subst h
    by_cases hf : s.free v
    · simp [S.step, hf, (r.free v).2 hf]
    · have : ¬ Free a.pool v := fun hh => hf ((r.free v).1 hh)
      simp [S.step, hf, this]
  | isUsed v =>
    simp only [poolAnswer, Option.some.injEq] at h
    subst h
    simp only [S.step, ← r.lo, ← r.hi]
    by_cases hf : s.free v
    · have hp := (r.free v).2 hf
      simp [hf, hp]
    · have hp : ¬ Free a.pool v := fun hh => hf ((r.free v).1 hh)
      by_cases hr : a.lowest ≤ v ∧ v ≤ a.highest
      · simp [hf, hp, hr]
      · simp [hf, hp, hr]
  | allocate =>
    simp only [poolAnswer, Option.some.injEq] at h
    subst h
    have e := smallestFree_eq r
    have e2 : (allocateP a.pool).map (·.1) = a.pool.head?.map (·.lo) := by
      cases a.pool with
      | nil => rfl
      | cons iv rest => rfl
    rw [e2] at e
    simp only [S.step]
    cases hs : s.smallestFree with
    | none => rw [hs] at e; simp [← e]
    | some w => rw [hs] at e; simp [← e]
  | firstVacant => simp [poolAnswer] at h
  | deallocate v => simp [poolAnswer] at h
  | clear => simp [poolAnswer] at h
  | intervalCount => simp [poolAnswer] at h

/-- non-vacuity of `C20_pool_answer_is_spec`: on a reachable state the pool-denoted answers are
    the non-trivial ones (4 is used, 3 is free, 0 is out of range hence "not used", 1 is next) -/
example : poolAnswer ⟨1, 9, 255, [⟨1, 1⟩, ⟨3, 3⟩, ⟨6, 9⟩]⟩ (.useValue 4) = some (.bool false)
    ∧ poolAnswer ⟨1, 9, 255, [⟨1, 1⟩, ⟨3, 3⟩, ⟨6, 9⟩]⟩ (.useValue 3) = some (.bool true)
    ∧ poolAnswer ⟨1, 9, 255, [⟨1, 1⟩, ⟨3, 3⟩, ⟨6, 9⟩]⟩ (.useValue 0) = some (.bool false)
    ∧ poolAnswer ⟨1, 9, 255, [⟨1, 1⟩, ⟨3, 3⟩, ⟨6, 9⟩]⟩ (.isUsed 0) = some (.bool false)
    ∧ poolAnswer ⟨1, 9, 255, [⟨1, 1⟩, ⟨3, 3⟩, ⟨6, 9⟩]⟩ (.isUsed 4) = some (.bool true)
    ∧ poolAnswer ⟨1, 9, 255, [⟨1, 1⟩, ⟨3, 3⟩, ⟨6, 9⟩]⟩ .allocate = some (.optVal (some 1)) := by
  decide

/-- **C20, the monitor `pool_after` is the specification**: in every state that represents a set
    (`R`), after the call the touched value is where the operation puts it - a released in-range
    value is free, a value whose reservation succeeded or that was handed out is not free, and
    `clear` leaves the one interval `[lowest, highest]`. -/
theorem C20_pool_after {a : A} {s : S} (r : R a s) :
    (∀ v, a.lowest ≤ v ∧ v ≤ a.highest → Free (step a (.deallocate v)).1.pool v) ∧
    (∀ v, (step a (.useValue v)).2 = .bool true → ¬ Free (step a (.useValue v)).1.pool v) ∧
    (∀ v, (step a .allocate).2 = .optVal (some v) → ¬ Free (step a .allocate).1.pool v) ∧
    (step a .clear).1.pool = [⟨a.lowest, a.highest⟩] := by
  refine ⟨?_, ?_, ?_, rfl⟩
  · intro v hv
    have h := step_refines r (.deallocate v)
    apply (h.2.free v).2
    have hlo := r.lo; have hhi := r.hi
    have hin : s.lowest ≤ v ∧ v ≤ s.highest := by omega
    have e : (s.step (.deallocate v)).1 = { s with used := s.used.filter (· ≠ v) } := by
      simp only [S.step, hin, and_self, not_true_eq_false, if_false]
    rw [e]
    unfold S.free
    exact ⟨hin.1, hin.2, by simp⟩
  · intro v hv
    have h := step_refines r (.useValue v)
    rw [h.1] at hv
    intro hfree
    have hs := (h.2.free v).1 hfree
    by_cases hfv : s.free v
    · have e : (s.step (.useValue v)).1 = { s with used := v :: s.used } := by
        simp only [S.step, if_pos hfv]
      rw [e] at hs
      unfold S.free at hs
      exact hs.2.2 (by simp)
    · have e : (s.step (.useValue v)).2 = .bool false := by
        simp only [S.step, if_neg hfv]
      rw [e] at hv
      simp at hv
  · intro v hv
    have h := step_refines r .allocate
    rw [h.1] at hv
    intro hfree
    have hs := (h.2.free v).1 hfree
    cases hsm : s.smallestFree with
    | none =>
      have e : (s.step .allocate).2 = .optVal none := by simp only [S.step, hsm]
      rw [e] at hv
      simp at hv
    | some w =>
      have e2 : (s.step .allocate).2 = .optVal (some w) := by simp only [S.step, hsm]
      have e1 : (s.step .allocate).1 = { s with used := w :: s.used } := by simp only [S.step, hsm]
      rw [e2] at hv
      have hw : w = v := by simpa using hv
      subst hw
      rw [e1] at hs
      unfold S.free at hs
      exact hs.2.2 (by simp)

/-! ## the pinned tree's behaviour, kept as machine-checked witnesses of the two findings

`deallocRaw` is the body of `deallocate` as it was before the `fix:` commit (no early
return).  Releasing the *free* value `T::MAX` overflows in the guard `value + 1 == r.low`. -/
theorem pinned_dealloc_free_tmax_panics :
    deallocRaw 65535 65535 [⟨1, 65535⟩] = .panic "value_allocator.rs:deallocate:value+1(arm3)" := by
  decide

/-! ## non-vacuity: a concrete reachable state satisfying the relation -/
example : R (exec (new 1 9 255) [.allocate, .allocate, .useValue 5, .deallocate 1])
    ⟨1, 9, [5, 2]⟩ := by
  have e : exec (new 1 9 255) [.allocate, .allocate, .useValue 5, .deallocate 1]
      = ⟨1, 9, 255, [⟨1, 1⟩, ⟨3, 4⟩, ⟨6, 9⟩]⟩ := by decide
  rw [e]
  refine ⟨rfl, rfl, by decide, by decide, by decide, ?_⟩
  intro v
  simp only [free_cons, free_nil, S.free, List.mem_cons, List.not_mem_nil, or_false]
  omega

end MqttVerif.Alloc
