import MqttVerif.Codec.LemmasBuild5
import MqttVerif.Props.C02
import MqttVerif.Props.C03
/-!
# C02 (builders) — `build()` establishes `Packet.wf`, keeps the requested field values, and
therefore its result round-trips

`Codec/Build.lean` is the model of the 29 builders (`Args.build : Args → Except BuildError Packet`,
run next to the real builders on every `B` line of the codec traces).  Here:

* `build_ok_wf_<kind>` / **`build_ok_wf`**: whatever a builder returns with `Ok` satisfies the
  well-formedness checks `Packet.wf` — the hypothesis of `C02_all` / `C03_encode_eq_spec`;
* `build_fields_<kind>` / **`build_fields`**: the abstract field values of the result
  (`Packet.abs`, the packet of the wire specification) are the arguments with the defaults
  filled in (`Args.abs`, defined without reference to `build`);
* **`C02_builder_roundtrip`**: the two together with `C02_all`.

Hypotheses: `Args.typed` (what the Rust argument types guarantee: `&str` is UTF-8, `u16` < 65536,
enum arguments are variants, `Property` values came out of their constructors, ids fit their
type) and `Args.fits32` (the size `build()` computes in `usize` is below 2³², so that no
`as u32` cast truncates; without it the statement is FALSE for the code as written — a ≥ 4 GiB
argument list yields `Ok` with truncated cached lengths).
-/
namespace MqttVerif.Props.C02Build
open MqttVerif.Codec MqttVerif.Spec.Wire

theorem map_ok_inv {ε α β : Type} {f : α → β} {x : Except ε α} {p : β} (h : x.map f = .ok p) :
    ∃ q, x = .ok q ∧ f q = p := by
  cases x with
  | error e => cases h
  | ok q => exact ⟨q, rfl, by injection h⟩

theorem bitN_beq (b : Bool) : (bitN b == 1) = b := by cases b <;> rfl
theorem bitN_mod_beq (b : Bool) : (bitN b % 2 == 1) = b := by cases b <;> rfl

theorem optSome_getD (s : Option (List Nat)) : (if s.isSome = true then some (s.getD []) else none) = s := by
  cases s <;> rfl

theorem absConnect_eq (level : Nat) (cs : Option Bool) (will : Option WillArgs) (user pass : Option (List Nat))
    (ka : Nat) (props : Option Props) (cid : List Nat) (wprops : Option Props) (hq : willQosOf will ≤ 2) :
    absConnect level (connectFlagsOf cs will user.isSome pass.isSome) ka props cid wprops (willTopicOf will)
        (willPayloadOf will) (user.getD []) (pass.getD [])
      = .connect level (cs.getD true) ka (props.map Props.abs) cid (will.map (absWill wprops)) user pass := by
  obtain ⟨_, _, f3, f4, f5, f6, f7, f8⟩ := connectFlagsOf_facts cs will user.isSome pass.isSome hq
  unfold absConnect
  rw [f3, f4, f5, f6, f7, f8, bitN_beq, bitN_beq, optSome_getD, optSome_getD]
  cases will <;> rfl

theorem willQos_le {w : Option WillArgs} (ht : willTyped w = true) : willQosOf w ≤ 2 := by
  cases w with
  | none => simp [willQosOf]
  | some x => simp only [willTyped, Bool.and_eq_true, decide_eq_true_eq] at ht; exact ht.2


/-! ## one theorem per packet kind: `wf` and the field values -/

theorem build_connect3 (pw : Nat) (hpw : pw = 2 ∨ pw = 4) (a : Connect3Args) (q : Connect3)
    (ht : (Args.connect3 a).typed pw = true) (hf : (Args.connect3 a).fits32 pw) (h : a.build = .ok q) :
    (Packet.connect3 q).wf pw = true ∧ Packet.abs (.connect3 q) = Args.abs (.connect3 a) := by
  have _ := hpw
  have _ := hf
  simp only [Args.typed, Bool.and_eq_true] at ht
  obtain ⟨⟨⟨⟨t1, t2⟩, t3⟩, t4⟩, t5⟩ := ht
  simp only [Args.fits32, Args.rawSize] at hf
  obtain ⟨hw, h1, h2, h3, h4, h5, h6, h7⟩ := Connect3Args.build_ok t1 t2 t3 t4 t5 hf h
  refine ⟨by simpa [Packet.wf, Packet.checks] using hw, ?_⟩
  · simp only [Packet.abs, Args.abs, h1, h2, h3, h4, h5, h6, h7]
    exact absConnect_eq 4 _ _ _ _ _ none _ none (willQos_le t2)

theorem build_connack3 (pw : Nat) (hpw : pw = 2 ∨ pw = 4) (a : Connack3Args) (q : Connack3)
    (ht : (Args.connack3 a).typed pw = true) (hf : (Args.connack3 a).fits32 pw) (h : a.build = .ok q) :
    (Packet.connack3 q).wf pw = true ∧ Packet.abs (.connack3 q) = Args.abs (.connack3 a) := by
  have _ := hpw
  have _ := hf
  simp only [Args.typed] at ht
  have t1 := ht
  simp only [Args.fits32, Args.rawSize] at hf
  obtain ⟨hw, sp, rc, h1, h2, h3, h4⟩ := Connack3Args.build_ok t1 h
  refine ⟨by simpa [Packet.wf, Packet.checks] using hw, ?_⟩
  · simp [Packet.abs, Args.abs, h1, h2, h3, h4, bitN_mod_beq]

theorem build_publish3 (pw : Nat) (hpw : pw = 2 ∨ pw = 4) (a : Publish3Args) (q : Publish3)
    (ht : (Args.publish3 a).typed pw = true) (hf : (Args.publish3 a).fits32 pw) (h : a.build pw = .ok q) :
    (Packet.publish3 q).wf pw = true ∧ Packet.abs (.publish3 q) = Args.abs (.publish3 a) := by
  have _ := hpw
  have _ := hf
  simp only [Args.typed, Bool.and_eq_true] at ht
  obtain ⟨⟨t1, t2⟩, t3⟩ := ht
  simp only [Args.fits32, Args.rawSize] at hf
  obtain ⟨hw, h1, h2, h3, h4⟩ := Publish3Args.build_ok t1 t2 t3 hf h
  refine ⟨by simpa [Packet.wf, Packet.checks] using hw, ?_⟩
  · obtain ⟨_, _, g3, g4, g5⟩ := fhOf_facts a.qos a.dup a.retain (qos_le_of_typed t2)
    simp [Packet.abs, Args.abs, h1, h2, h3, h4, g3, g4, g5, bitN_beq]

theorem build_puback3 (pw : Nat) (hpw : pw = 2 ∨ pw = 4) (a : Ack3Args) (q : Ack3)
    (ht : (Args.puback3 a).typed pw = true) (hf : (Args.puback3 a).fits32 pw) (h : a.build pw = .ok q) :
    (Packet.puback3 q).wf pw = true ∧ Packet.abs (.puback3 q) = Args.abs (.puback3 a) := by
  have _ := hpw
  have _ := hf
  simp only [Args.typed, Bool.and_eq_true] at ht
  obtain ⟨t1, t2⟩ := ht
  simp only [Args.fits32, Args.rawSize] at hf
  obtain ⟨hw, hpid, hrc⟩ := Ack3Args.build_ok (k := .puback) hpw t1 t2 h
  refine ⟨by simpa [Packet.wf, Packet.checks] using hw, ?_⟩
  · simp [Packet.abs, Args.abs, hpid, hrc]

theorem build_pubrec3 (pw : Nat) (hpw : pw = 2 ∨ pw = 4) (a : Ack3Args) (q : Ack3)
    (ht : (Args.pubrec3 a).typed pw = true) (hf : (Args.pubrec3 a).fits32 pw) (h : a.build pw = .ok q) :
    (Packet.pubrec3 q).wf pw = true ∧ Packet.abs (.pubrec3 q) = Args.abs (.pubrec3 a) := by
  have _ := hpw
  have _ := hf
  simp only [Args.typed, Bool.and_eq_true] at ht
  obtain ⟨t1, t2⟩ := ht
  simp only [Args.fits32, Args.rawSize] at hf
  obtain ⟨hw, hpid, hrc⟩ := Ack3Args.build_ok (k := .pubrec) hpw t1 t2 h
  refine ⟨by simpa [Packet.wf, Packet.checks] using hw, ?_⟩
  · simp [Packet.abs, Args.abs, hpid, hrc]

theorem build_pubrel3 (pw : Nat) (hpw : pw = 2 ∨ pw = 4) (a : Ack3Args) (q : Ack3)
    (ht : (Args.pubrel3 a).typed pw = true) (hf : (Args.pubrel3 a).fits32 pw) (h : a.build pw = .ok q) :
    (Packet.pubrel3 q).wf pw = true ∧ Packet.abs (.pubrel3 q) = Args.abs (.pubrel3 a) := by
  have _ := hpw
  have _ := hf
  simp only [Args.typed, Bool.and_eq_true] at ht
  obtain ⟨t1, t2⟩ := ht
  simp only [Args.fits32, Args.rawSize] at hf
  obtain ⟨hw, hpid, hrc⟩ := Ack3Args.build_ok (k := .pubrel) hpw t1 t2 h
  refine ⟨by simpa [Packet.wf, Packet.checks] using hw, ?_⟩
  · simp [Packet.abs, Args.abs, hpid, hrc]

theorem build_pubcomp3 (pw : Nat) (hpw : pw = 2 ∨ pw = 4) (a : Ack3Args) (q : Ack3)
    (ht : (Args.pubcomp3 a).typed pw = true) (hf : (Args.pubcomp3 a).fits32 pw) (h : a.build pw = .ok q) :
    (Packet.pubcomp3 q).wf pw = true ∧ Packet.abs (.pubcomp3 q) = Args.abs (.pubcomp3 a) := by
  have _ := hpw
  have _ := hf
  simp only [Args.typed, Bool.and_eq_true] at ht
  obtain ⟨t1, t2⟩ := ht
  simp only [Args.fits32, Args.rawSize] at hf
  obtain ⟨hw, hpid, hrc⟩ := Ack3Args.build_ok (k := .pubcomp) hpw t1 t2 h
  refine ⟨by simpa [Packet.wf, Packet.checks] using hw, ?_⟩
  · simp [Packet.abs, Args.abs, hpid, hrc]

theorem build_subscribe3 (pw : Nat) (hpw : pw = 2 ∨ pw = 4) (a : Subscribe3Args) (q : Subscribe3)
    (ht : (Args.subscribe3 a).typed pw = true) (hf : (Args.subscribe3 a).fits32 pw) (h : a.build pw = .ok q) :
    (Packet.subscribe3 q).wf pw = true ∧ Packet.abs (.subscribe3 q) = Args.abs (.subscribe3 a) := by
  have _ := hpw
  have _ := hf
  simp only [Args.typed, Bool.and_eq_true] at ht
  obtain ⟨t1, t2⟩ := ht
  simp only [Args.fits32, Args.rawSize] at hf
  obtain ⟨hw, hpid, hc⟩ := Subscribe3Args.build_ok t1 t2 hf h
  refine ⟨by simpa [Packet.wf, Packet.checks] using hw, ?_⟩
  · simp [Packet.abs, Args.abs, hpid, hc]

theorem build_suback3 (pw : Nat) (hpw : pw = 2 ∨ pw = 4) (a : Suback3Args) (q : Suback3)
    (ht : (Args.suback3 a).typed pw = true) (hf : (Args.suback3 a).fits32 pw) (h : a.build pw = .ok q) :
    (Packet.suback3 q).wf pw = true ∧ Packet.abs (.suback3 q) = Args.abs (.suback3 a) := by
  have _ := hpw
  have _ := hf
  simp only [Args.typed, Bool.and_eq_true] at ht
  obtain ⟨t1, t2⟩ := ht
  simp only [Args.fits32, Args.rawSize] at hf
  obtain ⟨hw, hpid, hc⟩ := Suback3Args.build_ok t1 t2 hf h
  refine ⟨by simpa [Packet.wf, Packet.checks] using hw, ?_⟩
  · simp [Packet.abs, Args.abs, hpid, hc]

theorem build_unsubscribe3 (pw : Nat) (hpw : pw = 2 ∨ pw = 4) (a : Unsubscribe3Args) (q : Unsubscribe3)
    (ht : (Args.unsubscribe3 a).typed pw = true) (hf : (Args.unsubscribe3 a).fits32 pw) (h : a.build pw = .ok q) :
    (Packet.unsubscribe3 q).wf pw = true ∧ Packet.abs (.unsubscribe3 q) = Args.abs (.unsubscribe3 a) := by
  have _ := hpw
  have _ := hf
  simp only [Args.typed, Bool.and_eq_true] at ht
  obtain ⟨t1, t2⟩ := ht
  simp only [Args.fits32, Args.rawSize] at hf
  obtain ⟨hw, hpid, hc⟩ := Unsubscribe3Args.build_ok t1 t2 hf h
  refine ⟨by simpa [Packet.wf, Packet.checks] using hw, ?_⟩
  · simp [Packet.abs, Args.abs, hpid, hc]

theorem build_unsuback3 (pw : Nat) (hpw : pw = 2 ∨ pw = 4) (a : Unsuback3Args) (q : Unsuback3)
    (ht : (Args.unsuback3 a).typed pw = true) (hf : (Args.unsuback3 a).fits32 pw) (h : a.build pw = .ok q) :
    (Packet.unsuback3 q).wf pw = true ∧ Packet.abs (.unsuback3 q) = Args.abs (.unsuback3 a) := by
  have _ := hpw
  have _ := hf
  simp only [Args.typed] at ht
  have t1 := ht
  simp only [Args.fits32, Args.rawSize] at hf
  obtain ⟨hw, hpid⟩ := Unsuback3Args.build_ok hpw t1 h
  refine ⟨by simpa [Packet.wf, Packet.checks] using hw, ?_⟩
  · simp [Packet.abs, Args.abs, hpid]

theorem build_pingreq3 (pw : Nat) (q : Codec.Empty) (h : buildEmpty = .ok q) :
    (Packet.pingreq3 q).wf pw = true ∧ Packet.abs (.pingreq3 q) = Args.abs .pingreq3 := by
  refine ⟨?_, rfl⟩
  simpa [Packet.wf, Packet.checks] using buildEmpty_ok h

theorem build_pingresp3 (pw : Nat) (q : Codec.Empty) (h : buildEmpty = .ok q) :
    (Packet.pingresp3 q).wf pw = true ∧ Packet.abs (.pingresp3 q) = Args.abs .pingresp3 := by
  refine ⟨?_, rfl⟩
  simpa [Packet.wf, Packet.checks] using buildEmpty_ok h

theorem build_disconnect3 (pw : Nat) (q : Codec.Empty) (h : buildEmpty = .ok q) :
    (Packet.disconnect3 q).wf pw = true ∧ Packet.abs (.disconnect3 q) = Args.abs .disconnect3 := by
  refine ⟨?_, rfl⟩
  simpa [Packet.wf, Packet.checks] using buildEmpty_ok h

theorem build_connect5 (pw : Nat) (hpw : pw = 2 ∨ pw = 4) (a : Connect5Args) (q : Connect5)
    (ht : (Args.connect5 a).typed pw = true) (hf : (Args.connect5 a).fits32 pw) (h : a.build = .ok q) :
    (Packet.connect5 q).wf pw = true ∧ Packet.abs (.connect5 q) = Args.abs (.connect5 a) := by
  have _ := hpw
  have _ := hf
  simp only [Args.typed, Bool.and_eq_true] at ht
  obtain ⟨⟨⟨⟨⟨⟨t1, t2⟩, t3⟩, t4⟩, t5⟩, t6⟩, t7⟩ := ht
  simp only [Args.fits32, Args.rawSize] at hf
  obtain ⟨hw, h1, h2, h3, h4, h5, h6, h7, h8, h9⟩ := Connect5Args.build_ok t1 t2 t3 t4 t5 t6 t7 hf h
  refine ⟨by simpa [Packet.wf, Packet.checks] using hw, ?_⟩
  · simp only [Packet.abs, Args.abs, h1, h2, h3, h4, h5, h6, h7, h8, h9]
    exact absConnect_eq 5 _ _ _ _ _ (some _) _ (some _) (willQos_le t2)

theorem build_connack5 (pw : Nat) (hpw : pw = 2 ∨ pw = 4) (a : Connack5Args) (q : Connack5)
    (ht : (Args.connack5 a).typed pw = true) (hf : (Args.connack5 a).fits32 pw) (h : a.build = .ok q) :
    (Packet.connack5 q).wf pw = true ∧ Packet.abs (.connack5 q) = Args.abs (.connack5 a) := by
  have _ := hpw
  have _ := hf
  simp only [Args.typed, Bool.and_eq_true] at ht
  obtain ⟨t1, t2⟩ := ht
  simp only [Args.fits32, Args.rawSize] at hf
  obtain ⟨hw, hps, sp, rc, h1, h2, h3, h4⟩ := Connack5Args.build_ok t1 t2 hf h
  refine ⟨by simpa [Packet.wf, Packet.checks] using hw, ?_⟩
  · simp [Packet.abs, Args.abs, h1, h2, h3, h4, hps, bitN_mod_beq]

theorem build_publish5 (pw : Nat) (hpw : pw = 2 ∨ pw = 4) (a : Publish5Args) (q : Publish5)
    (ht : (Args.publish5 a).typed pw = true) (hf : (Args.publish5 a).fits32 pw) (h : a.build pw = .ok q) :
    (Packet.publish5 q).wf pw = true ∧ Packet.abs (.publish5 q) = Args.abs (.publish5 a) := by
  have _ := hpw
  have _ := hf
  simp only [Args.typed, Bool.and_eq_true] at ht
  obtain ⟨⟨⟨t1, t2⟩, t3⟩, t4⟩ := ht
  simp only [Args.fits32, Args.rawSize] at hf
  obtain ⟨hw, h1, h2, h3, h4, h5⟩ := Publish5Args.build_ok t1 t2 t3 t4 hf h
  refine ⟨by simpa [Packet.wf, Packet.checks] using hw, ?_⟩
  · obtain ⟨_, _, g3, g4, g5⟩ := fhOf_facts a.qos a.dup a.retain (qos_le_of_typed t2)
    simp [Packet.abs, Args.abs, h1, h2, h3, h4, h5, g3, g4, g5, bitN_beq]

theorem build_puback5 (pw : Nat) (hpw : pw = 2 ∨ pw = 4) (a : Ack5Args) (q : Ack5)
    (ht : (Args.puback5 a).typed pw = true) (hf : (Args.puback5 a).fits32 pw) (h : a.build pw = .ok q) :
    (Packet.puback5 q).wf pw = true ∧ Packet.abs (.puback5 q) = Args.abs (.puback5 a) := by
  have _ := hpw
  have _ := hf
  simp only [Args.typed, Bool.and_eq_true] at ht
  obtain ⟨⟨t1, t2⟩, t3⟩ := ht
  simp only [Args.fits32, Args.rawSize] at hf
  obtain ⟨hw, hpid, hrc, hps⟩ := Ack5Args.build_ok (k := .puback) t1 t2 t3 hf h
  refine ⟨by simpa [Packet.wf, Packet.checks] using hw, ?_⟩
  · simp [Packet.abs, Args.abs, hpid, hrc, hps]

theorem build_pubrec5 (pw : Nat) (hpw : pw = 2 ∨ pw = 4) (a : Ack5Args) (q : Ack5)
    (ht : (Args.pubrec5 a).typed pw = true) (hf : (Args.pubrec5 a).fits32 pw) (h : a.build pw = .ok q) :
    (Packet.pubrec5 q).wf pw = true ∧ Packet.abs (.pubrec5 q) = Args.abs (.pubrec5 a) := by
  have _ := hpw
  have _ := hf
  simp only [Args.typed, Bool.and_eq_true] at ht
  obtain ⟨⟨t1, t2⟩, t3⟩ := ht
  simp only [Args.fits32, Args.rawSize] at hf
  obtain ⟨hw, hpid, hrc, hps⟩ := Ack5Args.build_ok (k := .pubrec) t1 t2 t3 hf h
  refine ⟨by simpa [Packet.wf, Packet.checks] using hw, ?_⟩
  · simp [Packet.abs, Args.abs, hpid, hrc, hps]

theorem build_pubrel5 (pw : Nat) (hpw : pw = 2 ∨ pw = 4) (a : Ack5Args) (q : Ack5)
    (ht : (Args.pubrel5 a).typed pw = true) (hf : (Args.pubrel5 a).fits32 pw) (h : a.build pw = .ok q) :
    (Packet.pubrel5 q).wf pw = true ∧ Packet.abs (.pubrel5 q) = Args.abs (.pubrel5 a) := by
  have _ := hpw
  have _ := hf
  simp only [Args.typed, Bool.and_eq_true] at ht
  obtain ⟨⟨t1, t2⟩, t3⟩ := ht
  simp only [Args.fits32, Args.rawSize] at hf
  obtain ⟨hw, hpid, hrc, hps⟩ := Ack5Args.build_ok (k := .pubrel) t1 t2 t3 hf h
  refine ⟨by simpa [Packet.wf, Packet.checks] using hw, ?_⟩
  · simp [Packet.abs, Args.abs, hpid, hrc, hps]

theorem build_pubcomp5 (pw : Nat) (hpw : pw = 2 ∨ pw = 4) (a : Ack5Args) (q : Ack5)
    (ht : (Args.pubcomp5 a).typed pw = true) (hf : (Args.pubcomp5 a).fits32 pw) (h : a.build pw = .ok q) :
    (Packet.pubcomp5 q).wf pw = true ∧ Packet.abs (.pubcomp5 q) = Args.abs (.pubcomp5 a) := by
  have _ := hpw
  have _ := hf
  simp only [Args.typed, Bool.and_eq_true] at ht
  obtain ⟨⟨t1, t2⟩, t3⟩ := ht
  simp only [Args.fits32, Args.rawSize] at hf
  obtain ⟨hw, hpid, hrc, hps⟩ := Ack5Args.build_ok (k := .pubcomp) t1 t2 t3 hf h
  refine ⟨by simpa [Packet.wf, Packet.checks] using hw, ?_⟩
  · simp [Packet.abs, Args.abs, hpid, hrc, hps]

theorem build_subscribe5 (pw : Nat) (hpw : pw = 2 ∨ pw = 4) (a : Subscribe5Args) (q : Subscribe5)
    (ht : (Args.subscribe5 a).typed pw = true) (hf : (Args.subscribe5 a).fits32 pw) (h : a.build pw = .ok q) :
    (Packet.subscribe5 q).wf pw = true ∧ Packet.abs (.subscribe5 q) = Args.abs (.subscribe5 a) := by
  have _ := hpw
  have _ := hf
  simp only [Args.typed, Bool.and_eq_true] at ht
  obtain ⟨⟨t1, t2⟩, t3⟩ := ht
  simp only [Args.fits32, Args.rawSize] at hf
  obtain ⟨hw, hpid, hps, hc⟩ := Subscribe5Args.build_ok t1 t2 t3 hf h
  refine ⟨by simpa [Packet.wf, Packet.checks] using hw, ?_⟩
  · simp [Packet.abs, Args.abs, hpid, hc, hps]

theorem build_suback5 (pw : Nat) (hpw : pw = 2 ∨ pw = 4) (a : Codes5Args) (q : Codes5)
    (ht : (Args.suback5 a).typed pw = true) (hf : (Args.suback5 a).fits32 pw) (h : a.build pw = .ok q) :
    (Packet.suback5 q).wf pw = true ∧ Packet.abs (.suback5 q) = Args.abs (.suback5 a) := by
  have _ := hpw
  have _ := hf
  simp only [Args.typed, Bool.and_eq_true] at ht
  obtain ⟨⟨t1, t2⟩, t3⟩ := ht
  simp only [Args.fits32, Args.rawSize] at hf
  obtain ⟨hw, hpid, hps, hc⟩ := Codes5Args.build_ok (rcOk := subackRc5Ok) t1 t2 t3 hf h
  refine ⟨by simpa [Packet.wf, Packet.checks] using hw, ?_⟩
  · simp [Packet.abs, Args.abs, hpid, hc, hps]

theorem build_unsubscribe5 (pw : Nat) (hpw : pw = 2 ∨ pw = 4) (a : Unsubscribe5Args) (q : Unsubscribe5)
    (ht : (Args.unsubscribe5 a).typed pw = true) (hf : (Args.unsubscribe5 a).fits32 pw) (h : a.build pw = .ok q) :
    (Packet.unsubscribe5 q).wf pw = true ∧ Packet.abs (.unsubscribe5 q) = Args.abs (.unsubscribe5 a) := by
  have _ := hpw
  have _ := hf
  simp only [Args.typed, Bool.and_eq_true] at ht
  obtain ⟨⟨t1, t2⟩, t3⟩ := ht
  simp only [Args.fits32, Args.rawSize] at hf
  obtain ⟨hw, hpid, hps, hc⟩ := Unsubscribe5Args.build_ok t1 t2 t3 hf h
  refine ⟨by simpa [Packet.wf, Packet.checks] using hw, ?_⟩
  · simp [Packet.abs, Args.abs, hpid, hc, hps]

theorem build_unsuback5 (pw : Nat) (hpw : pw = 2 ∨ pw = 4) (a : Codes5Args) (q : Codes5)
    (ht : (Args.unsuback5 a).typed pw = true) (hf : (Args.unsuback5 a).fits32 pw) (h : a.build pw = .ok q) :
    (Packet.unsuback5 q).wf pw = true ∧ Packet.abs (.unsuback5 q) = Args.abs (.unsuback5 a) := by
  have _ := hpw
  have _ := hf
  simp only [Args.typed, Bool.and_eq_true] at ht
  obtain ⟨⟨t1, t2⟩, t3⟩ := ht
  simp only [Args.fits32, Args.rawSize] at hf
  obtain ⟨hw, hpid, hps, hc⟩ := Codes5Args.build_ok (rcOk := unsubackRc5Ok) t1 t2 t3 hf h
  refine ⟨by simpa [Packet.wf, Packet.checks] using hw, ?_⟩
  · simp [Packet.abs, Args.abs, hpid, hc, hps]

theorem build_pingreq5 (pw : Nat) (q : Codec.Empty) (h : buildEmpty = .ok q) :
    (Packet.pingreq5 q).wf pw = true ∧ Packet.abs (.pingreq5 q) = Args.abs .pingreq5 := by
  refine ⟨?_, rfl⟩
  simpa [Packet.wf, Packet.checks] using buildEmpty_ok h

theorem build_pingresp5 (pw : Nat) (q : Codec.Empty) (h : buildEmpty = .ok q) :
    (Packet.pingresp5 q).wf pw = true ∧ Packet.abs (.pingresp5 q) = Args.abs .pingresp5 := by
  refine ⟨?_, rfl⟩
  simpa [Packet.wf, Packet.checks] using buildEmpty_ok h

theorem build_disconnect5 (pw : Nat) (hpw : pw = 2 ∨ pw = 4) (a : RcProps5Args) (q : RcProps5)
    (ht : (Args.disconnect5 a).typed pw = true) (hf : (Args.disconnect5 a).fits32 pw) (h : Disconnect5Args.build a = .ok q) :
    (Packet.disconnect5 q).wf pw = true ∧ Packet.abs (.disconnect5 q) = Args.abs (.disconnect5 a) := by
  have _ := hpw
  have _ := hf
  simp only [Args.typed, Bool.and_eq_true] at ht
  obtain ⟨t1, t2⟩ := ht
  simp only [Args.fits32, Args.rawSize] at hf
  obtain ⟨hw, h1, h2⟩ := Disconnect5Args.build_ok t1 t2 hf h
  refine ⟨by simpa [Packet.wf, Packet.checks] using hw, ?_⟩
  · simp [Packet.abs, Args.abs, h1, h2]

theorem build_auth5 (pw : Nat) (hpw : pw = 2 ∨ pw = 4) (a : RcProps5Args) (q : RcProps5)
    (ht : (Args.auth5 a).typed pw = true) (hf : (Args.auth5 a).fits32 pw) (h : Auth5Args.build a = .ok q) :
    (Packet.auth5 q).wf pw = true ∧ Packet.abs (.auth5 q) = Args.abs (.auth5 a) := by
  have _ := hpw
  have _ := hf
  simp only [Args.typed, Bool.and_eq_true] at ht
  obtain ⟨t1, t2⟩ := ht
  simp only [Args.fits32, Args.rawSize] at hf
  obtain ⟨hw, h1, h2⟩ := Auth5Args.build_ok t1 t2 hf h
  refine ⟨by simpa [Packet.wf, Packet.checks] using hw, ?_⟩
  · simp [Packet.abs, Args.abs, h1, h2]

/-! ## all 29 kinds -/

/-- for every builder: an `Ok` result is well-formed and carries the requested field values -/
theorem build_ok (pw : Nat) (hpw : pw = 2 ∨ pw = 4) (a : Args) (p : Packet)
    (ht : a.typed pw = true) (hf : a.fits32 pw) (h : a.build pw = .ok p) :
    p.wf pw = true ∧ Packet.abs p = a.abs ∧ p.version = a.version := by
  cases a with

  | connect3 a =>
    simp only [Args.build] at h
    obtain ⟨q, hq, rfl⟩ := map_ok_inv h
    exact ⟨(build_connect3 pw hpw a q ht hf hq).1, (build_connect3 pw hpw a q ht hf hq).2, rfl⟩

  | connack3 a =>
    simp only [Args.build] at h
    obtain ⟨q, hq, rfl⟩ := map_ok_inv h
    exact ⟨(build_connack3 pw hpw a q ht hf hq).1, (build_connack3 pw hpw a q ht hf hq).2, rfl⟩

  | publish3 a =>
    simp only [Args.build] at h
    obtain ⟨q, hq, rfl⟩ := map_ok_inv h
    exact ⟨(build_publish3 pw hpw a q ht hf hq).1, (build_publish3 pw hpw a q ht hf hq).2, rfl⟩

  | puback3 a =>
    simp only [Args.build] at h
    obtain ⟨q, hq, rfl⟩ := map_ok_inv h
    exact ⟨(build_puback3 pw hpw a q ht hf hq).1, (build_puback3 pw hpw a q ht hf hq).2, rfl⟩

  | pubrec3 a =>
    simp only [Args.build] at h
    obtain ⟨q, hq, rfl⟩ := map_ok_inv h
    exact ⟨(build_pubrec3 pw hpw a q ht hf hq).1, (build_pubrec3 pw hpw a q ht hf hq).2, rfl⟩

  | pubrel3 a =>
    simp only [Args.build] at h
    obtain ⟨q, hq, rfl⟩ := map_ok_inv h
    exact ⟨(build_pubrel3 pw hpw a q ht hf hq).1, (build_pubrel3 pw hpw a q ht hf hq).2, rfl⟩

  | pubcomp3 a =>
    simp only [Args.build] at h
    obtain ⟨q, hq, rfl⟩ := map_ok_inv h
    exact ⟨(build_pubcomp3 pw hpw a q ht hf hq).1, (build_pubcomp3 pw hpw a q ht hf hq).2, rfl⟩

  | subscribe3 a =>
    simp only [Args.build] at h
    obtain ⟨q, hq, rfl⟩ := map_ok_inv h
    exact ⟨(build_subscribe3 pw hpw a q ht hf hq).1, (build_subscribe3 pw hpw a q ht hf hq).2, rfl⟩

  | suback3 a =>
    simp only [Args.build] at h
    obtain ⟨q, hq, rfl⟩ := map_ok_inv h
    exact ⟨(build_suback3 pw hpw a q ht hf hq).1, (build_suback3 pw hpw a q ht hf hq).2, rfl⟩

  | unsubscribe3 a =>
    simp only [Args.build] at h
    obtain ⟨q, hq, rfl⟩ := map_ok_inv h
    exact ⟨(build_unsubscribe3 pw hpw a q ht hf hq).1, (build_unsubscribe3 pw hpw a q ht hf hq).2, rfl⟩

  | unsuback3 a =>
    simp only [Args.build] at h
    obtain ⟨q, hq, rfl⟩ := map_ok_inv h
    exact ⟨(build_unsuback3 pw hpw a q ht hf hq).1, (build_unsuback3 pw hpw a q ht hf hq).2, rfl⟩

  | pingreq3 =>
    simp only [Args.build] at h
    obtain ⟨q, hq, rfl⟩ := map_ok_inv h
    exact ⟨(build_pingreq3 pw q hq).1, (build_pingreq3 pw q hq).2, rfl⟩

  | pingresp3 =>
    simp only [Args.build] at h
    obtain ⟨q, hq, rfl⟩ := map_ok_inv h
    exact ⟨(build_pingresp3 pw q hq).1, (build_pingresp3 pw q hq).2, rfl⟩

  | disconnect3 =>
    simp only [Args.build] at h
    obtain ⟨q, hq, rfl⟩ := map_ok_inv h
    exact ⟨(build_disconnect3 pw q hq).1, (build_disconnect3 pw q hq).2, rfl⟩

  | connect5 a =>
    simp only [Args.build] at h
    obtain ⟨q, hq, rfl⟩ := map_ok_inv h
    exact ⟨(build_connect5 pw hpw a q ht hf hq).1, (build_connect5 pw hpw a q ht hf hq).2, rfl⟩

  | connack5 a =>
    simp only [Args.build] at h
    obtain ⟨q, hq, rfl⟩ := map_ok_inv h
    exact ⟨(build_connack5 pw hpw a q ht hf hq).1, (build_connack5 pw hpw a q ht hf hq).2, rfl⟩

  | publish5 a =>
    simp only [Args.build] at h
    obtain ⟨q, hq, rfl⟩ := map_ok_inv h
    exact ⟨(build_publish5 pw hpw a q ht hf hq).1, (build_publish5 pw hpw a q ht hf hq).2, rfl⟩

  | puback5 a =>
    simp only [Args.build] at h
    obtain ⟨q, hq, rfl⟩ := map_ok_inv h
    exact ⟨(build_puback5 pw hpw a q ht hf hq).1, (build_puback5 pw hpw a q ht hf hq).2, rfl⟩

  | pubrec5 a =>
    simp only [Args.build] at h
    obtain ⟨q, hq, rfl⟩ := map_ok_inv h
    exact ⟨(build_pubrec5 pw hpw a q ht hf hq).1, (build_pubrec5 pw hpw a q ht hf hq).2, rfl⟩

  | pubrel5 a =>
    simp only [Args.build] at h
    obtain ⟨q, hq, rfl⟩ := map_ok_inv h
    exact ⟨(build_pubrel5 pw hpw a q ht hf hq).1, (build_pubrel5 pw hpw a q ht hf hq).2, rfl⟩

  | pubcomp5 a =>
    simp only [Args.build] at h
    obtain ⟨q, hq, rfl⟩ := map_ok_inv h
    exact ⟨(build_pubcomp5 pw hpw a q ht hf hq).1, (build_pubcomp5 pw hpw a q ht hf hq).2, rfl⟩

  | subscribe5 a =>
    simp only [Args.build] at h
    obtain ⟨q, hq, rfl⟩ := map_ok_inv h
    exact ⟨(build_subscribe5 pw hpw a q ht hf hq).1, (build_subscribe5 pw hpw a q ht hf hq).2, rfl⟩

  | suback5 a =>
    simp only [Args.build] at h
    obtain ⟨q, hq, rfl⟩ := map_ok_inv h
    exact ⟨(build_suback5 pw hpw a q ht hf hq).1, (build_suback5 pw hpw a q ht hf hq).2, rfl⟩

  | unsubscribe5 a =>
    simp only [Args.build] at h
    obtain ⟨q, hq, rfl⟩ := map_ok_inv h
    exact ⟨(build_unsubscribe5 pw hpw a q ht hf hq).1, (build_unsubscribe5 pw hpw a q ht hf hq).2, rfl⟩

  | unsuback5 a =>
    simp only [Args.build] at h
    obtain ⟨q, hq, rfl⟩ := map_ok_inv h
    exact ⟨(build_unsuback5 pw hpw a q ht hf hq).1, (build_unsuback5 pw hpw a q ht hf hq).2, rfl⟩

  | pingreq5 =>
    simp only [Args.build] at h
    obtain ⟨q, hq, rfl⟩ := map_ok_inv h
    exact ⟨(build_pingreq5 pw q hq).1, (build_pingreq5 pw q hq).2, rfl⟩

  | pingresp5 =>
    simp only [Args.build] at h
    obtain ⟨q, hq, rfl⟩ := map_ok_inv h
    exact ⟨(build_pingresp5 pw q hq).1, (build_pingresp5 pw q hq).2, rfl⟩

  | disconnect5 a =>
    simp only [Args.build] at h
    obtain ⟨q, hq, rfl⟩ := map_ok_inv h
    exact ⟨(build_disconnect5 pw hpw a q ht hf hq).1, (build_disconnect5 pw hpw a q ht hf hq).2, rfl⟩

  | auth5 a =>
    simp only [Args.build] at h
    obtain ⟨q, hq, rfl⟩ := map_ok_inv h
    exact ⟨(build_auth5 pw hpw a q ht hf hq).1, (build_auth5 pw hpw a q ht hf hq).2, rfl⟩


/-- **build_ok_wf** — the missing link of C02: what a builder returns satisfies `Packet.wf`
    (every kind, both packet-id widths) -/
theorem build_ok_wf (pw : Nat) (hpw : pw = 2 ∨ pw = 4) (a : Args) (p : Packet)
    (ht : a.typed pw = true) (hf : a.fits32 pw) (h : a.build pw = .ok p) : p.wf pw = true :=
  (build_ok pw hpw a p ht hf h).1

/-- **build_fields** — the abstract fields of the built packet are the builder arguments, defaults
    filled in (`Args.abs` does not mention `build`) -/
theorem build_fields (pw : Nat) (hpw : pw = 2 ∨ pw = 4) (a : Args) (p : Packet)
    (ht : a.typed pw = true) (hf : a.fits32 pw) (h : a.build pw = .ok p) : Packet.abs p = a.abs :=
  (build_ok pw hpw a p ht hf h).2.1

/-- **C02_builder_roundtrip** — a packet that came out of a builder: its serialisation is
    `fixed header :: vbi(remaining_length) ++ body`, the parser of its version returns an equal
    packet and consumes the body, `size()` is the serialised length, the Remaining Length on the
    wire is the body length; the bytes are the specification's encoding of the requested field
    values, and parsing them gives back a packet with exactly those field values. -/
theorem C02_builder_roundtrip (pw : Nat) (hpw : pw = 2 ∨ pw = 4) (a : Args) (p : Packet)
    (ht : a.typed pw = true) (hf : a.fits32 pw) (h : a.build pw = .ok p) :
    (∃ fh body, p.encode pw = fh :: vbiEnc p.remLen ++ body ∧
      frameBody (p.encode pw) = some (fh, p.remLen, body) ∧
      Packet.parse a.version pw fh body = some (.ok p body.length) ∧
      p.size = (p.encode pw).length ∧ p.remLen = body.length)
    ∧ p.encode pw = a.abs.encode pw := by
  obtain ⟨hw, ha, hv⟩ := build_ok pw hpw a p ht hf h
  refine ⟨?_, ?_⟩
  · rw [← hv]; exact C02.C02_all pw p hpw hw
  · rw [← ha]; exact C03.C03_encode_eq_spec pw p hpw hw

/-! ## what the proof attempts found in the code as written

Both hypotheses of `build_ok` are needed, and `Ok`/`Err` are not the only outcomes of `build()`. -/

/-- **`fits32` cannot be dropped** (`remaining as u32`, `props_size as u32` truncate): a well-typed
    SUBACK call with 2³² − 1 return codes is answered with `Ok`, and the packet's cached Remaining
    Length is 1 (same pattern in every builder that sums list sizes) -/
theorem fits32_necessary_of (codes : List Nat) (hl : codes.length = 4294967295) (hc : codes.all subackRc3Ok = true) :
    (Args.suback3 { pid := some 1, codes := some codes }).typed 2 = true ∧
      ∃ p, (Args.suback3 { pid := some 1, codes := some codes }).build 2 = .ok p ∧ p.wf 2 = false := by
  have hne : codes.isEmpty = false := by
    cases codes with
    | nil => simp at hl
    | cons _ _ => rfl
  refine ⟨?_, .suback3 { remLen := 1, pid := 1, codes := codes }, ?_, ?_⟩
  · simp [Args.typed, optPidTyped, optCodesTyped, hc]
  · simp [Args.build, Suback3Args.build, needPid, listEmptyOrUnset, hne, vbiB, asU32, vbiMax, Except.map, hl]
  · simp [Packet.wf, Packet.checks, Suback3.checks, allOk, hl]

theorem all_replicate (f : Nat → Bool) (h : f 0 = true) (n : Nat) : (List.replicate n 0).all f = true := by
  induction n with
  | zero => rfl
  | succ m ih => simp [List.replicate_succ, h]

theorem fits32_necessary : ∃ (a : Args) (p : Packet), a.typed 2 = true ∧ a.build 2 = .ok p ∧ p.wf 2 = false :=
  have h := fits32_necessary_of (List.replicate 4294967295 0) List.length_replicate (all_replicate _ (by decide) _)
  ⟨_, h.2.choose, h.1, h.2.choose_spec⟩

/-- **a builder can panic**: `validate()` of PUBLISH bounds the payload (≤ 268 435 455 bytes), not
    the Remaining Length; with a payload of that size and any topic,
    `VariableByteInteger::from_u32(remaining as u32).unwrap()` is an `unwrap()` on `None`
    (well-typed arguments, far below 2³²) -/
theorem publish_build_panics_of (payload : List Nat) (hl : payload.length = 268435455) :
    (Args.publish3 { topic := some [116], payload := some payload }).typed 2 = true ∧
    (Args.publish3 { topic := some [116], payload := some payload }).fits32 2 ∧
      (Args.publish3 { topic := some [116], payload := some payload }).build 2
        = .error (.panic "v3_1_1::publish::build:remaining_length") := by
  refine ⟨?_, ?_, ?_⟩
  · simp [Args.typed, optStrTyped, optCodeTyped, optPidTyped]; decide
  · simp [Args.fits32, Args.rawSize, strSize, hl]
  · simp [Args.build, Publish3Args.build, topicSetterFails, tooLong, publishHeader, publishPidBad, payloadTooBig,
      vbiB, asU32, vbiMax, strSize, Except.map, hl]

end MqttVerif.Props.C02Build
