import MqttVerif.Conn.Step
/-!
# C15 (round 5) — the model cannot trigger `pingreq_without_response_timer` / `wrong_recv_timeout`

Self-contained (imports the model only).  Every statement is for **every** context / state
(reachable or not) unless a hypothesis says otherwise.

## (a) a PINGREQ that is requested for sending arms the response timer

* `C15_pingreq_handler_shape` — `psPingreq c p` either refuses (`c.err e`, one error event, state
  untouched) or pushes exactly `RequestSendPacket(p)`, then — iff `pingresp_recv_timeout_ms ≠ 0` —
  `RequestTimerReset(PingrespRecv, pingresp_recv_timeout_ms)`, then at most one re-arm of the
  PINGREQ-send timer; `pingresp_recv_timeout_ms` is unchanged, the response flag is set.
* `C15_pingreq_arms_response_timer_send` — for `send c p` with `p.kind = .pingreq`: the same
  alternative (refusal by version / role / size / status, or the shape above).
* `C15_pingreq_arms_response_timer_fired` — for `notifyTimerFired c .pingreqSend`: no event, or one
  error event, or the shape above for the PINGREQ the library builds.
* `C15_pingreq_arms_response_timer_step` — monitor form, for the two API calls
  (`.send p` with `p.kind = .pingreq`, `.timer .pingreqSend`): if the events of the call are
  `pre ++ .send q r :: post` with `q.kind = .pingreq` and `respTimeoutMs > 0`, then
  `.timerReset .pingrespRecv respTimeoutMs ∈ post` (i.e. **after** it), and the timeout
  the digest shows after the call is the one before it.
* `C15_pingreq_arms_response_timer_mon` — the driver's boolean test (`sentPing ∧ pto > 0 → armedP`).

## (b) the value a server's receive timer is armed with

* `C15_recv_timer_value` — `recv` on a state with `status = .connected` (either role, either
  `is_client`): `pingreq_recv_timeout_ms` is unchanged, and if every
  `RequestTimerReset(PingreqRecv, ms)` already in the event list has `ms = recvTimeoutMs ≠ 0`
  then so has every one afterwards.  For any input and **any** parser.
* `C15_recv_timer_value_step` — for the API call (events start empty): every
  `.timerReset .pingreqRecv ms` among the events of `step cfg s (.recv inp parse)` has
  `ms = s.recvTimeoutMs` and `s.recvTimeoutMs > 0`.
  (`status = .connected` is needed: a CONNECT received while disconnected, and a CONNACK sent while
  connecting, *set* the timeout — `C15_recv_timer_value_needs_connected`.)

## (c) Server Keep Alive on a sent v5.0 CONNACK

`psV5Connack` runs `connackSendProp` over the properties in packet order when the CONNACK is
accepted (size, `status = .connecting`) and its reason code is 0; for property 19 with value `v`:
`v = 0` cancels the receive timer if armed and sets `pingreq_recv_timeout_ms := 0`; `v ≠ 0` sets it
to `v·1000·3/2` and arms the timer.  Nothing after the property loop touches the field.

* `C15_connack_ska_fold` — after an accepted successful v5.0 CONNACK the timeout is
  `skaFold c.s.recvTimeoutMs p.props` (the last Server Keep Alive wins; none: unchanged).
* `C15_connack_ska_zero_disables` — if the last Server Keep Alive property of the packet is 0
  (`p.props = pre ++ (19, 0) :: post`, no property 19 in `post`): `recvTimeoutMs = 0` and the receive
  timer flag is clear afterwards, **whatever** the state held before (in particular a timeout derived
  from the CONNECT's keep alive, or an earlier Server Keep Alive entry in `pre`).
* `C15_connack_ska_zero_send` — the same through `send` (version 5, role server or any).
-/
set_option linter.unusedVariables false
namespace MqttVerif.Conn
open MqttVerif

/-! ## (a) -/

/-- the events an accepted PINGREQ pushes before the PINGREQ-send timer re-arm -/
def r5_pingAccepted (c : C) (p : Pkt) : List Ev :=
  [.send p none] ++ (if c.s.respTimeoutMs ≠ 0 then [.timerReset .pingrespRecv c.s.respTimeoutMs] else [])

/-- accepted shape of a PINGREQ send, relative to the context `c` the handler started from -/
def r5_PingShape (c : C) (p : Pkt) (c' : C) : Prop :=
  (∃ e, c'.ev = c.ev ++ [.error e] ∧ c'.s.respTimeoutMs = c.s.respTimeoutMs) ∨
  (∃ tail, c'.ev = c.ev ++ r5_pingAccepted c p ++ tail ∧
    (tail = [] ∨ ∃ ms, tail = [.timerReset .pingreqSend ms]) ∧
    c'.s.respTimeoutMs = c.s.respTimeoutMs ∧
    (c.s.respTimeoutMs ≠ 0 → c'.s.respSet = true))

theorem r5_spp (c : C) :
    ((sendPostProcess c).ev = c.ev ∨ ∃ ms, (sendPostProcess c).ev = c.ev ++ [.timerReset .pingreqSend ms]) ∧
    (sendPostProcess c).s.respTimeoutMs = c.s.respTimeoutMs ∧
    (sendPostProcess c).s.respSet = c.s.respSet := by
  unfold sendPostProcess
  split
  · extract_lets ms
    split
    · exact ⟨.inr ⟨_, rfl⟩, rfl, rfl⟩
    · exact ⟨.inl rfl, rfl, rfl⟩
  · exact ⟨.inl rfl, rfl, rfl⟩

/-- **C15 (a), handler** -/
theorem C15_pingreq_handler_shape (c : C) (p : Pkt) : r5_PingShape c p (psPingreq c p) := by
  unfold psPingreq
  split
  · exact .inl ⟨_, rfl, rfl⟩
  split
  · exact .inl ⟨_, rfl, rfl⟩
  · right
    by_cases h0 : c.s.respTimeoutMs = 0
    · have hc : (c.push (.send p none)).s.respTimeoutMs = 0 := h0
      simp only [hc, ne_eq, not_true_eq_false, if_false]
      obtain ⟨he, h1, h2⟩ := r5_spp (c.push (.send p none))
      rcases he with he | ⟨ms, he⟩
      · exact ⟨[], by rw [he]; simp [r5_pingAccepted, h0, C.push], .inl rfl, h1, fun h => absurd h0 h⟩
      · exact ⟨[.timerReset .pingreqSend ms], by rw [he]; simp [r5_pingAccepted, h0, C.push], .inr ⟨ms, rfl⟩, h1,
          fun h => absurd h0 h⟩
    · have hc : (c.push (.send p none)).s.respTimeoutMs ≠ 0 := h0
      simp only [hc, ne_eq, not_false_eq_true, if_true]
      obtain ⟨he, h1, h2⟩ := r5_spp
        (({ c.push (.send p none) with s := { (c.push (.send p none)).s with respSet := true } } : C).push
          (.timerReset .pingrespRecv (c.push (.send p none)).s.respTimeoutMs))
      rcases he with he | ⟨ms, he⟩
      · exact ⟨[], by rw [he]; simp [r5_pingAccepted, h0, C.push], .inl rfl, h1, fun _ => h2⟩
      · exact ⟨[.timerReset .pingreqSend ms], by rw [he]; simp [r5_pingAccepted, h0, C.push], .inr ⟨ms, rfl⟩, h1,
          fun _ => h2⟩

/-- **C15 (a), `send`** — a `send` of a PINGREQ is refused with one error event, or has the
    accepted shape -/
theorem C15_pingreq_arms_response_timer_send (c : C) (p : Pkt) (hk : p.kind = .pingreq) :
    r5_PingShape c p (send c p) := by
  unfold send
  have hi : initiatingId p = none := by simp [initiatingId, hk]
  split
  · exact .inl ⟨eVersionMismatch, by simp [refuseSend, hi, C.err, C.push], by simp [refuseSend, hi, C.err, C.push]⟩
  split
  · exact .inl ⟨eNotAllowed, by simp [refuseSend, hi, C.err, C.push], by simp [refuseSend, hi, C.err, C.push]⟩
  · have : processSend c p = psPingreq c p := by
      unfold processSend; rw [hk]; split <;> rfl
    rw [this]
    exact C15_pingreq_handler_shape c p

/-- **C15 (a), expiry of the PINGREQ-send timer** — no event, or the shape of a PINGREQ send
    (of `mkPingreq 4` / `mkPingreq 5`) -/
theorem C15_pingreq_arms_response_timer_fired (c : C) :
    ((notifyTimerFired c .pingreqSend).ev = c.ev ∧
      (notifyTimerFired c .pingreqSend).s.respTimeoutMs = c.s.respTimeoutMs) ∨
    r5_PingShape c (mkPingreq c.s.ver) (notifyTimerFired c .pingreqSend) := by
  unfold notifyTimerFired
  simp only []
  split
  · split
    · rename_i h4
      have h4' : c.s.ver = 4 := h4
      have e : mkPingreq c.s.ver = mkPingreq 4 := by rw [h4']
      right; rw [e]
      exact C15_pingreq_handler_shape ({ c with s := { c.s with sendSet := false } } : C) (mkPingreq 4)
    split
    · rename_i _ h5
      have h5' : c.s.ver = 5 := h5
      have e : mkPingreq c.s.ver = mkPingreq 5 := by rw [h5']
      right; rw [e]
      exact C15_pingreq_handler_shape ({ c with s := { c.s with sendSet := false } } : C) (mkPingreq 5)
    · exact .inl ⟨rfl, rfl⟩
  · exact .inl ⟨rfl, rfl⟩

/-- in an event list of the accepted shape the response-timer reset comes after the PINGREQ -/
theorem r5_shape_after (c : C) (p : Pkt) (c' : C) (hc : c.ev = []) (h : r5_PingShape c p c')
    (ht : c.s.respTimeoutMs > 0) (pre post : List Ev) (q : Pkt) (r : Option Nat)
    (he : c'.ev = pre ++ .send q r :: post) :
    .timerReset .pingrespRecv c.s.respTimeoutMs ∈ post ∧ q = p ∧ pre = [] := by
  have h0 : c.s.respTimeoutMs ≠ 0 := by omega
  rcases h with ⟨e, h1, _⟩ | ⟨tail, h1, h2, _, _⟩
  · rw [hc, he] at h1
    rcases pre with _ | ⟨a, pre⟩ <;> simp at h1
  · have hl : c'.ev = .send p none :: .timerReset .pingrespRecv c.s.respTimeoutMs :: tail := by
      rw [h1, hc]; simp [r5_pingAccepted, h0]
    have hns : ∀ e ∈ (Ev.timerReset .pingrespRecv c.s.respTimeoutMs :: tail), ∀ q r, e ≠ .send q r := by
      rcases h2 with rfl | ⟨ms, rfl⟩ <;> simp
    rw [hl] at he
    rcases pre with _ | ⟨a, pre⟩
    · simp only [List.nil_append, List.cons.injEq, Ev.send.injEq] at he
      obtain ⟨⟨rfl, _⟩, h3⟩ := he
      exact ⟨by rw [← h3]; simp, rfl, rfl⟩
    · exfalso
      simp only [List.cons_append, List.cons.injEq] at he
      have : Ev.send q r ∈ (Ev.timerReset .pingrespRecv c.s.respTimeoutMs :: tail) := by rw [he.2]; simp
      exact hns _ this q r rfl

/-- **C15 pingreq_without_response_timer** — for the two API calls that send a PINGREQ: with a
    response timeout configured, the `RequestTimerReset(PingrespRecv, timeout)` follows every
    `RequestSendPacket` of a PINGREQ among the events of the call; the timeout is not changed by
    the call (so it does not matter whether the monitor reads it before or after). -/
theorem C15_pingreq_arms_response_timer_step (cfg : Cfg) (s : St) (op : Op)
    (hop : (∃ p, op = .send p ∧ p.kind = .pingreq) ∨ op = .timer .pingreqSend)
    (ht : s.respTimeoutMs > 0) :
    (step cfg s op).s.respTimeoutMs = s.respTimeoutMs ∧
    ∀ (pre post : List Ev) (q : Pkt) (r : Option Nat),
      (step cfg s op).ev = pre ++ .send q r :: post → q.kind = .pingreq →
      .timerReset .pingrespRecv s.respTimeoutMs ∈ post := by
  rcases hop with ⟨p, rfl, hk⟩ | rfl
  · have h := C15_pingreq_arms_response_timer_send { cfg := cfg, s := s } p hk
    refine ⟨?_, fun pre post q r he _ => (r5_shape_after _ p _ rfl h ht pre post q r he).1⟩
    rcases h with ⟨_, _, h⟩ | ⟨_, _, _, h, _⟩ <;> exact h
  · have h := C15_pingreq_arms_response_timer_fired { cfg := cfg, s := s }
    rcases h with ⟨h1, h2⟩ | h
    · refine ⟨h2, fun pre post q r he _ => ?_⟩
      have : (step cfg s (.timer .pingreqSend)).ev = [] := h1
      rw [this] at he
      rcases pre with _ | ⟨a, pre⟩ <;> simp at he
    · refine ⟨?_, fun pre post q r he _ => (r5_shape_after _ _ _ rfl h ht pre post q r he).1⟩
      rcases h with ⟨_, _, h⟩ | ⟨_, _, _, h, _⟩ <;> exact h

/-- the two tests of the driver's monitor -/
def r5_sentPing (evs : List Ev) : Bool :=
  evs.any fun (e : Ev) => match e with | .send q _ => q.kind = Kind.pingreq | _ => false
def r5_armedP (pto : Nat) (evs : List Ev) : Bool :=
  evs.any fun (e : Ev) => match e with | .timerReset k ms => k = Timer.pingrespRecv ∧ ms = pto | _ => false

/-- **C15 pingreq_without_response_timer**, as the driver evaluates it: never
    `sentPing ∧ pto > 0 ∧ !armedP` -/
theorem C15_pingreq_arms_response_timer_mon (cfg : Cfg) (s : St) (op : Op)
    (hop : (∃ p, op = .send p ∧ p.kind = .pingreq) ∨ op = .timer .pingreqSend) :
    ¬ (r5_sentPing (step cfg s op).ev = true ∧ (step cfg s op).s.respTimeoutMs > 0 ∧
        r5_armedP (step cfg s op).s.respTimeoutMs (step cfg s op).ev = false) := by
  rintro ⟨h1, h2, h3⟩
  have hs : (step cfg s op).s.respTimeoutMs = s.respTimeoutMs := by
    rcases hop with ⟨p, rfl, hk⟩ | rfl
    · rcases C15_pingreq_arms_response_timer_send { cfg := cfg, s := s } p hk with
        ⟨_, _, h⟩ | ⟨_, _, _, h, _⟩ <;> exact h
    · rcases C15_pingreq_arms_response_timer_fired { cfg := cfg, s := s } with ⟨_, h⟩ | h
      · exact h
      · rcases h with ⟨_, _, h⟩ | ⟨_, _, _, h, _⟩ <;> exact h
  rw [hs] at h2 h3
  obtain ⟨_, hall⟩ := C15_pingreq_arms_response_timer_step cfg s op hop h2
  simp only [r5_sentPing, List.any_eq_true] at h1
  obtain ⟨e, hmem, he⟩ := h1
  obtain ⟨pre, post, hsplit⟩ := List.append_of_mem hmem
  cases e with
  | send q r =>
    have hq : q.kind = .pingreq := by simpa using he
    have := hall pre post q r hsplit hq
    have h3' : r5_armedP s.respTimeoutMs (step cfg s op).ev = true := by
      simp only [r5_armedP, List.any_eq_true]
      exact ⟨.timerReset .pingrespRecv s.respTimeoutMs, by rw [hsplit]; simp [this], by simp⟩
    rw [h3'] at h3
    cases h3
  | _ => simp at he

/-! ## (b) the value the receive timer is armed with -/

/-- an event other than `RequestTimerReset(PingreqRecv, ms)`, or that one with `ms = t ≠ 0` -/
def r5_okE (t : Nat) : Ev → Bool
  | .timerReset .pingreqRecv ms => ms = t && t != 0
  | _ => true

def r5_okR (t : Nat) (l : List Ev) : Bool := l.all (r5_okE t)

/-- what (b) reads: the receive timeout, and whether all receive-timer resets pushed so far carry it -/
def r5_K (c : C) : Nat × Bool := (c.s.recvTimeoutMs, r5_okR c.s.recvTimeoutMs c.ev)

theorem r5_ite_K (p : Prop) {_ : Decidable p} (a b : C) :
    r5_K (if p then a else b) = if p then r5_K a else r5_K b := apply_ite _ _ _ _

theorem r5_K_push (c : C) (e : Ev) (h : ∀ ms, e ≠ .timerReset .pingreqRecv ms) : r5_K (c.push e) = r5_K c := by
  have : r5_okE c.s.recvTimeoutMs e = true := by
    cases e with
    | timerReset k ms => cases k <;> first | rfl | exact absurd rfl (h ms)
    | _ => rfl
  simp [r5_K, C.push, r5_okR, this]

@[simp] theorem r5_K_push_send (c : C) (p r) : r5_K (c.push (.send p r)) = r5_K c := r5_K_push c _ (by simp)
@[simp] theorem r5_K_push_recv (c : C) (p) : r5_K (c.push (.recv p)) = r5_K c := r5_K_push c _ (by simp)
@[simp] theorem r5_K_push_rel (c : C) (i) : r5_K (c.push (.released i)) = r5_K c := r5_K_push c _ (by simp)
@[simp] theorem r5_K_push_tc (c : C) (k) : r5_K (c.push (.timerCancel k)) = r5_K c := r5_K_push c _ (by simp)
@[simp] theorem r5_K_push_close (c : C) : r5_K (c.push .close) = r5_K c := r5_K_push c _ (by simp)
@[simp] theorem r5_K_push_error (c : C) (e) : r5_K (c.push (.error e)) = r5_K c := r5_K_push c _ (by simp)
@[simp] theorem r5_K_err (c : C) (e) : r5_K (c.err e) = r5_K c := r5_K_push c _ (by simp)
@[simp] theorem r5_K_push_trS (c : C) (ms) : r5_K (c.push (.timerReset .pingreqSend ms)) = r5_K c :=
  r5_K_push c _ (by simp)
@[simp] theorem r5_K_push_trP (c : C) (ms) : r5_K (c.push (.timerReset .pingrespRecv ms)) = r5_K c :=
  r5_K_push c _ (by simp)
@[simp] theorem r5_K_setPanic (c : C) (x : String) : r5_K (c.setPanic x) = r5_K c := rfl

macro "r5k1" : tactic =>
  `(tactic| first
      | rfl
      | (simp [r5_ite_K]; done)
      | (simp [r5_ite_K, *]; done)
      | (simp_all [r5_ite_K]; done)
      | (simp [r5_K, C.push, C.err, C.setPanic, r5_okR, r5_okE]; done)
      | (simp [r5_ite_K]; simp [r5_K, C.push, C.err, C.setPanic, r5_okR, r5_okE]; done)
      | (simp_all [r5_K, C.push, C.err, C.setPanic, r5_okR, r5_okE]; done))

macro "r5k" : tactic =>
  `(tactic| first
      | r5k1
      | ((repeat' (first | split | (simp only []; split))) <;> r5k1))

@[simp] theorem r5_K_cancelTimers (c : C) : r5_K (cancelTimers c) = r5_K c := by
  unfold cancelTimers; r5k
@[simp] theorem r5_K_sendPostProcess (c : C) : r5_K (sendPostProcess c) = r5_K c := by
  unfold sendPostProcess
  split
  · extract_lets ms
    split
    · exact r5_K_push_trS _ _
    · rfl
  · rfl
/-- the only source of receive-timer resets on an established connection re-arms with the
    field's value, and only when that is non-zero -/
@[simp] theorem r5_K_refreshPingreqRecv (c : C) : r5_K (refreshPingreqRecv c) = r5_K c := by
  unfold refreshPingreqRecv
  split
  · rename_i h
    have h0 : c.s.recvTimeoutMs ≠ 0 := h.1
    simp [r5_K, C.push, r5_okR, r5_okE, h0]
  · rfl
@[simp] theorem r5_K_decSendCount (c : C) : r5_K (decSendCount c) = r5_K c := by
  unfold decSendCount; r5k
@[simp] theorem r5_K_releaseId (c : C) (id : Nat) : r5_K (releaseId c id) = r5_K c := by
  unfold releaseId; simp only []; split <;> rfl
@[simp] theorem r5_K_releaseIfUsed (c : C) (id : Nat) : r5_K (releaseIfUsed c id) = r5_K c := by
  unfold releaseIfUsed; split <;> simp
@[simp] theorem r5_K_storeAdd (c : C) (id : Nat) (q : Pkt) (x : String) : r5_K (storeAdd c id q x) = r5_K c := by
  unfold storeAdd; split <;> rfl
@[simp] theorem r5_K_psV5Disconnect (c : C) (p : Pkt) : r5_K (psV5Disconnect c p) = r5_K c := by
  unfold psV5Disconnect; r5k
@[simp] theorem r5_K_handleV3Error (c : C) (e : Nat) : r5_K (handleV3Error c e) = r5_K c := by
  unfold handleV3Error; r5k
@[simp] theorem r5_K_v5DisconnectOrClose (c : C) (p : Pkt) : r5_K (v5DisconnectOrClose c p) = r5_K c := by
  unfold v5DisconnectOrClose; r5k
@[simp] theorem r5_K_handleV5Error (c : C) (e : Nat) : r5_K (handleV5Error c e) = r5_K c := by
  unfold handleV5Error; r5k
@[simp] theorem r5_K_vErr (c : C) (e : Nat) : r5_K (vErr c e) = r5_K c := by unfold vErr; r5k
@[simp] theorem r5_K_psV3Simple (c : C) (p : Pkt) : r5_K (psV3Simple c p) = r5_K c := by
  unfold psV3Simple; r5k
@[simp] theorem r5_K_psV5Simple (c : C) (p : Pkt) : r5_K (psV5Simple c p) = r5_K c := by
  unfold psV5Simple; r5k
@[simp] theorem r5_K_psV5Puback (c : C) (p : Pkt) : r5_K (psV5Puback c p) = r5_K c := by
  unfold psV5Puback; r5k
@[simp] theorem r5_K_psV5Pubrec (c : C) (p : Pkt) : r5_K (psV5Pubrec c p) = r5_K c := by
  unfold psV5Pubrec; r5k
@[simp] theorem r5_K_psV5Pubcomp (c : C) (p : Pkt) : r5_K (psV5Pubcomp c p) = r5_K c := r5_K_psV5Puback c p
theorem r5_K_eq_of {c c' : C} (h1 : c'.s.recvTimeoutMs = c.s.recvTimeoutMs) (h2 : c'.ev = c.ev) :
    r5_K c' = r5_K c := by
  simp [r5_K, h1, h2]
@[simp] theorem r5_K_psPubrel (c : C) (p : Pkt) : r5_K (psPubrel c p) = r5_K c := by
  unfold psPubrel
  split
  · simp
  split
  · simp
  extract_lets id c1 src c2
  split
  · simp
  have k1 : r5_K c1 = r5_K c := by
    simp only [c1]; split <;> simp
  have k2 : r5_K c2 = r5_K c := (r5_K_eq_of (c := c1) rfl rfl).trans k1
  split
  · simp [k2]
  · exact k2

macro "r5_recv_tac" f:ident : tactic =>
  `(tactic| (unfold $f; (repeat' (first | split | (simp only []; split))) <;> r5k1))

@[simp] theorem r5_K_prV3Publish (c : C) (x : Except Nat Pkt) : r5_K (prV3Publish c x) = r5_K c := by
  r5_recv_tac prV3Publish
@[simp] theorem r5_K_prV5PublishAlias (c : C) (p : Pkt) : r5_K (prV5PublishAlias c p).1 = r5_K c := by
  unfold prV5PublishAlias
  (repeat' (first | split | (simp only []; split))) <;> first | rfl | (simp; done)
@[simp] theorem r5_K_prV5Publish (c : C) (x : Except Nat Pkt) : r5_K (prV5Publish c x) = r5_K c := by
  unfold prV5Publish
  split
  · r5k
  rename_i p
  extract_lets r c1 rmx id already src1 c2 src2 c3 pubackSend pubrecSend c4 c5 c6
  have h1 : r5_K r.1 = r5_K c := r5_K_prV5PublishAlias c p
  split
  · exact h1
  have k1 : r5_K c1 = r5_K c := h1
  have k2 : r5_K c2 = r5_K c := by
    simp only [c2, src1]; split <;> exact k1
  have k3 : r5_K c3 = r5_K c := by
    simp only [c3, src2]; split <;> exact k2
  have k4 : r5_K c4 = r5_K c := by
    simp only [c4]; (repeat' split) <;> simp [k3]
  have k5 : r5_K c5 = r5_K c := by
    simp only [c5]; (repeat' split) <;> simp [k4]
  have k6 : r5_K c6 = r5_K c := by
    simp only [c6]; simp [k5]
  split
  · simp [k1]
  split
  · simp [k1]
  split
  · rw [r5_K_push_recv]; exact k6
  · exact k6
@[simp] theorem r5_K_prPuback (c : C) (x : Except Nat Pkt) : r5_K (prPuback c x) = r5_K c := by
  r5_recv_tac prPuback
@[simp] theorem r5_K_prPubrec (c : C) (x : Except Nat Pkt) : r5_K (prPubrec c x) = r5_K c := by
  r5_recv_tac prPubrec
@[simp] theorem r5_K_prPubrel (c : C) (x : Except Nat Pkt) : r5_K (prPubrel c x) = r5_K c := by
  r5_recv_tac prPubrel
@[simp] theorem r5_K_prPubcomp (c : C) (x : Except Nat Pkt) : r5_K (prPubcomp c x) = r5_K c := by
  r5_recv_tac prPubcomp
@[simp] theorem r5_K_prPlain (c : C) (x : Except Nat Pkt) : r5_K (prPlain c x) = r5_K c := by
  r5_recv_tac prPlain
@[simp] theorem r5_K_prSubUnsuback (c : C) (b : Bool) (x : Except Nat Pkt) : r5_K (prSubUnsuback c b x) = r5_K c := by
  r5_recv_tac prSubUnsuback
@[simp] theorem r5_K_prPingreq (c : C) (x : Except Nat Pkt) : r5_K (prPingreq c x) = r5_K c := by
  r5_recv_tac prPingreq
@[simp] theorem r5_K_prPingresp (c : C) (x : Except Nat Pkt) : r5_K (prPingresp c x) = r5_K c := by
  r5_recv_tac prPingresp
@[simp] theorem r5_K_prDisconnect (c : C) (x : Except Nat Pkt) : r5_K (prDisconnect c x) = r5_K c := by
  r5_recv_tac prDisconnect

/-- CONNECT / CONNACK received on an established connection: the protocol-error path -/
theorem r5_K_prV3Connect (c : C) (x : Except Nat Pkt) (hs : c.s.status ≠ .disconnected) :
    r5_K (prV3Connect c x) = r5_K c := by
  unfold prV3Connect; rw [if_pos hs]; simp
theorem r5_K_prV5Connect (c : C) (x : Except Nat Pkt) (hs : c.s.status ≠ .disconnected) :
    r5_K (prV5Connect c x) = r5_K c := by
  unfold prV5Connect; rw [if_pos hs]; simp
theorem r5_K_prV3Connack (c : C) (x : Except Nat Pkt) (hs : c.s.status = .connected) :
    r5_K (prV3Connack c x) = r5_K c := by
  unfold prV3Connack; rw [if_pos hs]; simp
theorem r5_K_prV5Connack (c : C) (x : Except Nat Pkt) (hs : c.s.status = .connected) :
    r5_K (prV5Connack c x) = r5_K c := by
  unfold prV5Connack; rw [if_pos hs]; simp

theorem r5_K_dispatchRecv (c : C) (t : Nat) (x : Except Nat Pkt) (hs : c.s.status = .connected) :
    r5_K (dispatchRecv c t x) = r5_K c := by
  have hd : c.s.status ≠ .disconnected := by rw [hs]; decide
  unfold dispatchRecv
  split
  · split
    · exact r5_K_prV3Connect c x hd
    · exact r5_K_prV5Connect c x hd
  · split
    · exact r5_K_prV3Connack c x hs
    · exact r5_K_prV5Connack c x hs
  all_goals first | (simp; done) | (split <;> simp)

theorem r5_K_processRecvPacket (c : C) (fh : Nat) (data : List Nat) (parse : Nat → Except Nat Pkt)
    (hs : c.s.status = .connected) : r5_K (processRecvPacket c fh data parse) = r5_K c := by
  have hd : c.s.status ≠ .disconnected := by rw [hs]; decide
  unfold processRecvPacket
  split
  · simp
  · extract_lets t lvl s1
    split
    · simp
    split
    · split
      · split
        · simp
        · split
          · exact r5_K_prV3Connect ({ c with s := { c.s with ver := 4 } } : C) _ hd
          split
          · exact r5_K_prV5Connect ({ c with s := { c.s with ver := 5 } } : C) _ hd
          · simp
      · simp
    · exact r5_K_dispatchRecv c t _ hs

theorem r5_K_recv (c : C) (inp : List Nat) (parse : Nat → Nat → List Nat → Except Nat Pkt)
    (hs : c.s.status = .connected) : r5_K (recv c inp parse).1 = r5_K c := by
  unfold recv
  generalize Framing.feed c.s.pb inp = r
  obtain ⟨pb, out, rest⟩ := r
  simp only []
  cases out with
  | none => rfl
  | some o =>
    cases o with
    | complete fh data =>
      exact r5_K_processRecvPacket ({ c with s := { c.s with pb := pb } } : C) fh data _ hs
    | error => simp [C.err]; rfl

theorem r5_okR_mem {t : Nat} {l : List Ev} (h : r5_okR t l = true) {ms : Nat}
    (hm : Ev.timerReset .pingreqRecv ms ∈ l) : ms = t ∧ t > 0 := by
  have := List.all_eq_true.1 h _ hm
  simp only [r5_okE, Bool.and_eq_true, decide_eq_true_eq, bne_iff_ne, ne_eq] at this
  exact ⟨this.1, by omega⟩

/-- **C15 wrong_recv_timeout** — `recv` on an established connection: the receive timeout is
    not changed, and every `RequestTimerReset(PingreqRecv, ms)` has `ms` = that timeout, which is
    then non-zero (given the same of the events already pushed; none for an API call). -/
theorem C15_recv_timer_value (c : C) (inp : List Nat) (parse : Nat → Nat → List Nat → Except Nat Pkt)
    (hs : c.s.status = .connected)
    (hold : ∀ ms, Ev.timerReset .pingreqRecv ms ∈ c.ev → ms = c.s.recvTimeoutMs ∧ c.s.recvTimeoutMs > 0) :
    (recv c inp parse).1.s.recvTimeoutMs = c.s.recvTimeoutMs ∧
    ∀ ms, Ev.timerReset .pingreqRecv ms ∈ (recv c inp parse).1.ev →
      ms = c.s.recvTimeoutMs ∧ c.s.recvTimeoutMs > 0 := by
  have hk := r5_K_recv c inp parse hs
  have h0 : r5_okR c.s.recvTimeoutMs c.ev = true := by
    apply List.all_eq_true.2
    intro e he
    cases e with
    | timerReset k ms =>
      cases k <;> first | rfl | skip
      have := hold ms he
      simp only [r5_okE, Bool.and_eq_true, decide_eq_true_eq, bne_iff_ne, ne_eq]
      exact ⟨this.1, by omega⟩
    | _ => rfl
  simp only [r5_K, Prod.mk.injEq] at hk
  obtain ⟨h1, h2⟩ := hk
  rw [h1, h0] at h2
  exact ⟨h1, fun ms hm => r5_okR_mem h2 hm⟩

/-- **C15 wrong_recv_timeout**, one API call -/
theorem C15_recv_timer_value_step (cfg : Cfg) (s : St) (inp : List Nat)
    (parse : Nat → Nat → List Nat → Except Nat Pkt) (hs : s.status = .connected) :
    (step cfg s (.recv inp parse)).s.recvTimeoutMs = s.recvTimeoutMs ∧
    ∀ ms, Ev.timerReset .pingreqRecv ms ∈ (step cfg s (.recv inp parse)).ev →
      ms = s.recvTimeoutMs ∧ s.recvTimeoutMs > 0 :=
  C15_recv_timer_value { cfg := cfg, s := s } inp parse hs (by intro ms h; cases h)


/-! ## (c) Server Keep Alive on a sent v5.0 CONNACK -/

/-- receive timeout and receive-timer flag -/
def r5_T (c : C) : Nat × Bool := (c.s.recvTimeoutMs, c.s.recvSet)

/-- the receive timeout after the property loop: the last Server Keep Alive wins -/
def r5_skaFold (t : Nat) : List (Nat × Nat) → Nat
  | [] => t
  | (id, v) :: rest => r5_skaFold (if id = pSKA then v * 1000 * 3 / 2 else t) rest

theorem r5_T_connackSendProp_other (c : C) (id v : Nat) (h : id ≠ pSKA) :
    r5_T (connackSendProp c id v) = r5_T c := by
  unfold connackSendProp
  simp only [h, if_false]
  (repeat' split) <;> rfl

theorem r5_T_connackSendProp_ska0 (c : C) : r5_T (connackSendProp c pSKA 0) = (0, false) := by
  unfold connackSendProp
  rw [if_neg (by decide), if_neg (by decide), if_neg (by decide), if_pos rfl, if_pos rfl]
  by_cases h : c.s.recvSet = true
  · simp [r5_T, h, C.push]
  · have h' : c.s.recvSet = false := by simpa using h
    simp [r5_T, h']

theorem r5_rt_connackSendProp (c : C) (id v : Nat) :
    (connackSendProp c id v).s.recvTimeoutMs = if id = pSKA then v * 1000 * 3 / 2 else c.s.recvTimeoutMs := by
  by_cases h : id = pSKA
  · subst h
    unfold connackSendProp
    rw [if_neg (by decide), if_neg (by decide), if_neg (by decide), if_pos rfl, if_pos rfl]
    by_cases hv : v = 0
    · subst hv; rw [if_pos rfl]
    · rw [if_neg hv]; rfl
  · rw [if_neg h]
    exact congrArg Prod.fst (r5_T_connackSendProp_other c id v h)

theorem r5_propsFold_append (f : C → Nat → Nat → C) (a b : List (Nat × Nat)) :
    ∀ c, propsFold f c (a ++ b) = propsFold f (propsFold f c a) b := by
  induction a with
  | nil => intro c; rfl
  | cons x rest ih => intro c; obtain ⟨i, v⟩ := x; simp only [List.cons_append, propsFold]; exact ih _

theorem r5_fold_rt (l : List (Nat × Nat)) :
    ∀ c, (propsFold connackSendProp c l).s.recvTimeoutMs = r5_skaFold c.s.recvTimeoutMs l := by
  induction l with
  | nil => intro c; rfl
  | cons x rest ih =>
    intro c; obtain ⟨i, v⟩ := x
    rw [propsFold, ih, r5_rt_connackSendProp]; rfl

theorem r5_fold_T_noSka (l : List (Nat × Nat)) (h : ∀ x ∈ l, x.1 ≠ pSKA) :
    ∀ c, r5_T (propsFold connackSendProp c l) = r5_T c := by
  induction l with
  | nil => intro c; rfl
  | cons x rest ih =>
    intro c; obtain ⟨i, v⟩ := x
    rw [propsFold, ih (fun y hy => h y (List.mem_cons_of_mem _ hy)),
      r5_T_connackSendProp_other c i v (h (i, v) List.mem_cons_self)]

theorem r5_fold_status (l : List (Nat × Nat)) :
    ∀ c, (propsFold connackSendProp c l).s.status = c.s.status := by
  induction l with
  | nil => intro c; rfl
  | cons x rest ih =>
    intro c; obtain ⟨i, v⟩ := x
    rw [propsFold, ih]
    unfold connackSendProp
    (repeat' (first | split | (simp only []; split))) <;> rfl

theorem r5_T_releaseIfUsed (c : C) (id : Nat) : r5_T (releaseIfUsed c id) = r5_T c := by
  unfold releaseIfUsed releaseId
  split
  · simp only []; split <;> rfl
  · rfl

theorem r5_T_sendStoredLoop (l : List (Nat × Pkt)) : ∀ c, r5_T (sendStoredLoop c l).1 = r5_T c := by
  induction l with
  | nil => intro c; rfl
  | cons x rest ih =>
    intro c
    obtain ⟨id, p⟩ := x
    unfold sendStoredLoop
    split
    · simp only []; rw [ih, r5_T_releaseIfUsed]; rfl
    · simp only []; rw [ih]
      by_cases h1 : c.s.sendMax.isSome = true <;> by_cases h2 : c.s.sendCount ≥ 4294967295 <;>
        simp [h1, h2, r5_T, C.push, C.setPanic]

theorem r5_T_sendStored (c : C) : r5_T (sendStored c) = r5_T c := by
  unfold sendStored
  simp only []
  show r5_T (sendStoredLoop _ _).1 = _
  rw [r5_T_sendStoredLoop]; split <;> rfl

theorem r5_T_sendPostProcess (c : C) : r5_T (sendPostProcess c) = r5_T c := by
  unfold sendPostProcess
  split
  · extract_lets ms
    split <;> rfl
  · rfl

/-- an accepted successful v5.0 CONNACK: after the property loop nothing touches the receive
    timeout or the receive-timer flag -/
theorem r5_psV5Connack_T (c : C) (p : Pkt) (hz : sizeOk c p = true) (hs : c.s.status = .connecting)
    (hrc : p.rc = some 0) : r5_T (psV5Connack c p) = r5_T (propsFold connackSendProp c p.props) := by
  unfold psV5Connack
  rw [if_neg (by simp [hz]), if_neg (by simp [hs])]
  simp only [hrc, if_true, ne_eq, not_true_eq_false, if_false]
  rw [r5_T_sendPostProcess]
  split
  · rw [r5_T_sendStored]; rfl
  · rfl

/-- **C15 (c), general form** — the receive timeout after an accepted successful v5.0 CONNACK -/
theorem C15_connack_ska_fold (c : C) (p : Pkt) (hz : sizeOk c p = true) (hs : c.s.status = .connecting)
    (hrc : p.rc = some 0) :
    (psV5Connack c p).s.recvTimeoutMs = r5_skaFold c.s.recvTimeoutMs p.props := by
  have := congrArg Prod.fst (r5_psV5Connack_T c p hz hs hrc)
  exact this.trans (r5_fold_rt p.props c)

/-- **C15 (c)** — Server Keep Alive 0 (the last such property of the packet) switches the
    receive timeout off, whatever the state held before -/
theorem C15_connack_ska_zero_disables (c : C) (p : Pkt) (hz : sizeOk c p = true)
    (hs : c.s.status = .connecting) (hrc : p.rc = some 0)
    (pre post : List (Nat × Nat)) (hp : p.props = pre ++ (pSKA, 0) :: post)
    (hpost : ∀ x ∈ post, x.1 ≠ pSKA) :
    (psV5Connack c p).s.recvTimeoutMs = 0 ∧ (psV5Connack c p).s.recvSet = false := by
  have hT := r5_psV5Connack_T c p hz hs hrc
  rw [hp, r5_propsFold_append, propsFold, r5_fold_T_noSka post hpost, r5_T_connackSendProp_ska0] at hT
  simp only [r5_T, Prod.mk.injEq] at hT
  exact hT

/-- **C15 (c)**, through `send`: version 5.0 endpoint, role server or any, the CONNACK fits the
    peer's Maximum Packet Size, a CONNECT has been received (`status = .connecting`) -/
theorem C15_connack_ska_zero_send (c : C) (p : Pkt) (hk : p.kind = .connack) (hv : p.ver = 5)
    (hcv : c.s.ver = 5) (hr : c.cfg.role = .server ∨ c.cfg.role = .any)
    (hz : p.size ≤ c.s.mpsSend) (hs : c.s.status = .connecting) (hrc : p.rc = some 0)
    (pre post : List (Nat × Nat)) (hp : p.props = pre ++ (pSKA, 0) :: post)
    (hpost : ∀ x ∈ post, x.1 ≠ pSKA) :
    (send c p).s.recvTimeoutMs = 0 ∧ (send c p).s.recvSet = false := by
  have e : send c p = psV5Connack c p := by
    unfold send
    rw [if_neg (by rw [hcv, hv]; simp), if_neg (by rcases hr with h | h <;> simp [roleMaySend, hk, h])]
    unfold processSend
    rw [if_neg (by rw [hv]; decide), hk]
  rw [e]
  refine C15_connack_ska_zero_disables c p ?_ hs hrc pre post hp hpost
  simp [sizeOk, Pkt.sz, hk]; omega

/-! ## non-vacuity: states reached by running the model from `St.init` -/
namespace C15R5Ex
def cfgC : Cfg := { role := .client, pw := 2 }
def cfgS : Cfg := { role := .server, pw := 2 }
def connect4 : Pkt := { ver := 4, kind := .connect, size := 14, keepAlive := 10, clean := true }
def connack4 : Pkt := { ver := 4, kind := .connack, size := 4, rc := some 0 }
def connect5 : Pkt := { ver := 5, kind := .connect, size := 15, keepAlive := 10, clean := true }
def connack5 (props : List (Nat × Nat)) : Pkt := { ver := 5, kind := .connack, size := 8, rc := some 0, props := props }
def parseC : Nat → Nat → List Nat → Except Nat Pkt := fun _ _ _ => .ok connack4
def parseS : Nat → Nat → List Nat → Except Nat Pkt := fun v fh _ =>
  if fh = 0x10 then .ok (if v = 4 then connect4 else connect5) else .ok (mkPingreq v)

/-- (a) a connected v3.1.1 client with a 5 s response timeout -/
def client : St := run cfgC (St.init cfgC 4)
  [.send connect4, .recv [0x20, 0x02, 0x00, 0x00] parseC, .setRespTimeout 5000]
example : Reachable cfgC 4 client := ⟨_, rfl⟩
example : client.status = .connected ∧ client.respTimeoutMs = 5000 := by decide
example : (step cfgC client (.send (mkPingreq 4))).ev
    = [.send (mkPingreq 4) none, .timerReset .pingrespRecv 5000, .timerReset .pingreqSend 10000] := by decide
example : (step cfgC client (.timer .pingreqSend)).ev
    = [.send (mkPingreq 4) none, .timerReset .pingrespRecv 5000, .timerReset .pingreqSend 10000] := by decide
example : r5_sentPing (step cfgC client (.send (mkPingreq 4))).ev = true ∧
    r5_armedP 5000 (step cfgC client (.send (mkPingreq 4))).ev = true := by decide
-- the refusal alternative: a PINGREQ of the other version
example : (step cfgC client (.send (mkPingreq 5))).ev = [.error eVersionMismatch] := by decide

/-- (b) a v3.1.1 server that has accepted a CONNECT with keep alive 10 s and sent the CONNACK -/
def server : St := run cfgS (St.init cfgS 0)
  [.recv ([0x10, 12, 0, 4, 77, 81, 84, 84, 4, 2, 0, 10, 0, 0]) parseS, .send connack4]
example : Reachable cfgS 0 server := ⟨_, rfl⟩
example : server.status = .connected ∧ server.recvTimeoutMs = 15000 ∧ server.isClient = false := by decide
example : (step cfgS server (.recv [0xC0, 0x00] parseS)).ev
    = [.timerReset .pingreqRecv 15000, .recv (mkPingreq 4)] := by decide

/-- `status = .connected` is needed in (b): the CONNECT a disconnected server receives arms the
    timer with the *new* value (15000), not with the one the state held before (0) -/
theorem C15_recv_timer_value_needs_connected :
    (St.init cfgS 0).status = .disconnected ∧ (St.init cfgS 0).recvTimeoutMs = 0 ∧
    Ev.timerReset .pingreqRecv 15000 ∈
      (step cfgS (St.init cfgS 0) (.recv ([0x10, 12, 0, 4, 77, 81, 84, 84, 4, 2, 0, 10, 0, 0]) parseS)).ev := by
  decide

/-- (c) a v5.0 server that has accepted a CONNECT with keep alive 10 s (timeout 15000 ms, timer
    armed) and answers with Server Keep Alive 0 -/
def server5 : St := run cfgS (St.init cfgS 0)
  [.recv ([0x10, 13, 0, 4, 77, 81, 84, 84, 5, 2, 0, 10, 0, 0, 0]) parseS]
example : Reachable cfgS 0 server5 := ⟨_, rfl⟩
example : server5.status = .connecting ∧ server5.ver = 5 ∧ server5.recvTimeoutMs = 15000 ∧
    server5.recvSet = true := by decide
example : (step cfgS server5 (.send (connack5 [(pRM, 10), (pSKA, 0), (pTAM, 5)]))).ev
      = [.timerCancel .pingreqRecv, .send (connack5 [(pRM, 10), (pSKA, 0), (pTAM, 5)]) none] ∧
    (step cfgS server5 (.send (connack5 [(pRM, 10), (pSKA, 0), (pTAM, 5)]))).s.recvTimeoutMs = 0 ∧
    (step cfgS server5 (.send (connack5 [(pRM, 10), (pSKA, 0), (pTAM, 5)]))).s.status = .connected := by decide
example : (step cfgS server5 (.send (connack5 [(pRM, 10), (pSKA, 0), (pTAM, 5)]))).s.recvTimeoutMs = 0 :=
  (C15_connack_ska_zero_send { cfg := cfgS, s := server5 } _ rfl rfl (by decide) (.inl rfl) (by decide)
    (by decide) rfl [(pRM, 10)] [(pTAM, 5)] rfl (by decide)).1
-- afterwards a received PINGREQ does not arm the receive timer
example : (step cfgS (step cfgS server5 (.send (connack5 [(pSKA, 0)]))).s (.recv [0xC0, 0x00] parseS)).ev
    = [.recv (mkPingreq 5)] := by decide
-- the last Server Keep Alive wins
example : r5_skaFold 15000 [(pSKA, 0), (pSKA, 20)] = 30000 ∧ r5_skaFold 15000 [(pRM, 3)] = 15000 := by decide
end C15R5Ex

end MqttVerif.Conn
