import MqttVerif.Conn.Step
/-!
# C06 (round 5) — the send-error hint and the store

`RequestSendPacket { packet, release_packet_id_if_send_error: Some(id) }` tells the application to
release `id` when the write fails.  Driver monitor `VIOL sig=C06 hint_releases_stored_id@<site>`:
such a hint on a PUBLISH / PUBREL must not name an identifier a stored packet carries after the call.

Self-contained (imports the model only); every statement is for **every** context `c` (any state,
reachable or not) and every packet unless a hypothesis says otherwise.  `r5_hs l` = the identifiers
named by the hints in the event list `l`, in order.

* `C06_hint_shape_publish` — `send c p` of a PUBLISH (any version, any QoS): either no hint is
  added, or exactly one, it names the packet's own identifier (`p.pid = some id`) **and the call
  did not touch the store** (the hint is only given on the branch that does not store).
* `C06_hint_never_names_stored_pubrel` — `send c p` of a PUBREL adds no hint at all (full strength).
* `C06_hint_never_names_stored_partial` — for a PUBLISH whose identifier is not the identifier of a
  stored packet **before** the call (`storeHas id c.s.store = false` for `p.pid = some id`): every
  hint `.send q (some id)` among the events of the call names an identifier that is not in the
  resulting store.  (`C06_hint_never_names_stored_step`: the same for `step`.)
* `C06_hint_never_names_stored_contract` — the extra hypothesis follows from the application
  contract of `send` (`IdFresh`: the identifier awaits no response) on states in which every stored
  identifier is awaited (the store invariant `StoreInv`, kept on reachable states by legal calls —
  `Conn/Lemmas/NoPanic*.lean`, `StoreInv.fresh_not_stored`); both are stated here as plain
  hypotheses to keep the file self-contained.
* `C06_r5_counterexample_hint_names_stored` — **the statement without the extra hypothesis is
  FALSE in the model**: a v5.0 client resumes a session without Session Expiry Interval (so nothing
  new is stored) while packet 1 of the old session is still stored and awaited; an application that
  sends a *new* QoS 1 PUBLISH under identifier 1 (which it did not obtain from `acquire` — a breach
  of the `send` contract) gets `RequestSendPacket` with the hint `Some(1)` although identifier 1 is
  in the store.  Reached by API calls from `St.init`; the offending call violates `IdFresh`.
  The monitor is evaluated on traces whose application respects the contract (`legal`), so on those
  an alarm is a statement about the code.
-/
set_option linter.unusedVariables false
namespace MqttVerif.Conn
open MqttVerif

/-- the identifier a `RequestSendPacket` names in `release_packet_id_if_send_error` -/
def r5_hint : Ev → Option Nat
  | .send _ (some j) => some j
  | _ => none

/-- the identifiers named by the hints of an event list -/
def r5_hs (l : List Ev) : List Nat := l.filterMap r5_hint

theorem r5_mem_hs {l : List Ev} {q : Pkt} {j : Nat} (h : Ev.send q (some j) ∈ l) : j ∈ r5_hs l :=
  List.mem_filterMap.2 ⟨_, h, rfl⟩

@[simp] theorem r5_hs_append (a b : List Ev) : r5_hs (a ++ b) = r5_hs a ++ r5_hs b := by
  simp [r5_hs, List.filterMap_append]

theorem r5_hs_push (c : C) (e : Ev) :
    r5_hs (c.push e).ev = r5_hs c.ev ++ (match r5_hint e with | some j => [j] | none => []) := by
  simp only [C.push, r5_hs_append]
  congr 1
  cases h : r5_hint e <;> simp [r5_hs, h]

@[simp] theorem r5_hs_push_none (c : C) (q : Pkt) : r5_hs (c.push (.send q none)).ev = r5_hs c.ev := by
  simp [r5_hs_push, r5_hint]
@[simp] theorem r5_hs_push_some (c : C) (q : Pkt) (j : Nat) :
    r5_hs (c.push (.send q (some j))).ev = r5_hs c.ev ++ [j] := by
  simp [r5_hs_push, r5_hint]
@[simp] theorem r5_hs_push_rel (c : C) (i : Nat) : r5_hs (c.push (.released i)).ev = r5_hs c.ev := by
  simp [r5_hs_push, r5_hint]
@[simp] theorem r5_hs_push_tr (c : C) (k ms) : r5_hs (c.push (.timerReset k ms)).ev = r5_hs c.ev := by
  simp [r5_hs_push, r5_hint]
@[simp] theorem r5_hs_err (c : C) (e : Nat) : r5_hs (c.err e).ev = r5_hs c.ev := by
  simp [C.err, r5_hs_push, r5_hint]
@[simp] theorem r5_hs_setPanic (c : C) (x : String) : r5_hs (c.setPanic x).ev = r5_hs c.ev := rfl
@[simp] theorem r5_store_setPanic (c : C) (x : String) : (c.setPanic x).s.store = c.s.store := rfl
@[simp] theorem r5_store_push (c : C) (e : Ev) : (c.push e).s.store = c.s.store := rfl
@[simp] theorem r5_store_err (c : C) (e : Nat) : (c.err e).s.store = c.s.store := rfl

/-- hints and store together -/
def r5_HS (c : C) : List Nat × List (Nat × Pkt) := (r5_hs c.ev, c.s.store)

@[simp] theorem r5_hs_sendPostProcess (c : C) : r5_hs (sendPostProcess c).ev = r5_hs c.ev := by
  unfold sendPostProcess
  split
  · extract_lets ms
    split
    · exact r5_hs_push_tr _ _ _
    · rfl
  · rfl
@[simp] theorem r5_store_sendPostProcess (c : C) : (sendPostProcess c).s.store = c.s.store := by
  unfold sendPostProcess
  split
  · extract_lets ms
    split <;> rfl
  · rfl
@[simp] theorem r5_hs_releaseIfUsed (c : C) (id : Nat) : r5_hs (releaseIfUsed c id).ev = r5_hs c.ev := by
  unfold releaseIfUsed
  split
  · rw [r5_hs_push_rel]
    unfold releaseId; simp only []; split <;> rfl
  · rfl
@[simp] theorem r5_hs_refuseSend (c : C) (e : Nat) (p : Pkt) : r5_hs (refuseSend c e p).ev = r5_hs c.ev := by
  unfold refuseSend; split <;> simp
@[simp] theorem r5_hs_pubRefuseCleanup (c : C) (pid : Option Nat) :
    r5_hs (pubRefuseCleanup c pid).ev = r5_hs c.ev := by
  unfold pubRefuseCleanup
  split
  · rfl
  · split
    · simp only []
      rw [r5_hs_push_rel]
      unfold releaseId; simp only []; split <;> rfl
    · rfl
@[simp] theorem r5_hs_storeAdd (c : C) (id : Nat) (q : Pkt) (x : String) :
    r5_hs (storeAdd c id q x).ev = r5_hs c.ev := by
  unfold storeAdd; split <;> rfl
@[simp] theorem r5_HS_tasInsert (c : C) (t : List Nat) (a : Nat) (x : String) :
    r5_HS (tasInsert c t a x) = r5_HS c := by
  unfold tasInsert; (repeat' split) <;> rfl
@[simp] theorem r5_HS_validateTopicAlias (c : C) (ao : Option Nat) :
    r5_HS (validateTopicAlias c ao).2 = r5_HS c := by
  unfold validateTopicAlias; (repeat' split) <;> rfl
@[simp] theorem r5_HS_autoAlias (c : C) (p : Pkt) : r5_HS (autoAlias c p).1 = r5_HS c := by
  unfold autoAlias; (repeat' (first | split | (simp only []; split))) <;> simp

/-- "no new hint, or exactly the hint `rel` and the store is the one of `c`" -/
def r5_Hinted (rel : Option Nat) (c c' : C) : Prop :=
  r5_hs c'.ev = r5_hs c.ev ∨ ∃ j, rel = some j ∧ r5_hs c'.ev = r5_hs c.ev ++ [j] ∧ c'.s.store = c.s.store

theorem r5_Hinted.of_HS {rel : Option Nat} {c c0 c' : C} (h : r5_Hinted rel c c') (e : r5_HS c = r5_HS c0) :
    r5_Hinted rel c0 c' := by
  simp only [r5_HS, Prod.mk.injEq] at e
  unfold r5_Hinted at *
  rw [← e.1, ← e.2]; exact h

theorem r5_Hinted.none_iff {c c' : C} (h : r5_Hinted none c c') : r5_hs c'.ev = r5_hs c.ev := by
  rcases h with h | ⟨j, hj, _⟩
  · exact h
  · cases hj

theorem r5_psV5PublishTail (c : C) (p : Pkt) (rel : Option Nat) :
    r5_Hinted rel c (psV5PublishTail c p rel) := by
  unfold psV5PublishTail
  extract_lets c1
  have h1 : r5_HS c1 = r5_HS c := by
    simp only [c1]
    split
    · split <;> rfl
    · rfl
  refine r5_Hinted.of_HS ?_ h1
  split
  · cases rel with
    | none => exact .inl (by simp)
    | some j => exact .inr ⟨j, rfl, by simp, by simp⟩
  · exact .inl rfl

theorem r5_psV5PublishAlias (c : C) (p : Pkt) (rel : Option Nat) (v : Bool) :
    r5_Hinted rel c (psV5PublishAlias c p rel v) := by
  unfold psV5PublishAlias
  extract_lets blocked r ra
  split
  · exact .inl (by simp)
  split
  · split
    · exact .inl (by
        simp only [r5_hs_pubRefuseCleanup, r5_hs_err]
        simp only [r]
        split
        · rfl
        · exact congrArg Prod.fst (r5_HS_validateTopicAlias c p.alias))
    · refine (r5_psV5PublishTail r.2 p rel).of_HS ?_
      simp only [r]
      split
      · rfl
      · exact r5_HS_validateTopicAlias c p.alias
  · split
    · split
      · refine (r5_psV5PublishTail _ p rel).of_HS ?_
        split
        · exact r5_HS_tasInsert _ _ _ _
        · rfl
      · exact .inl (by simp)
    · exact (r5_psV5PublishTail _ _ rel).of_HS (r5_HS_autoAlias c p)

/-- the wait-set update between store and alias stage touches neither hints nor store -/
theorem r5_HS_waitIns (c : C) (q : Nat) (id : Nat) :
    r5_HS (if q = 2 then { c with s := { c.s with pubrec := ins id c.s.pubrec } }
           else { c with s := { c.s with puback := ins id c.s.puback } }) = r5_HS c := by
  split <;> rfl

theorem r5_psV5Publish (c : C) (p : Pkt) :
    r5_Hinted p.pid c (psV5Publish c p) := by
  unfold psV5Publish
  split
  · split <;> exact .inl (by simp)
  split
  · split
    · exact .inl rfl
    · rename_i id hid
      rw [hid]
      split
      · exact .inl (by simp)
      split
      · exact .inl (by simp)
      split
      · -- stored: the tail is called with `rel = none`
        left
        split
        · extract_lets r
          split
          · simp only [r5_hs_releaseIfUsed, r5_hs_err]
            exact congrArg Prod.fst (r5_HS_validateTopicAlias c p.alias)
          · rw [(r5_psV5PublishAlias _ p none true).none_iff]
            have : ∀ (c' : C), r5_hs c'.ev = r5_hs c.ev →
                r5_hs (if p.qos = 2 then ({ c' with s := { c'.s with pubrec := ins id c'.s.pubrec } } : C)
                  else { c' with s := { c'.s with puback := ins id c'.s.puback } }).ev = r5_hs c.ev := by
              intro c' h; split <;> exact h
            apply this
            rw [r5_hs_storeAdd]
            split
            · exact congrArg Prod.fst (r5_HS_validateTopicAlias c p.alias)
            · exact congrArg Prod.fst (r5_HS_validateTopicAlias c p.alias)
        · rw [(r5_psV5PublishAlias _ p none false).none_iff]
          have : ∀ (c' : C), r5_hs c'.ev = r5_hs c.ev →
              r5_hs (if p.qos = 2 then ({ c' with s := { c'.s with pubrec := ins id c'.s.pubrec } } : C)
                else { c' with s := { c'.s with puback := ins id c'.s.puback } }).ev = r5_hs c.ev := by
            intro c' h; split <;> exact h
          apply this
          rw [r5_hs_storeAdd]
      · -- not stored: hint `some id`, store untouched
        exact (r5_psV5PublishAlias _ p (some id) false).of_HS (r5_HS_waitIns c p.qos id)
  split
  · exact .inl (by simp)
  · rcases r5_psV5PublishAlias c p none false with h | ⟨j, hj, _⟩
    · exact .inl h
    · cases hj

theorem r5_psV3Publish (c : C) (p : Pkt) :
    r5_Hinted p.pid c (psV3Publish c p) := by
  unfold psV3Publish
  split
  · split
    · exact .inl rfl
    · rename_i id hid
      rw [hid]
      split
      · exact .inl (by simp)
      split
      · exact .inl (by simp)
      · extract_lets stored c1 rel src c2
        by_cases hst : stored = true
        · -- stored: `rel = none`
          left
          have hrel : rel = none := by simp [rel, hst]
          have h2 : r5_hs c2.ev = r5_hs c.ev := by
            simp only [c2]
            have h1 : r5_hs c1.ev = r5_hs c.ev := by
              show r5_hs (C.ev (if stored = true then _ else _)) = _
              rw [if_pos hst]; exact r5_hs_storeAdd _ _ _ _
            split <;> exact h1
          split
          · rw [r5_hs_sendPostProcess, hrel, r5_hs_push_none]; exact h2
          · exact h2
        · have hc1 : c1 = c := by simp [c1, hst]
          have hrel : rel = some id := by simp [rel, hst]
          have h2 : r5_HS c2 = r5_HS c := by
            simp only [c2, src, hc1]; split <;> rfl
          refine r5_Hinted.of_HS ?_ h2
          split
          · exact .inr ⟨id, rfl, by rw [r5_hs_sendPostProcess, hrel, r5_hs_push_some], by simp⟩
          · exact .inl rfl
  split
  · exact .inl (by simp)
  · exact .inl (by simp)

theorem r5_hs_psPubrel (c : C) (p : Pkt) : r5_hs (psPubrel c p).ev = r5_hs c.ev := by
  unfold psPubrel
  split
  · simp
  split
  · simp
  extract_lets id c1 src c2
  split
  · simp
  have k1 : r5_hs c1.ev = r5_hs c.ev := by
    simp only [c1]; split
    · exact r5_hs_storeAdd _ _ _ _
    · rfl
  have k2 : r5_hs c2.ev = r5_hs c.ev := k1
  split
  · rw [r5_hs_sendPostProcess, r5_hs_push_none]; exact k2
  · exact k2

/-- **C06 (hint shape), PUBLISH** — a `send` of a PUBLISH adds no hint, or exactly one: the
    packet's own identifier, on a call that left the store alone. -/
theorem C06_hint_shape_publish (c : C) (p : Pkt) (hk : p.kind = .publish) :
    r5_hs (send c p).ev = r5_hs c.ev ∨
    ∃ id, p.pid = some id ∧ r5_hs (send c p).ev = r5_hs c.ev ++ [id] ∧ (send c p).s.store = c.s.store := by
  unfold send
  split
  · exact .inl (by simp)
  split
  · exact .inl (by simp)
  · unfold processSend
    split
    · rw [hk]; exact r5_psV3Publish c p
    · rw [hk]; exact r5_psV5Publish c p

/-- **C06 hint_releases_stored_id, PUBREL** (full strength) — a `send` of a PUBREL never carries
    a hint. -/
theorem C06_hint_never_names_stored_pubrel (c : C) (p : Pkt) (hk : p.kind = .pubrel) :
    r5_hs (send c p).ev = r5_hs c.ev := by
  unfold send
  split
  · simp
  split
  · simp
  · unfold processSend
    split
    · rw [hk]; exact r5_hs_psPubrel c p
    · rw [hk]; exact r5_hs_psPubrel c p

/-- **C06 hint_releases_stored_id, PUBLISH** — *partial*: needs that the packet's identifier is
    not the identifier of a packet stored before the call (see `C06_r5_counterexample_…`; the
    hypothesis follows from the `send` contract, `C06_hint_never_names_stored_contract`).  Stated
    for contexts with no hint pushed yet (an API call starts with no events). -/
theorem C06_hint_never_names_stored_partial (c : C) (p : Pkt) (hk : p.kind = .publish)
    (hev : r5_hs c.ev = [])
    (hst : ∀ id, p.pid = some id → storeHas id c.s.store = false) :
    ∀ q id, Ev.send q (some id) ∈ (send c p).ev → storeHas id (send c p).s.store = false := by
  intro q id hm
  have hmem := r5_mem_hs hm
  rcases C06_hint_shape_publish c p hk with h | ⟨j, hj, h, hs⟩
  · rw [h, hev] at hmem; cases hmem
  · rw [h, hev] at hmem
    simp only [List.nil_append, List.mem_singleton] at hmem
    subst hmem
    rw [hs]; exact hst id hj

/-- the same for one API call, PUBLISH or PUBREL -/
theorem C06_hint_never_names_stored_step (cfg : Cfg) (s : St) (p : Pkt)
    (hk : p.kind = .publish ∨ p.kind = .pubrel)
    (hst : p.kind = .publish → ∀ id, p.pid = some id → storeHas id s.store = false) :
    ∀ q id, Ev.send q (some id) ∈ (step cfg s (.send p)).ev →
      storeHas id (step cfg s (.send p)).s.store = false := by
  rcases hk with hk | hk
  · exact C06_hint_never_names_stored_partial { cfg := cfg, s := s } p hk rfl (hst hk)
  · intro q id hm
    have := r5_mem_hs hm
    have e : r5_hs (step cfg s (.send p)).ev = [] :=
      C06_hint_never_names_stored_pubrel { cfg := cfg, s := s } p hk
    rw [e] at this; cases this

/-- where the extra hypothesis comes from: the `send` contract (`IdFresh`: the identifier awaits
    no response) on a state whose stored identifiers are all awaited (`StoreInv`) -/
theorem C06_hint_never_names_stored_contract (cfg : Cfg) (s : St) (p : Pkt) (hk : p.kind = .publish)
    (hinv : ∀ x ∈ s.store, x.1 ∈ s.puback ∨ x.1 ∈ s.pubrec ∨ x.1 ∈ s.pubcomp)
    (hfresh : ∀ id, p.pid = some id → id ∉ s.puback ∧ id ∉ s.pubrec ∧ id ∉ s.pubcomp) :
    ∀ q id, Ev.send q (some id) ∈ (step cfg s (.send p)).ev →
      storeHas id (step cfg s (.send p)).s.store = false := by
  refine C06_hint_never_names_stored_step cfg s p (.inl hk) (fun _ id hid => ?_)
  obtain ⟨f1, f2, f3⟩ := hfresh id hid
  cases h : storeHas id s.store with
  | false => rfl
  | true =>
    exfalso
    simp only [storeHas, List.any_eq_true, decide_eq_true_eq] at h
    obtain ⟨x, hx, rfl⟩ := h
    rcases hinv x hx with h | h | h
    · exact f1 h
    · exact f2 h
    · exact f3 h

/-! ## the counter-example and non-vacuity: states reached by running the model from `St.init` -/
namespace C06R5Ex
def cfg : Cfg := { role := .client, pw := 2 }
def connect (props : List (Nat × Nat)) : Pkt :=
  { ver := 5, kind := .connect, size := 20, keepAlive := 0, clean := false, props := props }
def connack (sp : Bool) : Pkt := { ver := 5, kind := .connack, size := 5, rc := some 0, sp := sp }
def pub (tag : Nat) : Pkt :=
  { ver := 5, kind := .publish, qos := 1, pid := some 1, topic := [97], payloadLen := 1, tag := tag }
def parse (sp : Bool) : Nat → Nat → List Nat → Except Nat Pkt := fun _ _ _ => .ok (connack sp)

/-- session 1 with Session Expiry Interval 60: packet 1 is sent and stored; the transport closes;
    session resumed by a CONNECT without Session Expiry Interval (nothing new will be stored),
    CONNACK with session present: packet 1 is resent, still stored, still awaited -/
def s : St := run cfg (St.init cfg 5)
  [.send (connect [(pSEI, 60)]), .recv [0x20, 0x03, 0x00, 0x00, 0x00] (parse false),
   .acquire, .send (pub 0), .closed,
   .send (connect []), .recv [0x20, 0x03, 0x01, 0x00, 0x00] (parse true)]

example : Reachable cfg 5 s := ⟨_, rfl⟩
example : s.status = .connected ∧ s.needStore = false ∧ s.store = [(1, { pub 0 with dup := true })] ∧
    s.puback = [1] ∧ isUsed s 1 = true := by decide

/-- **counter-example to the statement without the extra hypothesis**: on the reachable state `s`
    a `send` of a (new) QoS 1 PUBLISH under the identifier 1 yields a `RequestSendPacket` whose hint
    names 1, and a packet with identifier 1 is in the resulting store.  The call breaks the `send`
    contract: identifier 1 awaits a PUBACK (`1 ∈ s.puback`), the application did not obtain it. -/
theorem C06_r5_counterexample_hint_names_stored :
    Ev.send (pub 7) (some 1) ∈ (step cfg s (.send (pub 7))).ev ∧
    storeHas 1 (step cfg s (.send (pub 7))).s.store = true ∧
    (pub 7).kind = .publish ∧ (pub 7).qos = 1 ∧ 1 ∈ s.puback := by decide

/-- non-vacuity of the partial theorem: a fresh identifier on the same state — the hint names it,
    and it is not stored -/
def pub2 : Pkt := { pub 7 with pid := some 2 }
def s2 : St := (step cfg s .acquire).s
example : isUsed s2 2 = true ∧ storeHas 2 s2.store = false := by decide
example : (step cfg s2 (.send pub2)).ev = [.send pub2 (some 2)] ∧
    storeHas 2 (step cfg s2 (.send pub2)).s.store = false := by decide
example : ∀ q id, Ev.send q (some id) ∈ (step cfg s2 (.send pub2)).ev →
    storeHas id (step cfg s2 (.send pub2)).s.store = false :=
  C06_hint_never_names_stored_step cfg s2 pub2 (.inl rfl) (fun _ id h => by cases h; decide)
/-- … and of the stored branch: in session 1 the PUBLISH is stored and carries no hint -/
def s1 : St := run cfg (St.init cfg 5)
  [.send (connect [(pSEI, 60)]), .recv [0x20, 0x03, 0x00, 0x00, 0x00] (parse false), .acquire]
example : (step cfg s1 (.send (pub 0))).ev = [.send (pub 0) none] ∧
    storeHas 1 (step cfg s1 (.send (pub 0))).s.store = true := by decide
/-- a PUBREL never carries a hint -/
example : (step cfg s2 (.send { ver := 5, kind := .pubrel, size := 4, pid := some 2 })).ev
    = [.send { ver := 5, kind := .pubrel, size := 4, pid := some 2 } none] := by decide
end C06R5Ex

end MqttVerif.Conn
